import NoteSeqVerif.Model.C11
/-! GENERATED from note_seq.sequences_lib on every run by gen/refir.py (harness/c11.py) — do not edit.
Reference / mutation IR of the sequence operations.  `ix` maps the global operation number used in the
bodies to the position of that operation in the program slice being checked.  The lists after `.loop`
and the contracts are PROPOSALS of the translator, verified by `pureProg`.  An operation called with
arguments of different provenance appears once per provenance vector (`name@FB` = first argument freshly
allocated by the caller, second anything): same body, call targets and invariants chosen for that context. -/
namespace NSV.C11.Gen
open NSV.C11
set_option linter.unusedVariables false

abbrev N := AbsVal.bot
abbrev I := AbsVal.input
abbrev F := AbsVal.fresh
abbrev B := AbsVal.both

/-- `is_quantized_sequence` (sequences_lib.py:637)  params: note_sequence
variables: 0=note_sequence
-/
def op_is_quantized_sequence (ix : Nat → Nat) : OpDef := ⟨"is_quantized_sequence", 1,
  .block [
    .assign 0 (.param 0),
    .ret .scalar]⟩
def ct_is_quantized_sequence : Contract := ⟨[B], N⟩

/-- `trim_note_sequence` (sequences_lib.py:89)  params: sequence, start_time, end_time
variables: 0=sequence 1=start_time 2=end_time 3=new_note 4=note 5=subsequence 6=_r107 7=%it115_14
-/
def op_trim_note_sequence (ix : Nat → Nat) : OpDef := ⟨"trim_note_sequence", 3,
  .block [
    .assign 0 (.param 0),
    .assign 1 (.param 1),
    .assign 2 (.param 2),
    .callOp 107 6 (ix 0) [(.var 0)],
    .ite (
      .raise) (
      .skip),
    .assign 5 .fresh,
    .write 112 (.var 5),
    .write 114 (.field (.var 5)),
    .assign 7 (.field (.var 0)),
    .loop [B, B, B, F, B, F, N, B] (
      .block [
        .assign 4 (.elem (.var 7)),
        .ite (
          .skip) (
          .block [
            .write 118 (.field (.var 5)),
            .assign 3 (.elem (.field (.var 5))),
            .write 119 (.var 3),
            .write 120 (.var 3)])]),
    .write 122 (.var 5),
    .ret (.var 5)]⟩
def ct_trim_note_sequence : Contract := ⟨[B, B, B], F⟩

/-- `_extract_subsequences` (sequences_lib.py:134)  params: sequence, split_times, preserve_control_numbers
variables: 0=sequence 1=split_times 2=preserve_control_numbers 3=containers 4=event 5=events 6=events_by_type 7=new_event_containers 8=new_stateless_event_containers 9=note 10=pedal_event 11=pedal_events 12=previous_event 13=previous_pedal_event 14=previous_pedal_events 15=start_time 16=stateless_events_by_type 17=subsequence 18=subsequence_index 19=subsequences 20=_r159 21=_acc165 22=t1@165 23=t2@165 24=%it165_31 25=_acc167 26=time@167 27=%it167_49 28=_acc186 29=_@186 30=%it186_42 31=note@key192 32=%it192_14 33=_acc217 34=annotation@217 35=%it217_39 36=_acc222 37=s@222 38=%it222_54 39=_acc223 40=s@223 41=%it223_53 42=_acc224 43=s@224 44=%it224_45 45=_acc225 46=s@225 47=%it225_55 48=%it227_28 49=event@key230 50=%it230_17 51=_acc261 52=annotation@261 53=%it261_35 54=_acc265 55=s@265 56=%it265_65 57=%it266_28 58=event@key269 59=%it269_17 60=_acc283 61=cc@283 62=%it283_19 63=event@key289 64=%it289_21 65=_t291 66=%it300_34 67=_t312 68=%it318_32 69=%it324_33
-/
def op__extract_subsequences (ix : Nat → Nat) : OpDef := ⟨"_extract_subsequences", 3,
  .block [
    .assign 0 (.param 0),
    .assign 1 (.param 1),
    .assign 2 (.param 2),
    .callOp 159 20 (ix 0) [(.var 0)],
    .ite (
      .raise) (
      .skip),
    .ite (
      .raise) (
      .skip),
    .assign 21 .scalar,
    .assign 24 (.tuple [(.var 1), (.var 1)]),
    .loop [B, B, B, N, N, N, N, N, N, N, N, N, N, N, N, N, N, N, N, N, N, N, B, B, B] (
      .block [
        .assign 22 (.elem (.var 1)),
        .assign 23 (.elem (.var 1))]),
    .ite (
      .raise) (
      .skip),
    .assign 25 .scalar,
    .assign 27 (.var 1),
    .loop [B, B, B, N, N, N, N, N, N, N, N, N, N, N, N, N, N, N, N, N, N, N, B, B, B, N, B, B] (
      .assign 26 (.elem (.var 27))),
    .ite (
      .raise) (
      .skip),
    .ite (
      .assign 2 .scalar) (
      .skip),
    .assign 17 .fresh,
    .write 174 (.var 17),
    .write 176 (.var 17),
    .write 178 (.field (.var 17)),
    .write 179 (.field (.var 17)),
    .write 180 (.field (.var 17)),
    .write 181 (.field (.var 17)),
    .write 182 (.field (.var 17)),
    .write 183 (.field (.var 17)),
    .write 184 (.field (.var 17)),
    .assign 28 .scalar,
    .assign 30 .scalar,
    .loop [B, B, B, N, N, N, N, N, N, N, N, N, N, N, N, N, N, F, N, N, N, N, B, B, B, N, B, B, F, N, N] (
      .block [
        .assign 29 (.elem (.var 30)),
        .assign 28 (.tuple [(.var 28), (.copyOf (.var 17))])]),
    .assign 19 (.var 28),
    .assign 18 .scalar,
    .assign 32 (.field (.var 0)),
    .loop [B, B, B, N, N, N, N, N, N, B, N, N, N, N, N, N, N, F, N, F, N, N, B, B, B, N, B, B, F, N, N, N, B] (
      .block [
        .assign 9 (.elem (.var 32)),
        .ite (
          .skip) (
          .ite (
            .skip) (
            .block [
              .write 200 (.field (.elem (.var 19))),
              .write 201 (.elem (.field (.elem (.var 19)))),
              .write 203 (.elem (.field (.elem (.var 19)))),
              .ite (
                .write 208 (.elem (.var 19))) (
                .skip)]))]),
    .assign 33 .scalar,
    .assign 35 (.field (.var 0)),
    .loop [B, B, B, N, N, N, N, N, N, B, N, N, N, N, N, N, N, F, N, F, N, N, B, B, B, N, B, B, F, N, N, N, B, B, B, B] (
      .block [
        .assign 34 (.elem (.var 35)),
        .ite (
          .assign 33 (.tuple [(.var 33), (.var 34)])) (
          .skip)]),
    .assign 6 (.tuple [(.field (.var 0)), (.field (.var 0)), (.field (.var 0)), (.var 33)]),
    .assign 36 .scalar,
    .assign 38 (.var 19),
    .loop [B, B, B, N, N, N, B, N, N, B, N, N, N, N, N, N, N, F, N, F, N, N, B, B, B, N, B, B, F, N, N, N, B, B, B, B, F, F, F] (
      .block [
        .assign 37 (.elem (.var 38)),
        .assign 36 (.tuple [(.var 36), (.field (.var 37))])]),
    .assign 39 .scalar,
    .assign 41 (.var 19),
    .loop [B, B, B, N, N, N, B, N, N, B, N, N, N, N, N, N, N, F, N, F, N, N, B, B, B, N, B, B, F, N, N, N, B, B, B, B, F, F, F, F, F, F] (
      .block [
        .assign 40 (.elem (.var 41)),
        .assign 39 (.tuple [(.var 39), (.field (.var 40))])]),
    .assign 42 .scalar,
    .assign 44 (.var 19),
    .loop [B, B, B, N, N, N, B, N, N, B, N, N, N, N, N, N, N, F, N, F, N, N, B, B, B, N, B, B, F, N, N, N, B, B, B, B, F, F, F, F, F, F, F, F, F] (
      .block [
        .assign 43 (.elem (.var 44)),
        .assign 42 (.tuple [(.var 42), (.field (.var 43))])]),
    .assign 45 .scalar,
    .assign 47 (.var 19),
    .loop [B, B, B, N, N, N, B, N, N, B, N, N, N, N, N, N, N, F, N, F, N, N, B, B, B, N, B, B, F, N, N, N, B, B, B, B, F, F, F, F, F, F, F, F, F, F, F, F] (
      .block [
        .assign 46 (.elem (.var 47)),
        .assign 45 (.tuple [(.var 45), (.field (.var 46))])]),
    .assign 7 (.tuple [(.var 36), (.var 39), (.var 42), (.var 45)]),
    .assign 48 (.tuple [(.var 6), (.var 7)]),
    .loop [B, B, B, F, B, B, B, F, N, B, N, N, B, N, N, N, N, F, N, F, N, N, B, B, B, N, B, B, F, N, N, N, B, B, B, B, F, F, F, F, F, F, F, F, F, F, F, F, B, N, B] (
      .block [
        .assign 5 (.elem (.var 6)),
        .assign 3 (.elem (.var 7)),
        .assign 12 .scalar,
        .assign 18 .scalar,
        .assign 50 (.var 5),
        .loop [B, B, B, F, B, B, B, F, N, B, N, N, B, N, N, N, N, F, N, F, N, N, B, B, B, N, B, B, F, N, N, N, B, B, B, B, F, F, F, F, F, F, F, F, F, F, F, F, B, N, B] (
          .block [
            .assign 4 (.elem (.var 50)),
            .ite (
              .assign 12 (.var 4)) (
              .skip),
            .ite (
              .skip) (
              .block [
                .loop [B, B, B, F, B, B, B, F, N, B, N, N, B, N, N, N, N, F, N, F, N, N, B, B, B, N, B, B, F, N, N, N, B, B, B, B, F, F, F, F, F, F, F, F, F, F, F, F, B, N, B] (
                  .ite (
                    .skip) (
                    .ite (
                      .block [
                        .write 241 (.elem (.var 3)),
                        .write 242 (.elem (.elem (.var 3)))]) (
                      .skip))),
                .ite (
                  .skip) (
                  .block [
                    .ite (
                      .block [
                        .write 248 (.elem (.var 3)),
                        .write 249 (.elem (.elem (.var 3)))]) (
                      .skip),
                    .assign 12 (.var 4)])])]),
        .loop [B, B, B, F, B, B, B, F, N, B, N, N, B, N, N, N, N, F, N, F, N, N, B, B, B, N, B, B, F, N, N, N, B, B, B, B, F, F, F, F, F, F, F, F, F, F, F, F, B, N, B] (
          .ite (
            .block [
              .write 255 (.elem (.var 3)),
              .write 256 (.elem (.elem (.var 3)))]) (
            .skip))]),
    .assign 51 .scalar,
    .assign 53 (.field (.var 0)),
    .loop [B, B, B, F, B, B, B, F, N, B, N, N, B, N, N, N, N, F, N, F, N, N, B, B, B, N, B, B, F, N, N, N, B, B, B, B, F, F, F, F, F, F, F, F, F, F, F, F, B, N, B, B, B, B] (
      .block [
        .assign 52 (.elem (.var 53)),
        .ite (
          .assign 51 (.tuple [(.var 51), (.var 52)])) (
          .skip)]),
    .assign 16 (.var 51),
    .assign 54 .scalar,
    .assign 56 (.var 19),
    .loop [B, B, B, F, B, B, B, F, N, B, N, N, B, N, N, N, B, F, N, F, N, N, B, B, B, N, B, B, F, N, N, N, B, B, B, B, F, F, F, F, F, F, F, F, F, F, F, F, B, N, B, B, B, B, F, F, F] (
      .block [
        .assign 55 (.elem (.var 56)),
        .assign 54 (.tuple [(.var 54), (.field (.var 55))])]),
    .assign 8 (.var 54),
    .assign 57 (.tuple [(.var 16), (.var 8)]),
    .loop [B, B, B, F, B, B, B, F, F, B, N, N, B, N, N, N, B, F, N, F, N, N, B, B, B, N, B, B, F, N, N, N, B, B, B, B, F, F, F, F, F, F, F, F, F, F, F, F, B, N, B, B, B, B, F, F, F, B, N, B] (
      .block [
        .assign 5 (.elem (.var 16)),
        .assign 3 (.elem (.var 8)),
        .assign 18 .scalar,
        .assign 59 (.var 5),
        .loop [B, B, B, F, B, B, B, F, F, B, N, N, B, N, N, N, B, F, N, F, N, N, B, B, B, N, B, B, F, N, N, N, B, B, B, B, F, F, F, F, F, F, F, F, F, F, F, F, B, N, B, B, B, B, F, F, F, B, N, B] (
          .block [
            .assign 4 (.elem (.var 59)),
            .ite (
              .skip) (
              .ite (
                .skip) (
                .block [
                  .write 277 (.elem (.var 3)),
                  .write 278 (.elem (.elem (.var 3)))]))])]),
    .assign 60 .scalar,
    .assign 62 (.field (.var 0)),
    .loop [B, B, B, F, B, B, B, F, F, B, N, N, B, N, N, N, B, F, N, F, N, N, B, B, B, N, B, B, F, N, N, N, B, B, B, B, F, F, F, F, F, F, F, F, F, F, F, F, B, N, B, B, B, B, F, F, F, B, N, B, B, B, B] (
      .block [
        .assign 61 (.elem (.var 62)),
        .ite (
          .assign 60 (.tuple [(.var 60), (.var 61)])) (
          .skip)]),
    .assign 11 (.var 60),
    .assign 14 .scalar,
    .assign 18 .scalar,
    .assign 64 (.var 11),
    .loop [B, B, B, F, B, B, B, F, F, B, B, B, B, B, B, N, B, F, N, F, N, N, B, B, B, N, B, B, F, N, N, N, B, B, B, B, F, F, F, F, F, F, F, F, F, F, F, F, B, N, B, B, B, B, F, F, F, B, N, B, B, B, B, N, B, B, B, B] (
      .block [
        .assign 10 (.elem (.var 64)),
        .ite (
          .block [
            .assign 65 (.var 10),
            .assign 14 (.tuple [(.var 14), (.var 65)])]) (
          .skip),
        .ite (
          .skip) (
          .block [
            .loop [B, B, B, F, B, B, B, F, F, B, B, B, B, B, B, N, B, F, N, F, N, N, B, B, B, N, B, B, F, N, N, N, B, B, B, B, F, F, F, F, F, F, F, F, F, F, F, F, B, N, B, B, B, B, F, F, F, B, N, B, B, B, B, N, B, B, B, B] (
              .ite (
                .skip) (
                .block [
                  .assign 66 (.var 14),
                  .loop [B, B, B, F, B, B, B, F, F, B, B, B, B, B, B, N, B, F, N, F, N, N, B, B, B, N, B, B, F, N, N, N, B, B, B, B, F, F, F, F, F, F, F, F, F, F, F, F, B, N, B, B, B, B, F, F, F, B, N, B, B, B, B, N, B, B, B, B] (
                    .block [
                      .assign 13 (.elem (.var 66)),
                      .write 301 (.field (.elem (.var 19))),
                      .write 303 (.elem (.field (.elem (.var 19))))])])),
            .ite (
              .skip) (
              .block [
                .ite (
                  .block [
                    .write 309 (.field (.elem (.var 19))),
                    .write 310 (.elem (.field (.elem (.var 19))))]) (
                  .skip),
                .assign 67 (.var 10),
                .assign 14 (.tuple [(.var 14), (.var 67)]),
                .assign 66 (.tuple [(.var 66), (.var 67)])])])]),
    .loop [B, B, B, F, B, B, B, F, F, B, B, B, B, B, B, N, B, F, N, F, N, N, B, B, B, N, B, B, F, N, N, N, B, B, B, B, F, F, F, F, F, F, F, F, F, F, F, F, B, N, B, B, B, B, F, F, F, B, N, B, B, B, B, N, B, B, B, B, B] (
      .block [
        .assign 68 (.var 14),
        .loop [B, B, B, F, B, B, B, F, F, B, B, B, B, B, B, N, B, F, N, F, N, N, B, B, B, N, B, B, F, N, N, N, B, B, B, B, F, F, F, F, F, F, F, F, F, F, F, F, B, N, B, B, B, B, F, F, F, B, N, B, B, B, B, N, B, B, B, B, B] (
          .block [
            .assign 13 (.elem (.var 68)),
            .write 319 (.field (.elem (.var 19))),
            .write 321 (.elem (.field (.elem (.var 19))))])]),
    .assign 69 (.tuple [(.var 19), (.var 1)]),
    .loop [B, B, B, F, B, B, B, F, F, B, B, B, B, B, B, B, B, F, N, F, N, N, B, B, B, N, B, B, F, N, N, N, B, B, B, B, F, F, F, F, F, F, F, F, F, F, F, F, B, N, B, B, B, B, F, F, F, B, N, B, B, B, B, N, B, B, B, B, B, B] (
      .block [
        .assign 17 (.elem (.var 19)),
        .assign 15 (.elem (.var 1)),
        .write 325 (.field (.var 17)),
        .write 326 (.field (.var 17))]),
    .ret (.var 19)]⟩
def ct__extract_subsequences : Contract := ⟨[B, B, B], F⟩

/-- `_extract_subsequences__KU_LU_U` (sequences_lib.py:134)  params: sequence, split_times, preserve_control_numbers
variables: 0=sequence 1=split_times 2=preserve_control_numbers 3=containers 4=event 5=events 6=events_by_type 7=new_event_containers 8=new_stateless_event_containers 9=note 10=pedal_event 11=pedal_events 12=previous_event 13=previous_pedal_event 14=previous_pedal_events 15=start_time 16=stateless_events_by_type 17=subsequence 18=subsequence_index 19=subsequences 20=_r159 21=_acc165 22=t1@165 23=t2@165 24=%it165_31 25=_acc167 26=time@167 27=%it167_49 28=_acc186 29=_@186 30=%it186_42 31=note@key192 32=%it192_14 33=_acc217 34=annotation@217 35=%it217_39 36=_acc222 37=s@222 38=%it222_54 39=_acc223 40=s@223 41=%it223_53 42=_acc224 43=s@224 44=%it224_45 45=_acc225 46=s@225 47=%it225_55 48=%it227_28 49=event@key230 50=%it230_17 51=_acc261 52=annotation@261 53=%it261_35 54=_acc265 55=s@265 56=%it265_65 57=%it266_28 58=event@key269 59=%it269_17 60=_acc283 61=cc@283 62=%it283_19 63=event@key289 64=%it289_21 65=_t291 66=%it300_34 67=_t312 68=%it318_32 69=%it324_33
-/
def op__extract_subsequences__KU_LU_U (ix : Nat → Nat) : OpDef := ⟨"_extract_subsequences__KU_LU_U", 3,
  .block [
    .assign 0 (.param 0),
    .assign 1 (.param 1),
    .assign 2 (.param 2),
    .callOp 159 20 (ix 0) [(.var 0)],
    .ite (
      .raise) (
      .skip),
    .ite (
      .raise) (
      .skip),
    .assign 21 .scalar,
    .assign 24 (.tuple [(.var 1), (.var 1)]),
    .loop [B, B, B, N, N, N, N, N, N, N, N, N, N, N, N, N, N, N, N, N, N, N, B, B, B] (
      .block [
        .assign 22 (.elem (.var 1)),
        .assign 23 (.elem (.var 1))]),
    .ite (
      .raise) (
      .skip),
    .assign 25 .scalar,
    .assign 27 (.var 1),
    .loop [B, B, B, N, N, N, N, N, N, N, N, N, N, N, N, N, N, N, N, N, N, N, B, B, B, N, B, B] (
      .assign 26 (.elem (.var 27))),
    .ite (
      .raise) (
      .skip),
    .ite (
      .assign 2 .scalar) (
      .skip),
    .assign 17 .fresh,
    .write 174 (.var 17),
    .write 176 (.var 17),
    .write 178 (.field (.var 17)),
    .write 179 (.field (.var 17)),
    .write 180 (.field (.var 17)),
    .write 181 (.field (.var 17)),
    .write 182 (.field (.var 17)),
    .write 183 (.field (.var 17)),
    .write 184 (.field (.var 17)),
    .assign 28 .scalar,
    .assign 30 .scalar,
    .loop [B, B, B, N, N, N, N, N, N, N, N, N, N, N, N, N, N, F, N, N, N, N, B, B, B, N, B, B, F, N, N] (
      .block [
        .assign 29 (.elem (.var 30)),
        .assign 28 (.tuple [(.var 28), (.copyOf (.var 17))])]),
    .assign 19 (.var 28),
    .assign 18 .scalar,
    .assign 32 (.field (.var 0)),
    .loop [B, B, B, N, N, N, N, N, N, B, N, N, N, N, N, N, N, F, N, F, N, N, B, B, B, N, B, B, F, N, N, N, B] (
      .block [
        .assign 9 (.elem (.var 32)),
        .ite (
          .skip) (
          .ite (
            .skip) (
            .block [
              .write 200 (.field (.elem (.var 19))),
              .write 201 (.elem (.field (.elem (.var 19)))),
              .write 203 (.elem (.field (.elem (.var 19)))),
              .ite (
                .write 208 (.elem (.var 19))) (
                .skip)]))]),
    .assign 33 .scalar,
    .assign 35 (.field (.var 0)),
    .loop [B, B, B, N, N, N, N, N, N, B, N, N, N, N, N, N, N, F, N, F, N, N, B, B, B, N, B, B, F, N, N, N, B, B, B, B] (
      .block [
        .assign 34 (.elem (.var 35)),
        .ite (
          .assign 33 (.tuple [(.var 33), (.var 34)])) (
          .skip)]),
    .assign 6 (.tuple [(.field (.var 0)), (.field (.var 0)), (.field (.var 0)), (.var 33)]),
    .assign 36 .scalar,
    .assign 38 (.var 19),
    .loop [B, B, B, N, N, N, B, N, N, B, N, N, N, N, N, N, N, F, N, F, N, N, B, B, B, N, B, B, F, N, N, N, B, B, B, B, F, F, F] (
      .block [
        .assign 37 (.elem (.var 38)),
        .assign 36 (.tuple [(.var 36), (.field (.var 37))])]),
    .assign 39 .scalar,
    .assign 41 (.var 19),
    .loop [B, B, B, N, N, N, B, N, N, B, N, N, N, N, N, N, N, F, N, F, N, N, B, B, B, N, B, B, F, N, N, N, B, B, B, B, F, F, F, F, F, F] (
      .block [
        .assign 40 (.elem (.var 41)),
        .assign 39 (.tuple [(.var 39), (.field (.var 40))])]),
    .assign 42 .scalar,
    .assign 44 (.var 19),
    .loop [B, B, B, N, N, N, B, N, N, B, N, N, N, N, N, N, N, F, N, F, N, N, B, B, B, N, B, B, F, N, N, N, B, B, B, B, F, F, F, F, F, F, F, F, F] (
      .block [
        .assign 43 (.elem (.var 44)),
        .assign 42 (.tuple [(.var 42), (.field (.var 43))])]),
    .assign 45 .scalar,
    .assign 47 (.var 19),
    .loop [B, B, B, N, N, N, B, N, N, B, N, N, N, N, N, N, N, F, N, F, N, N, B, B, B, N, B, B, F, N, N, N, B, B, B, B, F, F, F, F, F, F, F, F, F, F, F, F] (
      .block [
        .assign 46 (.elem (.var 47)),
        .assign 45 (.tuple [(.var 45), (.field (.var 46))])]),
    .assign 7 (.tuple [(.var 36), (.var 39), (.var 42), (.var 45)]),
    .assign 48 (.tuple [(.var 6), (.var 7)]),
    .loop [B, B, B, F, B, B, B, F, N, B, N, N, B, N, N, N, N, F, N, F, N, N, B, B, B, N, B, B, F, N, N, N, B, B, B, B, F, F, F, F, F, F, F, F, F, F, F, F, B, N, B] (
      .block [
        .assign 5 (.elem (.var 6)),
        .assign 3 (.elem (.var 7)),
        .assign 12 .scalar,
        .assign 18 .scalar,
        .assign 50 (.var 5),
        .loop [B, B, B, F, B, B, B, F, N, B, N, N, B, N, N, N, N, F, N, F, N, N, B, B, B, N, B, B, F, N, N, N, B, B, B, B, F, F, F, F, F, F, F, F, F, F, F, F, B, N, B] (
          .block [
            .assign 4 (.elem (.var 50)),
            .ite (
              .assign 12 (.var 4)) (
              .skip),
            .ite (
              .skip) (
              .block [
                .loop [B, B, B, F, B, B, B, F, N, B, N, N, B, N, N, N, N, F, N, F, N, N, B, B, B, N, B, B, F, N, N, N, B, B, B, B, F, F, F, F, F, F, F, F, F, F, F, F, B, N, B] (
                  .ite (
                    .skip) (
                    .ite (
                      .block [
                        .write 241 (.elem (.var 3)),
                        .write 242 (.elem (.elem (.var 3)))]) (
                      .skip))),
                .ite (
                  .skip) (
                  .block [
                    .ite (
                      .block [
                        .write 248 (.elem (.var 3)),
                        .write 249 (.elem (.elem (.var 3)))]) (
                      .skip),
                    .assign 12 (.var 4)])])]),
        .loop [B, B, B, F, B, B, B, F, N, B, N, N, B, N, N, N, N, F, N, F, N, N, B, B, B, N, B, B, F, N, N, N, B, B, B, B, F, F, F, F, F, F, F, F, F, F, F, F, B, N, B] (
          .ite (
            .block [
              .write 255 (.elem (.var 3)),
              .write 256 (.elem (.elem (.var 3)))]) (
            .skip))]),
    .assign 51 .scalar,
    .assign 53 (.field (.var 0)),
    .loop [B, B, B, F, B, B, B, F, N, B, N, N, B, N, N, N, N, F, N, F, N, N, B, B, B, N, B, B, F, N, N, N, B, B, B, B, F, F, F, F, F, F, F, F, F, F, F, F, B, N, B, B, B, B] (
      .block [
        .assign 52 (.elem (.var 53)),
        .ite (
          .assign 51 (.tuple [(.var 51), (.var 52)])) (
          .skip)]),
    .assign 16 (.var 51),
    .assign 54 .scalar,
    .assign 56 (.var 19),
    .loop [B, B, B, F, B, B, B, F, N, B, N, N, B, N, N, N, B, F, N, F, N, N, B, B, B, N, B, B, F, N, N, N, B, B, B, B, F, F, F, F, F, F, F, F, F, F, F, F, B, N, B, B, B, B, F, F, F] (
      .block [
        .assign 55 (.elem (.var 56)),
        .assign 54 (.tuple [(.var 54), (.field (.var 55))])]),
    .assign 8 (.var 54),
    .assign 57 (.tuple [(.var 16), (.var 8)]),
    .loop [B, B, B, F, B, B, B, F, F, B, N, N, B, N, N, N, B, F, N, F, N, N, B, B, B, N, B, B, F, N, N, N, B, B, B, B, F, F, F, F, F, F, F, F, F, F, F, F, B, N, B, B, B, B, F, F, F, B, N, B] (
      .block [
        .assign 5 (.elem (.var 16)),
        .assign 3 (.elem (.var 8)),
        .assign 18 .scalar,
        .assign 59 (.var 5),
        .loop [B, B, B, F, B, B, B, F, F, B, N, N, B, N, N, N, B, F, N, F, N, N, B, B, B, N, B, B, F, N, N, N, B, B, B, B, F, F, F, F, F, F, F, F, F, F, F, F, B, N, B, B, B, B, F, F, F, B, N, B] (
          .block [
            .assign 4 (.elem (.var 59)),
            .ite (
              .skip) (
              .ite (
                .skip) (
                .block [
                  .write 277 (.elem (.var 3)),
                  .write 278 (.elem (.elem (.var 3)))]))])]),
    .assign 60 .scalar,
    .assign 62 (.field (.var 0)),
    .loop [B, B, B, F, B, B, B, F, F, B, N, N, B, N, N, N, B, F, N, F, N, N, B, B, B, N, B, B, F, N, N, N, B, B, B, B, F, F, F, F, F, F, F, F, F, F, F, F, B, N, B, B, B, B, F, F, F, B, N, B, B, B, B] (
      .block [
        .assign 61 (.elem (.var 62)),
        .ite (
          .assign 60 (.tuple [(.var 60), (.var 61)])) (
          .skip)]),
    .assign 11 (.var 60),
    .assign 14 .scalar,
    .assign 18 .scalar,
    .assign 64 (.var 11),
    .loop [B, B, B, F, B, B, B, F, F, B, B, B, B, B, B, N, B, F, N, F, N, N, B, B, B, N, B, B, F, N, N, N, B, B, B, B, F, F, F, F, F, F, F, F, F, F, F, F, B, N, B, B, B, B, F, F, F, B, N, B, B, B, B, N, B, B, B, B] (
      .block [
        .assign 10 (.elem (.var 64)),
        .ite (
          .block [
            .assign 65 (.var 10),
            .assign 14 (.tuple [(.var 14), (.var 65)])]) (
          .skip),
        .ite (
          .skip) (
          .block [
            .loop [B, B, B, F, B, B, B, F, F, B, B, B, B, B, B, N, B, F, N, F, N, N, B, B, B, N, B, B, F, N, N, N, B, B, B, B, F, F, F, F, F, F, F, F, F, F, F, F, B, N, B, B, B, B, F, F, F, B, N, B, B, B, B, N, B, B, B, B] (
              .ite (
                .skip) (
                .block [
                  .assign 66 (.var 14),
                  .loop [B, B, B, F, B, B, B, F, F, B, B, B, B, B, B, N, B, F, N, F, N, N, B, B, B, N, B, B, F, N, N, N, B, B, B, B, F, F, F, F, F, F, F, F, F, F, F, F, B, N, B, B, B, B, F, F, F, B, N, B, B, B, B, N, B, B, B, B] (
                    .block [
                      .assign 13 (.elem (.var 66)),
                      .write 301 (.field (.elem (.var 19))),
                      .write 303 (.elem (.field (.elem (.var 19))))])])),
            .ite (
              .skip) (
              .block [
                .ite (
                  .block [
                    .write 309 (.field (.elem (.var 19))),
                    .write 310 (.elem (.field (.elem (.var 19))))]) (
                  .skip),
                .assign 67 (.var 10),
                .assign 14 (.tuple [(.var 14), (.var 67)]),
                .assign 66 (.tuple [(.var 66), (.var 67)])])])]),
    .loop [B, B, B, F, B, B, B, F, F, B, B, B, B, B, B, N, B, F, N, F, N, N, B, B, B, N, B, B, F, N, N, N, B, B, B, B, F, F, F, F, F, F, F, F, F, F, F, F, B, N, B, B, B, B, F, F, F, B, N, B, B, B, B, N, B, B, B, B, B] (
      .block [
        .assign 68 (.var 14),
        .loop [B, B, B, F, B, B, B, F, F, B, B, B, B, B, B, N, B, F, N, F, N, N, B, B, B, N, B, B, F, N, N, N, B, B, B, B, F, F, F, F, F, F, F, F, F, F, F, F, B, N, B, B, B, B, F, F, F, B, N, B, B, B, B, N, B, B, B, B, B] (
          .block [
            .assign 13 (.elem (.var 68)),
            .write 319 (.field (.elem (.var 19))),
            .write 321 (.elem (.field (.elem (.var 19))))])]),
    .assign 69 (.tuple [(.var 19), (.var 1)]),
    .loop [B, B, B, F, B, B, B, F, F, B, B, B, B, B, B, B, B, F, N, F, N, N, B, B, B, N, B, B, F, N, N, N, B, B, B, B, F, F, F, F, F, F, F, F, F, F, F, F, B, N, B, B, B, B, F, F, F, B, N, B, B, B, B, N, B, B, B, B, B, B] (
      .block [
        .assign 17 (.elem (.var 19)),
        .assign 15 (.elem (.var 1)),
        .write 325 (.field (.var 17)),
        .write 326 (.field (.var 17))]),
    .ret (.var 19)]⟩
def ct__extract_subsequences__KU_LU_U : Contract := ⟨[B, B, B], F⟩

/-- `extract_subsequence` (sequences_lib.py:332)  params: sequence, start_time, end_time, preserve_control_numbers
variables: 0=sequence 1=start_time 2=end_time 3=preserve_control_numbers 4=_r368
-/
def op_extract_subsequence (ix : Nat → Nat) : OpDef := ⟨"extract_subsequence", 4,
  .block [
    .assign 0 (.param 0),
    .assign 1 (.param 1),
    .assign 2 (.param 2),
    .assign 3 (.param 3),
    .callOp 368 4 (ix 3) [(.var 0), (.tuple [(.var 1), (.var 2)]), (.var 3)],
    .ret (.elem (.var 4))]⟩
def ct_extract_subsequence : Contract := ⟨[B, B, B, B], F⟩

/-- `_extract_subsequences__KU_LU_U@BBN` (sequences_lib.py:134)  params: sequence, split_times, preserve_control_numbers
variables: 0=sequence 1=split_times 2=preserve_control_numbers 3=containers 4=event 5=events 6=events_by_type 7=new_event_containers 8=new_stateless_event_containers 9=note 10=pedal_event 11=pedal_events 12=previous_event 13=previous_pedal_event 14=previous_pedal_events 15=start_time 16=stateless_events_by_type 17=subsequence 18=subsequence_index 19=subsequences 20=_r159 21=_acc165 22=t1@165 23=t2@165 24=%it165_31 25=_acc167 26=time@167 27=%it167_49 28=_acc186 29=_@186 30=%it186_42 31=note@key192 32=%it192_14 33=_acc217 34=annotation@217 35=%it217_39 36=_acc222 37=s@222 38=%it222_54 39=_acc223 40=s@223 41=%it223_53 42=_acc224 43=s@224 44=%it224_45 45=_acc225 46=s@225 47=%it225_55 48=%it227_28 49=event@key230 50=%it230_17 51=_acc261 52=annotation@261 53=%it261_35 54=_acc265 55=s@265 56=%it265_65 57=%it266_28 58=event@key269 59=%it269_17 60=_acc283 61=cc@283 62=%it283_19 63=event@key289 64=%it289_21 65=_t291 66=%it300_34 67=_t312 68=%it318_32 69=%it324_33
-/
def op__extract_subsequences__KU_LU_U_at_BBN (ix : Nat → Nat) : OpDef := ⟨"_extract_subsequences__KU_LU_U@BBN", 3,
  .block [
    .assign 0 (.param 0),
    .assign 1 (.param 1),
    .assign 2 (.param 2),
    .callOp 159 20 (ix 0) [(.var 0)],
    .ite (
      .raise) (
      .skip),
    .ite (
      .raise) (
      .skip),
    .assign 21 .scalar,
    .assign 24 (.tuple [(.var 1), (.var 1)]),
    .loop [B, B, N, N, N, N, N, N, N, N, N, N, N, N, N, N, N, N, N, N, N, N, B, B, B] (
      .block [
        .assign 22 (.elem (.var 1)),
        .assign 23 (.elem (.var 1))]),
    .ite (
      .raise) (
      .skip),
    .assign 25 .scalar,
    .assign 27 (.var 1),
    .loop [B, B, N, N, N, N, N, N, N, N, N, N, N, N, N, N, N, N, N, N, N, N, B, B, B, N, B, B] (
      .assign 26 (.elem (.var 27))),
    .ite (
      .raise) (
      .skip),
    .ite (
      .assign 2 .scalar) (
      .skip),
    .assign 17 .fresh,
    .write 174 (.var 17),
    .write 176 (.var 17),
    .write 178 (.field (.var 17)),
    .write 179 (.field (.var 17)),
    .write 180 (.field (.var 17)),
    .write 181 (.field (.var 17)),
    .write 182 (.field (.var 17)),
    .write 183 (.field (.var 17)),
    .write 184 (.field (.var 17)),
    .assign 28 .scalar,
    .assign 30 .scalar,
    .loop [B, B, N, N, N, N, N, N, N, N, N, N, N, N, N, N, N, F, N, N, N, N, B, B, B, N, B, B, F, N, N] (
      .block [
        .assign 29 (.elem (.var 30)),
        .assign 28 (.tuple [(.var 28), (.copyOf (.var 17))])]),
    .assign 19 (.var 28),
    .assign 18 .scalar,
    .assign 32 (.field (.var 0)),
    .loop [B, B, N, N, N, N, N, N, N, B, N, N, N, N, N, N, N, F, N, F, N, N, B, B, B, N, B, B, F, N, N, N, B] (
      .block [
        .assign 9 (.elem (.var 32)),
        .ite (
          .skip) (
          .ite (
            .skip) (
            .block [
              .write 200 (.field (.elem (.var 19))),
              .write 201 (.elem (.field (.elem (.var 19)))),
              .write 203 (.elem (.field (.elem (.var 19)))),
              .ite (
                .write 208 (.elem (.var 19))) (
                .skip)]))]),
    .assign 33 .scalar,
    .assign 35 (.field (.var 0)),
    .loop [B, B, N, N, N, N, N, N, N, B, N, N, N, N, N, N, N, F, N, F, N, N, B, B, B, N, B, B, F, N, N, N, B, B, B, B] (
      .block [
        .assign 34 (.elem (.var 35)),
        .ite (
          .assign 33 (.tuple [(.var 33), (.var 34)])) (
          .skip)]),
    .assign 6 (.tuple [(.field (.var 0)), (.field (.var 0)), (.field (.var 0)), (.var 33)]),
    .assign 36 .scalar,
    .assign 38 (.var 19),
    .loop [B, B, N, N, N, N, B, N, N, B, N, N, N, N, N, N, N, F, N, F, N, N, B, B, B, N, B, B, F, N, N, N, B, B, B, B, F, F, F] (
      .block [
        .assign 37 (.elem (.var 38)),
        .assign 36 (.tuple [(.var 36), (.field (.var 37))])]),
    .assign 39 .scalar,
    .assign 41 (.var 19),
    .loop [B, B, N, N, N, N, B, N, N, B, N, N, N, N, N, N, N, F, N, F, N, N, B, B, B, N, B, B, F, N, N, N, B, B, B, B, F, F, F, F, F, F] (
      .block [
        .assign 40 (.elem (.var 41)),
        .assign 39 (.tuple [(.var 39), (.field (.var 40))])]),
    .assign 42 .scalar,
    .assign 44 (.var 19),
    .loop [B, B, N, N, N, N, B, N, N, B, N, N, N, N, N, N, N, F, N, F, N, N, B, B, B, N, B, B, F, N, N, N, B, B, B, B, F, F, F, F, F, F, F, F, F] (
      .block [
        .assign 43 (.elem (.var 44)),
        .assign 42 (.tuple [(.var 42), (.field (.var 43))])]),
    .assign 45 .scalar,
    .assign 47 (.var 19),
    .loop [B, B, N, N, N, N, B, N, N, B, N, N, N, N, N, N, N, F, N, F, N, N, B, B, B, N, B, B, F, N, N, N, B, B, B, B, F, F, F, F, F, F, F, F, F, F, F, F] (
      .block [
        .assign 46 (.elem (.var 47)),
        .assign 45 (.tuple [(.var 45), (.field (.var 46))])]),
    .assign 7 (.tuple [(.var 36), (.var 39), (.var 42), (.var 45)]),
    .assign 48 (.tuple [(.var 6), (.var 7)]),
    .loop [B, B, N, F, B, B, B, F, N, B, N, N, B, N, N, N, N, F, N, F, N, N, B, B, B, N, B, B, F, N, N, N, B, B, B, B, F, F, F, F, F, F, F, F, F, F, F, F, B, N, B] (
      .block [
        .assign 5 (.elem (.var 6)),
        .assign 3 (.elem (.var 7)),
        .assign 12 .scalar,
        .assign 18 .scalar,
        .assign 50 (.var 5),
        .loop [B, B, N, F, B, B, B, F, N, B, N, N, B, N, N, N, N, F, N, F, N, N, B, B, B, N, B, B, F, N, N, N, B, B, B, B, F, F, F, F, F, F, F, F, F, F, F, F, B, N, B] (
          .block [
            .assign 4 (.elem (.var 50)),
            .ite (
              .assign 12 (.var 4)) (
              .skip),
            .ite (
              .skip) (
              .block [
                .loop [B, B, N, F, B, B, B, F, N, B, N, N, B, N, N, N, N, F, N, F, N, N, B, B, B, N, B, B, F, N, N, N, B, B, B, B, F, F, F, F, F, F, F, F, F, F, F, F, B, N, B] (
                  .ite (
                    .skip) (
                    .ite (
                      .block [
                        .write 241 (.elem (.var 3)),
                        .write 242 (.elem (.elem (.var 3)))]) (
                      .skip))),
                .ite (
                  .skip) (
                  .block [
                    .ite (
                      .block [
                        .write 248 (.elem (.var 3)),
                        .write 249 (.elem (.elem (.var 3)))]) (
                      .skip),
                    .assign 12 (.var 4)])])]),
        .loop [B, B, N, F, B, B, B, F, N, B, N, N, B, N, N, N, N, F, N, F, N, N, B, B, B, N, B, B, F, N, N, N, B, B, B, B, F, F, F, F, F, F, F, F, F, F, F, F, B, N, B] (
          .ite (
            .block [
              .write 255 (.elem (.var 3)),
              .write 256 (.elem (.elem (.var 3)))]) (
            .skip))]),
    .assign 51 .scalar,
    .assign 53 (.field (.var 0)),
    .loop [B, B, N, F, B, B, B, F, N, B, N, N, B, N, N, N, N, F, N, F, N, N, B, B, B, N, B, B, F, N, N, N, B, B, B, B, F, F, F, F, F, F, F, F, F, F, F, F, B, N, B, B, B, B] (
      .block [
        .assign 52 (.elem (.var 53)),
        .ite (
          .assign 51 (.tuple [(.var 51), (.var 52)])) (
          .skip)]),
    .assign 16 (.var 51),
    .assign 54 .scalar,
    .assign 56 (.var 19),
    .loop [B, B, N, F, B, B, B, F, N, B, N, N, B, N, N, N, B, F, N, F, N, N, B, B, B, N, B, B, F, N, N, N, B, B, B, B, F, F, F, F, F, F, F, F, F, F, F, F, B, N, B, B, B, B, F, F, F] (
      .block [
        .assign 55 (.elem (.var 56)),
        .assign 54 (.tuple [(.var 54), (.field (.var 55))])]),
    .assign 8 (.var 54),
    .assign 57 (.tuple [(.var 16), (.var 8)]),
    .loop [B, B, N, F, B, B, B, F, F, B, N, N, B, N, N, N, B, F, N, F, N, N, B, B, B, N, B, B, F, N, N, N, B, B, B, B, F, F, F, F, F, F, F, F, F, F, F, F, B, N, B, B, B, B, F, F, F, B, N, B] (
      .block [
        .assign 5 (.elem (.var 16)),
        .assign 3 (.elem (.var 8)),
        .assign 18 .scalar,
        .assign 59 (.var 5),
        .loop [B, B, N, F, B, B, B, F, F, B, N, N, B, N, N, N, B, F, N, F, N, N, B, B, B, N, B, B, F, N, N, N, B, B, B, B, F, F, F, F, F, F, F, F, F, F, F, F, B, N, B, B, B, B, F, F, F, B, N, B] (
          .block [
            .assign 4 (.elem (.var 59)),
            .ite (
              .skip) (
              .ite (
                .skip) (
                .block [
                  .write 277 (.elem (.var 3)),
                  .write 278 (.elem (.elem (.var 3)))]))])]),
    .assign 60 .scalar,
    .assign 62 (.field (.var 0)),
    .loop [B, B, N, F, B, B, B, F, F, B, N, N, B, N, N, N, B, F, N, F, N, N, B, B, B, N, B, B, F, N, N, N, B, B, B, B, F, F, F, F, F, F, F, F, F, F, F, F, B, N, B, B, B, B, F, F, F, B, N, B, B, B, B] (
      .block [
        .assign 61 (.elem (.var 62)),
        .ite (
          .assign 60 (.tuple [(.var 60), (.var 61)])) (
          .skip)]),
    .assign 11 (.var 60),
    .assign 14 .scalar,
    .assign 18 .scalar,
    .assign 64 (.var 11),
    .loop [B, B, N, F, B, B, B, F, F, B, B, B, B, B, B, N, B, F, N, F, N, N, B, B, B, N, B, B, F, N, N, N, B, B, B, B, F, F, F, F, F, F, F, F, F, F, F, F, B, N, B, B, B, B, F, F, F, B, N, B, B, B, B, N, B, B, B, B] (
      .block [
        .assign 10 (.elem (.var 64)),
        .ite (
          .block [
            .assign 65 (.var 10),
            .assign 14 (.tuple [(.var 14), (.var 65)])]) (
          .skip),
        .ite (
          .skip) (
          .block [
            .loop [B, B, N, F, B, B, B, F, F, B, B, B, B, B, B, N, B, F, N, F, N, N, B, B, B, N, B, B, F, N, N, N, B, B, B, B, F, F, F, F, F, F, F, F, F, F, F, F, B, N, B, B, B, B, F, F, F, B, N, B, B, B, B, N, B, B, B, B] (
              .ite (
                .skip) (
                .block [
                  .assign 66 (.var 14),
                  .loop [B, B, N, F, B, B, B, F, F, B, B, B, B, B, B, N, B, F, N, F, N, N, B, B, B, N, B, B, F, N, N, N, B, B, B, B, F, F, F, F, F, F, F, F, F, F, F, F, B, N, B, B, B, B, F, F, F, B, N, B, B, B, B, N, B, B, B, B] (
                    .block [
                      .assign 13 (.elem (.var 66)),
                      .write 301 (.field (.elem (.var 19))),
                      .write 303 (.elem (.field (.elem (.var 19))))])])),
            .ite (
              .skip) (
              .block [
                .ite (
                  .block [
                    .write 309 (.field (.elem (.var 19))),
                    .write 310 (.elem (.field (.elem (.var 19))))]) (
                  .skip),
                .assign 67 (.var 10),
                .assign 14 (.tuple [(.var 14), (.var 67)]),
                .assign 66 (.tuple [(.var 66), (.var 67)])])])]),
    .loop [B, B, N, F, B, B, B, F, F, B, B, B, B, B, B, N, B, F, N, F, N, N, B, B, B, N, B, B, F, N, N, N, B, B, B, B, F, F, F, F, F, F, F, F, F, F, F, F, B, N, B, B, B, B, F, F, F, B, N, B, B, B, B, N, B, B, B, B, B] (
      .block [
        .assign 68 (.var 14),
        .loop [B, B, N, F, B, B, B, F, F, B, B, B, B, B, B, N, B, F, N, F, N, N, B, B, B, N, B, B, F, N, N, N, B, B, B, B, F, F, F, F, F, F, F, F, F, F, F, F, B, N, B, B, B, B, F, F, F, B, N, B, B, B, B, N, B, B, B, B, B] (
          .block [
            .assign 13 (.elem (.var 68)),
            .write 319 (.field (.elem (.var 19))),
            .write 321 (.elem (.field (.elem (.var 19))))])]),
    .assign 69 (.tuple [(.var 19), (.var 1)]),
    .loop [B, B, N, F, B, B, B, F, F, B, B, B, B, B, B, B, B, F, N, F, N, N, B, B, B, N, B, B, F, N, N, N, B, B, B, B, F, F, F, F, F, F, F, F, F, F, F, F, B, N, B, B, B, B, F, F, F, B, N, B, B, B, B, N, B, B, B, B, B, B] (
      .block [
        .assign 17 (.elem (.var 19)),
        .assign 15 (.elem (.var 1)),
        .write 325 (.field (.var 17)),
        .write 326 (.field (.var 17))]),
    .ret (.var 19)]⟩
def ct__extract_subsequences__KU_LU_U_at_BBN : Contract := ⟨[B, B, N], F⟩

/-- `split_note_sequence` (sequences_lib.py:745)  params: note_sequence, hop_size_seconds, skip_splits_inside_notes
variables: 0=note_sequence 1=hop_size_seconds 2=skip_splits_inside_notes 3=note_idx 4=notes_by_start_time 5=notes_crossing_split 6=split_time 7=split_times 8=valid_split_times 9=note@key774 10=%it786_20 11=_acc792 12=note@792 13=%it792_25 14=_r804
-/
def op_split_note_sequence (ix : Nat → Nat) : OpDef := ⟨"split_note_sequence", 3,
  .block [
    .assign 0 (.param 0),
    .assign 1 (.param 1),
    .assign 2 (.param 2),
    .assign 4 (.field (.var 0)),
    .assign 3 .scalar,
    .assign 5 .scalar,
    .ite (
      .assign 7 (.var 1)) (
      .assign 7 .scalar),
    .assign 8 .scalar,
    .assign 10 (.var 7),
    .loop [B, B, B, N, B, B, B, B, B, N, B, B, B, B] (
      .block [
        .assign 6 (.elem (.var 10)),
        .loop [B, B, B, N, B, B, B, B, B, N, B, B, B, B] (
          .block [
            .assign 4 (.tuple [(.var 4), (.elem (.var 4))]),
            .assign 5 (.tuple [(.var 5), (.elem (.var 4))])]),
        .assign 11 .scalar,
        .assign 13 (.var 5),
        .loop [B, B, B, N, B, B, B, B, B, N, B, B, B, B] (
          .block [
            .assign 12 (.elem (.var 13)),
            .ite (
              .assign 11 (.tuple [(.var 11), (.var 12)])) (
              .skip)]),
        .assign 5 (.var 11),
        .ite (
          .block [
            .assign 1 (.tuple [(.var 1), (.var 6)]),
            .assign 6 (.tuple [(.var 6), (.var 6)]),
            .assign 7 (.tuple [(.var 7), (.var 6)]),
            .assign 8 (.tuple [(.var 8), (.var 6)]),
            .assign 10 (.tuple [(.var 10), (.var 6)])]) (
          .skip)]),
    .ite (
      .block [
        .callOp 804 14 (ix 5) [(.var 0), (.var 8), .scalar],
        .ret (.var 14)]) (
      .ret .scalar)]⟩
def ct_split_note_sequence : Contract := ⟨[B, B, B], F⟩

/-- `_extract_subsequences__KU_LS_U@BNN` (sequences_lib.py:134)  params: sequence, split_times, preserve_control_numbers
variables: 0=sequence 1=split_times 2=preserve_control_numbers 3=containers 4=event 5=events 6=events_by_type 7=new_event_containers 8=new_stateless_event_containers 9=note 10=pedal_event 11=pedal_events 12=previous_event 13=previous_pedal_event 14=previous_pedal_events 15=start_time 16=stateless_events_by_type 17=subsequence 18=subsequence_index 19=subsequences 20=_r159 21=_acc165 22=t1@165 23=t2@165 24=%it165_31 25=_acc167 26=time@167 27=%it167_49 28=_acc186 29=_@186 30=%it186_42 31=note@key192 32=%it192_14 33=_acc217 34=annotation@217 35=%it217_39 36=_acc222 37=s@222 38=%it222_54 39=_acc223 40=s@223 41=%it223_53 42=_acc224 43=s@224 44=%it224_45 45=_acc225 46=s@225 47=%it225_55 48=%it227_28 49=event@key230 50=%it230_17 51=_acc261 52=annotation@261 53=%it261_35 54=_acc265 55=s@265 56=%it265_65 57=%it266_28 58=event@key269 59=%it269_17 60=_acc283 61=cc@283 62=%it283_19 63=event@key289 64=%it289_21 65=_t291 66=%it300_34 67=_t312 68=%it318_32 69=%it324_33
-/
def op__extract_subsequences__KU_LS_U_at_BNN (ix : Nat → Nat) : OpDef := ⟨"_extract_subsequences__KU_LS_U@BNN", 3,
  .block [
    .assign 0 (.param 0),
    .assign 1 (.param 1),
    .assign 2 (.param 2),
    .callOp 159 20 (ix 0) [(.var 0)],
    .ite (
      .raise) (
      .skip),
    .ite (
      .raise) (
      .skip),
    .assign 21 .scalar,
    .assign 24 (.tuple [(.var 1), (.var 1)]),
    .loop [B, N, N, N, N, N, N, N, N, N, N, N, N, N, N, N, N, N, N, N, N, N, N, N, N] (
      .block [
        .assign 22 (.elem (.var 1)),
        .assign 23 (.elem (.var 1))]),
    .ite (
      .raise) (
      .skip),
    .assign 25 .scalar,
    .assign 27 (.var 1),
    .loop [B, N, N, N, N, N, N, N, N, N, N, N, N, N, N, N, N, N, N, N, N, N, N, N, N, N, N, N] (
      .assign 26 (.elem (.var 27))),
    .ite (
      .raise) (
      .skip),
    .ite (
      .assign 2 .scalar) (
      .skip),
    .assign 17 .fresh,
    .write 174 (.var 17),
    .write 176 (.var 17),
    .write 178 (.field (.var 17)),
    .write 179 (.field (.var 17)),
    .write 180 (.field (.var 17)),
    .write 181 (.field (.var 17)),
    .write 182 (.field (.var 17)),
    .write 183 (.field (.var 17)),
    .write 184 (.field (.var 17)),
    .assign 28 .scalar,
    .assign 30 .scalar,
    .loop [B, N, N, N, N, N, N, N, N, N, N, N, N, N, N, N, N, F, N, N, N, N, N, N, N, N, N, N, F, N, N] (
      .block [
        .assign 29 (.elem (.var 30)),
        .assign 28 (.tuple [(.var 28), (.copyOf (.var 17))])]),
    .assign 19 (.var 28),
    .assign 18 .scalar,
    .assign 32 (.field (.var 0)),
    .loop [B, N, N, N, N, N, N, N, N, B, N, N, N, N, N, N, N, F, N, F, N, N, N, N, N, N, N, N, F, N, N, N, B] (
      .block [
        .assign 9 (.elem (.var 32)),
        .ite (
          .skip) (
          .ite (
            .skip) (
            .block [
              .write 200 (.field (.elem (.var 19))),
              .write 201 (.elem (.field (.elem (.var 19)))),
              .write 203 (.elem (.field (.elem (.var 19)))),
              .ite (
                .write 208 (.elem (.var 19))) (
                .skip)]))]),
    .assign 33 .scalar,
    .assign 35 (.field (.var 0)),
    .loop [B, N, N, N, N, N, N, N, N, B, N, N, N, N, N, N, N, F, N, F, N, N, N, N, N, N, N, N, F, N, N, N, B, B, B, B] (
      .block [
        .assign 34 (.elem (.var 35)),
        .ite (
          .assign 33 (.tuple [(.var 33), (.var 34)])) (
          .skip)]),
    .assign 6 (.tuple [(.field (.var 0)), (.field (.var 0)), (.field (.var 0)), (.var 33)]),
    .assign 36 .scalar,
    .assign 38 (.var 19),
    .loop [B, N, N, N, N, N, B, N, N, B, N, N, N, N, N, N, N, F, N, F, N, N, N, N, N, N, N, N, F, N, N, N, B, B, B, B, F, F, F] (
      .block [
        .assign 37 (.elem (.var 38)),
        .assign 36 (.tuple [(.var 36), (.field (.var 37))])]),
    .assign 39 .scalar,
    .assign 41 (.var 19),
    .loop [B, N, N, N, N, N, B, N, N, B, N, N, N, N, N, N, N, F, N, F, N, N, N, N, N, N, N, N, F, N, N, N, B, B, B, B, F, F, F, F, F, F] (
      .block [
        .assign 40 (.elem (.var 41)),
        .assign 39 (.tuple [(.var 39), (.field (.var 40))])]),
    .assign 42 .scalar,
    .assign 44 (.var 19),
    .loop [B, N, N, N, N, N, B, N, N, B, N, N, N, N, N, N, N, F, N, F, N, N, N, N, N, N, N, N, F, N, N, N, B, B, B, B, F, F, F, F, F, F, F, F, F] (
      .block [
        .assign 43 (.elem (.var 44)),
        .assign 42 (.tuple [(.var 42), (.field (.var 43))])]),
    .assign 45 .scalar,
    .assign 47 (.var 19),
    .loop [B, N, N, N, N, N, B, N, N, B, N, N, N, N, N, N, N, F, N, F, N, N, N, N, N, N, N, N, F, N, N, N, B, B, B, B, F, F, F, F, F, F, F, F, F, F, F, F] (
      .block [
        .assign 46 (.elem (.var 47)),
        .assign 45 (.tuple [(.var 45), (.field (.var 46))])]),
    .assign 7 (.tuple [(.var 36), (.var 39), (.var 42), (.var 45)]),
    .assign 48 (.tuple [(.var 6), (.var 7)]),
    .loop [B, N, N, F, B, B, B, F, N, B, N, N, B, N, N, N, N, F, N, F, N, N, N, N, N, N, N, N, F, N, N, N, B, B, B, B, F, F, F, F, F, F, F, F, F, F, F, F, B, N, B] (
      .block [
        .assign 5 (.elem (.var 6)),
        .assign 3 (.elem (.var 7)),
        .assign 12 .scalar,
        .assign 18 .scalar,
        .assign 50 (.var 5),
        .loop [B, N, N, F, B, B, B, F, N, B, N, N, B, N, N, N, N, F, N, F, N, N, N, N, N, N, N, N, F, N, N, N, B, B, B, B, F, F, F, F, F, F, F, F, F, F, F, F, B, N, B] (
          .block [
            .assign 4 (.elem (.var 50)),
            .ite (
              .assign 12 (.var 4)) (
              .skip),
            .ite (
              .skip) (
              .block [
                .loop [B, N, N, F, B, B, B, F, N, B, N, N, B, N, N, N, N, F, N, F, N, N, N, N, N, N, N, N, F, N, N, N, B, B, B, B, F, F, F, F, F, F, F, F, F, F, F, F, B, N, B] (
                  .ite (
                    .skip) (
                    .ite (
                      .block [
                        .write 241 (.elem (.var 3)),
                        .write 242 (.elem (.elem (.var 3)))]) (
                      .skip))),
                .ite (
                  .skip) (
                  .block [
                    .ite (
                      .block [
                        .write 248 (.elem (.var 3)),
                        .write 249 (.elem (.elem (.var 3)))]) (
                      .skip),
                    .assign 12 (.var 4)])])]),
        .loop [B, N, N, F, B, B, B, F, N, B, N, N, B, N, N, N, N, F, N, F, N, N, N, N, N, N, N, N, F, N, N, N, B, B, B, B, F, F, F, F, F, F, F, F, F, F, F, F, B, N, B] (
          .ite (
            .block [
              .write 255 (.elem (.var 3)),
              .write 256 (.elem (.elem (.var 3)))]) (
            .skip))]),
    .assign 51 .scalar,
    .assign 53 (.field (.var 0)),
    .loop [B, N, N, F, B, B, B, F, N, B, N, N, B, N, N, N, N, F, N, F, N, N, N, N, N, N, N, N, F, N, N, N, B, B, B, B, F, F, F, F, F, F, F, F, F, F, F, F, B, N, B, B, B, B] (
      .block [
        .assign 52 (.elem (.var 53)),
        .ite (
          .assign 51 (.tuple [(.var 51), (.var 52)])) (
          .skip)]),
    .assign 16 (.var 51),
    .assign 54 .scalar,
    .assign 56 (.var 19),
    .loop [B, N, N, F, B, B, B, F, N, B, N, N, B, N, N, N, B, F, N, F, N, N, N, N, N, N, N, N, F, N, N, N, B, B, B, B, F, F, F, F, F, F, F, F, F, F, F, F, B, N, B, B, B, B, F, F, F] (
      .block [
        .assign 55 (.elem (.var 56)),
        .assign 54 (.tuple [(.var 54), (.field (.var 55))])]),
    .assign 8 (.var 54),
    .assign 57 (.tuple [(.var 16), (.var 8)]),
    .loop [B, N, N, F, B, B, B, F, F, B, N, N, B, N, N, N, B, F, N, F, N, N, N, N, N, N, N, N, F, N, N, N, B, B, B, B, F, F, F, F, F, F, F, F, F, F, F, F, B, N, B, B, B, B, F, F, F, B, N, B] (
      .block [
        .assign 5 (.elem (.var 16)),
        .assign 3 (.elem (.var 8)),
        .assign 18 .scalar,
        .assign 59 (.var 5),
        .loop [B, N, N, F, B, B, B, F, F, B, N, N, B, N, N, N, B, F, N, F, N, N, N, N, N, N, N, N, F, N, N, N, B, B, B, B, F, F, F, F, F, F, F, F, F, F, F, F, B, N, B, B, B, B, F, F, F, B, N, B] (
          .block [
            .assign 4 (.elem (.var 59)),
            .ite (
              .skip) (
              .ite (
                .skip) (
                .block [
                  .write 277 (.elem (.var 3)),
                  .write 278 (.elem (.elem (.var 3)))]))])]),
    .assign 60 .scalar,
    .assign 62 (.field (.var 0)),
    .loop [B, N, N, F, B, B, B, F, F, B, N, N, B, N, N, N, B, F, N, F, N, N, N, N, N, N, N, N, F, N, N, N, B, B, B, B, F, F, F, F, F, F, F, F, F, F, F, F, B, N, B, B, B, B, F, F, F, B, N, B, B, B, B] (
      .block [
        .assign 61 (.elem (.var 62)),
        .ite (
          .assign 60 (.tuple [(.var 60), (.var 61)])) (
          .skip)]),
    .assign 11 (.var 60),
    .assign 14 .scalar,
    .assign 18 .scalar,
    .assign 64 (.var 11),
    .loop [B, N, N, F, B, B, B, F, F, B, B, B, B, B, B, N, B, F, N, F, N, N, N, N, N, N, N, N, F, N, N, N, B, B, B, B, F, F, F, F, F, F, F, F, F, F, F, F, B, N, B, B, B, B, F, F, F, B, N, B, B, B, B, N, B, B, B, B] (
      .block [
        .assign 10 (.elem (.var 64)),
        .ite (
          .block [
            .assign 65 (.var 10),
            .assign 14 (.tuple [(.var 14), (.var 65)])]) (
          .skip),
        .ite (
          .skip) (
          .block [
            .loop [B, N, N, F, B, B, B, F, F, B, B, B, B, B, B, N, B, F, N, F, N, N, N, N, N, N, N, N, F, N, N, N, B, B, B, B, F, F, F, F, F, F, F, F, F, F, F, F, B, N, B, B, B, B, F, F, F, B, N, B, B, B, B, N, B, B, B, B] (
              .ite (
                .skip) (
                .block [
                  .assign 66 (.var 14),
                  .loop [B, N, N, F, B, B, B, F, F, B, B, B, B, B, B, N, B, F, N, F, N, N, N, N, N, N, N, N, F, N, N, N, B, B, B, B, F, F, F, F, F, F, F, F, F, F, F, F, B, N, B, B, B, B, F, F, F, B, N, B, B, B, B, N, B, B, B, B] (
                    .block [
                      .assign 13 (.elem (.var 66)),
                      .write 301 (.field (.elem (.var 19))),
                      .write 303 (.elem (.field (.elem (.var 19))))])])),
            .ite (
              .skip) (
              .block [
                .ite (
                  .block [
                    .write 309 (.field (.elem (.var 19))),
                    .write 310 (.elem (.field (.elem (.var 19))))]) (
                  .skip),
                .assign 67 (.var 10),
                .assign 14 (.tuple [(.var 14), (.var 67)]),
                .assign 66 (.tuple [(.var 66), (.var 67)])])])]),
    .loop [B, N, N, F, B, B, B, F, F, B, B, B, B, B, B, N, B, F, N, F, N, N, N, N, N, N, N, N, F, N, N, N, B, B, B, B, F, F, F, F, F, F, F, F, F, F, F, F, B, N, B, B, B, B, F, F, F, B, N, B, B, B, B, N, B, B, B, B, B] (
      .block [
        .assign 68 (.var 14),
        .loop [B, N, N, F, B, B, B, F, F, B, B, B, B, B, B, N, B, F, N, F, N, N, N, N, N, N, N, N, F, N, N, N, B, B, B, B, F, F, F, F, F, F, F, F, F, F, F, F, B, N, B, B, B, B, F, F, F, B, N, B, B, B, B, N, B, B, B, B, B] (
          .block [
            .assign 13 (.elem (.var 68)),
            .write 319 (.field (.elem (.var 19))),
            .write 321 (.elem (.field (.elem (.var 19))))])]),
    .assign 69 (.tuple [(.var 19), (.var 1)]),
    .loop [B, N, N, F, B, B, B, F, F, B, B, B, B, B, B, N, B, F, N, F, N, N, N, N, N, N, N, N, F, N, N, N, B, B, B, B, F, F, F, F, F, F, F, F, F, F, F, F, B, N, B, B, B, B, F, F, F, B, N, B, B, B, B, N, B, B, B, B, B, F] (
      .block [
        .assign 17 (.elem (.var 19)),
        .assign 15 (.elem (.var 1)),
        .write 325 (.field (.var 17)),
        .write 326 (.field (.var 17))]),
    .ret (.var 19)]⟩
def ct__extract_subsequences__KU_LS_U_at_BNN : Contract := ⟨[B, N, N], F⟩

/-- `split_note_sequence_on_time_changes` (sequences_lib.py:809)  params: note_sequence, skip_splits_inside_notes
variables: 0=note_sequence 1=skip_splits_inside_notes 2=current_denominator 3=current_numerator 4=current_qpm 5=note_idx 6=notes_by_start_time 7=notes_crossing_split 8=time_change 9=time_signatures_and_tempos 10=valid_split_times 11=t@key834 12=_acc835 13=t@835 14=%it835_17 15=note@key840 16=%it846_21 17=_acc862 18=note@862 19=%it862_25 20=_r883
-/
def op_split_note_sequence_on_time_changes (ix : Nat → Nat) : OpDef := ⟨"split_note_sequence_on_time_changes", 2,
  .block [
    .assign 0 (.param 0),
    .assign 1 (.param 1),
    .assign 3 .scalar,
    .assign 2 .scalar,
    .assign 4 .scalar,
    .assign 9 (.tuple [(.field (.var 0)), (.field (.var 0))]),
    .assign 12 .scalar,
    .assign 14 (.var 9),
    .loop [B, B, N, N, N, N, N, N, N, B, N, N, B, B, B] (
      .block [
        .assign 13 (.elem (.var 14)),
        .ite (
          .assign 12 (.tuple [(.var 12), (.var 13)])) (
          .skip)]),
    .assign 9 (.var 12),
    .assign 6 (.field (.var 0)),
    .assign 5 .scalar,
    .assign 7 .scalar,
    .assign 10 .scalar,
    .assign 16 (.var 9),
    .loop [B, B, N, N, N, N, B, B, B, B, N, N, B, B, B, N, B, B, B, B] (
      .block [
        .assign 8 (.elem (.var 16)),
        .ite (
          .skip) (
          .block [
            .loop [B, B, N, N, N, N, B, B, B, B, N, N, B, B, B, N, B, B, B, B] (
              .block [
                .assign 6 (.tuple [(.var 6), (.elem (.var 6))]),
                .assign 7 (.tuple [(.var 7), (.elem (.var 6))])]),
            .assign 17 .scalar,
            .assign 19 (.var 7),
            .loop [B, B, N, N, N, N, B, B, B, B, N, N, B, B, B, N, B, B, B, B] (
              .block [
                .assign 18 (.elem (.var 19)),
                .ite (
                  .assign 17 (.tuple [(.var 17), (.var 18)])) (
                  .skip)]),
            .assign 7 (.var 17),
            .ite (
              .block [
                .assign 3 .scalar,
                .assign 2 .scalar]) (
              .assign 4 .scalar)])]),
    .ite (
      .block [
        .callOp 883 20 (ix 7) [(.var 0), (.var 10), .scalar],
        .ret (.var 20)]) (
      .ret .scalar)]⟩
def ct_split_note_sequence_on_time_changes : Contract := ⟨[B, B], F⟩

/-- `split_note_sequence_on_silence` (sequences_lib.py:888)  params: note_sequence, gap_seconds
variables: 0=note_sequence 1=gap_seconds 2=last_active_time 3=note 4=notes_by_start_time 5=split_times 6=note@key904 7=%it909_14 8=_r918
-/
def op_split_note_sequence_on_silence (ix : Nat → Nat) : OpDef := ⟨"split_note_sequence_on_silence", 2,
  .block [
    .assign 0 (.param 0),
    .assign 1 (.param 1),
    .assign 4 (.field (.var 0)),
    .assign 5 .scalar,
    .assign 2 .scalar,
    .assign 7 (.var 4),
    .loop [B, B, N, B, B, N, N, B] (
      .block [
        .assign 3 (.elem (.var 7)),
        .assign 2 (.var 2)]),
    .ite (
      .block [
        .callOp 918 8 (ix 7) [(.var 0), (.var 5), .scalar],
        .ret (.var 8)]) (
      .ret .scalar)]⟩
def ct_split_note_sequence_on_silence : Contract := ⟨[B, B], F⟩

/-- `shift_sequence_times` (sequences_lib.py:374)  params: sequence, shift_seconds
variables: 0=sequence 1=shift_seconds 2=event 3=events_to_shift 4=note 5=shifted 6=_r392 7=%it403_14 8=%it413_15
-/
def op_shift_sequence_times (ix : Nat → Nat) : OpDef := ⟨"shift_sequence_times", 2,
  .block [
    .assign 0 (.param 0),
    .assign 1 (.param 1),
    .ite (
      .raise) (
      .skip),
    .callOp 392 6 (ix 0) [(.var 0)],
    .ite (
      .raise) (
      .skip),
    .assign 5 .fresh,
    .write 397 (.var 5),
    .write 400 (.var 5),
    .assign 7 (.field (.var 5)),
    .loop [B, B, N, N, F, F, N, F] (
      .block [
        .assign 4 (.elem (.var 7)),
        .write 404 (.var 4),
        .write 405 (.var 4)]),
    .assign 3 (.tuple [(.field (.var 5)), (.field (.var 5)), (.field (.var 5)), (.field (.var 5)), (.field (.var 5)), (.field (.var 5)), (.field (.var 5))]),
    .assign 8 (.var 3),
    .loop [B, B, F, F, F, F, N, F, F] (
      .block [
        .assign 2 (.elem (.var 8)),
        .write 414 (.var 2)]),
    .write 416 (.var 5),
    .ret (.var 5)]⟩
def ct_shift_sequence_times : Contract := ⟨[B, B], F⟩

/-- `stretch_note_sequence` (sequences_lib.py:1329)  params: note_sequence, stretch_factor, in_place
variables: 0=note_sequence 1=stretch_factor 2=in_place 3=event 4=events 5=note 6=stretched_sequence 7=tempo 8=_r1347 9=%it1361_14 10=%it1372_15 11=%it1376_15
-/
def op_stretch_note_sequence (ix : Nat → Nat) : OpDef := ⟨"stretch_note_sequence", 3,
  .block [
    .assign 0 (.param 0),
    .assign 1 (.param 1),
    .assign 2 .scalar,
    .callOp 1347 8 (ix 0) [(.var 0)],
    .ite (
      .raise) (
      .skip),
    .assign 6 .fresh,
    .write 1355 (.var 6),
    .ite (
      .ret (.var 6)) (
      .skip),
    .assign 9 (.field (.var 6)),
    .loop [B, B, N, N, N, F, F, N, N, F] (
      .block [
        .assign 5 (.elem (.var 9)),
        .write 1362 (.var 5),
        .write 1363 (.var 5)]),
    .write 1364 (.var 6),
    .assign 4 (.tuple [(.field (.var 6)), (.field (.var 6)), (.field (.var 6)), (.field (.var 6)), (.field (.var 6)), (.field (.var 6)), (.field (.var 6))]),
    .assign 10 (.var 4),
    .loop [B, B, N, F, F, F, F, N, N, F, F] (
      .block [
        .assign 3 (.elem (.var 10)),
        .write 1373 (.var 3)]),
    .assign 11 (.field (.var 6)),
    .loop [B, B, N, F, F, F, F, F, N, F, F, F] (
      .block [
        .assign 7 (.elem (.var 11)),
        .write 1377 (.var 7)]),
    .ret (.var 6)]⟩
def ct_stretch_note_sequence : Contract := ⟨[B, B, B], F⟩

/-- `is_quantized_sequence@F` (sequences_lib.py:637)  params: note_sequence
variables: 0=note_sequence
-/
def op_is_quantized_sequence_at_F (ix : Nat → Nat) : OpDef := ⟨"is_quantized_sequence@F", 1,
  .block [
    .assign 0 (.param 0),
    .ret .scalar]⟩
def ct_is_quantized_sequence_at_F : Contract := ⟨[F], N⟩

/-- `stretch_note_sequence__in_place@FBB` (sequences_lib.py:1329)  params: note_sequence, stretch_factor, in_place
variables: 0=note_sequence 1=stretch_factor 2=in_place 3=event 4=events 5=note 6=stretched_sequence 7=tempo 8=_r1347 9=%it1361_14 10=%it1372_15 11=%it1376_15
-/
def op_stretch_note_sequence__in_place_at_FBB (ix : Nat → Nat) : OpDef := ⟨"stretch_note_sequence__in_place@FBB", 3,
  .block [
    .assign 0 (.param 0),
    .assign 1 (.param 1),
    .assign 2 .scalar,
    .callOp 1347 8 (ix 12) [(.var 0)],
    .ite (
      .raise) (
      .skip),
    .assign 6 (.var 0),
    .ite (
      .ret (.var 6)) (
      .skip),
    .assign 9 (.field (.var 6)),
    .loop [F, B, N, N, N, F, F, N, N, F] (
      .block [
        .assign 5 (.elem (.var 9)),
        .write 1362 (.var 5),
        .write 1363 (.var 5)]),
    .write 1364 (.var 6),
    .assign 4 (.tuple [(.field (.var 6)), (.field (.var 6)), (.field (.var 6)), (.field (.var 6)), (.field (.var 6)), (.field (.var 6)), (.field (.var 6))]),
    .assign 10 (.var 4),
    .loop [F, B, N, F, F, F, F, N, N, F, F] (
      .block [
        .assign 3 (.elem (.var 10)),
        .write 1373 (.var 3)]),
    .assign 11 (.field (.var 6)),
    .loop [F, B, N, F, F, F, F, F, N, F, F, F] (
      .block [
        .assign 7 (.elem (.var 11)),
        .write 1377 (.var 7)]),
    .ret (.var 6)]⟩
def ct_stretch_note_sequence__in_place_at_FBB : Contract := ⟨[F, B, B], F⟩

/-- `transpose_note_sequence` (sequences_lib.py:1139)  params: ns, amount, min_allowed_pitch, max_allowed_pitch, transpose_chords, in_place
variables: 0=ns 1=amount 2=min_allowed_pitch 3=max_allowed_pitch 4=transpose_chords 5=in_place 6=deleted_note_count 7=end_time 8=ks 9=new_note_list 10=new_ns 11=new_pitch 12=note 13=ta 14=text_annotations_to_keep 15=%it1173_14 16=%it1198_14 17=%it1204_14 18=%it1212_12
-/
def op_transpose_note_sequence (ix : Nat → Nat) : OpDef := ⟨"transpose_note_sequence", 6,
  .block [
    .assign 0 (.param 0),
    .assign 1 (.param 1),
    .assign 2 (.param 2),
    .assign 3 (.param 3),
    .assign 4 (.param 4),
    .assign 5 .scalar,
    .assign 10 .fresh,
    .write 1166 (.var 10),
    .assign 0 (.var 10),
    .assign 9 .scalar,
    .assign 6 .scalar,
    .assign 7 .scalar,
    .assign 15 (.field (.var 0)),
    .loop [F, B, B, B, B, N, N, N, N, F, F, B, F, N, N, F] (
      .block [
        .assign 12 (.elem (.var 15)),
        .assign 11 (.var 1),
        .ite (
          .block [
            .assign 7 (.var 7),
            .ite (
              .block [
                .write 1179 (.var 12),
                .write 1182 (.var 12)]) (
              .skip),
            .assign 9 (.tuple [(.var 9), (.var 12)])]) (
          .skip)]),
    .ite (
      .block [
        .write 1189 (.field (.var 0)),
        .write 1190 (.field (.var 0))]) (
      .skip),
    .write 1193 (.var 0),
    .ite (
      .block [
        .assign 16 (.field (.var 0)),
        .loop [F, B, B, B, B, N, N, N, N, F, F, B, F, F, N, F, F] (
          .block [
            .assign 13 (.elem (.var 16)),
            .ite (
              .write 1200 (.var 13)) (
              .skip)])]) (
      .block [
        .assign 14 .scalar,
        .assign 17 (.field (.var 0)),
        .loop [F, B, B, B, B, N, N, N, N, F, F, B, F, F, F, F, N, F] (
          .block [
            .assign 13 (.elem (.var 17)),
            .ite (
              .assign 14 (.tuple [(.var 14), (.var 13)])) (
              .skip)]),
        .ite (
          .block [
            .write 1208 (.field (.var 0)),
            .write 1209 (.field (.var 0))]) (
          .skip)]),
    .assign 18 (.field (.var 0)),
    .loop [F, B, B, B, B, N, N, N, F, F, F, B, F, F, F, F, F, F, F] (
      .block [
        .assign 8 (.elem (.var 18)),
        .write 1213 (.var 8)]),
    .ret (.tuple [(.var 0), (.var 6)])]⟩
def ct_transpose_note_sequence : Contract := ⟨[B, B, B, B, B, B], F⟩

/-- `transpose_note_sequence__in_place@FBBBBB` (sequences_lib.py:1139)  params: ns, amount, min_allowed_pitch, max_allowed_pitch, transpose_chords, in_place
variables: 0=ns 1=amount 2=min_allowed_pitch 3=max_allowed_pitch 4=transpose_chords 5=in_place 6=deleted_note_count 7=end_time 8=ks 9=new_note_list 10=new_ns 11=new_pitch 12=note 13=ta 14=text_annotations_to_keep 15=%it1173_14 16=%it1198_14 17=%it1204_14 18=%it1212_12
-/
def op_transpose_note_sequence__in_place_at_FBBBBB (ix : Nat → Nat) : OpDef := ⟨"transpose_note_sequence__in_place@FBBBBB", 6,
  .block [
    .assign 0 (.param 0),
    .assign 1 (.param 1),
    .assign 2 (.param 2),
    .assign 3 (.param 3),
    .assign 4 (.param 4),
    .assign 5 .scalar,
    .assign 9 .scalar,
    .assign 6 .scalar,
    .assign 7 .scalar,
    .assign 15 (.field (.var 0)),
    .loop [F, B, B, B, B, N, N, N, N, F, N, B, F, N, N, F] (
      .block [
        .assign 12 (.elem (.var 15)),
        .assign 11 (.var 1),
        .ite (
          .block [
            .assign 7 (.var 7),
            .ite (
              .block [
                .write 1179 (.var 12),
                .write 1182 (.var 12)]) (
              .skip),
            .assign 9 (.tuple [(.var 9), (.var 12)])]) (
          .skip)]),
    .ite (
      .block [
        .write 1189 (.field (.var 0)),
        .write 1190 (.field (.var 0))]) (
      .skip),
    .write 1193 (.var 0),
    .ite (
      .block [
        .assign 16 (.field (.var 0)),
        .loop [F, B, B, B, B, N, N, N, N, F, N, B, F, F, N, F, F] (
          .block [
            .assign 13 (.elem (.var 16)),
            .ite (
              .write 1200 (.var 13)) (
              .skip)])]) (
      .block [
        .assign 14 .scalar,
        .assign 17 (.field (.var 0)),
        .loop [F, B, B, B, B, N, N, N, N, F, N, B, F, F, F, F, N, F] (
          .block [
            .assign 13 (.elem (.var 17)),
            .ite (
              .assign 14 (.tuple [(.var 14), (.var 13)])) (
              .skip)]),
        .ite (
          .block [
            .write 1208 (.field (.var 0)),
            .write 1209 (.field (.var 0))]) (
          .skip)]),
    .assign 18 (.field (.var 0)),
    .loop [F, B, B, B, B, N, N, N, F, F, N, B, F, F, F, F, F, F, F] (
      .block [
        .assign 8 (.elem (.var 18)),
        .write 1213 (.var 8)]),
    .ret (.tuple [(.var 0), (.var 6)])]⟩
def ct_transpose_note_sequence__in_place_at_FBBBBB : Contract := ⟨[F, B, B, B, B, B], F⟩

/-- `quantize_to_step__KS_U_U@NBN` (sequences_lib.py:923)  params: unquantized_seconds, steps_per_second, quantize_cutoff
variables: 0=unquantized_seconds 1=steps_per_second 2=quantize_cutoff 3=unquantized_steps
-/
def op_quantize_to_step__KS_U_U_at_NBN (ix : Nat → Nat) : OpDef := ⟨"quantize_to_step__KS_U_U@NBN", 3,
  .block [
    .assign 0 (.param 0),
    .assign 1 (.param 1),
    .assign 2 (.param 2),
    .assign 3 (.tuple [(.var 0), (.var 1)]),
    .ret .scalar]⟩
def ct_quantize_to_step__KS_U_U_at_NBN : Contract := ⟨[N, B, N], N⟩

/-- `_quantize_notes@FB` (sequences_lib.py:948)  params: note_sequence, steps_per_second
variables: 0=note_sequence 1=steps_per_second 2=event 3=note 4=%it965_14 5=_r967 6=_r969 7=%it984_15 8=_r987
-/
def op__quantize_notes_at_FB (ix : Nat → Nat) : OpDef := ⟨"_quantize_notes@FB", 2,
  .block [
    .assign 0 (.param 0),
    .assign 1 (.param 1),
    .assign 4 (.field (.var 0)),
    .loop [F, B, N, F, F, N, N] (
      .block [
        .assign 3 (.elem (.var 4)),
        .callOp 967 5 (ix 16) [.scalar, (.var 1), .scalar],
        .write 967 (.var 3),
        .callOp 969 6 (ix 16) [.scalar, (.var 1), .scalar],
        .write 969 (.var 3),
        .ite (
          .write 971 (.var 3)) (
          .skip),
        .ite (
          .raise) (
          .skip),
        .ite (
          .write 981 (.var 0)) (
          .skip)]),
    .assign 7 (.tuple [(.field (.var 0)), (.field (.var 0))]),
    .loop [F, B, F, F, F, N, N, F, N] (
      .block [
        .assign 2 (.elem (.var 7)),
        .callOp 987 8 (ix 16) [.scalar, (.var 1), .scalar],
        .write 987 (.var 2),
        .ite (
          .raise) (
          .skip)])]⟩
def ct__quantize_notes_at_FB : Contract := ⟨[F, B], N⟩

/-- `_is_power_of_2__KS@N` (sequences_lib.py:633)  params: x
variables: 0=x
-/
def op__is_power_of_2__KS_at_N (ix : Nat → Nat) : OpDef := ⟨"_is_power_of_2__KS@N", 1,
  .block [
    .assign 0 (.param 0),
    .ret (.var 0)]⟩
def ct__is_power_of_2__KS_at_N : Contract := ⟨[N], N⟩

/-- `steps_per_quarter_to_steps_per_second__KU_S@BN` (sequences_lib.py:943)  params: steps_per_quarter, qpm
variables: 0=steps_per_quarter 1=qpm
-/
def op_steps_per_quarter_to_steps_per_second__KU_S_at_BN (ix : Nat → Nat) : OpDef := ⟨"steps_per_quarter_to_steps_per_second__KU_S@BN", 2,
  .block [
    .assign 0 (.param 0),
    .assign 1 (.param 1),
    .ret (.tuple [(.var 0), (.var 1)])]⟩
def ct_steps_per_quarter_to_steps_per_second__KU_S_at_BN : Contract := ⟨[B, N], B⟩

/-- `quantize_note_sequence` (sequences_lib.py:993)  params: note_sequence, steps_per_quarter
variables: 0=note_sequence 1=steps_per_quarter 2=qns 3=steps_per_second 4=tempo 5=tempos 6=time_signature 7=time_signatures 8=ts@key1026 9=%it1039_26 10=_r1059 11=t@key1070 12=%it1081_17 13=_r1096 14=_r1099 15=_r1100
-/
def op_quantize_note_sequence (ix : Nat → Nat) : OpDef := ⟨"quantize_note_sequence", 2,
  .block [
    .assign 0 (.param 0),
    .assign 1 (.param 1),
    .assign 2 (.copyOf (.var 0)),
    .write 1023 (.field (.var 2)),
    .ite (
      .block [
        .assign 7 (.field (.var 2)),
        .ite (
          .raise) (
          .skip),
        .assign 9 (.var 7),
        .loop [B, B, F, N, N, N, F, F, N, F] (
          .block [
            .assign 6 (.elem (.var 9)),
            .ite (
              .raise) (
              .skip)]),
        .write 1051 (.elem (.field (.var 2))),
        .write 1052 (.field (.var 2))]) (
      .block [
        .write 1054 (.field (.var 2)),
        .assign 6 (.elem (.field (.var 2))),
        .write 1055 (.var 6),
        .write 1056 (.var 6),
        .write 1057 (.var 6)]),
    .callOp 1059 10 (ix 18) [.scalar],
    .ite (
      .raise) (
      .skip),
    .ite (
      .raise) (
      .skip),
    .ite (
      .block [
        .assign 5 (.field (.var 2)),
        .ite (
          .raise) (
          .skip),
        .assign 12 (.var 5),
        .loop [B, B, F, N, F, F, F, F, N, F, N, N, F] (
          .block [
            .assign 4 (.elem (.var 12)),
            .ite (
              .raise) (
              .skip)]),
        .write 1088 (.elem (.field (.var 2))),
        .write 1089 (.field (.var 2))]) (
      .block [
        .write 1091 (.field (.var 2)),
        .assign 4 (.elem (.field (.var 2))),
        .write 1092 (.var 4),
        .write 1093 (.var 4)]),
    .callOp 1096 13 (ix 19) [(.var 1), .scalar],
    .assign 3 (.var 13),
    .callOp 1099 14 (ix 16) [.scalar, (.var 3), .scalar],
    .write 1099 (.var 2),
    .callOp 1100 15 (ix 17) [(.var 2), (.var 3)],
    .ret (.var 2)]⟩
def ct_quantize_note_sequence : Contract := ⟨[B, B], F⟩

/-- `quantize_note_sequence_absolute` (sequences_lib.py:1105)  params: note_sequence, steps_per_second
variables: 0=note_sequence 1=steps_per_second 2=qns 3=_r1133 4=_r1134
-/
def op_quantize_note_sequence_absolute (ix : Nat → Nat) : OpDef := ⟨"quantize_note_sequence_absolute", 2,
  .block [
    .assign 0 (.param 0),
    .assign 1 (.param 1),
    .assign 2 (.copyOf (.var 0)),
    .write 1131 (.field (.var 2)),
    .callOp 1133 3 (ix 16) [.scalar, (.var 1), .scalar],
    .write 1133 (.var 2),
    .callOp 1134 4 (ix 17) [(.var 2), (.var 1)],
    .ret (.var 2)]⟩
def ct_quantize_note_sequence_absolute : Contract := ⟨[B, B], F⟩

/-- `apply_sustain_control_changes` (sequences_lib.py:1553)  params: note_sequence, sustain_control_number
variables: 0=note_sequence 1=sustain_control_number 2=active_notes 3=cc 4=event 5=event_type 6=events 7=instrument 8=new_active_notes 9=note 10=sequence 11=sus_active 12=time 13=value 14=_r1579 15=_acc1587 16=note@1587 17=%it1587_63 18=_acc1589 19=note@1589 20=%it1589_62 21=%it1592_12 22=%it1614_33 23=_t1616 24=_t1618 25=%it1621_18 26=_t1631 27=%it1636_20 28=_t1650 29=%it1667_20 30=%it1668_16
-/
def op_apply_sustain_control_changes (ix : Nat → Nat) : OpDef := ⟨"apply_sustain_control_changes", 2,
  .block [
    .assign 0 (.param 0),
    .assign 1 (.param 1),
    .callOp 1579 14 (ix 0) [(.var 0)],
    .ite (
      .raise) (
      .skip),
    .assign 10 (.copyOf (.var 0)),
    .assign 6 .scalar,
    .assign 15 .scalar,
    .assign 17 (.field (.var 10)),
    .loop [B, B, N, N, N, N, N, N, N, N, F, N, N, N, N, F, F, F] (
      .block [
        .assign 16 (.elem (.var 17)),
        .ite (
          .assign 15 (.tuple [(.var 15), (.var 16)])) (
          .skip)]),
    .assign 2 (.tuple [(.var 2), (.var 15)]),
    .assign 4 (.tuple [(.var 4), (.var 15)]),
    .assign 5 (.tuple [(.var 5), (.var 15)]),
    .assign 6 (.tuple [(.var 6), (.var 15)]),
    .assign 7 (.tuple [(.var 7), (.var 15)]),
    .assign 8 (.tuple [(.var 8), (.var 15)]),
    .assign 9 (.tuple [(.var 9), (.var 15)]),
    .assign 12 (.tuple [(.var 12), (.var 15)]),
    .assign 18 .scalar,
    .assign 20 (.field (.var 10)),
    .loop [B, B, F, N, F, F, F, F, F, F, F, N, F, N, N, F, F, F, F, F, F] (
      .block [
        .assign 19 (.elem (.var 20)),
        .ite (
          .assign 18 (.tuple [(.var 18), (.var 19)])) (
          .skip)]),
    .assign 2 (.tuple [(.var 2), (.var 18)]),
    .assign 4 (.tuple [(.var 4), (.var 18)]),
    .assign 5 (.tuple [(.var 5), (.var 18)]),
    .assign 6 (.tuple [(.var 6), (.var 18)]),
    .assign 7 (.tuple [(.var 7), (.var 18)]),
    .assign 8 (.tuple [(.var 8), (.var 18)]),
    .assign 9 (.tuple [(.var 9), (.var 18)]),
    .assign 12 (.tuple [(.var 12), (.var 18)]),
    .assign 21 (.field (.var 10)),
    .loop [B, B, F, F, F, F, F, F, F, F, F, N, F, N, N, F, F, F, F, F, F, F] (
      .block [
        .assign 3 (.elem (.var 21)),
        .ite (
          .skip) (
          .block [
            .assign 13 .scalar,
            .ite (
              .block [
                .assign 2 (.tuple [(.var 2), (.var 3)]),
                .assign 4 (.tuple [(.var 4), (.var 3)]),
                .assign 5 (.tuple [(.var 5), (.var 3)]),
                .assign 6 (.tuple [(.var 6), (.var 3)]),
                .assign 7 (.tuple [(.var 7), (.var 3)]),
                .assign 8 (.tuple [(.var 8), (.var 3)]),
                .assign 9 (.tuple [(.var 9), (.var 3)]),
                .assign 12 (.tuple [(.var 12), (.var 3)])]) (
              .ite (
                .block [
                  .assign 2 (.tuple [(.var 2), (.var 3)]),
                  .assign 4 (.tuple [(.var 4), (.var 3)]),
                  .assign 5 (.tuple [(.var 5), (.var 3)]),
                  .assign 6 (.tuple [(.var 6), (.var 3)]),
                  .assign 7 (.tuple [(.var 7), (.var 3)]),
                  .assign 8 (.tuple [(.var 8), (.var 3)]),
                  .assign 9 (.tuple [(.var 9), (.var 3)]),
                  .assign 12 (.tuple [(.var 12), (.var 3)])]) (
                .skip))])]),
    .assign 2 .scalar,
    .assign 11 .scalar,
    .assign 12 .scalar,
    .assign 22 (.var 6),
    .loop [B, B, F, F, F, F, F, F, F, F, F, N, F, N, N, F, F, F, F, F, F, F, F, N, N, F, F, F, F] (
      .block [
        .assign 12 (.elem (.elem (.var 22))),
        .assign 5 (.elem (.elem (.var 22))),
        .assign 4 (.elem (.elem (.var 22))),
        .ite (
          .assign 23 .scalar) (
          .ite (
            .block [
              .assign 24 .scalar,
              .assign 8 .scalar,
              .assign 25 (.elem (.var 2)),
              .loop [B, B, F, F, F, F, F, F, F, F, F, N, F, N, N, F, F, F, F, F, F, F, F, N, N, F, F, F, F] (
                .block [
                  .assign 9 (.elem (.var 25)),
                  .ite (
                    .block [
                      .write 1625 (.var 9),
                      .ite (
                        .write 1627 (.var 10)) (
                        .skip)]) (
                    .block [
                      .assign 2 (.tuple [(.var 2), (.var 9)]),
                      .assign 4 (.tuple [(.var 4), (.var 9)]),
                      .assign 5 (.tuple [(.var 5), (.var 9)]),
                      .assign 6 (.tuple [(.var 6), (.var 9)]),
                      .assign 7 (.tuple [(.var 7), (.var 9)]),
                      .assign 8 (.tuple [(.var 8), (.var 9)]),
                      .assign 9 (.tuple [(.var 9), (.var 9)]),
                      .assign 12 (.tuple [(.var 12), (.var 9)]),
                      .assign 22 (.tuple [(.var 22), (.var 9)]),
                      .assign 25 (.tuple [(.var 25), (.var 9)])])]),
              .assign 26 (.var 8),
              .assign 2 (.tuple [(.var 2), (.var 26)]),
              .assign 4 (.tuple [(.var 4), (.var 26)]),
              .assign 5 (.tuple [(.var 5), (.var 26)]),
              .assign 6 (.tuple [(.var 6), (.var 26)]),
              .assign 7 (.tuple [(.var 7), (.var 26)]),
              .assign 8 (.tuple [(.var 8), (.var 26)]),
              .assign 9 (.tuple [(.var 9), (.var 26)]),
              .assign 12 (.tuple [(.var 12), (.var 26)]),
              .assign 22 (.tuple [(.var 22), (.var 26)]),
              .assign 25 (.tuple [(.var 25), (.var 26)])]) (
            .ite (
              .block [
                .ite (
                  .block [
                    .assign 8 .scalar,
                    .assign 27 (.elem (.var 2)),
                    .loop [B, B, F, F, F, F, F, F, F, F, F, N, F, N, N, F, F, F, F, F, F, F, F, N, N, F, F, F, F] (
                      .block [
                        .assign 9 (.elem (.var 27)),
                        .ite (
                          .block [
                            .write 1638 (.var 9),
                            .ite (
                              .write 1647 (.field (.var 10))) (
                              .skip)]) (
                          .block [
                            .assign 2 (.tuple [(.var 2), (.var 9)]),
                            .assign 4 (.tuple [(.var 4), (.var 9)]),
                            .assign 5 (.tuple [(.var 5), (.var 9)]),
                            .assign 6 (.tuple [(.var 6), (.var 9)]),
                            .assign 7 (.tuple [(.var 7), (.var 9)]),
                            .assign 8 (.tuple [(.var 8), (.var 9)]),
                            .assign 9 (.tuple [(.var 9), (.var 9)]),
                            .assign 12 (.tuple [(.var 12), (.var 9)]),
                            .assign 22 (.tuple [(.var 22), (.var 9)]),
                            .assign 25 (.tuple [(.var 25), (.var 9)]),
                            .assign 27 (.tuple [(.var 27), (.var 9)])])]),
                    .assign 28 (.var 8),
                    .assign 2 (.tuple [(.var 2), (.var 28)]),
                    .assign 4 (.tuple [(.var 4), (.var 28)]),
                    .assign 5 (.tuple [(.var 5), (.var 28)]),
                    .assign 6 (.tuple [(.var 6), (.var 28)]),
                    .assign 7 (.tuple [(.var 7), (.var 28)]),
                    .assign 8 (.tuple [(.var 8), (.var 28)]),
                    .assign 9 (.tuple [(.var 9), (.var 28)]),
                    .assign 12 (.tuple [(.var 12), (.var 28)]),
                    .assign 22 (.tuple [(.var 22), (.var 28)]),
                    .assign 25 (.tuple [(.var 25), (.var 28)]),
                    .assign 27 (.tuple [(.var 27), (.var 28)])]) (
                  .skip),
                .assign 2 (.tuple [(.var 2), (.var 4)]),
                .assign 4 (.tuple [(.var 4), (.var 4)]),
                .assign 5 (.tuple [(.var 5), (.var 4)]),
                .assign 6 (.tuple [(.var 6), (.var 4)]),
                .assign 7 (.tuple [(.var 7), (.var 4)]),
                .assign 8 (.tuple [(.var 8), (.var 4)]),
                .assign 9 (.tuple [(.var 9), (.var 4)]),
                .assign 12 (.tuple [(.var 12), (.var 4)]),
                .assign 22 (.tuple [(.var 22), (.var 4)]),
                .assign 25 (.tuple [(.var 25), (.var 4)]),
                .assign 27 (.tuple [(.var 27), (.var 4)])]) (
              .ite (
                .skip) (
                .raise))))]),
    .assign 29 (.var 2),
    .loop [B, B, F, F, F, F, F, F, F, F, F, N, F, N, N, F, F, F, F, F, F, F, F, N, N, F, F, F, F, F, F] (
      .block [
        .assign 7 (.elem (.var 29)),
        .assign 30 (.var 7),
        .loop [B, B, F, F, F, F, F, F, F, F, F, N, F, N, N, F, F, F, F, F, F, F, F, N, N, F, F, F, F, F, F] (
          .block [
            .assign 9 (.elem (.var 30)),
            .write 1669 (.var 9),
            .ite (
              .write 1671 (.var 10)) (
              .skip)])]),
    .ret (.var 10)]⟩
def ct_apply_sustain_control_changes : Contract := ⟨[B, B], F⟩

/-- `remove_redundant_data__KP@F` (sequences_lib.py:421)  params: sequence
variables: 0=sequence 1=added_composer 2=added_genre 3=composer 4=events 5=fixed_sequence 6=genre 7=i 8=tmp_ts 9=%it439_16 10=e@key443 11=%it444_13 12=%it456_20 13=%it463_17
-/
def op_remove_redundant_data__KP_at_F (ix : Nat → Nat) : OpDef := ⟨"remove_redundant_data__KP@F", 1,
  .block [
    .assign 0 (.param 0),
    .assign 5 (.copyOf (.var 0)),
    .assign 9 (.tuple [(.field (.var 5)), (.field (.var 5)), (.field (.var 5))]),
    .loop [F, N, N, N, F, F, N, N, F, F, N, N] (
      .block [
        .assign 4 (.elem (.var 9)),
        .write 443 (.var 4),
        .assign 11 .scalar,
        .loop [F, N, N, N, F, F, N, N, F, F, N, N] (
          .block [
            .assign 7 (.elem (.var 11)),
            .assign 8 (.copyOf (.elem (.var 4))),
            .write 446 (.var 8),
            .ite (
              .write 450 (.var 4)) (
              .skip)])]),
    .ite (
      .block [
        .write 454 (.field (.field (.var 5))),
        .assign 1 .scalar,
        .assign 12 (.field (.field (.var 0))),
        .loop [F, F, N, F, F, F, N, N, F, F, N, N, F] (
          .block [
            .assign 3 (.elem (.var 12)),
            .ite (
              .block [
                .write 458 (.field (.field (.var 5))),
                .assign 1 (.tuple [(.var 1), (.var 3)])]) (
              .skip)]),
        .write 461 (.field (.field (.var 5))),
        .assign 2 .scalar,
        .assign 13 (.field (.field (.var 0))),
        .loop [F, F, F, F, F, F, F, N, F, F, N, N, F, F] (
          .block [
            .assign 6 (.elem (.var 13)),
            .ite (
              .block [
                .write 465 (.field (.field (.var 5))),
                .assign 2 (.tuple [(.var 2), (.var 6)])]) (
              .skip)])]) (
      .skip),
    .ret (.var 5)]⟩
def ct_remove_redundant_data__KP_at_F : Contract := ⟨[F], F⟩

/-- `concatenate_sequences` (sequences_lib.py:471)  params: sequences, sequence_durations
variables: 0=sequences 1=sequence_durations 2=cat_seq 3=current_total_time 4=i 5=sequence 6=%it499_11 7=_r507 8=_r519
-/
def op_concatenate_sequences (ix : Nat → Nat) : OpDef := ⟨"concatenate_sequences", 2,
  .block [
    .assign 0 (.param 0),
    .assign 1 (.param 1),
    .ite (
      .raise) (
      .skip),
    .assign 3 .scalar,
    .assign 2 .fresh,
    .assign 6 .scalar,
    .loop [B, B, F, B, N, B, N, F] (
      .block [
        .assign 4 (.elem (.var 6)),
        .assign 5 (.elem (.var 0)),
        .ite (
          .raise) (
          .skip),
        .ite (
          .block [
            .callOp 507 7 (ix 10) [(.var 5), (.var 3)],
            .write 507 (.var 2)]) (
          .write 509 (.var 2)),
        .ite (
          .block [
            .assign 1 (.tuple [(.var 1), (.elem (.var 1))]),
            .assign 3 (.tuple [(.var 3), (.elem (.var 1))])]) (
          .assign 3 .scalar)]),
    .write 517 (.var 2),
    .callOp 519 8 (ix 23) [(.var 2)],
    .ret (.var 8)]⟩
def ct_concatenate_sequences : Contract := ⟨[B, B], F⟩

/-- `merge_sequences` (sequences_lib.py:522)  params: sequences
variables: 0=sequences 1=cat_seq 2=seq 3=%it542_13 4=_acc548 5=seq@548 6=%it548_55 7=_r552
-/
def op_merge_sequences (ix : Nat → Nat) : OpDef := ⟨"merge_sequences", 1,
  .block [
    .assign 0 (.param 0),
    .assign 1 .fresh,
    .assign 3 (.var 0),
    .loop [B, F, B, B] (
      .block [
        .assign 2 (.elem (.var 3)),
        .write 543 (.var 1)]),
    .ite (
      .block [
        .assign 4 .scalar,
        .assign 6 (.var 0),
        .loop [B, F, B, B, N, B, B] (
          .assign 5 (.elem (.var 6))),
        .write 548 (.var 1)]) (
      .skip),
    .write 551 (.var 1),
    .callOp 552 7 (ix 23) [(.var 1)],
    .ret (.var 7)]⟩
def ct_merge_sequences : Contract := ⟨[B], F⟩

/-- `concatenate_sequences__KLU_LU` (sequences_lib.py:471)  params: sequences, sequence_durations
variables: 0=sequences 1=sequence_durations 2=cat_seq 3=current_total_time 4=i 5=sequence 6=%it499_11 7=_r507 8=_r519
-/
def op_concatenate_sequences__KLU_LU (ix : Nat → Nat) : OpDef := ⟨"concatenate_sequences__KLU_LU", 2,
  .block [
    .assign 0 (.param 0),
    .assign 1 (.param 1),
    .ite (
      .raise) (
      .skip),
    .assign 3 .scalar,
    .assign 2 .fresh,
    .assign 6 .scalar,
    .loop [B, B, F, B, N, B, N, F] (
      .block [
        .assign 4 (.elem (.var 6)),
        .assign 5 (.elem (.var 0)),
        .ite (
          .raise) (
          .skip),
        .ite (
          .block [
            .callOp 507 7 (ix 10) [(.var 5), (.var 3)],
            .write 507 (.var 2)]) (
          .write 509 (.var 2)),
        .ite (
          .block [
            .assign 1 (.tuple [(.var 1), (.elem (.var 1))]),
            .assign 3 (.tuple [(.var 3), (.elem (.var 1))])]) (
          .assign 3 .scalar)]),
    .write 517 (.var 2),
    .callOp 519 8 (ix 23) [(.var 2)],
    .ret (.var 8)]⟩
def ct_concatenate_sequences__KLU_LU : Contract := ⟨[B, B], F⟩

/-- `_extract_subsequences__KU_LU_U@FBN` (sequences_lib.py:134)  params: sequence, split_times, preserve_control_numbers
variables: 0=sequence 1=split_times 2=preserve_control_numbers 3=containers 4=event 5=events 6=events_by_type 7=new_event_containers 8=new_stateless_event_containers 9=note 10=pedal_event 11=pedal_events 12=previous_event 13=previous_pedal_event 14=previous_pedal_events 15=start_time 16=stateless_events_by_type 17=subsequence 18=subsequence_index 19=subsequences 20=_r159 21=_acc165 22=t1@165 23=t2@165 24=%it165_31 25=_acc167 26=time@167 27=%it167_49 28=_acc186 29=_@186 30=%it186_42 31=note@key192 32=%it192_14 33=_acc217 34=annotation@217 35=%it217_39 36=_acc222 37=s@222 38=%it222_54 39=_acc223 40=s@223 41=%it223_53 42=_acc224 43=s@224 44=%it224_45 45=_acc225 46=s@225 47=%it225_55 48=%it227_28 49=event@key230 50=%it230_17 51=_acc261 52=annotation@261 53=%it261_35 54=_acc265 55=s@265 56=%it265_65 57=%it266_28 58=event@key269 59=%it269_17 60=_acc283 61=cc@283 62=%it283_19 63=event@key289 64=%it289_21 65=_t291 66=%it300_34 67=_t312 68=%it318_32 69=%it324_33
-/
def op__extract_subsequences__KU_LU_U_at_FBN (ix : Nat → Nat) : OpDef := ⟨"_extract_subsequences__KU_LU_U@FBN", 3,
  .block [
    .assign 0 (.param 0),
    .assign 1 (.param 1),
    .assign 2 (.param 2),
    .callOp 159 20 (ix 12) [(.var 0)],
    .ite (
      .raise) (
      .skip),
    .ite (
      .raise) (
      .skip),
    .assign 21 .scalar,
    .assign 24 (.tuple [(.var 1), (.var 1)]),
    .loop [F, B, N, N, N, N, N, N, N, N, N, N, N, N, N, N, N, N, N, N, N, N, B, B, B] (
      .block [
        .assign 22 (.elem (.var 1)),
        .assign 23 (.elem (.var 1))]),
    .ite (
      .raise) (
      .skip),
    .assign 25 .scalar,
    .assign 27 (.var 1),
    .loop [F, B, N, N, N, N, N, N, N, N, N, N, N, N, N, N, N, N, N, N, N, N, B, B, B, N, B, B] (
      .assign 26 (.elem (.var 27))),
    .ite (
      .raise) (
      .skip),
    .ite (
      .assign 2 .scalar) (
      .skip),
    .assign 17 .fresh,
    .write 174 (.var 17),
    .write 176 (.var 17),
    .write 178 (.field (.var 17)),
    .write 179 (.field (.var 17)),
    .write 180 (.field (.var 17)),
    .write 181 (.field (.var 17)),
    .write 182 (.field (.var 17)),
    .write 183 (.field (.var 17)),
    .write 184 (.field (.var 17)),
    .assign 28 .scalar,
    .assign 30 .scalar,
    .loop [F, B, N, N, N, N, N, N, N, N, N, N, N, N, N, N, N, F, N, N, N, N, B, B, B, N, B, B, F, N, N] (
      .block [
        .assign 29 (.elem (.var 30)),
        .assign 28 (.tuple [(.var 28), (.copyOf (.var 17))])]),
    .assign 19 (.var 28),
    .assign 18 .scalar,
    .assign 32 (.field (.var 0)),
    .loop [F, B, N, N, N, N, N, N, N, F, N, N, N, N, N, N, N, F, N, F, N, N, B, B, B, N, B, B, F, N, N, N, F] (
      .block [
        .assign 9 (.elem (.var 32)),
        .ite (
          .skip) (
          .ite (
            .skip) (
            .block [
              .write 200 (.field (.elem (.var 19))),
              .write 201 (.elem (.field (.elem (.var 19)))),
              .write 203 (.elem (.field (.elem (.var 19)))),
              .ite (
                .write 208 (.elem (.var 19))) (
                .skip)]))]),
    .assign 33 .scalar,
    .assign 35 (.field (.var 0)),
    .loop [F, B, N, N, N, N, N, N, N, F, N, N, N, N, N, N, N, F, N, F, N, N, B, B, B, N, B, B, F, N, N, N, F, F, F, F] (
      .block [
        .assign 34 (.elem (.var 35)),
        .ite (
          .assign 33 (.tuple [(.var 33), (.var 34)])) (
          .skip)]),
    .assign 6 (.tuple [(.field (.var 0)), (.field (.var 0)), (.field (.var 0)), (.var 33)]),
    .assign 36 .scalar,
    .assign 38 (.var 19),
    .loop [F, B, N, N, N, N, F, N, N, F, N, N, N, N, N, N, N, F, N, F, N, N, B, B, B, N, B, B, F, N, N, N, F, F, F, F, F, F, F] (
      .block [
        .assign 37 (.elem (.var 38)),
        .assign 36 (.tuple [(.var 36), (.field (.var 37))])]),
    .assign 39 .scalar,
    .assign 41 (.var 19),
    .loop [F, B, N, N, N, N, F, N, N, F, N, N, N, N, N, N, N, F, N, F, N, N, B, B, B, N, B, B, F, N, N, N, F, F, F, F, F, F, F, F, F, F] (
      .block [
        .assign 40 (.elem (.var 41)),
        .assign 39 (.tuple [(.var 39), (.field (.var 40))])]),
    .assign 42 .scalar,
    .assign 44 (.var 19),
    .loop [F, B, N, N, N, N, F, N, N, F, N, N, N, N, N, N, N, F, N, F, N, N, B, B, B, N, B, B, F, N, N, N, F, F, F, F, F, F, F, F, F, F, F, F, F] (
      .block [
        .assign 43 (.elem (.var 44)),
        .assign 42 (.tuple [(.var 42), (.field (.var 43))])]),
    .assign 45 .scalar,
    .assign 47 (.var 19),
    .loop [F, B, N, N, N, N, F, N, N, F, N, N, N, N, N, N, N, F, N, F, N, N, B, B, B, N, B, B, F, N, N, N, F, F, F, F, F, F, F, F, F, F, F, F, F, F, F, F] (
      .block [
        .assign 46 (.elem (.var 47)),
        .assign 45 (.tuple [(.var 45), (.field (.var 46))])]),
    .assign 7 (.tuple [(.var 36), (.var 39), (.var 42), (.var 45)]),
    .assign 48 (.tuple [(.var 6), (.var 7)]),
    .loop [F, B, N, F, F, F, F, F, N, F, N, N, F, N, N, N, N, F, N, F, N, N, B, B, B, N, B, B, F, N, N, N, F, F, F, F, F, F, F, F, F, F, F, F, F, F, F, F, F, N, F] (
      .block [
        .assign 5 (.elem (.var 6)),
        .assign 3 (.elem (.var 7)),
        .assign 12 .scalar,
        .assign 18 .scalar,
        .assign 50 (.var 5),
        .loop [F, B, N, F, F, F, F, F, N, F, N, N, F, N, N, N, N, F, N, F, N, N, B, B, B, N, B, B, F, N, N, N, F, F, F, F, F, F, F, F, F, F, F, F, F, F, F, F, F, N, F] (
          .block [
            .assign 4 (.elem (.var 50)),
            .ite (
              .assign 12 (.var 4)) (
              .skip),
            .ite (
              .skip) (
              .block [
                .loop [F, B, N, F, F, F, F, F, N, F, N, N, F, N, N, N, N, F, N, F, N, N, B, B, B, N, B, B, F, N, N, N, F, F, F, F, F, F, F, F, F, F, F, F, F, F, F, F, F, N, F] (
                  .ite (
                    .skip) (
                    .ite (
                      .block [
                        .write 241 (.elem (.var 3)),
                        .write 242 (.elem (.elem (.var 3)))]) (
                      .skip))),
                .ite (
                  .skip) (
                  .block [
                    .ite (
                      .block [
                        .write 248 (.elem (.var 3)),
                        .write 249 (.elem (.elem (.var 3)))]) (
                      .skip),
                    .assign 12 (.var 4)])])]),
        .loop [F, B, N, F, F, F, F, F, N, F, N, N, F, N, N, N, N, F, N, F, N, N, B, B, B, N, B, B, F, N, N, N, F, F, F, F, F, F, F, F, F, F, F, F, F, F, F, F, F, N, F] (
          .ite (
            .block [
              .write 255 (.elem (.var 3)),
              .write 256 (.elem (.elem (.var 3)))]) (
            .skip))]),
    .assign 51 .scalar,
    .assign 53 (.field (.var 0)),
    .loop [F, B, N, F, F, F, F, F, N, F, N, N, F, N, N, N, N, F, N, F, N, N, B, B, B, N, B, B, F, N, N, N, F, F, F, F, F, F, F, F, F, F, F, F, F, F, F, F, F, N, F, F, F, F] (
      .block [
        .assign 52 (.elem (.var 53)),
        .ite (
          .assign 51 (.tuple [(.var 51), (.var 52)])) (
          .skip)]),
    .assign 16 (.var 51),
    .assign 54 .scalar,
    .assign 56 (.var 19),
    .loop [F, B, N, F, F, F, F, F, N, F, N, N, F, N, N, N, F, F, N, F, N, N, B, B, B, N, B, B, F, N, N, N, F, F, F, F, F, F, F, F, F, F, F, F, F, F, F, F, F, N, F, F, F, F, F, F, F] (
      .block [
        .assign 55 (.elem (.var 56)),
        .assign 54 (.tuple [(.var 54), (.field (.var 55))])]),
    .assign 8 (.var 54),
    .assign 57 (.tuple [(.var 16), (.var 8)]),
    .loop [F, B, N, F, F, F, F, F, F, F, N, N, F, N, N, N, F, F, N, F, N, N, B, B, B, N, B, B, F, N, N, N, F, F, F, F, F, F, F, F, F, F, F, F, F, F, F, F, F, N, F, F, F, F, F, F, F, F, N, F] (
      .block [
        .assign 5 (.elem (.var 16)),
        .assign 3 (.elem (.var 8)),
        .assign 18 .scalar,
        .assign 59 (.var 5),
        .loop [F, B, N, F, F, F, F, F, F, F, N, N, F, N, N, N, F, F, N, F, N, N, B, B, B, N, B, B, F, N, N, N, F, F, F, F, F, F, F, F, F, F, F, F, F, F, F, F, F, N, F, F, F, F, F, F, F, F, N, F] (
          .block [
            .assign 4 (.elem (.var 59)),
            .ite (
              .skip) (
              .ite (
                .skip) (
                .block [
                  .write 277 (.elem (.var 3)),
                  .write 278 (.elem (.elem (.var 3)))]))])]),
    .assign 60 .scalar,
    .assign 62 (.field (.var 0)),
    .loop [F, B, N, F, F, F, F, F, F, F, N, N, F, N, N, N, F, F, N, F, N, N, B, B, B, N, B, B, F, N, N, N, F, F, F, F, F, F, F, F, F, F, F, F, F, F, F, F, F, N, F, F, F, F, F, F, F, F, N, F, F, F, F] (
      .block [
        .assign 61 (.elem (.var 62)),
        .ite (
          .assign 60 (.tuple [(.var 60), (.var 61)])) (
          .skip)]),
    .assign 11 (.var 60),
    .assign 14 .scalar,
    .assign 18 .scalar,
    .assign 64 (.var 11),
    .loop [F, B, N, F, F, F, F, F, F, F, F, F, F, F, F, N, F, F, N, F, N, N, B, B, B, N, B, B, F, N, N, N, F, F, F, F, F, F, F, F, F, F, F, F, F, F, F, F, F, N, F, F, F, F, F, F, F, F, N, F, F, F, F, N, F, F, F, F] (
      .block [
        .assign 10 (.elem (.var 64)),
        .ite (
          .block [
            .assign 65 (.var 10),
            .assign 14 (.tuple [(.var 14), (.var 65)])]) (
          .skip),
        .ite (
          .skip) (
          .block [
            .loop [F, B, N, F, F, F, F, F, F, F, F, F, F, F, F, N, F, F, N, F, N, N, B, B, B, N, B, B, F, N, N, N, F, F, F, F, F, F, F, F, F, F, F, F, F, F, F, F, F, N, F, F, F, F, F, F, F, F, N, F, F, F, F, N, F, F, F, F] (
              .ite (
                .skip) (
                .block [
                  .assign 66 (.var 14),
                  .loop [F, B, N, F, F, F, F, F, F, F, F, F, F, F, F, N, F, F, N, F, N, N, B, B, B, N, B, B, F, N, N, N, F, F, F, F, F, F, F, F, F, F, F, F, F, F, F, F, F, N, F, F, F, F, F, F, F, F, N, F, F, F, F, N, F, F, F, F] (
                    .block [
                      .assign 13 (.elem (.var 66)),
                      .write 301 (.field (.elem (.var 19))),
                      .write 303 (.elem (.field (.elem (.var 19))))])])),
            .ite (
              .skip) (
              .block [
                .ite (
                  .block [
                    .write 309 (.field (.elem (.var 19))),
                    .write 310 (.elem (.field (.elem (.var 19))))]) (
                  .skip),
                .assign 67 (.var 10),
                .assign 14 (.tuple [(.var 14), (.var 67)]),
                .assign 66 (.tuple [(.var 66), (.var 67)])])])]),
    .loop [F, B, N, F, F, F, F, F, F, F, F, F, F, F, F, N, F, F, N, F, N, N, B, B, B, N, B, B, F, N, N, N, F, F, F, F, F, F, F, F, F, F, F, F, F, F, F, F, F, N, F, F, F, F, F, F, F, F, N, F, F, F, F, N, F, F, F, F, F] (
      .block [
        .assign 68 (.var 14),
        .loop [F, B, N, F, F, F, F, F, F, F, F, F, F, F, F, N, F, F, N, F, N, N, B, B, B, N, B, B, F, N, N, N, F, F, F, F, F, F, F, F, F, F, F, F, F, F, F, F, F, N, F, F, F, F, F, F, F, F, N, F, F, F, F, N, F, F, F, F, F] (
          .block [
            .assign 13 (.elem (.var 68)),
            .write 319 (.field (.elem (.var 19))),
            .write 321 (.elem (.field (.elem (.var 19))))])]),
    .assign 69 (.tuple [(.var 19), (.var 1)]),
    .loop [F, B, N, F, F, F, F, F, F, F, F, F, F, F, F, B, F, F, N, F, N, N, B, B, B, N, B, B, F, N, N, N, F, F, F, F, F, F, F, F, F, F, F, F, F, F, F, F, F, N, F, F, F, F, F, F, F, F, N, F, F, F, F, N, F, F, F, F, F, B] (
      .block [
        .assign 17 (.elem (.var 19)),
        .assign 15 (.elem (.var 1)),
        .write 325 (.field (.var 17)),
        .write 326 (.field (.var 17))]),
    .ret (.var 19)]⟩
def ct__extract_subsequences__KU_LU_U_at_FBN : Contract := ⟨[F, B, N], F⟩

/-- `extract_subsequence__KU_S_U_U@FNBN` (sequences_lib.py:332)  params: sequence, start_time, end_time, preserve_control_numbers
variables: 0=sequence 1=start_time 2=end_time 3=preserve_control_numbers 4=_r368
-/
def op_extract_subsequence__KU_S_U_U_at_FNBN (ix : Nat → Nat) : OpDef := ⟨"extract_subsequence__KU_S_U_U@FNBN", 4,
  .block [
    .assign 0 (.param 0),
    .assign 1 (.param 1),
    .assign 2 (.param 2),
    .assign 3 (.param 3),
    .callOp 368 4 (ix 27) [(.var 0), (.tuple [(.var 1), (.var 2)]), (.var 3)],
    .ret (.elem (.var 4))]⟩
def ct_extract_subsequence__KU_S_U_U_at_FNBN : Contract := ⟨[F, N, B, N], F⟩

/-- `repeat_sequence_to_duration` (sequences_lib.py:555)  params: sequence, duration, sequence_duration
variables: 0=sequence 1=duration 2=sequence_duration 3=num_repeats 4=repeated_ns 5=trimmed 6=_r569 7=_r573
-/
def op_repeat_sequence_to_duration (ix : Nat → Nat) : OpDef := ⟨"repeat_sequence_to_duration", 3,
  .block [
    .assign 0 (.param 0),
    .assign 1 (.param 1),
    .assign 2 (.param 2),
    .ite (
      .assign 2 .scalar) (
      .skip),
    .assign 3 .scalar,
    .callOp 569 6 (ix 26) [(.tuple [(.var 0), (.var 3)]), (.tuple [(.var 2), (.var 3)])],
    .assign 4 (.var 6),
    .callOp 573 7 (ix 28) [(.var 4), .scalar, (.var 1), .scalar],
    .assign 5 (.var 7),
    .write 574 (.var 5),
    .ret (.var 5)]⟩
def ct_repeat_sequence_to_duration : Contract := ⟨[B, B, B], F⟩

/-- `extract_subsequence__KU_S_S_U@BNNN` (sequences_lib.py:332)  params: sequence, start_time, end_time, preserve_control_numbers
variables: 0=sequence 1=start_time 2=end_time 3=preserve_control_numbers 4=_r368
-/
def op_extract_subsequence__KU_S_S_U_at_BNNN (ix : Nat → Nat) : OpDef := ⟨"extract_subsequence__KU_S_S_U@BNNN", 4,
  .block [
    .assign 0 (.param 0),
    .assign 1 (.param 1),
    .assign 2 (.param 2),
    .assign 3 (.param 3),
    .callOp 368 4 (ix 7) [(.var 0), (.tuple [(.var 1), (.var 2)]), (.var 3)],
    .ret (.elem (.var 4))]⟩
def ct_extract_subsequence__KU_S_S_U_at_BNNN : Contract := ⟨[B, N, N, N], F⟩

/-- `expand_section_groups.sections_in_group` (sequences_lib.py:614)  params: section_group
variables: 0=section_group 1=field 2=section 3=sections 4=%it616_19 5=_r621
-/
def op_expand_section_groups_sections_in_group (ix : Nat → Nat) : OpDef := ⟨"expand_section_groups.sections_in_group", 1,
  .block [
    .assign 0 (.param 0),
    .assign 3 .scalar,
    .assign 4 (.field (.var 0)),
    .loop [B, N, B, N, B, N] (
      .block [
        .assign 2 (.elem (.var 4)),
        .assign 1 .scalar,
        .ite (
          .skip) (
          .ite (
            .block [
              .callOp 621 5 (ix 31) [(.field (.var 2))],
              .assign 3 (.tuple [(.var 3), (.var 5)])]) (
            .skip))]),
    .ret (.var 3)]⟩
def ct_expand_section_groups_sections_in_group : Contract := ⟨[B], N⟩

/-- `shift_sequence_times__KU_S@FN` (sequences_lib.py:374)  params: sequence, shift_seconds
variables: 0=sequence 1=shift_seconds 2=event 3=events_to_shift 4=note 5=shifted 6=_r392 7=%it403_14 8=%it413_15
-/
def op_shift_sequence_times__KU_S_at_FN (ix : Nat → Nat) : OpDef := ⟨"shift_sequence_times__KU_S@FN", 2,
  .block [
    .assign 0 (.param 0),
    .assign 1 (.param 1),
    .ite (
      .raise) (
      .skip),
    .callOp 392 6 (ix 12) [(.var 0)],
    .ite (
      .raise) (
      .skip),
    .assign 5 .fresh,
    .write 397 (.var 5),
    .write 400 (.var 5),
    .assign 7 (.field (.var 5)),
    .loop [F, N, N, N, F, F, N, F] (
      .block [
        .assign 4 (.elem (.var 7)),
        .write 404 (.var 4),
        .write 405 (.var 4)]),
    .assign 3 (.tuple [(.field (.var 5)), (.field (.var 5)), (.field (.var 5)), (.field (.var 5)), (.field (.var 5)), (.field (.var 5)), (.field (.var 5))]),
    .assign 8 (.var 3),
    .loop [F, N, F, F, F, F, N, F, F] (
      .block [
        .assign 2 (.elem (.var 8)),
        .write 414 (.var 2)]),
    .write 416 (.var 5),
    .ret (.var 5)]⟩
def ct_shift_sequence_times__KU_S_at_FN : Contract := ⟨[F, N], F⟩

/-- `concatenate_sequences__KLU_LS@FN` (sequences_lib.py:471)  params: sequences, sequence_durations
variables: 0=sequences 1=sequence_durations 2=cat_seq 3=current_total_time 4=i 5=sequence 6=%it499_11 7=_r507 8=_r519
-/
def op_concatenate_sequences__KLU_LS_at_FN (ix : Nat → Nat) : OpDef := ⟨"concatenate_sequences__KLU_LS@FN", 2,
  .block [
    .assign 0 (.param 0),
    .assign 1 (.param 1),
    .ite (
      .raise) (
      .skip),
    .assign 3 .scalar,
    .assign 2 .fresh,
    .assign 6 .scalar,
    .loop [F, N, F, N, N, F, N, F] (
      .block [
        .assign 4 (.elem (.var 6)),
        .assign 5 (.elem (.var 0)),
        .ite (
          .raise) (
          .skip),
        .ite (
          .block [
            .callOp 507 7 (ix 32) [(.var 5), (.var 3)],
            .write 507 (.var 2)]) (
          .write 509 (.var 2)),
        .ite (
          .assign 3 (.tuple [(.var 3), (.elem (.var 1))])) (
          .assign 3 .scalar)]),
    .write 517 (.var 2),
    .callOp 519 8 (ix 23) [(.var 2)],
    .ret (.var 8)]⟩
def ct_concatenate_sequences__KLU_LS_at_FN : Contract := ⟨[F, N], F⟩

/-- `expand_section_groups` (sequences_lib.py:578)  params: sequence
variables: 0=sequence 1=end_time 2=i 3=section_durations 4=section_group 5=section_id 6=sections 7=sections_to_concat 8=start_time 9=subsequence 10=%it594_11 11=_r602 12=_t610 13=_t611 14=%it625_23 15=_r626 16=_acc629 17=i@629 18=%it629_28 19=_acc630 20=i@630 21=%it630_37 22=_r628
-/
def op_expand_section_groups (ix : Nat → Nat) : OpDef := ⟨"expand_section_groups", 1,
  .block [
    .assign 0 (.param 0),
    .ite (
      .ret (.copyOf (.var 0))) (
      .skip),
    .assign 6 .scalar,
    .assign 3 .scalar,
    .assign 10 .scalar,
    .loop [B, N, N, N, N, N, F, N, N, F, N, F, F, N] (
      .block [
        .assign 2 (.elem (.var 10)),
        .assign 5 .scalar,
        .assign 8 .scalar,
        .ite (
          .assign 1 .scalar) (
          .assign 1 .scalar),
        .callOp 602 11 (ix 30) [(.var 0), (.var 8), (.var 1), .scalar],
        .assign 9 (.var 11),
        .write 604 (.field (.var 9)),
        .write 607 (.field (.var 9)),
        .write 608 (.field (.var 9)),
        .assign 12 (.var 9),
        .assign 0 (.tuple [(.var 0), (.var 12)]),
        .assign 6 (.tuple [(.var 6), (.var 12)]),
        .assign 9 (.tuple [(.var 9), (.var 12)]),
        .assign 13 (.tuple [(.var 1), (.var 8)]),
        .assign 3 (.tuple [(.var 3), (.var 13)])]),
    .assign 7 .scalar,
    .assign 14 (.field (.var 0)),
    .loop [B, N, N, N, B, N, F, N, N, F, N, F, F, N, B, N] (
      .block [
        .assign 4 (.elem (.var 14)),
        .callOp 626 15 (ix 31) [(.var 4)],
        .assign 2 (.tuple [(.var 2), (.var 15)]),
        .assign 7 (.tuple [(.var 7), (.var 15)])]),
    .assign 16 .scalar,
    .assign 18 (.var 7),
    .loop [B, N, N, N, B, N, F, N, N, F, N, F, F, N, B, N, F, N, N] (
      .block [
        .assign 17 (.elem (.var 18)),
        .assign 16 (.tuple [(.var 16), (.elem (.var 6))])]),
    .assign 19 .scalar,
    .assign 21 (.var 7),
    .loop [B, N, N, N, B, N, F, N, N, F, N, F, F, N, B, N, F, N, N, N, N, N] (
      .block [
        .assign 20 (.elem (.var 21)),
        .assign 19 (.tuple [(.var 19), (.elem (.var 3))])]),
    .callOp 628 22 (ix 33) [(.var 16), (.var 19)],
    .ret (.var 22)]⟩
def ct_expand_section_groups : Contract := ⟨[B], F⟩

/-- `remove_redundant_data` (sequences_lib.py:421)  params: sequence
variables: 0=sequence 1=added_composer 2=added_genre 3=composer 4=events 5=fixed_sequence 6=genre 7=i 8=tmp_ts 9=%it439_16 10=e@key443 11=%it444_13 12=%it456_20 13=%it463_17
-/
def op_remove_redundant_data (ix : Nat → Nat) : OpDef := ⟨"remove_redundant_data", 1,
  .block [
    .assign 0 (.param 0),
    .assign 5 (.copyOf (.var 0)),
    .assign 9 (.tuple [(.field (.var 5)), (.field (.var 5)), (.field (.var 5))]),
    .loop [B, N, N, N, F, F, N, N, F, F, N, N] (
      .block [
        .assign 4 (.elem (.var 9)),
        .write 443 (.var 4),
        .assign 11 .scalar,
        .loop [B, N, N, N, F, F, N, N, F, F, N, N] (
          .block [
            .assign 7 (.elem (.var 11)),
            .assign 8 (.copyOf (.elem (.var 4))),
            .write 446 (.var 8),
            .ite (
              .write 450 (.var 4)) (
              .skip)])]),
    .ite (
      .block [
        .write 454 (.field (.field (.var 5))),
        .assign 1 .scalar,
        .assign 12 (.field (.field (.var 0))),
        .loop [B, B, N, B, F, F, N, N, F, F, N, N, B] (
          .block [
            .assign 3 (.elem (.var 12)),
            .ite (
              .block [
                .write 458 (.field (.field (.var 5))),
                .assign 1 (.tuple [(.var 1), (.var 3)])]) (
              .skip)]),
        .write 461 (.field (.field (.var 5))),
        .assign 2 .scalar,
        .assign 13 (.field (.field (.var 0))),
        .loop [B, B, B, B, F, F, B, N, F, F, N, N, B, B] (
          .block [
            .assign 6 (.elem (.var 13)),
            .ite (
              .block [
                .write 465 (.field (.field (.var 5))),
                .assign 2 (.tuple [(.var 2), (.var 6)])]) (
              .skip)])]) (
      .skip),
    .ret (.var 5)]⟩
def ct_remove_redundant_data : Contract := ⟨[B], F⟩

/-- `adjust_notesequence_times` (sequences_lib.py:1382)  params: ns, time_func, minimum_duration
variables: 0=ns 1=time_func 2=minimum_duration 3=adjusted_note 4=adjusted_ns 5=end_time 6=event 7=events 8=note 9=skipped_notes 10=start_time 11=time 12=%it1419_14 13=%it1472_15
-/
def op_adjust_notesequence_times (ix : Nat → Nat) : OpDef := ⟨"adjust_notesequence_times", 3,
  .block [
    .assign 0 (.param 0),
    .assign 1 (.param 1),
    .assign 2 (.param 2),
    .assign 4 (.copyOf (.var 0)),
    .write 1416 (.var 4),
    .assign 9 .scalar,
    .write 1418 (.field (.var 4)),
    .assign 12 (.field (.var 0)),
    .loop [B, B, B, F, F, B, N, N, B, N, N, N, B] (
      .block [
        .assign 8 (.elem (.var 12)),
        .assign 10 .scalar,
        .assign 5 .scalar,
        .ite (
          .ite (
            .block [
              .assign 2 (.tuple [(.var 2), (.var 2)]),
              .assign 5 (.tuple [(.var 5), (.var 2)])]) (
            .skip)) (
          .skip),
        .ite (
          .skip) (
          .block [
            .ite (
              .raise) (
              .skip),
            .ite (
              .raise) (
              .skip),
            .ite (
              .raise) (
              .skip),
            .ite (
              .write 1456 (.var 4)) (
              .skip),
            .write 1458 (.field (.var 4)),
            .assign 3 (.elem (.field (.var 4))),
            .write 1459 (.var 3),
            .write 1460 (.var 3),
            .write 1461 (.var 3)])]),
    .assign 7 (.tuple [(.field (.var 4)), (.field (.var 4)), (.field (.var 4)), (.field (.var 4)), (.field (.var 4)), (.field (.var 4))]),
    .assign 13 (.var 7),
    .loop [B, B, B, F, F, B, F, F, B, N, N, N, B, F] (
      .block [
        .assign 6 (.elem (.var 13)),
        .assign 11 .scalar,
        .ite (
          .raise) (
          .skip),
        .write 1478 (.var 6)]),
    .write 1482 (.field (.var 4)),
    .ret (.tuple [(.var 4), (.var 9)])]⟩
def ct_adjust_notesequence_times : Contract := ⟨[B, B, B], F⟩

/-- `rectify_beats.time_func@NNBB` (sequences_lib.py:1528)  params: t, unique_beat_times, rectified_beat_times, sequence
variables: 0=t 1=unique_beat_times 2=rectified_beat_times 3=sequence
-/
def op_rectify_beats_time_func_at_NNBB (ix : Nat → Nat) : OpDef := ⟨"rectify_beats.time_func@NNBB", 4,
  .block [
    .assign 0 (.param 0),
    .assign 1 (.param 1),
    .assign 2 (.param 2),
    .assign 3 (.param 3),
    .ret .scalar]⟩
def ct_rectify_beats_time_func_at_NNBB : Contract := ⟨[N, N, B, B], N⟩

/-- `adjust_notesequence_times__KU_S_U@BNN` (sequences_lib.py:1382)  params: ns, time_func, minimum_duration
variables: 0=ns 1=time_func 2=minimum_duration 3=adjusted_note 4=adjusted_ns 5=end_time 6=event 7=events 8=note 9=skipped_notes 10=start_time 11=time 12=%it1419_14 13=%it1472_15
-/
def op_adjust_notesequence_times__KU_S_U_at_BNN (ix : Nat → Nat) : OpDef := ⟨"adjust_notesequence_times__KU_S_U@BNN", 3,
  .block [
    .assign 0 (.param 0),
    .assign 1 (.param 1),
    .assign 2 (.param 2),
    .assign 4 (.copyOf (.var 0)),
    .write 1416 (.var 4),
    .assign 9 .scalar,
    .write 1418 (.field (.var 4)),
    .assign 12 (.field (.var 0)),
    .loop [B, N, N, F, F, N, N, N, B, N, N, N, B] (
      .block [
        .assign 8 (.elem (.var 12)),
        .assign 10 .scalar,
        .assign 5 .scalar,
        .ite (
          .ite (
            .block [
              .assign 2 (.tuple [(.var 2), (.var 2)]),
              .assign 5 (.tuple [(.var 5), (.var 2)])]) (
            .skip)) (
          .skip),
        .ite (
          .skip) (
          .block [
            .ite (
              .raise) (
              .skip),
            .ite (
              .raise) (
              .skip),
            .ite (
              .raise) (
              .skip),
            .ite (
              .write 1456 (.var 4)) (
              .skip),
            .write 1458 (.field (.var 4)),
            .assign 3 (.elem (.field (.var 4))),
            .write 1459 (.var 3),
            .write 1460 (.var 3),
            .write 1461 (.var 3)])]),
    .assign 7 (.tuple [(.field (.var 4)), (.field (.var 4)), (.field (.var 4)), (.field (.var 4)), (.field (.var 4)), (.field (.var 4))]),
    .assign 13 (.var 7),
    .loop [B, N, N, F, F, N, F, F, B, N, N, N, B, F] (
      .block [
        .assign 6 (.elem (.var 13)),
        .assign 11 .scalar,
        .ite (
          .raise) (
          .skip),
        .write 1478 (.var 6)]),
    .write 1482 (.field (.var 4)),
    .ret (.tuple [(.var 4), (.var 9)])]⟩
def ct_adjust_notesequence_times__KU_S_U_at_BNN : Contract := ⟨[B, N, N], F⟩

/-- `rectify_beats` (sequences_lib.py:1487)  params: sequence, beats_per_minute
variables: 0=sequence 1=beats_per_minute 2=_ 3=beat_times 4=num_beats 5=rectified_beat_times 6=rectified_sequence 7=seconds_per_beat 8=sorted_beat_times 9=unique_beat_times 10=_r1504 11=_acc1508 12=ta@1508 13=%it1508_24 14=_acc1519 15=i@1519 16=%it1519_36 17=_clo1532 18=_r1532 19=_t1532
-/
def op_rectify_beats (ix : Nat → Nat) : OpDef := ⟨"rectify_beats", 2,
  .block [
    .assign 0 (.param 0),
    .assign 1 (.param 1),
    .callOp 1504 10 (ix 0) [(.var 0)],
    .ite (
      .raise) (
      .skip),
    .assign 11 .scalar,
    .assign 13 (.field (.var 0)),
    .loop [B, B, N, N, N, N, N, N, N, N, N, N, B, B] (
      .assign 12 (.elem (.var 13))),
    .assign 3 (.var 11),
    .ite (
      .raise) (
      .skip),
    .assign 8 (.var 3),
    .assign 14 .scalar,
    .assign 16 .scalar,
    .loop [B, B, N, N, N, N, N, N, N, N, N, N, B, B, N, N, N] (
      .block [
        .assign 15 (.elem (.var 16)),
        .ite (
          .assign 14 (.tuple [(.var 14), (.elem (.var 8))])) (
          .skip)]),
    .assign 9 .scalar,
    .assign 4 .scalar,
    .assign 7 (.var 1),
    .assign 5 (.var 7),
    .loop [B, B, N, N, N, B, N, B, N, N, N, N, B, B, N, N, N] (
      .callOp 1532 17 (ix 37) [.scalar, (.var 9), (.var 5), (.var 0)]),
    .callOp 1532 18 (ix 38) [(.var 0), .scalar, .scalar],
    .assign 19 (.var 18),
    .assign 6 (.proj (.var 19) 0),
    .assign 2 (.proj (.var 19) 1),
    .write 1536 (.field (.var 6)),
    .write 1537 (.field (.var 6)),
    .ret (.var 6)]⟩
def ct_rectify_beats : Contract := ⟨[B, B], F⟩

/-- program slice of `trim_note_sequence`: is_quantized_sequence, trim_note_sequence -/
def ir_trim_note_sequence : Prog :=
  let ix : Nat → Nat := fun g => match g with | 0 => 0 | 1 => 1 | _ => 99999
  ⟨[op_is_quantized_sequence ix, op_trim_note_sequence ix], [ct_is_quantized_sequence, ct_trim_note_sequence], 1⟩

/-- program slice of `_extract_subsequences`: is_quantized_sequence, _extract_subsequences -/
def ir__extract_subsequences : Prog :=
  let ix : Nat → Nat := fun g => match g with | 0 => 0 | 2 => 1 | _ => 99999
  ⟨[op_is_quantized_sequence ix, op__extract_subsequences ix], [ct_is_quantized_sequence, ct__extract_subsequences], 1⟩

/-- program slice of `extract_subsequence`: is_quantized_sequence, _extract_subsequences__KU_LU_U, extract_subsequence -/
def ir_extract_subsequence : Prog :=
  let ix : Nat → Nat := fun g => match g with | 0 => 0 | 3 => 1 | 4 => 2 | _ => 99999
  ⟨[op_is_quantized_sequence ix, op__extract_subsequences__KU_LU_U ix, op_extract_subsequence ix], [ct_is_quantized_sequence, ct__extract_subsequences__KU_LU_U, ct_extract_subsequence], 2⟩

/-- program slice of `split_note_sequence`: is_quantized_sequence, _extract_subsequences__KU_LU_U@BBN, split_note_sequence -/
def ir_split_note_sequence : Prog :=
  let ix : Nat → Nat := fun g => match g with | 0 => 0 | 5 => 1 | 6 => 2 | _ => 99999
  ⟨[op_is_quantized_sequence ix, op__extract_subsequences__KU_LU_U_at_BBN ix, op_split_note_sequence ix], [ct_is_quantized_sequence, ct__extract_subsequences__KU_LU_U_at_BBN, ct_split_note_sequence], 2⟩

/-- program slice of `split_note_sequence_on_time_changes`: is_quantized_sequence, _extract_subsequences__KU_LS_U@BNN, split_note_sequence_on_time_changes -/
def ir_split_note_sequence_on_time_changes : Prog :=
  let ix : Nat → Nat := fun g => match g with | 0 => 0 | 7 => 1 | 8 => 2 | _ => 99999
  ⟨[op_is_quantized_sequence ix, op__extract_subsequences__KU_LS_U_at_BNN ix, op_split_note_sequence_on_time_changes ix], [ct_is_quantized_sequence, ct__extract_subsequences__KU_LS_U_at_BNN, ct_split_note_sequence_on_time_changes], 2⟩

/-- program slice of `split_note_sequence_on_silence`: is_quantized_sequence, _extract_subsequences__KU_LS_U@BNN, split_note_sequence_on_silence -/
def ir_split_note_sequence_on_silence : Prog :=
  let ix : Nat → Nat := fun g => match g with | 0 => 0 | 7 => 1 | 9 => 2 | _ => 99999
  ⟨[op_is_quantized_sequence ix, op__extract_subsequences__KU_LS_U_at_BNN ix, op_split_note_sequence_on_silence ix], [ct_is_quantized_sequence, ct__extract_subsequences__KU_LS_U_at_BNN, ct_split_note_sequence_on_silence], 2⟩

/-- program slice of `shift_sequence_times`: is_quantized_sequence, shift_sequence_times -/
def ir_shift_sequence_times : Prog :=
  let ix : Nat → Nat := fun g => match g with | 0 => 0 | 10 => 1 | _ => 99999
  ⟨[op_is_quantized_sequence ix, op_shift_sequence_times ix], [ct_is_quantized_sequence, ct_shift_sequence_times], 1⟩

/-- program slice of `stretch_note_sequence`: is_quantized_sequence, stretch_note_sequence -/
def ir_stretch_note_sequence : Prog :=
  let ix : Nat → Nat := fun g => match g with | 0 => 0 | 11 => 1 | _ => 99999
  ⟨[op_is_quantized_sequence ix, op_stretch_note_sequence ix], [ct_is_quantized_sequence, ct_stretch_note_sequence], 1⟩

/-- program slice of `stretch_note_sequence__in_place`: is_quantized_sequence@F, stretch_note_sequence__in_place@FBB -/
def ir_stretch_note_sequence__in_place : Prog :=
  let ix : Nat → Nat := fun g => match g with | 12 => 0 | 13 => 1 | _ => 99999
  ⟨[op_is_quantized_sequence_at_F ix, op_stretch_note_sequence__in_place_at_FBB ix], [ct_is_quantized_sequence_at_F, ct_stretch_note_sequence__in_place_at_FBB], 1⟩

/-- program slice of `transpose_note_sequence`: transpose_note_sequence -/
def ir_transpose_note_sequence : Prog :=
  let ix : Nat → Nat := fun g => match g with | 14 => 0 | _ => 99999
  ⟨[op_transpose_note_sequence ix], [ct_transpose_note_sequence], 0⟩

/-- program slice of `transpose_note_sequence__in_place`: transpose_note_sequence__in_place@FBBBBB -/
def ir_transpose_note_sequence__in_place : Prog :=
  let ix : Nat → Nat := fun g => match g with | 15 => 0 | _ => 99999
  ⟨[op_transpose_note_sequence__in_place_at_FBBBBB ix], [ct_transpose_note_sequence__in_place_at_FBBBBB], 0⟩

/-- program slice of `_quantize_notes`: quantize_to_step__KS_U_U@NBN, _quantize_notes@FB -/
def ir__quantize_notes : Prog :=
  let ix : Nat → Nat := fun g => match g with | 16 => 0 | 17 => 1 | _ => 99999
  ⟨[op_quantize_to_step__KS_U_U_at_NBN ix, op__quantize_notes_at_FB ix], [ct_quantize_to_step__KS_U_U_at_NBN, ct__quantize_notes_at_FB], 1⟩

/-- program slice of `quantize_note_sequence`: _is_power_of_2__KS@N, steps_per_quarter_to_steps_per_second__KU_S@BN, quantize_to_step__KS_U_U@NBN, _quantize_notes@FB, quantize_note_sequence -/
def ir_quantize_note_sequence : Prog :=
  let ix : Nat → Nat := fun g => match g with | 16 => 2 | 17 => 3 | 18 => 0 | 19 => 1 | 20 => 4 | _ => 99999
  ⟨[op__is_power_of_2__KS_at_N ix, op_steps_per_quarter_to_steps_per_second__KU_S_at_BN ix, op_quantize_to_step__KS_U_U_at_NBN ix, op__quantize_notes_at_FB ix, op_quantize_note_sequence ix], [ct__is_power_of_2__KS_at_N, ct_steps_per_quarter_to_steps_per_second__KU_S_at_BN, ct_quantize_to_step__KS_U_U_at_NBN, ct__quantize_notes_at_FB, ct_quantize_note_sequence], 4⟩

/-- program slice of `quantize_note_sequence_absolute`: quantize_to_step__KS_U_U@NBN, _quantize_notes@FB, quantize_note_sequence_absolute -/
def ir_quantize_note_sequence_absolute : Prog :=
  let ix : Nat → Nat := fun g => match g with | 16 => 0 | 17 => 1 | 21 => 2 | _ => 99999
  ⟨[op_quantize_to_step__KS_U_U_at_NBN ix, op__quantize_notes_at_FB ix, op_quantize_note_sequence_absolute ix], [ct_quantize_to_step__KS_U_U_at_NBN, ct__quantize_notes_at_FB, ct_quantize_note_sequence_absolute], 2⟩

/-- program slice of `apply_sustain_control_changes`: is_quantized_sequence, apply_sustain_control_changes -/
def ir_apply_sustain_control_changes : Prog :=
  let ix : Nat → Nat := fun g => match g with | 0 => 0 | 22 => 1 | _ => 99999
  ⟨[op_is_quantized_sequence ix, op_apply_sustain_control_changes ix], [ct_is_quantized_sequence, ct_apply_sustain_control_changes], 1⟩

/-- program slice of `concatenate_sequences`: is_quantized_sequence, shift_sequence_times, remove_redundant_data__KP@F, concatenate_sequences -/
def ir_concatenate_sequences : Prog :=
  let ix : Nat → Nat := fun g => match g with | 0 => 0 | 10 => 1 | 23 => 2 | 24 => 3 | _ => 99999
  ⟨[op_is_quantized_sequence ix, op_shift_sequence_times ix, op_remove_redundant_data__KP_at_F ix, op_concatenate_sequences ix], [ct_is_quantized_sequence, ct_shift_sequence_times, ct_remove_redundant_data__KP_at_F, ct_concatenate_sequences], 3⟩

/-- program slice of `merge_sequences`: remove_redundant_data__KP@F, merge_sequences -/
def ir_merge_sequences : Prog :=
  let ix : Nat → Nat := fun g => match g with | 23 => 0 | 25 => 1 | _ => 99999
  ⟨[op_remove_redundant_data__KP_at_F ix, op_merge_sequences ix], [ct_remove_redundant_data__KP_at_F, ct_merge_sequences], 1⟩

/-- program slice of `repeat_sequence_to_duration`: is_quantized_sequence, shift_sequence_times, remove_redundant_data__KP@F, concatenate_sequences__KLU_LU, is_quantized_sequence@F, _extract_subsequences__KU_LU_U@FBN, extract_subsequence__KU_S_U_U@FNBN, repeat_sequence_to_duration -/
def ir_repeat_sequence_to_duration : Prog :=
  let ix : Nat → Nat := fun g => match g with | 0 => 0 | 10 => 1 | 12 => 4 | 23 => 2 | 26 => 3 | 27 => 5 | 28 => 6 | 29 => 7 | _ => 99999
  ⟨[op_is_quantized_sequence ix, op_shift_sequence_times ix, op_remove_redundant_data__KP_at_F ix, op_concatenate_sequences__KLU_LU ix, op_is_quantized_sequence_at_F ix, op__extract_subsequences__KU_LU_U_at_FBN ix, op_extract_subsequence__KU_S_U_U_at_FNBN ix, op_repeat_sequence_to_duration ix], [ct_is_quantized_sequence, ct_shift_sequence_times, ct_remove_redundant_data__KP_at_F, ct_concatenate_sequences__KLU_LU, ct_is_quantized_sequence_at_F, ct__extract_subsequences__KU_LU_U_at_FBN, ct_extract_subsequence__KU_S_U_U_at_FNBN, ct_repeat_sequence_to_duration], 7⟩

/-- program slice of `expand_section_groups`: is_quantized_sequence, _extract_subsequences__KU_LS_U@BNN, extract_subsequence__KU_S_S_U@BNNN, expand_section_groups.sections_in_group, is_quantized_sequence@F, shift_sequence_times__KU_S@FN, remove_redundant_data__KP@F, concatenate_sequences__KLU_LS@FN, expand_section_groups -/
def ir_expand_section_groups : Prog :=
  let ix : Nat → Nat := fun g => match g with | 0 => 0 | 7 => 1 | 12 => 4 | 23 => 6 | 30 => 2 | 31 => 3 | 32 => 5 | 33 => 7 | 34 => 8 | _ => 99999
  ⟨[op_is_quantized_sequence ix, op__extract_subsequences__KU_LS_U_at_BNN ix, op_extract_subsequence__KU_S_S_U_at_BNNN ix, op_expand_section_groups_sections_in_group ix, op_is_quantized_sequence_at_F ix, op_shift_sequence_times__KU_S_at_FN ix, op_remove_redundant_data__KP_at_F ix, op_concatenate_sequences__KLU_LS_at_FN ix, op_expand_section_groups ix], [ct_is_quantized_sequence, ct__extract_subsequences__KU_LS_U_at_BNN, ct_extract_subsequence__KU_S_S_U_at_BNNN, ct_expand_section_groups_sections_in_group, ct_is_quantized_sequence_at_F, ct_shift_sequence_times__KU_S_at_FN, ct_remove_redundant_data__KP_at_F, ct_concatenate_sequences__KLU_LS_at_FN, ct_expand_section_groups], 8⟩

/-- program slice of `remove_redundant_data`: remove_redundant_data -/
def ir_remove_redundant_data : Prog :=
  let ix : Nat → Nat := fun g => match g with | 35 => 0 | _ => 99999
  ⟨[op_remove_redundant_data ix], [ct_remove_redundant_data], 0⟩

/-- program slice of `adjust_notesequence_times`: adjust_notesequence_times -/
def ir_adjust_notesequence_times : Prog :=
  let ix : Nat → Nat := fun g => match g with | 36 => 0 | _ => 99999
  ⟨[op_adjust_notesequence_times ix], [ct_adjust_notesequence_times], 0⟩

/-- program slice of `rectify_beats`: is_quantized_sequence, rectify_beats.time_func@NNBB, adjust_notesequence_times__KU_S_U@BNN, rectify_beats -/
def ir_rectify_beats : Prog :=
  let ix : Nat → Nat := fun g => match g with | 0 => 0 | 37 => 1 | 38 => 2 | 39 => 3 | _ => 99999
  ⟨[op_is_quantized_sequence ix, op_rectify_beats_time_func_at_NNBB ix, op_adjust_notesequence_times__KU_S_U_at_BNN ix, op_rectify_beats ix], [ct_is_quantized_sequence, ct_rectify_beats_time_func_at_NNBB, ct_adjust_notesequence_times__KU_S_U_at_BNN, ct_rectify_beats], 3⟩

def allProgs : List (String × Prog) := [("trim_note_sequence", ir_trim_note_sequence), ("_extract_subsequences", ir__extract_subsequences), ("extract_subsequence", ir_extract_subsequence), ("split_note_sequence", ir_split_note_sequence), ("split_note_sequence_on_time_changes", ir_split_note_sequence_on_time_changes), ("split_note_sequence_on_silence", ir_split_note_sequence_on_silence), ("shift_sequence_times", ir_shift_sequence_times), ("stretch_note_sequence", ir_stretch_note_sequence), ("stretch_note_sequence__in_place", ir_stretch_note_sequence__in_place), ("transpose_note_sequence", ir_transpose_note_sequence), ("transpose_note_sequence__in_place", ir_transpose_note_sequence__in_place), ("_quantize_notes", ir__quantize_notes), ("quantize_note_sequence", ir_quantize_note_sequence), ("quantize_note_sequence_absolute", ir_quantize_note_sequence_absolute), ("apply_sustain_control_changes", ir_apply_sustain_control_changes), ("concatenate_sequences", ir_concatenate_sequences), ("merge_sequences", ir_merge_sequences), ("repeat_sequence_to_duration", ir_repeat_sequence_to_duration), ("expand_section_groups", ir_expand_section_groups), ("remove_redundant_data", ir_remove_redundant_data), ("adjust_notesequence_times", ir_adjust_notesequence_times), ("rectify_beats", ir_rectify_beats)]

end NSV.C11.Gen
