import NoteSeqVerif.Model.C11
/-! GENERATED from note_seq.sequences_lib on every run by gen/refir.py (harness/c11.py) — do not edit.
Reference / mutation IR of the sequence operations.  `ix` maps the global operation number used in the
bodies to the position of that operation in the program slice being checked.  The lists after `.loop`
and the contracts are PROPOSALS of the translator, verified by `pureProg`. -/
namespace NSV.C11.Gen
open NSV.C11
set_option linter.unusedVariables false

abbrev N := AbsVal.bot
abbrev I := AbsVal.input
abbrev F := AbsVal.fresh
abbrev B := AbsVal.both

/-- `is_quantized_sequence` (sequences_lib.py:647)  params: note_sequence
variables: 0=note_sequence
-/
def op_is_quantized_sequence (ix : Nat → Nat) : OpDef := ⟨"is_quantized_sequence", 1,
  .block [
    .assign 0 (.param 0),
    .ret .scalar]⟩
def ct_is_quantized_sequence : Contract := ⟨[B], N⟩

/-- `_copy_note_sequence` (sequences_lib.py:89)  params: sequence
variables: 0=sequence 1=sequence_copy
-/
def op__copy_note_sequence (ix : Nat → Nat) : OpDef := ⟨"_copy_note_sequence", 1,
  .block [
    .assign 0 (.param 0),
    .assign 1 .fresh,
    .write 92 (.var 1),
    .ret (.var 1)]⟩
def ct__copy_note_sequence : Contract := ⟨[B], F⟩

/-- `trim_note_sequence` (sequences_lib.py:105)  params: sequence, start_time, end_time
variables: 0=sequence 1=start_time 2=end_time 3=note 4=starts_outside_range 5=subsequence 6=trimmed_note 7=_r123 8=_r127 9=%it130_14
-/
def op_trim_note_sequence (ix : Nat → Nat) : OpDef := ⟨"trim_note_sequence", 3,
  .block [
    .assign 0 (.param 0),
    .assign 1 (.param 1),
    .assign 2 (.param 2),
    .callOp 123 7 (ix 0) [(.var 0)],
    .ite (
      .raise) (
      .skip),
    .callOp 127 8 (ix 1) [(.var 0)],
    .assign 5 (.var 8),
    .write 129 (.field (.var 5)),
    .assign 9 (.field (.var 0)),
    .loop [B, B, B, B, N, F, F, N, F, B] (
      .block [
        .assign 3 (.elem (.var 9)),
        .assign 4 .scalar,
        .ite (
          .block [
            .write 134 (.field (.var 5)),
            .assign 6 (.elem (.field (.var 5))),
            .write 135 (.var 6),
            .write 136 (.var 6)]) (
          .skip)]),
    .write 138 (.var 5),
    .ret (.var 5)]⟩
def ct_trim_note_sequence : Contract := ⟨[B, B, B], F⟩

/-- `_extract_subsequences` (sequences_lib.py:150)  params: sequence, split_times, preserve_control_numbers
variables: 0=sequence 1=split_times 2=preserve_control_numbers 3=containers 4=event 5=events 6=events_by_type 7=new_event_containers 8=new_stateless_event_containers 9=note 10=pedal_event 11=pedal_events 12=previous_event 13=previous_pedal_event 14=previous_pedal_events 15=start_time 16=stateless_events_by_type 17=subsequence 18=subsequence_index 19=subsequences 20=_r175 21=_acc181 22=t1@181 23=t2@181 24=%it181_31 25=_acc183 26=time@183 27=%it183_49 28=_r189 29=_acc201 30=_@201 31=%it201_42 32=note@key207 33=%it207_14 34=_acc232 35=annotation@232 36=%it232_39 37=_acc237 38=s@237 39=%it237_54 40=_acc238 41=s@238 42=%it238_53 43=_acc239 44=s@239 45=%it239_45 46=_acc240 47=s@240 48=%it240_55 49=%it242_28 50=event@key245 51=%it245_17 52=_acc276 53=annotation@276 54=%it276_35 55=_acc280 56=s@280 57=%it280_65 58=%it281_28 59=event@key284 60=%it284_17 61=_acc298 62=cc@298 63=%it298_19 64=event@key304 65=%it304_21 66=_t306 67=%it315_34 68=_t327 69=%it333_32 70=%it339_33
-/
def op__extract_subsequences (ix : Nat → Nat) : OpDef := ⟨"_extract_subsequences", 3,
  .block [
    .assign 0 (.param 0),
    .assign 1 (.param 1),
    .assign 2 (.param 2),
    .callOp 175 20 (ix 0) [(.var 0)],
    .ite (
      .raise) (
      .skip),
    .ite (
      .raise) (
      .skip),
    .assign 21 .scalar,
    .assign 24 (.tuple [(.var 1), (.var 1)]),
    .loop [B, B, B, N, N, N, N, N, N, N, N, N, N, N, N, N, N, N, N, N, N, N, B, B, B] (
      .block [
        .assign 22 (.elem (.var 1)),
        .assign 23 (.elem (.var 1))]),
    .ite (
      .raise) (
      .skip),
    .assign 25 .scalar,
    .assign 27 (.var 1),
    .loop [B, B, B, N, N, N, N, N, N, N, N, N, N, N, N, N, N, N, N, N, N, N, B, B, B, N, B, B] (
      .assign 26 (.elem (.var 27))),
    .ite (
      .raise) (
      .skip),
    .ite (
      .assign 2 .scalar) (
      .skip),
    .callOp 189 28 (ix 1) [(.var 0)],
    .assign 17 (.var 28),
    .write 191 (.var 17),
    .write 193 (.field (.var 17)),
    .write 194 (.field (.var 17)),
    .write 195 (.field (.var 17)),
    .write 196 (.field (.var 17)),
    .write 197 (.field (.var 17)),
    .write 198 (.field (.var 17)),
    .write 199 (.field (.var 17)),
    .assign 29 .scalar,
    .assign 31 .scalar,
    .loop [B, B, B, N, N, N, N, N, N, N, N, N, N, N, N, N, N, F, N, N, N, N, B, B, B, N, B, B, F, F, N, N] (
      .block [
        .assign 30 (.elem (.var 31)),
        .assign 29 (.tuple [(.var 29), (.copyOf (.var 17))])]),
    .assign 19 (.var 29),
    .assign 18 .scalar,
    .assign 33 (.field (.var 0)),
    .loop [B, B, B, N, N, N, N, N, N, B, N, N, N, N, N, N, N, F, N, F, N, N, B, B, B, N, B, B, F, F, N, N, N, B] (
      .block [
        .assign 9 (.elem (.var 33)),
        .ite (
          .skip) (
          .ite (
            .skip) (
            .block [
              .write 215 (.field (.elem (.var 19))),
              .write 216 (.elem (.field (.elem (.var 19)))),
              .write 218 (.elem (.field (.elem (.var 19)))),
              .ite (
                .write 223 (.elem (.var 19))) (
                .skip)]))]),
    .assign 34 .scalar,
    .assign 36 (.field (.var 0)),
    .loop [B, B, B, N, N, N, N, N, N, B, N, N, N, N, N, N, N, F, N, F, N, N, B, B, B, N, B, B, F, F, N, N, N, B, B, B, B] (
      .block [
        .assign 35 (.elem (.var 36)),
        .ite (
          .assign 34 (.tuple [(.var 34), (.var 35)])) (
          .skip)]),
    .assign 6 (.tuple [(.field (.var 0)), (.field (.var 0)), (.field (.var 0)), (.var 34)]),
    .assign 37 .scalar,
    .assign 39 (.var 19),
    .loop [B, B, B, N, N, N, B, N, N, B, N, N, N, N, N, N, N, F, N, F, N, N, B, B, B, N, B, B, F, F, N, N, N, B, B, B, B, F, F, F] (
      .block [
        .assign 38 (.elem (.var 39)),
        .assign 37 (.tuple [(.var 37), (.field (.var 38))])]),
    .assign 40 .scalar,
    .assign 42 (.var 19),
    .loop [B, B, B, N, N, N, B, N, N, B, N, N, N, N, N, N, N, F, N, F, N, N, B, B, B, N, B, B, F, F, N, N, N, B, B, B, B, F, F, F, F, F, F] (
      .block [
        .assign 41 (.elem (.var 42)),
        .assign 40 (.tuple [(.var 40), (.field (.var 41))])]),
    .assign 43 .scalar,
    .assign 45 (.var 19),
    .loop [B, B, B, N, N, N, B, N, N, B, N, N, N, N, N, N, N, F, N, F, N, N, B, B, B, N, B, B, F, F, N, N, N, B, B, B, B, F, F, F, F, F, F, F, F, F] (
      .block [
        .assign 44 (.elem (.var 45)),
        .assign 43 (.tuple [(.var 43), (.field (.var 44))])]),
    .assign 46 .scalar,
    .assign 48 (.var 19),
    .loop [B, B, B, N, N, N, B, N, N, B, N, N, N, N, N, N, N, F, N, F, N, N, B, B, B, N, B, B, F, F, N, N, N, B, B, B, B, F, F, F, F, F, F, F, F, F, F, F, F] (
      .block [
        .assign 47 (.elem (.var 48)),
        .assign 46 (.tuple [(.var 46), (.field (.var 47))])]),
    .assign 7 (.tuple [(.var 37), (.var 40), (.var 43), (.var 46)]),
    .assign 49 (.tuple [(.var 6), (.var 7)]),
    .loop [B, B, B, F, B, B, B, F, N, B, N, N, B, N, N, N, N, F, N, F, N, N, B, B, B, N, B, B, F, F, N, N, N, B, B, B, B, F, F, F, F, F, F, F, F, F, F, F, F, B, N, B] (
      .block [
        .assign 5 (.elem (.var 6)),
        .assign 3 (.elem (.var 7)),
        .assign 12 .scalar,
        .assign 18 .scalar,
        .assign 51 (.var 5),
        .loop [B, B, B, F, B, B, B, F, N, B, N, N, B, N, N, N, N, F, N, F, N, N, B, B, B, N, B, B, F, F, N, N, N, B, B, B, B, F, F, F, F, F, F, F, F, F, F, F, F, B, N, B] (
          .block [
            .assign 4 (.elem (.var 51)),
            .ite (
              .assign 12 (.var 4)) (
              .skip),
            .ite (
              .skip) (
              .block [
                .loop [B, B, B, F, B, B, B, F, N, B, N, N, B, N, N, N, N, F, N, F, N, N, B, B, B, N, B, B, F, F, N, N, N, B, B, B, B, F, F, F, F, F, F, F, F, F, F, F, F, B, N, B] (
                  .ite (
                    .skip) (
                    .ite (
                      .block [
                        .write 256 (.elem (.var 3)),
                        .write 257 (.elem (.elem (.var 3)))]) (
                      .skip))),
                .ite (
                  .skip) (
                  .block [
                    .ite (
                      .block [
                        .write 263 (.elem (.var 3)),
                        .write 264 (.elem (.elem (.var 3)))]) (
                      .skip),
                    .assign 12 (.var 4)])])]),
        .loop [B, B, B, F, B, B, B, F, N, B, N, N, B, N, N, N, N, F, N, F, N, N, B, B, B, N, B, B, F, F, N, N, N, B, B, B, B, F, F, F, F, F, F, F, F, F, F, F, F, B, N, B] (
          .ite (
            .block [
              .write 270 (.elem (.var 3)),
              .write 271 (.elem (.elem (.var 3)))]) (
            .skip))]),
    .assign 52 .scalar,
    .assign 54 (.field (.var 0)),
    .loop [B, B, B, F, B, B, B, F, N, B, N, N, B, N, N, N, N, F, N, F, N, N, B, B, B, N, B, B, F, F, N, N, N, B, B, B, B, F, F, F, F, F, F, F, F, F, F, F, F, B, N, B, B, B, B] (
      .block [
        .assign 53 (.elem (.var 54)),
        .ite (
          .assign 52 (.tuple [(.var 52), (.var 53)])) (
          .skip)]),
    .assign 16 (.var 52),
    .assign 55 .scalar,
    .assign 57 (.var 19),
    .loop [B, B, B, F, B, B, B, F, N, B, N, N, B, N, N, N, B, F, N, F, N, N, B, B, B, N, B, B, F, F, N, N, N, B, B, B, B, F, F, F, F, F, F, F, F, F, F, F, F, B, N, B, B, B, B, F, F, F] (
      .block [
        .assign 56 (.elem (.var 57)),
        .assign 55 (.tuple [(.var 55), (.field (.var 56))])]),
    .assign 8 (.var 55),
    .assign 58 (.tuple [(.var 16), (.var 8)]),
    .loop [B, B, B, F, B, B, B, F, F, B, N, N, B, N, N, N, B, F, N, F, N, N, B, B, B, N, B, B, F, F, N, N, N, B, B, B, B, F, F, F, F, F, F, F, F, F, F, F, F, B, N, B, B, B, B, F, F, F, B, N, B] (
      .block [
        .assign 5 (.elem (.var 16)),
        .assign 3 (.elem (.var 8)),
        .assign 18 .scalar,
        .assign 60 (.var 5),
        .loop [B, B, B, F, B, B, B, F, F, B, N, N, B, N, N, N, B, F, N, F, N, N, B, B, B, N, B, B, F, F, N, N, N, B, B, B, B, F, F, F, F, F, F, F, F, F, F, F, F, B, N, B, B, B, B, F, F, F, B, N, B] (
          .block [
            .assign 4 (.elem (.var 60)),
            .ite (
              .skip) (
              .ite (
                .skip) (
                .block [
                  .write 292 (.elem (.var 3)),
                  .write 293 (.elem (.elem (.var 3)))]))])]),
    .assign 61 .scalar,
    .assign 63 (.field (.var 0)),
    .loop [B, B, B, F, B, B, B, F, F, B, N, N, B, N, N, N, B, F, N, F, N, N, B, B, B, N, B, B, F, F, N, N, N, B, B, B, B, F, F, F, F, F, F, F, F, F, F, F, F, B, N, B, B, B, B, F, F, F, B, N, B, B, B, B] (
      .block [
        .assign 62 (.elem (.var 63)),
        .ite (
          .assign 61 (.tuple [(.var 61), (.var 62)])) (
          .skip)]),
    .assign 11 (.var 61),
    .assign 14 .scalar,
    .assign 18 .scalar,
    .assign 65 (.var 11),
    .loop [B, B, B, F, B, B, B, F, F, B, B, B, B, B, B, N, B, F, N, F, N, N, B, B, B, N, B, B, F, F, N, N, N, B, B, B, B, F, F, F, F, F, F, F, F, F, F, F, F, B, N, B, B, B, B, F, F, F, B, N, B, B, B, B, N, B, B, B, B] (
      .block [
        .assign 10 (.elem (.var 65)),
        .ite (
          .block [
            .assign 66 (.var 10),
            .assign 14 (.tuple [(.var 14), (.var 66)])]) (
          .skip),
        .ite (
          .skip) (
          .block [
            .loop [B, B, B, F, B, B, B, F, F, B, B, B, B, B, B, N, B, F, N, F, N, N, B, B, B, N, B, B, F, F, N, N, N, B, B, B, B, F, F, F, F, F, F, F, F, F, F, F, F, B, N, B, B, B, B, F, F, F, B, N, B, B, B, B, N, B, B, B, B] (
              .ite (
                .skip) (
                .block [
                  .assign 67 (.var 14),
                  .loop [B, B, B, F, B, B, B, F, F, B, B, B, B, B, B, N, B, F, N, F, N, N, B, B, B, N, B, B, F, F, N, N, N, B, B, B, B, F, F, F, F, F, F, F, F, F, F, F, F, B, N, B, B, B, B, F, F, F, B, N, B, B, B, B, N, B, B, B, B] (
                    .block [
                      .assign 13 (.elem (.var 67)),
                      .write 316 (.field (.elem (.var 19))),
                      .write 318 (.elem (.field (.elem (.var 19))))])])),
            .ite (
              .skip) (
              .block [
                .ite (
                  .block [
                    .write 324 (.field (.elem (.var 19))),
                    .write 325 (.elem (.field (.elem (.var 19))))]) (
                  .skip),
                .assign 68 (.var 10),
                .assign 14 (.tuple [(.var 14), (.var 68)]),
                .assign 67 (.tuple [(.var 67), (.var 68)])])])]),
    .loop [B, B, B, F, B, B, B, F, F, B, B, B, B, B, B, N, B, F, N, F, N, N, B, B, B, N, B, B, F, F, N, N, N, B, B, B, B, F, F, F, F, F, F, F, F, F, F, F, F, B, N, B, B, B, B, F, F, F, B, N, B, B, B, B, N, B, B, B, B, B] (
      .block [
        .assign 69 (.var 14),
        .loop [B, B, B, F, B, B, B, F, F, B, B, B, B, B, B, N, B, F, N, F, N, N, B, B, B, N, B, B, F, F, N, N, N, B, B, B, B, F, F, F, F, F, F, F, F, F, F, F, F, B, N, B, B, B, B, F, F, F, B, N, B, B, B, B, N, B, B, B, B, B] (
          .block [
            .assign 13 (.elem (.var 69)),
            .write 334 (.field (.elem (.var 19))),
            .write 336 (.elem (.field (.elem (.var 19))))])]),
    .assign 70 (.tuple [(.var 19), (.var 1)]),
    .loop [B, B, B, F, B, B, B, F, F, B, B, B, B, B, B, B, B, F, N, F, N, N, B, B, B, N, B, B, F, F, N, N, N, B, B, B, B, F, F, F, F, F, F, F, F, F, F, F, F, B, N, B, B, B, B, F, F, F, B, N, B, B, B, B, N, B, B, B, B, B, B] (
      .block [
        .assign 17 (.elem (.var 19)),
        .assign 15 (.elem (.var 1)),
        .write 340 (.field (.var 17)),
        .write 341 (.field (.var 17))]),
    .ret (.var 19)]⟩
def ct__extract_subsequences : Contract := ⟨[B, B, B], F⟩

/-- `extract_subsequence` (sequences_lib.py:347)  params: sequence, start_time, end_time, preserve_control_numbers
variables: 0=sequence 1=start_time 2=end_time 3=preserve_control_numbers 4=_r383
-/
def op_extract_subsequence (ix : Nat → Nat) : OpDef := ⟨"extract_subsequence", 4,
  .block [
    .assign 0 (.param 0),
    .assign 1 (.param 1),
    .assign 2 (.param 2),
    .assign 3 (.param 3),
    .callOp 383 4 (ix 3) [(.var 0), (.tuple [(.var 1), (.var 2)]), (.var 3)],
    .ret (.elem (.var 4))]⟩
def ct_extract_subsequence : Contract := ⟨[B, B, B, B], F⟩

/-- `split_note_sequence` (sequences_lib.py:755)  params: note_sequence, hop_size_seconds, skip_splits_inside_notes
variables: 0=note_sequence 1=hop_size_seconds 2=skip_splits_inside_notes 3=note_idx 4=notes_by_start_time 5=notes_crossing_split 6=split_time 7=split_times 8=valid_split_times 9=note@key784 10=%it796_20 11=_acc802 12=note@802 13=%it802_25 14=_r814
-/
def op_split_note_sequence (ix : Nat → Nat) : OpDef := ⟨"split_note_sequence", 3,
  .block [
    .assign 0 (.param 0),
    .assign 1 (.param 1),
    .assign 2 (.param 2),
    .assign 4 (.field (.var 0)),
    .assign 3 .scalar,
    .assign 5 .scalar,
    .ite (
      .assign 7 (.var 1)) (
      .assign 7 .scalar),
    .assign 8 .scalar,
    .assign 10 (.var 7),
    .loop [B, B, B, N, B, B, B, B, B, N, B, B, B, B] (
      .block [
        .assign 6 (.elem (.var 10)),
        .loop [B, B, B, N, B, B, B, B, B, N, B, B, B, B] (
          .block [
            .assign 4 (.tuple [(.var 4), (.elem (.var 4))]),
            .assign 5 (.tuple [(.var 5), (.elem (.var 4))])]),
        .assign 11 .scalar,
        .assign 13 (.var 5),
        .loop [B, B, B, N, B, B, B, B, B, N, B, B, B, B] (
          .block [
            .assign 12 (.elem (.var 13)),
            .ite (
              .assign 11 (.tuple [(.var 11), (.var 12)])) (
              .skip)]),
        .assign 5 (.var 11),
        .ite (
          .block [
            .assign 1 (.tuple [(.var 1), (.var 6)]),
            .assign 6 (.tuple [(.var 6), (.var 6)]),
            .assign 7 (.tuple [(.var 7), (.var 6)]),
            .assign 8 (.tuple [(.var 8), (.var 6)]),
            .assign 10 (.tuple [(.var 10), (.var 6)])]) (
          .skip)]),
    .ite (
      .block [
        .callOp 814 14 (ix 3) [(.var 0), (.var 8), .scalar],
        .ret (.var 14)]) (
      .ret .scalar)]⟩
def ct_split_note_sequence : Contract := ⟨[B, B, B], F⟩

/-- `split_note_sequence_on_time_changes` (sequences_lib.py:819)  params: note_sequence, skip_splits_inside_notes
variables: 0=note_sequence 1=skip_splits_inside_notes 2=current_denominator 3=current_numerator 4=current_qpm 5=note_idx 6=notes_by_start_time 7=notes_crossing_split 8=time_change 9=time_signatures_and_tempos 10=valid_split_times 11=t@key844 12=_acc845 13=t@845 14=%it845_17 15=note@key850 16=%it856_21 17=_acc872 18=note@872 19=%it872_25 20=_r893
-/
def op_split_note_sequence_on_time_changes (ix : Nat → Nat) : OpDef := ⟨"split_note_sequence_on_time_changes", 2,
  .block [
    .assign 0 (.param 0),
    .assign 1 (.param 1),
    .assign 3 .scalar,
    .assign 2 .scalar,
    .assign 4 .scalar,
    .assign 9 (.tuple [(.field (.var 0)), (.field (.var 0))]),
    .assign 12 .scalar,
    .assign 14 (.var 9),
    .loop [B, B, N, N, N, N, N, N, N, B, N, N, B, B, B] (
      .block [
        .assign 13 (.elem (.var 14)),
        .ite (
          .assign 12 (.tuple [(.var 12), (.var 13)])) (
          .skip)]),
    .assign 9 (.var 12),
    .assign 6 (.field (.var 0)),
    .assign 5 .scalar,
    .assign 7 .scalar,
    .assign 10 .scalar,
    .assign 16 (.var 9),
    .loop [B, B, N, N, N, N, B, B, B, B, N, N, B, B, B, N, B, B, B, B] (
      .block [
        .assign 8 (.elem (.var 16)),
        .ite (
          .skip) (
          .block [
            .loop [B, B, N, N, N, N, B, B, B, B, N, N, B, B, B, N, B, B, B, B] (
              .block [
                .assign 6 (.tuple [(.var 6), (.elem (.var 6))]),
                .assign 7 (.tuple [(.var 7), (.elem (.var 6))])]),
            .assign 17 .scalar,
            .assign 19 (.var 7),
            .loop [B, B, N, N, N, N, B, B, B, B, N, N, B, B, B, N, B, B, B, B] (
              .block [
                .assign 18 (.elem (.var 19)),
                .ite (
                  .assign 17 (.tuple [(.var 17), (.var 18)])) (
                  .skip)]),
            .assign 7 (.var 17),
            .ite (
              .block [
                .assign 3 .scalar,
                .assign 2 .scalar]) (
              .assign 4 .scalar)])]),
    .ite (
      .block [
        .callOp 893 20 (ix 3) [(.var 0), (.var 10), .scalar],
        .ret (.var 20)]) (
      .ret .scalar)]⟩
def ct_split_note_sequence_on_time_changes : Contract := ⟨[B, B], F⟩

/-- `split_note_sequence_on_silence` (sequences_lib.py:898)  params: note_sequence, gap_seconds
variables: 0=note_sequence 1=gap_seconds 2=last_active_time 3=note 4=notes_by_start_time 5=split_times 6=note@key914 7=%it919_14 8=_r928
-/
def op_split_note_sequence_on_silence (ix : Nat → Nat) : OpDef := ⟨"split_note_sequence_on_silence", 2,
  .block [
    .assign 0 (.param 0),
    .assign 1 (.param 1),
    .assign 4 (.field (.var 0)),
    .assign 5 .scalar,
    .assign 2 .scalar,
    .assign 7 (.var 4),
    .loop [B, B, N, B, B, N, N, B] (
      .block [
        .assign 3 (.elem (.var 7)),
        .assign 2 (.var 2)]),
    .ite (
      .block [
        .callOp 928 8 (ix 3) [(.var 0), (.var 5), .scalar],
        .ret (.var 8)]) (
      .ret .scalar)]⟩
def ct_split_note_sequence_on_silence : Contract := ⟨[B, B], F⟩

/-- `_timed_event_lists` (sequences_lib.py:96)  params: sequence
variables: 0=sequence
-/
def op__timed_event_lists (ix : Nat → Nat) : OpDef := ⟨"_timed_event_lists", 1,
  .block [
    .assign 0 (.param 0),
    .ret (.tuple [(.field (.var 0)), (.field (.var 0)), (.field (.var 0)), (.field (.var 0)), (.field (.var 0)), (.field (.var 0)), (.field (.var 0))])]⟩
def ct__timed_event_lists : Contract := ⟨[B], B⟩

/-- `shift_sequence_times` (sequences_lib.py:389)  params: sequence, shift_seconds
variables: 0=sequence 1=shift_seconds 2=event 3=events_to_shift 4=note 5=shifted 6=_r407 7=_r411 8=%it417_14 9=_r422 10=%it422_25 11=%it423_17
-/
def op_shift_sequence_times (ix : Nat → Nat) : OpDef := ⟨"shift_sequence_times", 2,
  .block [
    .assign 0 (.param 0),
    .assign 1 (.param 1),
    .ite (
      .raise) (
      .skip),
    .callOp 407 6 (ix 0) [(.var 0)],
    .ite (
      .raise) (
      .skip),
    .callOp 411 7 (ix 1) [(.var 0)],
    .assign 5 (.var 7),
    .write 414 (.var 5),
    .assign 8 (.field (.var 5)),
    .loop [B, B, N, N, F, F, N, F, F] (
      .block [
        .assign 4 (.elem (.var 8)),
        .write 418 (.var 4),
        .write 419 (.var 4)]),
    .callOp 422 9 (ix 8) [(.var 5)],
    .assign 10 (.var 9),
    .loop [B, B, B, B, F, F, N, F, F, B, B, B] (
      .block [
        .assign 3 (.elem (.var 10)),
        .assign 11 (.var 3),
        .loop [B, B, B, B, F, F, N, F, F, B, B, B] (
          .block [
            .assign 2 (.elem (.var 11)),
            .write 424 (.var 2)])]),
    .write 426 (.var 5),
    .ret (.var 5)]⟩
def ct_shift_sequence_times : Contract := ⟨[B, B], B⟩

/-- `stretch_note_sequence` (sequences_lib.py:1336)  params: note_sequence, stretch_factor, in_place
variables: 0=note_sequence 1=stretch_factor 2=in_place 3=event 4=events 5=note 6=stretched_sequence 7=tempo 8=_r1354 9=_r1361 10=%it1367_14 11=_r1373 12=%it1373_16 13=%it1374_17 14=%it1378_15
-/
def op_stretch_note_sequence (ix : Nat → Nat) : OpDef := ⟨"stretch_note_sequence", 3,
  .block [
    .assign 0 (.param 0),
    .assign 1 (.param 1),
    .assign 2 .scalar,
    .callOp 1354 8 (ix 0) [(.var 0)],
    .ite (
      .raise) (
      .skip),
    .callOp 1361 9 (ix 1) [(.var 0)],
    .assign 6 (.var 9),
    .ite (
      .ret (.var 6)) (
      .skip),
    .assign 10 (.field (.var 6)),
    .loop [B, B, N, N, N, F, F, N, N, F, F] (
      .block [
        .assign 5 (.elem (.var 10)),
        .write 1368 (.var 5),
        .write 1369 (.var 5)]),
    .write 1370 (.var 6),
    .callOp 1373 11 (ix 8) [(.var 6)],
    .assign 12 (.var 11),
    .loop [B, B, N, B, B, F, F, N, N, F, F, B, B, B] (
      .block [
        .assign 4 (.elem (.var 12)),
        .assign 13 (.var 4),
        .loop [B, B, N, B, B, F, F, N, N, F, F, B, B, B] (
          .block [
            .assign 3 (.elem (.var 13)),
            .write 1375 (.var 3)])]),
    .assign 14 (.field (.var 6)),
    .loop [B, B, N, B, B, F, F, F, N, F, F, B, B, B, F] (
      .block [
        .assign 7 (.elem (.var 14)),
        .write 1379 (.var 7)]),
    .ret (.var 6)]⟩
def ct_stretch_note_sequence : Contract := ⟨[B, B, B], B⟩

/-- `stretch_note_sequence__in_place` (sequences_lib.py:1336)  params: note_sequence, stretch_factor, in_place
variables: 0=note_sequence 1=stretch_factor 2=in_place 3=event 4=events 5=note 6=stretched_sequence 7=tempo 8=_r1354 9=%it1367_14 10=_r1373 11=%it1373_16 12=%it1374_17 13=%it1378_15
-/
def op_stretch_note_sequence__in_place (ix : Nat → Nat) : OpDef := ⟨"stretch_note_sequence__in_place", 3,
  .block [
    .assign 0 (.param 0),
    .assign 1 (.param 1),
    .assign 2 .scalar,
    .callOp 1354 8 (ix 0) [(.var 0)],
    .ite (
      .raise) (
      .skip),
    .assign 6 (.var 0),
    .ite (
      .ret (.var 6)) (
      .skip),
    .assign 9 (.field (.var 6)),
    .loop [B, B, N, N, N, B, B, N, N, B] (
      .block [
        .assign 5 (.elem (.var 9)),
        .write 1368 (.var 5),
        .write 1369 (.var 5)]),
    .write 1370 (.var 6),
    .callOp 1373 10 (ix 8) [(.var 6)],
    .assign 11 (.var 10),
    .loop [B, B, N, B, B, B, B, N, N, B, B, B, B] (
      .block [
        .assign 4 (.elem (.var 11)),
        .assign 12 (.var 4),
        .loop [B, B, N, B, B, B, B, N, N, B, B, B, B] (
          .block [
            .assign 3 (.elem (.var 12)),
            .write 1375 (.var 3)])]),
    .assign 13 (.field (.var 6)),
    .loop [B, B, N, B, B, B, B, B, N, B, B, B, B, B] (
      .block [
        .assign 7 (.elem (.var 13)),
        .write 1379 (.var 7)]),
    .ret (.var 6)]⟩
def ct_stretch_note_sequence__in_place : Contract := ⟨[B, B, B], B⟩

/-- `transpose_note_sequence` (sequences_lib.py:1149)  params: ns, amount, min_allowed_pitch, max_allowed_pitch, transpose_chords, in_place
variables: 0=ns 1=amount 2=min_allowed_pitch 3=max_allowed_pitch 4=transpose_chords 5=in_place 6=deleted_note_count 7=end_time 8=ks 9=new_note_list 10=new_pitch 11=note 12=ta 13=text_annotations_to_keep 14=_r1175 15=%it1181_14 16=%it1206_14 17=_acc1211 18=ta@1211 19=%it1211_21 20=%it1219_12
-/
def op_transpose_note_sequence (ix : Nat → Nat) : OpDef := ⟨"transpose_note_sequence", 6,
  .block [
    .assign 0 (.param 0),
    .assign 1 (.param 1),
    .assign 2 (.param 2),
    .assign 3 (.param 3),
    .assign 4 (.param 4),
    .assign 5 .scalar,
    .callOp 1175 14 (ix 1) [(.var 0)],
    .assign 0 (.var 14),
    .assign 9 .scalar,
    .assign 6 .scalar,
    .assign 7 .scalar,
    .assign 15 (.field (.var 0)),
    .loop [F, B, B, B, B, N, N, N, N, F, B, F, N, N, F, F] (
      .block [
        .assign 11 (.elem (.var 15)),
        .assign 10 (.var 1),
        .ite (
          .block [
            .assign 7 (.var 7),
            .ite (
              .block [
                .write 1187 (.var 11),
                .write 1190 (.var 11)]) (
              .skip),
            .assign 9 (.tuple [(.var 9), (.var 11)])]) (
          .skip)]),
    .ite (
      .block [
        .write 1197 (.field (.var 0)),
        .write 1198 (.field (.var 0))]) (
      .skip),
    .write 1201 (.var 0),
    .ite (
      .block [
        .assign 16 (.field (.var 0)),
        .loop [F, B, B, B, B, N, N, N, N, F, B, F, F, N, F, F, F] (
          .block [
            .assign 12 (.elem (.var 16)),
            .ite (
              .write 1208 (.var 12)) (
              .skip)])]) (
      .block [
        .assign 17 .scalar,
        .assign 19 (.field (.var 0)),
        .loop [F, B, B, B, B, N, N, N, N, F, B, F, N, N, F, F, N, F, F, F] (
          .block [
            .assign 18 (.elem (.var 19)),
            .ite (
              .assign 17 (.tuple [(.var 17), (.var 18)])) (
              .skip)]),
        .assign 13 (.var 17),
        .ite (
          .block [
            .write 1215 (.field (.var 0)),
            .write 1216 (.field (.var 0))]) (
          .skip)]),
    .assign 20 (.field (.var 0)),
    .loop [F, B, B, B, B, N, N, N, F, F, B, F, F, F, F, F, F, F, F, F, F] (
      .block [
        .assign 8 (.elem (.var 20)),
        .write 1220 (.var 8)]),
    .ret (.tuple [(.var 0), (.var 6)])]⟩
def ct_transpose_note_sequence : Contract := ⟨[B, B, B, B, B, B], F⟩

/-- `transpose_note_sequence__in_place` (sequences_lib.py:1149)  params: ns, amount, min_allowed_pitch, max_allowed_pitch, transpose_chords, in_place
variables: 0=ns 1=amount 2=min_allowed_pitch 3=max_allowed_pitch 4=transpose_chords 5=in_place 6=deleted_note_count 7=end_time 8=ks 9=new_note_list 10=new_pitch 11=note 12=ta 13=text_annotations_to_keep 14=%it1181_14 15=%it1206_14 16=_acc1211 17=ta@1211 18=%it1211_21 19=%it1219_12
-/
def op_transpose_note_sequence__in_place (ix : Nat → Nat) : OpDef := ⟨"transpose_note_sequence__in_place", 6,
  .block [
    .assign 0 (.param 0),
    .assign 1 (.param 1),
    .assign 2 (.param 2),
    .assign 3 (.param 3),
    .assign 4 (.param 4),
    .assign 5 .scalar,
    .assign 9 .scalar,
    .assign 6 .scalar,
    .assign 7 .scalar,
    .assign 14 (.field (.var 0)),
    .loop [F, B, B, B, B, N, N, N, N, F, B, F, N, N, F] (
      .block [
        .assign 11 (.elem (.var 14)),
        .assign 10 (.var 1),
        .ite (
          .block [
            .assign 7 (.var 7),
            .ite (
              .block [
                .write 1187 (.var 11),
                .write 1190 (.var 11)]) (
              .skip),
            .assign 9 (.tuple [(.var 9), (.var 11)])]) (
          .skip)]),
    .ite (
      .block [
        .write 1197 (.field (.var 0)),
        .write 1198 (.field (.var 0))]) (
      .skip),
    .write 1201 (.var 0),
    .ite (
      .block [
        .assign 15 (.field (.var 0)),
        .loop [F, B, B, B, B, N, N, N, N, F, B, F, F, N, F, F] (
          .block [
            .assign 12 (.elem (.var 15)),
            .ite (
              .write 1208 (.var 12)) (
              .skip)])]) (
      .block [
        .assign 16 .scalar,
        .assign 18 (.field (.var 0)),
        .loop [F, B, B, B, B, N, N, N, N, F, B, F, N, N, F, N, F, F, F] (
          .block [
            .assign 17 (.elem (.var 18)),
            .ite (
              .assign 16 (.tuple [(.var 16), (.var 17)])) (
              .skip)]),
        .assign 13 (.var 16),
        .ite (
          .block [
            .write 1215 (.field (.var 0)),
            .write 1216 (.field (.var 0))]) (
          .skip)]),
    .assign 19 (.field (.var 0)),
    .loop [F, B, B, B, B, N, N, N, F, F, B, F, F, F, F, F, F, F, F, F] (
      .block [
        .assign 8 (.elem (.var 19)),
        .write 1220 (.var 8)]),
    .ret (.tuple [(.var 0), (.var 6)])]⟩
def ct_transpose_note_sequence__in_place : Contract := ⟨[F, B, B, B, B, B], F⟩

/-- `quantize_to_step` (sequences_lib.py:933)  params: unquantized_seconds, steps_per_second, quantize_cutoff
variables: 0=unquantized_seconds 1=steps_per_second 2=quantize_cutoff 3=unquantized_steps
-/
def op_quantize_to_step (ix : Nat → Nat) : OpDef := ⟨"quantize_to_step", 3,
  .block [
    .assign 0 (.param 0),
    .assign 1 (.param 1),
    .assign 2 (.param 2),
    .assign 3 (.tuple [(.var 0), (.var 1)]),
    .ret .scalar]⟩
def ct_quantize_to_step : Contract := ⟨[B, B, B], N⟩

/-- `_quantize_notes` (sequences_lib.py:958)  params: note_sequence, steps_per_second
variables: 0=note_sequence 1=steps_per_second 2=event 3=note 4=%it975_14 5=_r977 6=_r979 7=%it994_15 8=_r997
-/
def op__quantize_notes (ix : Nat → Nat) : OpDef := ⟨"_quantize_notes", 2,
  .block [
    .assign 0 (.param 0),
    .assign 1 (.param 1),
    .assign 4 (.field (.var 0)),
    .loop [F, B, N, F, F, N, N] (
      .block [
        .assign 3 (.elem (.var 4)),
        .callOp 977 5 (ix 14) [.scalar, (.var 1), .scalar],
        .write 977 (.var 3),
        .callOp 979 6 (ix 14) [.scalar, (.var 1), .scalar],
        .write 979 (.var 3),
        .ite (
          .write 981 (.var 3)) (
          .skip),
        .ite (
          .raise) (
          .skip),
        .ite (
          .write 991 (.var 0)) (
          .skip)]),
    .assign 7 (.tuple [(.field (.var 0)), (.field (.var 0))]),
    .loop [F, B, F, F, F, N, N, F, N] (
      .block [
        .assign 2 (.elem (.var 7)),
        .callOp 997 8 (ix 14) [.scalar, (.var 1), .scalar],
        .write 997 (.var 2),
        .ite (
          .raise) (
          .skip)])]⟩
def ct__quantize_notes : Contract := ⟨[F, B], N⟩

/-- `_is_power_of_2` (sequences_lib.py:643)  params: x
variables: 0=x
-/
def op__is_power_of_2 (ix : Nat → Nat) : OpDef := ⟨"_is_power_of_2", 1,
  .block [
    .assign 0 (.param 0),
    .ret (.var 0)]⟩
def ct__is_power_of_2 : Contract := ⟨[B], B⟩

/-- `steps_per_quarter_to_steps_per_second` (sequences_lib.py:953)  params: steps_per_quarter, qpm
variables: 0=steps_per_quarter 1=qpm
-/
def op_steps_per_quarter_to_steps_per_second (ix : Nat → Nat) : OpDef := ⟨"steps_per_quarter_to_steps_per_second", 2,
  .block [
    .assign 0 (.param 0),
    .assign 1 (.param 1),
    .ret (.tuple [(.var 0), (.var 1)])]⟩
def ct_steps_per_quarter_to_steps_per_second : Contract := ⟨[B, B], B⟩

/-- `quantize_note_sequence` (sequences_lib.py:1003)  params: note_sequence, steps_per_quarter
variables: 0=note_sequence 1=steps_per_quarter 2=qns 3=steps_per_second 4=tempo 5=tempos 6=time_signature 7=time_signatures 8=ts@key1036 9=%it1049_26 10=_r1069 11=t@key1080 12=%it1091_17 13=_r1106 14=_r1109 15=_r1110
-/
def op_quantize_note_sequence (ix : Nat → Nat) : OpDef := ⟨"quantize_note_sequence", 2,
  .block [
    .assign 0 (.param 0),
    .assign 1 (.param 1),
    .assign 2 (.copyOf (.var 0)),
    .write 1033 (.field (.var 2)),
    .ite (
      .block [
        .assign 7 (.field (.var 2)),
        .ite (
          .raise) (
          .skip),
        .assign 9 (.var 7),
        .loop [B, B, F, N, N, N, F, F, N, F] (
          .block [
            .assign 6 (.elem (.var 9)),
            .ite (
              .raise) (
              .skip)]),
        .write 1061 (.elem (.field (.var 2))),
        .write 1062 (.field (.var 2))]) (
      .block [
        .write 1064 (.field (.var 2)),
        .assign 6 (.elem (.field (.var 2))),
        .write 1065 (.var 6),
        .write 1066 (.var 6),
        .write 1067 (.var 6)]),
    .callOp 1069 10 (ix 16) [.scalar],
    .ite (
      .raise) (
      .skip),
    .ite (
      .raise) (
      .skip),
    .ite (
      .block [
        .assign 5 (.field (.var 2)),
        .ite (
          .raise) (
          .skip),
        .assign 12 (.var 5),
        .loop [B, B, F, N, F, F, F, F, N, F, B, N, F] (
          .block [
            .assign 4 (.elem (.var 12)),
            .ite (
              .raise) (
              .skip)]),
        .write 1098 (.elem (.field (.var 2))),
        .write 1099 (.field (.var 2))]) (
      .block [
        .write 1101 (.field (.var 2)),
        .assign 4 (.elem (.field (.var 2))),
        .write 1102 (.var 4),
        .write 1103 (.var 4)]),
    .callOp 1106 13 (ix 17) [(.var 1), .scalar],
    .assign 3 (.var 13),
    .callOp 1109 14 (ix 14) [.scalar, (.var 3), .scalar],
    .write 1109 (.var 2),
    .callOp 1110 15 (ix 15) [(.var 2), (.var 3)],
    .ret (.var 2)]⟩
def ct_quantize_note_sequence : Contract := ⟨[B, B], F⟩

/-- `quantize_note_sequence_absolute` (sequences_lib.py:1115)  params: note_sequence, steps_per_second
variables: 0=note_sequence 1=steps_per_second 2=qns 3=_r1143 4=_r1144
-/
def op_quantize_note_sequence_absolute (ix : Nat → Nat) : OpDef := ⟨"quantize_note_sequence_absolute", 2,
  .block [
    .assign 0 (.param 0),
    .assign 1 (.param 1),
    .assign 2 (.copyOf (.var 0)),
    .write 1141 (.field (.var 2)),
    .callOp 1143 3 (ix 14) [.scalar, (.var 1), .scalar],
    .write 1143 (.var 2),
    .callOp 1144 4 (ix 15) [(.var 2), (.var 1)],
    .ret (.var 2)]⟩
def ct_quantize_note_sequence_absolute : Contract := ⟨[B, B], F⟩

/-- `apply_sustain_control_changes` (sequences_lib.py:1555)  params: note_sequence, sustain_control_number
variables: 0=note_sequence 1=sustain_control_number 2=active_notes 3=cc 4=event 5=event_type 6=events 7=instrument 8=new_active_notes 9=note 10=sequence 11=sus_active 12=time 13=value 14=_r1581 15=_acc1589 16=note@1589 17=%it1589_63 18=_acc1591 19=note@1591 20=%it1591_62 21=%it1594_12 22=%it1616_33 23=_t1618 24=_t1620 25=%it1623_18 26=_t1633 27=%it1638_20 28=_t1652 29=%it1669_20 30=%it1670_16
-/
def op_apply_sustain_control_changes (ix : Nat → Nat) : OpDef := ⟨"apply_sustain_control_changes", 2,
  .block [
    .assign 0 (.param 0),
    .assign 1 (.param 1),
    .callOp 1581 14 (ix 0) [(.var 0)],
    .ite (
      .raise) (
      .skip),
    .assign 10 (.copyOf (.var 0)),
    .assign 6 .scalar,
    .assign 15 .scalar,
    .assign 17 (.field (.var 10)),
    .loop [B, B, N, N, N, N, N, N, N, N, F, N, N, N, N, F, F, F] (
      .block [
        .assign 16 (.elem (.var 17)),
        .ite (
          .assign 15 (.tuple [(.var 15), (.var 16)])) (
          .skip)]),
    .assign 2 (.tuple [(.var 2), (.var 15)]),
    .assign 4 (.tuple [(.var 4), (.var 15)]),
    .assign 5 (.tuple [(.var 5), (.var 15)]),
    .assign 6 (.tuple [(.var 6), (.var 15)]),
    .assign 7 (.tuple [(.var 7), (.var 15)]),
    .assign 8 (.tuple [(.var 8), (.var 15)]),
    .assign 9 (.tuple [(.var 9), (.var 15)]),
    .assign 12 (.tuple [(.var 12), (.var 15)]),
    .assign 18 .scalar,
    .assign 20 (.field (.var 10)),
    .loop [B, B, F, N, F, F, F, F, F, F, F, N, F, N, N, F, F, F, F, F, F] (
      .block [
        .assign 19 (.elem (.var 20)),
        .ite (
          .assign 18 (.tuple [(.var 18), (.var 19)])) (
          .skip)]),
    .assign 2 (.tuple [(.var 2), (.var 18)]),
    .assign 4 (.tuple [(.var 4), (.var 18)]),
    .assign 5 (.tuple [(.var 5), (.var 18)]),
    .assign 6 (.tuple [(.var 6), (.var 18)]),
    .assign 7 (.tuple [(.var 7), (.var 18)]),
    .assign 8 (.tuple [(.var 8), (.var 18)]),
    .assign 9 (.tuple [(.var 9), (.var 18)]),
    .assign 12 (.tuple [(.var 12), (.var 18)]),
    .assign 21 (.field (.var 10)),
    .loop [B, B, F, F, F, F, F, F, F, F, F, N, F, N, N, F, F, F, F, F, F, F] (
      .block [
        .assign 3 (.elem (.var 21)),
        .ite (
          .skip) (
          .block [
            .assign 13 .scalar,
            .ite (
              .block [
                .assign 2 (.tuple [(.var 2), (.var 3)]),
                .assign 4 (.tuple [(.var 4), (.var 3)]),
                .assign 5 (.tuple [(.var 5), (.var 3)]),
                .assign 6 (.tuple [(.var 6), (.var 3)]),
                .assign 7 (.tuple [(.var 7), (.var 3)]),
                .assign 8 (.tuple [(.var 8), (.var 3)]),
                .assign 9 (.tuple [(.var 9), (.var 3)]),
                .assign 12 (.tuple [(.var 12), (.var 3)])]) (
              .ite (
                .block [
                  .assign 2 (.tuple [(.var 2), (.var 3)]),
                  .assign 4 (.tuple [(.var 4), (.var 3)]),
                  .assign 5 (.tuple [(.var 5), (.var 3)]),
                  .assign 6 (.tuple [(.var 6), (.var 3)]),
                  .assign 7 (.tuple [(.var 7), (.var 3)]),
                  .assign 8 (.tuple [(.var 8), (.var 3)]),
                  .assign 9 (.tuple [(.var 9), (.var 3)]),
                  .assign 12 (.tuple [(.var 12), (.var 3)])]) (
                .skip))])]),
    .assign 2 .scalar,
    .assign 11 .scalar,
    .assign 12 .scalar,
    .assign 22 (.var 6),
    .loop [B, B, F, F, F, F, F, F, F, F, F, N, F, N, N, F, F, F, F, F, F, F, F, N, N, F, F, F, F] (
      .block [
        .assign 12 (.elem (.elem (.var 22))),
        .assign 5 (.elem (.elem (.var 22))),
        .assign 4 (.elem (.elem (.var 22))),
        .ite (
          .assign 23 .scalar) (
          .ite (
            .block [
              .assign 24 .scalar,
              .assign 8 .scalar,
              .assign 25 (.elem (.var 2)),
              .loop [B, B, F, F, F, F, F, F, F, F, F, N, F, N, N, F, F, F, F, F, F, F, F, N, N, F, F, F, F] (
                .block [
                  .assign 9 (.elem (.var 25)),
                  .ite (
                    .block [
                      .write 1627 (.var 9),
                      .ite (
                        .write 1629 (.var 10)) (
                        .skip)]) (
                    .block [
                      .assign 2 (.tuple [(.var 2), (.var 9)]),
                      .assign 4 (.tuple [(.var 4), (.var 9)]),
                      .assign 5 (.tuple [(.var 5), (.var 9)]),
                      .assign 6 (.tuple [(.var 6), (.var 9)]),
                      .assign 7 (.tuple [(.var 7), (.var 9)]),
                      .assign 8 (.tuple [(.var 8), (.var 9)]),
                      .assign 9 (.tuple [(.var 9), (.var 9)]),
                      .assign 12 (.tuple [(.var 12), (.var 9)]),
                      .assign 22 (.tuple [(.var 22), (.var 9)]),
                      .assign 25 (.tuple [(.var 25), (.var 9)])])]),
              .assign 26 (.var 8),
              .assign 2 (.tuple [(.var 2), (.var 26)]),
              .assign 4 (.tuple [(.var 4), (.var 26)]),
              .assign 5 (.tuple [(.var 5), (.var 26)]),
              .assign 6 (.tuple [(.var 6), (.var 26)]),
              .assign 7 (.tuple [(.var 7), (.var 26)]),
              .assign 8 (.tuple [(.var 8), (.var 26)]),
              .assign 9 (.tuple [(.var 9), (.var 26)]),
              .assign 12 (.tuple [(.var 12), (.var 26)]),
              .assign 22 (.tuple [(.var 22), (.var 26)]),
              .assign 25 (.tuple [(.var 25), (.var 26)])]) (
            .ite (
              .block [
                .ite (
                  .block [
                    .assign 8 .scalar,
                    .assign 27 (.elem (.var 2)),
                    .loop [B, B, F, F, F, F, F, F, F, F, F, N, F, N, N, F, F, F, F, F, F, F, F, N, N, F, F, F, F] (
                      .block [
                        .assign 9 (.elem (.var 27)),
                        .ite (
                          .block [
                            .write 1640 (.var 9),
                            .ite (
                              .write 1649 (.field (.var 10))) (
                              .skip)]) (
                          .block [
                            .assign 2 (.tuple [(.var 2), (.var 9)]),
                            .assign 4 (.tuple [(.var 4), (.var 9)]),
                            .assign 5 (.tuple [(.var 5), (.var 9)]),
                            .assign 6 (.tuple [(.var 6), (.var 9)]),
                            .assign 7 (.tuple [(.var 7), (.var 9)]),
                            .assign 8 (.tuple [(.var 8), (.var 9)]),
                            .assign 9 (.tuple [(.var 9), (.var 9)]),
                            .assign 12 (.tuple [(.var 12), (.var 9)]),
                            .assign 22 (.tuple [(.var 22), (.var 9)]),
                            .assign 25 (.tuple [(.var 25), (.var 9)]),
                            .assign 27 (.tuple [(.var 27), (.var 9)])])]),
                    .assign 28 (.var 8),
                    .assign 2 (.tuple [(.var 2), (.var 28)]),
                    .assign 4 (.tuple [(.var 4), (.var 28)]),
                    .assign 5 (.tuple [(.var 5), (.var 28)]),
                    .assign 6 (.tuple [(.var 6), (.var 28)]),
                    .assign 7 (.tuple [(.var 7), (.var 28)]),
                    .assign 8 (.tuple [(.var 8), (.var 28)]),
                    .assign 9 (.tuple [(.var 9), (.var 28)]),
                    .assign 12 (.tuple [(.var 12), (.var 28)]),
                    .assign 22 (.tuple [(.var 22), (.var 28)]),
                    .assign 25 (.tuple [(.var 25), (.var 28)]),
                    .assign 27 (.tuple [(.var 27), (.var 28)])]) (
                  .skip),
                .assign 2 (.tuple [(.var 2), (.var 4)]),
                .assign 4 (.tuple [(.var 4), (.var 4)]),
                .assign 5 (.tuple [(.var 5), (.var 4)]),
                .assign 6 (.tuple [(.var 6), (.var 4)]),
                .assign 7 (.tuple [(.var 7), (.var 4)]),
                .assign 8 (.tuple [(.var 8), (.var 4)]),
                .assign 9 (.tuple [(.var 9), (.var 4)]),
                .assign 12 (.tuple [(.var 12), (.var 4)]),
                .assign 22 (.tuple [(.var 22), (.var 4)]),
                .assign 25 (.tuple [(.var 25), (.var 4)]),
                .assign 27 (.tuple [(.var 27), (.var 4)])]) (
              .ite (
                .skip) (
                .raise))))]),
    .assign 29 (.var 2),
    .loop [B, B, F, F, F, F, F, F, F, F, F, N, F, N, N, F, F, F, F, F, F, F, F, N, N, F, F, F, F, F, F] (
      .block [
        .assign 7 (.elem (.var 29)),
        .assign 30 (.var 7),
        .loop [B, B, F, F, F, F, F, F, F, F, F, N, F, N, N, F, F, F, F, F, F, F, F, N, N, F, F, F, F, F, F] (
          .block [
            .assign 9 (.elem (.var 30)),
            .write 1671 (.var 9),
            .ite (
              .write 1673 (.var 10)) (
              .skip)])]),
    .ret (.var 10)]⟩
def ct_apply_sustain_control_changes : Contract := ⟨[B, B], F⟩

/-- `remove_redundant_data` (sequences_lib.py:431)  params: sequence
variables: 0=sequence 1=added_composer 2=added_genre 3=composer 4=events 5=fixed_sequence 6=genre 7=i 8=tmp_ts 9=%it449_16 10=e@key453 11=%it454_13 12=%it466_20 13=%it473_17
-/
def op_remove_redundant_data (ix : Nat → Nat) : OpDef := ⟨"remove_redundant_data", 1,
  .block [
    .assign 0 (.param 0),
    .assign 5 (.copyOf (.var 0)),
    .assign 9 (.tuple [(.field (.var 5)), (.field (.var 5)), (.field (.var 5))]),
    .loop [B, N, N, N, F, F, N, N, F, F, N, N] (
      .block [
        .assign 4 (.elem (.var 9)),
        .write 453 (.var 4),
        .assign 11 .scalar,
        .loop [B, N, N, N, F, F, N, N, F, F, N, N] (
          .block [
            .assign 7 (.elem (.var 11)),
            .assign 8 (.copyOf (.elem (.var 4))),
            .write 456 (.var 8),
            .ite (
              .write 460 (.var 4)) (
              .skip)])]),
    .ite (
      .block [
        .write 464 (.field (.field (.var 5))),
        .assign 1 .scalar,
        .assign 12 (.field (.field (.var 0))),
        .loop [B, B, N, B, F, F, N, N, F, F, N, N, B] (
          .block [
            .assign 3 (.elem (.var 12)),
            .ite (
              .block [
                .write 468 (.field (.field (.var 5))),
                .assign 1 (.tuple [(.var 1), (.var 3)])]) (
              .skip)]),
        .write 471 (.field (.field (.var 5))),
        .assign 2 .scalar,
        .assign 13 (.field (.field (.var 0))),
        .loop [B, B, B, B, F, F, B, N, F, F, N, N, B, B] (
          .block [
            .assign 6 (.elem (.var 13)),
            .ite (
              .block [
                .write 475 (.field (.field (.var 5))),
                .assign 2 (.tuple [(.var 2), (.var 6)])]) (
              .skip)])]) (
      .skip),
    .ret (.var 5)]⟩
def ct_remove_redundant_data : Contract := ⟨[B], F⟩

/-- `concatenate_sequences` (sequences_lib.py:481)  params: sequences, sequence_durations
variables: 0=sequences 1=sequence_durations 2=cat_seq 3=current_total_time 4=i 5=sequence 6=%it509_11 7=_r517 8=_r529
-/
def op_concatenate_sequences (ix : Nat → Nat) : OpDef := ⟨"concatenate_sequences", 2,
  .block [
    .assign 0 (.param 0),
    .assign 1 (.param 1),
    .ite (
      .raise) (
      .skip),
    .assign 3 .scalar,
    .assign 2 .fresh,
    .assign 6 .scalar,
    .loop [B, B, F, B, N, B, N, B] (
      .block [
        .assign 4 (.elem (.var 6)),
        .assign 5 (.elem (.var 0)),
        .ite (
          .raise) (
          .skip),
        .ite (
          .block [
            .callOp 517 7 (ix 9) [(.var 5), (.var 3)],
            .write 517 (.var 2)]) (
          .write 519 (.var 2)),
        .ite (
          .block [
            .assign 1 (.tuple [(.var 1), (.elem (.var 1))]),
            .assign 3 (.tuple [(.var 3), (.elem (.var 1))])]) (
          .assign 3 .scalar)]),
    .write 527 (.var 2),
    .callOp 529 8 (ix 21) [(.var 2)],
    .ret (.var 8)]⟩
def ct_concatenate_sequences : Contract := ⟨[B, B], F⟩

/-- `merge_sequences` (sequences_lib.py:532)  params: sequences
variables: 0=sequences 1=cat_seq 2=seq 3=%it552_13 4=_acc558 5=seq@558 6=%it558_55 7=_r562
-/
def op_merge_sequences (ix : Nat → Nat) : OpDef := ⟨"merge_sequences", 1,
  .block [
    .assign 0 (.param 0),
    .assign 1 .fresh,
    .assign 3 (.var 0),
    .loop [B, F, B, B] (
      .block [
        .assign 2 (.elem (.var 3)),
        .write 553 (.var 1)]),
    .ite (
      .block [
        .assign 4 .scalar,
        .assign 6 (.var 0),
        .loop [B, F, B, B, N, B, B] (
          .assign 5 (.elem (.var 6))),
        .write 558 (.var 1)]) (
      .skip),
    .write 561 (.var 1),
    .callOp 562 7 (ix 21) [(.var 1)],
    .ret (.var 7)]⟩
def ct_merge_sequences : Contract := ⟨[B], F⟩

/-- `repeat_sequence_to_duration` (sequences_lib.py:565)  params: sequence, duration, sequence_duration
variables: 0=sequence 1=duration 2=sequence_duration 3=num_repeats 4=repeated_ns 5=trimmed 6=_r579 7=_r583
-/
def op_repeat_sequence_to_duration (ix : Nat → Nat) : OpDef := ⟨"repeat_sequence_to_duration", 3,
  .block [
    .assign 0 (.param 0),
    .assign 1 (.param 1),
    .assign 2 (.param 2),
    .ite (
      .assign 2 .scalar) (
      .skip),
    .assign 3 .scalar,
    .callOp 579 6 (ix 22) [(.tuple [(.var 0), (.var 3)]), (.tuple [(.var 2), (.var 3)])],
    .assign 4 (.var 6),
    .callOp 583 7 (ix 4) [(.var 4), .scalar, (.var 1), .scalar],
    .assign 5 (.var 7),
    .write 584 (.var 5),
    .ret (.var 5)]⟩
def ct_repeat_sequence_to_duration : Contract := ⟨[B, B, B], F⟩

/-- `expand_section_groups.sections_in_group` (sequences_lib.py:624)  params: section_group
variables: 0=section_group 1=field 2=section 3=sections 4=%it626_19 5=_r631
-/
def op_expand_section_groups_sections_in_group (ix : Nat → Nat) : OpDef := ⟨"expand_section_groups.sections_in_group", 1,
  .block [
    .assign 0 (.param 0),
    .assign 3 .scalar,
    .assign 4 (.field (.var 0)),
    .loop [B, N, B, N, B, N] (
      .block [
        .assign 2 (.elem (.var 4)),
        .assign 1 .scalar,
        .ite (
          .skip) (
          .ite (
            .block [
              .callOp 631 5 (ix 25) [(.field (.var 2))],
              .assign 3 (.tuple [(.var 3), (.var 5)])]) (
            .skip))]),
    .ret (.var 3)]⟩
def ct_expand_section_groups_sections_in_group : Contract := ⟨[B], N⟩

/-- `expand_section_groups` (sequences_lib.py:588)  params: sequence
variables: 0=sequence 1=end_time 2=i 3=section_durations 4=section_group 5=section_id 6=sections 7=sections_to_concat 8=start_time 9=subsequence 10=%it604_11 11=_r612 12=_t620 13=_t621 14=%it635_23 15=_r636 16=_acc639 17=i@639 18=%it639_28 19=_acc640 20=i@640 21=%it640_37 22=_r638
-/
def op_expand_section_groups (ix : Nat → Nat) : OpDef := ⟨"expand_section_groups", 1,
  .block [
    .assign 0 (.param 0),
    .ite (
      .ret (.copyOf (.var 0))) (
      .skip),
    .assign 6 .scalar,
    .assign 3 .scalar,
    .assign 10 .scalar,
    .loop [B, N, N, N, N, N, F, N, N, F, N, F, F, N] (
      .block [
        .assign 2 (.elem (.var 10)),
        .assign 5 .scalar,
        .assign 8 .scalar,
        .ite (
          .assign 1 .scalar) (
          .assign 1 .scalar),
        .callOp 612 11 (ix 4) [(.var 0), (.var 8), (.var 1), .scalar],
        .assign 9 (.var 11),
        .write 614 (.field (.var 9)),
        .write 617 (.field (.var 9)),
        .write 618 (.field (.var 9)),
        .assign 12 (.var 9),
        .assign 0 (.tuple [(.var 0), (.var 12)]),
        .assign 6 (.tuple [(.var 6), (.var 12)]),
        .assign 9 (.tuple [(.var 9), (.var 12)]),
        .assign 13 (.tuple [(.var 1), (.var 8)]),
        .assign 3 (.tuple [(.var 3), (.var 13)])]),
    .assign 7 .scalar,
    .assign 14 (.field (.var 0)),
    .loop [B, N, N, N, B, N, F, N, N, F, N, F, F, N, B, N] (
      .block [
        .assign 4 (.elem (.var 14)),
        .callOp 636 15 (ix 25) [(.var 4)],
        .assign 2 (.tuple [(.var 2), (.var 15)]),
        .assign 7 (.tuple [(.var 7), (.var 15)])]),
    .assign 16 .scalar,
    .assign 18 (.var 7),
    .loop [B, N, N, N, B, N, F, N, N, F, N, F, F, N, B, N, F, N, N] (
      .block [
        .assign 17 (.elem (.var 18)),
        .assign 16 (.tuple [(.var 16), (.elem (.var 6))])]),
    .assign 19 .scalar,
    .assign 21 (.var 7),
    .loop [B, N, N, N, B, N, F, N, N, F, N, F, F, N, B, N, F, N, N, N, N, N] (
      .block [
        .assign 20 (.elem (.var 21)),
        .assign 19 (.tuple [(.var 19), (.elem (.var 3))])]),
    .callOp 638 22 (ix 22) [(.var 16), (.var 19)],
    .ret (.var 22)]⟩
def ct_expand_section_groups : Contract := ⟨[B], F⟩

/-- `adjust_notesequence_times` (sequences_lib.py:1384)  params: ns, time_func, minimum_duration
variables: 0=ns 1=time_func 2=minimum_duration 3=adjusted_note 4=adjusted_ns 5=end_time 6=event 7=events 8=note 9=skipped_notes 10=start_time 11=time 12=%it1421_14 13=%it1474_15
-/
def op_adjust_notesequence_times (ix : Nat → Nat) : OpDef := ⟨"adjust_notesequence_times", 3,
  .block [
    .assign 0 (.param 0),
    .assign 1 (.param 1),
    .assign 2 (.param 2),
    .assign 4 (.copyOf (.var 0)),
    .write 1418 (.var 4),
    .assign 9 .scalar,
    .write 1420 (.field (.var 4)),
    .assign 12 (.field (.var 0)),
    .loop [B, B, B, F, F, B, N, N, B, N, N, N, B] (
      .block [
        .assign 8 (.elem (.var 12)),
        .assign 10 .scalar,
        .assign 5 .scalar,
        .ite (
          .ite (
            .block [
              .assign 2 (.tuple [(.var 2), (.var 2)]),
              .assign 5 (.tuple [(.var 5), (.var 2)])]) (
            .skip)) (
          .skip),
        .ite (
          .skip) (
          .block [
            .ite (
              .raise) (
              .skip),
            .ite (
              .raise) (
              .skip),
            .ite (
              .raise) (
              .skip),
            .ite (
              .write 1458 (.var 4)) (
              .skip),
            .write 1460 (.field (.var 4)),
            .assign 3 (.elem (.field (.var 4))),
            .write 1461 (.var 3),
            .write 1462 (.var 3),
            .write 1463 (.var 3)])]),
    .assign 7 (.tuple [(.field (.var 4)), (.field (.var 4)), (.field (.var 4)), (.field (.var 4)), (.field (.var 4)), (.field (.var 4))]),
    .assign 13 (.var 7),
    .loop [B, B, B, F, F, B, F, F, B, N, N, N, B, F] (
      .block [
        .assign 6 (.elem (.var 13)),
        .assign 11 .scalar,
        .ite (
          .raise) (
          .skip),
        .write 1480 (.var 6)]),
    .write 1484 (.field (.var 4)),
    .ret (.tuple [(.var 4), (.var 9)])]⟩
def ct_adjust_notesequence_times : Contract := ⟨[B, B, B], F⟩

/-- `rectify_beats.time_func` (sequences_lib.py:1530)  params: t, unique_beat_times, rectified_beat_times, sequence
variables: 0=t 1=unique_beat_times 2=rectified_beat_times 3=sequence
-/
def op_rectify_beats_time_func (ix : Nat → Nat) : OpDef := ⟨"rectify_beats.time_func", 4,
  .block [
    .assign 0 (.param 0),
    .assign 1 (.param 1),
    .assign 2 (.param 2),
    .assign 3 (.param 3),
    .ret .scalar]⟩
def ct_rectify_beats_time_func : Contract := ⟨[B, B, B, B], N⟩

/-- `rectify_beats` (sequences_lib.py:1489)  params: sequence, beats_per_minute
variables: 0=sequence 1=beats_per_minute 2=_ 3=beat_times 4=num_beats 5=rectified_beat_times 6=rectified_sequence 7=seconds_per_beat 8=sorted_beat_times 9=unique_beat_times 10=_r1506 11=_acc1510 12=ta@1510 13=%it1510_24 14=_acc1521 15=i@1521 16=%it1521_36 17=_clo1534 18=_r1534 19=_t1534
-/
def op_rectify_beats (ix : Nat → Nat) : OpDef := ⟨"rectify_beats", 2,
  .block [
    .assign 0 (.param 0),
    .assign 1 (.param 1),
    .callOp 1506 10 (ix 0) [(.var 0)],
    .ite (
      .raise) (
      .skip),
    .assign 11 .scalar,
    .assign 13 (.field (.var 0)),
    .loop [B, B, N, N, N, N, N, N, N, N, N, N, B, B] (
      .assign 12 (.elem (.var 13))),
    .assign 3 (.var 11),
    .ite (
      .raise) (
      .skip),
    .assign 8 (.var 3),
    .assign 14 .scalar,
    .assign 16 .scalar,
    .loop [B, B, N, N, N, N, N, N, N, N, N, N, B, B, N, N, N] (
      .block [
        .assign 15 (.elem (.var 16)),
        .ite (
          .assign 14 (.tuple [(.var 14), (.elem (.var 8))])) (
          .skip)]),
    .assign 9 .scalar,
    .assign 4 .scalar,
    .assign 7 (.var 1),
    .assign 5 (.var 7),
    .loop [B, B, N, N, N, B, N, B, N, N, N, N, B, B, N, N, N] (
      .callOp 1534 17 (ix 28) [.scalar, (.var 9), (.var 5), (.var 0)]),
    .callOp 1534 18 (ix 27) [(.var 0), .scalar, .scalar],
    .assign 19 (.var 18),
    .assign 6 (.proj (.var 19) 0),
    .assign 2 (.proj (.var 19) 1),
    .write 1538 (.field (.var 6)),
    .write 1539 (.field (.var 6)),
    .ret (.var 6)]⟩
def ct_rectify_beats : Contract := ⟨[B, B], F⟩

/-- program slice of `trim_note_sequence`: is_quantized_sequence, _copy_note_sequence, trim_note_sequence -/
def ir_trim_note_sequence : Prog :=
  let ix : Nat → Nat := fun g => match g with | 0 => 0 | 1 => 1 | 2 => 2 | _ => 99999
  ⟨[op_is_quantized_sequence ix, op__copy_note_sequence ix, op_trim_note_sequence ix], [ct_is_quantized_sequence, ct__copy_note_sequence, ct_trim_note_sequence], 2⟩

/-- program slice of `_extract_subsequences`: is_quantized_sequence, _copy_note_sequence, _extract_subsequences -/
def ir__extract_subsequences : Prog :=
  let ix : Nat → Nat := fun g => match g with | 0 => 0 | 1 => 1 | 3 => 2 | _ => 99999
  ⟨[op_is_quantized_sequence ix, op__copy_note_sequence ix, op__extract_subsequences ix], [ct_is_quantized_sequence, ct__copy_note_sequence, ct__extract_subsequences], 2⟩

/-- program slice of `extract_subsequence`: is_quantized_sequence, _copy_note_sequence, _extract_subsequences, extract_subsequence -/
def ir_extract_subsequence : Prog :=
  let ix : Nat → Nat := fun g => match g with | 0 => 0 | 1 => 1 | 3 => 2 | 4 => 3 | _ => 99999
  ⟨[op_is_quantized_sequence ix, op__copy_note_sequence ix, op__extract_subsequences ix, op_extract_subsequence ix], [ct_is_quantized_sequence, ct__copy_note_sequence, ct__extract_subsequences, ct_extract_subsequence], 3⟩

/-- program slice of `split_note_sequence`: is_quantized_sequence, _copy_note_sequence, _extract_subsequences, split_note_sequence -/
def ir_split_note_sequence : Prog :=
  let ix : Nat → Nat := fun g => match g with | 0 => 0 | 1 => 1 | 3 => 2 | 5 => 3 | _ => 99999
  ⟨[op_is_quantized_sequence ix, op__copy_note_sequence ix, op__extract_subsequences ix, op_split_note_sequence ix], [ct_is_quantized_sequence, ct__copy_note_sequence, ct__extract_subsequences, ct_split_note_sequence], 3⟩

/-- program slice of `split_note_sequence_on_time_changes`: is_quantized_sequence, _copy_note_sequence, _extract_subsequences, split_note_sequence_on_time_changes -/
def ir_split_note_sequence_on_time_changes : Prog :=
  let ix : Nat → Nat := fun g => match g with | 0 => 0 | 1 => 1 | 3 => 2 | 6 => 3 | _ => 99999
  ⟨[op_is_quantized_sequence ix, op__copy_note_sequence ix, op__extract_subsequences ix, op_split_note_sequence_on_time_changes ix], [ct_is_quantized_sequence, ct__copy_note_sequence, ct__extract_subsequences, ct_split_note_sequence_on_time_changes], 3⟩

/-- program slice of `split_note_sequence_on_silence`: is_quantized_sequence, _copy_note_sequence, _extract_subsequences, split_note_sequence_on_silence -/
def ir_split_note_sequence_on_silence : Prog :=
  let ix : Nat → Nat := fun g => match g with | 0 => 0 | 1 => 1 | 3 => 2 | 7 => 3 | _ => 99999
  ⟨[op_is_quantized_sequence ix, op__copy_note_sequence ix, op__extract_subsequences ix, op_split_note_sequence_on_silence ix], [ct_is_quantized_sequence, ct__copy_note_sequence, ct__extract_subsequences, ct_split_note_sequence_on_silence], 3⟩

/-- program slice of `shift_sequence_times`: is_quantized_sequence, _copy_note_sequence, _timed_event_lists, shift_sequence_times -/
def ir_shift_sequence_times : Prog :=
  let ix : Nat → Nat := fun g => match g with | 0 => 0 | 1 => 1 | 8 => 2 | 9 => 3 | _ => 99999
  ⟨[op_is_quantized_sequence ix, op__copy_note_sequence ix, op__timed_event_lists ix, op_shift_sequence_times ix], [ct_is_quantized_sequence, ct__copy_note_sequence, ct__timed_event_lists, ct_shift_sequence_times], 3⟩

/-- program slice of `stretch_note_sequence`: is_quantized_sequence, _copy_note_sequence, _timed_event_lists, stretch_note_sequence -/
def ir_stretch_note_sequence : Prog :=
  let ix : Nat → Nat := fun g => match g with | 0 => 0 | 1 => 1 | 8 => 2 | 10 => 3 | _ => 99999
  ⟨[op_is_quantized_sequence ix, op__copy_note_sequence ix, op__timed_event_lists ix, op_stretch_note_sequence ix], [ct_is_quantized_sequence, ct__copy_note_sequence, ct__timed_event_lists, ct_stretch_note_sequence], 3⟩

/-- program slice of `stretch_note_sequence__in_place`: is_quantized_sequence, _timed_event_lists, stretch_note_sequence__in_place -/
def ir_stretch_note_sequence__in_place : Prog :=
  let ix : Nat → Nat := fun g => match g with | 0 => 0 | 8 => 1 | 11 => 2 | _ => 99999
  ⟨[op_is_quantized_sequence ix, op__timed_event_lists ix, op_stretch_note_sequence__in_place ix], [ct_is_quantized_sequence, ct__timed_event_lists, ct_stretch_note_sequence__in_place], 2⟩

/-- program slice of `transpose_note_sequence`: _copy_note_sequence, transpose_note_sequence -/
def ir_transpose_note_sequence : Prog :=
  let ix : Nat → Nat := fun g => match g with | 1 => 0 | 12 => 1 | _ => 99999
  ⟨[op__copy_note_sequence ix, op_transpose_note_sequence ix], [ct__copy_note_sequence, ct_transpose_note_sequence], 1⟩

/-- program slice of `transpose_note_sequence__in_place`: transpose_note_sequence__in_place -/
def ir_transpose_note_sequence__in_place : Prog :=
  let ix : Nat → Nat := fun g => match g with | 13 => 0 | _ => 99999
  ⟨[op_transpose_note_sequence__in_place ix], [ct_transpose_note_sequence__in_place], 0⟩

/-- program slice of `_quantize_notes`: quantize_to_step, _quantize_notes -/
def ir__quantize_notes : Prog :=
  let ix : Nat → Nat := fun g => match g with | 14 => 0 | 15 => 1 | _ => 99999
  ⟨[op_quantize_to_step ix, op__quantize_notes ix], [ct_quantize_to_step, ct__quantize_notes], 1⟩

/-- program slice of `quantize_note_sequence`: _is_power_of_2, steps_per_quarter_to_steps_per_second, quantize_to_step, _quantize_notes, quantize_note_sequence -/
def ir_quantize_note_sequence : Prog :=
  let ix : Nat → Nat := fun g => match g with | 14 => 2 | 15 => 3 | 16 => 0 | 17 => 1 | 18 => 4 | _ => 99999
  ⟨[op__is_power_of_2 ix, op_steps_per_quarter_to_steps_per_second ix, op_quantize_to_step ix, op__quantize_notes ix, op_quantize_note_sequence ix], [ct__is_power_of_2, ct_steps_per_quarter_to_steps_per_second, ct_quantize_to_step, ct__quantize_notes, ct_quantize_note_sequence], 4⟩

/-- program slice of `quantize_note_sequence_absolute`: quantize_to_step, _quantize_notes, quantize_note_sequence_absolute -/
def ir_quantize_note_sequence_absolute : Prog :=
  let ix : Nat → Nat := fun g => match g with | 14 => 0 | 15 => 1 | 19 => 2 | _ => 99999
  ⟨[op_quantize_to_step ix, op__quantize_notes ix, op_quantize_note_sequence_absolute ix], [ct_quantize_to_step, ct__quantize_notes, ct_quantize_note_sequence_absolute], 2⟩

/-- program slice of `apply_sustain_control_changes`: is_quantized_sequence, apply_sustain_control_changes -/
def ir_apply_sustain_control_changes : Prog :=
  let ix : Nat → Nat := fun g => match g with | 0 => 0 | 20 => 1 | _ => 99999
  ⟨[op_is_quantized_sequence ix, op_apply_sustain_control_changes ix], [ct_is_quantized_sequence, ct_apply_sustain_control_changes], 1⟩

/-- program slice of `concatenate_sequences`: is_quantized_sequence, _copy_note_sequence, _timed_event_lists, shift_sequence_times, remove_redundant_data, concatenate_sequences -/
def ir_concatenate_sequences : Prog :=
  let ix : Nat → Nat := fun g => match g with | 0 => 0 | 1 => 1 | 8 => 2 | 9 => 3 | 21 => 4 | 22 => 5 | _ => 99999
  ⟨[op_is_quantized_sequence ix, op__copy_note_sequence ix, op__timed_event_lists ix, op_shift_sequence_times ix, op_remove_redundant_data ix, op_concatenate_sequences ix], [ct_is_quantized_sequence, ct__copy_note_sequence, ct__timed_event_lists, ct_shift_sequence_times, ct_remove_redundant_data, ct_concatenate_sequences], 5⟩

/-- program slice of `merge_sequences`: remove_redundant_data, merge_sequences -/
def ir_merge_sequences : Prog :=
  let ix : Nat → Nat := fun g => match g with | 21 => 0 | 23 => 1 | _ => 99999
  ⟨[op_remove_redundant_data ix, op_merge_sequences ix], [ct_remove_redundant_data, ct_merge_sequences], 1⟩

/-- program slice of `repeat_sequence_to_duration`: is_quantized_sequence, _copy_note_sequence, _timed_event_lists, shift_sequence_times, remove_redundant_data, concatenate_sequences, _extract_subsequences, extract_subsequence, repeat_sequence_to_duration -/
def ir_repeat_sequence_to_duration : Prog :=
  let ix : Nat → Nat := fun g => match g with | 0 => 0 | 1 => 1 | 3 => 6 | 4 => 7 | 8 => 2 | 9 => 3 | 21 => 4 | 22 => 5 | 24 => 8 | _ => 99999
  ⟨[op_is_quantized_sequence ix, op__copy_note_sequence ix, op__timed_event_lists ix, op_shift_sequence_times ix, op_remove_redundant_data ix, op_concatenate_sequences ix, op__extract_subsequences ix, op_extract_subsequence ix, op_repeat_sequence_to_duration ix], [ct_is_quantized_sequence, ct__copy_note_sequence, ct__timed_event_lists, ct_shift_sequence_times, ct_remove_redundant_data, ct_concatenate_sequences, ct__extract_subsequences, ct_extract_subsequence, ct_repeat_sequence_to_duration], 8⟩

/-- program slice of `expand_section_groups`: is_quantized_sequence, _copy_note_sequence, _extract_subsequences, extract_subsequence, expand_section_groups.sections_in_group, _timed_event_lists, shift_sequence_times, remove_redundant_data, concatenate_sequences, expand_section_groups -/
def ir_expand_section_groups : Prog :=
  let ix : Nat → Nat := fun g => match g with | 0 => 0 | 1 => 1 | 3 => 2 | 4 => 3 | 8 => 5 | 9 => 6 | 21 => 7 | 22 => 8 | 25 => 4 | 26 => 9 | _ => 99999
  ⟨[op_is_quantized_sequence ix, op__copy_note_sequence ix, op__extract_subsequences ix, op_extract_subsequence ix, op_expand_section_groups_sections_in_group ix, op__timed_event_lists ix, op_shift_sequence_times ix, op_remove_redundant_data ix, op_concatenate_sequences ix, op_expand_section_groups ix], [ct_is_quantized_sequence, ct__copy_note_sequence, ct__extract_subsequences, ct_extract_subsequence, ct_expand_section_groups_sections_in_group, ct__timed_event_lists, ct_shift_sequence_times, ct_remove_redundant_data, ct_concatenate_sequences, ct_expand_section_groups], 9⟩

/-- program slice of `remove_redundant_data`: remove_redundant_data -/
def ir_remove_redundant_data : Prog :=
  let ix : Nat → Nat := fun g => match g with | 21 => 0 | _ => 99999
  ⟨[op_remove_redundant_data ix], [ct_remove_redundant_data], 0⟩

/-- program slice of `adjust_notesequence_times`: adjust_notesequence_times -/
def ir_adjust_notesequence_times : Prog :=
  let ix : Nat → Nat := fun g => match g with | 27 => 0 | _ => 99999
  ⟨[op_adjust_notesequence_times ix], [ct_adjust_notesequence_times], 0⟩

/-- program slice of `rectify_beats`: is_quantized_sequence, rectify_beats.time_func, adjust_notesequence_times, rectify_beats -/
def ir_rectify_beats : Prog :=
  let ix : Nat → Nat := fun g => match g with | 0 => 0 | 27 => 2 | 28 => 1 | 29 => 3 | _ => 99999
  ⟨[op_is_quantized_sequence ix, op_rectify_beats_time_func ix, op_adjust_notesequence_times ix, op_rectify_beats ix], [ct_is_quantized_sequence, ct_rectify_beats_time_func, ct_adjust_notesequence_times, ct_rectify_beats], 3⟩

def allProgs : List (String × Prog) := [("trim_note_sequence", ir_trim_note_sequence), ("_extract_subsequences", ir__extract_subsequences), ("extract_subsequence", ir_extract_subsequence), ("split_note_sequence", ir_split_note_sequence), ("split_note_sequence_on_time_changes", ir_split_note_sequence_on_time_changes), ("split_note_sequence_on_silence", ir_split_note_sequence_on_silence), ("shift_sequence_times", ir_shift_sequence_times), ("stretch_note_sequence", ir_stretch_note_sequence), ("stretch_note_sequence__in_place", ir_stretch_note_sequence__in_place), ("transpose_note_sequence", ir_transpose_note_sequence), ("transpose_note_sequence__in_place", ir_transpose_note_sequence__in_place), ("_quantize_notes", ir__quantize_notes), ("quantize_note_sequence", ir_quantize_note_sequence), ("quantize_note_sequence_absolute", ir_quantize_note_sequence_absolute), ("apply_sustain_control_changes", ir_apply_sustain_control_changes), ("concatenate_sequences", ir_concatenate_sequences), ("merge_sequences", ir_merge_sequences), ("repeat_sequence_to_duration", ir_repeat_sequence_to_duration), ("expand_section_groups", ir_expand_section_groups), ("remove_redundant_data", ir_remove_redundant_data), ("adjust_notesequence_times", ir_adjust_notesequence_times), ("rectify_beats", ir_rectify_beats)]

end NSV.C11.Gen
