/-! GENERATED from /repo on every run by harness/c06.py — do not edit. -/
namespace NSV.C06.Gen
def STANDARD_PPQ : Int := 220
def MIN_MIDI_PITCH : Int := 0
def MAX_MIDI_PITCH : Int := 127
end NSV.C06.Gen
