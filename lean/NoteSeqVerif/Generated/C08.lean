/-! GENERATED from /repo on every run by harness/c08.py — do not edit. -/
namespace NSV.C08.Gen
def MELODY_NO_EVENT : Int := (-2)
def MELODY_NOTE_OFF : Int := (-1)
def NUM_SPECIAL_MELODY_EVENTS : Int := 2
def MIN_MELODY_EVENT : Int := (-2)
def MAX_MELODY_EVENT : Int := 127
def MIN_MIDI_PITCH : Int := 0
def MAX_MIDI_PITCH : Int := 127
def NOTES_PER_OCTAVE : Nat := 12
def DEFAULT_STEPS_PER_BAR : Int := 16
def DEFAULT_LOOKBACK_DISTANCES : List Int := [16, 32]
def NOTE_KEYS : List (List Nat) := [[0, 1, 3, 5, 7, 8, 10], [1, 2, 4, 6, 8, 9, 11], [0, 2, 3, 5, 7, 9, 10], [1, 3, 4, 6, 8, 10, 11], [0, 2, 4, 5, 7, 9, 11], [0, 1, 3, 5, 6, 8, 10], [1, 2, 4, 6, 7, 9, 11], [0, 2, 3, 5, 7, 8, 10], [1, 3, 4, 6, 8, 9, 11], [0, 2, 4, 5, 7, 9, 10], [1, 3, 5, 6, 8, 10, 11], [0, 2, 4, 6, 7, 9, 11]]
def NOTE_ON : Nat := 1
def NOTE_OFF : Nat := 2
def TIME_SHIFT : Nat := 3
def VELOCITY : Nat := 4
def DURATION : Nat := 5
def MAX_NUM_VELOCITY_BINS : Int := 127
def MODULO_PITCH_ENCODER_WIDTH : Int := 5
def MODULO_VELOCITY_ENCODER_WIDTH : Int := 3
def MODULO_TIME_SHIFT_ENCODER_WIDTH : Int := 3
def NOTEPERF_DEFAULT_EVENT : List Int := [0, 60, 1, 1]
end NSV.C08.Gen
