/-! GENERATED from /repo on every run by harness/c13.py — do not edit. -/
namespace NSV.C13.Gen
def shiftEventFields : List String := ["time_signatures", "key_signatures", "tempos", "pitch_bends", "control_changes", "text_annotations", "section_annotations"]
def stretchEventFields : List String := ["time_signatures", "key_signatures", "tempos", "pitch_bends", "control_changes", "text_annotations", "section_annotations"]
def adjustEventFields : List String := ["control_changes", "pitch_bends", "time_signatures", "key_signatures", "text_annotations", "section_annotations"]
def BEAT : Int := 2
end NSV.C13.Gen
