/-! GENERATED from /repo on every run by harness/c20.py — do not edit. -/
namespace NSV.C20.Gen
/-- `int16_samples_to_float32`: `y.astype(np.float32) / <toFloatDiv>` -/
def toFloatDiv : Int := 32767
/-- `float_samples_to_int16`: `(y * <toIntMul>).astype(np.int16)` -/
def toIntMul : Int := 32767
end NSV.C20.Gen
