/-! GENERATED from /repo on every run by harness/c09.py — do not edit. -/
namespace NSV.C09.Gen
/-- `int(math.ceil(a / b))` for integers with `b > 0` (exact-arithmetic reading) -/
def pyCeilDiv (a b : Int) : Int := - Int.fdiv (-a) b

def melEncode (self_min_note : Int) (self_max_note : Int) (event : Int) : Except String Int :=
  if (event < (-(2 : Int))) then
    .error "ValueError"
  else
    if ((0 : Int) ≤ event ∧ event < self_min_note) then
      .error "ValueError"
    else
      if (event ≥ self_max_note) then
        .error "ValueError"
      else
        if (event < (0 : Int)) then
          .ok (event + (2 : Int))
        else
          .ok ((event - self_min_note) + (2 : Int))

def melDecode (self_min_note : Int) (index : Int) : Int :=
  if (index < (2 : Int)) then
    (index - (2 : Int))
  else
    ((index - (2 : Int)) + self_min_note)

def melNumClasses (self_min_note : Int) (self_max_note : Int) : Int :=
  ((self_max_note - self_min_note) + (2 : Int))

def velocityBinSize (num_velocity_bins : Int) : Int :=
  (pyCeilDiv (((127 : Int) - (1 : Int)) + (1 : Int)) num_velocity_bins)

def velocityToBin (velocity : Int) (num_velocity_bins : Int) : Int :=
  ((Int.fdiv (velocity - (1 : Int)) (velocityBinSize num_velocity_bins)) + (1 : Int))

def velocityBinToVelocity (velocity_bin : Int) (num_velocity_bins : Int) : Int :=
  ((1 : Int) + ((velocity_bin - (1 : Int)) * (velocityBinSize num_velocity_bins)))

def MIN_MIDI_PITCH : Int := 0
def MAX_MIDI_PITCH : Int := 127
def NOTE_ON : Nat := 1
def NOTE_OFF : Nat := 2
def TIME_SHIFT : Nat := 3
def VELOCITY : Nat := 4
def drumTable : List (List Nat) := [[36, 35], [38, 27, 28, 31, 32, 33, 34, 37, 39, 40, 56, 65, 66, 75, 85], [42, 44, 54, 68, 69, 70, 71, 73, 78, 80, 22], [46, 67, 72, 74, 79, 81, 26], [45, 29, 41, 43, 61, 64, 84], [48, 47, 60, 63, 77, 86, 87], [50, 30, 62, 76, 83], [49, 52, 55, 57, 58], [51, 53, 59, 82]]
end NSV.C09.Gen
