/-! GENERATED from /repo on every run by harness/c01.py — do not edit. -/
namespace NSV.C01.Gen
def QUANTIZE_CUTOFF : Rat := (1 / 2 : Rat)
def DEFAULT_QPM : Rat := (120 : Rat)
end NSV.C01.Gen
