/-! GENERATED from /repo on every run by harness/c18.py — do not edit. -/
namespace NSV.C18.Gen
def SNAP_EPS : Rat := (4835703278458517 / 4835703278458516698824704 : Rat)
def ONSET_WINDOW : Int := 1
def ONSET_UPWEIGHT : Rat := (5 : Rat)
def MAX_MIDI_VELOCITY : Int := 127
def VEL_SLOTS : Nat := 128
def STANDARD_PPQ : Int := 220
def DEFAULT_QPM : Rat := (120 : Rat)
end NSV.C18.Gen
