import NoteSeqVerif.Common.Float
/-! GENERATED from /repo on every run by harness/c06.py through gen/translit2.py — do not edit.
Symbolic execution of the current Python source: `R` is applied after every float operation. -/
namespace NSV.C06.Gen2
open NSV
set_option linter.unusedVariables false

/-- symbolic execution of `note_seq.melodies_lib.to_sequence` up to the first statement outside the arithmetic fragment: local `to_sequence_seconds_per_step` -/
def melody_to_sequence_seconds_per_step (R : Rat → Rat) (sequence_start_time : Rat) (qpm : Rat) (spq : Int) (start_step : Int) : Rat :=
  (R ((R ((60 : Rat) / qpm)) / ((spq : Int) : Rat)))

/-- symbolic execution of `note_seq.melodies_lib.to_sequence` up to the first statement outside the arithmetic fragment: local `to_sequence_sequence_start_time` -/
def melody_to_sequence_sequence_start_time (R : Rat → Rat) (sequence_start_time : Rat) (qpm : Rat) (spq : Int) (start_step : Int) : Rat :=
  (R (sequence_start_time + (R (((start_step : Int) : Rat) * (R ((R ((60 : Rat) / qpm)) / ((spq : Int) : Rat)))))))

/-- symbolic execution of `note_seq.drums_lib.to_sequence` up to the first statement outside the arithmetic fragment: local `to_sequence_seconds_per_step` -/
def drums_to_sequence_seconds_per_step (R : Rat → Rat) (sequence_start_time : Rat) (qpm : Rat) (spq : Int) (start_step : Int) : Rat :=
  (R ((R ((60 : Rat) / qpm)) / ((spq : Int) : Rat)))

/-- symbolic execution of `note_seq.drums_lib.to_sequence` up to the first statement outside the arithmetic fragment: local `to_sequence_sequence_start_time` -/
def drums_to_sequence_sequence_start_time (R : Rat → Rat) (sequence_start_time : Rat) (qpm : Rat) (spq : Int) (start_step : Int) : Rat :=
  (R (sequence_start_time + (R (((start_step : Int) : Rat) * (R ((R ((60 : Rat) / qpm)) / ((spq : Int) : Rat)))))))

/-- symbolic execution of `note_seq.chords_lib.to_sequence` up to the first statement outside the arithmetic fragment: local `to_sequence_seconds_per_step` -/
def chords_to_sequence_seconds_per_step (R : Rat → Rat) (sequence_start_time : Rat) (qpm : Rat) (spq : Int) (start_step : Int) : Rat :=
  (R ((R ((60 : Rat) / qpm)) / ((spq : Int) : Rat)))

/-- symbolic execution of `note_seq.chords_lib.to_sequence` up to the first statement outside the arithmetic fragment: local `to_sequence_sequence_start_time` -/
def chords_to_sequence_sequence_start_time (R : Rat → Rat) (sequence_start_time : Rat) (qpm : Rat) (spq : Int) (start_step : Int) : Rat :=
  (R (sequence_start_time + (R (((start_step : Int) : Rat) * (R ((R ((60 : Rat) / qpm)) / ((spq : Int) : Rat)))))))

/-- symbolic execution of `note_seq.pianoroll_lib.to_sequence` up to the first statement outside the arithmetic fragment: local `to_sequence_seconds_per_step` -/
def pianoroll_to_sequence_seconds_per_step (R : Rat → Rat) (qpm : Rat) (spq : Int) (start_step : Int) : Rat :=
  (R ((R ((60 : Rat) / qpm)) / ((spq : Int) : Rat)))

/-- symbolic execution of `note_seq.pianoroll_lib.to_sequence` up to the first statement outside the arithmetic fragment: local `to_sequence_sequence_start_time` -/
def pianoroll_to_sequence_sequence_start_time (R : Rat → Rat) (qpm : Rat) (spq : Int) (start_step : Int) : Rat :=
  (R (((start_step : Int) : Rat) * (R ((R ((60 : Rat) / qpm)) / ((spq : Int) : Rat)))))

/-- symbolic execution of `note_seq.performance_lib.to_sequence` up to the first statement outside the arithmetic fragment: local `to_sequence_seconds_per_step` -/
def performance_to_sequence_seconds_per_step (R : Rat → Rat) (sps : Int) : Rat :=
  (R ((1 : Rat) / ((sps : Int) : Rat)))

/-- symbolic execution of `note_seq.performance_lib.to_sequence` up to the first statement outside the arithmetic fragment: local `to_sequence_seconds_per_step` -/
def metric_to_sequence_seconds_per_step (R : Rat → Rat) (qpm : Rat) (spq : Int) : Rat :=
  (R ((60 : Rat) / (R (((spq : Int) : Rat) * qpm))))

/-- symbolic execution of `note_seq.performance_lib.to_sequence` up to the first statement outside the arithmetic fragment: local `to_sequence_seconds_per_step` -/
def noteperf_to_sequence_seconds_per_step (R : Rat → Rat) (sps : Int) : Rat :=
  (R ((1 : Rat) / ((sps : Int) : Rat)))

end NSV.C06.Gen2
