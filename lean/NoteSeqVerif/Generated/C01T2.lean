import NoteSeqVerif.Common.Float
/-! GENERATED from /repo on every run by harness/c01.py through gen/translit2.py — do not edit.
Symbolic execution of the current Python source: `R` is applied after every float operation. -/
namespace NSV.C01.Gen2
open NSV
set_option linter.unusedVariables false

/-- symbolic execution of `note_seq.sequences_lib.quantize_to_step` -/
def quantize_to_step (R : Rat → Rat) (unquantized_seconds : Rat) (steps_per_second : Rat) (quantize_cutoff : Rat) : Int :=
  (truncR (R ((R (unquantized_seconds * steps_per_second)) + (R ((1 : Rat) - quantize_cutoff)))))

/-- symbolic execution of `note_seq.sequences_lib.steps_per_quarter_to_steps_per_second` -/
def steps_per_quarter_to_steps_per_second (R : Rat → Rat) (steps_per_quarter : Int) (qpm : Rat) : Rat :=
  (R ((R (((steps_per_quarter : Int) : Rat) * qpm)) / (60 : Rat)))

end NSV.C01.Gen2
