/-! GENERATED from /repo on every run by harness/c14.py — do not edit. -/
namespace NSV.C14.Gen
/-- `sequences_lib._SUSTAIN_ON` -/
def SUSTAIN_ON : Nat := 0
/-- `sequences_lib._SUSTAIN_OFF` -/
def SUSTAIN_OFF : Nat := 1
/-- `sequences_lib._NOTE_ON` -/
def NOTE_ON : Nat := 2
/-- `sequences_lib._NOTE_OFF` -/
def NOTE_OFF : Nat := 3
/-- default of `apply_sustain_control_changes(…, sustain_control_number=…)` -/
def DEFAULT_SUSTAIN_CONTROL_NUMBER : Int := 64
end NSV.C14.Gen
