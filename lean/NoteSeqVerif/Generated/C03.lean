/-! GENERATED from /repo on every run by harness/c03.py — do not edit. -/
namespace NSV.C03.Gen
/-- `midi_io._PRETTY_MIDI_MAJOR_TO_MINOR_OFFSET` -/
def MAJOR_TO_MINOR_OFFSET : Int := 12
/-- `constants.STANDARD_PPQ` -/
def STANDARD_PPQ : Int := 220
/-- `constants.DEFAULT_QUARTERS_PER_MINUTE` -/
def DEFAULT_QPM : Rat := (120 : Rat)
/-- `NoteSequence.KeySignature.MAJOR` / `.MINOR` -/
def MODE_MAJOR : Int := 0
def MODE_MINOR : Int := 1
/-- AST of note_sequence_to_pretty_midi: the tempo loop iterates `sorted(sequence.tempos, key=<time>)` -/
def TEMPO_LOOP_SORTED : Bool := true
/-- AST: the three grouping loops index `instrument_events` by these attributes, in this order -/
def GROUP_KEY_FIELDS : List String := ["instrument", "program", "is_drum"]
/-- AST: the instrument loop iterates `sorted(instrument_events.keys())` -/
def GROUP_LOOP_SORTED : Bool := true
/-- AST of midi_to_note_sequence: `key_number % K` and `key_number // K` -/
def KEY_DECODE_MODULUS : Int := 12
/-- `pretty_midi.pretty_midi.MAX_TICK` in force after `import note_seq.midi_io` (floor): the loader refuses a
file whose largest tick + 1 exceeds it -/
def MAX_TICK : Int := 10000000000
end NSV.C03.Gen
