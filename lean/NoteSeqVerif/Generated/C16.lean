/-! GENERATED from /repo/note_seq/midi_io.py (AST of midi_to_note_sequence) on every run by
harness/c16.py — do not edit.  A `try` is the list of its `except` clauses
(classes caught, `none` = bare except; class raised by the clause body); a statement carries the
list of the `try` statements that enclose it, innermost first. -/
namespace NSV.C16.Gen
/-- the `try` statements around `pretty_midi.PrettyMIDI(io.BytesIO(midi_data))` -/
def ctorTrys : List (List (Option (List String) × String)) := [[(none, "MIDIConversionError")]]
/-- `if midi.resolution <op> <c>: raise X` directly after the constructor statement (false/absent if not there) -/
def resolutionGuardPresent : Bool := true
def resolutionRejected (r : Int) : Bool := decide (r ≤ 0)
def resolutionGuardRaises : String := "MIDIConversionError"
def h_resolution_guard : List (List (Option (List String) × String)) := []
def h_ticks_per_quarter : List (List (Option (List String) × String)) := []   -- sequence.ticks_per_quarter
def h_ts_numerator : List (List (Option (List String) × String)) := []   -- time_signature.numerator
def h_ts_denominator : List (List (Option (List String) × String)) := [[(some ["ValueError"], "MIDIConversionError")]]   -- time_signature.denominator
def h_get_tempo_changes : List (List (Option (List String) × String)) := []   -- call get_tempo_changes
def h_info_instrument : List (List (Option (List String) × String)) := []   -- instrument_info.instrument
def h_note_instrument : List (List (Option (List String) × String)) := []   -- note.instrument
def h_note_program : List (List (Option (List String) × String)) := []   -- note.program
def h_note_pitch : List (List (Option (List String) × String)) := []   -- note.pitch
def h_note_velocity : List (List (Option (List String) × String)) := []   -- note.velocity
def h_bend_instrument : List (List (Option (List String) × String)) := []   -- pitch_bend.instrument
def h_bend_program : List (List (Option (List String) × String)) := []   -- pitch_bend.program
def h_bend_bend : List (List (Option (List String) × String)) := []   -- pitch_bend.bend
def h_cc_instrument : List (List (Option (List String) × String)) := []   -- control_change.instrument
def h_cc_program : List (List (Option (List String) × String)) := []   -- control_change.program
def h_cc_number : List (List (Option (List String) × String)) := []   -- control_change.control_number
def h_cc_value : List (List (Option (List String) × String)) := []   -- control_change.control_value
/-- `key_signature.key = …` and `midi_mode = …` as functions of `midi_key.key_number` -/
def keyOf (k : Int) : Int := Int.fmod k 12
def modeOf (k : Int) : Int := Int.fdiv k 12
/-- `if midi_mode == a: key_signature.mode = <enum b>` cases, in order -/
def modeCases : List (Int × Int) := [(0, 0), (1, 1)]
def modeElseRaises : Option String := some "MIDIConversionError"
def h_mode_raise : List (List (Option (List String) × String)) := []
def PARSER : Int := 2
def ENCODING : Int := 3
/-- pretty_midi.pretty_midi.MAX_TICK as set by midi_io at import (allocation hazard, not used by a theorem) -/
def MAX_TICK : Nat := 10000000000
/-- every statement of midi_to_note_sequence in source order (raise messages dropped; protobuf field kinds appended) -/
def sourceOrder : List String := [
  "if isinstance(midi_data, pretty_midi.PrettyMIDI):",
  "midi = midi_data",
  "else:",
  "try:",
  "midi = pretty_midi.PrettyMIDI(io.BytesIO(midi_data))",
  "except:",
  "raise MIDIConversionError",
  "end",
  "end",
  "if midi.resolution <= 0:",
  "raise MIDIConversionError",
  "end",
  "sequence = music_pb2.NoteSequence()",
  "sequence.ticks_per_quarter = midi.resolution  # int32",
  "sequence.source_info.parser = music_pb2.NoteSequence.SourceInfo.PRETTY_MIDI  # enum",
  "sequence.source_info.encoding_type = music_pb2.NoteSequence.SourceInfo.MIDI  # enum",
  "for midi_time in midi.time_signature_changes:",
  "time_signature = sequence.time_signatures.add()",
  "time_signature.time = midi_time.time  # double",
  "time_signature.numerator = midi_time.numerator  # int32",
  "try:",
  "time_signature.denominator = midi_time.denominator  # int32",
  "except ValueError:",
  "raise MIDIConversionError",
  "end",
  "end",
  "for midi_key in midi.key_signature_changes:",
  "key_signature = sequence.key_signatures.add()",
  "key_signature.time = midi_key.time  # double",
  "key_signature.key = midi_key.key_number % 12  # enum",
  "midi_mode = midi_key.key_number // 12",
  "if midi_mode == 0:",
  "key_signature.mode = key_signature.MAJOR  # enum",
  "else:",
  "if midi_mode == 1:",
  "key_signature.mode = key_signature.MINOR  # enum",
  "else:",
  "raise MIDIConversionError",
  "end",
  "end",
  "end",
  "tempo_times, tempo_qpms = midi.get_tempo_changes()",
  "for (time_in_seconds, tempo_in_qpm) in zip(tempo_times, tempo_qpms):",
  "tempo = sequence.tempos.add()",
  "tempo.time = time_in_seconds  # double",
  "tempo.qpm = tempo_in_qpm  # double",
  "end",
  "midi_notes = []",
  "midi_pitch_bends = []",
  "midi_control_changes = []",
  "for (num_instrument, midi_instrument) in enumerate(midi.instruments):",
  "if midi_instrument.name:",
  "instrument_info = sequence.instrument_infos.add()",
  "instrument_info.name = midi_instrument.name  # string",
  "instrument_info.instrument = num_instrument  # int32",
  "end",
  "for midi_note in midi_instrument.notes:",
  "if not sequence.total_time or midi_note.end > sequence.total_time:",
  "sequence.total_time = midi_note.end  # double",
  "end",
  "midi_notes.append((midi_instrument.program, num_instrument, midi_instrument.is_drum, midi_note))",
  "end",
  "for midi_pitch_bend in midi_instrument.pitch_bends:",
  "midi_pitch_bends.append((midi_instrument.program, num_instrument, midi_instrument.is_drum, midi_pitch_bend))",
  "end",
  "for midi_control_change in midi_instrument.control_changes:",
  "midi_control_changes.append((midi_instrument.program, num_instrument, midi_instrument.is_drum, midi_control_change))",
  "end",
  "end",
  "for (program, instrument, is_drum, midi_note) in midi_notes:",
  "note = sequence.notes.add()",
  "note.instrument = instrument  # int32",
  "note.program = program  # int32",
  "note.start_time = midi_note.start  # double",
  "note.end_time = midi_note.end  # double",
  "note.pitch = midi_note.pitch  # int32",
  "note.velocity = midi_note.velocity  # int32",
  "note.is_drum = is_drum  # bool",
  "end",
  "for (program, instrument, is_drum, midi_pitch_bend) in midi_pitch_bends:",
  "pitch_bend = sequence.pitch_bends.add()",
  "pitch_bend.instrument = instrument  # int32",
  "pitch_bend.program = program  # int32",
  "pitch_bend.time = midi_pitch_bend.time  # double",
  "pitch_bend.bend = midi_pitch_bend.pitch  # int32",
  "pitch_bend.is_drum = is_drum  # bool",
  "end",
  "for (program, instrument, is_drum, midi_control_change) in midi_control_changes:",
  "control_change = sequence.control_changes.add()",
  "control_change.instrument = instrument  # int32",
  "control_change.program = program  # int32",
  "control_change.time = midi_control_change.time  # double",
  "control_change.control_number = midi_control_change.number  # int32",
  "control_change.control_value = midi_control_change.value  # int32",
  "control_change.is_drum = is_drum  # bool",
  "end",
  "return sequence"
]
end NSV.C16.Gen
