/-! GENERATED from /repo on every run by harness/c05.py — do not edit. -/
namespace NSV.C05.Gen
def STANDARD_PPQ : Int := 220
def DEFAULT_QPM : Rat := (120 : Rat)
def DEFAULT_MIDI_PROGRAM : Int := 0
def DEFAULT_MIDI_CHANNEL : Int := 0
/-- `MusicXMLParserState()` -/
def INIT_DIVISIONS : Int := 1
def INIT_QPM : Rat := (120 : Rat)
def INIT_SPQ : Rat := ((1 : Rat) / 2)
def INIT_VELOCITY : Int := 64
/-- the `music_proto_keys` literal of `musicxml_to_sequence_proto` -/
def musicProtoKeys : List Int := [11, 6, 1, 8, 3, 10, 5, 0, 7, 2, 9, 4, 11, 6, 1]
/-- `NoteDuration.TYPE_RATIO_MAP` (dict order) -/
def typeRatioMap : List (String × Rat) := [("maxima", (8 : Rat)), ("long", (4 : Rat)), ("breve", (2 : Rat)), ("whole", (1 : Rat)), ("half", ((1 : Rat) / 2)), ("quarter", ((1 : Rat) / 4)), ("eighth", ((1 : Rat) / 8)), ("16th", ((1 : Rat) / 16)), ("32nd", ((1 : Rat) / 32)), ("64th", ((1 : Rat) / 64)), ("128th", ((1 : Rat) / 128)), ("256th", ((1 : Rat) / 256)), ("512th", ((1 : Rat) / 512)), ("1024th", ((1 : Rat) / 1024))]
/-- `ChordSymbol.CHORD_KIND_ABBREVIATIONS` (dict order) -/
def chordKindAbbreviations : List (String × String) := [("major", ""), ("minor", "m"), ("augmented", "aug"), ("diminished", "dim"), ("dominant", "7"), ("major-seventh", "maj7"), ("minor-seventh", "m7"), ("diminished-seventh", "dim7"), ("augmented-seventh", "aug7"), ("half-diminished", "m7b5"), ("major-minor", "m(maj7)"), ("major-sixth", "6"), ("minor-sixth", "m6"), ("dominant-ninth", "9"), ("major-ninth", "maj9"), ("minor-ninth", "m9"), ("dominant-11th", "11"), ("major-11th", "maj11"), ("minor-11th", "m11"), ("dominant-13th", "13"), ("major-13th", "maj13"), ("minor-13th", "m13"), ("suspended-second", "sus2"), ("suspended-fourth", "sus"), ("pedal", "ped"), ("power", "5"), ("none", "N.C."), ("dominant-seventh", "7"), ("augmented-ninth", "aug9"), ("minor-major", "m(maj7)"), ("", ""), ("min", "m"), ("aug", "aug"), ("dim", "dim"), ("7", "7"), ("maj7", "maj7"), ("min7", "m7"), ("dim7", "dim7"), ("m7b5", "m7b5"), ("minMaj7", "m(maj7)"), ("6", "6"), ("min6", "m6"), ("maj69", "6(add9)"), ("9", "9"), ("maj9", "maj9"), ("min9", "m9"), ("sus47", "sus7")]
/-- steps accepted by `Note.pitch_to_midi_pitch` with their pitch class -/
def stepTable : List (String × Int) := [("A", 9), ("B", 11), ("C", 0), ("D", 2), ("E", 4), ("F", 5), ("G", 7)]
/-- semitone counts accepted by `ChordSymbol._alter_to_string` with their spelling -/
def alterStrings : List (Int × String) := [((-2), "bb"), ((-1), "b"), (0, ""), (1, "#"), (2, "##")]
end NSV.C05.Gen
