import NoteSeqVerif.Common.Float
/-! GENERATED from /repo on every run by harness/c05.py through gen/translit2.py — do not edit.
Symbolic execution of the current Python source: `R` is applied after every float operation. -/
namespace NSV.C05.Gen2
open NSV
set_option linter.unusedVariables false

/-- symbolic execution of `note_seq.musicxml_parser._parse_backup` up to the first statement outside the arithmetic fragment: local `seconds` -/
def backup_seconds (R : Rat → Rat) (d : Int) (divisions : Int) (spq : Rat) : Rat :=
  (R ((R ((R (((d : Int) : Rat) * (R ((220 : Rat) / ((divisions : Int) : Rat))))) / (220 : Rat))) * spq))

/-- symbolic execution of `note_seq.musicxml_parser._parse_forward` up to the first statement outside the arithmetic fragment: local `seconds` -/
def forward_seconds (R : Rat → Rat) (d : Int) (divisions : Int) (spq : Rat) : Rat :=
  (R ((R ((R (((d : Int) : Rat) * (R ((220 : Rat) / ((divisions : Int) : Rat))))) / (220 : Rat))) * spq))

end NSV.C05.Gen2
