/-! GENERATED from /repo on every run by harness/c02.py — do not edit. -/
namespace NSV.C02.Gen
def PRESERVE : List Int := [64, 66, 67]
def CHORD_SYMBOL : Int := 1
def BEAT : Int := 2
def DEFAULT_QPM : Rat := (120 : Rat)
end NSV.C02.Gen
