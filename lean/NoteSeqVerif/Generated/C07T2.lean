import NoteSeqVerif.Common.Float
/-! GENERATED from /repo on every run by harness/c07.py through gen/translit2.py — do not edit.
Symbolic execution of the current Python source: `R` is applied after every float operation. -/
namespace NSV.C07.Gen2
open NSV
set_option linter.unusedVariables false

/-- symbolic execution of `note_seq.sequences_lib.steps_per_bar_in_quantized_sequence` -/
def steps_per_bar_in_quantized_sequence (R : Rat → Rat) (den : Int) (num : Int) (spq : Int) : Rat :=
  (R (((spq : Int) : Rat) * (R ((R ((4 : Rat) / ((den : Int) : Rat))) * ((num : Int) : Rat)))))

end NSV.C07.Gen2
