/-! GENERATED from /repo on every run by harness/c07.py — do not edit. -/
namespace NSV.C07.Gen
/-- `int(math.ceil(a / b))` for integers with `b > 0` (exact-arithmetic reading) -/
def pyCeilDiv (a b : Int) : Int := - Int.fdiv (-a) b

def velocityBinSize (num_velocity_bins : Int) : Int :=
  (pyCeilDiv (((127 : Int) - (1 : Int)) + (1 : Int)) num_velocity_bins)

def velocityToBin (velocity : Int) (num_velocity_bins : Int) : Int :=
  ((Int.fdiv (velocity - (1 : Int)) (velocityBinSize num_velocity_bins)) + (1 : Int))

def velocityBinToVelocity (velocity_bin : Int) (num_velocity_bins : Int) : Int :=
  ((1 : Int) + ((velocity_bin - (1 : Int)) * (velocityBinSize num_velocity_bins)))

def MIN_MIDI_PITCH : Int := 0
def MAX_MIDI_PITCH : Int := 127
def MAX_NUM_VELOCITY_BINS : Int := 127
def NOTE_ON : Nat := 1
def NOTE_OFF : Nat := 2
def TIME_SHIFT : Nat := 3
def VELOCITY : Nat := 4
def DURATION : Nat := 5
def MELODY_NOTE_OFF : Int := -1
def MELODY_NO_EVENT : Int := -2
def CHORD_SYMBOL : Int := 1
/-- `NO_CHORD`, hex-encoded as texts travel on the wire -/
def NO_CHORD : String := "x4e2e432e"
end NSV.C07.Gen
