/-! GENERATED from /repo on every run by harness/c17.py — do not edit. -/
namespace NSV.C17.Gen
def MELODY_NOTE_OFF : Int := (-1)
def MELODY_NO_EVENT : Int := (-2)
def MIN_MELODY_EVENT : Int := (-2)
def MAX_MELODY_EVENT : Int := 127
def MIN_MIDI_PITCH : Int := 0
def MAX_MIDI_PITCH : Int := 127
def DEFAULT_STEPS_PER_BAR : Int := 16
def DEFAULT_STEPS_PER_QUARTER : Int := 4
def NO_CHORD : String := "N.C."
def NOTE_ON : Nat := 1
def NOTE_OFF : Nat := 2
def TIME_SHIFT : Nat := 3
def VELOCITY : Nat := 4
def DURATION : Nat := 5
def MAX_NUM_VELOCITY_BINS : Int := 127
end NSV.C17.Gen
