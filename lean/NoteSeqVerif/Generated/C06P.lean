/-! GENERATED from /repo on every run by harness/c06_perf.py — do not edit. -/
namespace NSV.C06P.Gen
def STANDARD_PPQ : Int := 220
def DEFAULT_PROGRAM : Int := 0
def DEFAULT_VELOCITY : Int := 100
def DEFAULT_INSTRUMENT : Int := 0
def DEFAULT_MAX_SHIFT_STEPS : Int := 100
def DEFAULT_MAX_SHIFT_QUARTERS : Int := 4
def NOTEPERF_MAX_SHIFT_STEPS : Int := 1000
def NOTEPERF_MAX_DURATION_STEPS : Int := 1000
def METRIC_DEFAULT_QPM : Rat := (120 : Rat)
end NSV.C06P.Gen
