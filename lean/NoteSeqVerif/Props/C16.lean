import NoteSeqVerif.Proofs.C16
/-! C16 — decoding arbitrary bytes as MIDI fails only with MIDIConversionError, and what is
returned is well-formed.

The byte-level decoder (`pretty_midi.PrettyMIDI` on top of `mido`) is third-party: it is the
parameter `decodeCtor`.  The theorems are about note-seq's own code — the handler around the
constructor (its caught classes are regenerated from the source into `Gen.ctorTrys`) and the
code after it (`post`, whose `try` contexts are the regenerated `Gen.h_*`) — for EVERY object
the constructor can return that satisfies the explicit invariant `Inv`, and every exception it
can raise.  `Inv` is an assumption on third-party code; the harness evaluates it on every real
object the constructor returns (`invB`, proved equivalent below). -/
namespace NSV.C16
open NSV

/-! ## the handler around the constructor -/

/-- Whatever class the constructor raises (arbitrary name and MRO, so also `MemoryError`,
`KeyboardInterrupt`, …), the handler regenerated from the source turns it into
`MIDIConversionError` — provided building the handler's message does not itself raise.
Fails to check as soon as the bare `except:` is narrowed or removed. -/
theorem ctor_handler_catches_everything (ce : CtorErr) (h : ce.fmtRaises = none) :
    ctorRaise Gen.ctorTrys ce = mce :=
  ctor_handler_catches_all ce h

example : ctorRaise Gen.ctorTrys ⟨⟨"KeyboardInterrupt", ["KeyboardInterrupt", "BaseException", "object"]⟩, none⟩ = mce := by
  decide

/-- the `try` around the denominator assignment converts exactly the int32 overflow -/
theorem denominator_overflow_converted (t : PMTimeSig) (hn : inInt32 t.num = true)
    (hd : inInt32 t.den = false) : convTimeSig t = .error mce := by
  simp [convTimeSig, setInt32, hn, hd, den_handler_converts, bind, Except.bind]

/-! ## the code after the constructor -/

/-- `midi_post_total`: under `Inv` no statement after the constructor raises anything but
`MIDIConversionError`. -/
theorem midi_post_total {pm : PM} (h : Inv pm) {e : PyExc} (he : post pm = .error e) : e = mce := by
  rcases post_spec h with ⟨_, hs⟩ | ⟨_, _, l, _, ⟨_, hs⟩ | ⟨_, hs⟩⟩
  · rw [hs] at he; cases he; rfl
  · rw [hs] at he; cases he; rfl
  · rw [hs] at he; cases he

/-- under `Inv`, `post` rejects exactly: non-positive resolution (SMPTE division), a time
signature denominator outside int32 (e.g. `2^255`), a key number whose mode is neither 0 nor 1 -/
theorem midi_post_rejects_iff {pm : PM} (h : Inv pm) : post pm = .error mce ↔ Rejected pm := by
  rcases post_spec h with ⟨hr, hs⟩ | ⟨_, _, l, _, ⟨hr, hs⟩ | ⟨hr, hs⟩⟩
  · exact ⟨fun _ => .inl hr, fun _ => hs⟩
  · exact ⟨fun _ => hr, fun _ => hs⟩
  · exact ⟨fun he => (by rw [hs] at he; cases he), fun hr' => absurd hr' hr⟩

/-- … and otherwise returns exactly the PrettyMIDI object's contents, record by record, in order -/
theorem midi_post_returns {pm : PM} (h : Inv pm) (hr : ¬ Rejected pm) :
    ∃ l, pm.tempoChanges = .ok l ∧ post pm = .ok (postValue pm l) := by
  rcases post_spec h with ⟨hr', _⟩ | ⟨_, _, l, hl, ⟨hr', _⟩ | ⟨_, hs⟩⟩
  · exact absurd (.inl hr') hr
  · exact absurd hr' hr
  · exact ⟨l, hl, hs⟩

/-- the value returned is well-formed -/
theorem postValue_wf {pm : PM} (h : InvPos pm) {l : List (Rat × Rat)} (hl : pm.tempoChanges = .ok l) :
    WFmidi (postValue pm l) := by
  obtain ⟨l', hl', hpos⟩ := h.tempoOk
  rw [hl] at hl'; cases hl'
  have hends : ∀ e ∈ (taggedNotes (enumFrom 0 pm.instruments)).map (fun t => t.2.2.2.end_), (0 : Rat) ≤ e := by
    intro e he
    obtain ⟨t, ht, rfl⟩ := List.mem_map.1 he
    obtain ⟨p, hp, _, _, _, hn⟩ := mem_taggedNotes ht
    have := h.notes p.2 (idx_inInt32 h hp).2 _ hn
    grind
  have htot := (totalStep_fold _ 0 (by decide) hends).2
  constructor
  · intro n hn
    simp only [postValue, List.mem_map] at hn
    obtain ⟨t, ht, rfl⟩ := hn
    obtain ⟨p, hp, _, _, _, hn⟩ := mem_taggedNotes ht
    have hi := h.notes p.2 (idx_inInt32 h hp).2 _ hn
    have hle := htot _ (List.mem_map.2 ⟨t, ht, rfl⟩)
    simp only [noteOf, postValue]
    exact ⟨hi.2.2.2.2.1, hi.2.2.2.2.2, hle, hi.1, hi.2.1, hi.2.2.1, hi.2.2.2.1⟩
  · intro t ht
    simp only [postValue, List.mem_map] at ht
    obtain ⟨p, hp, rfl⟩ := ht
    exact hpos p hp
  · intro t ht
    simp only [postValue, List.mem_map] at ht
    obtain ⟨p, hp, rfl⟩ := ht
    exact h.tsTime p hp
  · intro t ht
    simp only [postValue, List.mem_map] at ht
    obtain ⟨p, hp, rfl⟩ := ht
    exact h.keyTime p hp
  · intro t ht
    simp only [postValue, List.mem_map] at ht
    obtain ⟨b, hb, rfl⟩ := ht
    obtain ⟨p, hp, _, _, _, hn⟩ := mem_taggedBends hb
    exact (h.bends p.2 (idx_inInt32 h hp).2 _ hn).2
  · intro t ht
    simp only [postValue, List.mem_map] at ht
    obtain ⟨c, hc, rfl⟩ := ht
    obtain ⟨p, hp, _, _, _, hn⟩ := mem_taggedCCs hc
    exact (h.ccs p.2 (idx_inInt32 h hp).2 _ hn).2.2

/-- whatever `post` returns under `Inv` is well-formed: every note has
`0 ≤ start ≤ end ≤ total_time`, pitch and velocity in 0..127, every event time is ≥ 0 -/
theorem midi_post_wf {pm : PM} (h : Inv pm) {s : MidiSeq} (hs : post pm = .ok s) : WFmidi s := by
  rcases post_spec h with ⟨_, he⟩ | ⟨_, hp, l, hl, ⟨_, he⟩ | ⟨_, hv⟩⟩
  · rw [he] at hs; cases hs
  · rw [he] at hs; cases hs
  · rw [hv] at hs; cases hs; exact postValue_wf hp hl

/-- a returned sequence has a positive `ticks_per_quarter` (the F-C16-1 guard), with or without `Inv` -/
theorem midi_post_ok_resolution_pos {pm : PM} {s : MidiSeq} (hs : post pm = .ok s) : 0 < pm.resolution := by
  by_cases hres : pm.resolution ≤ 0
  · unfold post at hs
    simp [(guard_iff _).2 hres, throw, throwThe, MonadExceptOf.throw, bind, Except.bind] at hs
  · omega

/-- `total_time` of the result is the largest note end (0 when there is no note) -/
theorem postValue_total_time {pm : PM} (h : InvPos pm) (l : List (Rat × Rat)) :
    let ends := (taggedNotes (enumFrom 0 pm.instruments)).map (fun t => t.2.2.2.end_)
    (∀ e ∈ ends, e ≤ (postValue pm l).seq.totalTime) ∧
    ((postValue pm l).seq.totalTime = 0 ∨ (postValue pm l).seq.totalTime ∈ ends) := by
  intro ends
  have hends : ∀ e ∈ ends, (0 : Rat) ≤ e := by
    intro e he
    obtain ⟨t, ht, rfl⟩ := List.mem_map.1 he
    obtain ⟨p, hp, _, _, _, hn⟩ := mem_taggedNotes ht
    have := h.notes p.2 (idx_inInt32 h hp).2 _ hn
    grind
  refine ⟨(totalStep_fold _ 0 (by decide) hends).2, ?_⟩
  have key : ∀ (l : List Rat) (acc : Rat), l.foldl totalStep acc = acc ∨ l.foldl totalStep acc ∈ l := by
    intro l
    induction l with
    | nil => intro acc; exact .inl rfl
    | cons x l ih =>
      intro acc
      simp only [List.foldl_cons]
      rcases ih (totalStep acc x) with h1 | h1
      · rw [h1]
        unfold totalStep
        split
        · exact .inr List.mem_cons_self
        · exact .inl rfl
      · exact .inr (List.mem_cons_of_mem _ h1)
  exact key ends 0

/-! ## the whole function -/

/-- `midi_errors_closed`: for every constructor behaviour and every byte string — if what the
constructor returns satisfies `Inv`, and building the handler's message does not raise — the
function either returns a well-formed sequence or raises `MIDIConversionError`; nothing else. -/
theorem midi_errors_closed (decodeCtor : Bytes → Except CtorErr PM) (b : Bytes)
    (hinv : ∀ pm, decodeCtor b = .ok pm → Inv pm)
    (hfmt : ∀ ce, decodeCtor b = .error ce → ce.fmtRaises = none) :
    (∃ s, midiToNoteSequence decodeCtor b = .ok s ∧ WFmidi s) ∨
    midiToNoteSequence decodeCtor b = .error mce := by
  unfold midiToNoteSequence
  cases hd : decodeCtor b with
  | error ce =>
    right
    simp only []
    rw [ctor_handler_catches_everything ce (hfmt ce hd)]
  | ok pm =>
    simp only []
    cases hp : post pm with
    | error e => right; rw [midi_post_total (hinv pm hd) hp]
    | ok s => left; exact ⟨s, rfl, midi_post_wf (hinv pm hd) hp⟩

/-- the same with the outcome spelled out: returned iff the constructor returned an object that is
not `Rejected` -/
theorem midi_returns_iff (decodeCtor : Bytes → Except CtorErr PM) (b : Bytes)
    (hinv : ∀ pm, decodeCtor b = .ok pm → Inv pm) :
    (∃ s, midiToNoteSequence decodeCtor b = .ok s) ↔ ∃ pm, decodeCtor b = .ok pm ∧ ¬ Rejected pm := by
  unfold midiToNoteSequence
  cases hd : decodeCtor b with
  | error ce => simp
  | ok pm =>
    simp only []
    rcases post_spec (hinv pm hd) with ⟨hr, hs⟩ | ⟨_, _, l, _, ⟨hr, hs⟩ | ⟨hr, hs⟩⟩
    · rw [hs]
      refine ⟨fun ⟨_, h⟩ => (by cases h), fun ⟨pm', hpm, hnr⟩ => ?_⟩
      cases hpm
      exact absurd (.inl hr) hnr
    · rw [hs]; simp [hr]
    · rw [hs]; simp [hr]

/-! ## the executable checks the driver / monitor run are the predicates of the theorems -/

theorem invPosB_iff (pm : PM) : invPosB pm = true ↔ InvPos pm := by
  constructor
  · intro h
    simp only [invPosB, Bool.and_eq_true, List.all_eq_true, decide_eq_true_eq] at h
    obtain ⟨⟨⟨⟨h2, h3⟩, h4⟩, h5⟩, h6⟩ := h
    refine ⟨fun t ht => (h2 t ht).1, fun t ht => (h2 t ht).2, h3, ?_, h5,
      fun i hi => (h6 i hi).1.1.1, fun i hi n hn => (h6 i hi).1.1.2 n hn,
      fun i hi b hb => (h6 i hi).1.2 b hb, fun i hi c hc => ?_⟩
    · cases ht : pm.tempoChanges with
      | error e => simp [ht] at h4
      | ok l =>
        simp only [ht, List.all_eq_true, decide_eq_true_eq] at h4
        exact ⟨l, rfl, h4⟩
    · have := (h6 i hi).2 c hc
      exact ⟨this.1.1, this.1.2, this.2⟩
  · intro h
    obtain ⟨l, hl, hpos⟩ := h.tempoOk
    simp only [invPosB, Bool.and_eq_true, List.all_eq_true, decide_eq_true_eq, hl]
    exact ⟨⟨⟨⟨fun t ht => ⟨h.tsNum t ht, h.tsTime t ht⟩, h.keyTime⟩, hpos⟩, h.nInst⟩,
      fun i hi => ⟨⟨⟨h.program i hi, h.notes i hi⟩, h.bends i hi⟩,
        fun c hc => ⟨⟨(h.ccs i hi c hc).1, (h.ccs i hi c hc).2.1⟩, (h.ccs i hi c hc).2.2⟩⟩⟩

/-- the Boolean the driver prints (and the harness recomputes on the real object) is `Inv` -/
theorem invB_iff (pm : PM) : invB pm = true ↔ Inv pm := by
  unfold invB Inv
  rw [Bool.and_eq_true, Bool.or_eq_true, ← invPosB_iff]
  constructor
  · rintro ⟨h1, h2⟩
    refine ⟨h1, fun hpos => ?_⟩
    rcases h2 with h2 | h2
    · simp [hpos] at h2
    · exact h2
  · rintro ⟨h1, h2⟩
    refine ⟨h1, ?_⟩
    by_cases hpos : 0 < pm.resolution
    · exact .inr (h2 hpos)
    · exact .inl (by simp [hpos])

theorem wfB_iff (s : MidiSeq) : wfB s = true ↔ WFmidi s := by
  simp only [wfB, Bool.and_eq_true, List.all_eq_true, decide_eq_true_eq]
  constructor
  · rintro ⟨⟨⟨⟨⟨h1, h2⟩, h3⟩, h4⟩, h5⟩, h6⟩
    exact ⟨h1, h2, h3, h4, h5, h6⟩
  · intro h
    exact ⟨⟨⟨⟨⟨h.notes, h.tempos⟩, h.timeSigs⟩, h.keySigs⟩, h.bends⟩, h.ccs⟩

/-! ## the model was transcribed from exactly this statement sequence -/

/-- the statements of `midi_to_note_sequence` the model above was transcribed from, in source
order.  `Gen.sourceOrder` is regenerated from the AST on every run: any statement added, removed,
moved (e.g. out of a `try`), or changed makes this theorem fail. -/
def transcribedFrom : List String := [
  "if isinstance(midi_data, pretty_midi.PrettyMIDI):",
  "midi = midi_data",
  "else:",
  "try:",
  "midi = pretty_midi.PrettyMIDI(io.BytesIO(midi_data))",
  "except:",
  "raise MIDIConversionError",
  "end",
  "end",
  "if midi.resolution <= 0:",
  "raise MIDIConversionError",
  "end",
  "sequence = music_pb2.NoteSequence()",
  "sequence.ticks_per_quarter = midi.resolution  # int32",
  "sequence.source_info.parser = music_pb2.NoteSequence.SourceInfo.PRETTY_MIDI  # enum",
  "sequence.source_info.encoding_type = music_pb2.NoteSequence.SourceInfo.MIDI  # enum",
  "for midi_time in midi.time_signature_changes:",
  "time_signature = sequence.time_signatures.add()",
  "time_signature.time = midi_time.time  # double",
  "time_signature.numerator = midi_time.numerator  # int32",
  "try:",
  "time_signature.denominator = midi_time.denominator  # int32",
  "except ValueError:",
  "raise MIDIConversionError",
  "end",
  "end",
  "for midi_key in midi.key_signature_changes:",
  "key_signature = sequence.key_signatures.add()",
  "key_signature.time = midi_key.time  # double",
  "key_signature.key = midi_key.key_number % 12  # enum",
  "midi_mode = midi_key.key_number // 12",
  "if midi_mode == 0:",
  "key_signature.mode = key_signature.MAJOR  # enum",
  "else:",
  "if midi_mode == 1:",
  "key_signature.mode = key_signature.MINOR  # enum",
  "else:",
  "raise MIDIConversionError",
  "end",
  "end",
  "end",
  "tempo_times, tempo_qpms = midi.get_tempo_changes()",
  "for (time_in_seconds, tempo_in_qpm) in zip(tempo_times, tempo_qpms):",
  "tempo = sequence.tempos.add()",
  "tempo.time = time_in_seconds  # double",
  "tempo.qpm = tempo_in_qpm  # double",
  "end",
  "midi_notes = []",
  "midi_pitch_bends = []",
  "midi_control_changes = []",
  "for (num_instrument, midi_instrument) in enumerate(midi.instruments):",
  "if midi_instrument.name:",
  "instrument_info = sequence.instrument_infos.add()",
  "instrument_info.name = midi_instrument.name  # string",
  "instrument_info.instrument = num_instrument  # int32",
  "end",
  "for midi_note in midi_instrument.notes:",
  "if not sequence.total_time or midi_note.end > sequence.total_time:",
  "sequence.total_time = midi_note.end  # double",
  "end",
  "midi_notes.append((midi_instrument.program, num_instrument, midi_instrument.is_drum, midi_note))",
  "end",
  "for midi_pitch_bend in midi_instrument.pitch_bends:",
  "midi_pitch_bends.append((midi_instrument.program, num_instrument, midi_instrument.is_drum, midi_pitch_bend))",
  "end",
  "for midi_control_change in midi_instrument.control_changes:",
  "midi_control_changes.append((midi_instrument.program, num_instrument, midi_instrument.is_drum, midi_control_change))",
  "end",
  "end",
  "for (program, instrument, is_drum, midi_note) in midi_notes:",
  "note = sequence.notes.add()",
  "note.instrument = instrument  # int32",
  "note.program = program  # int32",
  "note.start_time = midi_note.start  # double",
  "note.end_time = midi_note.end  # double",
  "note.pitch = midi_note.pitch  # int32",
  "note.velocity = midi_note.velocity  # int32",
  "note.is_drum = is_drum  # bool",
  "end",
  "for (program, instrument, is_drum, midi_pitch_bend) in midi_pitch_bends:",
  "pitch_bend = sequence.pitch_bends.add()",
  "pitch_bend.instrument = instrument  # int32",
  "pitch_bend.program = program  # int32",
  "pitch_bend.time = midi_pitch_bend.time  # double",
  "pitch_bend.bend = midi_pitch_bend.pitch  # int32",
  "pitch_bend.is_drum = is_drum  # bool",
  "end",
  "for (program, instrument, is_drum, midi_control_change) in midi_control_changes:",
  "control_change = sequence.control_changes.add()",
  "control_change.instrument = instrument  # int32",
  "control_change.program = program  # int32",
  "control_change.time = midi_control_change.time  # double",
  "control_change.control_number = midi_control_change.number  # int32",
  "control_change.control_value = midi_control_change.value  # int32",
  "control_change.is_drum = is_drum  # bool",
  "end",
  "return sequence"
]

theorem source_order_tied : Gen.sourceOrder = transcribedFrom := by decide +kernel

/-! ## non-vacuity: the hypotheses are satisfiable, every rejection class is inhabited, and the
clauses of `Inv` are needed -/

/-- an ordinary object: 2 instruments (one named, one drum kit), 3 notes, a bend, a pedal,
3/4 time, A minor, two tempi -/
def pmGood : PM :=
  { resolution := 480,
    timeSigs := [⟨3, 4, 0⟩],
    keys := [⟨21, 0⟩],
    tempoChanges := .ok [(0, 120), (3/2, 90)],
    instruments := [
      ⟨0, false, "Piano", [⟨100, 60, 0, 1/2⟩, ⟨90, 64, 1/2, 5/4⟩], [⟨-8192, 1/4⟩], [⟨64, 127, 0⟩]⟩,
      ⟨0, true, "", [⟨127, 36, 1, 9/8⟩], [], []⟩] }

example : Inv pmGood := (invB_iff _).1 (by decide +kernel)
example : ¬ Rejected pmGood := by
  have h : Inv pmGood := (invB_iff _).1 (by decide +kernel)
  intro hr
  have := (midi_post_rejects_iff h).2 hr
  revert this
  decide +kernel
example : post pmGood = .ok (postValue pmGood [(0, 120), (3/2, 90)]) := by decide +kernel
example : (postValue pmGood [(0, 120), (3/2, 90)]).seq.notes.length = 3 := by decide +kernel
example : (postValue pmGood [(0, 120), (3/2, 90)]).seq.totalTime = 5/4 := by decide +kernel
example : (postValue pmGood [(0, 120), (3/2, 90)]).seq.keySigs = [⟨0, 9, 1⟩] := by decide +kernel
example : (postValue pmGood [(0, 120), (3/2, 90)]).infos = [(0, "Piano")] := by decide +kernel
example : midiToNoteSequence (fun _ => .ok pmGood) [0x4d, 0x54] = post pmGood := rfl

/-- time signature x/2^255: the int32 overflow is converted -/
def pmDen : PM := { pmGood with timeSigs := [⟨4, 4, 0⟩, ⟨4, 2 ^ 255, 1⟩] }
example : Inv pmDen := (invB_iff _).1 (by decide +kernel)
example : post pmDen = .error mce := by decide +kernel

/-- SMPTE division 0x8000 read as −32768 ticks per beat, with the negative tempo time this gives
(F-C16-1): satisfies `Inv` (which claims nothing about times then) and is rejected -/
def pmSmpte : PM :=
  { resolution := -32768, timeSigs := [], keys := [], tempoChanges := .ok [(0, 120), (-203125/100000, 100)],
    instruments := [] }
example : Inv pmSmpte := (invB_iff _).1 (by decide +kernel)
example : post pmSmpte = .error mce := by decide +kernel

/-- a key number outside 0..23 (mode 2): rejected -/
example : post { pmGood with keys := [⟨24, 0⟩] } = .error mce := by decide +kernel
example : post { pmGood with keys := [⟨-1, 0⟩] } = .error mce := by decide +kernel

/-- the clauses of `Inv` are needed: a numerator outside int32 is NOT converted (that assignment
is outside the `try`) … -/
example : post { pmGood with timeSigs := [⟨2 ^ 31, 4, 0⟩] } = .error valueError := by decide +kernel
/-- … a failing `get_tempo_changes()` escapes as it is … -/
example : post { pmGood with tempoChanges := .error ⟨"IndexError", ["IndexError"]⟩ } =
    .error ⟨"IndexError", ["IndexError"]⟩ := by decide +kernel
/-- … and negative note times give an ill-formed result (`total_time` below a note end) -/
example : (post { pmGood with instruments := [⟨0, false, "", [⟨1, 1, 0, 0⟩, ⟨1, 1, -2, -1⟩], [], []⟩] }).toOption.map
    (fun s => wfB s) = some false := by decide +kernel

/-- a constructor that raises: converted whatever the class -/
example : midiToNoteSequence (fun _ => .error ⟨⟨"EOFError", ["EOFError", "Exception", "BaseException", "object"]⟩, none⟩) [] =
    .error mce := by decide +kernel

end NSV.C16
