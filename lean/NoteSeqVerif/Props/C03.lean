import NoteSeqVerif.Proofs.C03
import NoteSeqVerif.Proofs.C03Tick
import NoteSeqVerif.Proofs.C03Drop
import Mathlib.Tactic.Linarith
import Mathlib.Tactic.Ring
import Mathlib.Tactic.FieldSimp
import Mathlib.Data.Rat.Floor
/-! C03 — property theorems (NoteSequence → MIDI → NoteSequence).

What is proved is note-seq's own logic (`writePM` = note_sequence_to_pretty_midi, `readPM` =
midi_to_note_sequence on a PrettyMIDI object) and the arithmetic of the transcribed pretty_midi tick map.
The byte-level encode/decode (`PrettyMIDI.write` → mido → `PrettyMIDI(file)`) is NOT proved: it enters
`midi_groups_roundtrip` as the explicit contract `transportInsts τ` (arbitrary time map `τ`) and is
monitored end to end by the harness. -/
namespace NSV.C03
open NSV

/-- the structural facts of the source the model was written against, re-extracted from the AST of
`midi_io.py` on every run -/
theorem source_shape :
    Gen.TEMPO_LOOP_SORTED = true ∧ Gen.GROUP_LOOP_SORTED = true ∧
    Gen.GROUP_KEY_FIELDS = ["instrument", "program", "is_drum"] ∧ Gen.KEY_DECODE_MODULUS = 12 := by
  decide

/-! ## long files: the loader's tick guard -/

/-- `midi_io` raises pretty_midi's `MAX_TICK` (10^7 ticks = 35 minutes at 960 ticks per quarter and 300 qpm) at
import time; with the value in force (regenerated from the running package on every run) the limit lies above
pretty_midi's default, and every file whose last event lies up to 10^10 − 2 ticks in is accepted by the loader's guard:
the composed model then is writer → transport → reader with no further error case.  (Beyond 10^10 ticks — 24 days
at that resolution — the file that was just written is refused; the quantifier of C03 has no bound, the code has
this one.) -/
theorem midi_reader_accepts_long_files (R : Rat → Rat) (s : NoteSeq) (drop : Option Rat) (pm : PM)
    (h : writePM R s drop = .ok pm) (hl : lastWrittenTick R pm + 2 ≤ 10000000000) :
    (10000000 : Int) < Gen.MAX_TICK ∧ tickGuardOk (lastWrittenTick R pm) = true ∧
    roundTripExec R s drop = (match readPM R (transportExec R pm) with
      | .error _ => .error "MIDIConversionError"
      | .ok r => .ok r) := by
  have hM : (10000000000 : Int) ≤ Gen.MAX_TICK := by decide
  have hg : tickGuardOk (lastWrittenTick R pm) = true := by
    unfold tickGuardOk
    exact decide_eq_true (by omega)
  refine ⟨by omega, hg, ?_⟩
  unfold roundTripExec
  rw [h]
  simp only [hg, if_true]
  rfl

/-- non-vacuity: one note ending 2100.5 s in at 960 ticks per quarter and 300 qpm lies beyond pretty_midi's default
limit (tick 10 082 400 > 10^7) and within note-seq's -/
example : (match writePM id { notes := [{ (default : Note) with pitch := 60, velocity := 80, start := 2100, end_ := 4201/2 }],
                                tempos := [⟨0, 300⟩], tpq := 960 } none with
    | .ok pm => (lastWrittenTick id pm, tickGuardOk (lastWrittenTick id pm))
    | .error _ => (0, false)) = (10082400, true) := by
  decide +kernel

/-! ## grouping -/

/-- The writer's groups are exactly the fibres of `(instrument, program, is_drum)`, visited in strictly
increasing key order: a key is a group iff some note / kept bend / kept control change carries it; a note
lies in the group of key `k` iff `k` is its key (so every note is in exactly one group and two notes
share a group iff they share the key); the groups' notes (bends, controls) together are a rearrangement of
the sequence's notes (kept bends, kept controls): nothing dropped, nothing duplicated. -/
theorem midi_groups_partition (met : Option Rat) (s : NoteSeq) :
    KeySorted (groupKeys met s) ∧
    (∀ k, k ∈ groupKeys met s ↔ (∃ n ∈ s.notes, noteKey n = k) ∨ (∃ b ∈ keptBends met s, bendKey b = k) ∨
        (∃ c ∈ keptCCs met s, ccKey c = k)) ∧
    (∀ n ∈ s.notes, noteKey n ∈ groupKeys met s ∧ ∀ k, n ∈ groupNotes s k ↔ k = noteKey n) ∧
    (∀ n1 ∈ s.notes, ∀ n2 ∈ s.notes,
        (∃ k ∈ groupKeys met s, n1 ∈ groupNotes s k ∧ n2 ∈ groupNotes s k) ↔ noteKey n1 = noteKey n2) ∧
    ((groupKeys met s).flatMap (groupNotes s)).Perm s.notes ∧
    ((groupKeys met s).flatMap (groupBends met s)).Perm (keptBends met s) ∧
    ((groupKeys met s).flatMap (groupCCs met s)).Perm (keptCCs met s) := by
  have hs := sorted_sortedKeys (s.notes.map noteKey ++ (keptBends met s).map bendKey ++ (keptCCs met s).map ccKey)
  have hin : ∀ n ∈ s.notes, noteKey n ∈ groupKeys met s := fun n hn => mem_groupKeys.mpr (Or.inl ⟨n, hn, rfl⟩)
  have hmem : ∀ n ∈ s.notes, ∀ k, n ∈ groupNotes s k ↔ k = noteKey n := by
    intro n hn k
    simp only [groupNotes, List.mem_filter, decide_eq_true_eq, hn, true_and]
    exact eq_comm
  refine ⟨hs, fun k => mem_groupKeys, fun n hn => ⟨hin n hn, hmem n hn⟩, ?_, ?_, ?_, ?_⟩
  · intro n1 h1 n2 h2
    constructor
    · rintro ⟨k, _, a, b⟩
      rw [← (hmem n1 h1 k).mp a, ← (hmem n2 h2 k).mp b]
    · intro e
      exact ⟨noteKey n1, hin n1 h1, (hmem n1 h1 _).mpr rfl, (hmem n2 h2 _).mpr e⟩
  · exact perm_flatMap_fibres noteKey _ _ (KeySorted.nodup hs) hin
  · exact perm_flatMap_fibres bendKey _ _ (KeySorted.nodup hs)
      (fun b hb => mem_groupKeys.mpr (Or.inr (Or.inl ⟨b, hb, rfl⟩)))
  · exact perm_flatMap_fibres ccKey _ _ (KeySorted.nodup hs)
      (fun c hc => mem_groupKeys.mpr (Or.inr (Or.inr ⟨c, hc, rfl⟩)))

/-- Whenever the writer succeeds, the instrument list of the PrettyMIDI object is: one `Instrument` per group,
in key order, carrying the group's program, drum flag, notes, bends and controls (`mkInst`); the instrument
created before the loop is reused by the first group iff that group's instrument number is ≤ 0, otherwise it
stays in front, empty.  (Before the fix of F-C03-1 every group of instrument 0 landed in that one object.) -/
theorem midi_groups_written (R : Rat → Rat) (s : NoteSeq) (drop : Option Rat) (pm : PM)
    (h : writePM R s drop = .ok pm) :
    pm.insts = writtenInsts (mkInst (maxEventTime R s drop) s) placeholder (groupKeys (maxEventTime R s drop) s) :=
  instLoop_sorted _ _ _ (sorted_sortedKeys _) _ (writePM_insts h)

/-- non-vacuity: three groups on instrument number 0 are written to three instruments -/
example : (match writePM id { notes := [{ (default : Note) with instrument := 0, program := 5, end_ := 1 },
                                        { (default : Note) with instrument := 0, program := 0, end_ := 1 },
                                        { (default : Note) with instrument := 0, program := 0, isDrum := true, end_ := 1 }] } none with
    | .ok pm => pm.insts.map (fun i => (i.program, i.isDrum, i.notes.length))
    | .error _ => []) = [(0, false, 1), (0, true, 1), (5, false, 1)] := by
  decide +kernel

/-- Writer, then ANY transport that keeps the instruments with notes in order and maps every time through some
`τ` (the assumed, monitored contract of the byte-level encode/decode), then the reader's enumeration: there is
a renumbering `f` of the groups that have notes, injective on them, such that the notes read back are exactly
the original notes with instrument `f (instrument, program, is_drum)`, times through `τ`, and pitch, velocity,
program and drum flag unchanged — as a list in group order, hence as a rearrangement of all notes: no note
dropped, duplicated or moved to another program; two notes share an instrument afterwards iff they shared
instrument, program and drum flag before.  Control changes and pitch bends of the groups that have notes come
back the same way on the same renumbered instruments. -/
theorem midi_groups_roundtrip (R τ : Rat → Rat) (s : NoteSeq) (drop : Option Rat) (pm : PM)
    (h : writePM R s drop = .ok pm) :
    ∃ f : Key → Nat,
      (∀ k1 ∈ noteGroupKeys (maxEventTime R s drop) s, ∀ k2 ∈ noteGroupKeys (maxEventTime R s drop) s,
          f k1 = f k2 → k1 = k2) ∧
      (∀ n ∈ s.notes, noteKey n ∈ noteGroupKeys (maxEventTime R s drop) s) ∧
      readNotesFrom 0 (transportInsts τ pm.insts) =
        (noteGroupKeys (maxEventTime R s drop) s).flatMap (fun k => (groupNotes s k).map (rtNote τ (f k))) ∧
      (readNotesFrom 0 (transportInsts τ pm.insts)).Perm (s.notes.map (fun n => rtNote τ (f (noteKey n)) n)) ∧
      (readBendsFrom 0 (transportInsts τ pm.insts)).Perm
        (((keptBends (maxEventTime R s drop) s).filter
            (fun b => decide (bendKey b ∈ noteGroupKeys (maxEventTime R s drop) s))).map
          (fun b => rtBend τ (f (bendKey b)) b)) ∧
      (readCCsFrom 0 (transportInsts τ pm.insts)).Perm
        (((keptCCs (maxEventTime R s drop) s).filter
            (fun c => decide (ccKey c ∈ noteGroupKeys (maxEventTime R s drop) s))).map
          (fun c => rtCC τ (f (ccKey c)) c)) := by
  generalize hmet : maxEventTime R s drop = met
  have hw := midi_groups_written R s drop pm h
  rw [hmet] at hw
  have hs : KeySorted (groupKeys met s) := sorted_sortedKeys _
  have hnd : (noteGroupKeys met s).Nodup := (KeySorted.nodup hs).filter _
  obtain ⟨f, -, hinj, hn, hb, hc⟩ := read_enumeration (fun k => transportInst τ (mkInst met s k)) _ 0 hnd
  have hcover : ∀ n ∈ s.notes, noteKey n ∈ noteGroupKeys met s := by
    intro n hn
    refine List.mem_filter.mpr ⟨mem_groupKeys.mpr (Or.inl ⟨n, hn, rfl⟩), ?_⟩
    have : n ∈ groupNotes s (noteKey n) := by simp [groupNotes, hn]
    cases hg : groupNotes s (noteKey n) with
    | nil => rw [hg] at this; cases this
    | cons a t => simp [hasNotes, hg]
  have en : readNotesFrom 0 (transportInsts τ pm.insts) =
      (noteGroupKeys met s).flatMap (fun k => (groupNotes s k).map (rtNote τ (f k))) := by
    rw [hw, transportInsts_written]
    show readNotesFrom 0 ((noteGroupKeys met s).map _) = _
    rw [hn]
    apply flatMap_congr'
    intro k _
    simp only [transportInst, mkInst, List.map_map]
    apply List.map_congr_left
    intro n hn
    have hk : noteKey n = k := by simpa [groupNotes] using (List.mem_filter.mp hn).2
    subst hk
    simp [readNote, rtNote, toPMNote, noteKey]
  have eb : readBendsFrom 0 (transportInsts τ pm.insts) =
      (noteGroupKeys met s).flatMap (fun k => (groupBends met s k).map (rtBend τ (f k))) := by
    rw [hw, transportInsts_written]
    show readBendsFrom 0 ((noteGroupKeys met s).map _) = _
    rw [hb]
    apply flatMap_congr'
    intro k _
    simp only [transportInst, mkInst, List.map_map]
    apply List.map_congr_left
    intro n hn
    have hk : bendKey n = k := by simpa [groupBends] using (List.mem_filter.mp hn).2
    subst hk
    simp [readBend, rtBend, toPMBend, bendKey]
  have ec : readCCsFrom 0 (transportInsts τ pm.insts) =
      (noteGroupKeys met s).flatMap (fun k => (groupCCs met s k).map (rtCC τ (f k))) := by
    rw [hw, transportInsts_written]
    show readCCsFrom 0 ((noteGroupKeys met s).map _) = _
    rw [hc]
    apply flatMap_congr'
    intro k _
    simp only [transportInst, mkInst, List.map_map]
    apply List.map_congr_left
    intro n hn
    have hk : ccKey n = k := by simpa [groupCCs] using (List.mem_filter.mp hn).2
    subst hk
    simp [readCC, rtCC, toPMCC, ccKey]
  refine ⟨f, hinj, hcover, en, ?_, ?_, ?_⟩
  · rw [en]
    have := perm_fibres_map noteKey (noteGroupKeys met s) s.notes hnd (fun k n => rtNote τ (f k) n)
      (fun _ => true) (by intro a ha; simpa using hcover a ha)
    rw [List.filter_eq_self.mpr (fun _ _ => rfl)] at this
    exact this
  · rw [eb]
    exact perm_fibres_map bendKey (noteGroupKeys met s) (keptBends met s) hnd (fun k n => rtBend τ (f k) n) _
      (by intro a; simp)
  · rw [ec]
    exact perm_fibres_map ccKey (noteGroupKeys met s) (keptCCs met s) hnd (fun k n => rtCC τ (f k) n) _
      (by intro a _; simp)

/-! ## storage order -/

/-- The `_tick_scales` list the writer builds (PrettyMIDI constructor + tempo loop, any rounding `R`, any
`drop_events…` cut-off) from a list of tempos with pairwise distinct times is the same for every storage order
of that list — in particular it is the one built from the time-sorted list.  (Before the fix of F-C03-2 the loop
ran in storage order and this was false.) -/
theorem midi_tempo_map_order_independent (R : Rat → Rat) (res : Int) (met : Option Rat) (t1 t2 : List Tempo)
    (hp : t1.Perm t2) (hd : DistinctTimes t1) :
    tempoScales R res met t1 = tempoScales R res met t2 ∧
    tempoScales R res met t1 = tempoScales R res met (sortByRat (·.time) t1) := by
  have key : ∀ u : List Tempo, t1.Perm u → tempoScales R res met t1 = tempoScales R res met u := by
    intro u hu
    unfold tempoScales initialQpm
    rw [initialTempo_perm hu hd]
    have : tempoOrder t1 = tempoOrder u := by
      simp only [tempoOrder, Gen.TEMPO_LOOP_SORTED, if_true]
      exact sortByRat_time_perm hu hd
    rw [this]
  exact ⟨key t2 hp, key _ (List.mergeSort_perm t1 _).symm⟩

example : DistinctTimes [⟨0, 120⟩, ⟨2, 240⟩, ⟨1, 60⟩] ∧ [(⟨0, 120⟩ : Tempo), ⟨2, 240⟩, ⟨1, 60⟩].Perm [⟨2, 240⟩, ⟨1, 60⟩, ⟨0, 120⟩] := by
  refine ⟨by simp [DistinctTimes], ?_⟩
  decide

/-- Storage order of notes and tempos: if `s'` stores the same notes and the same tempos (distinct times) as `s`
in any other order, the default writer call builds the same tempo map, the same groups in the same order, and
every group holds the same notes up to their order (bends and controls are untouched). -/
theorem midi_write_order_independent (R : Rat → Rat) (s : NoteSeq) (notes' : List Note) (tempos' : List Tempo)
    (hn : notes'.Perm s.notes) (ht : tempos'.Perm s.tempos) (hd : DistinctTimes s.tempos) (res : Int) :
    tempoScales R res none tempos' = tempoScales R res none s.tempos ∧
    groupKeys none { s with notes := notes', tempos := tempos' } = groupKeys none s ∧
    ∀ k, (groupNotes { s with notes := notes', tempos := tempos' } k).Perm (groupNotes s k) ∧
      groupBends none { s with notes := notes', tempos := tempos' } k = groupBends none s k ∧
      groupCCs none { s with notes := notes', tempos := tempos' } k = groupCCs none s k := by
  refine ⟨((midi_tempo_map_order_independent R res none _ _ ht.symm hd).1).symm, ?_, ?_⟩
  · have h1 : KeySorted (groupKeys none { s with notes := notes', tempos := tempos' }) := sorted_sortedKeys _
    have h2 : KeySorted (groupKeys none s) := sorted_sortedKeys _
    apply KeySorted.ext h1 h2
    intro k
    have e1 := @mem_groupKeys none { s with notes := notes', tempos := tempos' } k
    have e2 := @mem_groupKeys none s k
    have : (∃ n ∈ notes', noteKey n = k) ↔ (∃ n ∈ s.notes, noteKey n = k) :=
      ⟨fun ⟨n, h, e⟩ => ⟨n, hn.subset h, e⟩, fun ⟨n, h, e⟩ => ⟨n, hn.symm.subset h, e⟩⟩
    rw [e1, e2]
    simp only [this]
    rfl
  · intro k
    exact ⟨hn.filter _, rfl, rfl⟩

/-! ## key signatures -/

/-- The 12 × {major, minor} key signatures survive `encodeKey` (writer: minor = key + offset) followed by
`decodeKey` (reader: `% 12`, `// 12`), and the written number is a valid pretty_midi key number. -/
theorem midi_key_roundtrip (key mode : Int) (hk : 0 ≤ key ∧ key < 12)
    (hm : mode = Gen.MODE_MAJOR ∨ mode = Gen.MODE_MINOR) :
    decodeKey (encodeKey key mode) = .ok (key, mode) ∧ 0 ≤ encodeKey key mode ∧ encodeKey key mode < 24 := by
  have : key = 0 ∨ key = 1 ∨ key = 2 ∨ key = 3 ∨ key = 4 ∨ key = 5 ∨ key = 6 ∨ key = 7 ∨ key = 8 ∨ key = 9 ∨
      key = 10 ∨ key = 11 := by omega
  rcases hm with rfl | rfl <;> rcases this with rfl | rfl | rfl | rfl | rfl | rfl | rfl | rfl | rfl | rfl | rfl | rfl <;>
    decide

/-- Documented loss (outside the quantifier): every mode other than MINOR is written exactly like MAJOR. -/
theorem midi_key_other_modes_major (key mode : Int) (hm : mode ≠ Gen.MODE_MINOR) :
    encodeKey key mode = encodeKey key Gen.MODE_MAJOR := by
  have h2 : Gen.MODE_MAJOR ≠ Gen.MODE_MINOR := by decide
  unfold encodeKey
  rw [if_neg hm, if_neg h2]

/-! ## tempo quantisation (exact arithmetic) -/

/-- In exact arithmetic a tempo of an integral number `us` of microseconds per quarter is written by
`PrettyMIDI.write`'s formula as exactly `us`, read back by `_load_tempo_changes` as the same tick scale, and
reported by `get_tempo_changes` as the same qpm.  (In floating point `write` can lose one microsecond — finding
F-C03-3 — which is why this is claimed for `R = id` only.) -/
theorem midi_tempo_quantisation (res us : Int) (hres : 0 < res) (hus : 0 < us) (c : Rat)
    (hc : scaleOfQpm id res (60000000 / (us : Rat)) = .ok c) :
    tempoMicros id res c = us ∧ scaleOfMicros id res us = c ∧ qpmOfScale id res c = 60000000 / (us : Rat) := by
  have hr : (0 : Rat) < (res : Rat) := by exact_mod_cast hres
  have hu : (0 : Rat) < (us : Rat) := by exact_mod_cast hus
  have hd : (0 : Rat) < (res : Rat) * (60000000 / (us : Rat)) := by positivity
  unfold scaleOfQpm at hc
  simp only [id] at hc
  rw [if_neg (ne_of_gt hd), if_neg (not_lt.mpr (le_of_lt hd))] at hc
  cases hc
  refine ⟨?_, ?_, ?_⟩
  · unfold tempoMicros
    simp only [id]
    have : (60000000 : Rat) / (60 / (60 / ((res : Rat) * (60000000 / (us : Rat))) * (res : Rat))) = (us : Rat) := by
      field_simp
    rw [this, truncR, if_pos (le_of_lt hu), Rat.floor_intCast]
  · unfold scaleOfMicros
    simp only [id]
    rw [mul_comm]
  · unfold qpmOfScale
    simp only [id]
    field_simp

example : scaleOfQpm id 480 (60000000 / ((701114 : Int) : Rat)) = .ok (701114 / 480000000) := by
  decide +kernel

/-! ## tick arithmetic (exact arithmetic, `R = id`)

`WF m`: positive tick scales, tempo ticks ≥ 0 and non-decreasing.  `M` is the last index of pretty_midi's
`__tick_to_time` array (any `M ≥` the last tempo tick; `write` uses exactly the last tempo tick). -/

/-- The `_tick_scales` list the writer builds from tempos with distinct times is sorted by tick (ticks ≥ 0,
non-decreasing) with positive scales — the precondition under which pretty_midi's tick map is monotone. -/
theorem midi_tempo_map_sorted (res : Int) (met : Option Rat) (tempos : List Tempo) (hd : DistinctTimes tempos)
    (m : TickMap) (h : tempoScales id res met tempos = .ok m) : WF m := by
  unfold tempoScales at h
  split at h
  · cases h
  · rename_i c0 hc0
    have hs : (tempoOrder tempos).Pairwise (fun a b => a.time < b.time) := by
      simp only [tempoOrder, Gen.TEMPO_LOOP_SORTED, if_true]
      exact sortByRat_time_strict hd
    refine tempoFold_wf res _ met _ ⟨c0, []⟩ m hs ⟨⟨scaleOfQpm_pos hc0, by simp, trivial⟩, ?_⟩ h
    intro t _
    left
    rfl

/-- "Every time within one MIDI tick": the tick chosen for a time `t ≥ 0` is a tick `k ≥ 0` whose time differs
from `t` by at most half the longest tick of the map. -/
theorem midi_tick_roundtrip (m : TickMap) (hw : WF m) (M : Int) (hM : maxScaleTick m ≤ M) (t : Rat) (ht : 0 ≤ t) :
    0 ≤ timeToTick id m M t ∧ |tickToTime id m (timeToTick id m M t) - t| ≤ maxScale m / 2 :=
  ⟨(timeToTick_near m hw M hM t).1, near_bound m hw (timeToTick_near m hw M hM t) ht⟩

/-- `time_to_tick` is monotone (no two events are reordered) and `tick_to_time` is strictly increasing. -/
theorem midi_time_to_tick_mono (m : TickMap) (hw : WF m) (M : Int) (hM : maxScaleTick m ≤ M) :
    (∀ t t' : Rat, t ≤ t' → timeToTick id m M t ≤ timeToTick id m M t') ∧
    (∀ j k : Int, 0 ≤ j → j < k → tickToTime id m j < tickToTime id m k) := by
  refine ⟨?_, fun j k hj hjk => arr_strictMono m hw hj hjk⟩
  intro t t' h
  rcases lt_or_eq_of_le h with h | h
  · exact near_mono m hw (timeToTick_near m hw M hM t) (timeToTick_near m hw M hM t') h
  · rw [h]

/-- A time that already lies on the tick grid is kept exactly (the round trip is idempotent). -/
theorem midi_tick_grid_fixed (m : TickMap) (hw : WF m) (M : Int) (hM : maxScaleTick m ≤ M) (k : Int) (hk : 0 ≤ k) :
    timeToTick id m M (tickToTime id m k) = k := by
  obtain ⟨h0, h1, h2⟩ := timeToTick_near m hw M hM (tickToTime id m k)
  generalize timeToTick id m M (tickToTime id m k) = k' at *
  by_contra hne
  rcases Int.lt_or_gt_of_ne hne with hlt | hgt
  · have a := mid_mono m hw h0 (show k' ≤ k - 1 by omega)
    have b := mid_lt_arr m hw (show 0 ≤ k - 1 by omega)
    rw [show k - 1 + 1 = k by ring] at b
    linarith
  · rcases h1 with e | h1
    · omega
    · have a := mid_mono m hw hk (show k ≤ k' - 1 by omega)
      have b := arr_lt_mid m hw hk
      linarith

/-- A note at least two (longest) ticks long keeps a positive length: its end is written to a strictly later
tick than its start and read back at a strictly later time. -/
theorem midi_note_keeps_length (m : TickMap) (hw : WF m) (M : Int) (hM : maxScaleTick m ≤ M) (a b : Rat)
    (ha : 0 ≤ a) (hab : 2 * maxScale m ≤ b - a) :
    timeToTick id m M a < timeToTick id m M b ∧
    tickToTime id m (timeToTick id m M a) < tickToTime id m (timeToTick id m M b) := by
  have hmax : 0 < maxScale m := lt_of_lt_of_le (step_pos m hw 0) (step_le m hw 0)
  obtain ⟨a0, a1⟩ := midi_tick_roundtrip m hw M hM a ha
  obtain ⟨b0, b1⟩ := midi_tick_roundtrip m hw M hM b (by linarith)
  rw [abs_le] at a1 b1
  have hlt : tickToTime id m (timeToTick id m M a) < tickToTime id m (timeToTick id m M b) := by linarith
  refine ⟨?_, hlt⟩
  by_contra hge
  have := arr_mono m hw b0 (show timeToTick id m M b ≤ timeToTick id m M a by omega)
  linarith

/-- non-vacuity of `midi_note_keeps_length`: the longest tick of this map is 1/440 s; a note from 0.999 s to
1.004 s (two longest ticks = 0.004545… s) spans the tempo change -/
example : maxScale ⟨1/440, [(440, 1/880)]⟩ = 1/440 ∧ (2 : Rat) * (1/440) ≤ 1004/1000 - 999/1000 ∧
    timeToTick id ⟨1/440, [(440, 1/880)]⟩ 440 (999/1000) = 440 ∧
    timeToTick id ⟨1/440, [(440, 1/880)]⟩ 440 (1004/1000) = 444 := by
  refine ⟨by decide +kernel, by norm_num, by decide +kernel, by decide +kernel⟩

/-- non-vacuity: 120 qpm then 240 qpm from tick 440 at resolution 220; 1.2 s is written to tick 616 -/
example : WF ⟨1/440, [(440, 1/880)]⟩ ∧ maxScaleTick ⟨1/440, [(440, 1/880)]⟩ = 440 ∧
    timeToTick id ⟨1/440, [(440, 1/880)]⟩ 440 (6/5) = 616 ∧ tickToTime id ⟨1/440, [(440, 1/880)]⟩ 616 = 6/5 ∧
    tempoFold id 220 (some ⟨0, 120⟩) none ⟨1/440, []⟩ [⟨0, 120⟩, ⟨1, 240⟩] = .ok ⟨1/440, [(440, 1/880)]⟩ := by
  refine ⟨⟨by norm_num, by simp, by simp [SortedFrom]⟩, by decide +kernel, by decide +kernel, by decide +kernel,
    by decide +kernel⟩

/-! ## the writer accepts every sequence of the quantifier (exact arithmetic) -/

/-- what the quantifier of C03 demands of a sequence, as far as the writer can object -/
structure Representable (s : NoteSeq) : Prop where
  tpq : 0 ≤ s.tpq
  tempos : ∀ t ∈ s.tempos, 0 < t.qpm
  timeSigs : ∀ t ∈ s.timeSigs, 0 < t.num ∧ 0 < t.den ∧ 0 ≤ t.time
  keySigs : ∀ k ∈ s.keySigs, 0 ≤ k.key ∧ k.key < 12 ∧ (k.mode = Gen.MODE_MAJOR ∨ k.mode = Gen.MODE_MINOR) ∧ 0 ≤ k.time
  notes : ∀ n ∈ s.notes, n.start ≤ n.end_ ∧ (n.isDrum = true ∨ (0 ≤ n.program ∧ n.program ≤ 127))
  bends : ∀ b ∈ s.bends, b.isDrum = true ∨ (0 ≤ b.program ∧ b.program ≤ 127)
  ccs : ∀ c ∈ s.ccs, c.isDrum = true ∨ (0 ≤ c.program ∧ c.program ≤ 127)

theorem writeTimeSigs_ok (met : Option Rat) (l : List TimeSig)
    (h : ∀ t ∈ l, 0 < t.num ∧ 0 < t.den ∧ 0 ≤ t.time) : ∃ r, writeTimeSigs met l = .ok r := by
  induction l with
  | nil => exact ⟨[], rfl⟩
  | cons t r ih =>
    obtain ⟨r', hr'⟩ := ih (fun x hx => h x (List.mem_cons_of_mem _ hx))
    obtain ⟨h1, h2, h3⟩ := h t (by simp)
    unfold writeTimeSigs
    split
    · exact ⟨r', hr'⟩
    · rw [if_neg (by intro hc; rcases hc with hc | hc | hc <;> [omega; omega; exact absurd h3 (not_le.mpr hc)]), hr']
      exact ⟨_, rfl⟩

theorem writeKeySigs_ok (met : Option Rat) (l : List KeySig)
    (h : ∀ k ∈ l, 0 ≤ k.key ∧ k.key < 12 ∧ (k.mode = Gen.MODE_MAJOR ∨ k.mode = Gen.MODE_MINOR) ∧ 0 ≤ k.time) :
    ∃ r, writeKeySigs met l = .ok r := by
  induction l with
  | nil => exact ⟨[], rfl⟩
  | cons k r ih =>
    obtain ⟨r', hr'⟩ := ih (fun x hx => h x (List.mem_cons_of_mem _ hx))
    obtain ⟨h1, h2, h3, h4⟩ := h k (by simp)
    obtain ⟨_, b1, b2⟩ := midi_key_roundtrip k.key k.mode ⟨h1, h2⟩ h3
    unfold writeKeySigs
    split
    · exact ⟨r', hr'⟩
    · simp only
      rw [if_neg (by intro hc; rcases hc with hc | hc | hc <;> [omega; omega; exact absurd h4 (not_le.mpr hc)]), hr']
      exact ⟨_, rfl⟩

theorem scaleOfQpm_ok (res : Int) (q : Rat) (hres : 0 < res) (hq : 0 < q) : ∃ c, scaleOfQpm id res q = .ok c := by
  have hr : (0 : Rat) < (res : Rat) := by exact_mod_cast hres
  have hd : (0 : Rat) < (res : Rat) * q := by positivity
  unfold scaleOfQpm
  simp only [id]
  rw [if_neg (ne_of_gt hd), if_neg (not_lt.mpr (le_of_lt hd))]
  exact ⟨_, rfl⟩

theorem tempoFold_ok (res : Int) (init : Option Tempo) (met : Option Rat) (l : List Tempo) (acc : TickMap)
    (hres : 0 < res) (h : ∀ t ∈ l, 0 < t.qpm) : ∃ m, tempoFold id res init met acc l = .ok m := by
  induction l generalizing acc with
  | nil => exact ⟨acc, rfl⟩
  | cons t r ih =>
    have hr := fun x hx => h x (List.mem_cons_of_mem _ hx)
    obtain ⟨c, hc⟩ := scaleOfQpm_ok res t.qpm hres (h t (by simp))
    have hstep : ∃ acc', tempoStep id res init met acc t = .ok acc' := by
      unfold tempoStep
      split
      · exact ⟨_, rfl⟩
      · split
        · exact ⟨_, rfl⟩
        · rw [hc]
          exact ⟨_, rfl⟩
    obtain ⟨acc', ha⟩ := hstep
    simp only [tempoFold]
    rw [ha]
    exact ih acc' hr

theorem instLoop_ok (mk : Key → PMInst) (used : Bool) (first : PMInst) (others : List PMInst) (ks : List Key)
    (h : ∀ k ∈ ks, k.2.2 = true ∨ (0 ≤ k.2.1 ∧ k.2.1 ≤ 127)) : ∃ r, instLoop mk used first others ks = .ok r := by
  induction ks generalizing used first others with
  | nil => exact ⟨_, rfl⟩
  | cons k r ih =>
    have hr := fun x hx => h x (List.mem_cons_of_mem _ hx)
    unfold instLoop
    split
    · rw [if_neg (by
        intro hc
        rcases h k (by simp) with hd | hp
        · exact hc.1 hd
        · omega)]
      exact ih _ _ _ hr
    · exact ih _ _ _ hr

/-- Exact arithmetic: the default writer call raises on no sequence of the quantifier (positive tempos, valid
time / key signatures, notes not reversed, programs 0..127 or drums) — it returns a PrettyMIDI object, to which
all the theorems above apply. -/
theorem midi_write_ok (s : NoteSeq) (h : Representable s) : ∃ pm, writePM id s none = .ok pm := by
  have hres : 0 < (if s.tpq ≠ 0 then s.tpq else Gen.STANDARD_PPQ) := by
    split
    · have := h.tpq; omega
    · decide
  have hq0 : 0 < initialQpm s.tempos := by
    unfold initialQpm
    cases hi : initialTempo s.tempos with
    | none => simp only; decide +kernel
    | some t => exact h.tempos t (initialTempo_mem hi).1
  obtain ⟨c0, hc0⟩ := scaleOfQpm_ok _ _ hres hq0
  obtain ⟨ts, hts⟩ := writeTimeSigs_ok none s.timeSigs h.timeSigs
  obtain ⟨ks, hks⟩ := writeKeySigs_ok none s.keySigs h.keySigs
  have hto : ∀ t ∈ tempoOrder s.tempos, 0 < t.qpm := by
    intro t ht
    apply h.tempos
    simp only [tempoOrder, Gen.TEMPO_LOOP_SORTED, if_true, sortByRat] at ht
    exact (List.mergeSort_perm _ _).subset ht
  obtain ⟨m, hm⟩ := tempoFold_ok _ (initialTempo s.tempos) none (tempoOrder s.tempos) ⟨c0, []⟩ hres hto
  obtain ⟨insts, hi⟩ := instLoop_ok (mkInst none s) false placeholder [] (groupKeys none s) (by
    intro k hk
    rcases mem_groupKeys.mp hk with ⟨n, hn, e⟩ | ⟨b, hb, e⟩ | ⟨c, hc, e⟩
    · subst e; exact (h.notes n hn).2
    · subst e; exact h.bends b (List.mem_filter.mp hb).1
    · subst e; exact h.ccs c (List.mem_filter.mp hc).1)
  have hany : (s.notes.any fun n => decide (n.end_ < n.start)) = false := by
    rw [List.any_eq_false]
    intro n hn
    simpa using (h.notes n hn).1
  unfold writePM
  simp only [maxEventTime]
  rw [hc0]
  simp only
  rw [hts]
  simp only
  rw [hks]
  simp only
  rw [hm]
  simp only
  rw [hany]
  simp only [Bool.false_eq_true, if_false]
  rw [hi]
  exact ⟨_, rfl⟩

example : Representable { notes := [{ (default : Note) with pitch := 60, velocity := 100, end_ := 1, program := 5 }],
                          tempos := [⟨0, 90⟩], keySigs := [⟨0, 9, 1⟩], timeSigs := [⟨0, 6, 8⟩], tpq := 480 } := by
  refine ⟨by decide, ?_, ?_, ?_, ?_, by simp, by simp⟩ <;> simp <;> decide +kernel

/-! ## `drop_events_n_seconds_after_last_note`: the cut-off is `end of the note that ends last + n`

(`maxEnd_ge` / `maxEnd_mem` in Proofs/C03Drop: `maxEnd` is an upper bound of every note's end and is attained.) -/

/-- **The drop cut-off is a function of the notes' end times and of the parameter, of nothing else**: two sequences
with the same notes have the same cut-off, whatever their `total_time` (unset, stale, too large) or any other field. -/
theorem midi_drop_cutoff_from_notes_only (R : Rat → Rat) (s s' : NoteSeq) (drop : Option Rat)
    (h : s'.notes = s.notes) : maxEventTime R s' drop = maxEventTime R s drop := by
  cases drop <;> simp [maxEventTime, h]

/-- `total_time` (and the quantisation / subsequence metadata) never enters what the writer builds. -/
theorem midi_write_ignores_total_time (R : Rat → Rat) (s : NoteSeq) (tt : Rat) (drop : Option Rat) :
    writePM R { s with totalTime := tt } drop = writePM R s drop := rfl

/-- parameter not given: nothing is dropped. -/
theorem midi_drop_none (R : Rat → Rat) (s : NoteSeq) :
    (∀ t, dropped (maxEventTime R s none) t = false) ∧
    keptBends (maxEventTime R s none) s = s.bends ∧ keptCCs (maxEventTime R s none) s = s.ccs := by
  refine ⟨fun t => rfl, ?_, ?_⟩ <;> simp [keptBends, keptCCs, maxEventTime, dropped]

/-- exact arithmetic: an event is dropped iff it lies STRICTLY more than `d` seconds after the end of the note that
ends last (and the cut-off is not 0.0, which Python treats as `no cut-off`). -/
theorem midi_drop_exact (s : NoteSeq) (d t : Rat) :
    dropped (maxEventTime id s (some d)) t = true ↔ (maxEnd s.notes + d ≠ 0 ∧ maxEnd s.notes + d < t) := by
  simp [dropped, maxEventTime]

/-- floats (any monotone rounding that leaves the double `maxEnd` alone): with `d ≥ 0` nothing at or before the end
of the last note is ever dropped - in particular no event of a sequence whose events all lie within its notes,
whatever `total_time` says. -/
theorem midi_drop_keeps_events_within_notes (R : Rat → Rat) (hmono : ∀ a b, a ≤ b → R a ≤ R b)
    (s : NoteSeq) (d : Rat) (hd : 0 ≤ d) (hfix : R (maxEnd s.notes) = maxEnd s.notes)
    (t : Rat) (ht : t ≤ maxEnd s.notes) : dropped (maxEventTime R s (some d)) t = false := by
  have h1 : maxEnd s.notes ≤ R (maxEnd s.notes + d) := by
    have := hmono (maxEnd s.notes) (maxEnd s.notes + d) (by linarith)
    rwa [hfix] at this
  simp only [dropped, maxEventTime, Bool.and_eq_false_imp, ne_eq, decide_eq_false_iff_not, not_lt]
  intro _
  exact le_trans ht h1

/-- floats: an event later than the rounded cut-off is dropped (cut-off non-zero), one at or before it is kept. -/
theorem midi_drop_float (R : Rat → Rat) (s : NoteSeq) (d t : Rat) :
    dropped (maxEventTime R s (some d)) t = true ↔ (R (maxEnd s.notes + d) ≠ 0 ∧ R (maxEnd s.notes + d) < t) := by
  simp [dropped, maxEventTime]

example : maxEnd [{ (default : Note) with end_ := 10 }, { (default : Note) with end_ := 3 }] = 10 ∧
    dropped (maxEventTime id { notes := [{ (default : Note) with end_ := 10 }], totalTime := 0 } (some 1)) 8 = false ∧
    dropped (maxEventTime id { notes := [{ (default : Note) with end_ := 10 }], totalTime := 30 } (some 1)) 12 = true ∧
    dropped (maxEventTime id { notes := [{ (default : Note) with end_ := 10 }], totalTime := 30 } (some 1)) 11 = false := by
  decide +kernel

end NSV.C03
