import NoteSeqVerif.Proofs.C20
import NoteSeqVerif.Proofs.C20_pcm_all
/-! C20 — property theorems only, part 1: int16 ↔ float32 and the WAV round trip
(part 2, crop / repeat / stereo, is `Props/C20.lean` and does not depend on this file).
`Gen.toFloatDiv` / `Gen.toIntMul` are regenerated from `note_seq/audio_io.py` on every run, so a
changed scale constant changes the statement that the 16 chunk modules decide. -/
namespace NSV.C20

/-! ## 16-bit PCM → float32 → 16-bit PCM is the identity on all 65 536 values -/

/-- **pcm_roundtrip**: `float_samples_to_int16 (int16_samples_to_float32 [k]) = [k]` for every
int16 value `k` — float32 division and multiplication by `rne24`, `astype(int16)` by truncation. -/
theorem pcm_roundtrip (k : Int) (h1 : -32768 ≤ k) (h2 : k ≤ 32767) :
    floatToInt16 24 (int16ToFloat k) = some k := by
  have h := pcmOk_all k h1 h2
  unfold pcmOk at h
  have hv : truncR (rne 24 (int16ToFloat k * rne 24 (Gen.toIntMul : Rat))) = k := by
    rw [toIntMul_exact]; exact eq_of_beq h
  unfold floatToInt16
  simp only [hv]
  simp [h1, h2]

/-- the same fact as one formula: `trunc (rne24 (rne24 (k / d) · m)) = k` with `d`, `m` the scale
constants read from the source (both 32767 today) -/
theorem pcm_roundtrip_formula (k : Int) (h1 : -32768 ≤ k) (h2 : k ≤ 32767) :
    truncR (rne24 (rne24 ((k : Rat) / (Gen.toFloatDiv : Rat)) * (Gen.toIntMul : Rat))) = k := by
  have h := pcmOk_all k h1 h2
  unfold pcmOk at h
  exact eq_of_beq h

/-- consequently the int16 → float32 map is injective on int16 -/
theorem int16ToFloat_injective (j k : Int) (hj : -32768 ≤ j ∧ j ≤ 32767) (hk : -32768 ≤ k ∧ k ≤ 32767)
    (h : int16ToFloat j = int16ToFloat k) : j = k := by
  have a := pcm_roundtrip j hj.1 hj.2
  have b := pcm_roundtrip k hk.1 hk.2
  rw [h, b] at a
  exact (Option.some.inj a).symm

/-- array level, with the dtype checks of both helpers: any int16 array, any length -/
theorem pcm_roundtrip_list (ks : List Int) (h : ∀ k ∈ ks, -32768 ≤ k ∧ k ≤ 32767) :
    ∃ fs, int16SamplesToFloat32 .int16 ks = .ok fs ∧
      floatSamplesToInt16 .float32 fs = .ok (ks.map some) := by
  refine ⟨ks.map int16ToFloat, by simp [int16SamplesToFloat32], ?_⟩
  simp only [floatSamplesToInt16, Dtype.prec, List.map_map]
  congr 1
  apply List.map_congr_left
  intro k hk
  exact pcm_roundtrip k (h k hk).1 (h k hk).2

example : floatToInt16 24 (int16ToFloat (-12345)) = some (-12345) := pcm_roundtrip _ (by omega) (by omega)
example : int16ToFloat 1 ≠ 1 / 32767 := by decide +kernel   -- the float32 quotient is genuinely rounded

/-- dtype errors of the two helpers -/
theorem int16_to_float_rejects (dt : Dtype) (ys : List Int) (h : dt ≠ .int16) :
    int16SamplesToFloat32 dt ys = .error "ValueError" := by
  simp [int16SamplesToFloat32, h]

theorem float_to_int16_rejects (dt : Dtype) (ys : List Rat) (h : dt.prec = none) :
    floatSamplesToInt16 dt ys = .error "ValueError" := by
  simp [floatSamplesToInt16, h]

example : Dtype.int16.prec = none ∧ Dtype.float32 ≠ Dtype.int16 := by decide

/-! ## WAV encode → decode at the same rate (codec = identity on int16 arrays: monitored, not proved) -/

/-- `samples_to_wav_data` hands the codec exactly the int16 array `ks`, and `wav_data_to_samples`
turns that array back into exactly the float32 samples it came from -/
theorem wav_roundtrip (ks : List Int) (h : ∀ k ∈ ks, -32768 ≤ k ∧ k ≤ 32767) :
    floatSamplesToInt16 .float32 (ks.map int16ToFloat) = .ok (ks.map some) ∧
    wavDataToSamples (.ints .int16 ks) = .ok (ks.map int16ToFloat) ∧
    wavRoundTrip .float32 (ks.map int16ToFloat) = .ok ((ks.map int16ToFloat).map some) := by
  obtain ⟨fs, h1, h2⟩ := pcm_roundtrip_list ks h
  have e : fs = ks.map int16ToFloat := by
    simp [int16SamplesToFloat32] at h1; exact h1.symm
  subst e
  refine ⟨h2, by simp [wavDataToSamples, int16SamplesToFloat32], ?_⟩
  simp [wavRoundTrip, h2, List.map_map, Function.comp_def]

example : wavRoundTrip .float32 ([0, -32768, 32767, 1].map int16ToFloat) =
    .ok (([0, -32768, 32767, 1].map int16ToFloat).map some) :=
  (wav_roundtrip _ (by decide)).2.2

end NSV.C20
