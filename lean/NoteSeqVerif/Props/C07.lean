import NoteSeqVerif.Proofs.C07
/-! C07 — property theorems (DESIGN 6.7) and non-vacuity examples.
Models: `Model/C07.lean`; specification vocabulary: `Proofs/C07Spec.lean`; helper lemmas: `Proofs/C07.lean`. -/
namespace NSV.C07

/-! ## PianorollSequence -/

/-- `pianoroll_frames`: for `0 < spq`, `start_step ≤ total_quantized_steps`, a non-negative pitch range and notes that
do not end before they start nor start beyond the total, extraction returns exactly the frames of the statement:
`total − start` frames, frame `f` = the increasing list of pitch offsets `p` with `rollSpec … f p` (`rollSpec_iff`).
No overlap precondition is needed: painting in start order makes the silenced frame before a re-strike win. -/
theorem pianoroll_frames (s : NoteSeq) (startStep minP maxP : Int) (split : Bool)
    (hq : 0 < s.spq) (hT : startStep ≤ s.totalQSteps) (hW : minP ≤ maxP + 1)
    (hwf : ∀ n ∈ s.notes, n.qs ≤ n.qe ∧ n.qs ≤ s.totalQSteps) :
    pianorollFromQuantized s startStep minP maxP split =
      .ok (specFrames s.notes ⟨startStep, minP, maxP, split, s.totalQSteps - startStep⟩) := by
  have hperm : (sortByInt (·.qs) s.notes).Perm s.notes := List.mergeSort_perm _ _
  have hnoerr : (sortByInt (·.qs) s.notes).any
      (rollIndexErr ⟨startStep, minP, maxP, split, s.totalQSteps - startStep⟩) = false := by
    rw [hperm.any_eq, Bool.eq_false_iff]; intro h
    rw [List.any_eq_true] at h
    obtain ⟨n, hn, he⟩ := h
    have := hwf n hn
    simp only [rollIndexErr, rollSel, Bool.and_eq_true, decide_eq_true_eq] at he
    omega
  unfold pianorollFromQuantized
  simp only [hq, not_true_eq_false, ↓reduceIte, hnoerr]
  rw [if_neg (by omega)]
  simp only [Bool.false_eq_true, ↓reduceIte, rollFrames, specFrames]
  congr 1
  apply List.map_congr_left
  intro f hf
  congr 1
  apply List.filter_congr
  intro p hp
  rw [List.mem_range] at hf hp
  rw [paint_foldl _ _ _ _ (sortByInt_pairwise _ _), hperm.any_eq, hperm.any_eq]
  simp only [Bool.false_or, rollSpec]
  have h1 : (s.notes.any fun n => rollSel ⟨startStep, minP, maxP, split, s.totalQSteps - startStep⟩ n &&
        rollCovers ⟨startStep, minP, maxP, split, s.totalQSteps - startStep⟩ n f p) =
      (s.notes.any fun n => rollSel ⟨startStep, minP, maxP, split, s.totalQSteps - startStep⟩ n &&
        decide (n.qs ≤ (f : Int) + startStep) && decide ((f : Int) + startStep < n.qe) && n.pitch == (p : Int) + minP) := by
    apply any_congr_mem
    intro n hn
    have := hwf n hn
    by_cases hsel : rollSel ⟨startStep, minP, maxP, split, s.totalQSteps - startStep⟩ n = true
    · have hsel' := hsel
      simp only [rollSel, Bool.and_eq_true, decide_eq_true_eq] at hsel'
      simp only [hsel, Bool.true_and, rollCovers, normIdx]
      rw [Bool.eq_iff_iff]
      simp only [Bool.and_eq_true, decide_eq_true_eq, beq_iff_eq]
      have : ¬ (n.qe - startStep < 0) := by omega
      simp only [this, ↓reduceIte]
      omega
    · simp [hsel]
  have h2 : (s.notes.any fun n => rollSel ⟨startStep, minP, maxP, split, s.totalQSteps - startStep⟩ n &&
        rollClears ⟨startStep, minP, maxP, split, s.totalQSteps - startStep⟩ n f p) =
      (split && s.notes.any fun n => rollSel ⟨startStep, minP, maxP, split, s.totalQSteps - startStep⟩ n &&
        n.qs == (f : Int) + startStep + 1 && n.pitch == (p : Int) + minP) := by
    cases split with
    | false => simp [rollClears]
    | true =>
      simp only [Bool.true_and]
      apply any_congr_mem
      intro n hn
      simp only [rollClears, Bool.true_and]
      by_cases hsel : rollSel ⟨startStep, minP, maxP, true, s.totalQSteps - startStep⟩ n = true
      · simp only [hsel, Bool.true_and]
        rw [Bool.eq_iff_iff]
        simp only [Bool.and_eq_true, decide_eq_true_eq, beq_iff_eq]
        omega
      · simp [hsel]
  rw [h1, h2, Bool.and_comm]






/-- `rollSpec` read as a proposition: some selected in-range note sounds at step `f + start`, and — with
`split_repeats` — no selected note of that pitch starts at the next step -/
theorem rollSpec_iff (notes : List Note) (c : RollCfg) (f p : Int) :
    rollSpec notes c f p = true ↔
      (∃ n ∈ notes, rollSel c n = true ∧ n.qs ≤ f + c.start ∧ f + c.start < n.qe ∧ n.pitch = p + c.minP) ∧
      (c.split = true → ¬ ∃ n ∈ notes, rollSel c n = true ∧ n.qs = f + c.start + 1 ∧ n.pitch = p + c.minP) := by
  simp only [rollSpec, Bool.and_eq_true, List.any_eq_true, decide_eq_true_eq, beq_iff_eq,
    Bool.not_eq_true', Bool.and_eq_false_iff, List.any_eq_false]
  constructor
  · rintro ⟨⟨n, hn, ⟨⟨hs, h1⟩, h2⟩, h3⟩, h4⟩
    refine ⟨⟨n, hn, hs, h1, h2, h3⟩, ?_⟩
    intro hsp ⟨m, hm, hms, hmq, hmp⟩
    rcases h4 with h4 | h4
    · rw [hsp] at h4; exact absurd h4 (by simp)
    · exact h4 m hm ⟨⟨hms, hmq⟩, hmp⟩
  · rintro ⟨⟨n, hn, hs, h1, h2, h3⟩, h4⟩
    refine ⟨⟨n, hn, ⟨⟨hs, h1⟩, h2⟩, h3⟩, ?_⟩
    cases hsp : c.split with
    | false => left; rfl
    | true =>
      right
      intro m hm hcon
      exact h4 hsp ⟨m, hm, hcon.1.1, hcon.1.2, hcon.2⟩

/-- frame `f` of the roll contains pitch offset `p` iff `p` is in range and the statement's condition holds -/
theorem pianoroll_frame_mem (s : NoteSeq) (startStep minP maxP : Int) (split : Bool)
    (hq : 0 < s.spq) (hT : startStep ≤ s.totalQSteps) (hW : minP ≤ maxP + 1)
    (hwf : ∀ n ∈ s.notes, n.qs ≤ n.qe ∧ n.qs ≤ s.totalQSteps) :
    ∃ evs, pianorollFromQuantized s startStep minP maxP split = .ok evs ∧
      (evs.length : Int) = s.totalQSteps - startStep ∧
      ∀ (f : Nat) (frame : List Int), evs[f]? = some frame →
        frame.Pairwise (· < ·) ∧
        ∀ p : Int, p ∈ frame ↔ (0 ≤ p ∧ p ≤ maxP - minP ∧
          rollSpec s.notes ⟨startStep, minP, maxP, split, s.totalQSteps - startStep⟩ f p = true) := by
  refine ⟨_, pianoroll_frames s startStep minP maxP split hq hT hW hwf, ?_, ?_⟩
  · simp only [specFrames, List.length_map, List.length_range]; omega
  · intro f frame hf
    simp only [specFrames, List.getElem?_map] at hf
    by_cases hlt : f < (s.totalQSteps - startStep).toNat
    · rw [List.getElem?_range hlt] at hf
      simp only [Option.map_some, Option.some.injEq] at hf
      subst hf
      constructor
      · rw [List.pairwise_map]
        apply List.Pairwise.filter
        apply List.Pairwise.imp _ (List.pairwise_lt_range)
        intro a b h; omega
      · intro p
        simp only [List.mem_map, List.mem_filter, List.mem_range]
        constructor
        · rintro ⟨q, ⟨hq1, hq2⟩, rfl⟩
          exact ⟨by omega, by omega, hq2⟩
        · rintro ⟨h0, h1, h2⟩
          refine ⟨p.toNat, ⟨by omega, ?_⟩, by omega⟩
          rw [show ((p.toNat : Nat) : Int) = p by omega]; exact h2
    · rw [List.getElem?_eq_none (by simp; omega)] at hf
      exact absurd hf (by simp)

/-- `IndexError` exactly when a selected note with `split_repeats` starts beyond the end of the roll -/
theorem pianoroll_index_error_iff (s : NoteSeq) (startStep minP maxP : Int) (split : Bool)
    (hq : 0 < s.spq) (hT : startStep ≤ s.totalQSteps) (hW : minP ≤ maxP + 1) :
    pianorollFromQuantized s startStep minP maxP split = .error .indexError ↔
      ∃ n ∈ s.notes, rollSel ⟨startStep, minP, maxP, split, s.totalQSteps - startStep⟩ n = true ∧
        split = true ∧ s.totalQSteps < n.qs := by
  have hperm : (sortByInt (·.qs) s.notes).Perm s.notes := List.mergeSort_perm _ _
  unfold pianorollFromQuantized
  simp only [hq, not_true_eq_false, ↓reduceIte]
  rw [if_neg (by omega), hperm.any_eq]
  by_cases hany : s.notes.any (rollIndexErr ⟨startStep, minP, maxP, split, s.totalQSteps - startStep⟩) = true
  · simp only [hany, ↓reduceIte, true_iff]
    rw [List.any_eq_true] at hany
    obtain ⟨n, hn, he⟩ := hany
    simp only [rollIndexErr, Bool.and_eq_true, decide_eq_true_eq] at he
    exact ⟨n, hn, he.1.1.1, he.1.1.2, by omega⟩
  · simp only [hany, Bool.false_eq_true, ↓reduceIte, reduceCtorEq, false_iff]
    rintro ⟨n, hn, hs, hsp, hgt⟩
    apply hany
    rw [List.any_eq_true]
    refine ⟨n, hn, ?_⟩
    have hs' := hs
    simp only [rollSel, Bool.and_eq_true, decide_eq_true_eq] at hs'
    simp only [rollIndexErr, Bool.and_eq_true, decide_eq_true_eq]
    exact ⟨⟨⟨hs, hsp⟩, by omega⟩, by omega⟩


/-! ## DrumTrack -/

/-- no selected drum note (drum or `ignore_is_drum`, non-zero velocity, `qs ≥ search_start_step`): the track stays empty
with `start_step = end_step = 0` -/
theorem drums_empty (s : NoteSeq) (searchStart gapBars : Int) (padEnd ignoreIsDrum : Bool) (spb : Int)
    (hspb : stepsPerBar s = .ok spb)
    (hsel : s.notes.filter (drumSel searchStart ignoreIsDrum) = []) :
    drumsFromQuantized s searchStart gapBars padEnd ignoreIsDrum = .ok ⟨[], 0, 0, spb, s.spq⟩ := by
  simp [drumsFromQuantized, hspb, hsel, canonSet]

/-- `drums_steps`: with `first` the earliest selected step and `last` the step the track stops at —
* the track starts at the bar of `first` (`bar_start`);
* `last` is a selected step reached from `first` by hops that leave fewer than `gap_bars` bars of empty steps, and
  every later selected step is `gap_bars` bars or more after `last + 1` (so `last` is unique);
* the length is `last − start + 1`, rounded up to a bar iff `pad_end`; `end_step = start_step + length`;
* event `i` is the set of pitches (`pitchesAt`: strictly increasing list, `mem_pitchesAt`) of the selected notes with
  `qs = start + i` up to `last`, and empty in the padding. -/
theorem drums_steps (s : NoteSeq) (searchStart gapBars : Int) (padEnd ignoreIsDrum : Bool) (spb : Int)
    (hspb : stepsPerBar s = .ok spb) (hpos : 0 < spb)
    (hne : s.notes.filter (drumSel searchStart ignoreIsDrum) ≠ []) :
    ∃ r first last,
      drumsFromQuantized s searchStart gapBars padEnd ignoreIsDrum = .ok r ∧
      (∃ n ∈ s.notes.filter (drumSel searchStart ignoreIsDrum), n.qs = first) ∧
      (∀ n ∈ s.notes.filter (drumSel searchStart ignoreIsDrum), first ≤ n.qs) ∧
      r.startStep = first - Int.fmod (first - searchStart) spb ∧
      r.stepsPerBar = spb ∧ r.stepsPerQuarter = s.spq ∧
      (∃ n ∈ s.notes.filter (drumSel searchStart ignoreIsDrum), n.qs = last) ∧
      (∀ n ∈ s.notes.filter (drumSel searchStart ignoreIsDrum), n.qs ≤ last →
          n.qs = first ∨ ∃ m ∈ s.notes.filter (drumSel searchStart ignoreIsDrum),
            m.qs < n.qs ∧ n.qs - (m.qs + 1) < gapBars * spb) ∧
      (∀ n ∈ s.notes.filter (drumSel searchStart ignoreIsDrum), last < n.qs →
          gapBars * spb ≤ n.qs - (last + 1)) ∧
      r.endStep = r.startStep + r.events.length ∧
      (r.events.length : Int) = (last - r.startStep + 1) +
          (if padEnd then Int.fmod (-(last - r.startStep + 1)) spb else 0) ∧
      ∀ i : Nat, i < r.events.length →
        r.events[i]? = some (if r.startStep + i ≤ last
          then pitchesAt (s.notes.filter (drumSel searchStart ignoreIsDrum)) (r.startStep + i) else []) := by
  generalize hseldef : s.notes.filter (drumSel searchStart ignoreIsDrum) = sel at hne ⊢
  have hsorted := canonSet_sorted (sel.map (·.qs))
  have hmem : ∀ t, t ∈ canonSet (sel.map (·.qs)) ↔ ∃ n ∈ sel, n.qs = t := by
    intro t; simp [mem_canonSet]
  unfold drumsFromQuantized
  simp only [hspb, hseldef]
  cases hsteps : canonSet (sel.map (·.qs)) with
  | nil =>
    exfalso
    cases sel with
    | nil => exact hne rfl
    | cons n ns =>
      have := (hmem n.qs).mpr ⟨n, List.mem_cons_self .., rfl⟩
      rw [hsteps] at this; exact absurd this (List.not_mem_nil)
  | cons first rest =>
    rw [hsteps] at hsorted hmem
    have hfirst_le : ∀ n ∈ sel, first ≤ n.qs := by
      intro n hn
      have := (hmem n.qs).mpr ⟨n, hn, rfl⟩
      rcases List.mem_cons.mp this with h | h
      · omega
      · have := (List.pairwise_cons.mp hsorted).1 _ h; omega
    have hfm0 := Int.fmod_nonneg_of_pos (first - searchStart) hpos
    simp only [show ¬ spb = 0 by omega, show ¬ spb < 0 by omega, ↓reduceIte]
    generalize hstart : first - Int.fmod (first - searchStart) spb = start
    have hinv := drumLoop_inv sel start (gapBars * spb) (first :: rest) [] hsorted
      (by intro t ht
          have : first ≤ t := by
            rcases List.mem_cons.mp ht with h | h
            · omega
            · have := (List.pairwise_cons.mp hsorted).1 _ h; omega
          simp only [List.length_nil]; omega)
      (by intro i hi; simp at hi)
      (by intro n hn _; exact (hmem n.qs).mpr ⟨n, hn, rfl⟩)
    simp only [List.length_nil, Int.natCast_zero] at hinv
    change _ at hinv
    generalize hout : drumLoop sel start (gapBars * spb) (first :: rest) [] 0 = out at hinv
    obtain ⟨_, i2, i3, i4, i5, i6⟩ := hinv
    have hlen0 : out.length ≠ 0 := i2 trivial (by simp)
    simp only [hlen0, ↓reduceIte]
    have hlast : start + (out.length : Int) - 1 ∈ first :: rest := by
      rcases i4 with h | h
      · exact absurd h hlen0
      · exact h
    have hfmpad := Int.fmod_nonneg_of_pos (-(out.length : Int)) hpos
    refine ⟨_, first, start + out.length - 1, rfl, (hmem first).mp (List.mem_cons_self ..), hfirst_le,
      hstart.symm, rfl, rfl, (hmem _).mp hlast, ?_, ?_, ?_, ?_, ?_⟩
    · intro n hn hle
      have hnm := (hmem n.qs).mpr ⟨n, hn, rfl⟩
      rcases i6 n.qs hnm (by omega) with ⟨_, hh⟩ | ⟨e, he, hle', hlt⟩
      · left; simpa using hh.symm
      · right
        rcases he with ⟨_, h0⟩ | he
        · exact absurd rfl h0
        · obtain ⟨m, hm, hmq⟩ := (hmem _).mp he
          exact ⟨m, hm, by omega, by omega⟩
    · intro n hn hlt
      have hnm := (hmem n.qs).mpr ⟨n, hn, rfl⟩
      have := i5 n.qs hnm (by omega)
      omega
    · simp only [length_setLength]
      cases padEnd <;> simp only [Bool.false_eq_true, ↓reduceIte] <;> omega
    · simp only [length_setLength]
      have : start + (out.length : Int) - 1 - start + 1 = out.length := by omega
      rw [this]
      cases padEnd <;> simp only [Bool.false_eq_true, ↓reduceIte] <;> omega
    · intro i hi
      simp only [length_setLength] at hi
      rw [getElem?_setLength _ _ _ _ hi]
      by_cases hil : i < out.length
      · have := i3 i hil
        rw [List.getElem?_eq_getElem hil] at this
        simp only [hil, ↓reduceDIte, show start + (i : Int) ≤ start + out.length - 1 by omega, ↓reduceIte]
        exact this
      · simp only [hil, ↓reduceDIte, show ¬ start + (i : Int) ≤ start + out.length - 1 by omega, ↓reduceIte]




/-! ## ChordProgression -/

/-- `CoincidentChordsError` exactly when two different chord symbols share a step inside `[start, end)` -/
theorem chords_coincident_iff (s : NoteSeq) (start end_ spb : Int) (hspb : stepsPerBar s = .ok spb)
    (hse : start < end_) :
    chordsFromQuantized s start end_ = .error .coincidentChordsError ↔ ChordsCoincident s start end_ := by
  rcases chords_top s start end_ spb hspb hse with ⟨hc, he⟩ | ⟨hc, E, hE, _⟩
  · exact ⟨fun _ => hc, fun _ => he⟩
  · constructor
    · intro h; rw [hE] at h; exact absurd h (by simp)
    · intro h; exact absurd h hc

/-- otherwise event `i` is the chord in force at step `start + i`: the text of the last chord annotation (in
`(step, time)` order — `chords_order` —, annotations equal in both in storage order) at or before that step,
`NO_CHORD` if there is none -/
theorem chords_steps (s : NoteSeq) (start end_ spb : Int) (hspb : stepsPerBar s = .ok spb)
    (hse : start < end_) (hnc : ¬ ChordsCoincident s start end_) :
    ∃ E, chordsFromQuantized s start end_ = .ok ⟨E, start, end_, spb, s.spq⟩ ∧
      (E.length : Int) = end_ - start ∧
      ∀ i : Nat, (i : Int) < end_ - start →
        E[i]? = some (chordAt Gen.NO_CHORD (chordAnns s) (start + i)) := by
  rcases chords_top s start end_ spb hspb hse with ⟨hc, _⟩ | ⟨_, E, hE, hl, hs⟩
  · exact absurd hc hnc
  · exact ⟨E, hE, hl, hs⟩

/-- the list `chords_steps` reads the chord in force from is in the order of the sort key `(quantized_step, time)`
and is a rearrangement of the chord-symbol annotations: among chords quantized onto one step the one with the
latest unquantized time is in force afterwards -/
theorem chords_order (s : NoteSeq) :
    (chordAnns s).Pairwise ChordOrd ∧
    (chordAnns s).Perm (s.texts.filter (fun a => a.kind == Gen.CHORD_SYMBOL)) :=
  ⟨chordAnns_sorted s, List.mergeSort_perm _ _⟩

/-! ## NotePerformance -/

/-- one tuple per selected note, in `(start_time, pitch)` order: `(qs − previous qs, pitch, velocity bin, qe − qs)`,
when no shift and no duration exceeds its limit.  `hord`: the start-time order agrees with the step order
(true of quantizer output, which is monotone) -/
theorem noteperf_tuples (s : NoteSeq) (nb : Int) (inst : Option Int) (start ms md : Int)
    (hq : 0 < s.sps) (hnb1 : 1 ≤ nb) (hnb2 : nb ≤ 127)
    (hvalid : ∀ n ∈ s.notes, start ≤ n.qs → instOk inst n = true → NPValid n)
    (hord : (sortedNotes s start inst).Pairwise (fun a b => a.qs ≤ b.qs))
    (hlim : ∀ i n, (sortedNotes s start inst)[i]? = some n →
        n.qs - prevStep start (sortedNotes s start inst) i ≤ ms ∧ n.qe - n.qs ≤ md) :
    ∃ evs, notePerfFromQuantized s nb inst start ms md =
        .ok ⟨evs, start, nb, (programAndIsDrum s inst).1, (programAndIsDrum s inst).2, s.sps⟩ ∧
      evs.length = (sortedNotes s start inst).length ∧
      ∀ i n, (sortedNotes s start inst)[i]? = some n →
        evs[i]? = some (npTuple nb start (sortedNotes s start inst) i n) := by
  have hv : ∀ n ∈ sortedNotes s start inst, NPValid n := by
    intro n hn; rw [mem_sortedNotes] at hn; exact hvalid n hn.1 hn.2.1 hn.2.2
  have hge : ∀ n ∈ sortedNotes s start inst, start ≤ n.qs := by
    intro n hn; rw [mem_sortedNotes] at hn; exact hn.2.1
  have hnbv : ¬ nb > Gen.MAX_NUM_VELOCITY_BINS := by simp only [Gen.MAX_NUM_VELOCITY_BINS]; omega
  rcases notePerfLoop_spec nb ms md (by omega) _ start hv hge hord with
    ⟨_, evs, hevs, hlen, hspec⟩ | ⟨⟨i, n, hin, hgt, _⟩, _⟩ | ⟨⟨i, n, hin, _, hgt, _⟩, _⟩
  · refine ⟨evs, ?_, hlen, hspec⟩
    simp only [notePerfFromQuantized, hnbv, ↓reduceIte, hq, not_true_eq_false, hevs]
  · have := (hlim i n hin).1; omega
  · have := (hlim i n hin).2; omega

/-- `TooManyTimeShiftStepsError` / `TooManyDurationStepsError` exactly when a value exceeds its limit; which of
the two is decided by the first offending note (its shift is checked before its duration) -/
theorem noteperf_errors (s : NoteSeq) (nb : Int) (inst : Option Int) (start ms md : Int)
    (hq : 0 < s.sps) (hnb1 : 1 ≤ nb) (hnb2 : nb ≤ 127)
    (hvalid : ∀ n ∈ s.notes, start ≤ n.qs → instOk inst n = true → NPValid n)
    (hord : (sortedNotes s start inst).Pairwise (fun a b => a.qs ≤ b.qs)) :
    let l := sortedNotes s start inst
    let r := notePerfFromQuantized s nb inst start ms md
    ((∃ i n, l[i]? = some n ∧ (n.qs - prevStep start l i > ms ∨ n.qe - n.qs > md)) ↔
      (r = .error .tooManyTimeShiftStepsError ∨ r = .error .tooManyDurationStepsError)) ∧
    (r = .error .tooManyTimeShiftStepsError ↔
      ∃ i n, l[i]? = some n ∧ n.qs - prevStep start l i > ms ∧
        ∀ j m, j < i → l[j]? = some m → m.qs - prevStep start l j ≤ ms ∧ m.qe - m.qs ≤ md) ∧
    (r = .error .tooManyDurationStepsError ↔
      ∃ i n, l[i]? = some n ∧ n.qs - prevStep start l i ≤ ms ∧ n.qe - n.qs > md ∧
        ∀ j m, j < i → l[j]? = some m → m.qs - prevStep start l j ≤ ms ∧ m.qe - m.qs ≤ md) := by
  intro l r
  have hv : ∀ n ∈ l, NPValid n := by
    intro n hn; rw [mem_sortedNotes] at hn; exact hvalid n hn.1 hn.2.1 hn.2.2
  have hge : ∀ n ∈ l, start ≤ n.qs := by
    intro n hn; rw [mem_sortedNotes] at hn; exact hn.2.1
  have hnbv : ¬ nb > Gen.MAX_NUM_VELOCITY_BINS := by simp only [Gen.MAX_NUM_VELOCITY_BINS]; omega
  have hr : r = match notePerfLoop nb ms md start l with
      | .error x => .error x
      | .ok evs => .ok ⟨evs, start, nb, (programAndIsDrum s inst).1, (programAndIsDrum s inst).2, s.sps⟩ := by
    simp only [r, notePerfFromQuantized, hnbv, ↓reduceIte, hq, not_true_eq_false]
    rfl
  rcases notePerfLoop_spec nb ms md (by omega) l start hv hge hord with
    ⟨hall, evs, hevs, _, _⟩ | ⟨⟨i, n, hin, hgt, hbef⟩, herr⟩ | ⟨⟨i, n, hin, hle, hgt, hbef⟩, herr⟩
  · rw [hevs] at hr
    refine ⟨⟨?_, ?_⟩, ⟨?_, ?_⟩, ⟨?_, ?_⟩⟩
    · rintro ⟨i, n, hin, h | h⟩ <;> have := hall i n hin <;> omega
    · rintro (h | h) <;> rw [hr] at h <;> exact absurd h (by simp)
    · intro h; rw [hr] at h; exact absurd h (by simp)
    · rintro ⟨i, n, hin, h, _⟩; have := hall i n hin; omega
    · intro h; rw [hr] at h; exact absurd h (by simp)
    · rintro ⟨i, n, hin, _, h, _⟩; have := hall i n hin; omega
  · rw [herr] at hr
    refine ⟨⟨fun _ => Or.inl hr, fun _ => ⟨i, n, hin, Or.inl hgt⟩⟩, ⟨fun _ => ⟨i, n, hin, hgt, hbef⟩, fun _ => hr⟩,
      ⟨?_, ?_⟩⟩
    · intro h; rw [hr] at h; exact absurd h (by simp)
    · rintro ⟨i', n', hin', hle', hgt', hbef'⟩
      exfalso
      rcases Nat.lt_trichotomy i i' with h | h | h
      · have := (hbef' i n h hin).1; omega
      · subst h; rw [hin] at hin'; simp only [Option.some.injEq] at hin'; subst hin'; omega
      · have := (hbef i' n' h hin').2; omega
  · rw [herr] at hr
    refine ⟨⟨fun _ => Or.inr hr, fun _ => ⟨i, n, hin, Or.inr hgt⟩⟩, ⟨?_, ?_⟩,
      ⟨fun _ => ⟨i, n, hin, hle, hgt, hbef⟩, fun _ => hr⟩⟩
    · intro h; rw [hr] at h; exact absurd h (by simp)
    · rintro ⟨i', n', hin', hgt', hbef'⟩
      exfalso
      rcases Nat.lt_trichotomy i i' with h | h | h
      · have := (hbef' i n h hin).2; omega
      · subst h; rw [hin] at hin'; simp only [Option.some.injEq] at hin'; subst hin'; omega
      · have := (hbef i' n' h hin').1; omega


/-! ## Performance / MetricPerformance -/

/-- `perf_shifts`: in the output of `BasePerformance._from_quantized_sequence` every TIME_SHIFT lies in
`1..max_shift_steps`; every NOTE_ON / NOTE_OFF happens — start step plus the shifts before it — exactly at the
quantized start / end step of its note, in `note_events` order; and the shifts sum to the elapsed steps
(the last note event's step minus `start_step`). -/
theorem perf_shifts (s : NoteSeq) (start nb ms : Int) (inst : Option Int) (evs : List PEvent)
    (hms : 1 ≤ ms)
    (hwf : ∀ n ∈ s.notes, start ≤ n.qs → instOk inst n = true → n.qs ≤ n.qe)
    (h : perfEvents s start nb ms inst = .ok evs) :
    (∀ v, PEvent.timeShift v ∈ evs → 1 ≤ v ∧ v ≤ ms) ∧
    noteStream start evs =
      (noteEvents (sortedNotes s start inst)).map (fun e => (e.toPEvent, e.step)) ∧
    (∀ e ∈ noteEvents (sortedNotes s start inst), e.step ≤ start + shiftSum evs) ∧
    (noteEvents (sortedNotes s start inst) = [] ∨
      ∃ e ∈ noteEvents (sortedNotes s start inst), e.step = start + shiftSum evs) := by
  unfold perfEvents at h
  cases hl : perfLoop nb ms ⟨start, 0, []⟩ (noteEvents (sortedNotes s start inst)) with
  | error x => rw [hl] at h; exact absurd h (by simp)
  | ok st' =>
    rw [hl] at h
    simp only [Except.ok.injEq] at h
    have hge : ∀ e ∈ noteEvents (sortedNotes s start inst), start ≤ e.step := by
      intro e he
      obtain ⟨hm, hstep⟩ := mem_noteEvents he
      rw [mem_sortedNotes] at hm
      have := hwf _ hm.1 hm.2.1 hm.2.2
      rcases hstep with h' | h' <;> omega
    obtain ⟨new, ho, hs, hns, hc, hle, hlast⟩ :=
      perfLoop_spec nb ms hms _ ⟨start, 0, []⟩ st' (noteEvents_sorted _) hge hl
    simp only [List.nil_append] at ho
    rw [ho] at h; subst h
    rw [hc] at hle hlast
    exact ⟨hs, hns, hle, hlast⟩

/-- the multiset of `(NOTE_ON pitch, step)` and `(NOTE_OFF pitch, step)` pairs in the event list is exactly: one
NOTE_ON at `qs` and one NOTE_OFF at `qe` for every selected note. -/
theorem perf_onoff_multiset (s : NoteSeq) (start nb ms : Int) (inst : Option Int) (evs : List PEvent)
    (hms : 1 ≤ ms)
    (hwf : ∀ n ∈ s.notes, start ≤ n.qs → instOk inst n = true → n.qs ≤ n.qe)
    (h : perfEvents s start nb ms inst = .ok evs) :
    (noteStream start evs).Perm
      ((selectNotes s start inst).map (fun n => (PEvent.noteOn n.pitch, n.qs)) ++
       (selectNotes s start inst).map (fun n => (PEvent.noteOff n.pitch, n.qe))) := by
  rw [(perf_shifts s start nb ms inst evs hms hwf h).2.1]
  have hp := (List.mergeSort_perm (onsets (sortedNotes s start inst) ++ offsets (sortedNotes s start inst)) nevLe).map
    (fun e => (e.toPEvent, e.step))
  refine hp.trans ?_
  rw [List.map_append,
    onsets_map _ _ (fun n => (PEvent.noteOn n.pitch, n.qs)) (by intro n i; rfl),
    offsets_map _ _ (fun n => (PEvent.noteOff n.pitch, n.qe)) (by intro n i; rfl)]
  have hs : (sortedNotes s start inst).Perm (selectNotes s start inst) := List.mergeSort_perm _ _
  exact (hs.map _).append (hs.map _)


/-- `perf_notes_multiset`: the notes denoted by the event list — `_to_sequence`'s reading: FIFO matching per pitch,
velocity bin from the last VELOCITY event (`decodeNotes`) — are, as a multiset of `(pitch, qs, qe, velocity bin)`,
exactly the selected input notes, whenever no two selected notes of one pitch overlap -/
theorem perf_notes_multiset (s : NoteSeq) (start nb ms : Int) (inst : Option Int) (evs : List PEvent)
    (hms : 1 ≤ ms) (hno : NoSamePitchOverlap (selectNotes s start inst))
    (hpos : ∀ n ∈ selectNotes s start inst, n.qs < n.qe)
    (h : perfEvents s start nb ms inst = .ok evs) :
    (decodeNotes start evs).Perm
      ((selectNotes s start inst).map fun n => (n.pitch, n.qs, n.qe, binOf nb 0 n)) := by
  have hperm : (sortedNotes s start inst).Perm (selectNotes s start inst) := List.mergeSort_perm _ _
  have hpos' : ∀ n ∈ sortedNotes s start inst, n.qs < n.qe := fun n hn => hpos n (hperm.mem_iff.mp hn)
  have hno' : NoSamePitchOverlap (sortedNotes s start inst) := by
    unfold NoSamePitchOverlap at hno ⊢
    refine (List.Perm.pairwise_iff ?_ hperm).mpr hno
    intro a b hab hp
    exact (hab hp.symm).symm
  -- the abstract stream of the event list
  unfold perfEvents at h
  cases hl : perfLoop nb ms ⟨start, 0, []⟩ (noteEvents (sortedNotes s start inst)) with
  | error x => rw [hl] at h; exact absurd h (by simp)
  | ok st' =>
    rw [hl] at h
    simp only [Except.ok.injEq] at h
    have hge : ∀ e ∈ noteEvents (sortedNotes s start inst), start ≤ e.step := by
      intro e he
      obtain ⟨hm, hstep⟩ := mem_noteEvents he
      have := hpos' _ hm
      rw [mem_sortedNotes] at hm
      rcases hstep with h' | h' <;> omega
    obtain ⟨new, ho, habs⟩ :=
      perfLoop_abs nb ms hms _ ⟨start, 0, []⟩ st' (noteEvents_sorted _) hge (fun _ => rfl) hl
    simp only [List.nil_append] at ho
    rw [ho] at h; subst h
    -- FIFO invariant over all note events
    have hinv := fifo_all nb (sortedNotes s start inst) hpos' (noSamePitch_index hno')
      (noteEvents (sortedNotes s start inst)) [] ⟨[], []⟩ (by simp) ⟨by simp [openCond], by simp⟩
    simp only [List.nil_append] at hinv
    obtain ⟨hopen, hout⟩ := hinv
    obtain ⟨_, _, hpart⟩ := noteEvents_facts (sortedNotes s start inst) hpos'
    have hopen_nil : (noteEvents (sortedNotes s start inst)).filter
        (openCond (noteEvents (sortedNotes s start inst))) = [] := by
      rw [List.filter_eq_nil_iff]
      intro e he
      simp only [openCond, Bool.and_eq_true, Bool.not_eq_true', decide_eq_true_eq, not_and, Decidable.not_not]
      intro _; exact (hpart e he).2
    rw [hopen_nil] at hopen
    simp only [List.map_nil] at hopen
    unfold decodeNotes
    simp only [decode_abs, habs, hopen, List.filter_nil, List.map_nil, List.append_nil]
    refine hout.trans ?_
    have hfilt : ((noteEvents (sortedNotes s start inst)).filter (·.isOff)).Perm (offsets (sortedNotes s start inst)) := by
      have h1 : ((onsets (sortedNotes s start inst) ++ offsets (sortedNotes s start inst)).filter (·.isOff)) =
          offsets (sortedNotes s start inst) := by
        rw [List.filter_append]
        have a : (onsets (sortedNotes s start inst)).filter (·.isOff) = [] := by
          rw [List.filter_eq_nil_iff]; intro e he
          simp only [onsets, List.mem_map] at he
          obtain ⟨⟨n, i⟩, _, rfl⟩ := he; simp
        have b : (offsets (sortedNotes s start inst)).filter (·.isOff) = offsets (sortedNotes s start inst) := by
          rw [List.filter_eq_self]; intro e he
          simp only [offsets, List.mem_map] at he
          obtain ⟨⟨n, i⟩, _, rfl⟩ := he; rfl
        rw [a, b, List.nil_append]
      have := (List.mergeSort_perm (onsets (sortedNotes s start inst) ++ offsets (sortedNotes s start inst)) nevLe).filter
        (·.isOff)
      rw [h1] at this
      exact this
    refine (hfilt.map _).trans ?_
    rw [offsets_map _ _ (fun n => (n.pitch, n.qs, n.qe, binOf nb 0 n)) (by intro n i; rfl)]
    exact hperm.map _


/-- the order-preserving refinement on the onset side (no overlap precondition needed): the NOTE_ON events,
each with the step at which it happens and the velocity bin in force (last VELOCITY event before it; `0` = none,
which is the case exactly when `num_velocity_bins = 0`), are — in `note_events` order — the onsets of the selected
notes with their pitch, quantized start step and velocity bin; as a multiset: one per selected note. -/
theorem perf_onsets_in_order (s : NoteSeq) (start nb ms : Int) (inst : Option Int) (evs : List PEvent)
    (hms : 1 ≤ ms)
    (hwf : ∀ n ∈ s.notes, start ≤ n.qs → instOk inst n = true → n.qs ≤ n.qe)
    (h : perfEvents s start nb ms inst = .ok evs) :
    onStream start 0 evs =
      ((noteEvents (sortedNotes s start inst)).filter (fun e => !e.isOff)).map
        (fun e => (e.note.pitch, e.step, binOf nb 0 e.note)) ∧
    (onStream start 0 evs).Perm
      ((selectNotes s start inst).map (fun n => (n.pitch, n.qs, binOf nb 0 n))) := by
  unfold perfEvents at h
  cases hl : perfLoop nb ms ⟨start, 0, []⟩ (noteEvents (sortedNotes s start inst)) with
  | error x => rw [hl] at h; exact absurd h (by simp)
  | ok st' =>
    rw [hl] at h
    simp only [Except.ok.injEq] at h
    have hge : ∀ e ∈ noteEvents (sortedNotes s start inst), start ≤ e.step := by
      intro e he
      obtain ⟨hm, hstep⟩ := mem_noteEvents he
      rw [mem_sortedNotes] at hm
      have := hwf _ hm.1 hm.2.1 hm.2.2
      rcases hstep with h' | h' <;> omega
    obtain ⟨new, ho, _, hon⟩ :=
      perfLoop_on nb ms hms _ ⟨start, 0, []⟩ st' (noteEvents_sorted _) hge (fun _ => rfl) hl
    simp only [List.nil_append] at ho
    rw [ho] at h; subst h
    refine ⟨hon, ?_⟩
    rw [hon]
    have hp := (filter_on_noteEvents (sortedNotes s start inst)).map
      (fun e => (e.note.pitch, e.step, binOf nb 0 e.note))
    refine hp.trans ?_
    rw [onsets_map _ _ (fun n => (n.pitch, n.qs, binOf nb 0 n)) (by intro n i; rfl)]
    exact (List.mergeSort_perm _ _).map _



/-- on the quantifier's domain (pitches and — when velocity bins are used — velocities in MIDI range, at least one
step per shift) extraction returns an event list: none of the `ValueError`s of `PerformanceEvent` can fire -/
theorem perf_defined (s : NoteSeq) (start nb ms : Int) (inst : Option Int)
    (hms : 1 ≤ ms) (hnb : 0 ≤ nb)
    (hvalid : ∀ n ∈ s.notes, start ≤ n.qs → instOk inst n = true →
      (0 ≤ n.pitch ∧ n.pitch ≤ 127) ∧ (nb ≠ 0 → 1 ≤ n.velocity ∧ n.velocity ≤ 127)) :
    ∃ evs, perfEvents s start nb ms inst = .ok evs := by
  obtain ⟨st', h⟩ := perfLoop_defined nb ms hms hnb (noteEvents (sortedNotes s start inst)) ⟨start, 0, []⟩
    (by intro e he
        obtain ⟨hm, _⟩ := mem_noteEvents he
        rw [mem_sortedNotes] at hm
        exact hvalid _ hm.1 hm.2.1 hm.2.2)
  exact ⟨st'.out, by simp only [perfEvents, h]⟩


/-! ## NonIntegerStepsPerBarError -/

/-- the bar length is rejected exactly when `spq·4·num/den` is not an integer, and is that integer otherwise -/
theorem steps_per_bar_nonInteger_iff (R : Rat → Rat) (s : NoteSeq) (ts : TimeSig) (rest : List TimeSig)
    (hts : s.timeSigs = ts :: rest) (hq : 0 < s.spq) (hden : ts.den ≠ 0)
    (hR : SpbExact R s.spq ts.num ts.den) :
    (stepsPerBarR R s = .error .nonIntegerStepsPerBarError ↔ ¬ ts.den ∣ s.spq * 4 * ts.num) ∧
    (∀ k : Int, stepsPerBarR R s = .ok k ↔ s.spq * 4 * ts.num = k * ts.den) := by
  have hden' : (ts.den : Rat) ≠ 0 := by exact_mod_cast hden
  have hval : stepsPerBarFloatR R s = .ok (((s.spq * 4 * ts.num : Int) : Rat) / (ts.den : Rat)) := by
    simp only [stepsPerBarFloatR, hq, not_true_eq_false, ↓reduceIte, hts, hden]
    rw [hR.1, hR.2.1, hR.2.2]
    congr 1
    have : ((s.spq * 4 * ts.num : Int) : Rat) = (s.spq : Rat) * 4 * (ts.num : Rat) := by norm_cast
    rw [this]; grind
  have hint := rat_isInt_iff (s.spq * 4 * ts.num) ts.den hden
  unfold stepsPerBarR
  rw [hval]
  by_cases hd : (((s.spq * 4 * ts.num : Int) : Rat) / (ts.den : Rat)).den = 1
  · simp only [hd, ne_eq, not_true_eq_false, ↓reduceIte, reduceCtorEq, false_iff, Decidable.not_not,
      Except.ok.injEq]
    refine ⟨hint.mp hd, ?_⟩
    intro k
    have h1 : ((s.spq * 4 * ts.num : Int) : Rat) / (ts.den : Rat) =
        (((((s.spq * 4 * ts.num : Int) : Rat) / (ts.den : Rat)).num : Int) : Rat) := Rat.ext rfl hd
    constructor
    · intro hk
      rw [hk] at h1
      have : ((s.spq * 4 * ts.num : Int) : Rat) = (k : Rat) * (ts.den : Rat) := by grind
      exact_mod_cast this
    · intro hk
      have : ((s.spq * 4 * ts.num : Int) : Rat) / (ts.den : Rat) = (k : Rat) := by
        have : ((s.spq * 4 * ts.num : Int) : Rat) = (k : Rat) * (ts.den : Rat) := by exact_mod_cast hk
        grind
      rw [this]; simp
  · simp only [hd, ne_eq, not_false_eq_true, ↓reduceIte, true_iff, reduceCtorEq, false_iff]
    refine ⟨fun h => hd (hint.mpr h), ?_⟩
    intro k hk
    exact hd (hint.mpr ⟨k, by rw [hk, Int.mul_comm]⟩)

/-- with exact arithmetic (`R = id`) the hypothesis is void -/
theorem spbExact_id (spq num den : Int) : SpbExact id spq num den := ⟨rfl, rfl, rfl⟩


/-- Melody, DrumTrack and ChordProgression extraction raise `NonIntegerStepsPerBarError` exactly when the bar
length computation does (see `steps_per_bar_nonInteger_iff` for when that is) -/
theorem extractors_nonInteger_iff (s : NoteSeq) :
    (∀ ss inst gap ip pad fd, melodyFromQuantized s ss inst gap ip pad fd = .error .nonIntegerStepsPerBarError ↔
      stepsPerBar s = .error .nonIntegerStepsPerBarError) ∧
    (∀ ss gap pad ign, drumsFromQuantized s ss gap pad ign = .error .nonIntegerStepsPerBarError ↔
      stepsPerBar s = .error .nonIntegerStepsPerBarError) ∧
    (∀ a b, chordsFromQuantized s a b = .error .nonIntegerStepsPerBarError ↔
      stepsPerBar s = .error .nonIntegerStepsPerBarError) := by
  refine ⟨?_, ?_, ?_⟩
  · intro ss inst gap ip pad fd
    unfold melodyFromQuantized
    cases hspb : stepsPerBar s with
    | error e => simp
    | ok spb =>
      simp only [reduceCtorEq, iff_false]
      intro h
      split at h
      · exact absurd h (by simp)
      · split at h
        · exact absurd h (by simp)
        · split at h
          · exact absurd h (by simp)
          · split at h
            · rename_i e he
              simp only [Except.error.injEq] at h; subst h
              rcases melLoop_error _ _ _ _ _ _ _ he with h | h | h <;> exact absurd h (by simp)
            · split at h <;> exact absurd h (by simp)
  · intro ss gap pad ign
    unfold drumsFromQuantized
    cases hspb : stepsPerBar s with
    | error e => simp
    | ok spb =>
      simp only [reduceCtorEq, iff_false]
      intro h
      split at h
      · exact absurd h (by simp)
      · split at h
        · exact absurd h (by simp)
        · split at h
          · exact absurd h (by simp)
          · split at h <;> exact absurd h (by simp)
  · intro a b
    unfold chordsFromQuantized
    cases hspb : stepsPerBar s with
    | error e => simp
    | ok spb =>
      simp only [reduceCtorEq, iff_false]
      intro h
      split at h
      · rename_i e he
        simp only [Except.error.injEq] at h; subst h
        rcases chordLoop_error _ _ _ _ _ _ _ he with h | h <;> exact absurd h (by simp)
      · split at h
        · rename_i e he
          simp only [Except.error.injEq] at h; subst h
          unfold chordFinish at he
          dsimp only at he
          split at he
          · exact absurd (addChord_error he) (by simp)
          · split at he
            · exact absurd (addChord_error he) (by simp)
            · exact absurd he (by simp)
        · exact absurd h (by simp)



/-! ## Melody -/

/-- no selected note: the melody stays empty with `start_step = end_step = 0` -/
theorem melody_empty (s : NoteSeq) (ss inst gapBars : Int) (ip pad fd : Bool) (spb : Int)
    (hspb : stepsPerBar s = .ok spb) (hsel : s.notes.filter (melSel ss inst fd) = []) :
    melodyFromQuantized s ss inst gapBars ip pad fd = .ok ⟨[], 0, 0, spb, s.spq⟩ := by
  have : (s.notes.filter (melSel ss inst fd)).mergeSort melLe = [] := by rw [hsel]; simp
  simp only [melodyFromQuantized, hspb, this]

/-- `melody_steps` (DESIGN 6.7).  `first :: rest` are the selected notes (instrument, `qs ≥ search_start_step`, not a
filtered drum, non-zero velocity) in `(start step, −pitch)` order; `K` are the notes the melody keeps (see `keptFrom`,
characterised declaratively by the `kept_*` theorems).  Then:
* `PolyphonicMelodyError` iff polyphony is not ignored and a second note on a kept onset is met (`dupFrom`);
* otherwise the melody starts at the bar of the first selected note, its length is the end of the last kept note —
  rounded up to a bar with `pad_end` — and every event follows the per-step rule `melRule`. -/
theorem melody_steps (s : NoteSeq) (ss inst gapBars : Int) (ip pad fd : Bool) (spb : Int)
    (hspb : stepsPerBar s = .ok spb) (hpos : 0 < spb)
    (hvalid : ∀ n ∈ s.notes, melSel ss inst fd n = true → n.qs < n.qe ∧ 0 ≤ n.pitch)
    (first : Note) (rest : List Note)
    (hL : (s.notes.filter (melSel ss inst fd)).mergeSort melLe = first :: rest) :
    (ip = false ∧ dupFrom (gapBars * spb) first rest = true →
      melodyFromQuantized s ss inst gapBars ip pad fd = .error .polyphonicMelodyError) ∧
    (¬ (ip = false ∧ dupFrom (gapBars * spb) first rest = true) →
      ∃ last evs, (first :: keptFrom (gapBars * spb) first rest).getLast? = some last ∧
        melodyFromQuantized s ss inst gapBars ip pad fd =
          .ok ⟨evs, first.qs - Int.fmod (first.qs - ss) spb,
               first.qs - Int.fmod (first.qs - ss) spb + evs.length, spb, s.spq⟩ ∧
        (evs.length : Int) = (last.qe - (first.qs - Int.fmod (first.qs - ss) spb)) +
          (if pad then Int.fmod (-(last.qe - (first.qs - Int.fmod (first.qs - ss) spb))) spb else 0) ∧
        ∀ i : Nat, i < evs.length →
          evs[i]? = some (melRule (first :: keptFrom (gapBars * spb) first rest)
            (first.qs - Int.fmod (first.qs - ss) spb + i))) := by
  have hmem : ∀ n ∈ first :: rest, n ∈ s.notes ∧ melSel ss inst fd n = true := by
    intro n hn
    rw [← hL, List.mem_mergeSort, List.mem_filter] at hn
    exact hn
  have hsel : ∀ n ∈ first :: rest, (fd && n.isDrum) = false ∧ n.velocity ≠ 0 := by
    intro n hn
    have := (hmem n hn).2
    simp only [melSel, Bool.and_eq_true, beq_iff_eq, decide_eq_true_eq, Bool.not_eq_true', bne_iff_ne, ne_eq] at this
    exact ⟨this.1.2, this.2⟩
  have hval : ∀ n ∈ first :: rest, n.qs < n.qe ∧ 0 ≤ n.pitch := fun n hn => hvalid n (hmem n hn).1 (hmem n hn).2
  have hsorted : (first :: rest).Pairwise (fun a b => a.qs ≤ b.qs) := by
    rw [← hL]
    apply List.Pairwise.imp _ (melSorted _)
    intro a b h; rcases h with h | h <;> omega
  have hfm0 := Int.fmod_nonneg_of_pos (first.qs - ss) hpos
  generalize hms : first.qs - Int.fmod (first.qs - ss) spb = mstart at *
  have hf_sel := hsel first (List.mem_cons_self ..)
  have hf_val := hval first (List.mem_cons_self ..)
  -- first iteration
  obtain ⟨A, hadd, hAlen, hA⟩ := addNote_form [] (Or.inl rfl) first.pitch (first.qs - mstart) (first.qe - mstart)
    (by omega) (by omega)
  have hm : (first.qe - mstart - (first.qs - mstart) - 1).toNat = (first.qe - first.qs - 1).toNat := by omega
  rw [hm] at hadd
  have hloop1 : melLoop fd ip (gapBars * spb) mstart (first :: rest) [] =
      melLoop fd ip (gapBars * spb) mstart rest (A ++ noteTail first.pitch (first.qe - first.qs - 1).toNat) := by
    rw [melLoop]
    simp only [hf_sel.1, Bool.false_eq_true, ↓reduceIte, hf_sel.2, List.length_nil, hadd]
  have hrule : ∀ i, i < A.length → A[i]? = some (melRule ([] ++ [first]) (mstart + i)) := by
    intro i hi
    rw [hA i hi, melRule_before [] first _ (by omega)]
    simp [melRule]
  have hspec := melLoop_spec fd ip (gapBars * spb) mstart rest [] first A
    (fun n hn => hsel n (List.mem_cons_of_mem _ hn)) (fun n hn => hval n (List.mem_cons_of_mem _ hn))
    hf_val hsorted (by simp) (by omega) hrule
  have hunf : melodyFromQuantized s ss inst gapBars ip pad fd =
      match melLoop fd ip (gapBars * spb) mstart rest (A ++ noteTail first.pitch (first.qe - first.qs - 1).toNat) with
      | .error e => .error e
      | .ok ev =>
        if ev.length = 0 then .ok ⟨[], 0, 0, spb, s.spq⟩
        else
          let ev1 := if ev.getLast? = some Gen.MELODY_NOTE_OFF then ev.dropLast else ev
          let length : Int :=
            if pad then ev1.length + Int.fmod (-(ev1.length : Int)) spb else ev1.length
          .ok ⟨melSetLength ev1 length.toNat, mstart, mstart + length, spb, s.spq⟩ := by
    simp only [melodyFromQuantized, hspb, hL, show ¬ spb = 0 by omega, show ¬ spb < 0 by omega, ↓reduceIte, hms,
      hloop1]
    cases melLoop fd ip (gapBars * spb) mstart rest (A ++ noteTail first.pitch (first.qe - first.qs - 1).toNat) <;> rfl
  rw [hunf]
  by_cases hdup : (!ip && dupFrom (gapBars * spb) first rest) = true
  · rw [if_pos hdup] at hspec
    simp only [Bool.and_eq_true, Bool.not_eq_true'] at hdup
    refine ⟨fun _ => by rw [hspec], fun h => absurd hdup h⟩
  · rw [if_neg hdup] at hspec
    simp only [Bool.and_eq_true, Bool.not_eq_true'] at hdup
    refine ⟨fun h => absurd h hdup, fun _ => ?_⟩
    obtain ⟨A', k', K0', hK, hres, hk', hK0', hA'len, hA'rule⟩ := hspec
    simp only [List.nil_append] at hK
    rw [hres]
    have hlen0 : ¬ (A' ++ noteTail k'.pitch (k'.qe - k'.qs - 1).toNat).length = 0 := by simp [length_noteTail]
    simp only [hlen0, ↓reduceIte, getLast?_noteTail, dropLast_noteTail]
    have hlen1 : ((A' ++ k'.pitch :: List.replicate (k'.qe - k'.qs - 1).toNat Gen.MELODY_NO_EVENT).length : Int) =
        k'.qe - mstart := by
      simp only [List.length_append, List.length_cons, List.length_replicate]; omega
    have hfmpad := Int.fmod_nonneg_of_pos (-(k'.qe - mstart)) hpos
    generalize hlength : (if pad = true then
        ((A' ++ k'.pitch :: List.replicate (k'.qe - k'.qs - 1).toNat Gen.MELODY_NO_EVENT).length : Int) +
          Int.fmod (-((A' ++ k'.pitch :: List.replicate (k'.qe - k'.qs - 1).toNat Gen.MELODY_NO_EVENT).length : Int)) spb
        else ((A' ++ k'.pitch :: List.replicate (k'.qe - k'.qs - 1).toNat Gen.MELODY_NO_EVENT).length : Int)) = length
    have hlength' : length = (k'.qe - mstart) + (if pad = true then Int.fmod (-(k'.qe - mstart)) spb else 0) := by
      rw [← hlength, hlen1]; cases pad <;> simp
    have hge : A'.length + (k'.qe - k'.qs - 1).toNat + 1 ≤ length.toNat := by
      rw [hlength']; cases pad <;> simp only [Bool.false_eq_true, ↓reduceIte] <;> omega
    obtain ⟨hflen, hfidx⟩ := melFinish A' k'.pitch (k'.qe - k'.qs - 1).toNat hk'.2 length.toNat hge
    refine ⟨k', melSetLength (A' ++ k'.pitch :: List.replicate (k'.qe - k'.qs - 1).toNat Gen.MELODY_NO_EVENT) length.toNat,
      by rw [← hK, List.getLast?_concat], ?_, ?_, ?_⟩
    · rw [hflen]
      have : ((length.toNat : Nat) : Int) = length := by
        rw [hlength']; cases pad <;> simp only [Bool.false_eq_true, ↓reduceIte] <;> omega
      rw [this]
    · rw [hflen, hlength']
      cases pad <;> simp only [Bool.false_eq_true, ↓reduceIte] <;> omega
    · intro i hi
      rw [hflen] at hi
      rw [hfidx i hi, melEvents_rule mstart K0' k' A' hk'.1 hK0' hA'len hA'rule i, hK]


/-! declarative reading of `keptFrom` / `dupFrom` -/

theorem keptFrom_sublist (gap : Int) : ∀ (ns : List Note) (k : Note), (keptFrom gap k ns).Sublist ns := by
  intro ns
  induction ns with
  | nil => intro k; simp [keptFrom]
  | cons n ns ih =>
    intro k
    unfold keptFrom
    split
    · exact (ih k).cons _
    · split
      · exact List.nil_sublist _
      · exact (ih n).cons_cons _

theorem kept_increasing (gap : Int) : ∀ (ns : List Note) (k : Note),
    (k :: ns).Pairwise (fun a b => a.qs ≤ b.qs) →
    (k :: keptFrom gap k ns).Pairwise (fun a b => a.qs < b.qs) := by
  intro ns
  induction ns with
  | nil => intro k _; simp [keptFrom]
  | cons n ns ih =>
    intro k h
    rw [List.pairwise_cons] at h
    have hkns : (k :: ns).Pairwise (fun a b => a.qs ≤ b.qs) :=
      List.pairwise_cons.mpr ⟨fun x hx => h.1 x (List.mem_cons_of_mem _ hx), (List.pairwise_cons.mp h.2).2⟩
    unfold keptFrom
    split
    · exact ih k hkns
    · rename_i hne
      split
      · simp
      · have hn := ih n h.2
        have hkn := h.1 n (List.mem_cons_self ..)
        rw [List.pairwise_cons]
        refine ⟨?_, hn⟩
        intro x hx
        rcases List.mem_cons.mp hx with hx | hx
        · subst hx; omega
        · have := (List.pairwise_cons.mp hn).1 x hx; omega

theorem kept_last_ge (gap : Int) (ns : List Note) (k last : Note)
    (hs : (k :: ns).Pairwise (fun a b => a.qs ≤ b.qs))
    (hl : (k :: keptFrom gap k ns).getLast? = some last) : k.qs ≤ last.qs := by
  have hinc := kept_increasing gap ns k hs
  have hmem : last ∈ k :: keptFrom gap k ns := List.mem_of_getLast? hl
  rcases List.mem_cons.mp hmem with h | h
  · subst h; omega
  · have := (List.pairwise_cons.mp hinc).1 last h; omega

/-- consecutive kept notes are closer than the gap: the next starts less than `gap` steps after the previous ends -/
theorem kept_chain (gap : Int) : ∀ (ns : List Note) (k : Note) (pre : List Note) (x y : Note) (post : List Note),
    k :: keptFrom gap k ns = pre ++ x :: y :: post → y.qs - x.qe < gap := by
  intro ns
  induction ns with
  | nil =>
    intro k pre x y post h
    simp only [keptFrom] at h
    have := congrArg List.length h
    simp at this; omega
  | cons n ns ih =>
    intro k pre x y post h
    unfold keptFrom at h
    split at h
    · exact ih k pre x y post h
    · split at h
      · have := congrArg List.length h
        simp at this; omega
      · rename_i hg
        cases pre with
        | nil =>
          simp only [List.nil_append, List.cons.injEq] at h
          obtain ⟨h1, h2, _⟩ := h
          subst h1; subst h2; omega
        | cons p pre =>
          simp only [List.cons_append, List.cons.injEq] at h
          exact ih n pre x y post h.2

/-- the melody ends at a gap: every later selected note starts `gap` steps or more after the last kept note's end -/
theorem kept_stop (gap : Int) : ∀ (ns : List Note) (k last : Note),
    (k :: ns).Pairwise (fun a b => a.qs ≤ b.qs) →
    (k :: keptFrom gap k ns).getLast? = some last →
    ∀ n ∈ ns, last.qs < n.qs → gap ≤ n.qs - last.qe := by
  intro ns
  induction ns with
  | nil => intro k last _ _ n hn; simp at hn
  | cons n ns ih =>
    intro k last hs hl n' hn' hlt
    have hge := kept_last_ge gap (n :: ns) k last hs hl
    rw [List.pairwise_cons] at hs
    have hkns : (k :: ns).Pairwise (fun a b => a.qs ≤ b.qs) :=
      List.pairwise_cons.mpr ⟨fun x hx => hs.1 x (List.mem_cons_of_mem _ hx), (List.pairwise_cons.mp hs.2).2⟩
    unfold keptFrom at hl
    split at hl
    · rename_i heq
      rcases List.mem_cons.mp hn' with h | h
      · subst h; omega
      · exact ih k last hkns hl n' h hlt
    · split at hl
      · rename_i hg
        simp only [List.getLast?_singleton, Option.some.injEq] at hl
        subst hl
        have : n.qs ≤ n'.qs := by
          rcases List.mem_cons.mp hn' with h | h
          · subst h; omega
          · exact (List.pairwise_cons.mp hs.2).1 n' h
        omega
      · rw [List.getLast?_cons_cons] at hl
        rcases List.mem_cons.mp hn' with h | h
        · subst h
          have := kept_last_ge gap ns n' last hs.2 hl
          omega
        · exact ih n last hs.2 hl n' h hlt

/-- every selected note up to the last kept onset shares its onset with a kept note that is higher, or of the same
pitch and not later in (unquantized) start time: on each onset the melody keeps the highest note, and among notes
of that pitch the one starting first — the tie-break of the sort key `(step, −pitch, start_time)`; only notes
equal in all three are left in storage order -/
theorem kept_top (gap : Int) : ∀ (ns : List Note) (k last : Note),
    (k :: ns).Pairwise MelOrd →
    (k :: keptFrom gap k ns).getLast? = some last →
    ∀ n ∈ ns, n.qs ≤ last.qs → ∃ x ∈ k :: keptFrom gap k ns, x.qs = n.qs ∧
      (n.pitch < x.pitch ∨ (n.pitch = x.pitch ∧ x.start ≤ n.start)) := by
  intro ns
  induction ns with
  | nil => intro k last _ _ n hn; simp at hn
  | cons n ns ih =>
    intro k last hs hl n' hn' hle
    rw [List.pairwise_cons] at hs
    have hkns : (k :: ns).Pairwise MelOrd :=
      List.pairwise_cons.mpr ⟨fun x hx => hs.1 x (List.mem_cons_of_mem _ hx), (List.pairwise_cons.mp hs.2).2⟩
    have hkn := hs.1 n (List.mem_cons_self ..)
    unfold keptFrom at hl ⊢
    split at hl
    · rename_i heq
      rw [if_pos heq]
      rcases List.mem_cons.mp hn' with h | h
      · subst h
        refine ⟨k, List.mem_cons_self .., heq.symm, ?_⟩
        rcases hkn with h | ⟨_, h | ⟨h, h'⟩⟩
        · omega
        · exact Or.inl h
        · exact Or.inr ⟨h, h'⟩
      · exact ih k last hkns hl n' h hle
    · rename_i hne
      rw [if_neg hne]
      split at hl
      · rename_i hg
        rw [if_pos hg]
        simp only [List.getLast?_singleton, Option.some.injEq] at hl
        subst hl
        exfalso
        have : n.qs ≤ n'.qs := by
          rcases List.mem_cons.mp hn' with h | h
          · subst h; omega
          · rcases (List.pairwise_cons.mp hs.2).1 n' h with h | h <;> omega
        rcases hkn with h | h <;> omega
      · rename_i hg
        rw [if_neg hg]
        rw [List.getLast?_cons_cons] at hl
        rcases List.mem_cons.mp hn' with h | h
        · subst h
          exact ⟨n', List.mem_cons_of_mem _ (List.mem_cons_self ..), rfl, Or.inr ⟨rfl, Rat.le_refl⟩⟩
        · obtain ⟨x, hx, hxq, hxp⟩ := ih n last hs.2 hl n' h hle
          exact ⟨x, List.mem_cons_of_mem _ hx, hxq, hxp⟩

/-- the list `melody_steps` and the `kept_*` theorems speak about is in the order of the sort key
`(quantized_start_step, −pitch, start_time)` and is a rearrangement of the selected notes -/
theorem melody_order (s : NoteSeq) (ss inst : Int) (fd : Bool) :
    ((s.notes.filter (melSel ss inst fd)).mergeSort melLe).Pairwise MelOrd ∧
    ((s.notes.filter (melSel ss inst fd)).mergeSort melLe).Perm (s.notes.filter (melSel ss inst fd)) :=
  ⟨melSorted _, List.mergeSort_perm _ _⟩

/-- `dupFrom`: some selected note up to the last kept onset has an earlier-listed selected note on the same start
step — two selected notes share a start step inside the extracted melody -/
theorem dup_iff (gap : Int) : ∀ (ns : List Note) (k last : Note),
    (k :: ns).Pairwise (fun a b => a.qs ≤ b.qs) →
    (k :: keptFrom gap k ns).getLast? = some last →
    (dupFrom gap k ns = true ↔
      ∃ pre n post, ns = pre ++ n :: post ∧ n.qs ≤ last.qs ∧ (n.qs = k.qs ∨ ∃ m ∈ pre, m.qs = n.qs)) := by
  intro ns
  induction ns with
  | nil =>
    intro k last _ _
    simp only [dupFrom, Bool.false_eq_true, false_iff]
    rintro ⟨pre, n, post, h, _⟩
    have := congrArg List.length h
    simp at this
  | cons n ns ih =>
    intro k last hs hl
    have hge := kept_last_ge gap (n :: ns) k last hs hl
    rw [List.pairwise_cons] at hs
    have hkns : (k :: ns).Pairwise (fun a b => a.qs ≤ b.qs) :=
      List.pairwise_cons.mpr ⟨fun x hx => hs.1 x (List.mem_cons_of_mem _ hx), (List.pairwise_cons.mp hs.2).2⟩
    have hkn := hs.1 n (List.mem_cons_self ..)
    unfold keptFrom at hl
    unfold dupFrom
    split at hl
    · rename_i heq
      simp only [heq, ↓reduceIte, true_iff]
      exact ⟨[], n, ns, rfl, by omega, Or.inl heq⟩
    · rename_i hne
      rw [if_neg hne]
      split at hl
      · rename_i hg
        rw [if_pos hg]
        simp only [List.getLast?_singleton, Option.some.injEq] at hl
        subst hl
        simp only [Bool.false_eq_true, false_iff]
        rintro ⟨pre, n', post, h, hle, _⟩
        have hmem : n' ∈ n :: ns := by rw [h]; simp
        have : n.qs ≤ n'.qs := by
          rcases List.mem_cons.mp hmem with h | h
          · subst h; omega
          · exact (List.pairwise_cons.mp hs.2).1 n' h
        omega
      · rename_i hg
        rw [if_neg hg]
        rw [List.getLast?_cons_cons] at hl
        rw [ih n last hs.2 hl]
        constructor
        · rintro ⟨pre, n', post, h, hle, hor⟩
          refine ⟨n :: pre, n', post, by rw [h]; rfl, hle, Or.inr ?_⟩
          rcases hor with h' | ⟨m, hm, hmq⟩
          · exact ⟨n, List.mem_cons_self .., h'.symm⟩
          · exact ⟨m, List.mem_cons_of_mem _ hm, hmq⟩
        · rintro ⟨pre, n', post, h, hle, hor⟩
          cases pre with
          | nil =>
            simp only [List.nil_append, List.cons.injEq] at h
            obtain ⟨h1, _⟩ := h
            subst h1
            rcases hor with h' | ⟨m, hm, _⟩
            · omega
            · simp at hm
          | cons p pre =>
            simp only [List.cons_append, List.cons.injEq] at h
            obtain ⟨h1, h2⟩ := h
            subst h1
            refine ⟨pre, n', post, h2, hle, ?_⟩
            have hmem : n' ∈ ns := by rw [h2]; simp
            have hnn' : n.qs ≤ n'.qs := (List.pairwise_cons.mp hs.2).1 n' hmem
            rcases hor with h' | ⟨m, hm, hmq⟩
            · omega
            · rcases List.mem_cons.mp hm with h | h
              · subst h; exact Or.inl hmq.symm
              · exact Or.inr ⟨m, h, hmq⟩


/-! ## bar alignment (Melody and DrumTrack start steps) -/

/-- `first − (first − search_start) mod spb` is the first step of the bar (counted from `search_start_step`) that
contains `first` -/
theorem bar_start (first ss spb : Int) (hpos : 0 < spb) :
    let st := first - Int.fmod (first - ss) spb
    st ≤ first ∧ first < st + spb ∧ Int.fmod (st - ss) spb = 0 := by
  intro st
  have h0 := Int.fmod_nonneg_of_pos (first - ss) hpos
  have h1 := Int.fmod_lt_of_pos (first - ss) hpos
  refine ⟨by omega, by omega, ?_⟩
  have : st - ss = spb * (first - ss).fdiv spb := by
    have := Int.fmod_def (first - ss) spb
    omega
  rw [this, Int.mul_fmod_right]


/-! ## Non-vacuity: every theorem above is instantiated at a concrete, non-trivial input whose hypotheses are
discharged by evaluation, so no statement is vacuous. -/

def exNote (pitch qs qe : Int) (vel : Int := 100) (inst : Int := 0) (drum : Bool := false) (start : Rat := 0) : Note :=
  { pitch := pitch, velocity := vel, start := start, end_ := 0, qs := qs, qe := qe, instrument := inst,
    program := 0, isDrum := drum, numerator := 0, denominator := 0, voice := 0, part := 0, pitchName := 0 }

/-- relative-quantized, 4 steps per quarter, 4/4: a drum hit at step 0 on instrument 0 (the F-C07-2 shape), a two-note
chord at step 0, two abutting notes of pitch 60 (the F-C12-1 shape), a note after more than a bar of silence; chords
with an identical coincident pair -/
def exRel : NoteSeq :=
  { notes := [exNote 36 0 1 100 0 true, exNote 64 0 2, exNote 55 0 2, exNote 60 2 4, exNote 60 4 6, exNote 62 24 26],
    timeSigs := [⟨0, 4, 4⟩], spq := 4, totalQSteps := 26,
    texts := [⟨0, 2, 1, "x43"⟩, ⟨0, 9, 1, "x47"⟩, ⟨0, 9, 1, "x47"⟩, ⟨0, 30, 1, "x46"⟩] }

/-- absolute-quantized, 100 steps per second, stored in `(start_time, pitch)` order -/
def exAbs : NoteSeq :=
  { notes := [exNote 60 0 4 10 0 false 0, exNote 60 4 8 120 0 false (1/25), exNote 64 4 6 10 0 false (1/25),
              exNote 67 30 31 64 0 false (3/10)],
    sps := 100, totalQSteps := 31 }

theorem exRel_spb : stepsPerBar exRel = .ok 16 := by decide +kernel

-- pianoroll_frames / pianoroll_frame_mem / pianoroll_index_error_iff
example := pianoroll_frames exRel 0 55 64 true (by decide) (by decide) (by decide) (by decide)
example := pianoroll_frame_mem exRel 0 55 64 true (by decide) (by decide) (by decide) (by decide)
example := pianoroll_index_error_iff exRel 0 55 64 true (by decide) (by decide) (by decide)
-- the cell the fixes were about: step 3 is silenced before the re-strike of pitch 60 at step 4, step 5 is not
example : rollSpec exRel.notes ⟨0, 55, 64, true, 26⟩ 3 5 = false ∧ rollSpec exRel.notes ⟨0, 55, 64, true, 26⟩ 5 5 = true ∧
    rollSpec exRel.notes ⟨0, 55, 64, false, 26⟩ 3 5 = true := by decide

-- drums_steps / drums_empty
example := drums_steps exRel 0 1 true false 16 exRel_spb (by decide) (by decide)
example := drums_steps exRel 0 1 false true 16 exRel_spb (by decide) (by decide)
example := drums_empty exRel 16 1 false false 16 exRel_spb (by decide)

-- chords_steps / chords_coincident_iff (identical chords at step 9 are not a conflict)
theorem exRel_noCoincidence : ¬ ChordsCoincident exRel 0 12 := by
  rintro ⟨a, ha, b, hb, _, _, hq, _, hlt, hne⟩
  simp only [exRel, List.mem_cons, List.not_mem_nil, or_false] at ha hb
  rcases ha with rfl | rfl | rfl | rfl <;> rcases hb with rfl | rfl | rfl | rfl <;> simp_all
example := chords_steps exRel 0 12 16 exRel_spb (by decide) exRel_noCoincidence
example := chords_coincident_iff exRel 0 12 16 exRel_spb (by decide)
example : ChordsCoincident { exRel with texts := exRel.texts ++ [⟨0, 9, 1, "x41"⟩] } 0 12 :=
  ⟨⟨0, 9, 1, "x47"⟩, by simp [exRel], ⟨0, 9, 1, "x41"⟩, by simp [exRel], rfl, rfl, rfl, by decide, by decide, by decide⟩

-- noteperf_tuples / noteperf_errors
theorem exAbs_sorted : sortedNotes exAbs 0 none = exAbs.notes := by
  have h : selectNotes exAbs 0 none = exAbs.notes := by decide +kernel
  rw [sortedNotes, h]
  exact List.mergeSort_of_pairwise (by decide +kernel)
theorem exAbs_valid : ∀ n ∈ exAbs.notes, (0 : Int) ≤ n.qs → instOk none n = true → NPValid n := by
  intro n hn _ _
  simp only [exAbs, List.mem_cons, List.not_mem_nil, or_false] at hn
  rcases hn with rfl | rfl | rfl | rfl <;> simp [NPValid, exNote]
theorem exAbs_ord : (sortedNotes exAbs 0 none).Pairwise (fun a b => a.qs ≤ b.qs) := by
  rw [exAbs_sorted]; decide
example := noteperf_errors exAbs 8 none 0 25 4 (by decide) (by decide) (by decide) exAbs_valid exAbs_ord
example := noteperf_tuples exAbs 8 none 0 26 4 (by decide) (by decide) (by decide) exAbs_valid exAbs_ord
  (by rw [exAbs_sorted]
      intro i n h
      simp only [exAbs] at h
      match i, h with
      | 0, h | 1, h | 2, h | 3, h =>
        simp only [List.getElem?_cons_zero, List.getElem?_cons_succ, Option.some.injEq] at h
        subst h; simp [prevStep, exAbs, exNote]
      | i + 4, h => simp at h)

-- perf_defined / perf_shifts / perf_onoff_multiset / perf_onsets_in_order / perf_notes_multiset (max_shift_steps = 8: 22 steps of
-- silence must be split)
theorem exAbs_perf : ∃ evs, perfEvents exAbs 0 8 8 none = .ok evs :=
  perf_defined exAbs 0 8 8 none (by decide) (by decide) (by
    intro n hn _ _
    simp only [exAbs, List.mem_cons, List.not_mem_nil, or_false] at hn
    rcases hn with rfl | rfl | rfl | rfl <;> simp [exNote])
theorem exAbs_wf : ∀ n ∈ exAbs.notes, (0 : Int) ≤ n.qs → instOk none n = true → n.qs ≤ n.qe := by decide
example : ∃ evs, perfEvents exAbs 0 8 8 none = .ok evs ∧ (∀ v, PEvent.timeShift v ∈ evs → 1 ≤ v ∧ v ≤ 8) ∧
    (noteStream 0 evs).Perm ((selectNotes exAbs 0 none).map (fun n => (PEvent.noteOn n.pitch, n.qs)) ++
      (selectNotes exAbs 0 none).map (fun n => (PEvent.noteOff n.pitch, n.qe))) ∧
    (onStream 0 0 evs).Perm ((selectNotes exAbs 0 none).map (fun n => (n.pitch, n.qs, binOf 8 0 n))) :=
  let ⟨evs, h⟩ := exAbs_perf
  ⟨evs, h, (perf_shifts exAbs 0 8 8 none evs (by decide) exAbs_wf h).1,
    perf_onoff_multiset exAbs 0 8 8 none evs (by decide) exAbs_wf h,
    (perf_onsets_in_order exAbs 0 8 8 none evs (by decide) exAbs_wf h).2⟩

theorem exAbs_select : selectNotes exAbs 0 none = exAbs.notes := by decide +kernel
example : ∃ evs, perfEvents exAbs 0 8 8 none = .ok evs ∧
    (decodeNotes 0 evs).Perm ((selectNotes exAbs 0 none).map fun n => (n.pitch, n.qs, n.qe, binOf 8 0 n)) :=
  let ⟨evs, h⟩ := exAbs_perf
  ⟨evs, h, perf_notes_multiset exAbs 0 8 8 none evs (by decide)
    (by rw [exAbs_select]; unfold NoSamePitchOverlap; decide +kernel)
    (by rw [exAbs_select]; decide) h⟩

-- steps_per_bar_nonInteger_iff (binary64 rounding is exact on 4/4 at 4 steps per quarter; 3/8 at 1 step is rejected)
example := steps_per_bar_nonInteger_iff rne53 exRel ⟨0, 4, 4⟩ [] rfl (by decide) (by decide)
  ⟨by decide +kernel, by decide +kernel, by decide +kernel⟩
example : stepsPerBar { exRel with spq := 1, timeSigs := [⟨0, 3, 8⟩] } = .error .nonIntegerStepsPerBarError := by
  decide +kernel
example := extractors_nonInteger_iff exRel

-- melody_steps: instrument 0 with the drum hit filtered; selected notes in (start step, −pitch) order
theorem exRel_melSorted :
    (exRel.notes.filter (melSel 0 0 true)).mergeSort melLe =
      exNote 64 0 2 :: [exNote 55 0 2, exNote 60 2 4, exNote 60 4 6, exNote 62 24 26] := by
  have h : exRel.notes.filter (melSel 0 0 true) =
      [exNote 64 0 2, exNote 55 0 2, exNote 60 2 4, exNote 60 4 6, exNote 62 24 26] := by decide +kernel
  rw [h]
  exact List.mergeSort_of_pairwise (by decide +kernel)
theorem exRel_melValid : ∀ n ∈ exRel.notes, melSel 0 0 true n = true → n.qs < n.qe ∧ 0 ≤ n.pitch := by decide
example := melody_steps exRel 0 0 1 true false true 16 exRel_spb (by decide) exRel_melValid _ _ exRel_melSorted
example := melody_steps exRel 0 0 1 false true true 16 exRel_spb (by decide) exRel_melValid _ _ exRel_melSorted
-- the kept notes: the highest note of the chord, the two abutting notes; the note at step 24 is 18 ≥ 16 steps after
-- the end (6) of the last kept note; the chord at step 0 is the duplicate
example : keptFrom 16 (exNote 64 0 2) [exNote 55 0 2, exNote 60 2 4, exNote 60 4 6, exNote 62 24 26] =
    [exNote 60 2 4, exNote 60 4 6] ∧
    dupFrom 16 (exNote 64 0 2) [exNote 55 0 2, exNote 60 2 4, exNote 60 4 6, exNote 62 24 26] = true := by
  decide +kernel
example := melody_empty exRel 0 2 1 true false true 16 exRel_spb (by decide)
-- melody_order / chords_order / kept_top, and the tie-breaks of the two sort keys: of two notes of pitch 60 on step 0
-- the one starting at 0 s precedes the one starting at 0.06 s (and not conversely); of two chords on step 2 the one at
-- 0.25 s precedes the one at 0.26 s
example := melody_order exRel 0 0 true
example := chords_order exRel
example := kept_top 16 [exNote 55 0 2, exNote 60 2 4, exNote 60 4 6, exNote 62 24 26] (exNote 64 0 2) (exNote 60 4 6)
  (by rw [← exRel_melSorted]; exact (melody_order exRel 0 0 true).1) (by decide +kernel)
example : MelOrd (exNote 60 0 1 100 0 false 0) (exNote 60 0 3 100 0 false (3/50)) ∧
    ¬ MelOrd (exNote 60 0 3 100 0 false (3/50)) (exNote 60 0 1 100 0 false 0) := by unfold MelOrd; decide +kernel
example : ChordOrd ⟨1/4, 2, 1, "x43"⟩ ⟨13/50, 2, 1, "x47"⟩ ∧ ¬ ChordOrd ⟨13/50, 2, 1, "x47"⟩ ⟨1/4, 2, 1, "x43"⟩ := by
  unfold ChordOrd; decide +kernel
example := bar_start 24 0 16 (by decide)


end NSV.C07
