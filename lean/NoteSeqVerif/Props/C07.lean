import NoteSeqVerif.Model.C07
namespace NSV.C07
end NSV.C07
