import NoteSeqVerif.Props.C13
import NoteSeqVerif.Model.C11WF
import Mathlib.Tactic.Linarith
-- THEOREMS: wf_adjust wf_rectify no_invention_adjust no_invention_rectify
/-! # C11 (b) — adjust_notesequence_times / rectify_beats return well-formed sequences, invent nothing
Corollaries of `NSV.C13.adjust_ok_iff` (model owned by C13, imported read-only).  These two operations
*check* what they produce (they raise `InvalidTimeAdjustmentError` otherwise), so the result is
well-formed for **every** input sequence, every time map `f` (monotone or not) and every `R` —
no hypothesis at all. -/
namespace NSV.C11
open NSV NSV.C13

theorem wf_adjusted (f R : Rat → Rat) (md : Rat) (s : NoteSeq)
    (h1 : ∀ n ∈ s.notes, ¬ adjBad f R md n) (h2 : ∀ t ∈ adjustedTimes s, ¬ f t < 0) : WF (adjusted f R md s) := by
  have hev : ∀ t ∈ adjustedTimes s, 0 ≤ f t := fun t ht => not_lt.mp (h2 t ht)
  refine ⟨?_, (maxEnd_is_max _ 0).1, ⟨?_, ?_, ?_, ?_, ?_, ?_, ?_⟩⟩
  · intro n hn
    have hcov := (adjust_total_is_max f R md s).1 n hn
    have hn' : n ∈ s.notes.filterMap (adjNote f R md) := hn
    obtain ⟨m, hm, hmn⟩ := List.mem_filterMap.mp hn'
    have hb := h1 m hm
    unfold adjBad at hb
    have hgood : ¬ (n.end_ < n.start ∨ n.start < 0 ∨ n.end_ < 0) := fun hh => hb ⟨n, hmn, hh⟩
    refine ⟨?_, ?_, hcov⟩
    · by_contra hc; exact hgood (Or.inr (Or.inl (lt_of_not_ge hc)))
    · by_contra hc; exact hgood (Or.inl (lt_of_not_ge hc))
  · intro e he
    have : e ∈ ([] : List Tempo) := he
    simp at this
  · intro e he
    have he' : e ∈ s.timeSigs.map (fun e => { e with time := f e.time }) := he
    obtain ⟨m, hm, rfl⟩ := List.mem_map.mp he'
    exact hev _ (by simp [adjustedTimes]; right; right; left; exact ⟨m, hm, rfl⟩) |> fun h => by simpa using h
  · intro e he
    have he' : e ∈ s.keySigs.map (fun e => { e with time := f e.time }) := he
    obtain ⟨m, hm, rfl⟩ := List.mem_map.mp he'
    have : m.time ∈ adjustedTimes s := by
      simp only [adjustedTimes, List.mem_append, List.mem_map]
      exact Or.inl (Or.inl (Or.inr ⟨m, hm, rfl⟩))
    exact hev _ this
  · intro e he
    have he' : e ∈ s.texts.map (fun e => { e with time := f e.time }) := he
    obtain ⟨m, hm, rfl⟩ := List.mem_map.mp he'
    have : m.time ∈ adjustedTimes s := by
      simp only [adjustedTimes, List.mem_append, List.mem_map]
      exact Or.inl (Or.inr ⟨m, hm, rfl⟩)
    exact hev _ this
  · intro e he
    have he' : e ∈ s.ccs.map (fun e => { e with time := f e.time }) := he
    obtain ⟨m, hm, rfl⟩ := List.mem_map.mp he'
    have : m.time ∈ adjustedTimes s := by
      simp only [adjustedTimes, List.mem_append, List.mem_map]
      exact Or.inl (Or.inl (Or.inl (Or.inl (Or.inl ⟨m, hm, rfl⟩))))
    exact hev _ this
  · intro e he
    have he' : e ∈ s.bends.map (fun e => { e with time := f e.time }) := he
    obtain ⟨m, hm, rfl⟩ := List.mem_map.mp he'
    have : m.time ∈ adjustedTimes s := by
      simp only [adjustedTimes, List.mem_append, List.mem_map]
      exact Or.inl (Or.inl (Or.inl (Or.inl (Or.inr ⟨m, hm, rfl⟩))))
    exact hev _ this
  · intro e he
    have he' : e ∈ s.sectionAnns.map (fun e => { e with time := f e.time }) := he
    obtain ⟨m, hm, rfl⟩ := List.mem_map.mp he'
    have : m.time ∈ adjustedTimes s := by
      simp only [adjustedTimes, List.mem_append, List.mem_map]
      exact Or.inr ⟨m, hm, rfl⟩
    exact hev _ this

/-- `adjust_notesequence_times`: whatever the sequence and the time function, a returned sequence is well-formed -/
theorem wf_adjust (f R : Rat → Rat) (md : Rat) (s r : NoteSeq) (k : Nat) (h : adjustR f R md s = .ok (r, k)) :
    WF r := by
  obtain ⟨h1, h2, hr, _⟩ := (adjust_ok_iff f R md s r k).mp h
  rw [hr]; exact wf_adjusted f R md s h1 h2

/-- `rectify_beats`: whatever the sequence and the tempo, a returned sequence is well-formed -/
theorem wf_rectify (R : Rat → Rat) (bpm : Rat) (s r : NoteSeq) (al : List (Rat × Rat))
    (h : rectifyR R bpm s = .ok (r, al)) : WF r := by
  have hq : s.isQuantized = false := by
    cases hq : s.isQuantized with
    | false => rfl
    | true => rw [rectify_quantized R bpm s hq] at h; cases h
  have hb : beatTimes s ≠ [] := by
    intro hb
    rw [(rectify_no_beats_iff R bpm s).mpr ⟨hq, hb⟩] at h; cases h
  have h0 : bpm ≠ 0 := by
    intro h0
    unfold rectifyR at h
    have hb' : (beatTimes s).isEmpty = false := by cases hh : beatTimes s <;> simp_all
    simp [hq, hb', h0] at h
  obtain ⟨p, rest, _, hspec⟩ := rectify_spec R bpm s hq hb h0
  rw [hspec] at h
  cases ha : adjustR (interpR R p rest 0 s.totalTime) R 0 s with
  | error e => rw [ha] at h; cases h
  | ok v =>
    obtain ⟨r', k⟩ := v
    rw [ha] at h
    have hr : r = { r' with timeSigs := [], tempos := [⟨0, bpm⟩] } := by
      have := Except.ok.inj h
      exact (Prod.mk.inj this).1.symm
    have hw := wf_adjust _ R 0 s r' k ha
    rw [hr]
    refine ⟨hw.notes, hw.total, ⟨?_, ?_, hw.events.keySigs, hw.events.texts, hw.events.ccs, hw.events.bends,
      hw.events.sectionAnns⟩⟩
    · intro e he
      have : e ∈ [(⟨0, bpm⟩ : Tempo)] := he
      simp at this; subst this; exact le_refl _
    · intro e he
      have : e ∈ ([] : List TimeSig) := he
      simp at this

/-- the kept notes are input notes (tag, pitch, velocity, … intact), in order, each at most once -/
theorem no_invention_adjust (f R : Rat → Rat) (md : Rat) (s r : NoteSeq) (k : Nat)
    (h : adjustR f R md s = .ok (r, k)) : NoInvention s.notes r.notes ∧ NoDuplication s.notes r.notes := by
  obtain ⟨_, _, hr, _⟩ := (adjust_ok_iff f R md s r k).mp h
  rw [hr]
  show NoInvention s.notes (s.notes.filterMap (adjNote f R md)) ∧ NoDuplication s.notes (s.notes.filterMap (adjNote f R md))
  refine ⟨?_, ?_⟩
  · intro n hn
    obtain ⟨m, hm, hmn⟩ := List.mem_filterMap.mp hn
    refine ⟨m, hm, ?_⟩
    unfold adjNote at hmn
    split at hmn
    · cases hmn
    · cases hmn; exact ⟨rfl, rfl, rfl, rfl, rfl, rfl, rfl, rfl⟩
  · intro t
    induction s.notes with
    | nil => simp
    | cons a l ih =>
      simp only [List.filterMap_cons]
      cases ha : adjNote f R md a with
      | none =>
        simp only [List.filter_cons]
        split
        · simp only [List.length_cons]; omega
        · exact ih
      | some b =>
        have hv : b.voice = a.voice := by
          unfold adjNote at ha
          split at ha
          · cases ha
          · cases ha; rfl
        simp only [List.filter_cons, hv]
        split
        · simp only [List.length_cons]; omega
        · exact ih

theorem no_invention_rectify (R : Rat → Rat) (bpm : Rat) (s r : NoteSeq) (al : List (Rat × Rat))
    (h : rectifyR R bpm s = .ok (r, al)) : NoInvention s.notes r.notes ∧ NoDuplication s.notes r.notes := by
  have hq : s.isQuantized = false := by
    cases hq : s.isQuantized with
    | false => rfl
    | true => rw [rectify_quantized R bpm s hq] at h; cases h
  have hb : beatTimes s ≠ [] := by
    intro hb
    rw [(rectify_no_beats_iff R bpm s).mpr ⟨hq, hb⟩] at h; cases h
  have h0 : bpm ≠ 0 := by
    intro h0
    unfold rectifyR at h
    have hb' : (beatTimes s).isEmpty = false := by cases hh : beatTimes s <;> simp_all
    simp [hq, hb', h0] at h
  obtain ⟨p, rest, _, hspec⟩ := rectify_spec R bpm s hq hb h0
  rw [hspec] at h
  cases ha : adjustR (interpR R p rest 0 s.totalTime) R 0 s with
  | error e => rw [ha] at h; cases h
  | ok v =>
    obtain ⟨r', k⟩ := v
    rw [ha] at h
    have hr : r = { r' with timeSigs := [], tempos := [⟨0, bpm⟩] } := by
      have := Except.ok.inj h
      exact (Prod.mk.inj this).1.symm
    have := no_invention_adjust _ R 0 s r' k ha
    rw [hr]; exact this

/-! non-vacuity: C13's example is adjusted by a non-monotone-safe map and the statement is not empty -/
example : (adjustR (fun t => 2 * t) id 0 exSeq).toOption.isSome = true := by decide +kernel

end NSV.C11
