import NoteSeqVerif.Proofs.C20_pcm
/-! C20 — chunk 08/16 of the exhaustive int16 round-trip check: the 4096 values
0 … 4095, decided by kernel evaluation of the model (`rne24` on exact rationals). -/
namespace NSV.C20
set_option maxRecDepth 100000 in
theorem pcm_chunk08 : pcmOkRange (0) 4096 = true := by decide +kernel
end NSV.C20
