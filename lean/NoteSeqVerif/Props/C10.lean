import NoteSeqVerif.Proofs.C10
/-! C10 — transposition shifts every pitch, key and chord by the same interval: property theorems.
Tables (`stepsAbove`, `stepsMidi`, `NOTES_PER_OCTAVE`, `clampTranspose`, …) are regenerated from the
Python source on every run, so a changed table changes the statements checked here.
`split` is the (unverified, monitored) regex splitter of chord figures: every theorem holds for
every `split`. -/
namespace NSV.C10
open Gen

/-! ## `_transpose_pitch_class` -/

/-- ∀ step ∈ A..G, ∀ alter ∈ ℤ, ∀ k ∈ ℤ: the MIDI pitch class of the transposed spelling is the
original pitch class plus `k` modulo 12 -/
theorem transpose_pitch_class_hom (p : PC) (k : Int) :
    (transposePC p k).midi = Int.fmod (p.midi + k) 12 := by
  have hk : 0 ≤ Int.fmod k 12 := by rw [fmod12]; omega
  obtain ⟨h0, h1, h2⟩ := walk_spec p.step (Int.fmod k 12) hk
  have hn := stepsMidi_next (walk p.step (Int.fmod k 12)).1
  unfold transposePC PC.midi
  simp only [fmod12] at *
  split
  · split <;> simp only [] <;> omega
  · simp only []; omega

/-- pitch classes are in `0..11` -/
theorem midi_range (p : PC) : 0 ≤ p.midi ∧ p.midi < 12 := by
  unfold PC.midi; rw [fmod12]; omega

/-- transposing by a multiple of 12 leaves even the spelling alone -/
theorem transpose_pitch_class_octave (p : PC) (k : Int) (h : k % 12 = 0) : transposePC p k = p := by
  unfold transposePC
  have : Int.fmod k 12 = 0 := by rw [fmod12]; exact h
  rw [this, walk_zero]
  simp

/-- only the amount modulo 12 matters -/
theorem transpose_pitch_class_mod (p : PC) (k : Int) : transposePC p (Int.fmod k 12) = transposePC p k := by
  unfold transposePC
  have : Int.fmod (Int.fmod k 12) 12 = Int.fmod k 12 := by simp only [fmod12]; omega
  rw [this]

/-- `k` then `−k` is the identity on pitch classes (the spelling may change: C♯ → D → D♭) -/
theorem transpose_pitch_class_inverse (p : PC) (k : Int) :
    (transposePC (transposePC p k) (-k)).midi = p.midi := by
  rw [transpose_pitch_class_hom, transpose_pitch_class_hom]
  have := midi_range p
  simp only [fmod12]; omega

/-- a transposition changes the alteration by at most one, toward zero or from 0 to a single flat;
so the number of accidentals never exceeds `max |alter| 1`, and (`accidentals`) a spelling is always
the step letter followed by sharps only or flats only -/
theorem transpose_pitch_class_alter (p : PC) (k : Int) :
    (0 ≤ p.alter → (transposePC p k).alter = p.alter ∨ (transposePC p k).alter = p.alter - 1) ∧
    (p.alter < 0 → (transposePC p k).alter = p.alter ∨ (transposePC p k).alter = p.alter + 1) := by
  have hk : 0 ≤ Int.fmod k 12 := by rw [fmod12]; omega
  obtain ⟨h0, h1, _⟩ := walk_spec p.step (Int.fmod k 12) hk
  have h2 := stepsAbove_le_two (walk p.step (Int.fmod k 12)).1
  unfold transposePC
  by_cases hw : 0 < (walk p.step (Int.fmod k 12)).2 <;> by_cases ha : 0 ≤ p.alter <;>
    simp only [hw, ha, ↓reduceIte] <;> constructor <;> intro h <;>
    first | omega | exact False.elim h | exact Or.inl trivial

/-- re-parsing the printed pitch class (`_parse_pitch_class ∘ _pitch_class_to_string`) gives the
same step and alteration back, for every step and every alteration -/
theorem parse_print_pitch_class (p : PC) : parsePCChars (pcChars p) = some p := by
  obtain ⟨step, alter⟩ := p
  have hstep : ∀ s : Step, (if s.letter = 'A' then some Step.A else if s.letter = 'B' then some Step.B
      else if s.letter = 'C' then some Step.C else if s.letter = 'D' then some Step.D
      else if s.letter = 'E' then some Step.E else if s.letter = 'F' then some Step.F
      else if s.letter = 'G' then some Step.G else none) = some s := by
    intro s; cases s <;> decide
  simp only [pcChars, parsePCChars, hstep, accidentals]
  by_cases h : 0 ≤ alter
  · by_cases h0 : alter.natAbs = 0
    · have : alter = 0 := by omega
      subst this; simp
    · simp [h, h0, List.all_replicate]; omega
  · have h0 : alter.natAbs ≠ 0 := by omega
    simp [h, h0, List.all_replicate]; omega

example : transposePC ⟨.C, 1⟩ 1 = ⟨.D, 0⟩ ∧ transposePC ⟨.E, -2⟩ 7 = ⟨.B, -2⟩ ∧
    transposePC ⟨.B, 2⟩ (-13) = ⟨.B, 1⟩ ∧ (transposePC ⟨.F, 0⟩ 6).midi = 11 := by decide +kernel

/-! ## `transpose_chord_symbol`, `chord_symbol_{root,bass,pitches,quality}` on structured symbols -/

/-- for every structured symbol and every `k`: root, bass and every pitch class move by `k` modulo 12;
kind and modifications — hence the scale degrees and the quality — are unchanged; a symbol whose
modifications cannot be applied stays uninterpretable (same error) -/
theorem transpose_symbol_hom (c : Sym) (k : Int) :
    symRoot (transposeSym c k) = Int.fmod (symRoot c + k) 12 ∧
    symBass (transposeSym c k) = Int.fmod (symBass c + k) 12 ∧
    symPitches (transposeSym c k) = (symPitches c).map (List.map (fun p => Int.fmod (p + k) 12)) ∧
    (transposeSym c k).kind = c.kind ∧ (transposeSym c k).mods = c.mods ∧
    (transposeSym c k).modList = c.modList ∧
    symQuality (transposeSym c k) = symQuality c := by
  refine ⟨transpose_pitch_class_hom _ _, ?_, ?_, rfl, rfl, rfl, rfl⟩
  · unfold symBass transposeSym
    cases c.bass <;> simp [transpose_pitch_class_hom]
  · have hr : (transposeSym c k).root.midi = Int.fmod (c.root.midi + k) 12 := transpose_pitch_class_hom _ _
    have hrel : symRel (transposeSym c k) = symRel c := rfl
    unfold symPitches
    rw [hrel, hr]
    cases symRel c with
    | error e => rfl
    | ok rel =>
      simp only [Except.map, List.map_map]
      congr 1
      apply List.map_congr_left
      intro r _
      simp only [Function.comp, fmod12]
      omega

/-- `k` then `−k`, and `12`, preserve root, bass and all pitch classes -/
theorem transpose_symbol_inverse (c : Sym) (k : Int) :
    symRoot (transposeSym (transposeSym c k) (-k)) = symRoot c ∧
    symBass (transposeSym (transposeSym c k) (-k)) = symBass c ∧
    symPitches (transposeSym (transposeSym c k) (-k)) = symPitches c ∧
    symQuality (transposeSym (transposeSym c k) (-k)) = symQuality c := by
  refine ⟨transpose_pitch_class_inverse _ _, ?_, ?_, rfl⟩
  · unfold symBass transposeSym
    cases c.bass <;> simp [transpose_pitch_class_inverse]
  · have hr : (transposeSym (transposeSym c k) (-k)).root.midi = c.root.midi := transpose_pitch_class_inverse _ _
    have hrel : symRel (transposeSym (transposeSym c k) (-k)) = symRel c := rfl
    unfold symPitches
    rw [hrel, hr]

/-- transposing by an octave returns the very same symbol (spelling included) -/
theorem transpose_symbol_octave (c : Sym) (k : Int) (h : k % 12 = 0) : transposeSym c k = c := by
  obtain ⟨root, kind, mods, modList, bass⟩ := c
  unfold transposeSym
  cases bass <;> simp [transpose_pitch_class_octave _ k h]

/-- the C♯m7(b5)/G♭ of the driver smoke test: a symbol with modifications and a slash bass -/
example : symPitches (transposeSym ⟨⟨.C, 1⟩, "m7", "(b5)", [⟨"b", 5⟩], some ⟨.G, -1⟩⟩ 3) = .ok [4, 7, 10, 2] ∧
    symPitches ⟨⟨.C, 1⟩, "m7", "(b5)", [⟨"b", 5⟩], some ⟨.G, -1⟩⟩ = .ok [1, 4, 7, 11] ∧
    render (transposeSym ⟨⟨.C, 1⟩, "m7", "(b5)", [⟨"b", 5⟩], some ⟨.G, -1⟩⟩ 3) = "Em7(b5)/A" := by
  decide +kernel

/-! ## `transpose_note_sequence` -/

/-- what the statement says about one text annotation -/
def TextRel (split : String → Except Err Sym) (k : Int) (t t' : TextAnn) : Prop :=
  if t.kind = CHORD_SYMBOL ∧ t.text ≠ NO_CHORD then
    ∃ c, split t.text = .ok c ∧ t' = { t with text := render (transposeSym c k) }
  else t' = t

def IsChord (t : TextAnn) : Prop := t.kind = CHORD_SYMBOL ∧ t.text ≠ NO_CHORD

theorem textLoop_ok (split : String → Except Err Sym) (k : Int) (ts r : List TextAnn)
    (h : textLoop split k ts = .ok r) : Pointwise (TextRel split k) ts r := by
  induction ts generalizing r with
  | nil => simp [textLoop] at h; subst h; trivial
  | cons t ts ih =>
    unfold textLoop at h
    by_cases hc : t.kind = CHORD_SYMBOL ∧ t.text ≠ NO_CHORD
    · rw [if_pos hc] at h
      unfold transposeFigure at h
      cases hs : split t.text with
      | error e => simp [hs] at h
      | ok c =>
        simp only [hs] at h
        cases hr : textLoop split k ts with
        | error e => simp [hr] at h
        | ok r' =>
          simp only [hr, Except.ok.injEq] at h
          subst h
          exact ⟨by unfold TextRel; rw [if_pos hc]; exact ⟨c, hs, rfl⟩, ih r' hr⟩
    · rw [if_neg hc] at h
      cases hr : textLoop split k ts with
      | error e => simp [hr] at h
      | ok r' =>
        simp only [hr, Except.ok.injEq] at h
        subst h
        exact ⟨by unfold TextRel; rw [if_neg hc], ih r' hr⟩

theorem textLoop_error_iff (split : String → Except Err Sym) (k : Int) (ts : List TextAnn) (e : Err) :
    textLoop split k ts = .error e →
      ∃ t ∈ ts, IsChord t ∧ split t.text = .error e := by
  induction ts with
  | nil => simp [textLoop]
  | cons t ts ih =>
    intro h
    unfold textLoop at h
    by_cases hc : t.kind = CHORD_SYMBOL ∧ t.text ≠ NO_CHORD
    · rw [if_pos hc] at h
      unfold transposeFigure at h
      cases hs : split t.text with
      | error e' =>
        simp only [hs, Except.error.injEq] at h
        subst h
        exact ⟨t, by simp, hc, hs⟩
      | ok c =>
        simp only [hs] at h
        cases hr : textLoop split k ts with
        | error e' =>
          simp only [hr, Except.error.injEq] at h
          subst h
          obtain ⟨t', ht', h'⟩ := ih hr
          exact ⟨t', by simp [ht'], h'⟩
        | ok r' => simp [hr] at h
    · rw [if_neg hc] at h
      cases hr : textLoop split k ts with
      | error e' =>
        simp only [hr, Except.error.injEq] at h
        subst h
        obtain ⟨t', ht', h'⟩ := ih hr
        exact ⟨t', by simp [ht'], h'⟩
      | ok r' => simp [hr] at h

theorem textLoop_total (split : String → Except Err Sym) (k : Int) (ts : List TextAnn)
    (h : ∀ t ∈ ts, IsChord t → ∃ c, split t.text = .ok c) : ∃ r, textLoop split k ts = .ok r := by
  cases hr : textLoop split k ts with
  | ok r => exact ⟨r, rfl⟩
  | error e =>
    obtain ⟨t, ht, hc, hs⟩ := textLoop_error_iff split k ts e hr
    obtain ⟨c, hc'⟩ := h t ht hc
    rw [hc'] at hs; cases hs

/-- The specification of `transpose_note_sequence` for every sequence, amount, allowed range,
`transpose_chords` flag and splitter, when the call returns `(out, deleted)`:
1. the output notes are the input notes that are drums or whose new pitch lies in `[mn, mx]`, in
   input order, drums untouched, pitched notes with `pitch + k`, the pitch name reset and every
   other attribute (times, velocity, instrument, …) unchanged;
2. `deleted` is the number of the other notes, so `deleted + |out.notes| = |s.notes|`;
3. `total_time` becomes the largest end time of the kept notes (0 when there is none) — it is reset
   even when nothing is deleted;
4. every key signature keeps its time and mode and gets key `(key + k) mod 12`;
5. `transpose_chords = True`: the annotations correspond one to one; chord symbols other than `N.C.`
   become the re-assembled transposed structure, everything else is untouched;
   `transpose_chords = False`: exactly the chord-symbol annotations (including `N.C.`) are removed;
6. nothing else changes. -/
theorem transpose_ns_spec (split : String → Except Err Sym) (s out : NoteSeq) (k mn mx : Int)
    (tc : Bool) (deleted : Nat) (h : transposeNS split s k mn mx tc = .ok (out, deleted)) :
    out.notes = (s.notes.filter (keepNote k mn mx)).map (moveNote k) ∧
    deleted = (s.notes.filter (fun n => !keepNote k mn mx n)).length ∧
    deleted + out.notes.length = s.notes.length ∧
    ((∀ n ∈ out.notes, n.end_ ≤ out.totalTime) ∧ 0 ≤ out.totalTime ∧
      (out.totalTime = 0 ∨ ∃ n ∈ out.notes, n.end_ = out.totalTime)) ∧
    out.keySigs = s.keySigs.map (fun ks => { ks with key := Int.fmod (ks.key + k) 12 }) ∧
    (tc = true → Pointwise (TextRel split k) s.texts out.texts) ∧
    (tc = false → out.texts = s.texts.filter (fun t => t.kind ≠ CHORD_SYMBOL)) ∧
    (out.tempos = s.tempos ∧ out.timeSigs = s.timeSigs ∧ out.ccs = s.ccs ∧ out.bends = s.bends ∧
      out.sectionAnns = s.sectionAnns ∧ out.sgroups = s.sgroups ∧ out.totalQSteps = s.totalQSteps ∧
      out.spq = s.spq ∧ out.sps = s.sps ∧ out.hasSub = s.hasSub ∧ out.subStart = s.subStart ∧
      out.subEnd = s.subEnd ∧ out.tpq = s.tpq ∧ out.metaTag = s.metaTag) := by
  unfold transposeNS at h
  rw [noteLoop_eq] at h
  simp only [List.nil_append, Nat.zero_add] at h
  have hlen : ∀ l : List Note, (l.filter (fun n => !keepNote k mn mx n)).length +
      ((l.filter (keepNote k mn mx)).map (moveNote k)).length = l.length := by
    intro l
    induction l with
    | nil => simp
    | cons a l ih =>
      by_cases hk : keepNote k mn mx a <;> simp [hk] at * <;> omega
  have htt : let kept := s.notes.filter (keepNote k mn mx)
      (∀ n ∈ kept.map (moveNote k), n.end_ ≤ kept.foldl maxEnd 0) ∧ 0 ≤ kept.foldl maxEnd 0 ∧
      (kept.foldl maxEnd 0 = 0 ∨ ∃ n ∈ kept.map (moveNote k), n.end_ = kept.foldl maxEnd 0) := by
    intro kept
    refine ⟨?_, foldl_maxEnd_ge kept 0, ?_⟩
    · intro n hn
      obtain ⟨m, hm, rfl⟩ := List.mem_map.mp hn
      rw [moveNote_end]
      exact foldl_maxEnd_covers kept 0 m hm
    · rcases foldl_maxEnd_attained kept 0 with h0 | ⟨m, hm, h1⟩
      · exact Or.inl h0
      · exact Or.inr ⟨moveNote k m, List.mem_map.mpr ⟨m, hm, rfl⟩, by rw [moveNote_end]; exact h1⟩
  cases tc with
  | true =>
    simp only [if_true] at h
    cases ht : textLoop split k s.texts with
    | error e => simp [ht] at h
    | ok texts =>
      simp only [ht, Except.ok.injEq, Prod.mk.injEq] at h
      obtain ⟨h1, h2⟩ := h
      subst h1 h2
      refine ⟨rfl, rfl, hlen _, htt, rfl, ?_, ?_, ?_⟩
      · intro _; exact textLoop_ok split k _ _ ht
      · intro hf; cases hf
      · simp
  | false =>
    simp only [Bool.false_eq_true, if_false, Except.ok.injEq, Prod.mk.injEq] at h
    obtain ⟨h1, h2⟩ := h
    subst h1 h2
    refine ⟨rfl, rfl, hlen _, htt, rfl, ?_, ?_, ?_⟩
    · intro hf; cases hf
    · intro _; rfl
    · simp

/-- a kept note: drums are returned as they are; a pitched note moves by exactly `k`, keeps
velocity, times and every other attribute, and only loses its pitch name -/
theorem moveNote_spec (k : Int) (n : Note) :
    (n.isDrum = true → moveNote k n = n) ∧
    (n.isDrum = false → moveNote k n = { n with pitch := n.pitch + k, pitchName := UNKNOWN_PITCH_NAME }) := by
  unfold moveNote
  cases n.isDrum <;> simp

/-- a note is kept iff it is a drum or `mn ≤ pitch + k ≤ mx` -/
theorem keepNote_iff (k mn mx : Int) (n : Note) :
    keepNote k mn mx n = true ↔ (n.isDrum = true ∨ (mn ≤ n.pitch + k ∧ n.pitch + k ≤ mx)) := by
  unfold keepNote
  simp only [Bool.or_eq_true, Bool.and_eq_true, decide_eq_true_eq]
  constructor <;> intro h <;> rcases h with h | h <;> simp [h]

/-- the call raises exactly when `transpose_chords` is set and some chord-symbol annotation other
than `N.C.` cannot be split; the error is the splitter's -/
theorem transpose_ns_error (split : String → Except Err Sym) (s : NoteSeq) (k mn mx : Int) (tc : Bool) :
    (∀ e, transposeNS split s k mn mx tc = .error e →
      tc = true ∧ ∃ t ∈ s.texts, IsChord t ∧ split t.text = .error e) ∧
    ((tc = false ∨ ∀ t ∈ s.texts, IsChord t → ∃ c, split t.text = .ok c) →
      ∃ r, transposeNS split s k mn mx tc = .ok r) := by
  constructor
  · intro e h
    unfold transposeNS at h
    cases tc with
    | false => simp at h
    | true =>
      simp only [if_true] at h
      cases ht : textLoop split k s.texts with
      | ok r => simp [ht] at h
      | error e' =>
        simp only [ht, Except.error.injEq] at h
        subst h
        exact ⟨rfl, textLoop_error_iff split k _ _ ht⟩
  · intro h
    unfold transposeNS
    cases tc with
    | false => simp
    | true =>
      rcases h with h | h
      · cases h
      · obtain ⟨r, hr⟩ := textLoop_total split k s.texts h
        simp [hr]

/-- every rewritten chord annotation denotes the transposed chord, provided re-splitting a
re-assembled transposed figure gives back the transposed structure (the string-layer fact that the
correspondence check monitors on every transposed figure of every run) -/
theorem transpose_ns_chords_hom (split : String → Except Err Sym) (k : Int) (t t' : TextAnn)
    (hresplit : ∀ c, split t.text = .ok c → split (render (transposeSym c k)) = .ok (transposeSym c k))
    (hc : IsChord t) (hrel : TextRel split k t t') :
    ∃ c c', split t.text = .ok c ∧ split t'.text = .ok c' ∧
      t'.time = t.time ∧ t'.kind = t.kind ∧ t'.qstep = t.qstep ∧
      symRoot c' = Int.fmod (symRoot c + k) 12 ∧ symBass c' = Int.fmod (symBass c + k) 12 ∧
      symPitches c' = (symPitches c).map (List.map (fun p => Int.fmod (p + k) 12)) ∧
      symQuality c' = symQuality c := by
  unfold TextRel at hrel
  rw [if_pos (show t.kind = CHORD_SYMBOL ∧ t.text ≠ NO_CHORD from hc)] at hrel
  obtain ⟨c, hs, rfl⟩ := hrel
  obtain ⟨h1, h2, h3, _, _, _, h4⟩ := transpose_symbol_hom c k
  exact ⟨c, transposeSym c k, hs, hresplit c hs, rfl, rfl, rfl, h1, h2, h3, h4⟩

/-- non-vacuity of `transpose_ns_chords_hom`: a splitter that knows `G7` and `A7`, a chord annotation, its image -/
example :
    let split : String → Except Err Sym := fun t =>
      if t = "G7" then .ok ⟨⟨.G, 0⟩, "7", "", [], none⟩
      else if t = "A7" then .ok ⟨⟨.A, 0⟩, "7", "", [], none⟩ else .error chordSymbolError
    let t : TextAnn := ⟨3 / 2, 0, 1, "G7"⟩
    IsChord t ∧ TextRel split 2 t { t with text := "A7" } ∧
    (∀ c, split t.text = .ok c → split (render (transposeSym c 2)) = .ok (transposeSym c 2)) := by
  intro split t
  have hc : IsChord t := by unfold IsChord; decide +kernel
  refine ⟨hc, ?_, ?_⟩
  · unfold TextRel
    rw [if_pos (show t.kind = CHORD_SYMBOL ∧ t.text ≠ NO_CHORD from hc)]
    exact ⟨⟨⟨.G, 0⟩, "7", "", [], none⟩, by decide +kernel, by decide +kernel⟩
  · intro c hcs
    have : c = ⟨⟨.G, 0⟩, "7", "", [], none⟩ := by
      have h2 : split t.text = .ok ⟨⟨.G, 0⟩, "7", "", [], none⟩ := by decide +kernel
      rw [h2] at hcs; cases hcs; rfl
    subst this
    decide +kernel

/-- key signatures end in `0..11` -/
theorem transpose_key_range (k : Int) (ks : KeySig) :
    0 ≤ (transposeKey k ks).key ∧ (transposeKey k ks).key < 12 ∧
    ((transposeKey k ks).key - (ks.key + k)) % 12 = 0 ∧
    (transposeKey k ks).time = ks.time ∧ (transposeKey k ks).mode = ks.mode := by
  refine ⟨?_, ?_, ?_, rfl, rfl⟩ <;> simp only [transposeKey, fmod12] <;> omega

/-- non-vacuity: a drum at the lower edge, a pitched note exactly at the upper edge (kept), one just
above it (deleted), a key signature and a chord annotation -/
example :
    let split : String → Except Err Sym := fun t =>
      if t = "G7" then .ok ⟨⟨.G, 0⟩, "7", "", [], none⟩ else .error chordSymbolError
    let n (p : Int) (d : Bool) (e : Rat) : Note := { (default : Note) with pitch := p, isDrum := d, end_ := e }
    let s : NoteSeq := { notes := [n 10 true 1, n 70 false 2, n 71 false 3],
                         keySigs := [⟨0, 11, 0⟩], texts := [⟨0, 0, 1, "G7"⟩, ⟨0, 0, 1, "N.C."⟩], totalTime := 3 }
    transposeNS split s 2 60 72 true =
      .ok ({ s with notes := [n 10 true 1, { n 72 false 2 with pitchName := 0 }], totalTime := 2,
                    keySigs := [⟨0, 1, 0⟩], texts := [⟨0, 0, 1, "A7"⟩, ⟨0, 0, 1, "N.C."⟩] }, 1) := by
  decide +kernel

/-! ## `_clamp_transpose` and `augment_note_sequence` -/

/-- for a sequence inside the allowed range the clamped amount keeps it inside, has the sign of the
request, is no larger in magnitude, and is the request itself when that already fits -/
theorem clamp_transpose_in_bounds (a lo hi mn mx : Int) (h1 : mn ≤ lo) (h3 : hi ≤ mx) :
    mn ≤ lo + clampTranspose a lo hi mn mx ∧ hi + clampTranspose a lo hi mn mx ≤ mx ∧
    (0 ≤ a → 0 ≤ clampTranspose a lo hi mn mx ∧ clampTranspose a lo hi mn mx ≤ a) ∧
    (a < 0 → a ≤ clampTranspose a lo hi mn mx ∧ clampTranspose a lo hi mn mx ≤ 0) ∧
    (mn ≤ lo + a ∧ hi + a ≤ mx → clampTranspose a lo hi mn mx = a) := by
  unfold clampTranspose
  split <;> omega

example : clampTranspose (-5) 3 90 0 127 = -3 ∧ clampTranspose 50 3 90 0 127 = 37 ∧
    clampTranspose 4 3 90 0 127 = 4 := by decide +kernel

/-- with `delete_out_of_range_notes = False`, a sequence whose notes all lie in the allowed range
loses no note, whatever amount `random.randint` picks from the clamped interval -/
theorem augment_deletes_nothing (split : String → Except Err Sym) (pick : Int → Int → Int) (s out : NoteSeq)
    (minT maxT mn mx : Int)
    (hin : ∀ n ∈ s.notes, mn ≤ n.pitch ∧ n.pitch ≤ mx)
    (hpick : ∀ a b, a ≤ b → a ≤ pick a b ∧ pick a b ≤ b)
    (h : augment split pick s minT maxT mn mx false = .ok out) :
    out.notes.length = s.notes.length := by
  unfold augment at h
  cases hr : augmentRange s minT maxT mn mx false with
  | error e => simp [hr] at h
  | ok rg =>
    cases rg with
    | none => simp only [hr, Except.ok.injEq] at h; subst h; rfl
    | some ab =>
      obtain ⟨a, b⟩ := ab
      simp only [hr] at h
      by_cases hab : b < a
      · simp [hab] at h
      · rw [if_neg hab] at h
        cases ht : transposeNS split s (pick a b) mn mx true with
        | error e => simp [ht] at h
        | ok r =>
          obtain ⟨o, del⟩ := r
          simp only [ht, Except.ok.injEq] at h
          subst h
          obtain ⟨hn, _, _⟩ := transpose_ns_spec split s o (pick a b) mn mx true del ht
          rw [hn, List.length_map]
          congr 1
          apply List.filter_eq_self.mpr
          intro n hmem
          rw [keepNote_iff]
          right
          -- the clamped interval keeps [lo, hi] inside [mn, mx]
          unfold augmentRange at hr
          split at hr
          · cases hr
          · split at hr
            · cases hr
            · cases hnotes : s.notes with
              | nil => rw [hnotes] at hmem; simp at hmem
              | cons n0 ns =>
                rw [hnotes] at hr hmem hin
                simp only [] at hr
                split at hr
                · cases hr
                · simp only [Bool.false_eq_true, if_false, Except.ok.injEq, Option.some.injEq, Prod.mk.injEq] at hr
                  obtain ⟨ha, hb⟩ := hr
                  have hlo := minPitch_le ns n0.pitch
                  have hhi := maxPitch_ge ns n0.pitch
                  have hlo_in : mn ≤ minPitch ns n0.pitch := by
                    rcases minPitch_attained ns n0.pitch with e | ⟨m, hm, e⟩
                    · rw [e]; exact (hin n0 (by simp)).1
                    · rw [e]; exact (hin m (by simp [hm])).1
                  have hhi_in : maxPitch ns n0.pitch ≤ mx := by
                    rcases maxPitch_attained ns n0.pitch with e | ⟨m, hm, e⟩
                    · rw [e]; exact (hin n0 (by simp)).2
                    · rw [e]; exact (hin m (by simp [hm])).2
                  have hlh : minPitch ns n0.pitch ≤ maxPitch ns n0.pitch := by omega
                  have ca := clamp_transpose_in_bounds minT _ _ mn mx hlo_in hhi_in
                  have cb := clamp_transpose_in_bounds maxT _ _ mn mx hlo_in hhi_in
                  rw [ha] at ca
                  rw [hb] at cb
                  have hp := hpick a b (by omega)
                  have hn_lo : minPitch ns n0.pitch ≤ n.pitch := by
                    rcases List.mem_cons.mp hmem with rfl | hm
                    · exact hlo.1
                    · exact hlo.2 n hm
                  have hn_hi : n.pitch ≤ maxPitch ns n0.pitch := by
                    rcases List.mem_cons.mp hmem with rfl | hm
                    · exact hhi.1
                    · exact hhi.2 n hm
                  omega

/-- non-vacuity of `augment_deletes_nothing`: notes on both limits of `[21, 108]`, request `[-5, 7]`
clamped to `[0, 0]` -/
example :
    let n (p : Int) : Note := { (default : Note) with pitch := p, end_ := 1 }
    let s : NoteSeq := { notes := [n 21, n 60, n 108], totalTime := 1 }
    (∀ m ∈ s.notes, (21 : Int) ≤ m.pitch ∧ m.pitch ≤ 108) ∧
    augmentRange s (-5) 7 21 108 false = .ok (some (0, 0)) ∧
    (augment (fun _ => .error chordSymbolError) (fun _ b => b) s (-5) 7 21 108 false).toOption.map (·.notes.length) = some 3 := by
  decide +kernel

/-! ## `Melody.transpose`, `Melody.squash` -/

/-- ∀ `max − min ≥ 12`, ∀ event `e ≥ 0`, ∀ `k`: the result lies in `[min, max)` and is congruent to
`e + k` modulo 12 -/
theorem melody_transpose_fold (k mn mx e : Int) (hr : NOTES_PER_OCTAVE ≤ mx - mn) (he : MIN_MIDI_PITCH ≤ e) :
    mn ≤ melEvent k mn mx e ∧ melEvent k mn mx e < mx ∧
    (melEvent k mn mx e - (e + k)) % NOTES_PER_OCTAVE = 0 := by
  unfold melEvent
  unfold NOTES_PER_OCTAVE MIN_MIDI_PITCH at *
  rw [if_pos he]
  simp only [fmod12]
  split
  · omega
  · split <;> omega

/-- special events (below `MIN_MIDI_PITCH`: note-off, no-event) are untouched -/
theorem melody_transpose_special (k mn mx e : Int) (he : e < MIN_MIDI_PITCH) : melEvent k mn mx e = e := by
  unfold melEvent
  rw [if_neg (by omega)]

/-- an event already inside the range after the shift is moved by exactly `k` -/
theorem melody_transpose_exact (k mn mx e : Int) (he : MIN_MIDI_PITCH ≤ e) (h1 : mn ≤ e + k) (h2 : e + k < mx) :
    melEvent k mn mx e = e + k := by
  unfold melEvent
  rw [if_pos he]
  simp only []
  rw [if_neg (by omega), if_neg (by omega)]

/-- the whole melody: same length, every position by the two rules above -/
theorem melody_transpose_events (k mn mx : Int) (es : List Int) (hr : NOTES_PER_OCTAVE ≤ mx - mn) :
    (melTranspose k mn mx es).length = es.length ∧
    ∀ (i : Nat) (h : i < es.length) (h' : i < (melTranspose k mn mx es).length),
      (es[i] < MIN_MIDI_PITCH → (melTranspose k mn mx es)[i] = es[i]) ∧
      (MIN_MIDI_PITCH ≤ es[i] → mn ≤ (melTranspose k mn mx es)[i] ∧ (melTranspose k mn mx es)[i] < mx ∧
        ((melTranspose k mn mx es)[i] - (es[i] + k)) % NOTES_PER_OCTAVE = 0) := by
  unfold melTranspose
  refine ⟨List.length_map _, ?_⟩
  intro i h h'
  rw [List.getElem_map]
  exact ⟨melody_transpose_special k mn mx _, melody_transpose_fold k mn mx _ hr⟩

/-- `k` then `−k` (and `12`) return every pitch to its pitch class (ranges with `min ≥ 0`, so that a
folded pitch is still a pitch) -/
theorem melody_transpose_inverse (k mn mx e : Int) (hr : NOTES_PER_OCTAVE ≤ mx - mn)
    (hmn : MIN_MIDI_PITCH ≤ mn) (he : MIN_MIDI_PITCH ≤ e) :
    (melEvent (-k) mn mx (melEvent k mn mx e) - e) % NOTES_PER_OCTAVE = 0 ∧
    (melEvent NOTES_PER_OCTAVE mn mx e - e) % NOTES_PER_OCTAVE = 0 := by
  obtain ⟨a1, a2, a3⟩ := melody_transpose_fold k mn mx e hr he
  obtain ⟨b1, b2, b3⟩ := melody_transpose_fold (-k) mn mx (melEvent k mn mx e) hr (by omega)
  obtain ⟨c1, c2, c3⟩ := melody_transpose_fold NOTES_PER_OCTAVE mn mx e hr he
  unfold NOTES_PER_OCTAVE at *
  omega

example : melEvent 5 48 60 58 = 51 ∧ melEvent (-30) 48 84 50 = 56 ∧ melEvent 3 0 128 (-2) = -2 ∧
    NOTES_PER_OCTAVE ≤ (60 : Int) - 48 := by decide +kernel

/-- `get_major_key` returns a key in `0..11` -/
theorem major_key_range (es : List Int) : 0 ≤ majorKey es ∧ majorKey es < NOTES_PER_OCTAVE := by
  unfold majorKey
  have : (keyHistogram es).length = NOTES_PER_OCTAVE.toNat := by simp [keyHistogram]
  have h := argmax_lt (keyHistogram es) (by rw [this]; decide)
  rw [this] at h
  unfold NOTES_PER_OCTAVE at *
  omega

/-- `squash` (for every rounding operator `R` standing for the float operations): the returned amount
is `transpose_to_key − melody_key` modulo 12 (`0` without a key or without pitches), the melody is
transposed by exactly that amount, every pitch ends in `[min, max)` with its transposed pitch
class, and special events are untouched -/
theorem squash_spec (R : Rat → Rat) (es : List Int) (mn mx : Int) (key : Option Int)
    (hr : NOTES_PER_OCTAVE ≤ mx - mn) (hev : ∀ e ∈ es, e ≤ MAX_MIDI_PITCH) :
    let r := squashR R es mn mx key
    (match key with
     | some toKey => (r.2 - (toKey - majorKey es)) % NOTES_PER_OCTAVE = 0 ∨ (r.2 = 0 ∧ ∀ e ∈ es, e < MIN_MIDI_PITCH)
     | none => r.2 = 0) ∧
    r.1.length = es.length ∧
    ∀ (i : Nat) (h : i < es.length) (h' : i < r.1.length),
      (es[i] < MIN_MIDI_PITCH → r.1[i] = es[i]) ∧
      (MIN_MIDI_PITCH ≤ es[i] → mn ≤ r.1[i] ∧ r.1[i] < mx ∧ (r.1[i] - (es[i] + r.2)) % NOTES_PER_OCTAVE = 0) := by
  intro r
  cases ha : squashAmount R es mn mx key with
  | some a =>
    have hr1 : r = (melTranspose a mn mx es, a) := by simp only [r, squashR, ha]
    obtain ⟨hl, hev'⟩ := melody_transpose_events a mn mx es hr
    rw [hr1]
    refine ⟨?_, hl, hev'⟩
    cases key with
    | none => simp [squashAmount] at ha; exact ha.symm
    | some toKey =>
      left
      unfold squashAmount at ha
      simp only [] at ha
      split at ha
      · cases ha
      · simp only [Option.some.injEq] at ha
        subst ha
        unfold NOTES_PER_OCTAVE
        simp only []
        omega
  | none =>
    have hr1 : r = (es, 0) := by simp only [r, squashR, ha]
    rw [hr1]
    cases key with
    | none => simp [squashAmount] at ha
    | some toKey =>
      unfold squashAmount at ha
      simp only [] at ha
      split at ha
      · rename_i hf
        have hnone : ∀ e ∈ es, e < MIN_MIDI_PITCH := by
          intro e he
          have := List.filter_eq_nil_iff.mp hf e he
          have := hev e he
          simp only [Bool.and_eq_true, decide_eq_true_eq, not_and] at *
          omega
        refine ⟨Or.inr ⟨rfl, hnone⟩, rfl, ?_⟩
        intro i h h'
        refine ⟨fun _ => rfl, fun hge => ?_⟩
        have := hnone es[i] (List.getElem_mem h)
        simp only [] at *
        omega
      · cases ha

/-- non-vacuity of `squash_spec`: a C-major fragment squashed into `[48, 84)` in F (key 5): the amount is
`5 + 12·round((65.5 − 67) / 12) = 5`, with the binary64 rounding operator of the driver -/
example : NOTES_PER_OCTAVE ≤ (84 : Int) - 48 ∧ (∀ e ∈ [-2, 60, 62, 64, -1], e ≤ MAX_MIDI_PITCH) ∧
    majorKey [-2, 60, 62, 64, -1] = 0 ∧
    squash [-2, 60, 62, 64, -1] 48 84 (some 5) = ([-2, 65, 67, 69, -1], 5) ∧
    squash [-2, 60, 62, 64, -1] 48 84 none = ([-2, 60, 62, 64, -1], 0) ∧
    squash [-2, -1] 48 84 (some 5) = ([-2, -1], 0) := by
  decide +kernel

/-! ## `ChordProgression.transpose`, `LeadSheet.transpose` -/

/-- what the statement says about one chord event -/
def FigRel (split : String → Except Err Sym) (k : Int) (f f' : String) : Prop :=
  if f ≠ NO_CHORD then ∃ c, split f = .ok c ∧ f' = render (transposeSym c k) else f' = f

/-- `ChordProgression.transpose` (and the chord half of `LeadSheet.transpose` / `squash`):
without an exception every event other than `N.C.` is the re-assembled structure transposed by `k`
(the code passes `k mod 12`, which gives the same spelling), `N.C.` is untouched, the length is
unchanged; with an exception the events before the first uninterpretable figure are transposed
and that figure and everything after it are untouched -/
theorem chord_progression_transpose_spec (split : String → Except Err Sym) (k : Int) (figs : List String) :
    let r := cpTranspose split k figs
    (r.2 = none → Pointwise (FigRel split k) figs r.1) ∧
    (∀ e, r.2 = some e → ∃ pre f post pre', figs = pre ++ f :: post ∧ r.1 = pre' ++ f :: post ∧
      Pointwise (FigRel split k) pre pre' ∧ f ≠ NO_CHORD ∧ split f = .error e) := by
  have hmod : ∀ c : Sym, transposeSym c (Int.fmod k NOTES_PER_OCTAVE) = transposeSym c k := by
    intro c
    unfold transposeSym NOTES_PER_OCTAVE
    rw [transpose_pitch_class_mod]
    congr 1
    cases c.bass <;> simp [transpose_pitch_class_mod]
  simp only [cpTranspose]
  generalize hk : Int.fmod k NOTES_PER_OCTAVE = k'
  rw [hk] at hmod
  induction figs with
  | nil => simp [cpLoop, Pointwise]
  | cons f fs ih =>
    obtain ⟨ih1, ih2⟩ := ih
    unfold cpLoop
    by_cases hf : f ≠ NO_CHORD
    · rw [if_pos hf]
      unfold transposeFigure
      cases hs : split f with
      | error e =>
        simp only []
        refine ⟨fun h => (by cases h), ?_⟩
        intro e' he'
        simp only [Option.some.injEq] at he'
        subst he'
        exact ⟨[], f, fs, [], rfl, rfl, trivial, hf, hs⟩
      | ok c =>
        simp only []
        refine ⟨fun h => ⟨by unfold FigRel; rw [if_pos hf]; exact ⟨c, hs, by rw [hmod]⟩, ih1 h⟩, ?_⟩
        intro e he
        obtain ⟨pre, g, post, pre', h1, h2, h3, h4, h5⟩ := ih2 e he
        refine ⟨f :: pre, g, post, render (transposeSym c k') :: pre', by simp [h1], by simp [h2], ?_, h4, h5⟩
        exact ⟨by unfold FigRel; rw [if_pos hf]; exact ⟨c, hs, by rw [hmod]⟩, h3⟩
    · rw [if_neg hf]
      simp only []
      refine ⟨fun h => ⟨by unfold FigRel; rw [if_neg hf], ih1 h⟩, ?_⟩
      intro e he
      obtain ⟨pre, g, post, pre', h1, h2, h3, h4, h5⟩ := ih2 e he
      refine ⟨f :: pre, g, post, f :: pre', by simp [h1], by simp [h2], ?_, h4, h5⟩
      exact ⟨by unfold FigRel; rw [if_neg hf], h3⟩

/-- `LeadSheet.transpose` is `Melody.transpose` and `ChordProgression.transpose` by the same amount;
`LeadSheet.squash` transposes the chords by the amount `Melody.squash` returned -/
theorem lead_sheet_transpose_spec (R : Rat → Rat) (split : String → Except Err Sym) (k mn mx toKey : Int)
    (es : List Int) (figs : List String) :
    lsTranspose split k mn mx es figs = (melTranspose k mn mx es, cpTranspose split k figs) ∧
    lsSquashR R split mn mx toKey es figs =
      ((squashR R es mn mx (some toKey)).1, (squashR R es mn mx (some toKey)).2,
       cpTranspose split (squashR R es mn mx (some toKey)).2 figs) := by
  exact ⟨rfl, rfl⟩

example :
    let split : String → Except Err Sym := fun t =>
      if t = "Am" then .ok ⟨⟨.A, 0⟩, "m", "", [], none⟩ else .error chordSymbolError
    cpTranspose split 15 ["Am", "N.C.", "Am"] = (["Cm", "N.C.", "Cm"], none) ∧
    cpTranspose split 3 ["Am", "H", "Am"] = (["Cm", "H", "Am"], some chordSymbolError) := by
  decide +kernel

end NSV.C10
