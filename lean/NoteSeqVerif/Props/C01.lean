import NoteSeqVerif.Model.C01
namespace NSV.C01
end NSV.C01
