import NoteSeqVerif.Proofs.C01
import Mathlib.Tactic.Linarith
import Mathlib.Tactic.Ring
import Mathlib.Tactic.FieldSimp
import Mathlib.Data.Rat.Floor
/-! C01 — property theorems (quantization).  `R` is the rounding operator applied after every
float operation of the Python (`R = id`: exact-arithmetic reading of the property; the compiled
driver runs `R = rne53` and is compared bit-exactly with CPython on every run). -/
namespace NSV.C01
open NSV

/-! ## nearest step, ties up, uniqueness, monotonicity, stretch invariance -/
theorem truncR_of_nonneg {x : Rat} (h : 0 ≤ x) : truncR x = x.floor := by
  simp [truncR, h]

/-- exact arithmetic: `R = id`, cutoff 1/2, non-negative product -/
theorem qstep_exact_eq (t s : Rat) (h : 0 ≤ t * s) :
    qstepR id (1/2) t s = (t * s + 1/2).floor := by
  unfold qstepR
  have : (0:Rat) ≤ t * s + (1 - 1/2) := by linarith
  simp only [id]
  rw [truncR_of_nonneg this]
  congr 1; ring

theorem qstep_exact_nearest (t s : Rat) (h : 0 ≤ t * s) :
    |((qstepR id (1/2) t s : Int) : Rat) - t * s| ≤ 1/2 := by
  rw [qstep_exact_eq t s h]
  have h1 := Rat.floor_le (t * s + 1/2)
  have h2 := Rat.lt_floor_add_one (t * s + 1/2)
  push_cast at h2
  rw [abs_le]; constructor <;> linarith

theorem qstep_exact_tie_up (t s : Rat) (n : Int) (hn : 0 ≤ n) (h : t * s = n + 1/2) :
    qstepR id (1/2) t s = n + 1 := by
  have h0 : (0:Rat) ≤ t * s := by rw [h]; have : (0:Rat) ≤ n := by exact_mod_cast hn
                                  linarith
  rw [qstep_exact_eq t s h0, h]
  have : ((n:Rat) + 1/2 + 1/2) = ((n + 1 : Int) : Rat) := by push_cast; ring
  rw [this, Rat.floor_intCast]

/-- the quantized step is the only integer strictly closer than 1/2, and the upper one on a tie -/
theorem qstep_exact_unique (t s : Rat) (h : 0 ≤ t * s) (m : Int)
    (hm : -(1/2 : Rat) < (m : Rat) - t * s ∧ (m : Rat) - t * s ≤ 1/2) :
    qstepR id (1/2) t s = m := by
  rw [qstep_exact_eq t s h]
  apply Int.le_antisymm
  · have : (t * s + 1/2).floor < m + 1 := by
      rw [Rat.floor_lt_iff]; push_cast; linarith [hm.1]
    omega
  · rw [Rat.le_floor_iff]; linarith [hm.2]

theorem truncR_mono {x y : Rat} (h : x ≤ y) : truncR x ≤ truncR y := by
  unfold truncR
  by_cases hx : 0 ≤ x
  · have hy : 0 ≤ y := le_trans hx h
    simp only [hx, hy, if_true]
    exact Rat.floor_monotone h
  · by_cases hy : 0 ≤ y
    · simp only [hx, hy, if_true, if_false]
      have h1 : x.ceil ≤ 0 := by
        rw [Rat.ceil_le_iff]; push_cast; linarith [not_le.mp hx]
      have h2 : (0:Int) ≤ y.floor := by
        rw [Rat.le_floor_iff]; exact_mod_cast hy
      omega
    · simp only [hx, hy, if_false]
      rw [Rat.ceil_le_iff]
      exact le_trans h Rat.le_ceil

/-- step assignment is monotone in time for every monotone rounding operator -/
theorem qstep_mono (R : Rat → Rat) (hR : ∀ a b, a ≤ b → R a ≤ R b) (c t₁ t₂ s : Rat)
    (hs : 0 ≤ s) (h : t₁ ≤ t₂) : qstepR R c t₁ s ≤ qstepR R c t₂ s := by
  unfold qstepR
  apply truncR_mono
  apply hR
  have := hR _ _ (mul_le_mul_of_nonneg_right h hs)
  linarith

/-- tempo-relative quantization is invariant under uniform stretching (exact arithmetic):
stretching multiplies every time by `f` and divides the tempo by `f` -/
theorem qstep_stretch_invariant (c t qpm f : Rat) (spq : Int) (hf : f ≠ 0) :
    qstepR id c (t * f) (spsR id spq (qpm / f)) = qstepR id c t (spsR id spq qpm) := by
  unfold qstepR spsR
  simp only [id]
  congr 2
  field_simp

example : (0:Rat) ≤ (7/2 : Rat) * 4 ∧ qstepR id (1/2) (7/2) 4 = 14 ∧ qstepR id (1/2) (5/8) 4 = 3 := by
  refine ⟨by norm_num, by decide +kernel, by decide +kernel⟩

/-! ## what `_quantize_notes` does: minimum length, total covers, non-negative, frame -/

/-- every quantized note is at least one step long (monotone step function, `start ≤ end`) -/
theorem quantize_min_len (q : Rat → Int) (hq : ∀ a b, a ≤ b → q a ≤ q b) (s r : NoteSeq)
    (hwf : ∀ n ∈ s.notes, n.start ≤ n.end_) (h : quantizeNotes q s = .ok r) :
    ∀ n ∈ r.notes, n.qs + 1 ≤ n.qe := by
  rcases quantizeNotes_spec q s with ⟨_, e⟩ | ⟨_, e⟩
  · rw [e] at h; cases h
  · rw [e] at h; cases h
    intro n hn
    simp only [quantized, List.mem_map] at hn
    obtain ⟨m, hm, rfl⟩ := hn
    have := hq _ _ (hwf m hm)
    simp only [qNote, fixEnd]
    split <;> omega

/-- `total_quantized_steps` covers every note end and never decreases -/
theorem quantize_total_covers (q : Rat → Int) (s r : NoteSeq) (h : quantizeNotes q s = .ok r) :
    s.totalQSteps ≤ r.totalQSteps ∧ ∀ n ∈ r.notes, n.qe ≤ r.totalQSteps := by
  rcases quantizeNotes_spec q s with ⟨_, e⟩ | ⟨_, e⟩
  · rw [e] at h; cases h
  · rw [e] at h; cases h
    refine ⟨le_foldl_max _ _, ?_⟩
    intro n hn
    simp only [quantized, List.mem_map] at hn
    obtain ⟨m, hm, rfl⟩ := hn
    exact mem_le_foldl_max _ _ _ (List.mem_map.mpr ⟨m, hm, rfl⟩)

/-- no step of a returned sequence is negative -/
theorem quantize_nonneg (q : Rat → Int) (s r : NoteSeq) (h : quantizeNotes q s = .ok r) :
    (∀ n ∈ r.notes, 0 ≤ n.qs ∧ 0 ≤ n.qe) ∧ (∀ c ∈ r.ccs, 0 ≤ c.qstep) ∧ (∀ c ∈ r.texts, 0 ≤ c.qstep) := by
  rcases quantizeNotes_spec q s with ⟨_, e⟩ | ⟨hn, e⟩
  · rw [e] at h; cases h
  · rw [e] at h; cases h
    unfold anyNeg at hn
    refine ⟨?_, ?_, ?_⟩
    · intro n hm
      simp only [quantized, List.mem_map] at hm
      obtain ⟨m, hm, rfl⟩ := hm
      have : ¬ noteNeg q m := fun hh => hn (Or.inl ⟨m, hm, hh⟩)
      unfold noteNeg at this
      simp only [qNote]; omega
    · intro c hc
      simp only [quantized, List.mem_map] at hc
      obtain ⟨m, hm, rfl⟩ := hc
      have : ¬ q m.time < 0 := fun hh => hn (Or.inr (Or.inl ⟨m, hm, hh⟩))
      simp only []; omega
    · intro c hc
      simp only [quantized, List.mem_map] at hc
      obtain ⟨m, hm, rfl⟩ := hc
      have : ¬ q m.time < 0 := fun hh => hn (Or.inr (Or.inr ⟨m, hm, hh⟩))
      simp only []; omega

/-- exactly the negative-time inputs are rejected, and only with `NegativeTimeError` -/
theorem quantizeNotes_negative_iff (q : Rat → Int) (s : NoteSeq) :
    (quantizeNotes q s = .error .negativeTimeError ↔ anyNeg q s) ∧
    (∀ e, quantizeNotes q s = .error e → e = .negativeTimeError) := by
  rcases quantizeNotes_spec q s with ⟨hn, e⟩ | ⟨hn, e⟩
  · refine ⟨⟨fun _ => hn, fun _ => e⟩, ?_⟩
    intro e' h; rw [e] at h; cases h; rfl
  · refine ⟨⟨?_, fun h => absurd h hn⟩, ?_⟩
    · intro h; rw [e] at h; cases h
    · intro e' h; rw [e] at h; cases h

/-- every step assigned is the step function of the event's own time (so "nearest step" and
monotonicity transfer from `qstepR`), order and all other attributes of every record intact -/
theorem quantizeNotes_frame (q : Rat → Int) (s r : NoteSeq) (h : quantizeNotes q s = .ok r) :
    r.notes = s.notes.map (fun n => { n with qs := q n.start, qe := fixEnd (q n.start) (q n.end_) }) ∧
    r.ccs = s.ccs.map (fun c => { c with qstep := q c.time }) ∧
    r.texts = s.texts.map (fun c => { c with qstep := q c.time }) ∧
    r.tempos = s.tempos ∧ r.timeSigs = s.timeSigs ∧ r.keySigs = s.keySigs ∧ r.bends = s.bends ∧
    r.sectionAnns = s.sectionAnns ∧ r.sgroups = s.sgroups ∧ r.totalTime = s.totalTime ∧
    r.spq = s.spq ∧ r.sps = s.sps ∧ r.hasSub = s.hasSub ∧ r.subStart = s.subStart ∧
    r.subEnd = s.subEnd ∧ r.tpq = s.tpq ∧ r.metaTag = s.metaTag := by
  rcases quantizeNotes_spec q s with ⟨_, e⟩ | ⟨_, e⟩
  · rw [e] at h; cases h
  · rw [e] at h; cases h
    simp [quantized, qNote]

/-- absolute quantization: only the quantization fields change -/
theorem quantizeAbs_frame (R : Rat → Rat) (c : Rat) (s r : NoteSeq) (sps : Int)
    (h : quantizeAbsR R c s sps = .ok r) :
    let q := fun t => qstepR R c t (sps : Rat)
    r.notes = s.notes.map (fun n => { n with qs := q n.start, qe := fixEnd (q n.start) (q n.end_) }) ∧
    r.ccs = s.ccs.map (fun c => { c with qstep := q c.time }) ∧
    r.texts = s.texts.map (fun c => { c with qstep := q c.time }) ∧
    r.tempos = s.tempos ∧ r.timeSigs = s.timeSigs ∧ r.keySigs = s.keySigs ∧ r.bends = s.bends ∧
    r.sectionAnns = s.sectionAnns ∧ r.sgroups = s.sgroups ∧ r.totalTime = s.totalTime ∧
    r.spq = 0 ∧ r.sps = sps ∧ r.hasSub = s.hasSub ∧ r.subStart = s.subStart ∧
    r.subEnd = s.subEnd ∧ r.tpq = s.tpq ∧ r.metaTag = s.metaTag ∧
    q s.totalTime ≤ r.totalQSteps := by
  unfold quantizeAbsR at h
  have hf := quantizeNotes_frame _ _ _ h
  have ht := (quantize_total_covers _ _ _ h).1
  simp only [] at hf ht ⊢
  simp [hf, ht]

/-! ## tempo-relative quantization: validation (iff form, every storage order) and frame -/

/-- a genuine time-signature change, or an implicit change from the initial 4/4, is rejected -/
theorem quantizeRel_rejects_time_signature_change (R : Rat → Rat) (c dq : Rat) (s : NoteSeq) (spq : Int)
    (h : tsChange s.timeSigs ∨ tsImplicit s.timeSigs) :
    quantizeRelR R c dq s spq = .error .multipleTimeSignatureError := by
  unfold quantizeRelR
  cases hl : s.timeSigs with
  | nil => rw [hl] at h; rcases h with ⟨a, ha, _⟩ | ⟨a, ha, _⟩ <;> simp at ha
  | cons first rest =>
    rw [hl] at h
    rcases checkTimeSigs_spec first rest with ⟨_, e⟩ | ⟨h1, h2, _⟩
    · simp [e]
    · rcases h with h | h
      · exact absurd h h1
      · exact absurd h h2

/-- the time signature that survives validation -/
def keptTimeSig (s : NoteSeq) : TimeSig :=
  match s.timeSigs with
  | [] => ⟨0, 4, 4⟩
  | first :: _ => { first with time := 0 }

def keptTempo (dq : Rat) (s : NoteSeq) : Tempo :=
  match s.tempos with
  | [] => ⟨0, dq⟩
  | first :: _ => { first with time := 0 }

theorem checkTimeSigs_ok (s : NoteSeq) (h1 : ¬ tsChange s.timeSigs) (h2 : ¬ tsImplicit s.timeSigs) :
    checkTimeSigs s.timeSigs = .ok (keptTimeSig s) := by
  unfold keptTimeSig
  cases hl : s.timeSigs with
  | nil => simp [checkTimeSigs]
  | cons first rest =>
    rw [hl] at h1 h2
    rcases checkTimeSigs_spec first rest with ⟨h, _⟩ | ⟨_, _, e⟩
    · rcases h with h | h
      · exact absurd h h1
      · exact absurd h h2
    · simpa using e

theorem checkTempos_ok (dq : Rat) (s : NoteSeq) (h1 : ¬ tpChange s.tempos) (h2 : ¬ tpImplicit dq s.tempos) :
    checkTempos dq s.tempos = .ok (keptTempo dq s) := by
  unfold keptTempo
  cases hl : s.tempos with
  | nil => simp [checkTempos]
  | cons first rest =>
    rw [hl] at h1 h2
    rcases checkTempos_spec dq first rest with ⟨h, _⟩ | ⟨_, _, e⟩
    · rcases h with h | h
      · exact absurd h h1
      · exact absurd h h2
    · simpa using e

/-- zero numerator or non-power-of-two denominator → `BadTimeSignatureError` -/
theorem quantizeRel_bad_time_signature (R : Rat → Rat) (c dq : Rat) (s : NoteSeq) (spq : Int)
    (h1 : ¬ tsChange s.timeSigs) (h2 : ¬ tsImplicit s.timeSigs)
    (hbad : isPow2 (keptTimeSig s).den = false ∨ (keptTimeSig s).num = 0) :
    quantizeRelR R c dq s spq = .error .badTimeSignatureError := by
  unfold quantizeRelR
  rw [checkTimeSigs_ok s h1 h2]
  simp only []
  rcases hbad with h | h
  · simp [h]
  · by_cases hp : isPow2 (keptTimeSig s).den <;> simp [hp, h]

/-- `_is_power_of_2` accepts exactly the powers of two -/
theorem isPow2_iff (x : Int) : isPow2 x = true ↔ ∃ k : Nat, x = 2 ^ k := by
  unfold isPow2
  constructor
  · intro h
    simp only [Bool.and_eq_true, decide_eq_true_eq, beq_iff_eq] at h
    obtain ⟨hpos, hand⟩ := h
    have hne : x.toNat ≠ 0 := by omega
    obtain ⟨k, hk⟩ := (Nat.and_sub_one_eq_zero_iff_isPowerOfTwo hne).mp hand
    refine ⟨k, ?_⟩
    have : (x.toNat : Int) = x := Int.toNat_of_nonneg (by omega)
    rw [← this, hk]; push_cast; rfl
  · rintro ⟨k, rfl⟩
    have hpos : (0 : Int) < 2 ^ k := by positivity
    have htn : ((2 : Int) ^ k).toNat = 2 ^ k := by
      have : ((2 : Int) ^ k) = ((2 ^ k : Nat) : Int) := by push_cast; rfl
      rw [this, Int.toNat_natCast]
    simp only [Bool.and_eq_true, decide_eq_true_eq, beq_iff_eq]
    refine ⟨hpos, ?_⟩
    rw [htn]
    exact (Nat.and_sub_one_eq_zero_iff_isPowerOfTwo (by positivity)).mpr ⟨k, rfl⟩

/-- every power of two — in particular each of the 31 legal denominators 2^0 … 2^30 of the int32 field — passes
`_is_power_of_2`, so none of them is rejected as a bad time signature -/
theorem isPow2_two_pow (k : Nat) : isPow2 (2 ^ k) = true := (isPow2_iff _).mpr ⟨k, rfl⟩

example : isPow2 (2 ^ 29) = true ∧ isPow2 (2 ^ 30) = true ∧ isPow2 (2 ^ 29 + 1) = false := by decide

/-- a genuine tempo change (or implicit change from 120 qpm) is rejected -/
theorem quantizeRel_rejects_tempo_change (R : Rat → Rat) (c dq : Rat) (s : NoteSeq) (spq : Int)
    (h1 : ¬ tsChange s.timeSigs) (h2 : ¬ tsImplicit s.timeSigs)
    (hp : isPow2 (keptTimeSig s).den = true) (hn : (keptTimeSig s).num ≠ 0)
    (h : tpChange s.tempos ∨ tpImplicit dq s.tempos) :
    quantizeRelR R c dq s spq = .error .multipleTempoError := by
  unfold quantizeRelR
  rw [checkTimeSigs_ok s h1 h2]
  simp only [hp, hn]
  cases hl : s.tempos with
  | nil => rw [hl] at h; rcases h with ⟨a, ha, _⟩ | ⟨a, ha, _⟩ <;> simp at ha
  | cons first rest =>
    rw [hl] at h
    rcases checkTempos_spec dq first rest with ⟨_, e⟩ | ⟨g1, g2, _⟩
    · simp [e]
    · rcases h with h | h
      · exact absurd h g1
      · exact absurd h g2

/-- the accepted case: one tempo and one time signature made explicit at time zero, then
`_quantize_notes` at `steps_per_quarter * qpm / 60` steps per second — nothing else changes -/
theorem quantizeRel_accepts (R : Rat → Rat) (c dq : Rat) (s : NoteSeq) (spq : Int)
    (h1 : ¬ tsChange s.timeSigs) (h2 : ¬ tsImplicit s.timeSigs)
    (hp : isPow2 (keptTimeSig s).den = true) (hn : (keptTimeSig s).num ≠ 0)
    (g1 : ¬ tpChange s.tempos) (g2 : ¬ tpImplicit dq s.tempos) :
    let q := fun t => qstepR R c t (spsR R spq (keptTempo dq s).qpm)
    quantizeRelR R c dq s spq =
      quantizeNotes q { s with spq := spq, sps := 0, timeSigs := [keptTimeSig s],
                               tempos := [keptTempo dq s], totalQSteps := q s.totalTime } := by
  unfold quantizeRelR
  rw [checkTimeSigs_ok s h1 h2]
  simp only [hp, hn]
  rw [checkTempos_ok dq s g1 g2]
  simp

theorem quantizeRel_frame (R : Rat → Rat) (c dq : Rat) (s r : NoteSeq) (spq : Int)
    (h : quantizeRelR R c dq s spq = .ok r) :
    let q := fun t => qstepR R c t (spsR R spq (keptTempo dq s).qpm)
    r.notes = s.notes.map (fun n => { n with qs := q n.start, qe := fixEnd (q n.start) (q n.end_) }) ∧
    r.ccs = s.ccs.map (fun c => { c with qstep := q c.time }) ∧
    r.texts = s.texts.map (fun c => { c with qstep := q c.time }) ∧
    r.tempos = [keptTempo dq s] ∧ r.timeSigs = [keptTimeSig s] ∧
    r.keySigs = s.keySigs ∧ r.bends = s.bends ∧
    r.sectionAnns = s.sectionAnns ∧ r.sgroups = s.sgroups ∧ r.totalTime = s.totalTime ∧
    r.spq = spq ∧ r.sps = 0 ∧ r.hasSub = s.hasSub ∧ r.subStart = s.subStart ∧
    r.subEnd = s.subEnd ∧ r.tpq = s.tpq ∧ r.metaTag = s.metaTag ∧
    q s.totalTime ≤ r.totalQSteps := by
  by_cases h1 : tsChange s.timeSigs ∨ tsImplicit s.timeSigs
  · rw [quantizeRel_rejects_time_signature_change R c dq s spq h1] at h; cases h
  · have h1a : ¬ tsChange s.timeSigs := fun hh => h1 (Or.inl hh)
    have h1b : ¬ tsImplicit s.timeSigs := fun hh => h1 (Or.inr hh)
    by_cases hbad : isPow2 (keptTimeSig s).den = false ∨ (keptTimeSig s).num = 0
    · rw [quantizeRel_bad_time_signature R c dq s spq h1a h1b hbad] at h; cases h
    · have hp : isPow2 (keptTimeSig s).den = true := by
        cases hh : isPow2 (keptTimeSig s).den
        · exact absurd (Or.inl hh) hbad
        · rfl
      have hn : (keptTimeSig s).num ≠ 0 := fun hh => hbad (Or.inr hh)
      by_cases g : tpChange s.tempos ∨ tpImplicit dq s.tempos
      · rw [quantizeRel_rejects_tempo_change R c dq s spq h1a h1b hp hn g] at h; cases h
      · have g1 : ¬ tpChange s.tempos := fun hh => g (Or.inl hh)
        have g2 : ¬ tpImplicit dq s.tempos := fun hh => g (Or.inr hh)
        rw [quantizeRel_accepts R c dq s spq h1a h1b hp hn g1 g2] at h
        have hf := quantizeNotes_frame _ _ _ h
        have ht := (quantize_total_covers _ _ _ h).1
        simp only [] at hf ht ⊢
        simp [hf, ht]

/-! ## independence of storage order (the rejection clause for "all placements") -/

theorem tsChange_perm {l l' : List TimeSig} (h : l.Perm l') : tsChange l ↔ tsChange l' := by
  unfold tsChange
  constructor
  · rintro ⟨a, ha, b, hb, hab⟩; exact ⟨a, h.mem_iff.mp ha, b, h.mem_iff.mp hb, hab⟩
  · rintro ⟨a, ha, b, hb, hab⟩; exact ⟨a, h.mem_iff.mpr ha, b, h.mem_iff.mpr hb, hab⟩

theorem tsImplicit_perm {l l' : List TimeSig} (h : l.Perm l') : tsImplicit l ↔ tsImplicit l' := by
  unfold tsImplicit
  constructor
  · rintro ⟨e, he, hm, hr⟩; exact ⟨e, h.mem_iff.mp he, fun x hx => hm x (h.mem_iff.mpr hx), hr⟩
  · rintro ⟨e, he, hm, hr⟩; exact ⟨e, h.mem_iff.mpr he, fun x hx => hm x (h.mem_iff.mp hx), hr⟩

/-- the verdict on the time signatures, and the (numerator, denominator) kept, do not depend on
the order in which the time signatures are stored -/
theorem checkTimeSigs_perm {l l' : List TimeSig} (h : l.Perm l') :
    (checkTimeSigs l).map (fun t => (t.time, t.num, t.den)) =
    (checkTimeSigs l').map (fun t => (t.time, t.num, t.den)) := by
  cases l with
  | nil => have := h.length_eq; cases l' with
    | nil => rfl
    | cons _ _ => simp at this
  | cons a as =>
    cases l' with
    | nil => have := h.length_eq; simp at this
    | cons b bs =>
      rcases checkTimeSigs_spec a as with ⟨hx, e⟩ | ⟨hx1, hx2, e⟩ <;>
      rcases checkTimeSigs_spec b bs with ⟨hy, e'⟩ | ⟨hy1, hy2, e'⟩
      · rw [e, e']
      · exfalso; rcases hx with hx | hx
        · exact hy1 ((tsChange_perm h).mp hx)
        · exact hy2 ((tsImplicit_perm h).mp hx)
      · exfalso; rcases hy with hy | hy
        · exact hx1 ((tsChange_perm h).mpr hy)
        · exact hx2 ((tsImplicit_perm h).mpr hy)
      · rw [e, e']
        have hb : b ∈ a :: as := h.mem_iff.mpr (by simp)
        have : sameSig a b := by
          apply Classical.byContradiction
          intro hh
          exact hx1 ⟨a, by simp, b, hb, hh⟩
        unfold sameSig at this
        simp [Except.map, this.1, this.2]

theorem tpChange_perm {l l' : List Tempo} (h : l.Perm l') : tpChange l ↔ tpChange l' := by
  unfold tpChange
  constructor
  · rintro ⟨a, ha, b, hb, hab⟩; exact ⟨a, h.mem_iff.mp ha, b, h.mem_iff.mp hb, hab⟩
  · rintro ⟨a, ha, b, hb, hab⟩; exact ⟨a, h.mem_iff.mpr ha, b, h.mem_iff.mpr hb, hab⟩

theorem tpImplicit_perm (dq : Rat) {l l' : List Tempo} (h : l.Perm l') : tpImplicit dq l ↔ tpImplicit dq l' := by
  unfold tpImplicit
  constructor
  · rintro ⟨e, he, hm, hr⟩; exact ⟨e, h.mem_iff.mp he, fun x hx => hm x (h.mem_iff.mpr hx), hr⟩
  · rintro ⟨e, he, hm, hr⟩; exact ⟨e, h.mem_iff.mpr he, fun x hx => hm x (h.mem_iff.mp hx), hr⟩

theorem checkTempos_perm (dq : Rat) {l l' : List Tempo} (h : l.Perm l') :
    (checkTempos dq l).map (fun t => (t.time, t.qpm)) = (checkTempos dq l').map (fun t => (t.time, t.qpm)) := by
  cases l with
  | nil => have := h.length_eq; cases l' with
    | nil => rfl
    | cons _ _ => simp at this
  | cons a as =>
    cases l' with
    | nil => have := h.length_eq; simp at this
    | cons b bs =>
      rcases checkTempos_spec dq a as with ⟨hx, e⟩ | ⟨hx1, hx2, e⟩ <;>
      rcases checkTempos_spec dq b bs with ⟨hy, e'⟩ | ⟨hy1, hy2, e'⟩
      · rw [e, e']
      · exfalso; rcases hx with hx | hx
        · exact hy1 ((tpChange_perm h).mp hx)
        · exact hy2 ((tpImplicit_perm dq h).mp hx)
      · exfalso; rcases hy with hy | hy
        · exact hx1 ((tpChange_perm h).mpr hy)
        · exact hx2 ((tpImplicit_perm dq h).mpr hy)
      · rw [e, e']
        have hb : b ∈ a :: as := h.mem_iff.mpr (by simp)
        have : a.qpm = b.qpm := by
          apply Classical.byContradiction
          intro hh
          exact hx1 ⟨a, by simp, b, hb, hh⟩
        simp [Except.map, this]

/-! non-vacuity: a stored-out-of-order genuine change (the former defect F-C01-1) is a `tsChange`,
and an accepted sequence exists -/
example : tsChange [⟨5, 3, 4⟩, ⟨0, 4, 4⟩] := ⟨⟨5, 3, 4⟩, by simp, ⟨0, 4, 4⟩, by simp, by decide⟩
example : ¬ tsChange [⟨2, 4, 4⟩, ⟨0, 4, 4⟩] ∧ ¬ tsImplicit [⟨2, 4, 4⟩, ⟨0, 4, 4⟩] := by
  constructor
  · rintro ⟨a, ha, b, hb, hab⟩
    simp at ha hb
    rcases ha with rfl | rfl <;> rcases hb with rfl | rfl <;> exact hab ⟨rfl, rfl⟩
  · rintro ⟨e, he, _, _, h44⟩
    simp at he
    rcases he with rfl | rfl <;> exact h44 ⟨rfl, rfl⟩

end NSV.C01
