import NoteSeqVerif.Proofs.C06Glue
import NoteSeqVerif.Proofs.C06Drums
import NoteSeqVerif.Proofs.C06Chords
import NoteSeqVerif.Proofs.C06Roll
import NoteSeqVerif.Proofs.C06Melody
import NoteSeqVerif.Proofs.C06MelExtract
/-! C06 — property theorems (DESIGN 6.6): rendering a canonical event sequence to notes, quantizing at the same
resolution and extracting again is the identity — at every tempo `qpm > 0`, every resolution, every start step,
with the float arithmetic the Python performs (`R` = any rounding operator with `Rounding R`, in particular
`rne53` = IEEE binary64), no bound on the length other than `start + length < 2^40`.

Float half: `Proofs/C06Float.lean` (`render_quantize_exact`).  Discrete halves: `Proofs/C06{Drums,Chords,Roll,MelNotes,Melody,MelCanon,MelExtract}.lean`,
through the specification theorems of C07.  Here the two are composed per type, together with
`extract_canonical_*` (the canonical predicate is exactly what extraction produces) and non-vacuity examples. -/
namespace NSV.C06
open NSV NSV.C07

variable {R : ℚ → ℚ}

/-! ## DrumTrack -/

/-- **DrumTrack, any storage order of the rendered notes** (the Python iterates a `frozenset`), any `total_time` -/
theorem roundtrip_Drums_anyorder (hR : Rounding R) (ev : List (List ℤ)) (S spq vel inst prog : ℤ) (qpm : ℚ)
    (ss gapBars : ℤ) (pad ign : Bool) (sn : List SNote) (tt : ℚ)
    (hq : 0 < qpm) (hspq : 0 < spq) (hspq' : spq ≤ 2 ^ 40) (hvel : vel ≠ 0)
    (hlen : S + ev.length < 2 ^ 40)
    (hc : CanonicalDrums (4 * spq) (gapBars * (4 * spq)) pad ss S ev)
    (hperm : sn.Perm (drumNotes ev)) :
    extractStage (fun q => drumsFromQuantized q ss gapBars pad ign)
      (quantizeStage R spq (.ok (timedSeq
        (stepTimeR R (secPerStepR R qpm spq) (seqStartR R (secPerStepR R qpm spq) S))
        qpm vel inst prog true sn [] tt))) =
      .ok ⟨ev, S, S + ev.length, 4 * spq, spq⟩ := by
  have hS : 0 ≤ S := by
    rcases hc with ⟨_, h⟩ | ⟨_, h1, h2, _⟩
    · omega
    · omega
  have hmem : ∀ d, d ∈ sn ↔ ∃ i : ℕ, i < ev.length ∧ d.a = i ∧ d.b = i + 1 ∧ d.pitch ∈ evAt ev i := by
    intro d; rw [hperm.mem_iff, mem_drumNotes]
  rw [quantize_rendered hR qpm spq S vel inst prog true sn [] tt hq hspq hS
    (by
      intro d hd
      obtain ⟨i, hi, ha, hb, _⟩ := (hmem d).mp hd
      have : (i : ℤ) < ev.length := by exact_mod_cast hi
      omega)
    (by intro c hcm; simp at hcm)]
  unfold extractStage
  simp only
  rw [drums_discrete _ ev S ss gapBars pad ign (4 * spq)
    (stepsPerBar_stepped _ _ _ _ _ _ _ _ _ _ _ _ hspq hspq') (by omega) ?_ ?_ hc]
  · rfl
  · intro n hn
    simp only [steppedSeq, List.mem_map] at hn
    obtain ⟨d, _, rfl⟩ := hn
    exact ⟨rfl, hvel⟩
  · intro t p
    simp only [steppedSeq, List.mem_map]
    constructor
    · rintro ⟨n, ⟨d, hd, rfl⟩, rfl, rfl⟩
      obtain ⟨i, hi, ha, _, hp⟩ := (hmem d).mp hd
      exact ⟨i, hi, by show S + d.a = S + i; omega, hp⟩
    · rintro ⟨i, hi, rfl, hp⟩
      obtain hd := (hmem ⟨p, i, i + 1⟩).mpr ⟨i, hi, rfl, rfl, hp⟩
      exact ⟨_, ⟨_, hd, rfl⟩, rfl, rfl⟩

/-- **`roundtrip_Drums`**: `DrumTrack(ev, start_step = S, steps_per_quarter = spq).to_sequence(velocity, instrument,
program, qpm = qpm)` → `quantize_note_sequence(·, spq)` → `DrumTrack().from_quantized_sequence(·, ss, gap_bars,
pad_end, ignore_is_drum)` returns `ev`, `S`, `S + len`, `4·spq`, `spq`. -/
theorem roundtrip_Drums (hR : Rounding R) (ev : List (List ℤ)) (S spq vel inst prog : ℤ) (qpm : ℚ)
    (ss gapBars : ℤ) (pad ign : Bool)
    (hq : 0 < qpm) (hspq : 0 < spq) (hspq' : spq ≤ 2 ^ 40) (hvel : vel ≠ 0)
    (hlen : S + ev.length < 2 ^ 40)
    (hc : CanonicalDrums (4 * spq) (gapBars * (4 * spq)) pad ss S ev) :
    tripDrums R ev S spq vel inst prog 0 qpm ss gapBars pad ign =
      .ok ⟨ev, S, S + ev.length, 4 * spq, spq⟩ := by
  unfold tripDrums renderDrums
  rw [if_neg (no_zero_div hq hspq)]
  simp only [stepTime_zero hR]
  exact roundtrip_Drums_anyorder hR ev S spq vel inst prog qpm ss gapBars pad ign (drumNotes ev) _
    hq hspq hspq' hvel hlen hc (List.Perm.refl _)

/-- **`extract_canonical_Drums`**: whatever `DrumTrack.from_quantized_sequence` returns — on any quantized sequence
with a positive bar length, any `search_start_step ≥ 0`, `gap_bars`, `pad_end`, `ignore_is_drum` — satisfies
`CanonicalDrums` for the same parameters (and `end_step = start_step + len`). -/
theorem extract_canonical_Drums (s : NoteSeq) (ss gapBars : ℤ) (pad ign : Bool) (spb : ℤ)
    (hspb : stepsPerBar s = .ok spb) (hpos : 0 < spb) (hss : 0 ≤ ss)
    (r : SimpleResult (List ℤ)) (hr : drumsFromQuantized s ss gapBars pad ign = .ok r) :
    CanonicalDrums spb (gapBars * spb) pad ss r.startStep r.events ∧
      r.endStep = r.startStep + r.events.length ∧ r.stepsPerBar = spb ∧ r.stepsPerQuarter = s.spq :=
  drums_extract_canonical s ss gapBars pad ign spb hspb hpos hss r hr

/-- non-vacuity: two bars at 3 steps per quarter, 100/3 qpm (rounded to a double), start step 24, gap of one bar
minus one step, padded to the bar -/
example : tripDrums rne53 [[], [36, 42], [], [38], [], [], [], [], [], [], [], [], [], [], [], [36], [42], [], [], [],
      [], [], [], []] 24 3 100 9 0 0 (rne53 (100 / 3)) 12 1 true false =
    .ok ⟨[[], [36, 42], [], [38], [], [], [], [], [], [], [], [], [], [], [], [36], [42], [], [], [], [], [], [], []],
      24, 48, 12, 3⟩ :=
  roundtrip_Drums rounding_rne53 _ 24 3 100 9 0 _ 12 1 true false (by decide +kernel) (by decide) (by decide)
    (by decide) (by decide) (by decide)

/-! ## ChordProgression -/

/-- **`roundtrip_Chords`**: `ChordProgression(ev, start_step = S, steps_per_quarter = spq).to_sequence(qpm = qpm)` →
`quantize_note_sequence(·, spq)` → `ChordProgression().from_quantized_sequence(·, S, S + len)` returns `ev`, `S`,
`S + len`, `4·spq`, `spq`, for every non-empty list of figures. -/
theorem roundtrip_Chords (hR : Rounding R) (ev : List String) (S spq : ℤ) (qpm : ℚ)
    (hq : 0 < qpm) (hspq : 0 < spq) (hspq' : spq ≤ 2 ^ 40) (hlen : S + ev.length < 2 ^ 40)
    (hc : CanonicalChords S ev) :
    tripChords R ev S spq 0 qpm = .ok ⟨ev, S, S + ev.length, 4 * spq, spq⟩ := by
  obtain ⟨hne, hS⟩ := hc
  unfold tripChords renderChords
  rw [if_neg (no_zero_div hq hspq)]
  simp only [stepTime_zero hR]
  rw [quantize_rendered hR qpm spq S 0 0 0 false [] (chordChanges ev) 0 hq hspq hS
    (by intro d hd; simp at hd)
    (by
      intro c hcm
      have h1 := chordChangesFrom_ge ev 0 Gen.NO_CHORD c hcm
      have h2 := chordChangesFrom_lt ev 0 Gen.NO_CHORD c hcm
      omega)]
  unfold extractStage
  simp only
  rw [chords_discrete _ _ ev S (4 * spq) (stepsPerBar_stepped _ _ _ _ _ _ _ _ _ _ _ _ hspq hspq') rfl hne]
  rfl

/-- **`extract_canonical_Chords`**: whatever `ChordProgression.from_quantized_sequence(·, start, end)` returns for
`0 ≤ start < end` is canonical (a non-empty list of `end − start` figures at `start`). -/
theorem extract_canonical_Chords (s : NoteSeq) (start end_ : ℤ) (h0 : 0 ≤ start) (hse : start < end_)
    (r : SimpleResult String) (hr : chordsFromQuantized s start end_ = .ok r) :
    CanonicalChords r.startStep r.events ∧ r.startStep = start ∧ r.endStep = end_ ∧
      r.endStep = r.startStep + r.events.length ∧ r.stepsPerQuarter = s.spq :=
  chords_extract_canonical s start end_ h0 hse r hr

/-- non-vacuity: the list starts with NO_CHORD (hex `x4e2e432e`), changes, returns to NO_CHORD, repeats a figure -/
example : tripChords rne53 ["x4e2e432e", "x43", "x43", "x416d", "x4e2e432e", "x4e2e432e", "x43"] 16 4 0
      (rne53 (100 / 3)) =
    .ok ⟨["x4e2e432e", "x43", "x43", "x416d", "x4e2e432e", "x4e2e432e", "x43"], 16, 23, 16, 4⟩ :=
  roundtrip_Chords rounding_rne53 _ 16 4 _ (by decide +kernel) (by decide) (by decide) (by decide) (by decide)

/-! ## PianorollSequence -/

/-- **PianorollSequence, any storage order of the rendered notes** (the Python iterates `set` differences) -/
theorem roundtrip_Pianoroll_anyorder (hR : Rounding R) (ev : List (List ℤ)) (S spq minP maxP vel inst prog : ℤ)
    (qpm : ℚ) (split : Bool) (sn : List SNote)
    (hq : 0 < qpm) (hspq : 0 < spq) (hlen : S + ev.length < 2 ^ 40)
    (hc : CanonicalPianoroll minP maxP S ev)
    (hperm : sn.Perm (rollNotes minP ev)) :
    extractStage (fun q => rollFromQuantized q S minP maxP split)
      (quantizeStage R spq (.ok (timedSeq
        (stepTimeR R (secPerStepR R qpm spq) (seqStartR R (secPerStepR R qpm spq) S))
        qpm vel inst prog false sn []
        (R (R (secPerStepR R qpm spq * ((ev.length : ℤ) : ℚ)) + seqStartR R (secPerStepR R qpm spq) S))))) =
      .ok ⟨ev, S, spq⟩ := by
  have hS : 0 ≤ S := hc.1
  have hsound := rollNotesFrom_sound minP ev 0 []
  have hb : ∀ d ∈ sn, 0 ≤ d.a ∧ d.a < d.b ∧ d.b ≤ ev.length := by
    intro d hd
    obtain ⟨p, i, m, rfl, him, hml, _⟩ := hsound d (hperm.mem_iff.mp hd)
    have : (m : ℤ) ≤ ev.length := by exact_mod_cast hml
    simp only
    omega
  rw [quantize_rendered hR qpm spq S vel inst prog false sn [] _ hq hspq hS
    (by intro d hd; obtain ⟨h1, h2, h3⟩ := hb d hd; omega)
    (by intro c hcm; simp at hcm)]
  have htot : C01.qstepR R (1 / 2)
      (R (R (secPerStepR R qpm spq * ((ev.length : ℤ) : ℚ)) + seqStartR R (secPerStepR R qpm spq) S))
      (C01.spsR R spq qpm) = S + ev.length := by
    have := render_quantize_exact hR qpm spq S (ev.length : ℤ) hq hspq hS (by omega) hlen
    unfold stepTimeR at this
    rw [mul_comm] at this
    exact this
  rw [htot, totalAfter_eq S sn _ (by intro d hd; obtain ⟨_, _, h3⟩ := hb d hd; omega)]
  unfold extractStage rollFromQuantized
  simp only
  rw [roll_discrete _ ev S minP maxP split (by exact hspq) rfl ?_ ?_ hc]
  · rfl
  · intro n hn
    simp only [steppedSeq, List.mem_map] at hn
    obtain ⟨d, hd, rfl⟩ := hn
    exact ⟨d, hperm.mem_iff.mp hd, rfl, rfl, rfl⟩
  · intro d hd
    exact ⟨_, by simp only [steppedSeq, List.mem_map]; exact ⟨d, hperm.mem_iff.mpr hd, rfl⟩, rfl, rfl, rfl⟩

/-- **`roundtrip_Pianoroll`**: `PianorollSequence(events_list = ev, steps_per_quarter = spq, start_step = S, min_pitch,
max_pitch).to_sequence(velocity, instrument, program, qpm)` → `quantize_note_sequence(·, spq)` →
`PianorollSequence(quantized_sequence = ·, start_step = S, min_pitch, max_pitch, split_repeats)` returns `ev`, `S`,
`spq`, with or without `split_repeats`; trailing silent frames included (the total time carries the length). -/
theorem roundtrip_Pianoroll (hR : Rounding R) (ev : List (List ℤ)) (S spq minP maxP vel inst prog : ℤ)
    (qpm : ℚ) (split : Bool)
    (hq : 0 < qpm) (hspq : 0 < spq) (hlen : S + ev.length < 2 ^ 40)
    (hc : CanonicalPianoroll minP maxP S ev) :
    tripPianoroll R ev S spq minP maxP vel inst prog qpm split = .ok ⟨ev, S, spq⟩ := by
  unfold tripPianoroll renderPianoroll
  rw [if_neg (no_zero_div hq hspq)]
  exact roundtrip_Pianoroll_anyorder hR ev S spq minP maxP vel inst prog qpm split (rollNotes minP ev)
    hq hspq hlen hc (List.Perm.refl _)

/-- **`extract_canonical_Pianoroll`**: every roll `PianorollSequence(quantized_sequence = …)` returns, from a start
step `≥ 0`, is canonical for its pitch range. -/
theorem extract_canonical_Pianoroll (s : NoteSeq) (S minP maxP : ℤ) (split : Bool) (hS : 0 ≤ S)
    (r : RollResult) (h : rollFromQuantized s S minP maxP split = .ok r) :
    CanonicalPianoroll minP maxP r.startStep r.events ∧ r.startStep = S ∧ r.stepsPerQuarter = s.spq := by
  unfold rollFromQuantized at h
  split at h
  · cases h
  · rename_i evs hevs
    cases h
    exact ⟨roll_extract_canonical s S minP maxP split hS evs hevs, rfl, rfl⟩

/-- non-vacuity: a sustained note, a re-strike after one silent frame, a chord, two trailing silent frames; range
60..72, 6 steps per quarter, 100/3 qpm, start step 48 -/
example : tripPianoroll rne53 [[0], [0, 4], [4], [], [4, 7, 12], [12], [], []] 48 6 60 72 100 0 0
      (rne53 (100 / 3)) true = .ok ⟨[[0], [0, 4], [4], [], [4, 7, 12], [12], [], []], 48, 6⟩ :=
  roundtrip_Pianoroll rounding_rne53 _ 48 6 60 72 100 0 0 _ true (by decide +kernel) (by decide) (by decide)
    (by decide)

/-! ## Melody -/

/-- the rendered melody notes lie inside the event list -/
theorem melodyNotes_bounds (ev : List ℤ) : ∀ d ∈ melodyNotes ev, 0 ≤ d.a ∧ d.a < d.b ∧ d.b ≤ ev.length := by
  intro d hd
  rw [melodyNotes_eq] at hd
  obtain ⟨_, h2, h3, h4⟩ := melT_mem ev 0 d hd
  omega

/-- **`roundtrip_Melody`**: `Melody(ev, start_step = S, steps_per_quarter = spq).to_sequence(velocity, instrument,
program, qpm = qpm)` → `quantize_note_sequence(·, spq)` → `Melody().from_quantized_sequence(·, ss, instrument,
gap_bars, ignore_polyphonic_notes, pad_end, filter_drums)` returns `ev`, `S`, `S + len`, `4·spq`, `spq` — for
every canonical melody, `gap_bars ≥ 1`, non-zero velocity, any `ignore_polyphonic_notes` / `filter_drums`. -/
theorem roundtrip_Melody (hR : Rounding R) (ev : List ℤ) (S spq vel inst prog : ℤ) (qpm : ℚ)
    (ss gapBars : ℤ) (ip pad fd : Bool)
    (hq : 0 < qpm) (hspq : 0 < spq) (hspq' : spq ≤ 2 ^ 40) (hvel : vel ≠ 0) (hgap : 0 < gapBars)
    (hlen : S + ev.length < 2 ^ 40)
    (hc : CanonicalMelody (4 * spq) (gapBars * (4 * spq)) pad ss S ev) :
    tripMelody R ev S spq vel inst prog 0 qpm ss gapBars ip pad fd =
      .ok ⟨ev, S, S + ev.length, 4 * spq, spq⟩ := by
  have hS : 0 ≤ S := by
    rcases hc with ⟨_, h⟩ | ⟨_, _, h1, h2, _⟩
    · omega
    · omega
  unfold tripMelody renderMelody
  rw [if_neg (no_zero_div hq hspq)]
  simp only [stepTime_zero hR]
  rw [quantize_rendered hR qpm spq S vel inst prog false (melodyNotes ev) [] _ hq hspq hS
    (by intro d hd; obtain ⟨h1, h2, h3⟩ := melodyNotes_bounds ev d hd; omega)
    (by intro c hcm; simp at hcm)]
  unfold extractStage
  simp only
  rw [melody_discrete _ _ ev S ss inst gapBars vel prog ip pad fd (4 * spq)
    (stepsPerBar_stepped _ _ _ _ _ _ _ _ _ _ _ _ hspq hspq') (by omega) hgap hvel rfl hc]
  rfl

/-- **`extract_canonical_Melody`**: whatever `Melody.from_quantized_sequence` returns — on any quantized sequence with a
positive bar length whose selected notes have positive length and MIDI pitches, any `search_start_step ≥ 0`,
`gap_bars`, `pad_end`, `ignore_polyphonic_notes`, `filter_drums` — satisfies `CanonicalMelody` for the same
parameters (and `end_step = start_step + len`). -/
theorem extract_canonical_Melody (s : NoteSeq) (ss inst gapBars : ℤ) (ip pad fd : Bool) (spb : ℤ)
    (hspb : stepsPerBar s = .ok spb) (hpos : 0 < spb) (hss : 0 ≤ ss)
    (hvalid : ∀ n ∈ s.notes, melSel ss inst fd n = true → n.qs < n.qe ∧ 0 ≤ n.pitch ∧ n.pitch ≤ 127)
    (r : SimpleResult ℤ) (hr : melodyFromQuantized s ss inst gapBars ip pad fd = .ok r) :
    CanonicalMelody spb (gapBars * spb) pad ss r.startStep r.events ∧
      r.endStep = r.startStep + r.events.length ∧ r.stepsPerBar = spb ∧ r.stepsPerQuarter = s.spq :=
  melody_extract_canonical s ss inst gapBars ip pad fd spb hspb hpos hss hvalid r hr

/-- non-vacuity: a bar and a half at 2 steps per quarter: leading rest, a note cut by the next, a NOTE_OFF, silence one
step short of the one-bar gap, a final note sustained to the end; start step 16, search from step 8 -/
example : tripMelody rne53 [-2, 60, -2, 62, -1, -2, -2, -2, -2, -2, -2, 64, -2] 16 2 100 0 0 0 (rne53 (100 / 3))
      8 1 false false true = .ok ⟨[-2, 60, -2, 62, -1, -2, -2, -2, -2, -2, -2, 64, -2], 16, 29, 8, 2⟩ :=
  roundtrip_Melody rounding_rne53 _ 16 2 100 0 0 _ 8 1 false false true (by decide +kernel) (by decide)
    (by decide) (by decide) (by decide) (by decide) (by decide)

/-- non-vacuity with `pad_end`: the last note's NOTE_OFF lies in the last bar -/
example : tripMelody rne53 [60, -2, -2, 67, -2, -1, -2, -2] 0 1 100 0 0 0 120 0 2 true true false =
    .ok ⟨[60, -2, -2, 67, -2, -1, -2, -2], 0, 8, 4, 1⟩ :=
  roundtrip_Melody rounding_rne53 _ 0 1 100 0 0 _ 0 2 true true false (by decide +kernel) (by decide)
    (by decide) (by decide) (by decide) (by decide) (by decide)

/-! ## LeadSheet -/

/-- **`roundtrip_LeadSheet`**: `LeadSheet(Melody(mel, S, spq), ChordProgression(ch, S, spq)).to_sequence(velocity,
instrument, qpm = qpm)` → `quantize_note_sequence(·, spq)` → the melody extractor, then the chord extractor over the
melody's `[start_step, end_step)`: both come back unchanged, on the same range (so `LeadSheet(melody, chords)`
accepts them). -/
theorem roundtrip_LeadSheet (hR : Rounding R) (mel : List ℤ) (ch : List String) (S spq vel inst : ℤ) (qpm : ℚ)
    (ss gapBars : ℤ) (ip pad fd : Bool)
    (hq : 0 < qpm) (hspq : 0 < spq) (hspq' : spq ≤ 2 ^ 40) (hvel : vel ≠ 0) (hgap : 0 < gapBars)
    (hlen : S + mel.length < 2 ^ 40)
    (hc : CanonicalLeadSheet (4 * spq) (gapBars * (4 * spq)) pad ss S mel ch) :
    tripLeadSheet R mel ch S spq vel inst 0 qpm ss gapBars ip pad fd =
      .ok (⟨mel, S, S + mel.length, 4 * spq, spq⟩, ⟨ch, S, S + mel.length, 4 * spq, spq⟩) := by
  obtain ⟨hne, hcm, hl⟩ := hc
  have hS : 0 ≤ S := by
    rcases hcm with ⟨_, h⟩ | ⟨_, _, h1, h2, _⟩
    · omega
    · omega
  have hchne : ch ≠ [] := by
    intro h; rw [h] at hl; simp at hl; exact hne (List.eq_nil_of_length_eq_zero hl.symm)
  unfold tripLeadSheet renderLeadSheet
  rw [if_neg (no_zero_div hq hspq)]
  simp only [stepTime_zero hR]
  rw [quantize_rendered hR qpm spq S vel inst 0 false (melodyNotes mel) (chordChanges ch) _ hq hspq hS
    (by intro d hd; obtain ⟨h1, h2, h3⟩ := melodyNotes_bounds mel d hd; omega)
    (by
      intro c hcm'
      have h1 := chordChangesFrom_ge ch 0 Gen.NO_CHORD c hcm'
      have h2 := chordChangesFrom_lt ch 0 Gen.NO_CHORD c hcm'
      have : (ch.length : ℤ) = mel.length := by exact_mod_cast hl
      omega)]
  unfold extractStage
  simp only
  have hspb := stepsPerBar_stepped
    (stepTimeR R (secPerStepR R qpm spq) (seqStartR R (secPerStepR R qpm spq) S)) qpm spq S vel inst 0 false
    (melodyNotes mel) (chordChanges ch)
    (lastEnd (stepTimeR R (secPerStepR R qpm spq) (seqStartR R (secPerStepR R qpm spq) S)) (melodyNotes mel))
    (totalAfter S (melodyNotes mel) (C01.qstepR R (1 / 2)
      (lastEnd (stepTimeR R (secPerStepR R qpm spq) (seqStartR R (secPerStepR R qpm spq) S)) (melodyNotes mel))
      (C01.spsR R spq qpm))) hspq hspq'
  rw [melody_discrete _ _ mel S ss inst gapBars vel 0 ip pad fd (4 * spq) hspb (by omega) hgap hvel rfl hcm]
  simp only
  have hl' : S + (mel.length : ℤ) = S + (ch.length : ℤ) := by
    have : (ch.length : ℤ) = mel.length := by exact_mod_cast hl
    omega
  rw [hl', chords_discrete _ _ ch S (4 * spq) hspb rfl hchne]
  rfl

/-- **`extract_canonical_LeadSheet`**: a non-empty melody returned by the melody extractor together with the chords
returned by the chord extractor over the melody's `[start_step, end_step)` is a canonical lead sheet (the two have
the same length and start step, which is what the `LeadSheet` constructor demands). -/
theorem extract_canonical_LeadSheet (s : NoteSeq) (ss inst gapBars : ℤ) (ip pad fd : Bool) (spb : ℤ)
    (hspb : stepsPerBar s = .ok spb) (hpos : 0 < spb) (hss : 0 ≤ ss)
    (hvalid : ∀ n ∈ s.notes, melSel ss inst fd n = true → n.qs < n.qe ∧ 0 ≤ n.pitch ∧ n.pitch ≤ 127)
    (m : SimpleResult ℤ) (hm : melodyFromQuantized s ss inst gapBars ip pad fd = .ok m) (hne : m.events ≠ [])
    (c : SimpleResult String) (hc : chordsFromQuantized s m.startStep m.endStep = .ok c) :
    CanonicalLeadSheet spb (gapBars * spb) pad ss m.startStep m.events c.events ∧
      c.startStep = m.startStep ∧ c.endStep = m.endStep := by
  obtain ⟨hcm, hend, _, _⟩ := melody_extract_canonical s ss inst gapBars ip pad fd spb hspb hpos hss hvalid m hm
  have hS : 0 ≤ m.startStep := by
    rcases hcm with ⟨h, _⟩ | ⟨_, _, h1, h2, _⟩
    · exact absurd h hne
    · omega
  have hlen : 0 < m.events.length := List.length_pos_iff.mpr hne
  obtain ⟨_, h1, h3, h2, _⟩ := chords_extract_canonical s m.startStep m.endStep hS (by omega) c hc
  refine ⟨⟨hne, hcm, ?_⟩, h1, h3⟩
  have : (c.events.length : ℤ) = m.events.length := by omega
  exact_mod_cast this

/-- non-vacuity: one bar at 1 step per quarter with a chord change on the third step -/
example : tripLeadSheet rne53 [60, -2, 62, -2] ["x43", "x43", "x4737", "x4737"] 4 1 100 0 0 (rne53 (100 / 3))
      0 1 false false true =
    .ok (⟨[60, -2, 62, -2], 4, 8, 4, 1⟩, ⟨["x43", "x43", "x4737", "x4737"], 4, 8, 4, 1⟩) :=
  roundtrip_LeadSheet rounding_rne53 _ _ 4 1 100 0 _ 0 1 false false true (by decide +kernel) (by decide)
    (by decide) (by decide) (by decide) (by decide) (by decide)

/-! ## non-vacuity of the `extract_canonical_*` theorems: C07's example sequence `exRel` (4 steps per quarter, 4/4:
a drum hit, a two-note chord, abutting notes, a note two bars later, chord annotations) -/

example : ∃ r, drumsFromQuantized exRel 0 1 true true = .ok r ∧
    CanonicalDrums 16 (1 * 16) true 0 r.startStep r.events ∧ r.events ≠ [] := by
  have h : (drumsFromQuantized exRel 0 1 true true).toBool = true := by decide +kernel
  have hl : (match drumsFromQuantized exRel 0 1 true true with | .ok r => r.events.length | .error _ => 0) ≠ 0 := by
    decide +kernel
  cases hr : drumsFromQuantized exRel 0 1 true true with
  | error e => rw [hr] at h; exact absurd h (by simp [Except.toBool])
  | ok r =>
    refine ⟨r, rfl, (extract_canonical_Drums exRel 0 1 true true 16 exRel_spb (by decide) (by decide) r hr).1, ?_⟩
    intro h3
    simp only [hr, h3, List.length_nil, ne_eq, not_true_eq_false] at hl

/-- the melody of `exRel` on instrument 0 (polyphony ignored): the kept notes are 64@0–2, 60@2–4, 60@4–6 -/
theorem exRel_melody : ∃ evs, melodyFromQuantized exRel 0 0 1 true false true = .ok ⟨evs, 0, 6, 16, 4⟩ ∧
    evs.length = 6 := by
  obtain ⟨last, evs, hlast, hres, hlen, _⟩ :=
    (melody_steps exRel 0 0 1 true false true 16 exRel_spb (by decide) exRel_melValid _ _ exRel_melSorted).2 (by simp)
  have hk : keptFrom (1 * 16) (exNote 64 0 2) [exNote 55 0 2, exNote 60 2 4, exNote 60 4 6, exNote 62 24 26] =
      [exNote 60 2 4, exNote 60 4 6] := by decide +kernel
  rw [hk] at hlast
  simp only [List.getLast?_cons_cons, List.getLast?_singleton, Option.some.injEq] at hlast
  subst hlast
  have hs : (exNote 64 0 2).qs - Int.fmod ((exNote 64 0 2).qs - 0) 16 = 0 := by decide +kernel
  rw [hs] at hres hlen
  have hl6 : evs.length = 6 := by
    have : (evs.length : ℤ) = 6 := by rw [hlen]; decide +kernel
    exact_mod_cast this
  refine ⟨evs, ?_, hl6⟩
  rw [hres, hl6]
  rfl

example : ∃ r, melodyFromQuantized exRel 0 0 1 true false true = .ok r ∧
    CanonicalMelody 16 (1 * 16) false 0 r.startStep r.events ∧ r.events ≠ [] := by
  obtain ⟨evs, hr, hl⟩ := exRel_melody
  refine ⟨_, hr, (extract_canonical_Melody exRel 0 0 1 true false true 16 exRel_spb (by decide) (by decide)
    (by decide) _ hr).1, ?_⟩
  intro h3
  simp only at h3
  rw [h3] at hl; simp at hl

example : ∃ r, chordsFromQuantized exRel 0 12 = .ok r ∧ CanonicalChords r.startStep r.events := by
  obtain ⟨E, hr, _, _⟩ := chords_steps exRel 0 12 16 exRel_spb (by decide) exRel_noCoincidence
  exact ⟨_, hr, (extract_canonical_Chords exRel 0 12 (by decide) (by decide) _ hr).1⟩

example : ∃ r, rollFromQuantized exRel 0 55 64 true = .ok r ∧ CanonicalPianoroll 55 64 r.startStep r.events ∧
    r.events.length = 26 := by
  obtain ⟨evs, hr, hlen, _⟩ := pianoroll_frame_mem exRel 0 55 64 true (by decide) (by decide) (by decide) (by decide)
  have hr' : rollFromQuantized exRel 0 55 64 true = .ok ⟨evs, 0, exRel.spq⟩ := by
    unfold rollFromQuantized; rw [hr]
  refine ⟨_, hr', (extract_canonical_Pianoroll exRel 0 55 64 true (by decide) _ hr').1, ?_⟩
  have : (evs.length : ℤ) = 26 := by rw [hlen]; decide
  exact_mod_cast this

example : ∃ m c, melodyFromQuantized exRel 0 0 1 true false true = .ok m ∧
    chordsFromQuantized exRel m.startStep m.endStep = .ok c ∧
    CanonicalLeadSheet 16 (1 * 16) false 0 m.startStep m.events c.events := by
  obtain ⟨evs, hm, hl⟩ := exRel_melody
  have hnc : ¬ ChordsCoincident exRel 0 6 := by
    rintro ⟨a, ha, b, hb, h1, h2, h3, h4, h5, h6⟩
    exact exRel_noCoincidence ⟨a, ha, b, hb, h1, h2, h3, h4, by omega, h6⟩
  obtain ⟨E, hc, _, _⟩ := chords_steps exRel 0 6 16 exRel_spb (by decide) hnc
  have hne : evs ≠ [] := by intro h; rw [h] at hl; simp at hl
  exact ⟨_, _, hm, hc, (extract_canonical_LeadSheet exRel 0 0 1 true false true 16 exRel_spb (by decide)
    (by decide) (by decide) _ hm hne _ hc).1⟩

end NSV.C06
