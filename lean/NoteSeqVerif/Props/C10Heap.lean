import NoteSeqVerif.Model.C10Heap
import NoteSeqVerif.Props.C10Events
/-! C10 — histories over event-sequence objects: what a `deepcopy` followed by transposing one (or both) of the two
objects leaves in EACH of them.  In the model an operation on object `i` is a pure function of the contents of
object `i` and writes cell `i` only, so the model predicts "the object the copy was taken from is unchanged, the
transposed one moved by exactly `k`, both transposed = both moved by `k` once".  The correspondence check runs the
same histories through the real classes (`copy.deepcopy`, `LeadSheet/Melody/ChordProgression.transpose`, `squash`)
and diffs every object after every operation with `hTrace`. -/
namespace NSV.C10
open Gen

variable (split : String → Except Err Sym)

/-! ## one operation -/

/-- FRAME: `transpose` of object `i` leaves every other object exactly as it was -/
theorem heap_transpose_frame (h : Heap) (i j : Nat) (k mn mx : Int) (hne : j ≠ i) :
    (hStep split h (.transpose i k mn mx)).1[j]? = h[j]? := by
  cases hi : h[i]? with
  | none => simp [hStep, hi]
  | some o => simp [hStep, hi, List.getElem?_set_ne (Ne.symm hne)]

/-- FRAME: `squash` of object `i` leaves every other object exactly as it was -/
theorem heap_squash_frame (h : Heap) (i j : Nat) (mn mx key : Int) (hne : j ≠ i) :
    (hStep split h (.squash i mn mx key)).1[j]? = h[j]? := by
  cases hi : h[i]? with
  | none => simp [hStep, hi]
  | some o => simp [hStep, hi, List.getElem?_set_ne (Ne.symm hne)]

/-- the transposed object holds `LeadSheet.transpose` of ITS OWN former contents (a function of nothing else) -/
theorem heap_transpose_self (h : Heap) (i : Nat) (o : Obj) (k mn mx : Int) (hi : h[i]? = some o) :
    (hStep split h (.transpose i k mn mx)).1[i]? = some (objTranspose split k mn mx o).1 ∧
    (hStep split h (.transpose i k mn mx)).1.length = h.length := by
  have hlt : i < h.length := by
    rcases Nat.lt_or_ge i h.length with hl | hl
    · exact hl
    · rw [List.getElem?_eq_none hl] at hi; cases hi
  obtain ⟨_, ho⟩ := List.getElem?_eq_some_iff.mp hi
  simp [hStep, hlt, ho]

/-- the squashed object holds `LeadSheet.squash` of its own former contents -/
theorem heap_squash_self (h : Heap) (i : Nat) (o : Obj) (mn mx key : Int) (hi : h[i]? = some o) :
    (hStep split h (.squash i mn mx key)).1[i]? = some (objSquash split mn mx key o).1 ∧
    (hStep split h (.squash i mn mx key)).1.length = h.length := by
  have hlt : i < h.length := by
    rcases Nat.lt_or_ge i h.length with hl | hl
    · exact hl
    · rw [List.getElem?_eq_none hl] at hi; cases hi
  obtain ⟨_, ho⟩ := List.getElem?_eq_some_iff.mp hi
  simp [hStep, hlt, ho]

/-- `deepcopy` appends an object with the contents of object `i` and changes no existing object -/
theorem heap_deepcopy (h : Heap) (i : Nat) (o : Obj) (hi : h[i]? = some o) :
    (hStep split h (.deepcopy i)).1 = h ++ [o] ∧
    (hStep split h (.deepcopy i)).1[h.length]? = some o ∧
    ∀ j, j < h.length → (hStep split h (.deepcopy i)).1[j]? = h[j]? := by
  unfold hStep
  simp only [hi]
  refine ⟨trivial, by simp, fun j hj => ?_⟩
  simp [List.getElem?_append_left hj]

/-- an operation on an object that does not exist changes nothing -/
theorem heap_no_object (h : Heap) (op : HOp) (hno : match op with
    | .deepcopy i => h[i]? = none | .transpose i _ _ _ => h[i]? = none | .squash i _ _ _ => h[i]? = none) :
    (hStep split h op).1 = h := by
  cases op <;> simp only [] at hno <;> simp [hStep, hno]

/-! ## deepcopy, then transpose -/

/-- `b = copy.deepcopy(a); b.transpose(k, mn, mx)`: `a` (and every other object) is unchanged, `b` holds the
transposition of `a`'s contents -/
theorem deepcopy_then_transpose_copy (h : Heap) (i : Nat) (o : Obj) (k mn mx : Int) (hi : h[i]? = some o) :
    let h2 := hRun split h [.deepcopy i, .transpose h.length k mn mx]
    h2[i]? = some o ∧ h2[h.length]? = some (objTranspose split k mn mx o).1 ∧
    ∀ j, j < h.length → h2[j]? = h[j]? := by
  have hlt : i < h.length := by
    rcases Nat.lt_or_ge i h.length with hl | hl
    · exact hl
    · rw [List.getElem?_eq_none hl] at hi; cases hi
  obtain ⟨_, hc2, hc3⟩ := heap_deepcopy split h i o hi
  simp only [hRun, List.foldl]
  refine ⟨?_, ?_, fun j hj => ?_⟩
  · rw [heap_transpose_frame split _ _ _ _ _ _ (Nat.ne_of_lt hlt), hc3 i hlt, hi]
  · exact (heap_transpose_self split _ _ o k mn mx hc2).1
  · rw [heap_transpose_frame split _ _ _ _ _ _ (Nat.ne_of_lt hj), hc3 j hj]

/-- `b = copy.deepcopy(a); a.transpose(k, mn, mx)`: the copy keeps `a`'s former contents -/
theorem deepcopy_then_transpose_original (h : Heap) (i : Nat) (o : Obj) (k mn mx : Int) (hi : h[i]? = some o) :
    let h2 := hRun split h [.deepcopy i, .transpose i k mn mx]
    h2[i]? = some (objTranspose split k mn mx o).1 ∧ h2[h.length]? = some o := by
  have hlt : i < h.length := by
    rcases Nat.lt_or_ge i h.length with hl | hl
    · exact hl
    · rw [List.getElem?_eq_none hl] at hi; cases hi
  obtain ⟨_, hc2, hc3⟩ := heap_deepcopy split h i o hi
  simp only [hRun, List.foldl]
  refine ⟨?_, ?_⟩
  · exact (heap_transpose_self split _ _ o k mn mx (by rw [hc3 i hlt, hi])).1
  · rw [heap_transpose_frame split _ _ _ _ _ _ (Nat.ne_of_gt hlt), hc2]

/-- transposing BOTH the copy and the original by `k`: each holds the transposition of the original contents —
moved by `k` once, never twice -/
theorem deepcopy_then_transpose_both (h : Heap) (i : Nat) (o : Obj) (k mn mx : Int) (hi : h[i]? = some o) :
    let h3 := hRun split h [.deepcopy i, .transpose h.length k mn mx, .transpose i k mn mx]
    h3[i]? = some (objTranspose split k mn mx o).1 ∧ h3[h.length]? = some (objTranspose split k mn mx o).1 := by
  have hlt : i < h.length := by
    rcases Nat.lt_or_ge i h.length with hl | hl
    · exact hl
    · rw [List.getElem?_eq_none hl] at hi; cases hi
  obtain ⟨h1, h2, _⟩ := deepcopy_then_transpose_copy split h i o k mn mx hi
  simp only [hRun, List.foldl] at h1 h2 ⊢
  refine ⟨?_, ?_⟩
  · exact (heap_transpose_self split _ _ o k mn mx h1).1
  · rw [heap_transpose_frame split _ _ _ _ _ _ (Nat.ne_of_gt hlt), h2]

/-- `b = copy.deepcopy(a); b.squash(mn, mx, key)`: `a` is unchanged, `b` holds the squash of `a`'s contents -/
theorem deepcopy_then_squash_copy (h : Heap) (i : Nat) (o : Obj) (mn mx key : Int) (hi : h[i]? = some o) :
    let h2 := hRun split h [.deepcopy i, .squash h.length mn mx key]
    h2[i]? = some o ∧ h2[h.length]? = some (objSquash split mn mx key o).1 := by
  have hlt : i < h.length := by
    rcases Nat.lt_or_ge i h.length with hl | hl
    · exact hl
    · rw [List.getElem?_eq_none hl] at hi; cases hi
  obtain ⟨_, hc2, hc3⟩ := heap_deepcopy split h i o hi
  simp only [hRun, List.foldl]
  refine ⟨?_, ?_⟩
  · rw [heap_squash_frame split _ _ _ _ _ _ (Nat.ne_of_lt hlt), hc3 i hlt, hi]
  · exact (heap_squash_self split _ _ o mn mx key hc2).1

/-- the trace the driver prints ends in the heap `hRun` computes -/
theorem hTrace_last (h : Heap) (ops : List HOp) :
    ((hTrace split h ops).getLast?.map (·.1)).getD h = hRun split h ops := by
  induction ops generalizing h with
  | nil => simp [hTrace, hRun]
  | cons op ops ih =>
    cases ops with
    | nil => simp [hTrace, hRun]
    | cons op2 rest =>
      have hne : hTrace split (hStep split h op).1 (op2 :: rest) ≠ [] := by simp [hTrace]
      have hih := ih (hStep split h op).1
      have hl : (hTrace split h (op :: op2 :: rest)).getLast? = (hTrace split (hStep split h op).1 (op2 :: rest)).getLast? := by
        simp only [hTrace]
        rw [List.getLast?_cons_cons]
      rw [hl]
      rw [List.getLast?_eq_some_getLast hne] at hih ⊢
      simpa [hRun] using hih

/-- what "moved by exactly k" means for the object a history transposed: `objTranspose` IS `LeadSheet.transpose`
of its contents, so for splittable figures and a range of at least an octave the copy's melody is `melEvent`
of every event of the original, its chords `cpFigure` of every chord of the original (root, bass and pitch
classes by `k` modulo 12: `lead_sheet_transpose_together`), and the original still holds `o` -/
theorem deepcopy_then_transpose_moved (c : String → Sym) (h : Heap) (i : Nat) (o : Obj) (k mn mx : Int)
    (hi : h[i]? = some o) (hr : NOTES_PER_OCTAVE ≤ mx - mn)
    (hs : ∀ f ∈ o.figs, f ≠ NO_CHORD → split f = .ok (c f)) :
    let h2 := hRun split h [.deepcopy i, .transpose h.length k mn mx]
    h2[i]? = some o ∧
    h2[h.length]? = some { es := o.es.map (melEvent k mn mx), figs := o.figs.map (cpFigure c k) } := by
  obtain ⟨h1, h2, _⟩ := deepcopy_then_transpose_copy split h i o k mn mx hi
  refine ⟨h1, ?_⟩
  rw [h2]
  have := (lead_sheet_transpose_together split c k mn mx o.es o.figs hr hs).1
  simp [objTranspose, this]

/-! ## non-vacuity: a lead sheet, its copy transposed by a tone; the original keeps C / 60 -/
section Examples

def exSplit (f : String) : Except Err Sym :=
  if f = "C" then .ok { root := ⟨.C, 0⟩, kind := "", mods := "", modList := [], bass := none }
  else if f = "D" then .ok { root := ⟨.D, 0⟩, kind := "", mods := "", modList := [], bass := none }
  else .error chordSymbolError

example :
    hRun exSplit [{ es := [60, -2, 64], figs := ["C", "N.C.", "C"] }] [.deepcopy 0, .transpose 1 2 0 128] =
      [{ es := [60, -2, 64], figs := ["C", "N.C.", "C"] }, { es := [62, -2, 66], figs := ["D", "N.C.", "D"] }] := by
  decide +kernel

example :
    hRun exSplit [{ es := [60, -2, 64], figs := ["C", "N.C.", "C"] }] [.deepcopy 0, .transpose 1 2 0 128, .transpose 0 2 0 128] =
      [{ es := [62, -2, 66], figs := ["D", "N.C.", "D"] }, { es := [62, -2, 66], figs := ["D", "N.C.", "D"] }] := by
  decide +kernel

end Examples

end NSV.C10
