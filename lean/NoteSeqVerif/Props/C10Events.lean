import NoteSeqVerif.Props.C10
import NoteSeqVerif.Model.C10Events
/-! C10 — event-sequence transposition, event by event: `ChordProgression.transpose k` maps EVERY
event through `transpose_chord_symbol` independently of its neighbours (a `List.map` / `List.mapM`
characterisation of the in-place loop), `LeadSheet.transpose` / `squash` move melody and chords by
the same amount, and `k` then `−k` returns every event to its root, bass, pitch classes and quality
whatever the figures around it are (held chords, ladders whose consecutive figures are `k` apart,
`N.C.` entries).

`sp` is the (unverified, monitored) regex splitter of chord figures, as in `Props/C10.lean`: every
theorem holds for every splitter. -/
namespace NSV.C10
open Gen

/-! ## one event -/

/-- the code passes `transpose_amount % NOTES_PER_OCTAVE`; the spelling is the same as for `k` -/
theorem transposeSym_mod (c : Sym) (k : Int) :
    transposeSym c (Int.fmod k NOTES_PER_OCTAVE) = transposeSym c k := by
  unfold transposeSym NOTES_PER_OCTAVE
  rw [transpose_pitch_class_mod]
  congr 1
  cases c.bass <;> simp [transpose_pitch_class_mod]

theorem cpEvent_mod (sp : String → Except Err Sym) (k : Int) (f : String) :
    cpEvent sp (Int.fmod k NOTES_PER_OCTAVE) f = cpEvent sp k f := by
  unfold cpEvent transposeFigure
  by_cases hf : f ≠ NO_CHORD
  · rw [if_pos hf, if_pos hf]
    cases sp f <;> simp [transposeSym_mod]
  · rw [if_neg hf, if_neg hf]

/-- one event whose figure the splitter reads as `c f` -/
theorem cpEvent_figure (sp : String → Except Err Sym) (c : String → Sym) (k : Int) (f : String)
    (h : f ≠ NO_CHORD → sp f = .ok (c f)) : cpEvent sp k f = .ok (cpFigure c k f) := by
  unfold cpEvent cpFigure transposeFigure
  by_cases hf : f ≠ NO_CHORD
  · rw [if_pos hf, if_pos hf, h hf]
  · rw [if_neg hf, if_neg hf]

/-! ## the loop of `ChordProgression.transpose` is `mapM` of its body -/

theorem cpLoop_mapM (sp : String → Except Err Sym) (k : Int) (figs : List String) :
    match figs.mapM (cpEvent sp k) with
    | .ok out => cpLoop sp k figs = (out, none)
    | .error e => (cpLoop sp k figs).2 = some e := by
  induction figs with
  | nil => simp [cpLoop, pure, Except.pure]
  | cons f fs ih =>
    rw [List.mapM_cons]
    unfold cpLoop
    by_cases hf : f ≠ NO_CHORD
    · have he : cpEvent sp k f = transposeFigure sp f k := by unfold cpEvent; rw [if_pos hf]
      rw [if_pos hf, he]
      cases transposeFigure sp f k with
      | error e => simp [bind, Except.bind]
      | ok g =>
        cases hm : fs.mapM (cpEvent sp k) with
        | error e => rw [hm] at ih; simpa [bind, Except.bind] using ih
        | ok out => rw [hm] at ih; simp only [] at ih; simp [bind, Except.bind, pure, Except.pure, ih]
    · have he : cpEvent sp k f = .ok f := by unfold cpEvent; rw [if_neg hf]
      rw [if_neg hf, he]
      cases hm : fs.mapM (cpEvent sp k) with
      | error e => rw [hm] at ih; simpa [bind, Except.bind] using ih
      | ok out => rw [hm] at ih; simp only [] at ih; simp [bind, Except.bind, pure, Except.pure, ih]

/-- **`ChordProgression.transpose k` is `mapM` of the one-event body**: it returns normally with the
events `out` exactly when mapping every event — on its own — through
`if figure != NO_CHORD: transpose_chord_symbol(figure, k)` succeeds with `out`, and it raises `e`
exactly when that map meets its first error `e`.  Nothing in the result at position `i` depends on
any event other than `figs[i]`. -/
theorem chord_progression_transpose_mapM (sp : String → Except Err Sym) (k : Int) (figs : List String) :
    (∀ out, cpTranspose sp k figs = (out, none) ↔ figs.mapM (cpEvent sp k) = .ok out) ∧
    (∀ e, (cpTranspose sp k figs).2 = some e ↔ figs.mapM (cpEvent sp k) = .error e) := by
  have h := cpLoop_mapM sp (Int.fmod k NOTES_PER_OCTAVE) figs
  have hm : figs.mapM (cpEvent sp (Int.fmod k NOTES_PER_OCTAVE)) = figs.mapM (cpEvent sp k) := by
    congr 1
    funext f
    exact cpEvent_mod sp k f
  rw [hm] at h
  unfold cpTranspose
  cases hr : figs.mapM (cpEvent sp k) with
  | ok out0 =>
    rw [hr] at h
    simp only [] at h
    rw [h]
    exact ⟨fun out => by simp, fun e => by simp⟩
  | error e0 =>
    rw [hr] at h
    simp only [] at h
    refine ⟨fun out => ?_, fun e => by rw [h]; simp⟩
    constructor
    · intro h'
      rw [h'] at h
      cases h
    · intro h'
      cases h'

/-- **the `List.map` form**: when every figure other than `N.C.` can be split (`c f` is what the
splitter reads in `f`), the progression afterwards is the input mapped through
`f ↦ render (transpose (c f) k)` (`N.C.` ↦ `N.C.`), and nothing is raised -/
theorem chord_progression_transpose_map (sp : String → Except Err Sym) (c : String → Sym) (k : Int)
    (figs : List String) (hs : ∀ f ∈ figs, f ≠ NO_CHORD → sp f = .ok (c f)) :
    cpTranspose sp k figs = (figs.map (cpFigure c k), none) := by
  apply ((chord_progression_transpose_mapM sp k figs).1 _).mpr
  induction figs with
  | nil => rfl
  | cons f fs ih =>
    rw [List.mapM_cons, cpEvent_figure sp c k f (hs f (by simp)), ih (fun g hg => hs g (by simp [hg]))]
    rfl

theorem figRel_split (sp : String → Except Err Sym) (k : Int) (figs out : List String)
    (hp : Pointwise (FigRel sp k) figs out) : ∀ f ∈ figs, f ≠ NO_CHORD → ∃ c, sp f = .ok c := by
  induction figs generalizing out with
  | nil => simp
  | cons g gs ih =>
    cases out with
    | nil => simp [Pointwise] at hp
    | cons o os =>
      intro f hf hne
      rcases List.mem_cons.mp hf with rfl | hf'
      · have := hp.1
        unfold FigRel at this
        rw [if_pos hne] at this
        obtain ⟨c, hc, _⟩ := this
        exact ⟨c, hc⟩
      · exact ih os hp.2 f hf' hne

/-- conversely, a normal return means every figure other than `N.C.` was split: the `List.map` form
applies to exactly the calls that do not raise -/
theorem chord_progression_transpose_ok (sp : String → Except Err Sym) (k : Int) (figs : List String)
    (h : (cpTranspose sp k figs).2 = none) : ∀ f ∈ figs, f ≠ NO_CHORD → ∃ c, sp f = .ok c := by
  exact figRel_split sp k figs _ ((chord_progression_transpose_spec sp k figs).1 h)

/-- **independence of the neighbours, position by position**: after a normal return the event at
position `i` is the one-event body applied to the event that was at position `i` — the same value
the one-element progression `[figs[i]]` gets -/
theorem chord_progression_transpose_event (sp : String → Except Err Sym) (k : Int) (figs : List String)
    (h : (cpTranspose sp k figs).2 = none) :
    (cpTranspose sp k figs).1.length = figs.length ∧
    ∀ (i : Nat) (h1 : i < figs.length) (h2 : i < (cpTranspose sp k figs).1.length),
      cpEvent sp k figs[i] = .ok (cpTranspose sp k figs).1[i] ∧
      cpTranspose sp k [figs[i]] = ([(cpTranspose sp k figs).1[i]], none) := by
  have hp := (chord_progression_transpose_spec sp k figs).1 h
  refine ⟨(Pointwise.length_eq hp).symm, ?_⟩
  intro i h1 h2
  have hr := Pointwise.get hp i h1 h2
  have hev : cpEvent sp k figs[i] = .ok (cpTranspose sp k figs).1[i] := by
    unfold FigRel at hr
    unfold cpEvent transposeFigure
    by_cases hf : figs[i] ≠ NO_CHORD
    · rw [if_pos hf] at hr ⊢
      obtain ⟨c, hc, hg⟩ := hr
      rw [hc, hg]
    · rw [if_neg hf] at hr ⊢
      rw [hr]
  refine ⟨hev, ?_⟩
  apply ((chord_progression_transpose_mapM sp k [figs[i]]).1 _).mpr
  rw [List.mapM_cons, hev]
  rfl

theorem cpLoop_cons (sp : String → Except Err Sym) (k : Int) (f : String) (fs : List String) :
    cpLoop sp k (f :: fs) =
      if f ≠ NO_CHORD then
        match transposeFigure sp f k with
        | .error e => (f :: fs, some e)
        | .ok f' => (f' :: (cpLoop sp k fs).1, (cpLoop sp k fs).2)
      else (f :: (cpLoop sp k fs).1, (cpLoop sp k fs).2) := by
  simp only [cpLoop]
  rfl

/-- **compositional form**: transposing a concatenation is transposing the parts (when the first
part does not raise) — what precedes an event has no influence on what happens to it -/
theorem chord_progression_transpose_append (sp : String → Except Err Sym) (k : Int) (a b : List String)
    (h : (cpTranspose sp k a).2 = none) :
    cpTranspose sp k (a ++ b) = ((cpTranspose sp k a).1 ++ (cpTranspose sp k b).1, (cpTranspose sp k b).2) := by
  unfold cpTranspose at *
  generalize Int.fmod k NOTES_PER_OCTAVE = k' at *
  induction a with
  | nil => simp [cpLoop]
  | cons f fs ih =>
    rw [List.cons_append, cpLoop_cons sp k' f (fs ++ b)]
    rw [cpLoop_cons sp k' f fs] at h ⊢
    by_cases hf : f ≠ NO_CHORD
    · rw [if_pos hf] at h ⊢
      rw [if_pos hf]
      cases ht : transposeFigure sp f k' with
      | error e => rw [ht] at h; cases h
      | ok g =>
        rw [ht] at h
        simp only [] at h ⊢
        rw [ih h]
        rfl
    · rw [if_neg hf] at h ⊢
      rw [if_neg hf]
      simp only [] at h ⊢
      rw [ih h]
      rfl

/-- non-vacuity, on exactly the shape a memo over the previous *transposed* figure gets wrong: a
progression whose consecutive figures are `k` apart (`C`, `D`, `E` by `+2`; a cycle of fifths by `+7`),
with a held chord and an `N.C.` in between -/
example :
    let sp : String → Except Err Sym := fun t =>
      if t = "C" then .ok ⟨⟨.C, 0⟩, "", "", [], none⟩ else if t = "D" then .ok ⟨⟨.D, 0⟩, "", "", [], none⟩
      else if t = "E" then .ok ⟨⟨.E, 0⟩, "", "", [], none⟩ else if t = "G" then .ok ⟨⟨.G, 0⟩, "", "", [], none⟩
      else .error chordSymbolError
    cpTranspose sp 2 ["C", "D", "D", "N.C.", "E", "C"] = (["D", "E", "E", "N.C.", "Gb", "D"], none) ∧
    cpTranspose sp 7 ["C", "G", "D"] = (["G", "D", "A"], none) ∧
    ["C", "D", "D", "N.C.", "E", "C"].mapM (cpEvent sp 2) = .ok ["D", "E", "E", "N.C.", "Gb", "D"] ∧
    cpTranspose sp 2 ["D", "H", "D"] = (["E", "H", "D"], some chordSymbolError) ∧
    ["D", "H", "D"].mapM (cpEvent sp 2) = .error chordSymbolError := by
  decide +kernel

/-! ## `LeadSheet.transpose` / `squash`: melody and chords move together -/

/-- what the statement says about the chord `c` after a transposition by `k` that produced `c'` -/
def ChordMoved (k : Int) (c c' : Sym) : Prop :=
  symRoot c' = Int.fmod (symRoot c + k) 12 ∧ symBass c' = Int.fmod (symBass c + k) 12 ∧
  symPitches c' = (symPitches c).map (List.map (fun p => Int.fmod (p + k) 12)) ∧
  symQuality c' = symQuality c

/-- **`LeadSheet.transpose k`**: for every lead sheet whose figures can be split and every range of at
least an octave, nothing is raised, the melody is `Melody.transpose` event by event, the chords are
`transpose_chord_symbol` event by event, and BOTH moved by the same `k`: every pitch ends in
`[min, max)` congruent to `e + k`, special events and `N.C.` are untouched, and every chord's root,
bass and pitch classes moved by `k` modulo 12 with its quality unchanged -/
theorem lead_sheet_transpose_together (sp : String → Except Err Sym) (c : String → Sym) (k mn mx : Int)
    (es : List Int) (figs : List String) (hr : NOTES_PER_OCTAVE ≤ mx - mn)
    (hs : ∀ f ∈ figs, f ≠ NO_CHORD → sp f = .ok (c f)) :
    lsTranspose sp k mn mx es figs = (es.map (melEvent k mn mx), figs.map (cpFigure c k), none) ∧
    (∀ e ∈ es, (e < MIN_MIDI_PITCH → melEvent k mn mx e = e) ∧
      (MIN_MIDI_PITCH ≤ e → mn ≤ melEvent k mn mx e ∧ melEvent k mn mx e < mx ∧
        (melEvent k mn mx e - (e + k)) % NOTES_PER_OCTAVE = 0)) ∧
    (∀ f ∈ figs, (f = NO_CHORD → cpFigure c k f = f) ∧
      (f ≠ NO_CHORD → cpFigure c k f = render (transposeSym (c f) k) ∧ ChordMoved k (c f) (transposeSym (c f) k))) := by
  refine ⟨?_, ?_, ?_⟩
  · unfold lsTranspose melTranspose
    rw [chord_progression_transpose_map sp c k figs hs]
  · intro e _
    exact ⟨melody_transpose_special k mn mx e, melody_transpose_fold k mn mx e hr⟩
  · intro f _
    refine ⟨fun h => by unfold cpFigure; rw [if_neg (by simp [h])], fun h => ⟨by unfold cpFigure; rw [if_pos h], ?_⟩⟩
    obtain ⟨h1, h2, h3, _, _, _, h7⟩ := transpose_symbol_hom (c f) k
    exact ⟨h1, h2, h3, h7⟩

/-- **`LeadSheet.squash`**: the amount `a` that `Melody.squash` computed and returned is the amount the
chords are transposed by — melody (into `[min, max)`, congruent to `e + a`) and every chord (root,
bass, pitch classes by `a` modulo 12) move together, and `a ≡ transpose_to_key − major_key` -/
theorem lead_sheet_squash_together (R : Rat → Rat) (sp : String → Except Err Sym) (c : String → Sym)
    (mn mx toKey : Int) (es : List Int) (figs : List String) (hr : NOTES_PER_OCTAVE ≤ mx - mn)
    (hev : ∀ e ∈ es, e ≤ MAX_MIDI_PITCH) (hs : ∀ f ∈ figs, f ≠ NO_CHORD → sp f = .ok (c f)) :
    let r := lsSquashR R sp mn mx toKey es figs
    let a := r.2.1
    r.2.2 = (figs.map (cpFigure c a), none) ∧
    ((a - (toKey - majorKey es)) % NOTES_PER_OCTAVE = 0 ∨ (a = 0 ∧ ∀ e ∈ es, e < MIN_MIDI_PITCH)) ∧
    r.1.length = es.length ∧
    (∀ (i : Nat) (h : i < es.length) (h' : i < r.1.length),
      (es[i] < MIN_MIDI_PITCH → r.1[i] = es[i]) ∧
      (MIN_MIDI_PITCH ≤ es[i] → mn ≤ r.1[i] ∧ r.1[i] < mx ∧ (r.1[i] - (es[i] + a)) % NOTES_PER_OCTAVE = 0)) ∧
    (∀ f ∈ figs, f ≠ NO_CHORD → ChordMoved a (c f) (transposeSym (c f) a)) := by
  intro r a
  have hsq := squash_spec R es mn mx (some toKey) hr hev
  simp only [] at hsq
  obtain ⟨h1, h2, h3⟩ := hsq
  refine ⟨?_, h1, h2, h3, ?_⟩
  · simp only [r, a, lsSquashR]
    rw [chord_progression_transpose_map sp c _ figs hs]
  · intro f _ _
    obtain ⟨g1, g2, g3, _, _, _, g7⟩ := transpose_symbol_hom (c f) a
    exact ⟨g1, g2, g3, g7⟩

/-- non-vacuity of `lead_sheet_squash_together`: a C-major fragment over C, D (a tone above: the figure the
preceding chord becomes), N.C., squashed into `[48, 84)` in D (key 2): the amount is 2 for melody and chords -/
example :
    let sp : String → Except Err Sym := fun t =>
      if t = "C" then .ok ⟨⟨.C, 0⟩, "", "", [], none⟩ else if t = "D" then .ok ⟨⟨.D, 0⟩, "", "", [], none⟩
      else .error chordSymbolError
    NOTES_PER_OCTAVE ≤ (84 : Int) - 48 ∧ (∀ e ∈ [-2, 60, 62, 64, -1], e ≤ MAX_MIDI_PITCH) ∧
    lsSquashR rne53 sp 48 84 2 [-2, 60, 62, 64, -1] ["C", "D", "D", "N.C.", "C"] =
      ([-2, 62, 64, 66, -1], 2, ["D", "E", "E", "N.C.", "D"], none) := by
  decide +kernel

/-! ## round trip `k` then `−k` on a whole progression -/

/-- a re-assembled figure starts with a letter `A`..`G`, so it is never the `N.C.` marker -/
theorem render_ne_no_chord (c : Sym) : render c ≠ NO_CHORD := by
  intro h
  have h' := congrArg String.toList h
  unfold render pcToString pcChars NO_CHORD at h'
  simp only [String.toList_append, String.toList_ofList, List.cons_append] at h'
  have hd := congrArg List.head? h'
  simp only [List.head?_cons] at hd
  cases hc : c.root.step <;> rw [hc] at hd <;> simp [Step.letter] at hd <;> revert hd <;> decide

/-- **`k` then `−k` (and then any multiple of 12) on a progression**: if the splitter reads every
figure, and re-reads every transposed figure as the transposed structure (the monitored string-layer
fact), then the second call raises nothing, keeps `N.C.` and the length, and returns every chord to
a figure with the same root, bass, pitch classes and quality — independently of which figures stand
next to each other (in particular when consecutive figures are `k` apart) -/
theorem chord_progression_round_trip (sp : String → Except Err Sym) (c : String → Sym) (k : Int)
    (figs : List String) (hs : ∀ f ∈ figs, f ≠ NO_CHORD → sp f = .ok (c f))
    (hre : ∀ f ∈ figs, f ≠ NO_CHORD → sp (render (transposeSym (c f) k)) = .ok (transposeSym (c f) k)) :
    let back := cpTranspose sp (-k) (cpTranspose sp k figs).1
    back.2 = none ∧
    Pointwise (fun f g => if f ≠ NO_CHORD then
        ∃ c', g = render c' ∧ symRoot c' = symRoot (c f) ∧ symBass c' = symBass (c f) ∧
          symPitches c' = symPitches (c f) ∧ symQuality c' = symQuality (c f)
      else g = f) figs back.1 := by
  intro back
  have h1 := chord_progression_transpose_map sp c k figs hs
  -- the splitter's reading of the figures of the transposed progression
  let c2 : String → Sym := fun g => match sp g with | .ok s => s | .error _ => default
  have hs2 : ∀ g ∈ figs.map (cpFigure c k), g ≠ NO_CHORD → sp g = .ok (c2 g) := by
    intro g hg hne
    obtain ⟨f, hf, rfl⟩ := List.mem_map.mp hg
    by_cases hfn : f ≠ NO_CHORD
    · have : cpFigure c k f = render (transposeSym (c f) k) := by unfold cpFigure; rw [if_pos hfn]
      simp only [c2, this, hre f hf hfn]
    · exfalso
      apply hne
      unfold cpFigure
      rw [if_neg hfn]
      simpa using hfn
  have h2 := chord_progression_transpose_map sp c2 (-k) (figs.map (cpFigure c k)) hs2
  have hb : back = ((figs.map (cpFigure c k)).map (cpFigure c2 (-k)), none) := by
    simp only [back, h1, h2]
  rw [hb]
  refine ⟨rfl, ?_⟩
  rw [List.map_map]
  apply Pointwise.map
  intro f hf
  by_cases hfn : f ≠ NO_CHORD
  · rw [if_pos hfn]
    have e1 : cpFigure c k f = render (transposeSym (c f) k) := by unfold cpFigure; rw [if_pos hfn]
    have e2 : c2 (render (transposeSym (c f) k)) = transposeSym (c f) k := by
      simp only [c2, hre f hf hfn]
    refine ⟨transposeSym (transposeSym (c f) k) (-k), ?_, transpose_symbol_inverse (c f) k⟩
    simp only [Function.comp, e1]
    unfold cpFigure
    rw [if_pos (render_ne_no_chord _), e2]
  · rw [if_neg hfn]
    have : f = NO_CHORD := by simpa using hfn
    subst this
    simp [Function.comp, cpFigure]

example :
    let sp : String → Except Err Sym := fun t =>
      if t = "C" then .ok ⟨⟨.C, 0⟩, "", "", [], none⟩ else if t = "D" then .ok ⟨⟨.D, 0⟩, "", "", [], none⟩
      else if t = "E" then .ok ⟨⟨.E, 0⟩, "", "", [], none⟩ else .error chordSymbolError
    cpTranspose sp (-2) (cpTranspose sp 2 ["C", "D", "N.C.", "C"]).1 = (["C", "D", "N.C.", "C"], none) ∧
    lsTranspose sp 2 48 84 [60, -2, 83, -1] ["C", "D", "N.C.", "C"] =
      ([62, -2, 73, -1], ["D", "E", "N.C.", "D"], none) := by
  decide +kernel

end NSV.C10
