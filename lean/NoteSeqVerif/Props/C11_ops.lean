import NoteSeqVerif.Model.C11
import NoteSeqVerif.Generated.C11
/-! # C11 (a) — per-operation purity obligations

`pure_<op> : pureProg ir_<op> = true`, where `ir_<op>` is the reference IR that `gen/refir.py`
regenerates from the CURRENT Python source of `<op>` on every run (`Generated/C11.lean`).  These are
closed computations, re-decided by the kernel on every run; what an accepted IR means is
`NSV.C11.pure_sound` (`Props/C11.lean`). -/
namespace NSV.C11

/-! ## Per-operation obligations, re-decided against the IR of the current source on every run -/
open Gen

theorem pure_trim_note_sequence : pureProg ir_trim_note_sequence = true := by decide +kernel
theorem pure__extract_subsequences : pureProg ir__extract_subsequences = true := by decide +kernel
theorem pure_extract_subsequence : pureProg ir_extract_subsequence = true := by decide +kernel
theorem pure_split_note_sequence : pureProg ir_split_note_sequence = true := by decide +kernel
theorem pure_split_note_sequence_on_time_changes :
    pureProg ir_split_note_sequence_on_time_changes = true := by decide +kernel
theorem pure_split_note_sequence_on_silence : pureProg ir_split_note_sequence_on_silence = true := by decide +kernel
theorem pure_shift_sequence_times : pureProg ir_shift_sequence_times = true := by decide +kernel
theorem pure_stretch_note_sequence : pureProg ir_stretch_note_sequence = true := by decide +kernel
theorem pure_transpose_note_sequence : pureProg ir_transpose_note_sequence = true := by decide +kernel
theorem pure_quantize_note_sequence : pureProg ir_quantize_note_sequence = true := by decide +kernel
theorem pure_quantize_note_sequence_absolute : pureProg ir_quantize_note_sequence_absolute = true := by decide +kernel
theorem pure_apply_sustain_control_changes : pureProg ir_apply_sustain_control_changes = true := by decide +kernel
theorem pure_concatenate_sequences : pureProg ir_concatenate_sequences = true := by decide +kernel
theorem pure_merge_sequences : pureProg ir_merge_sequences = true := by decide +kernel
theorem pure_repeat_sequence_to_duration : pureProg ir_repeat_sequence_to_duration = true := by decide +kernel
theorem pure_expand_section_groups : pureProg ir_expand_section_groups = true := by decide +kernel
theorem pure_remove_redundant_data : pureProg ir_remove_redundant_data = true := by decide +kernel
theorem pure_adjust_notesequence_times : pureProg ir_adjust_notesequence_times = true := by decide +kernel
theorem pure_rectify_beats : pureProg ir_rectify_beats = true := by decide +kernel

/-! ## The result is a NEW NoteSequence

"Every operation documented as returning a new NoteSequence": whatever an accepted operation returns
contains no object that was reachable from its arguments (`NSV.C11.fresh_result_sound`), so no later
in-place edit of the result by the caller can reach the argument, for every argument value (factor
1.0, amount 0, an identity time map, a window covering everything, a single piece, no section groups …).
Re-decided against the IR of the current source on every run. -/
theorem fresh_trim_note_sequence : freshResult ir_trim_note_sequence = true := by decide +kernel
theorem fresh__extract_subsequences : freshResult ir__extract_subsequences = true := by decide +kernel
theorem fresh_extract_subsequence : freshResult ir_extract_subsequence = true := by decide +kernel
theorem fresh_split_note_sequence : freshResult ir_split_note_sequence = true := by decide +kernel
theorem fresh_split_note_sequence_on_time_changes : freshResult ir_split_note_sequence_on_time_changes = true := by decide +kernel
theorem fresh_split_note_sequence_on_silence : freshResult ir_split_note_sequence_on_silence = true := by decide +kernel
theorem fresh_shift_sequence_times : freshResult ir_shift_sequence_times = true := by decide +kernel
theorem fresh_stretch_note_sequence : freshResult ir_stretch_note_sequence = true := by decide +kernel
theorem fresh_transpose_note_sequence : freshResult ir_transpose_note_sequence = true := by decide +kernel
theorem fresh_quantize_note_sequence : freshResult ir_quantize_note_sequence = true := by decide +kernel
theorem fresh_quantize_note_sequence_absolute : freshResult ir_quantize_note_sequence_absolute = true := by decide +kernel
theorem fresh_apply_sustain_control_changes : freshResult ir_apply_sustain_control_changes = true := by decide +kernel
theorem fresh_concatenate_sequences : freshResult ir_concatenate_sequences = true := by decide +kernel
theorem fresh_merge_sequences : freshResult ir_merge_sequences = true := by decide +kernel
theorem fresh_repeat_sequence_to_duration : freshResult ir_repeat_sequence_to_duration = true := by decide +kernel
theorem fresh_expand_section_groups : freshResult ir_expand_section_groups = true := by decide +kernel
theorem fresh_remove_redundant_data : freshResult ir_remove_redundant_data = true := by decide +kernel
theorem fresh_adjust_notesequence_times : freshResult ir_adjust_notesequence_times = true := by decide +kernel
theorem fresh_rectify_beats : freshResult ir_rectify_beats = true := by decide +kernel

/-- `_quantize_notes` is documented to work in place; the obligation proved for it is its *contract*:
called on a wholly fresh first argument it writes nothing that existed before (that is how
`quantize_note_sequence(_absolute)` call it, which is part of their obligations above). -/
theorem contract__quantize_notes :
    ir__quantize_notes.contracts[ir__quantize_notes.entry]? = some ⟨[AbsVal.fresh, AbsVal.both], AbsVal.bot⟩ ∧
      checkList ir__quantize_notes.contracts ir__quantize_notes.ops ir__quantize_notes.contracts = true := by
  decide +kernel

/-! ### self-test of the checker: the `in_place=True` specialisations must be flagged -/
theorem impure_stretch_note_sequence_in_place : pureProg ir_stretch_note_sequence__in_place = false := by
  decide +kernel
theorem impure_transpose_note_sequence_in_place : pureProg ir_transpose_note_sequence__in_place = false := by
  decide +kernel
theorem impure__quantize_notes : pureProg ir__quantize_notes = false := by decide +kernel

end NSV.C11
