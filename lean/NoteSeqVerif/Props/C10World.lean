import NoteSeqVerif.Model.C10World
import NoteSeqVerif.Props.C10Heap
/-! C10 — objects built from the caller's lists: the lists are never rewritten, two objects built from one list
are independent, and transposing both moves both by the same amount (they agree with each other and with
`LeadSheet.transpose` of the list's contents). -/
namespace NSV.C10
open Gen

variable (split : String → Except Err Sym)

/-- FRAME for the caller's lists: no operation — construction, deepcopy, transpose, squash, also one that
raises — changes any list the caller handed to a constructor -/
theorem world_step_lists (w : World) (op : WOp) :
    (wStep split w op).1.evLists = w.evLists ∧ (wStep split w op).1.figLists = w.figLists := by
  cases op with
  | build e f => unfold wStep; cases hb : built w e f <;> simp [hb]
  | obj o => simp [wStep]

/-- … hence after any history the caller's lists hold what they held when they were handed over -/
theorem world_lists_invariant (w : World) (ops : List WOp) :
    (wRun split w ops).evLists = w.evLists ∧ (wRun split w ops).figLists = w.figLists := by
  induction ops generalizing w with
  | nil => simp [wRun]
  | cons op ops ih =>
    have h := ih (wStep split w op).1
    have hs := world_step_lists split w op
    simp only [wRun, List.foldl_cons] at h ⊢
    exact ⟨h.1.trans hs.1, h.2.trans hs.2⟩

/-- construction appends an object holding the contents of the lists and changes no existing object -/
theorem world_build (w : World) (e f : Option Nat) (o : Obj) (hb : built w e f = some o) :
    (wStep split w (.build e f)).1.heap = w.heap ++ [o] ∧
    (wStep split w (.build e f)).1.heap[w.heap.length]? = some o ∧
    ∀ j, j < w.heap.length → (wStep split w (.build e f)).1.heap[j]? = w.heap[j]? := by
  unfold wStep
  simp only [hb]
  refine ⟨trivial, by simp, fun j hj => ?_⟩
  simp [List.getElem?_append_left hj]

/-- what is built depends on the lists only: building again from the same lists — after whatever happened to
the objects in between — gives an object with the same contents -/
theorem built_after_history (w : World) (ops : List WOp) (e f : Option Nat) :
    built (wRun split w ops) e f = built w e f := by
  have h := world_lists_invariant split w ops
  unfold built
  rw [h.1, h.2]

/-- two objects from ONE list (`a = Cls(l); b = Cls(l); a.transpose(k)`): `a` holds the transposition of the
list's contents, `b` still holds the contents, the lists are unchanged -/
theorem build_twice_transpose_one (w : World) (e f : Option Nat) (o : Obj) (k mn mx : Int)
    (hb : built w e f = some o) :
    let w2 := wRun split w [.build e f, .build e f, .obj (.transpose w.heap.length k mn mx)]
    w2.heap[w.heap.length]? = some (objTranspose split k mn mx o).1 ∧
    w2.heap[w.heap.length + 1]? = some o ∧
    (∀ j, j < w.heap.length → w2.heap[j]? = w.heap[j]?) ∧
    w2.evLists = w.evLists ∧ w2.figLists = w.figLists := by
  have hb2 : built { w with heap := w.heap ++ [o] } e f = some o := by
    unfold built at hb ⊢; exact hb
  simp only [wRun, List.foldl_cons, List.foldl_nil, wStep, hb, hb2]
  have hi : (w.heap ++ [o] ++ [o])[w.heap.length]? = some o := by
    rw [List.append_assoc, List.getElem?_append_right (Nat.le_refl _)]; simp
  have hs := heap_transpose_self split (w.heap ++ [o] ++ [o]) w.heap.length o k mn mx hi
  refine ⟨hs.1, ?_, fun j hj => ?_, trivial, trivial⟩
  · rw [heap_transpose_frame split _ _ _ k mn mx (by omega)]
    rw [List.getElem?_append_right (by simp)]; simp
  · rw [heap_transpose_frame split _ _ _ k mn mx (by omega)]
    rw [List.append_assoc, List.getElem?_append_left hj]

/-- … and transposing the second one as well moves it by the same amount: both objects agree (each holds
`LeadSheet.transpose` of the list's contents, once) -/
theorem build_twice_transpose_both (w : World) (e f : Option Nat) (o : Obj) (k mn mx : Int)
    (hb : built w e f = some o) :
    let w2 := wRun split w [.build e f, .build e f, .obj (.transpose w.heap.length k mn mx),
      .obj (.transpose (w.heap.length + 1) k mn mx)]
    w2.heap[w.heap.length]? = some (objTranspose split k mn mx o).1 ∧
    w2.heap[w.heap.length + 1]? = some (objTranspose split k mn mx o).1 ∧
    w2.evLists = w.evLists ∧ w2.figLists = w.figLists := by
  have h3 := build_twice_transpose_one split w e f o k mn mx hb
  simp only [wRun, List.foldl_cons, List.foldl_nil] at h3 ⊢
  obtain ⟨ha, hbb, _, hl1, hl2⟩ := h3
  generalize hw : (wStep split (wStep split (wStep split w (.build e f)).1 (.build e f)).1
    (.obj (.transpose w.heap.length k mn mx))).1 = w3 at ha hbb hl1 hl2 ⊢
  have hs := heap_transpose_self split w3.heap (w.heap.length + 1) o k mn mx hbb
  refine ⟨?_, ?_, hl1, hl2⟩
  · show (hStep split w3.heap _).1[w.heap.length]? = _
    rw [heap_transpose_frame split _ _ _ k mn mx (by omega)]; exact ha
  · exact hs.1

/-- non-vacuity: a progression and a lead sheet's chords built from one figures list -/
example : built ⟨[[60, -2]], [["C", "N.C."]], []⟩ none (some 0) = some ⟨[], ["C", "N.C."]⟩ ∧
    built ⟨[[60, -2]], [["C", "N.C."]], []⟩ (some 0) (some 0) = some ⟨[60, -2], ["C", "N.C."]⟩ ∧
    built ⟨[[60, -2]], [["C", "N.C."]], []⟩ (some 1) (some 0) = none := by decide

end NSV.C10
