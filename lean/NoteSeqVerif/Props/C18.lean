import NoteSeqVerif.Model.C18
namespace NSV.C18
end NSV.C18
