import Mathlib.Tactic.Set
import NoteSeqVerif.Proofs.C18Float
import NoteSeqVerif.Proofs.C18Enc
import NoteSeqVerif.Proofs.C18EncB
import NoteSeqVerif.Proofs.C18EncC
import NoteSeqVerif.Proofs.C18Snap
import NoteSeqVerif.Proofs.C18Dec
/-! C18 — property theorems (DESIGN 6.18).  Helper lemmas live in `Proofs/C18*.lean`
(`enc_active_cell`, the generic active-roll formula, is in `Proofs/C18Enc.lean`; the vocabulary `wUpd`, `noteW`,
`ccHits` of the weights / control-change formulas in `Proofs/C18EncC.lean`; the float lemmas
`timeToFrames_grid`, `numRows_grid` and the structure `Rounding` in `Proofs/C18Float.lean`).

`R` = rounding after every float64 operation (`rne53` in the driver), `R32` = float32 store,
`Rv` = arithmetic of the velocity array's dtype.  Theorems quantified over `R` hold for every
function, those with `Rounding R` for every operator with the three IEEE properties, those with
`id` are the exact-arithmetic reading. -/
namespace NSV.C18

/-! ## sequence_to_pianoroll -/

/-- onset frames in window mode: `[f₀ - window, f₀ + window] ∩ [0, n)` around the delayed first frame -/
theorem noteFrames_window (R : Rat → Rat) (eps : Rat) (c : Cfg) (total : Rat) (n : Nat) (nt : PNote)
    (hm : c.mode = 0) :
    ∃ nf, noteFrames R eps c total n nt = .ok nf ∧
      ∀ f : Nat, f < n → (inSlice n nf.os nf.oe f = true ↔
        (framesFromTimes R eps c.fps c.occ (R (nt.start + R (c.delayMs / 1000)))
            (R (nt.end_ + R (c.delayMs / 1000)))).1 - c.window ≤ (f : Int) ∧
        (f : Int) ≤ (framesFromTimes R eps c.fps c.occ (R (nt.start + R (c.delayMs / 1000)))
            (R (nt.end_ + R (c.delayMs / 1000)))).1 + c.window) := by
  unfold noteFrames
  simp only [hm, ↓reduceIte]
  refine ⟨_, rfl, ?_⟩
  intro f hf
  simp only
  rw [inSlice_iff n _ _ f (by omega) (by omega) hf]
  omega

/-- onset frames in length mode: the frames of `[onset, min(end, onset + onset_length_ms))`, clipped at 0 -/
theorem noteFrames_length (R : Rat → Rat) (eps : Rat) (c : Cfg) (total : Rat) (n : Nat) (nt : PNote)
    (hm : c.mode = 1) :
    ∃ nf, noteFrames R eps c total n nt = .ok nf ∧
      (nf.os, nf.oe) =
        (max 0 (framesFromTimes R eps c.fps c.occ (R (nt.start + R (c.delayMs / 1000)))
          (rmin (R (nt.end_ + R (c.delayMs / 1000)))
            (R (R (nt.start + R (c.delayMs / 1000)) + R (c.onsetLenMs / 1000))))).1,
         max 0 (framesFromTimes R eps c.fps c.occ (R (nt.start + R (c.delayMs / 1000)))
          (rmin (R (nt.end_ + R (c.delayMs / 1000)))
            (R (R (nt.start + R (c.delayMs / 1000)) + R (c.onsetLenMs / 1000))))).2) := by
  unfold noteFrames
  simp [hm]

/-- **onset roll** (any rounding, any parameters): a cell is 1 exactly when some in-range note's onset
span contains it -/
theorem enc_onset_cell {R R32 : Rat → Rat} {eps : Rat} {c : Cfg} {total : Rat} {notes : List PNote}
    {ccs : List PCC} {pr : Pianoroll} (h : encode R R32 eps c total notes ccs = .ok pr) (f p : Nat)
    (hf : f < (numRows R c.fps total).toNat) (hp : p < (c.maxPitch - c.minPitch + 1).toNat) :
    getCell pr.onsets f p = some
      (if ∃ nt ∈ notes, NoteCovers R eps c total (numRows R c.fps total).toNat (selOnset c) f p nt = true
       then 1 else 0) := by
  obtain ⟨_, _, st, hst, _, ho, _⟩ := encode_ok h
  rw [ho, encNotes_cell R R32 eps c total _ _ (·.onsets) (selOnset c)
    (step_onsets R R32 eps c total _) _ _ st hst 0 rfl f p hf hp]
  rw [foldl_sel_const _ _ _ 1 0]
  · congr 1
    simp only [mem_sortByStart]
  · intro a _ hc
    unfold NoteCovers at hc
    unfold noteVal
    cases hop : noteOp R eps c total (numRows R c.fps total).toNat (selOnset c) a with
    | none => rw [hop] at hc; cases hc
    | some op =>
      obtain ⟨_, nf, _, rfl⟩ := (noteOp_some_iff _ _ _ _ _ _ _ _).mp hop
      rfl

/-- **velocity roll** (any rounding, any parameters): a cell that no note paints holds 0; otherwise it
holds `float32(velocity / max_velocity)` of the LAST note in start order that paints it -/
theorem enc_velocity_cell {R R32 : Rat → Rat} {eps : Rat} {c : Cfg} {total : Rat} {notes : List PNote}
    {ccs : List PCC} {pr : Pianoroll} (h : encode R R32 eps c total notes ccs = .ok pr) (f p : Nat)
    (hf : f < (numRows R c.fps total).toNat) (hp : p < (c.maxPitch - c.minPitch + 1).toNat) :
    ((∀ nt ∈ notes, NoteCovers R eps c total (numRows R c.fps total).toNat (selActive c) f p nt = false) ∧
      getCell pr.activeVelocities f p = some 0) ∨
    (∃ l1 nt l2, sortByStart notes = l1 ++ nt :: l2 ∧
      NoteCovers R eps c total (numRows R c.fps total).toNat (selActive c) f p nt = true ∧
      (∀ o ∈ l2, NoteCovers R eps c total (numRows R c.fps total).toNat (selActive c) f p o = false) ∧
      getCell pr.activeVelocities f p =
        some (R32 (R ((nt.velocity : Rat) / (c.maxVelocity : Rat))))) := by
  obtain ⟨_, _, st, hst, _, _, hv, _⟩ := encode_ok h
  rw [hv, encNotes_cell R R32 eps c total _ _ (·.vels) (selVel R R32 c)
    (step_vels R R32 eps c total _) _ _ st hst 0 rfl f p hf hp]
  by_cases hex : ∃ a ∈ sortByStart notes,
      NoteCovers R eps c total (numRows R c.fps total).toNat (selVel R R32 c) f p a = true
  · right
    obtain ⟨l1, nt, l2, hl, hc, hall, hval⟩ := foldl_sel_last (sortByStart notes)
      (NoteCovers R eps c total (numRows R c.fps total).toNat (selVel R R32 c) f p)
      (noteVal R eps c total (numRows R c.fps total).toNat (selVel R R32 c)) 0 hex
    refine ⟨l1, nt, l2, hl, by rw [← NoteCovers_vel_eq R R32]; exact hc, ?_, ?_⟩
    · intro o ho; rw [← NoteCovers_vel_eq R R32]; exact hall o ho
    · rw [hval, noteVal_vel R R32 eps c total _ f p nt hc]
  · left
    constructor
    · intro nt hnt
      rw [← NoteCovers_vel_eq R R32]
      cases hc : NoteCovers R eps c total (numRows R c.fps total).toNat (selVel R R32 c) f p nt with
      | false => rfl
      | true => exact absurd ⟨nt, (mem_sortByStart nt notes).mpr hnt, hc⟩ hex
    · rw [foldl_sel_const _ _ _ 0 0 (fun a ha hc => absurd ⟨a, ha, hc⟩ hex)]
      simp

/-- what the float32 store of a velocity must satisfy (true of IEEE rounding to 24 bits) -/
structure Rounding32 (R32 : Rat → Rat) : Prop where
  mono : ∀ x y : Rat, x ≤ y → R32 x ≤ R32 y
  one : R32 1 = 1
  pos : ∀ x : Rat, 0 < x → 0 < R32 x

/-- **velocity scaled into (0, 1]** -/
theorem velocity_scaled_range {R R32 : Rat → Rat} (hR : Rounding R) (h32 : Rounding32 R32) (v m : Int)
    (hv : 0 < v) (hvm : v ≤ m) : 0 < R32 (R ((v : Rat) / (m : Rat))) ∧ R32 (R ((v : Rat) / (m : Rat))) ≤ 1 := by
  have hm : (0 : Rat) < m := by exact_mod_cast (by omega : (0 : Int) < m)
  have hv' : (0 : Rat) < v := by exact_mod_cast hv
  have hq : 0 < (v : Rat) / (m : Rat) := by positivity
  have hq1 : (v : Rat) / (m : Rat) ≤ 1 := by
    rw [div_le_one hm]; exact_mod_cast hvm
  have hu : u53 = 1 / 2 ^ 53 := rfl
  have h1 : 0 < R ((v : Rat) / (m : Rat)) := by
    have := hR.lo (le_of_lt hq)
    have : 0 < (v : Rat) / (m : Rat) * (1 - u53) := by
      have : (0 : Rat) < 1 - u53 := by rw [hu]; norm_num
      positivity
    linarith
  have h2 : R ((v : Rat) / (m : Rat)) ≤ 1 := by
    have := hR.mono _ _ hq1
    have h1' : R (1 : Rat) = 1 := by simpa using hR.exact_int 1 (by norm_num) (by norm_num)
    linarith
  exact ⟨h32.pos _ h1, by have := h32.mono _ _ h2; rw [h32.one] at this; exact this⟩


open Classical in
/-- **frames_of_note** (exact arithmetic, `R = id`; occupancy 0, overlapping onsets, no blank frame):
a cell of the active roll is 1 exactly when some in-range note of that pitch has
`⌊x_s⌋ ≤ f < max(⌈x_e⌉, ⌊x_s⌋ + 1)`, where `x_s = snap(start·fps)`, `x_e = snap(end·fps)` and `snap`
moves a position to the nearest integer only inside the documented window (`snap_close`, `snap_int`);
every other cell is 0; out-of-range pitches contribute nothing. -/
theorem frames_of_note (eps : Rat) (c : Cfg) (total : Rat) (notes : List PNote) (ccs : List PCC)
    (pr : Pianoroll) (hfps : 0 ≤ c.fps) (hb : c.blank = false) (ho : c.overlap = true) (hocc : c.occ = 0)
    (hm : c.mode = 0 ∨ c.mode = 1) (h : encode id id eps c total notes ccs = .ok pr)
    (hstart : ∀ nt ∈ notes, 0 ≤ nt.start) (f p : Nat)
    (hf : f < (numRows id c.fps total).toNat) (hp : p < (c.maxPitch - c.minPitch + 1).toNat) :
    getCell pr.active f p = some
      (if ∃ nt ∈ notes, InRange c nt ∧ p = colOf c nt ∧
          (snap eps (nt.start * c.fps)).floor ≤ (f : Int) ∧
          (f : Int) < max ((snap eps (nt.start * c.fps)).floor + 1) (snap eps (nt.end_ * c.fps)).ceil
       then 1 else 0) := by
  rw [enc_active_cell hb h f p hf hp]
  congr 1
  have key : ∀ nt ∈ notes,
      (NoteCovers id eps c total (numRows id c.fps total).toNat (selActive c) f p nt = true ↔
        InRange c nt ∧ p = colOf c nt ∧
          (snap eps (nt.start * c.fps)).floor ≤ (f : Int) ∧
          (f : Int) < max ((snap eps (nt.start * c.fps)).floor + 1) (snap eps (nt.end_ * c.fps)).ceil) := by
    intro nt hnt
    rw [NoteCovers_active_iff]
    obtain ⟨nf, hnf, hsf, hef⟩ := noteFrames_overlap id eps c total (numRows id c.fps total).toNat nt hm ho
    have hs0 : 0 ≤ snap eps (nt.start * c.fps) := snap_nonneg _ _ (mul_nonneg (hstart nt hnt) hfps)
    have hfl := floor_nonneg_of_nonneg _ hs0
    rw [hocc, framesFromTimes_occ0, timeToFrames_id, timeToFrames_id, truncR_of_nonneg _ hs0] at hsf hef
    simp only at hsf hef
    constructor
    · rintro ⟨hr, hpc, nf', hnf', hs⟩
      rw [hnf] at hnf'; cases hnf'
      rw [hsf, hef, inSlice_iff _ _ _ f (by omega) (by omega) hf] at hs
      exact ⟨hr, hpc, hs.1, hs.2⟩
    · rintro ⟨hr, hpc, h1, h2⟩
      refine ⟨hr, hpc, nf, hnf, ?_⟩
      rw [hsf, hef, inSlice_iff _ _ _ f (by omega) (by omega) hf]
      exact ⟨h1, h2⟩
  by_cases hex : ∃ nt ∈ notes, NoteCovers id eps c total (numRows id c.fps total).toNat (selActive c) f p nt = true
  · rw [if_pos hex, if_pos]
    obtain ⟨nt, hnt, hc⟩ := hex
    exact ⟨nt, hnt, (key nt hnt).mp hc⟩
  · rw [if_neg hex, if_neg]
    rintro ⟨nt, hnt, hc⟩
    exact hex ⟨nt, hnt, (key nt hnt).mpr hc⟩


/-- **roll length**: every roll has `int(total_time · fps + 1)` frames (`numRows`), which in exact
arithmetic is `⌊total·fps⌋ + 1` -/
theorem roll_length {R R32 : Rat → Rat} {eps : Rat} {c : Cfg} {total : Rat} {notes : List PNote}
    {ccs : List PCC} {pr : Pianoroll} (h : encode R R32 eps c total notes ccs = .ok pr) :
    pr.active.length = (numRows R c.fps total).toNat ∧ pr.onsets.length = (numRows R c.fps total).toNat ∧
    pr.activeVelocities.length = (numRows R c.fps total).toNat := by
  obtain ⟨_, _, st, hst, ha, ho, hv, _⟩ := encode_ok h
  refine ⟨?_, ?_, ?_⟩
  · rw [ha, encNotes_active_length _ _ _ hst]
    simp [initRolls]
  · rw [ho, encNotes_proj R R32 eps c total _ (·.onsets) (selOnset c)
      (step_onsets R R32 eps c total _) _ _ st hst, length_foldl_paintOp]
    simp [initRolls]
  · rw [hv, encNotes_proj R R32 eps c total _ (·.vels) (selVel R R32 c)
      (step_vels R R32 eps c total _) _ _ st hst, length_foldl_paintOp]
    simp [initRolls]

/-- **rejections (1)**: a roll is returned only if every in-range note has `velocity ≤ max_velocity`
and the onset mode is known — i.e. a too-loud in-range note or an unknown mode (with an in-range
note) always raises -/
theorem encode_ok_valid {R R32 : Rat → Rat} {eps : Rat} {c : Cfg} {total : Rat} {notes : List PNote}
    {ccs : List PCC} {pr : Pianoroll} (h : encode R R32 eps c total notes ccs = .ok pr) :
    ∀ nt ∈ notes, InRange c nt → nt.velocity ≤ c.maxVelocity ∧ (c.mode = 0 ∨ c.mode = 1) := by
  obtain ⟨_, _, st, hst, _⟩ := encode_ok h
  intro nt hnt hr
  obtain ⟨s, s', hs⟩ := encNotes_each_ok _ _ _ hst nt ((mem_sortByStart nt notes).mpr hnt)
  rcases encNote_cases hs with ⟨ho, _⟩ | ⟨_, nf, hnf, hp⟩
  · unfold InRange at hr; omega
  · exact ⟨(paintNote_ok hp).2.2.2.2.1, noteFrames_ok_mode hnf⟩

/-- **rejections (2)**: an unknown onset mode raises ValueError as soon as one note is in range -/
theorem encode_unknown_mode (R R32 : Rat → Rat) (eps : Rat) (c : Cfg) (total : Rat) (notes : List PNote)
    (ccs : List PCC) (h0 : c.mode ≠ 0) (h1 : c.mode ≠ 1) (hex : ∃ nt ∈ notes, InRange c nt) :
    encode R R32 eps c total notes ccs = .error .valueError := by
  unfold encode
  simp only
  split
  · rfl
  · rw [encNotes_bad_mode R R32 eps c total _ h0 h1 _ _ (by
      obtain ⟨nt, hnt, hr⟩ := hex
      exact ⟨nt, (mem_sortByStart nt notes).mpr hnt, hr⟩)]

/-- **no exception on a well-formed input** (any rounding that keeps non-negative values
non-negative, any `eps`, window, onset/offset lengths, delay — also negative —, occupancy, both
`onset_overlap` values, with or without the blank frame, notes in any order, note ends / total time
unrelated): `sequence_to_pianoroll` returns a roll whenever the frame rate and the total time are not
negative, the pitch range is not inverted, the onset mode is known, `max_velocity ≠ 0`, every
in-range note starts at a time ≥ 0 with `velocity ≤ max_velocity`, and every control change has a
time ≥ 0 and a controller number in 0..127.  (F-C18-2, F-C18-3 and F-C18-4 were exceptions on such
inputs; `encode_ok_valid` / `encode_unknown_mode` are the converse for velocity and mode.) -/
theorem encode_defined {R : Rat → Rat} (hR0 : ∀ x : Rat, 0 ≤ x → 0 ≤ R x) (R32 : Rat → Rat) (eps : Rat)
    (c : Cfg) (total : Rat) (notes : List PNote) (ccs : List PCC)
    (hfps : 0 ≤ c.fps) (htot : 0 ≤ total) (hp : c.minPitch ≤ c.maxPitch + 1)
    (hm : c.mode = 0 ∨ c.mode = 1) (hmv : c.maxVelocity ≠ 0)
    (hn : ∀ nt ∈ notes, InRange c nt → 0 ≤ nt.start ∧ nt.velocity ≤ c.maxVelocity)
    (hc : ∀ cc ∈ ccs, 0 ≤ cc.time ∧ 0 ≤ cc.number ∧ cc.number < 128) :
    ∃ pr, encode R R32 eps c total notes ccs = .ok pr := by
  unfold encode
  simp only
  have hrows : 0 ≤ numRows R c.fps total := by
    unfold numRows
    have h1 : 0 ≤ R (total * c.fps) := hR0 _ (mul_nonneg htot hfps)
    have h2 : 0 ≤ R (R (total * c.fps) + 1) := hR0 _ (by linarith)
    rw [truncR_of_nonneg _ h2]; exact floor_nonneg_of_nonneg _ h2
  rw [if_neg (by omega)]
  obtain ⟨st, hst⟩ := encNotes_defined R R32 eps c total (numRows R c.fps total).toNat hm hmv (sortByStart notes)
    (fun nt h hr => (hn nt ((mem_sortByStart nt notes).mp h) hr).2)
    (fun nt h hr _ => by
      have := (framesFromTimes_nonneg hR0 eps c.fps c.occ nt.start nt.end_ hfps
        (hn nt ((mem_sortByStart nt notes).mp h) hr).1).2
      omega)
    (initRolls (numRows R c.fps total).toNat (c.maxPitch - c.minPitch + 1).toNat)
  rw [hst]
  obtain ⟨m, hm'⟩ := encCCs_defined R eps c (numRows R c.fps total).toNat (sortCCs ccs)
    (fun cc h => by
      have hcc := hc cc ((mem_sortBy _ cc ccs).mp h)
      exact ⟨(framesFromTimes_nonneg hR0 eps c.fps c.occ cc.time 0 hfps hcc.1).1, hcc.2⟩)
    (List.replicate (numRows R c.fps total).toNat (List.replicate 128 0))
  rw [hm']
  exact ⟨_, rfl⟩

/-! ### offsets, weights and control-change rolls; sizes of the remaining rolls -/

/-- **offsets roll** (any rounding, any parameters): a cell is 1 exactly when some in-range note's
offset span contains it -/
theorem enc_offset_cell {R R32 : Rat → Rat} {eps : Rat} {c : Cfg} {total : Rat} {notes : List PNote}
    {ccs : List PCC} {pr : Pianoroll} (h : encode R R32 eps c total notes ccs = .ok pr) (f p : Nat)
    (hf : f < (numRows R c.fps total).toNat) (hp : p < (c.maxPitch - c.minPitch + 1).toNat) :
    getCell pr.offsets f p = some
      (if ∃ nt ∈ notes, NoteCovers R eps c total (numRows R c.fps total).toNat (selOffset c) f p nt = true
       then 1 else 0) := by
  obtain ⟨_, _, st, hst, _, _, _, ho, _⟩ := encode_ok h
  rw [ho, encNotes_cell R R32 eps c total _ _ (·.offsets) (selOffset c)
    (step_offsets R R32 eps c total _) _ _ st hst 0 rfl f p hf hp]
  rw [foldl_sel_const _ _ _ 1 0]
  · congr 1
    simp only [mem_sortByStart]
  · intro a _ hc
    unfold NoteCovers at hc
    unfold noteVal
    cases hop : noteOp R eps c total (numRows R c.fps total).toNat (selOffset c) a with
    | none => rw [hop] at hc; cases hc
    | some op =>
      obtain ⟨_, nf, _, rfl⟩ := (noteOp_some_iff _ _ _ _ _ _ _ _).mp hop
      rfl

/-- **weights roll** (any rounding, any parameters, with or without the blank frame): a cell starts at
1 and every note of its pitch, in start order, applies `wUpd` to it: `onset_upweight` in the note's
onset frames, `onset_upweight / (j + 1)` in the `j`-th frame after them up to the note's end frame
(the frames past the end of the roll are simply absent — the list is clipped like the slice),
1 in the blanked frame before the note, unchanged elsewhere -/
theorem enc_weights_cell {R R32 : Rat → Rat} {eps : Rat} {c : Cfg} {total : Rat} {notes : List PNote}
    {ccs : List PCC} {pr : Pianoroll} (h : encode R R32 eps c total notes ccs = .ok pr) (f p : Nat)
    (hf : f < (numRows R c.fps total).toNat) (hp : p < (c.maxPitch - c.minPitch + 1).toNat) :
    getCell pr.weights f p = some
      ((sortByStart notes).foldl (noteW R R32 eps c total (numRows R c.fps total).toNat f p) 1) := by
  obtain ⟨st, _, hst, _, hw, _⟩ := encode_ok_all h
  rw [hw, encNotes_weights_cell _ _ st hst (by simp [initRolls]) f p hf]
  have : getCell (initRolls (numRows R c.fps total).toNat (c.maxPitch - c.minPitch + 1).toNat).weights f p = some 1 :=
    getCell_replicate _ _ 1 f p hf hp
  rw [this]; rfl

/-- **control-change roll** (any rounding): a cell starts at 0 and holds `control_value + 1` of the LAST
control change in time order (`sorted(..., key=time)`, stable) that falls into its frame with its
controller number; control changes at or past the last frame are ignored -/
theorem enc_cc_cell {R R32 : Rat → Rat} {eps : Rat} {c : Cfg} {total : Rat} {notes : List PNote}
    {ccs : List PCC} {pr : Pianoroll} (h : encode R R32 eps c total notes ccs = .ok pr) (f k : Nat)
    (hf : f < (numRows R c.fps total).toNat) (hk : k < 128) :
    getCell pr.controlChanges f k = some
      ((sortCCs ccs).foldl (fun x cc =>
        if ccHits R eps c (numRows R c.fps total).toNat f k cc then cc.value + 1 else x) 0) := by
  obtain ⟨_, cc, _, hcc, _, _, hc, _⟩ := encode_ok_all h
  rw [hc, encCCs_cell R eps c _ _ _ cc hcc f k]
  have : getCell (List.replicate (numRows R c.fps total).toNat (List.replicate 128 (0 : Int))) f k = some 0 :=
    getCell_replicate _ _ 0 f k hf hk
  rw [this]; rfl

/-- **roll size** (with `roll_length`): the remaining four rolls also have `int(total_time · fps + 1)` frames -/
theorem roll_size {R R32 : Rat → Rat} {eps : Rat} {c : Cfg} {total : Rat} {notes : List PNote}
    {ccs : List PCC} {pr : Pianoroll} (h : encode R R32 eps c total notes ccs = .ok pr) :
    pr.weights.length = (numRows R c.fps total).toNat ∧ pr.offsets.length = (numRows R c.fps total).toNat ∧
    pr.onsetVelocities.length = (numRows R c.fps total).toNat ∧
    pr.controlChanges.length = (numRows R c.fps total).toNat := by
  obtain ⟨st, cc, hst, hcc, hw, ho, hc, hov, _, _⟩ := encode_ok_all h
  have hon : st.onsets.length = (numRows R c.fps total).toNat := by
    rw [encNotes_proj R R32 eps c total _ (·.onsets) (selOnset c)
      (step_onsets R R32 eps c total _) _ _ st hst, length_foldl_paintOp]
    simp [initRolls]
  have hvl : st.vels.length = (numRows R c.fps total).toNat := by
    rw [encNotes_proj R R32 eps c total _ (·.vels) (selVel R R32 c)
      (step_vels R R32 eps c total _) _ _ st hst, length_foldl_paintOp]
    simp [initRolls]
  refine ⟨?_, ?_, ?_, ?_⟩
  · rw [hw, encNotes_weights_length _ _ _ hst]; simp [initRolls]
  · rw [ho, encNotes_proj R R32 eps c total _ (·.offsets) (selOffset c)
      (step_offsets R R32 eps c total _) _ _ st hst, length_foldl_paintOp]
    simp [initRolls]
  · rw [hov, List.length_zipWith, hvl, hon]; simp
  · rw [hc, encCCs_length R eps c _ _ _ cc hcc]; simp

/-! ## pianoroll_to_note_sequence -/

/-- **runs_decode**: without onset predictions the notes are exactly the maximal runs of active
frames of each pitch (the run still open at the last frame is closed by the appended silent
frame: `frameCol` reads `false` there), minus those that fail the `min_duration_ms` test; every
note spans `[R (s·fls), R (e·fls))` with `fls = R (1/fps)` and carries the default velocity; the
notes come out ordered by end frame then pitch (`emitLt`), so no run yields two notes. -/
theorem runs_decode (R Rv : Rat → Rat) (d : DCfg) (frames : List (List Bool)) (w : Nat)
    (hfps : d.fps ≠ 0) (hne : frames ≠ []) (hrect : isRect frames frames.length w = true)
    (hw : w ≤ Gen.VEL_SLOTS) :
    ∃ ems : List Emit,
      decode R Rv d frames none none none =
        .ok (ems.map (emitNote R (R (1 / d.fps)) d.minMidiPitch),
             R (((frames.length + 1 : Nat) : Rat) * R (1 / d.fps))) ∧
      ems.Pairwise emitLt ∧
      ∀ e : Emit, e ∈ ems ↔
        e.pitch < w ∧ e.vel = d.velocity ∧ keepR R (R (1 / d.fps)) d.minDurMs e.s e.e = true ∧
          IsMaxRun (frameCol frames e.pitch) e.s e.e := by
  rw [decode_plain_eq R Rv d frames w hfps hne hrect, prepare_plain]
  simp only
  set P := dparams R Rv d false false with hPdef
  have hP : P.hasOn = false := rfl
  set rows := prepareWith (getB (some (toMat frames))) (getB none) (getB none) (getV none) frames.length w with hrowsdef
  set st : List Cell := List.replicate w (none, d.velocity) with hst
  have hrows : ∀ row ∈ rows, row.length = st.length := by
    intro row hrow
    rw [hst, List.length_replicate]
    exact prepareWith_row_length _ _ _ _ _ _ row hrow
  obtain ⟨hmem, hoob⟩ := scan_column P rows 0 st hrows
  have hstget : ∀ (p : Nat) (s : Cell), st[p]? = some s → p < w ∧ s = (none, d.velocity) := by
    intro p s hs
    rw [hst, List.getElem?_replicate] at hs
    split at hs
    · cases hs; exact ⟨by assumption, rfl⟩
    · cases hs
  have hflag : (scan P 0 st rows).2 = false := by
    cases hf : (scan P 0 st rows).2 with
    | false => rfl
    | true =>
      obtain ⟨p, s, hs, hc⟩ := hoob.mp hf
      have := colScan_oob_noOnset P hP p _ 0 s hc
      have := (hstget p s hs).1
      omega
  refine ⟨(scan P 0 st rows).1, ?_, (scan_sorted P rows 0 st).1, ?_⟩
  · rw [hflag]; rfl
  · intro e
    rw [hmem e]
    constructor
    · rintro ⟨p, s, hs, he⟩
      obtain ⟨hp, rfl⟩ := hstget p s hs
      rw [hrowsdef, colOfRows_prepareWith _ _ _ _ _ _ _ hp] at he
      have := (colScan_runs P hP p (frameCol frames p) d.velocity _ 0 none (by
        intro k hk
        simp only [List.getElem_map, List.getElem_range, Nat.zero_add]
        rw [mkCell_active_plain]; rfl) (Or.inl rfl) e).mp he
      obtain ⟨h1, h2, h3, h4, _, _⟩ := this
      subst h1
      exact ⟨hp, h2, h3, h4⟩
    · rintro ⟨hp, h2, h3, h4⟩
      refine ⟨e.pitch, (none, d.velocity), by rw [hst, List.getElem?_replicate, if_pos hp], ?_⟩
      rw [hrowsdef, colOfRows_prepareWith _ _ _ _ _ _ _ hp]
      refine (colScan_runs P hP e.pitch (frameCol frames e.pitch) d.velocity _ 0 none (by
        intro k hk
        simp only [List.getElem_map, List.getElem_range, Nat.zero_add]
        rw [mkCell_active_plain]; rfl) (Or.inl rfl) e).mpr ⟨rfl, h2, h3, h4, Nat.zero_le _, ?_⟩
      have := h4.end_le
      simp only [List.length_map, List.length_range]
      omega



/-- **onset_decode**: with onset predictions (and optional offset predictions / velocity values) the
notes returned are, pitch by pitch, exactly the `IsNote` spans of the column
`active = (frame ∨ onset) ∧ ¬offset` (predicted offsets clear frames first): a note begins only at
a frame with a predicted onset, a fresh onset (on after off) inside a run ends the note and begins
a new one, an inactive frame ends it; minus the notes failing the `min_duration_ms` test; the
velocity is `_unscale_velocity` of the value at the start frame (default velocity without values). -/
theorem onset_decode (R Rv : Rat → Rat) (d : DCfg) (frames ons : List (List Bool))
    (offs : Option (List (List Bool))) (vels : Option (List (List Rat)))
    (notes : List ONote) (total : Rat)
    (hdec : decode R Rv d frames (some ons) offs vels = .ok (notes, total)) :
    ∃ (w : Nat) (ems : List Emit),
      isRect frames frames.length w = true ∧
      notes = ems.map (emitNote R (R (1 / d.fps)) d.minMidiPitch) ∧
      total = R (((frames.length + 1 : Nat) : Rat) * R (1 / d.fps)) ∧
      ems.Pairwise emitLt ∧
      ∀ e : Emit, e ∈ ems ↔
        e.pitch < w ∧
        e.vel = velAt (dparams R Rv d true vels.isSome) (velCol vels e.pitch) d.velocity e.s ∧
        keepR R (R (1 / d.fps)) d.minDurMs e.s e.e = true ∧
        IsNote (actCol frames ons offs e.pitch) (onsCol ons e.pitch) e.s e.e := by
  obtain ⟨hfps, row0, rest, hfr, hshape, hcore⟩ := decode_ok_inv hdec
  set w := row0.length with hw
  unfold shapesOk at hshape
  simp only [Bool.and_eq_true] at hshape
  obtain ⟨⟨⟨hrect, hrectOns⟩, _⟩, hrectV⟩ := hshape
  unfold decodeCore at hcore
  simp only [Option.isSome_some, Bool.true_and] at hcore
  split at hcore
  · cases hcore
  · injection hcore with hcore
    injection hcore with hnotes htotal
    set P := dparams R Rv d true vels.isSome with hPdef
    have hP : P.hasOn = true := rfl
    set rows := prepare frames (some ons) offs vels w with hrowsdef
    set st : List Cell := List.replicate w (none, d.velocity) with hst
    have hprep : rows = prepareWith (getB (some (toMat frames))) (getB (some (toMat ons))) (getB (offs.map toMat))
        (getV (vels.map toMat)) frames.length w := by
      rw [hrowsdef]; unfold prepare; simp
    have hrows : ∀ row ∈ rows, row.length = st.length := by
      intro row hrow
      rw [hst, List.length_replicate]
      rw [hprep] at hrow
      exact prepareWith_row_length _ _ _ _ _ _ row hrow
    obtain ⟨hmem, _⟩ := scan_column P rows 0 st hrows
    refine ⟨w, (scan P 0 st rows).1, hrect, hnotes.symm, htotal.symm, (scan_sorted P rows 0 st).1, ?_⟩
    have hstget : ∀ (p : Nat) (s : Cell), st[p]? = some s → p < w ∧ s = (none, d.velocity) := by
      intro p s hs
      rw [hst, List.getElem?_replicate] at hs
      split at hs
      · cases hs; exact ⟨by assumption, rfl⟩
      · cases hs
    have hcolthm : ∀ p, p < w → ∀ e : Emit,
        e ∈ (colScan P p 0 (none, d.velocity) (colOfRows rows p)).1 ↔
          e.pitch = p ∧ e.vel = velAt P (velCol vels p) d.velocity e.s ∧ P.keep e.s e.e = true ∧
            IsNote (actCol frames ons offs p) (onsCol ons p) e.s e.e ∧ 0 ≤ e.e ∧ e.e < 0 + (frames.length + 1) := by
      intro p hp e
      rw [hprep, colOfRows_prepareWith _ _ _ _ _ _ _ hp]
      have := colScan_onsets P hP p (actCol frames ons offs p) (onsCol ons p) (velCol vels p) d.velocity
        (by
          intro hhv k _ hOk
          have hk : k < ons.length := getB_true_lt' ons k p hOk
          have hol : ons.length = frames.length := by
            unfold isRect at hrectOns
            simp only [Bool.and_eq_true, beq_iff_eq] at hrectOns
            exact hrectOns.1
          cases hvs : vels with
          | none => rw [hPdef] at hhv; simp [dparams, hvs] at hhv
          | some v =>
            rw [hvs] at hrectV
            obtain ⟨x, hx⟩ := getM_some_of_rect v frames.length w k p hrectV (by omega) hp
            exact ⟨x, by simp only [velCol, getV, Option.map_some]; exact hx⟩)
        ((List.range (frames.length + 1)).map fun i => mkCell (getB (some (toMat frames))) (getB (some (toMat ons)))
          (getB (offs.map toMat)) (getV (vels.map toMat)) i p)
        0 none d.velocity
        (by
          intro k hk
          simp only [List.getElem_map, List.getElem_range, Nat.zero_add]
          exact ⟨rfl, rfl, rfl, rfl⟩)
        (fun _ => rfl)
        (by unfold OnsInv; exact ⟨fun s hs => by omega, Or.inl rfl⟩) e
      simpa only [List.length_map, List.length_range] using this
    -- a note always ends at a frame of the extended roll
    have hend : ∀ p s e, IsNote (actCol frames ons offs p) (onsCol ons p) s e → e < frames.length + 1 := by
      intro p s e hn
      -- frame e - 1 is active (it is s, or lies strictly inside), so it is a real frame
      have hact : actCol frames ons offs p (e - 1) = true := by
        rcases Nat.lt_or_ge s (e - 1) with h | h
        · exact (hn.2.2.1 (e - 1) h (by have := hn.2.1; omega)).1
        · have : s = e - 1 := by have := hn.2.1; omega
          rw [← this]; exact hn.1.1
      have hlt : e - 1 < frames.length := by
        unfold actCol at hact
        simp only [Bool.and_eq_true, Bool.or_eq_true] at hact
        rcases hact.1 with h | h
        · exact getB_true_lt' frames _ p h
        · have := getB_true_lt' ons _ p h
          have hol : ons.length = frames.length := by
            unfold isRect at hrectOns
            simp only [Bool.and_eq_true, beq_iff_eq] at hrectOns
            exact hrectOns.1
          omega
      omega
    intro e
    rw [hmem e]
    constructor
    · rintro ⟨p, s, hs, he⟩
      obtain ⟨hp, rfl⟩ := hstget p s hs
      obtain ⟨h1, h2, h3, h4, _, _⟩ := (hcolthm p hp e).mp he
      subst h1
      exact ⟨hp, h2, h3, h4⟩
    · rintro ⟨hp, h2, h3, h4⟩
      refine ⟨e.pitch, (none, d.velocity), by rw [hst, List.getElem?_replicate, if_pos hp], ?_⟩
      exact (hcolthm e.pitch hp e).mpr ⟨rfl, h2, h3, h4, Nat.zero_le _, by have := hend _ _ _ h4; omega⟩


/-! ## the two conversions are mutually inverse on the grid -/

/-- a decoded note as the encoder sees it -/
def toPNote (o : ONote) : PNote := ⟨o.pitch, o.velocity, o.start, o.end_⟩

/-- the encoder re-paints a decoded note in exactly the frames of its run -/
theorem covers_of_emit (R : Rat → Rat) (eps : Rat) (d : DCfg) (c : Cfg) (total : Rat) (n w : Nat)
    (N : Nat) (hgrid : ∀ k : Nat, k ≤ N → timeToFrames R eps d.fps (R ((k : Rat) * R (1 / d.fps))) = (k : Rat))
    (hc1 : c.fps = d.fps) (hc2 : c.minPitch = d.minMidiPitch) (hc3 : c.maxPitch = d.minMidiPitch + (w : Int) - 1)
    (hc4 : c.mode = 0) (hc5 : c.overlap = true) (hc7 : c.occ = 0)
    (e : Emit) (hpw : e.pitch < w) (hse : e.s < e.e) (heN : e.e ≤ N) (f p : Nat) (hf : f < n) :
    NoteCovers R eps c total n (selActive c) f p (toPNote (emitNote R (R (1 / d.fps)) d.minMidiPitch e)) = true ↔
      p = e.pitch ∧ e.s ≤ f ∧ f < e.e := by
  rw [NoteCovers_active_iff]
  obtain ⟨nf, hnf, hsf, hef⟩ := noteFrames_plain R eps c total n
    (toPNote (emitNote R (R (1 / d.fps)) d.minMidiPitch e)) hc4 hc5
  have hfr : framesFromTimes R eps c.fps c.occ (toPNote (emitNote R (R (1 / d.fps)) d.minMidiPitch e)).start
      (toPNote (emitNote R (R (1 / d.fps)) d.minMidiPitch e)).end_ = ((e.s : Int), (e.e : Int)) := by
    rw [hc1, hc7]
    exact framesFromTimes_grid R eps d.fps _ _ e.s e.e hse (hgrid e.s (by omega)) (hgrid e.e heN)
  rw [hfr] at hsf hef
  have hcol : colOf c (toPNote (emitNote R (R (1 / d.fps)) d.minMidiPitch e)) = e.pitch := by
    simp only [colOf, toPNote, emitNote, hc2]; omega
  have hin : InRange c (toPNote (emitNote R (R (1 / d.fps)) d.minMidiPitch e)) := by
    simp only [InRange, toPNote, emitNote, hc2, hc3]; omega
  rw [hcol]
  constructor
  · rintro ⟨_, hp, nf', hnf', hs⟩
    rw [hnf] at hnf'; cases hnf'
    rw [hsf, hef, inSlice_iff n _ _ f (by omega) (by omega) hf] at hs
    exact ⟨hp, by omega, by omega⟩
  · rintro ⟨hp, h1, h2⟩
    refine ⟨hin, hp, nf, hnf, ?_⟩
    rw [hsf, hef, inSlice_iff n _ _ f (by omega) (by omega) hf]
    omega

/-- **roll_roundtrip (decode then encode), any rounding**: if `time_to_frames` reads every grid
time `R (k · R (1/fps))`, `k ≤ #frames`, back as `k` (hypothesis `hgrid`; discharged for every
`Rounding R` in `roll_roundtrip_float` and for exact arithmetic in `roll_roundtrip`), then encoding
the decoded notes reproduces the boolean roll cell by cell; frames past the roll are silent
(`frameCol` reads `false` there). All roll sizes. -/
theorem roll_roundtrip_of_grid (R R32 Rv : Rat → Rat) (eps : Rat) (d : DCfg) (c : Cfg)
    (frames : List (List Bool)) (w : Nat) (ccs : List PCC)
    (hfps : d.fps ≠ 0) (hne : frames ≠ []) (hrect : isRect frames frames.length w = true)
    (hw : w ≤ Gen.VEL_SLOTS)
    (hgrid : ∀ k : Nat, k ≤ frames.length →
      timeToFrames R eps d.fps (R ((k : Rat) * R (1 / d.fps))) = (k : Rat))
    (hkeep : ∀ s e : Nat, s < e → keepR R (R (1 / d.fps)) d.minDurMs s e = true)
    (hc1 : c.fps = d.fps) (hc2 : c.minPitch = d.minMidiPitch)
    (hc3 : c.maxPitch = d.minMidiPitch + (w : Int) - 1) (hc4 : c.mode = 0) (hc5 : c.overlap = true)
    (hc6 : c.blank = false) (hc7 : c.occ = 0)
    (notes : List ONote) (total : Rat) (hdec : decode R Rv d frames none none none = .ok (notes, total))
    (pr : Pianoroll) (henc : encode R R32 eps c total (notes.map toPNote) ccs = .ok pr)
    (f p : Nat) (hf : f < (numRows R c.fps total).toNat) (hp : p < w) :
    getCell pr.active f p = some (if frameCol frames p f = true then 1 else 0) := by
  obtain ⟨ems, hd, _, hmem⟩ := runs_decode R Rv d frames w hfps hne hrect hw
  rw [hd] at hdec
  injection hdec with hdec
  injection hdec with hnotes htotal
  have hcols : (c.maxPitch - c.minPitch + 1).toNat = w := by rw [hc2, hc3]; omega
  rw [enc_active_cell hc6 henc f p hf (by omega)]
  congr 1
  have key : (∃ nt ∈ notes.map toPNote,
      NoteCovers R eps c total (numRows R c.fps total).toNat (selActive c) f p nt = true) ↔
      frameCol frames p f = true := by
    constructor
    · rintro ⟨nt, hnt, hcov⟩
      rw [← hnotes] at hnt
      simp only [List.mem_map] at hnt
      obtain ⟨o, ⟨e, he, rfl⟩, rfl⟩ := hnt
      obtain ⟨hpw, _, _, hrun⟩ := (hmem e).mp he
      have hcv := (covers_of_emit R eps d c total _ w frames.length hgrid hc1 hc2 hc3 hc4 hc5 hc7 e hpw
        hrun.1 hrun.end_le f p hf).mp hcov
      obtain ⟨rfl, h1, h2⟩ := hcv
      exact hrun.2.1 f h1 h2
    · intro hA
      obtain ⟨s, e, hrun, h1, h2⟩ := exists_maxRun (frameCol frames p) frames.length
        (fun k hk => by
          cases hg : frameCol frames p k with
          | false => rfl
          | true => have := getB_true_lt frames k p hg; omega) f hA
      have hem : (⟨p, s, e, d.velocity⟩ : Emit) ∈ ems :=
        (hmem ⟨p, s, e, d.velocity⟩).mpr ⟨hp, rfl, hkeep s e hrun.1, hrun⟩
      refine ⟨toPNote (emitNote R (R (1 / d.fps)) d.minMidiPitch ⟨p, s, e, d.velocity⟩), ?_, ?_⟩
      · rw [← hnotes]
        simp only [List.mem_map]
        exact ⟨_, ⟨_, hem, rfl⟩, rfl⟩
      · exact (covers_of_emit R eps d c total _ w frames.length hgrid hc1 hc2 hc3 hc4 hc5 hc7
          ⟨p, s, e, d.velocity⟩ hp hrun.1 hrun.end_le f p hf).mpr ⟨rfl, h1, h2⟩
  by_cases hA : frameCol frames p f = true
  · rw [if_pos hA, if_pos (key.mpr hA)]
  · rw [if_neg hA, if_neg (fun h => hA (key.mp h))]


/-! ### no drift under floating point -/

/-- the tolerance found in the source (`Gen.SNAP_EPS`, regenerated on every run) is large enough -/
theorem snap_eps_ok : (1 : Rat) / 2 ^ 30 ≤ Gen.SNAP_EPS := by
  unfold Gen.SNAP_EPS; norm_num

theorem keepR_of_nonpos {R : Rat → Rat} (hR : Rounding R) (fps minDur : Rat) (hf : 0 < fps)
    (hmin : minDur ≤ 0) (s e : Nat) (hse : s < e) : keepR R (R (1 / fps)) minDur s e = true := by
  unfold keepR
  simp only [decide_eq_true_eq]
  have hfls : 0 ≤ R (1 / fps) := hR.nonneg (by positivity)
  have hle : (s : Rat) * R (1 / fps) ≤ (e : Rat) * R (1 / fps) := by
    have : (s : Rat) ≤ (e : Rat) := by exact_mod_cast Nat.le_of_lt hse
    exact mul_le_mul_of_nonneg_right this hfls
  have h1 := hR.mono _ _ hle
  have h2 : 0 ≤ R (R ((e : Rat) * R (1 / fps)) - R ((s : Rat) * R (1 / fps))) := hR.nonneg (by linarith)
  have h3 : 0 ≤ R (R (R ((e : Rat) * R (1 / fps)) - R ((s : Rat) * R (1 / fps))) * 1000) :=
    hR.nonneg (by positivity)
  linarith

/-- **roll_roundtrip_float**: for EVERY rounding operator `R` with the three IEEE properties
(`Rounding`: monotone, exact on integers up to 2⁵³, relative error ≤ 2⁻⁵³), every positive frame rate
(in particular all of {8, 16, 31.25, 32, 50, 62.5, 100}), every boolean roll with fewer than 2³¹
frames and at most 128 pitches: decoding the roll and encoding the result with the snap tolerance
found in the source gives back the roll cell by cell, in a roll of `#frames + 1` or `#frames + 2`
frames whose extra frames are silent.  (`R32`, `Rv` arbitrary: they do not touch the active roll.) -/
theorem roll_roundtrip_float {R : Rat → Rat} (hR : Rounding R) (R32 Rv : Rat → Rat) (d : DCfg) (c : Cfg)
    (frames : List (List Bool)) (w : Nat) (ccs : List PCC)
    (hfps : 0 < d.fps) (hne : frames ≠ []) (hrect : isRect frames frames.length w = true)
    (hw : w ≤ Gen.VEL_SLOTS) (hlen : frames.length + 1 < 2 ^ 31) (hmin : d.minDurMs ≤ 0)
    (hc1 : c.fps = d.fps) (hc2 : c.minPitch = d.minMidiPitch)
    (hc3 : c.maxPitch = d.minMidiPitch + (w : Int) - 1) (hc4 : c.mode = 0) (hc5 : c.overlap = true)
    (hc6 : c.blank = false) (hc7 : c.occ = 0)
    (notes : List ONote) (total : Rat) (hdec : decode R Rv d frames none none none = .ok (notes, total))
    (pr : Pianoroll) (henc : encode R R32 Gen.SNAP_EPS c total (notes.map toPNote) ccs = .ok pr) :
    ((frames.length : Int) + 1 ≤ numRows R c.fps total ∧ numRows R c.fps total ≤ (frames.length : Int) + 2) ∧
    ∀ f p : Nat, f < (numRows R c.fps total).toNat → p < w →
      getCell pr.active f p = some (if frameCol frames p f = true then 1 else 0) := by
  have hfps' : d.fps ≠ 0 := ne_of_gt hfps
  constructor
  · obtain ⟨ems, hd, _, _⟩ := runs_decode R Rv d frames w hfps' hne hrect hw
    rw [hd] at hdec
    injection hdec with hdec
    injection hdec with _ htotal
    rw [← htotal, hc1]
    have := numRows_grid hR d.fps hfps (frames.length + 1) hlen
    push_cast at this ⊢
    omega
  · intro f p hf hp
    exact roll_roundtrip_of_grid R R32 Rv Gen.SNAP_EPS d c frames w ccs hfps' hne hrect hw
      (fun k hk => timeToFrames_grid hR Gen.SNAP_EPS d.fps snap_eps_ok hfps k (by omega))
      (fun s e hse => keepR_of_nonpos hR d.fps d.minDurMs hfps hmin s e hse)
      hc1 hc2 hc3 hc4 hc5 hc6 hc7 notes total hdec pr henc f p hf hp

/-- **roll_roundtrip (exact arithmetic)**: the same with no rounding at all (`R = id`) -/
theorem roll_roundtrip (d : DCfg) (c : Cfg) (frames : List (List Bool)) (w : Nat) (ccs : List PCC)
    (hfps : 0 < d.fps) (hne : frames ≠ []) (hrect : isRect frames frames.length w = true)
    (hw : w ≤ Gen.VEL_SLOTS) (hlen : frames.length + 1 < 2 ^ 31) (hmin : d.minDurMs ≤ 0)
    (hc1 : c.fps = d.fps) (hc2 : c.minPitch = d.minMidiPitch)
    (hc3 : c.maxPitch = d.minMidiPitch + (w : Int) - 1) (hc4 : c.mode = 0) (hc5 : c.overlap = true)
    (hc6 : c.blank = false) (hc7 : c.occ = 0)
    (notes : List ONote) (total : Rat) (hdec : decode id id d frames none none none = .ok (notes, total))
    (pr : Pianoroll) (henc : encode id id Gen.SNAP_EPS c total (notes.map toPNote) ccs = .ok pr) :
    ∀ f p : Nat, f < (numRows id c.fps total).toNat → p < w →
      getCell pr.active f p = some (if frameCol frames p f = true then 1 else 0) :=
  (roll_roundtrip_float rounding_id id id d c frames w ccs hfps hne hrect hw hlen hmin hc1 hc2 hc3 hc4
    hc5 hc6 hc7 notes total hdec pr henc).2




/-- Python truthiness of the float32 cells (`if active:`) -/
def toBoolRoll (m : List (List Rat)) : List (List Bool) := m.map (·.map (fun x => x != 0))

theorem frameCol_toBoolRoll (m : List (List Rat)) (p k : Nat) :
    frameCol (toBoolRoll m) p k = ((getCell m k p).map (fun x => x != 0)).getD false := by
  unfold frameCol getB toBoolRoll getCell
  simp only [getM_toMat, List.getElem?_map]
  cases m[k]? with
  | none => rfl
  | some row =>
    simp only [Option.map_some, Option.bind_some, List.getElem?_map]


/-- **roll_roundtrip (encode then decode)**: notes on the frame grid — note `g` spans frames
`[g.s, g.e)` of pitch index `g.pitch`, its times are the decoder's `R (k · R (1/fps))` — with at least
one silent frame between notes of one pitch, encoded (plain configuration) and decoded again
(`min_duration` letting everything through), come back as exactly the same (pitch, start, end)
set; velocities become the decoder's default.  `hgrid` as in `roll_roundtrip_of_grid`. -/
theorem roll_roundtrip_notes_of_grid (R R32 Rv : Rat → Rat) (eps : Rat) (d : DCfg) (c : Cfg)
    (gl : List Emit) (total : Rat) (ccs : List PCC) (w : Nat)
    (hfps : d.fps ≠ 0) (hw : w ≤ Gen.VEL_SLOTS)
    (hc1 : c.fps = d.fps) (hc2 : c.minPitch = d.minMidiPitch)
    (hc3 : c.maxPitch = d.minMidiPitch + (w : Int) - 1) (hc4 : c.mode = 0) (hc5 : c.overlap = true)
    (hc6 : c.blank = false) (hc7 : c.occ = 0)
    (hrows : 1 ≤ numRows R c.fps total)
    (hgrid : ∀ k : Nat, (k : Int) ≤ numRows R c.fps total →
      timeToFrames R eps d.fps (R ((k : Rat) * R (1 / d.fps))) = (k : Rat))
    (hkeep : ∀ s e : Nat, s < e → keepR R (R (1 / d.fps)) d.minDurMs s e = true)
    (hgl : ∀ g ∈ gl, g.pitch < w ∧ g.s < g.e ∧ (g.e : Int) ≤ numRows R c.fps total)
    (hsep : ∀ a ∈ gl, ∀ b ∈ gl, a.pitch = b.pitch → (a.s = b.s ∧ a.e = b.e) ∨ a.e < b.s ∨ b.e < a.s)
    (pr : Pianoroll)
    (henc : encode R R32 eps c total
      (gl.map fun g => toPNote (emitNote R (R (1 / d.fps)) d.minMidiPitch g)) ccs = .ok pr) :
    ∃ ems : List Emit,
      decode R Rv d (toBoolRoll pr.active) none none none =
        .ok (ems.map (emitNote R (R (1 / d.fps)) d.minMidiPitch),
             R ((((toBoolRoll pr.active).length + 1 : Nat) : Rat) * R (1 / d.fps))) ∧
      ems.Pairwise emitLt ∧
      ∀ e : Emit, e ∈ ems ↔
        e.vel = d.velocity ∧ ∃ g ∈ gl, g.pitch = e.pitch ∧ g.s = e.s ∧ g.e = e.e := by
  set n := (numRows R c.fps total).toNat with hn
  have hcols : (c.maxPitch - c.minPitch + 1).toNat = w := by rw [hc2, hc3]; omega
  obtain ⟨hlen, hrl⟩ := encode_active_rect hc6 henc
  rw [hcols] at hrl
  have hblen : (toBoolRoll pr.active).length = n := by simp [toBoolRoll, hlen, hn]
  have hne : toBoolRoll pr.active ≠ [] := by
    intro h; rw [h] at hblen; simp at hblen; omega
  have hrect : isRect (toBoolRoll pr.active) (toBoolRoll pr.active).length w = true := by
    unfold isRect
    simp only [BEq.rfl, Bool.true_and, List.all_eq_true, beq_iff_eq]
    intro row hrow
    simp only [toBoolRoll, List.mem_map] at hrow
    obtain ⟨r, hr, rfl⟩ := hrow
    rw [List.length_map]; exact hrl r hr
  obtain ⟨ems, hd, hsorted, hmem⟩ := runs_decode R Rv d (toBoolRoll pr.active) w hfps hne hrect hw
  refine ⟨ems, hd, hsorted, ?_⟩
  -- the encoded column of pitch index p
  have hcol : ∀ p, p < w → ∀ k, frameCol (toBoolRoll pr.active) p k = true ↔
      ∃ ij ∈ (gl.filter (fun g => g.pitch == p)).map (fun g => (g.s, g.e)), ij.1 ≤ k ∧ k < ij.2 := by
    intro p hp k
    rw [frameCol_toBoolRoll]
    rcases Nat.lt_or_ge k n with hk | hk
    · rw [enc_active_cell hc6 henc k p hk (by omega)]
      have hcov : ∀ g ∈ gl, (NoteCovers R eps c total n (selActive c) k p
            (toPNote (emitNote R (R (1 / d.fps)) d.minMidiPitch g)) = true ↔ p = g.pitch ∧ g.s ≤ k ∧ k < g.e) := by
        intro g hg
        obtain ⟨h1, h2, h3⟩ := hgl g hg
        exact covers_of_emit R eps d c total n w n (fun k hk => hgrid k (by omega)) hc1 hc2 hc3 hc4 hc5 hc7
          g h1 h2 (by omega) k p hk
      constructor
      · intro h
        by_cases hex : ∃ nt ∈ gl.map (fun g => toPNote (emitNote R (R (1 / d.fps)) d.minMidiPitch g)),
            NoteCovers R eps c total n (selActive c) k p nt = true
        · obtain ⟨nt, hnt, hc⟩ := hex
          simp only [List.mem_map] at hnt
          obtain ⟨g, hg, rfl⟩ := hnt
          obtain ⟨hp1, hp2, hp3⟩ := (hcov g hg).mp hc
          refine ⟨(g.s, g.e), ?_, hp2, hp3⟩
          simp only [List.mem_map, List.mem_filter, beq_iff_eq]
          exact ⟨g, ⟨hg, hp1.symm⟩, rfl⟩
        · rw [if_neg hex] at h; simp at h
      · rintro ⟨ij, hij, h1, h2⟩
        simp only [List.mem_map, List.mem_filter, beq_iff_eq] at hij
        obtain ⟨g, ⟨hg, hgp⟩, rfl⟩ := hij
        have : ∃ nt ∈ gl.map (fun g => toPNote (emitNote R (R (1 / d.fps)) d.minMidiPitch g)),
            NoteCovers R eps c total n (selActive c) k p nt = true :=
          ⟨_, List.mem_map.mpr ⟨g, hg, rfl⟩, (hcov g hg).mpr ⟨hgp.symm, h1, h2⟩⟩
        rw [if_pos this]; simp
    · have hnone : getCell pr.active k p = none := by
        unfold getCell
        rw [List.getElem?_eq_none (by omega)]; rfl
      rw [hnone]
      simp only [Option.map_none, Option.getD_none, Bool.false_eq_true, false_iff]
      rintro ⟨ij, hij, h1, h2⟩
      simp only [List.mem_map, List.mem_filter, beq_iff_eq] at hij
      obtain ⟨g, ⟨hg, _⟩, rfl⟩ := hij
      have := (hgl g hg).2.2
      simp only at h2
      omega
  have hruns : ∀ p, p < w → ∀ s e, IsMaxRun (frameCol (toBoolRoll pr.active) p) s e ↔
      ∃ g ∈ gl, g.pitch = p ∧ g.s = s ∧ g.e = e := by
    intro p hp s e
    rw [maxRun_of_separated _ ((gl.filter (fun g => g.pitch == p)).map (fun g => (g.s, g.e))) (hcol p hp)]
    · simp only [List.mem_map, List.mem_filter, beq_iff_eq, Prod.mk.injEq]
      constructor
      · rintro ⟨g, ⟨hg, hgp⟩, h1, h2⟩; exact ⟨g, hg, hgp, h1, h2⟩
      · rintro ⟨g, hg, hgp, h1, h2⟩; exact ⟨g, ⟨hg, hgp⟩, h1, h2⟩
    · intro ij hij
      simp only [List.mem_map, List.mem_filter, beq_iff_eq] at hij
      obtain ⟨g, ⟨hg, _⟩, rfl⟩ := hij
      exact (hgl g hg).2.1
    · intro a ha b hb
      simp only [List.mem_map, List.mem_filter, beq_iff_eq] at ha hb
      obtain ⟨ga, ⟨hga, hpa⟩, rfl⟩ := ha
      obtain ⟨gb, ⟨hgb, hpb⟩, rfl⟩ := hb
      rcases hsep ga hga gb hgb (by rw [hpa, hpb]) with ⟨h1, h2⟩ | h | h
      · left; rw [h1, h2]
      · right; left; exact h
      · right; right; exact h
  intro e
  rw [hmem e]
  constructor
  · rintro ⟨hp, hv, _, hrun⟩
    exact ⟨hv, (hruns e.pitch hp e.s e.e).mp hrun⟩
  · rintro ⟨hv, g, hg, h1, h2, h3⟩
    obtain ⟨hgp, hgse, _⟩ := hgl g hg
    have hp : e.pitch < w := by omega
    exact ⟨hp, hv, hkeep e.s e.e (by omega), (hruns e.pitch hp e.s e.e).mpr ⟨g, hg, h1, h2, h3⟩⟩


/-- **roll_roundtrip (encode then decode) under floating point**: for every `Rounding R`, every
positive frame rate and every roll of fewer than 2³¹ frames -/
theorem roll_roundtrip_notes_float {R : Rat → Rat} (hR : Rounding R) (R32 Rv : Rat → Rat) (d : DCfg) (c : Cfg)
    (gl : List Emit) (total : Rat) (ccs : List PCC) (w : Nat)
    (hfps : 0 < d.fps) (hw : w ≤ Gen.VEL_SLOTS) (hmin : d.minDurMs ≤ 0)
    (hc1 : c.fps = d.fps) (hc2 : c.minPitch = d.minMidiPitch)
    (hc3 : c.maxPitch = d.minMidiPitch + (w : Int) - 1) (hc4 : c.mode = 0) (hc5 : c.overlap = true)
    (hc6 : c.blank = false) (hc7 : c.occ = 0)
    (hrows : 1 ≤ numRows R c.fps total) (hrows' : numRows R c.fps total < 2 ^ 31)
    (hgl : ∀ g ∈ gl, g.pitch < w ∧ g.s < g.e ∧ (g.e : Int) ≤ numRows R c.fps total)
    (hsep : ∀ a ∈ gl, ∀ b ∈ gl, a.pitch = b.pitch → (a.s = b.s ∧ a.e = b.e) ∨ a.e < b.s ∨ b.e < a.s)
    (pr : Pianoroll)
    (henc : encode R R32 Gen.SNAP_EPS c total
      (gl.map fun g => toPNote (emitNote R (R (1 / d.fps)) d.minMidiPitch g)) ccs = .ok pr) :
    ∃ ems : List Emit,
      decode R Rv d (toBoolRoll pr.active) none none none =
        .ok (ems.map (emitNote R (R (1 / d.fps)) d.minMidiPitch),
             R ((((toBoolRoll pr.active).length + 1 : Nat) : Rat) * R (1 / d.fps))) ∧
      ems.Pairwise emitLt ∧
      ∀ e : Emit, e ∈ ems ↔
        e.vel = d.velocity ∧ ∃ g ∈ gl, g.pitch = e.pitch ∧ g.s = e.s ∧ g.e = e.e :=
  roll_roundtrip_notes_of_grid R R32 Rv Gen.SNAP_EPS d c gl total ccs w (ne_of_gt hfps) hw hc1 hc2 hc3 hc4 hc5
    hc6 hc7 hrows
    (fun k hk => timeToFrames_grid hR Gen.SNAP_EPS d.fps snap_eps_ok hfps k (by omega))
    (fun s e hse => keepR_of_nonpos hR d.fps d.minDurMs hfps hmin s e hse) hgl hsep pr henc

/-! ## non-vacuity: concrete inputs satisfying the hypotheses (kernel-evaluated) -/
section Examples
def exD : DCfg := { fps := 100, minDurMs := 0, velocity := 70, minMidiPitch := 60, scale := 80, bias := 10 }
/-- two pitches; a run open at the last frame; frames 7 and 29 are far beyond this toy size but the
rate is the non-dyadic 100 fps -/
def exFrames : List (List Bool) := [[true, false], [true, true], [false, true], [true, false]]
def exC : Cfg where
  fps := 100
  minPitch := 60
  maxPitch := 61
  maxVelocity := 127
  blank := false
  upweight := 5
  window := 1
  onsetLenMs := 0
  offsetLenMs := 0
  mode := 0
  delayMs := 0
  occ := 0
  overlap := true
def exNotes : List PNote := [⟨60, 100, 1 / 40, 9 / 200⟩, ⟨61, 1, 0, 0⟩, ⟨72, 90, 0, 1⟩, ⟨60, 127, 1 / 25, 3 / 50⟩]
def isOk {α} (r : Except Err α) : Bool := match r with | .ok _ => true | .error _ => false

-- runs_decode / roll_roundtrip*: all hypotheses hold for `exD`, `exFrames`, `exC`, and the decoder
-- returns three notes (one of them closed by the appended silent frame), the encoder a roll
example : exD.fps ≠ 0 ∧ exFrames ≠ [] ∧ isRect exFrames exFrames.length 2 = true ∧ 2 ≤ Gen.VEL_SLOTS ∧
    exFrames.length + 1 < 2 ^ 31 ∧ exD.minDurMs ≤ 0 ∧ exC.fps = exD.fps ∧ exC.minPitch = exD.minMidiPitch ∧
    exC.maxPitch = exD.minMidiPitch + (2 : Nat) - 1 := by decide +kernel
example : (match decode id id exD exFrames none none none with
  | .ok (notes, total) =>
      isOk (encode id id Gen.SNAP_EPS exC total (notes.map toPNote) []) && notes.length == 3
  | .error _ => false) = true := by decide +kernel
-- frames_of_note / enc_*_cell / roll_length: an off-grid sequence with an out-of-range pitch, a
-- zero-length note and two overlapping notes of one pitch encodes to a roll
example : isOk (encode id id Gen.SNAP_EPS exC 1 exNotes []) = true := by decide +kernel
example : (match encode id id Gen.SNAP_EPS exC 1 exNotes [] with
  | .ok pr => getCell pr.active 2 0 == some 1 && getCell pr.active 0 1 == some 1 &&
      getCell pr.active 6 0 == some 0 && pr.active.length == 101
  | .error _ => false) = true := by decide +kernel
-- encode_unknown_mode / encode_ok_valid: the rejected inputs exist
def errName {α} (r : Except Err α) : String := match r with | .ok _ => "ok" | .error e => e.name
example : errName (encode id id Gen.SNAP_EPS { exC with mode := 7 } 1 exNotes []) = "ValueError" := by
  decide +kernel
example : errName (encode id id Gen.SNAP_EPS { exC with maxVelocity := 100 } 1 exNotes []) = "ValueError" := by
  decide +kernel
-- encode_defined: its hypotheses hold for the inputs of F-C18-3 / F-C18-4 (here in exact arithmetic): a
-- delayed onset with onset_overlap = False and the blank frame, whose start frame lies past the roll; a note
-- starting at total_time with a negative delay and full-frame occupancy. Both now encode to a roll.
def exC4 : Cfg := { exC with fps := 50, maxPitch := 75, blank := true, window := 0, onsetLenMs := 10, offsetLenMs := 10,
                             mode := 1, delayMs := 120, overlap := false }
def exC3 : Cfg := { exC with fps := 125 / 4, minPitch := 36, maxPitch := 36, delayMs := -300, occ := 1, overlap := false }
example : (∀ x : Rat, 0 ≤ x → 0 ≤ id x) ∧ 0 ≤ exC4.fps ∧ exC4.minPitch ≤ exC4.maxPitch + 1 ∧ exC4.mode = 1 ∧
    exC4.maxVelocity ≠ 0 := ⟨fun _ h => h, by decide +kernel, by decide +kernel, rfl, by decide +kernel⟩
example : isOk (encode id id Gen.SNAP_EPS exC4 (9 / 50) [⟨60, 78, 1 / 10, 9 / 50⟩] []) = true := by decide +kernel
example : isOk (encode id id Gen.SNAP_EPS exC3 (3 / 5) [⟨36, 46, 3 / 5, 3 / 5⟩, ⟨36, 1, 32 / 125, 17 / 40⟩] []) = true := by
  decide +kernel
-- enc_weights_cell / enc_offset_cell / roll_size: the note 60@[1/40, 9/200) at 100 fps has onset frames 1..3
-- (weight 5) and frame 4 after them (weight 5/1), its offset in frame 4; the later note of the same pitch has
-- onset frames 3..5 and its offset in frame 6; all seven rolls have 101 frames
example : (match encode id id Gen.SNAP_EPS exC 1 exNotes [] with
  | .ok pr => getCell pr.weights 1 0 == some 5 && getCell pr.weights 5 0 == some 5 && getCell pr.weights 6 0 == some 1 &&
      getCell pr.weights 0 0 == some 1 && getCell pr.offsets 4 0 == some 1 && getCell pr.offsets 5 0 == some 0 &&
      getCell pr.offsets 6 0 == some 1 &&
      pr.weights.length == 101 && pr.offsets.length == 101 && pr.onsetVelocities.length == 101 &&
      pr.controlChanges.length == 101
  | .error _ => false) = true := by decide +kernel
-- a long note at a high rate: the decaying weights 5/1, 5/2, 5/3 … after the onset frames, clipped at the roll's end
example : (match encode id id Gen.SNAP_EPS exC (1 / 20) [⟨60, 100, 0, 1⟩] [] with
  | .ok pr => getCell pr.weights 1 0 == some 5 && getCell pr.weights 2 0 == some 5 &&
      getCell pr.weights 3 0 == some (5 / 2) && getCell pr.weights 5 0 == some (5 / 4) && pr.weights.length == 6
  | .error _ => false) = true := by decide +kernel
-- enc_cc_cell: two control changes of one controller in one frame stored out of time order — the later one wins;
-- a control change past the last frame is ignored
example : (match encode id id Gen.SNAP_EPS exC (1 / 10) [] [⟨13 / 250, 64, 127⟩, ⟨51 / 1000, 64, 0⟩, ⟨1, 64, 5⟩] with
  | .ok pr => getCell pr.controlChanges 5 64 == some 128 && getCell pr.controlChanges 5 63 == some 0
  | .error _ => false) = true := by decide +kernel
-- roll_roundtrip_notes_*: separated grid notes (frames [1,3) and [4,6) of pitch 0, [0,2) of pitch 1) at 100 fps
def exGrid : List Emit := [⟨0, 1, 3, 90⟩, ⟨1, 0, 2, 64⟩, ⟨0, 4, 6, 127⟩]
example : (match encode id id Gen.SNAP_EPS exC (7 / 100)
      (exGrid.map fun g => toPNote (emitNote id (1 / 100) 60 g)) [] with
  | .ok pr => (match decode id id exD (toBoolRoll pr.active) none none none with
      | .ok (notes, _) => notes.length == 3 && numRows id exC.fps (7 / 100) == 8
      | .error _ => false)
  | .error _ => false) = true := by decide +kernel
-- onset_decode: onsets at frames 0 and 2 of pitch 0 (the second one fresh: splits the run), an active
-- frame without onset on pitch 1 (ignored), an offset clearing frame 3 of pitch 0, float velocities
example : (match decode id id exD [[true, true], [true, false], [true, false], [true, false]]
      (some [[true, false], [false, false], [true, false], [false, false]])
      (some [[false, false], [false, false], [false, false], [true, false]])
      (some [[1 / 2, 0], [0, 0], [1, 0], [0, 0]]) with
  | .ok (notes, _) => notes == [⟨60, 50, 0, 1 / 50⟩, ⟨60, 90, 1 / 50, 3 / 100⟩]
  | .error _ => false) = true := by decide +kernel
-- Rounding is inhabited (exact arithmetic); Rounding32 likewise
example : Rounding id := rounding_id
example : Rounding32 id := ⟨fun _ _ h => h, rfl, fun _ h => h⟩
end Examples

end NSV.C18
