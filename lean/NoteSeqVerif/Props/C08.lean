import NoteSeqVerif.Proofs.C08Inst
/-! C08 — property theorems (decoding the labels an encoder produced reconstructs the event sequence).

All statements are for every event list, every position, every configuration — no size bound.
`ValidEv oh e` / `DecodeTotal oh` are the hypotheses on the abstract one-hot encoding (what C09
proves for the concrete ones); `LegalDists` = every lookback distance is at least 1. -/
namespace NSV.C08

/-! ## LookbackEventSequenceEncoderDecoder -/
section Lookback
variable {ε : Type} [DecidableEq ε]

/-- `class_index_to_event(events_to_label(evs, p), evs[:p]) = evs[p]` -/
theorem lookback_decode_label (oh : OneHot ε) (c : LookbackCfg) (evs : List ε) (p : Nat)
    (hp : p < evs.length) (hd : LegalDists c.dists) (hv : ValidEv oh evs[p]) :
    ∃ l, lbEventsToLabel oh c evs p = .ok l ∧
      lbClassIndexToEvent oh c l (evs.take p) = .ok evs[p] := by
  obtain ⟨i, he, h0, h1, hdec⟩ := hv
  obtain ⟨l, hl, _, _, hc⟩ := seqLabel_decode oh.numClasses (oh.numClasses + c.dists.length - 1)
    (ohEventsToLabel oh evs p) oh.default c.dists evs p hp hd rfl oh.decode i
    (by simp [ohEventsToLabel, pyIdx_nat evs p hp, bind, Except.bind, he]) h0 h1 hdec
  exact ⟨l, by rw [lbEventsToLabel_eq]; exact hl, hc⟩

/-- every label lies in `[0, num_classes)` -/
theorem lookback_label_in_range (oh : OneHot ε) (c : LookbackCfg) (evs : List ε) (p : Nat)
    (hp : p < evs.length) (hd : LegalDists c.dists) (hv : ValidEv oh evs[p]) :
    ∃ l, lbEventsToLabel oh c evs p = .ok l ∧ 0 ≤ l ∧ l < lbNumClasses oh c := by
  obtain ⟨i, he, h0, h1, hdec⟩ := hv
  obtain ⟨l, hl, hl0, hl1, _⟩ := seqLabel_decode oh.numClasses (oh.numClasses + c.dists.length - 1)
    (ohEventsToLabel oh evs p) oh.default c.dists evs p hp hd rfl oh.decode i
    (by simp [ohEventsToLabel, pyIdx_nat evs p hp, bind, Except.bind, he]) h0 h1 hdec
  exact ⟨l, by rw [lbEventsToLabel_eq]; exact hl, hl0, hl1⟩

/-- documented precedence, index form: the label is `numClasses + i` for the greatest lookback index `i`
that matches (`Matches`: a real repeat, or — for the last distance only — a default event closer to the
start than that distance); when no lookback matches it is the plain one-hot class of the event -/
theorem lookback_label_precedence (oh : OneHot ε) (c : LookbackCfg) (evs : List ε) (p : Nat)
    (hp : p < evs.length) (hd : LegalDists c.dists) :
    (∀ i, Matches oh.default c.dists evs p i → (∀ j, i < j → ¬ Matches oh.default c.dists evs p j) →
        lbEventsToLabel oh c evs p = .ok (oh.numClasses + i)) ∧
    ((∀ i, ¬ Matches oh.default c.dists evs p i) → lbEventsToLabel oh c evs p = oh.encode evs[p]) := by
  have h := seqLabel_precedence oh.numClasses (oh.numClasses + c.dists.length - 1)
    (ohEventsToLabel oh evs p) oh.default c.dists evs p hp hd rfl
  refine ⟨fun i hm hmax => by rw [lbEventsToLabel_eq]; exact h.1 i hm hmax, fun hno => ?_⟩
  rw [lbEventsToLabel_eq, h.2 hno]
  simp [ohEventsToLabel, pyIdx_nat evs p hp, bind, Except.bind]

/-- for a strictly ascending distance list the selected lookback is the *farthest* matching one
(the rule as the docstring words it) -/
theorem lookback_label_farthest (oh : OneHot ε) (c : LookbackCfg) (evs : List ε) (p : Nat)
    (hp : p < evs.length) (hd : LegalDists c.dists) (hs : c.dists.Pairwise (· < ·))
    (i : Nat) (hm : Matches oh.default c.dists evs p i)
    (hmax : ∀ j, i < j → ¬ Matches oh.default c.dists evs p j) :
    lbEventsToLabel oh c evs p = .ok (oh.numClasses + i) ∧
    ∀ j dj di, Matches oh.default c.dists evs p j → c.dists[j]? = some dj → c.dists[i]? = some di → dj ≤ di := by
  refine ⟨(lookback_label_precedence oh c evs p hp hd).1 i hm hmax, ?_⟩
  intro j dj di hmj hj hi
  have hji : j ≤ i := by
    rcases Nat.lt_or_ge i j with h | h
    · exact absurd hmj (hmax j h)
    · exact h
  rcases Nat.lt_or_ge j i with h | h
  · obtain ⟨hj1, hj2⟩ := List.getElem?_eq_some_iff.mp hj
    obtain ⟨hi1, hi2⟩ := List.getElem?_eq_some_iff.mp hi
    have := (List.pairwise_iff_getElem.mp hs) j i hj1 hi1 h
    rw [hj2, hi2] at this
    exact Int.le_of_lt this
  · have : j = i := by omega
    subst this
    rw [hj] at hi; injection hi with hi; omega


/-- the exact layout of the input vector, hence "exactly one 1 in each one-hot block" (`oneHotVec_get`,
`oneHotVec_count`), counter bits in `{-1, 1}` (`counterBit_pm`), repeat flags in `{0, 1}` (`repFlag_01`):
block 0 is the one-hot of the current event, block `k+1` the one-hot of the event that followed lookback
`k` (`NextEv`; the default event before the start), then `bits` counter values for `p + 1`, then one
repeat flag per lookback.  `f d` names the class index of the event of lookback distance `d`. -/
theorem lookback_input_blocks (oh : OneHot ε) (c : LookbackCfg) (evs : List ε) (p : Nat) (hp : p < evs.length)
    (hd : LegalDists c.dists) (hb : 0 ≤ c.bits) (n i0 : Nat) (hn : oh.numClasses = n)
    (h0 : oh.encode evs[p] = .ok i0) (hi0 : i0 < n) (f : Int → Nat)
    (hf : ∀ d ∈ c.dists, f d < n ∧ ∃ e, NextEv oh.default evs p d e ∧ oh.encode e = .ok (f d)) :
    lbEventsToInput oh c evs p = .ok
      (oneHotVec n i0 ++ (c.dists.map (fun d => oneHotVec n (f d))).flatten ++
        (List.range c.bits.toNat).map (counterBit ((p : Int) + 1)) ++ c.dists.map (repFlag evs p)) :=
  lbEventsToInput_layout oh c evs p hp hd hb n i0 hn h0 hi0 f hf

omit [DecidableEq ε] in
/-- the hypotheses of `lookback_input_blocks` hold whenever every event of the sequence and the default
event are valid: the class-index function `f` exists -/
theorem lookback_input_blocks_total (oh : OneHot ε) (c : LookbackCfg) (evs : List ε) (p : Nat) (hp : p < evs.length)
    (hd : LegalDists c.dists) (hv : ∀ e ∈ evs, ValidEv oh e) (hdef : ValidEv oh oh.default) :
    ∃ (n i0 : Nat) (f : Int → Nat), oh.numClasses = n ∧ oh.encode evs[p] = .ok i0 ∧ i0 < n ∧
      ∀ d ∈ c.dists, f d < n ∧ ∃ e, NextEv oh.default evs p d e ∧ oh.encode e = .ok (f d) := by
  obtain ⟨i, he, h0, h1, _⟩ := hv evs[p] (List.getElem_mem hp)
  have hnc : 0 ≤ oh.numClasses := by omega
  -- the event of every distance is valid
  have hnext : ∀ d : Int, 1 ≤ d → ∃ e, NextEv oh.default evs p d e ∧ ValidEv oh e ∧
      e = (if (p : Int) - d + 1 < 0 then oh.default else evs[((p : Int) - d + 1).toNat]?.getD oh.default) := by
    intro d hd1
    by_cases hlt : (p : Int) - d + 1 < 0
    · exact ⟨oh.default, .inl ⟨hlt, rfl⟩, hdef, by simp [hlt]⟩
    · have hq : ((p : Int) - d + 1).toNat < evs.length := by omega
      exact ⟨evs[((p : Int) - d + 1).toNat], .inr ⟨by omega, List.getElem?_eq_getElem hq⟩,
        hv _ (List.getElem_mem hq), by simp [hlt, List.getElem?_eq_getElem hq]⟩
  refine ⟨oh.numClasses.toNat, i.toNat, fun d =>
    match oh.encode (if (p : Int) - d + 1 < 0 then oh.default else evs[((p : Int) - d + 1).toNat]?.getD oh.default) with
    | .ok j => j.toNat
    | .error _ => 0,
    by omega, by rw [he]; congr 1; omega, by omega, ?_⟩
  intro d hdm
  obtain ⟨e, hne, ⟨j, hj, hj0, hj1, _⟩, heq⟩ := hnext d (hd d hdm)
  dsimp only
  rw [← heq]
  simp only [hj]
  exact ⟨by omega, e, hne, by rw [hj]; congr 1; omega⟩

/-- every input vector has exactly `input_size` entries (whenever the computation succeeds at all:
any position, any events, any distances) -/
theorem lookback_input_size_exact (oh : OneHot ε) (c : LookbackCfg) (evs : List ε) (pos : Int) (v : List Int)
    (h : lbEventsToInput oh c evs pos = .ok v) : v.length = (lbInputSize oh c).toNat :=
  lbEventsToInput_length oh c evs pos v h

theorem counterBit_pm (n : Int) (i : Nat) : counterBit n i = 1 ∨ counterBit n i = -1 := by
  unfold counterBit; split <;> simp

theorem repFlag_01 (evs : List ε) (p : Nat) (d : Int) : repFlag evs p d = 1 ∨ repFlag evs p d = 0 := by
  unfold repFlag; split <;> simp

/-- the counter value is the binary digit `i` of `n` (as ±1) for non-negative `n` -/
theorem counterBit_testBit (n i : Nat) : counterBit (n : Int) i = if n.testBit i then 1 else -1 := by
  unfold counterBit
  have h2 : (0 : Int) ≤ 2 ^ i := Int.pow_nonneg (by omega)
  rw [Int.fdiv_eq_ediv_of_nonneg _ h2, Int.fmod_eq_emod_of_nonneg _ (by omega)]
  have : ((n : Int) / 2 ^ i) % 2 = ((n / 2 ^ i % 2 : Nat) : Int) := by push_cast; rfl
  rw [this, Nat.testBit, Nat.shiftRight_eq_div_pow]
  have h := Nat.mod_two_eq_zero_or_one (n / 2 ^ i)
  rcases h with h | h <;> simp [h, Nat.one_and_eq_mod_two]

omit [DecidableEq ε] in
/-- the generation loop: any list of in-range labels drives `class_index_to_event` + append without error from
any history of valid events; every produced event is valid and is the decoding of its label against
what precedes it -/
theorem lookback_generation_loop_total (oh : OneHot ε) (c : LookbackCfg) (hd : LegalDists c.dists)
    (hdt : DecodeTotal oh) (hdef : ValidEv oh oh.default)
    (labels : List Int) (hl : ∀ l ∈ labels, 0 ≤ l ∧ l < lbNumClasses oh c)
    (init : List ε) (hi : ∀ e ∈ init, ValidEv oh e) :
    ∃ out, genLoop (lbClassIndexToEvent oh c) labels init = .ok out ∧
      out.length = init.length + labels.length ∧ (∀ e ∈ out, ValidEv oh e) ∧ out.take init.length = init ∧
      ∀ k (hk : k < labels.length) (ho : init.length + k < out.length),
        lbClassIndexToEvent oh c labels[k] (out.take (init.length + k)) = .ok out[init.length + k] := by
  apply genLoop_total (lbClassIndexToEvent oh c) (ValidEv oh) (fun l => 0 ≤ l ∧ l < lbNumClasses oh c) _ labels hl init hi
  intro l evs ⟨hl0, hl1⟩ hev
  unfold lbClassIndexToEvent
  by_cases hlt : l < oh.numClasses
  · rw [citeLoop_miss _ _ _ _ _ _ (fun x _ => by omega)]
    exact hdt l hl0 hlt
  · unfold lbNumClasses at hl1
    have hidx : (l - oh.numClasses).toNat < c.dists.length := by omega
    rw [citeLoop_hit _ _ _ l evs _ (c.dists[(l - oh.numClasses).toNat]) (l - oh.numClasses).toNat
      ((mem_revIdx _ (_, _)).mpr (List.getElem?_eq_getElem hidx)) (by omega) (revIdx_pairwise_gt _)]
    have hd1 := hd _ (List.getElem_mem hidx)
    generalize c.dists[(l - oh.numClasses).toNat] = d at hd1
    by_cases hlen : (evs.length : Int) < d
    · rw [if_pos hlen]; exact ⟨_, rfl, hdef⟩
    · have hq : (evs.length - d.toNat) < evs.length := by omega
      rw [if_neg hlen, pyIdx_neg evs d (evs.length - d.toNat) hd1 (by omega) hq]
      exact ⟨_, rfl, hev _ (List.getElem_mem hq)⟩

omit [DecidableEq ε] in
/-- `labels_to_num_steps` = the steps of the sequence the generation loop builds from nothing -/
theorem labels_to_num_steps_eq (oh : OneHot ε) (c : LookbackCfg) (hd : LegalDists c.dists)
    (hdt : DecodeTotal oh) (hdef : ValidEv oh oh.default)
    (labels : List Int) (hl : ∀ l ∈ labels, 0 ≤ l ∧ l < lbNumClasses oh c) :
    ∃ out, genLoop (lbClassIndexToEvent oh c) labels [] = .ok out ∧ out.length = labels.length ∧
      lbLabelsToNumSteps oh c labels = .ok ((out.map oh.numSteps).sum) := by
  obtain ⟨out, h1, h2, _⟩ := lookback_generation_loop_total oh c hd hdt hdef labels hl [] (by simp)
  exact ⟨out, h1, by simpa using h2, by unfold lbLabelsToNumSteps; rw [h1]; rfl⟩

/-- the title of the property: the labels of positions `k, k+1, …` drive the generation loop from the
first `k` events back to the whole sequence -/
theorem lookback_roundtrip (oh : OneHot ε) (c : LookbackCfg) (evs : List ε) (hd : LegalDists c.dists)
    (hv : ∀ e ∈ evs, ValidEv oh e) (k : Nat) (hk : k ≤ evs.length) :
    ∃ labels, mapE (fun p : Nat => lbEventsToLabel oh c evs p) (List.range' k (evs.length - k)) = .ok labels ∧
      genLoop (lbClassIndexToEvent oh c) labels (evs.take k) = .ok evs :=
  genLoop_roundtrip (lbClassIndexToEvent oh c) (fun p : Nat => lbEventsToLabel oh c evs p) evs
    (fun p hp => lookback_decode_label oh c evs p hp hd (hv _ (List.getElem_mem hp))) (evs.length - k) k (by omega)

end Lookback

/-! ## OneHotEventSequenceEncoderDecoder / OneHotIndexEventSequenceEncoderDecoder -/
section OneHotSeq
variable {ε : Type}

theorem onehot_decode_label (oh : OneHot ε) (evs : List ε) (p : Nat) (hp : p < evs.length)
    (hv : ValidEv oh evs[p]) :
    ∃ l, ohEventsToLabel oh evs p = .ok l ∧ ohClassIndexToEvent oh l (evs.take p) = .ok evs[p] := by
  obtain ⟨i, he, _, _, hdec⟩ := hv
  exact ⟨i, by simp [ohEventsToLabel, pyIdx_nat evs p hp, bind, Except.bind, he], hdec⟩

theorem onehot_label_in_range (oh : OneHot ε) (evs : List ε) (p : Nat) (hp : p < evs.length)
    (hv : ValidEv oh evs[p]) :
    ∃ l, ohEventsToLabel oh evs p = .ok l ∧ 0 ≤ l ∧ l < ohNumClasses oh := by
  obtain ⟨i, he, h0, h1, _⟩ := hv
  exact ⟨i, by simp [ohEventsToLabel, pyIdx_nat evs p hp, bind, Except.bind, he], h0, h1⟩

/-- the input is the one-hot vector of the label: exactly one 1, at the class index of the event -/
theorem onehot_input_block (oh : OneHot ε) (evs : List ε) (p : Nat) (hp : p < evs.length)
    (n i : Nat) (hn : oh.numClasses = n) (he : oh.encode evs[p] = .ok i) (hi : i < n) :
    ohEventsToInput oh evs p = .ok (oneHotVec n i) := by
  unfold ohEventsToInput ohInputSize zeros
  simp only [pyIdx_nat evs p hp, bind, Except.bind, he, hn, Int.toNat_natCast]
  rw [pySet_nat _ _ _ (by simpa using hi)]
  rfl

theorem onehot_input_size_exact (oh : OneHot ε) (evs : List ε) (pos : Int) (v : List Int)
    (h : ohEventsToInput oh evs pos = .ok v) : v.length = (ohInputSize oh).toNat := by
  unfold ohEventsToInput at h
  simp only [bind, Except.bind] at h
  split at h
  · cases h
  · split at h
    · cases h
    · rw [pySet_length h]; simp [zeros]

/-- one-hot-index variant: `input_size = 1` and the single entry is the label -/
theorem onehot_index_input (oh : OneHot ε) (evs : List ε) (pos : Int) (v : List Int)
    (h : ohiEventsToInput oh evs pos = .ok v) :
    (v.length : Int) = ohiInputSize oh ∧ ∃ l, ohEventsToLabel oh evs pos = .ok l ∧ v = [l] := by
  unfold ohiEventsToInput at h
  unfold ohEventsToLabel
  simp only [bind, Except.bind] at h ⊢
  split at h
  · cases h
  · rename_i e he
    split at h
    · cases h
    · rename_i i hi
      simp only [pure, Except.pure] at h
      injection h with h
      subst h
      exact ⟨by simp [ohiInputSize], i, hi, rfl⟩

theorem onehot_generation_loop_total (oh : OneHot ε) (hdt : DecodeTotal oh)
    (labels : List Int) (hl : ∀ l ∈ labels, 0 ≤ l ∧ l < ohNumClasses oh)
    (init : List ε) (hi : ∀ e ∈ init, ValidEv oh e) :
    ∃ out, genLoop (ohClassIndexToEvent oh) labels init = .ok out ∧
      out.length = init.length + labels.length ∧ (∀ e ∈ out, ValidEv oh e) ∧ out.take init.length = init ∧
      (init = [] → ohLabelsToNumSteps oh labels = .ok ((out.map oh.numSteps).sum)) := by
  obtain ⟨out, h1, h2, h3, h4, _⟩ := genLoop_total (ohClassIndexToEvent oh) (ValidEv oh)
    (fun l => 0 ≤ l ∧ l < ohNumClasses oh) (fun l _ hl _ => hdt l hl.1 hl.2) labels hl init hi
  exact ⟨out, h1, h2, h3, h4, fun h0 => by subst h0; unfold ohLabelsToNumSteps; rw [h1]; rfl⟩

end OneHotSeq

/-! ## `encode` and the conditional wrapper -/
section Encode
variable {ε γ ι κ : Type}

/-- `encode` returns `len - 1` aligned pairs: input `i` is the input at position `i`, label `i` the label of
position `i + 1` -/
theorem encode_aligned (toInput : List ε → Int → Except String ι) (toLabel : List ε → Int → Except String κ)
    (evs : List ε) (ins : List ι) (labs : List κ) (h : encodeG toInput toLabel evs = .ok (ins, labs)) :
    ins.length = evs.length - 1 ∧ labs.length = evs.length - 1 ∧
    ∀ i (hi : i < ins.length) (hl : i < labs.length),
      toInput evs i = .ok ins[i] ∧ toLabel evs ((i : Int) + 1) = .ok labs[i] := by
  unfold encodeG at h
  generalize hm : mapE _ (List.range (evs.length - 1)) = r at h
  cases r with
  | error e => cases h
  | ok ps =>
    simp only [Except.map] at h
    injection h with h
    obtain ⟨hlen, hget⟩ := mapE_ok _ _ _ hm
    have h1 : ins = ps.map Prod.fst := by rw [← List.unzip_fst, h]
    have h2 : labs = ps.map Prod.snd := by rw [← List.unzip_snd, h]
    subst h1; subst h2
    simp only [List.length_map, List.length_range] at hlen ⊢
    refine ⟨hlen, hlen, ?_⟩
    intro i hi hl
    have := hget i (by simp; omega) hi
    simp only [List.getElem_range, List.getElem_map] at this ⊢
    unfold encodeStep at this
    cases ha : toInput evs i with
    | error e => rw [ha] at this; cases this
    | ok a =>
      rw [ha] at this
      cases hb : toLabel evs ((i : Int) + 1) with
      | error e => rw [hb] at this; cases this
      | ok b =>
        rw [hb] at this
        simp only [] at this
        injection this with this
        rw [← this]
        exact ⟨rfl, rfl⟩

/-- `encode` succeeds whenever every input and every label it needs can be computed -/
theorem encode_total (toInput : List ε → Int → Except String ι) (toLabel : List ε → Int → Except String κ)
    (evs : List ε)
    (h : ∀ i : Nat, i < evs.length - 1 → (∃ a, toInput evs i = .ok a) ∧ ∃ b, toLabel evs ((i : Int) + 1) = .ok b) :
    ∃ ins labs, encodeG toInput toLabel evs = .ok (ins, labs) := by
  unfold encodeG
  obtain ⟨ps, hps⟩ := mapE_total (encodeStep toInput toLabel evs) (List.range (evs.length - 1)) (by
    intro i hi
    obtain ⟨⟨a, ha⟩, b, hb⟩ := h i (by simpa using hi)
    exact ⟨(a, b), by unfold encodeStep; simp only [ha, hb]⟩)
  rw [hps]
  exact ⟨ps.unzip.1, ps.unzip.2, rfl⟩

/-- conditional wrapper: input `i` = control input at `i + 1` ++ target input at `i`; label `i` = target label
at `i + 1`; the sequences have equal length -/
theorem cond_encode_aligned (cIn : List γ → Int → Except String (List Int))
    (tIn : List ε → Int → Except String (List Int)) (tLab : List ε → Int → Except String κ)
    (ctrl : List γ) (tgt : List ε) (ins : List (List Int)) (labs : List κ)
    (h : condEncode cIn tIn tLab ctrl tgt = .ok (ins, labs)) :
    ctrl.length = tgt.length ∧ ins.length = tgt.length - 1 ∧ labs.length = tgt.length - 1 ∧
    ∀ i (hi : i < ins.length) (hl : i < labs.length),
      (∃ a b, cIn ctrl ((i : Int) + 1) = .ok a ∧ tIn tgt i = .ok b ∧ ins[i] = a ++ b) ∧
      tLab tgt ((i : Int) + 1) = .ok labs[i] := by
  unfold condEncode at h
  split at h
  · cases h
  · rename_i hlen
    obtain ⟨h1, h2, h3⟩ := encode_aligned _ _ _ _ _ h
    refine ⟨by simpa using hlen, h1, h2, ?_⟩
    intro i hi hl
    obtain ⟨hin, hlab⟩ := h3 i hi hl
    refine ⟨?_, hlab⟩
    unfold condEventsToInput at hin
    simp only [bind, Except.bind] at hin
    split at hin
    · cases hin
    · rename_i a ha
      split at hin
      · cases hin
      · rename_i b hb
        simp only [pure, Except.pure] at hin
        injection hin with hin
        exact ⟨a, b, ha, hb, hin.symm⟩

theorem cond_encode_length_mismatch (cIn : List γ → Int → Except String (List Int))
    (tIn : List ε → Int → Except String (List Int)) (tLab : List ε → Int → Except String κ)
    (ctrl : List γ) (tgt : List ε) (h : ctrl.length ≠ tgt.length) :
    condEncode cIn tIn tLab ctrl tgt = .error "ValueError" := by
  unfold condEncode; rw [if_pos h]

end Encode

/-! ## `encode` on the lookback encoder; conditional input size -/
section
variable {ε γ : Type} [DecidableEq ε]

/-- `encode` never fails on a sequence of valid events (legal distances, non-negative counter width) and returns
`len - 1` inputs and labels -/
theorem lookback_encode_total (oh : OneHot ε) (c : LookbackCfg) (evs : List ε) (hd : LegalDists c.dists)
    (hb : 0 ≤ c.bits) (hv : ∀ e ∈ evs, ValidEv oh e) (hdef : ValidEv oh oh.default) :
    ∃ ins labs, encodeG (lbEventsToInput oh c) (lbEventsToLabel oh c) evs = .ok (ins, labs) ∧
      ins.length = evs.length - 1 ∧ labs.length = evs.length - 1 := by
  obtain ⟨ins, labs, h⟩ := encode_total (lbEventsToInput oh c) (lbEventsToLabel oh c) evs (by
    intro i hi
    constructor
    · obtain ⟨n, i0, f, h1, h2, h3, h4⟩ := lookback_input_blocks_total oh c evs i (by omega) hd hv hdef
      exact ⟨_, lookback_input_blocks oh c evs i (by omega) hd hb n i0 h1 h2 h3 f h4⟩
    · obtain ⟨l, hl, _⟩ := lookback_label_in_range oh c evs (i + 1) (by omega) hd (hv _ (List.getElem_mem (by omega)))
      exact ⟨l, by simpa using hl⟩)
  obtain ⟨h1, h2, _⟩ := encode_aligned _ _ _ _ _ h
  exact ⟨ins, labs, h, h1, h2⟩

omit [DecidableEq ε] in
/-- the conditional input has `control.input_size + target.input_size` entries -/
theorem cond_input_size_exact (cIn : List γ → Int → Except String (List Int))
    (tIn : List ε → Int → Except String (List Int)) (ctrl : List γ) (tgt : List ε) (pos : Int) (v : List Int)
    (nc nt : Nat) (hc : ∀ p a, cIn ctrl p = .ok a → a.length = nc) (ht : ∀ p b, tIn tgt p = .ok b → b.length = nt)
    (h : condEventsToInput cIn tIn ctrl tgt pos = .ok v) : v.length = nc + nt := by
  unfold condEventsToInput at h
  obtain ⟨a, ha, h⟩ := bind_ok h
  obtain ⟨b, hb, h⟩ := bind_ok h
  simp only [pure, Except.pure] at h
  injection h with h
  rw [← h, List.length_append, hc _ _ ha, ht _ _ hb]
end

/-! ## KeyMelodyEncoderDecoder -/
section KeyMelody
open Gen

/-- `class_index_to_event(events_to_label(evs, p), evs[:p]) = evs[p]` and the label lies in `[0, num_classes)`
(every lookback list incl. the empty one; melody events within `[min_note, max_note)`) -/
theorem keymelody_decode_label (c : KeyCfg) (hc : KeyCfgOk c) (evs : List Int) (p : Nat) (hp : p < evs.length)
    (hv : KeyEvent c evs[p]) :
    ∃ l, keyEventsToLabel c evs p = .ok l ∧ keyClassIndexToEvent c l (evs.take p) = .ok evs[p] := by
  obtain ⟨l0, h1, h2, h3, h4⟩ := keyPlain_spec c hc evs p hp hv
  obtain ⟨l, hl, _, _, hcite⟩ := seqLabel_decode (c.noteRange + 2) (c.noteRange + c.dists.length + 1)
    (keyPlainLabel c evs p) MELODY_NO_EVENT c.dists evs p hp hc.2.2 (by omega)
    (fun l => .ok (keyPlainEvent c l)) l0 h1 h2 h3 (by rw [h4])
  exact ⟨l, by rw [keyEventsToLabel_eq]; exact hl, hcite⟩

theorem keymelody_label_in_range (c : KeyCfg) (hc : KeyCfgOk c) (evs : List Int) (p : Nat) (hp : p < evs.length)
    (hv : KeyEvent c evs[p]) :
    ∃ l, keyEventsToLabel c evs p = .ok l ∧ 0 ≤ l ∧ l < keyNumClasses c := by
  obtain ⟨l0, h1, h2, h3, h4⟩ := keyPlain_spec c hc evs p hp hv
  obtain ⟨l, hl, hl0, hl1, _⟩ := seqLabel_decode (c.noteRange + 2) (c.noteRange + c.dists.length + 1)
    (keyPlainLabel c evs p) MELODY_NO_EVENT c.dists evs p hp hc.2.2 (by omega)
    (fun l => .ok (keyPlainEvent c l)) l0 h1 h2 h3 (by rw [h4])
  refine ⟨l, by rw [keyEventsToLabel_eq]; exact hl, hl0, ?_⟩
  unfold keyNumClasses NUM_SPECIAL_MELODY_EVENTS; omega

/-- precedence (index form): greatest matching lookback index first (`note_range + 2 + i`), plain class last -/
theorem keymelody_label_precedence (c : KeyCfg) (hc : KeyCfgOk c) (evs : List Int) (p : Nat) (hp : p < evs.length) :
    (∀ i, Matches MELODY_NO_EVENT c.dists evs p i → (∀ j, i < j → ¬ Matches MELODY_NO_EVENT c.dists evs p j) →
        keyEventsToLabel c evs p = .ok (c.noteRange + 2 + i)) ∧
    ((∀ i, ¬ Matches MELODY_NO_EVENT c.dists evs p i) → keyEventsToLabel c evs p = keyPlainLabel c evs p) := by
  have h := seqLabel_precedence (c.noteRange + 2) (c.noteRange + c.dists.length + 1)
    (keyPlainLabel c evs p) MELODY_NO_EVENT c.dists evs p hp hc.2.2 (by omega)
  exact ⟨fun i hm hmax => by rw [keyEventsToLabel_eq]; exact h.1 i hm hmax,
    fun hno => by rw [keyEventsToLabel_eq]; exact h.2 hno⟩

/-- generation loop: in-range labels never fail and produce melody events of the configuration;
`labels_to_num_steps` (base class: `len(labels)`) is the length of what was generated -/
theorem keymelody_generation_loop_total (c : KeyCfg) (hc : KeyCfgOk c)
    (labels : List Int) (hl : ∀ l ∈ labels, 0 ≤ l ∧ l < keyNumClasses c)
    (init : List Int) (hi : ∀ e ∈ init, KeyEvent c e) :
    ∃ out, genLoop (keyClassIndexToEvent c) labels init = .ok out ∧
      out.length = init.length + labels.length ∧ (∀ e ∈ out, KeyEvent c e) ∧ out.take init.length = init ∧
      (keyLabelsToNumSteps labels : Int) = out.length - init.length := by
  obtain ⟨out, h1, h2, h3, h4, _⟩ := genLoop_total (keyClassIndexToEvent c) (KeyEvent c)
    (fun l => 0 ≤ l ∧ l < keyNumClasses c) (by
      intro l evs ⟨hl0, hl1⟩ hev
      unfold keyClassIndexToEvent
      apply citeLoop_step (c.noteRange + 2) MELODY_NO_EVENT (fun l => .ok (keyPlainEvent c l)) (KeyEvent c)
        c.dists hc.2.2 _ (.inl rfl) l hl0 (by unfold keyNumClasses NUM_SPECIAL_MELODY_EVENTS at hl1; omega) evs hev
      intro l h0 h1
      refine ⟨_, rfl, ?_⟩
      unfold keyPlainEvent KeyEvent KeyCfg.noteRange at *
      split
      · exact .inr (.inl rfl)
      · split
        · exact .inl rfl
        · exact .inr (.inr (by omega))) labels hl init hi
  exact ⟨out, h1, h2, h3, h4, by unfold keyLabelsToNumSteps; omega⟩

/-- every input vector has exactly `input_size` entries (whenever the computation succeeds) -/
theorem keymelody_input_size_exact (c : KeyCfg) (evs : List Int) (pos : Int) (v : List Int)
    (h : keyEventsToInput c evs pos = .ok v) : v.length = (keyInputSize c).toNat :=
  keyEventsToInput_length c evs pos v h

/-- the key table the model reads with `getD` is total: 12 rows, keys below 12 (so no `IndexError` is hidden) -/
theorem note_keys_wellformed :
    NOTE_KEYS.length = NOTES_PER_OCTAVE ∧ NOTE_KEYS.all (fun row => row.all (· < NOTES_PER_OCTAVE)) = true := by
  decide

end KeyMelody

/-! ## NotePerformanceEventSequenceEncoderDecoder -/
section NotePerf
open Gen

/-! ## NotePerformanceEventSequenceEncoderDecoder -/

/-- every sub-label lies in `[0, num_classes[k])` -/
theorem noteperf_label_in_range (c : NPCfg) (E : NPEnc) (hE : npInit c = .ok E) (ev : NPEvent)
    (hv : NPValid c ev) : LabelInRange (npEncodeEvent E ev) E.numClasses := by
  obtain ⟨hm, s1, s2, s3, d1, d2, d3, hnc⟩ := npInit_spec c E hE
  obtain ⟨v1, v2, v3, v4, v5, v6, v7, v8⟩ := hv
  obtain ⟨a1, a2, a3, a4, _⟩ := divmod_spec ev.shift E.shiftPer E.shiftSeg s2 v1 (by omega)
  obtain ⟨b1, b2, b3, b4, _⟩ := divmod_spec (ev.dur - 1) E.durPer E.durSeg d2 (by omega) (by omega)
  rw [hnc]
  unfold npEncodeEvent LabelInRange LabelInRange LabelInRange LabelInRange LabelInRange LabelInRange LabelInRange
  rw [hm]
  exact ⟨a1, a2, a3, a4, by omega, by omega, by omega, by omega, b1, b2, b3, b4, trivial⟩

/-- decoding the label of a valid event gives the event back -/
theorem noteperf_decode_label (c : NPCfg) (hc : NPCfgOk c) (E : NPEnc) (hE : npInit c = .ok E) (ev : NPEvent)
    (hv : NPValid c ev) : npClassIndexToEvent E (npEncodeEvent E ev) = .ok ev := by
  obtain ⟨hm, s1, s2, s3, d1, d2, d3, hnc⟩ := npInit_spec c E hE
  obtain ⟨v1, v2, v3, v4, v5, v6, v7, v8⟩ := hv
  obtain ⟨c1, c2, c3, c4, c5⟩ := hc
  obtain ⟨_, _, _, _, a5⟩ := divmod_spec ev.shift E.shiftPer E.shiftSeg s2 v1 (by omega)
  obtain ⟨_, _, _, _, b5⟩ := divmod_spec (ev.dur - 1) E.durPer E.durSeg d2 (by omega) (by omega)
  unfold npEncodeEvent npClassIndexToEvent
  simp only [a5, b5, hm]
  have e1 : ev.pitch - c.minPitch + c.minPitch = ev.pitch := by omega
  have e2 : ev.vel - 1 + 1 = ev.vel := by omega
  have e3 : ev.dur - 1 + 1 = ev.dur := by omega
  rw [e1, e2, e3]
  unfold MAX_NUM_VELOCITY_BINS MIN_MIDI_PITCH MAX_MIDI_PITCH at *
  have ok : (perfEventOk TIME_SHIFT ev.shift = true ∧ perfEventOk NOTE_ON ev.pitch = true ∧
      perfEventOk VELOCITY ev.vel = true ∧ perfEventOk DURATION ev.dur = true) := by
    unfold perfEventOk TIME_SHIFT NOTE_ON NOTE_OFF VELOCITY DURATION MAX_NUM_VELOCITY_BINS MIN_MIDI_PITCH MAX_MIDI_PITCH
    simp
    omega
  simp only [ok, and_self, if_true]

/-- the converse: every in-range label decodes to a valid event that encodes back to the label (so label ↔ event
is a bijection between `∏ [0, num_classes[k])` and the valid events) -/
theorem noteperf_encode_decode (c : NPCfg) (hc : NPCfgOk c) (E : NPEnc) (hE : npInit c = .ok E) (l : List Int)
    (hl : LabelInRange l E.numClasses) :
    ∃ ev, npClassIndexToEvent E l = .ok ev ∧ NPValid c ev ∧ npEncodeEvent E ev = l := by
  obtain ⟨hm, s1, s2, s3, d1, d2, d3, hnc⟩ := npInit_spec c E hE
  obtain ⟨c1, c2, c3, c4, c5⟩ := hc
  rw [hnc] at hl
  match l, hl with
  | [a, b, p, v, dM, dm], hl =>
    unfold LabelInRange LabelInRange LabelInRange LabelInRange LabelInRange LabelInRange LabelInRange at hl
    obtain ⟨a0, a1, b0, b1, p0, p1, v0, v1, m0, m1, n0, n1, _⟩ := hl
    unfold MAX_NUM_VELOCITY_BINS MIN_MIDI_PITCH MAX_MIDI_PITCH at *
    -- bounds on the recombined values (nonlinear: stated via monotonicity of multiplication)
    have hs : a * E.shiftPer + b ≤ (c.maxShift : Int) := by
      have : a * E.shiftPer ≤ (E.shiftSeg - 1) * E.shiftPer := Int.mul_le_mul_of_nonneg_right (by omega) (by omega)
      rw [Int.sub_mul] at this; omega
    have hs0 : 0 ≤ a * E.shiftPer := Int.mul_nonneg a0 (by omega)
    have hdu : dM * E.durPer + dm + 1 ≤ (c.maxDur : Int) := by
      have : dM * E.durPer ≤ (E.durSeg - 1) * E.durPer := Int.mul_le_mul_of_nonneg_right (by omega) (by omega)
      rw [Int.sub_mul] at this; omega
    have hd0 : 0 ≤ dM * E.durPer := Int.mul_nonneg m0 (by omega)
    refine ⟨⟨a * E.shiftPer + b, p + E.minPitch, v + 1, dM * E.durPer + dm + 1⟩, ?_, ?_, ?_⟩
    · unfold npClassIndexToEvent
      have ok : (perfEventOk TIME_SHIFT (a * E.shiftPer + b) = true ∧ perfEventOk NOTE_ON (p + E.minPitch) = true ∧
          perfEventOk VELOCITY (v + 1) = true ∧ perfEventOk DURATION (dM * E.durPer + dm + 1) = true) := by
        unfold perfEventOk TIME_SHIFT NOTE_ON NOTE_OFF VELOCITY DURATION MAX_NUM_VELOCITY_BINS MIN_MIDI_PITCH MAX_MIDI_PITCH
        simp
        omega
      simp only [ok, and_self, if_true]
    · unfold NPValid; simp only []; omega
    · unfold npEncodeEvent
      simp only []
      obtain ⟨x1, x2⟩ := divmod_unique a b E.shiftPer b0 b1
      have e : dM * E.durPer + dm + 1 - 1 = dM * E.durPer + dm := by omega
      obtain ⟨y1, y2⟩ := divmod_unique dM dm E.durPer n0 n1
      have e1 : p + E.minPitch - E.minPitch = p := by omega
      have e2 : v + 1 - 1 = v := by omega
      rw [x1, x2, e, y1, y2, e1, e2]

/-- the input is six one-hot blocks of sizes `num_classes[k]` with the `1` at sub-label `k`; its length is
`input_size` -/
theorem noteperf_input_blocks (c : NPCfg) (E : NPEnc) (hE : npInit c = .ok E) (evs : List NPEvent) (p : Nat)
    (hp : p < evs.length) (hv : NPValid c evs[p]) :
    npEventsToInput E evs p = .ok ((List.zipWith (fun n k => oneHotVec n.toNat k.toNat) E.numClasses
        (npEncodeEvent E evs[p])).flatten) ∧
    (((List.zipWith (fun n k => oneHotVec n.toNat k.toNat) E.numClasses
        (npEncodeEvent E evs[p])).flatten).length : Int) = npInputSize E := by
  have hr := noteperf_label_in_range c E hE evs[p] hv
  refine ⟨?_, zipWith_oneHot_length _ _ hr⟩
  unfold npEventsToInput
  simp only [pyIdx_nat evs p hp, bind, Except.bind]
  exact npOneHots_spec _ _ hr

/-- `labels_to_num_steps` = all time shifts of the decoded events plus the duration of the last one
(0 for the empty label sequence) -/
theorem noteperf_num_steps (E : NPEnc) (labels : List (List Int)) (out : List NPEvent)
    (h : mapE (npClassIndexToEvent E) labels = .ok out) :
    npLabelsToNumSteps E labels = .ok ((out.map NPEvent.shift).sum +
      (match out.getLast? with | some e => e.dur | none => 0)) := by
  unfold npLabelsToNumSteps
  rw [npStepsLoop_spec E labels out h 0 none]
  cases out.getLast? with
  | none => simp
  | some e => simp

/-- every sequence of in-range labels decodes without error to valid events -/
theorem noteperf_generation_total (c : NPCfg) (hc : NPCfgOk c) (E : NPEnc) (hE : npInit c = .ok E)
    (labels : List (List Int)) (hl : ∀ l ∈ labels, LabelInRange l E.numClasses) :
    ∃ out, mapE (npClassIndexToEvent E) labels = .ok out ∧ out.length = labels.length ∧
      ∀ i (h1 : i < labels.length) (h2 : i < out.length), NPValid c out[i] ∧ npEncodeEvent E out[i] = labels[i] := by
  obtain ⟨out, ho⟩ := mapE_total (npClassIndexToEvent E) labels (fun l hlm => by
    obtain ⟨ev, h1, _⟩ := noteperf_encode_decode c hc E hE l (hl l hlm); exact ⟨ev, h1⟩)
  obtain ⟨h1, h2⟩ := mapE_ok _ _ _ ho
  refine ⟨out, ho, h1, fun i hi1 hi2 => ?_⟩
  obtain ⟨ev, e1, e2, e3⟩ := noteperf_encode_decode c hc E hE labels[i] (hl _ (List.getElem_mem hi1))
  have := h2 i hi1 hi2
  rw [e1] at this
  injection this with this
  rw [← this]
  exact ⟨e2, e3⟩

end NotePerf

/-! ## PianorollEncoderDecoder -/
section Pianoroll

theorem pianoroll_label_in_range (n : Nat) (ev : List Nat) (hv : PrEvent n ev) :
    0 ≤ prEventToLabel ev ∧ prEventToLabel ev < prNumClasses n := by
  rw [prEventToLabel_eq]
  have := prDecodeLoop_powSum n 0 ev hv.1 (fun p hp => ⟨Nat.zero_le _, by have := hv.2 p hp; omega⟩)
  exact ⟨powSum_nonneg 0 ev, this.2⟩

theorem pianoroll_decode_label (n : Nat) (ev : List Nat) (hv : PrEvent n ev) :
    prClassIndexToEvent n (prEventToLabel ev) = .ok ev := by
  have hr := pianoroll_label_in_range n ev hv
  unfold prClassIndexToEvent
  rw [if_neg (by omega), prEventToLabel_eq]
  have := prDecodeLoop_powSum n 0 ev hv.1 (fun p hp => ⟨Nat.zero_le _, by have := hv.2 p hp; omega⟩)
  rw [this.1]
  rfl

/-- the converse: every label in `[0, 2^input_size)` decodes to a valid event that encodes back to it -/
theorem pianoroll_encode_decode (n : Nat) (l : Int) (h0 : 0 ≤ l) (h1 : l < prNumClasses n) :
    ∃ ev, prClassIndexToEvent n l = .ok ev ∧ PrEvent n ev ∧ prEventToLabel ev = l := by
  obtain ⟨ev, e1, e2, e3, e4⟩ := prDecodeLoop_spec n 0 l h0 h1
  refine ⟨ev, ?_, ⟨e2, fun p hp => by have := e3 p hp; omega⟩, by rw [prEventToLabel_eq]; exact e4⟩
  unfold prClassIndexToEvent
  rw [if_neg (by omega), e1]
  rfl

theorem pianoroll_input_size_exact (n : Nat) (ev : List Int) (v : List Int)
    (h : prEventToInput n ev = .ok v) : v.length = n := by
  unfold prEventToInput at h
  split at h
  · injection h with h
    rw [← h]
    have : ∀ (l : List Int) (inp : List Int),
        (l.foldl (fun inp p => inp.set (if p < 0 then p + (n : Int) else p).toNat 1) inp).length = inp.length := by
      intro l
      induction l with
      | nil => intro inp; rfl
      | cons a as ih => intro inp; simp only [List.foldl_cons]; rw [ih]; simp
    rw [this]; simp [zeros]
  · cases h

end Pianoroll

/-! ## the concrete melody instance: no abstract hypothesis left (C09 discharges them) -/
section Instances
open Gen

/-- the lookback encoder over `MelodyOneHotEncoding`: no abstract hypothesis left -/
theorem melody_lookback_decode_label (mn mx : Int) (hc : C09.MelCfg mn mx) (c : LookbackCfg) (hd : LegalDists c.dists)
    (evs : List Int) (p : Nat) (hp : p < evs.length) (he : C09.MelEvent mn mx evs[p]) :
    ∃ l, lbEventsToLabel (melOneHot mn mx) c evs p = .ok l ∧ 0 ≤ l ∧ l < lbNumClasses (melOneHot mn mx) c ∧
      lbClassIndexToEvent (melOneHot mn mx) c l (evs.take p) = .ok evs[p] := by
  have hv := melody_valid mn mx _ hc he
  obtain ⟨l, h1, h2⟩ := lookback_decode_label (melOneHot mn mx) c evs p hp hd hv
  obtain ⟨l', h3, h4, h5⟩ := lookback_label_in_range (melOneHot mn mx) c evs p hp hd hv
  rw [h1] at h3; injection h3 with h3; subst h3
  exact ⟨l, h1, h4, h5, h2⟩

theorem melody_lookback_generation_total (mn mx : Int) (hc : C09.MelCfg mn mx) (c : LookbackCfg)
    (hd : LegalDists c.dists) (labels : List Int)
    (hl : ∀ l ∈ labels, 0 ≤ l ∧ l < lbNumClasses (melOneHot mn mx) c) :
    ∃ out, genLoop (lbClassIndexToEvent (melOneHot mn mx) c) labels [] = .ok out ∧ out.length = labels.length ∧
      (∀ e ∈ out, C09.MelEvent mn mx e) ∧
      lbLabelsToNumSteps (melOneHot mn mx) c labels = .ok (out.length : Int) := by
  obtain ⟨out, h1, h2, h3, _⟩ := lookback_generation_loop_total (melOneHot mn mx) c hd
    (melody_decode_total mn mx hc) (melody_default_valid mn mx hc) labels hl [] (by simp)
  refine ⟨out, h1, by simpa using h2, ?_, ?_⟩
  · intro e he
    obtain ⟨i, hi, _⟩ := h3 e he
    -- an event that encodes is a melody event (C09: invalid events are rejected)
    rcases Classical.em (C09.MelEvent mn mx e) with h | h
    · exact h
    · have := C09.melody_encode_rejects mn mx e hc h
      simp only [melOneHot] at hi
      rw [this] at hi; cases hi
  · unfold lbLabelsToNumSteps; rw [h1]
    simp only [Except.map, stepsOf, melOneHot]
    congr 1
    have : ∀ l : List Int, (l.map (fun _ => (1 : Int))).sum = (l.length : Int) := by
      intro l
      induction l with
      | nil => rfl
      | cons a as ih => simp only [List.map_cons, List.sum_cons, List.length_cons]; rw [ih]; omega
    exact this out

/-! ## ModuloPerformanceEventSequenceEncoderDecoder (label side; input: size only) -/

theorem modulo_decode_label (c : ModCfg) (hc : ModCfgOk c) (evs : List (Nat × Int)) (p : Nat) (hp : p < evs.length)
    (he : ModEvent c evs[p]) :
    ∃ l, ohEventsToLabel (perfOneHot c.bins c.maxShift MIN_MIDI_PITCH MAX_MIDI_PITCH) evs p = .ok l ∧
      0 ≤ l ∧ l < ohNumClasses (perfOneHot c.bins c.maxShift MIN_MIDI_PITCH MAX_MIDI_PITCH) ∧
      ohClassIndexToEvent (perfOneHot c.bins c.maxShift MIN_MIDI_PITCH MAX_MIDI_PITCH) l (evs.take p) = .ok evs[p] := by
  have hv := modulo_valid c hc _ he
  obtain ⟨l, h1, h2⟩ := onehot_decode_label _ evs p hp hv
  obtain ⟨l', h3, h4, h5⟩ := onehot_label_in_range _ evs p hp hv
  rw [h1] at h3; injection h3 with h3; subst h3
  exact ⟨l, h1, h4, h5, h2⟩

theorem modulo_input_size_exact (c : ModCfg) (evs : List (Nat × Int)) (pos : Int) (v : List MCell)
    (h : modEventsToInput c evs pos = .ok v) : v.length = (modInputSize c).toNat := by
  unfold modEventsToInput at h
  obtain ⟨ev, _, h⟩ := bind_ok h
  obtain ⟨⟨offset, value⟩, _, h⟩ := bind_ok h
  obtain ⟨i1, h1, h⟩ := bind_ok h
  simp only [] at h
  split at h
  · obtain ⟨⟨a, b⟩, _, h⟩ := bind_ok h
    obtain ⟨i2, h2, h⟩ := bind_ok h
    obtain ⟨i3, h3, h⟩ := bind_ok h
    obtain ⟨⟨a', b'⟩, _, h⟩ := bind_ok h
    obtain ⟨i4, h4, h⟩ := bind_ok h
    rw [pySet_length h, pySet_length h4, pySet_length h3, pySet_length h2, pySet_length h1]
    simp
  · split at h
    · obtain ⟨⟨a, b⟩, _, h⟩ := bind_ok h
      obtain ⟨i2, h2, h⟩ := bind_ok h
      rw [pySet_length h, pySet_length h2, pySet_length h1]
      simp
    · obtain ⟨⟨a, b⟩, _, h⟩ := bind_ok h
      obtain ⟨i2, h2, h⟩ := bind_ok h
      rw [pySet_length h, pySet_length h2, pySet_length h1]
      simp
end Instances

open Gen

/-! ## non-vacuity: the hypotheses of the theorems above are satisfiable by non-trivial inputs, and the
conclusions are what the model computes on them -/
section Examples

example : LegalDists [2, 4] ∧ LegalDists [] ∧ LegalDists [3, 1, 3] ∧ LegalDists [1000] := by
  refine ⟨?_, ?_, ?_, ?_⟩ <;> intro d hd <;> simp at hd <;> omega

theorem ex_melcfg : C09.MelCfg 48 84 := by
  unfold C09.MelCfg C09.Gen.MIN_MIDI_PITCH C09.Gen.MAX_MIDI_PITCH; omega

/-- valid events exist: a pitch, note-off and the default event of `MelodyOneHotEncoding(48, 84)` -/
example : ValidEv (melOneHot 48 84) 60 ∧ ValidEv (melOneHot 48 84) (-1) ∧
    ValidEv (melOneHot 48 84) (melOneHot 48 84).default ∧ DecodeTotal (melOneHot 48 84) :=
  ⟨melody_valid 48 84 60 ex_melcfg (by unfold C09.MelEvent; omega),
   melody_valid 48 84 (-1) ex_melcfg (by unfold C09.MelEvent; omega),
   melody_default_valid 48 84 ex_melcfg, melody_decode_total 48 84 ex_melcfg⟩

/-- `lookback_label_precedence` / `lookback_decode_label` on `[60, -2, 60, -2]`, distances `[2, 4]`, position 2:
lookback 0 (distance 2) matches, lookback 1 does not, the label is `38 + 0` and decodes to 60 -/
example : Matches (-2 : Int) [2, 4] [60, -2, 60, -2] 2 0 := ⟨2, rfl, .inl (by decide)⟩
example : ¬ Matches (-2 : Int) [2, 4] [60, -2, 60, -2] 2 1 := by
  rintro ⟨d, hd, h⟩
  simp at hd; subst hd
  rcases h with h | ⟨_, _, h⟩
  · revert h; decide
  · simp at h
example : lbEventsToLabel (melOneHot 48 84) ⟨[2, 4], 3⟩ [60, -2, 60, -2] (2 : Nat) = .ok 38 ∧
    lbClassIndexToEvent (melOneHot 48 84) ⟨[2, 4], 3⟩ 38 [60, -2] = .ok 60 := by
  constructor <;> rfl
/-- the virtual prehistory: a default event at position 1 < 4 gets the *last* lookback label, and decodes
to the default event although the history is shorter than the distance -/
example : Matches (-2 : Int) [2, 4] [60, -2, 60, -2] 1 1 := ⟨4, rfl, .inr ⟨rfl, by decide, rfl⟩⟩
example : lbEventsToLabel (melOneHot 48 84) ⟨[2, 4], 3⟩ [60, -2, 60, -2] (1 : Nat) = .ok 39 ∧
    lbClassIndexToEvent (melOneHot 48 84) ⟨[2, 4], 3⟩ 39 [60] = .ok (-2) := by
  constructor <;> rfl
/-- unsorted distances `[3, 1]`: both match at position 3 of `[5, 0, 5, 5]`… the greater *index* (distance 1) wins -/
example : lbEventsToLabel (melOneHot 0 8) ⟨[3, 1], 0⟩ [5, 0, 5, 5] (3 : Nat) = .ok 11 := by rfl

/-- `lookback_input_blocks`: its hypotheses hold for every valid sequence (`lookback_input_blocks_total`); one
concrete layout — 4 classes, distances `[1, 2]`, 2 counter bits, position 2 of `[0, 1, 0]` -/
example : lbEventsToInput (melOneHot 0 2) ⟨[1, 2], 2⟩ [0, 1, 0] (2 : Nat)
    = .ok [0, 0, 1, 0,  0, 0, 1, 0,  0, 0, 0, 1,  1, 1,  0, 1] := by rfl

/-- `encode_aligned`: three events give two aligned pairs -/
example : ∃ ins labs, encodeG (lbEventsToInput (melOneHot 0 2) ⟨[1], 0⟩) (lbEventsToLabel (melOneHot 0 2) ⟨[1], 0⟩)
    [0, 1, 1] = .ok (ins, labs) ∧ ins.length = 2 ∧ labs = [3, 4] := ⟨_, _, rfl, rfl, rfl⟩

/-- generation loop hypotheses: in-range labels (incl. lookback labels on an empty history) -/
example : ∀ l ∈ [39, 38, 14, 1, 39], 0 ≤ l ∧ l < lbNumClasses (melOneHot 48 84) ⟨[2, 4], 3⟩ := by
  intro l hl; simp at hl; unfold lbNumClasses melOneHot C09.Gen.melNumClasses
  rcases hl with h | h | h | h | h <;> subst h <;> simp
example : genLoop (lbClassIndexToEvent (melOneHot 48 84) ⟨[2, 4], 3⟩) [39, 38, 14, 1, 39] []
    = .ok [-2, -2, 60, -1, -2] := by rfl

/-- key-melody: legal configuration (incl. the empty lookback list), events, a concrete label -/
example : KeyCfgOk ⟨48, 84, [16, 32], 7⟩ ∧ KeyCfgOk ⟨0, 128, [], 0⟩ ∧ KeyEvent ⟨48, 84, [16, 32], 7⟩ 60 ∧
    KeyEvent ⟨48, 84, [16, 32], 7⟩ (-2) := by
  unfold KeyCfgOk KeyEvent MELODY_NO_EVENT MELODY_NOTE_OFF
  refine ⟨⟨by simp, by simp, ?_⟩, ⟨by simp, by simp, by simp⟩, by simp, by simp⟩
  intro d hd; simp at hd; omega
example : keyEventsToLabel ⟨48, 84, [2, 4], 7⟩ [60, -2, 60, -1] (2 : Nat) = .ok 38 ∧
    keyClassIndexToEvent ⟨48, 84, [2, 4], 7⟩ 38 [60, -2] = .ok 60 ∧
    keyEventsToLabel ⟨48, 84, [], 7⟩ [60, -2, 60, -1] (3 : Nat) = .ok 37 := ⟨rfl, rfl, rfl⟩

/-- note-performance: the constructor succeeds for composite step counts; a valid event and its label -/
example : ∃ E, npInit ⟨32, 99, 100, 0, 127⟩ = .ok E ∧ E.numClasses = [10, 10, 128, 32, 10, 10] ∧
    npEncodeEvent E ⟨57, 60, 32, 100⟩ = [5, 7, 60, 31, 9, 9] ∧
    npClassIndexToEvent E [5, 7, 60, 31, 9, 9] = .ok ⟨57, 60, 32, 100⟩ := ⟨_, rfl, rfl, rfl, rfl⟩
example : NPCfgOk ⟨32, 99, 100, 0, 127⟩ ∧ NPValid ⟨32, 99, 100, 0, 127⟩ ⟨57, 60, 32, 100⟩ := by
  unfold NPCfgOk NPValid MAX_NUM_VELOCITY_BINS MIN_MIDI_PITCH MAX_MIDI_PITCH; simp
/-- prime step counts are outside "legal configuration": the constructor's assertion fails -/
example : npInit ⟨32, 100, 100, 0, 127⟩ = .error "AssertionError" := rfl

/-- pianoroll: a strictly increasing tuple and its label -/
example : PrEvent 8 [0, 2, 5] ∧ prEventToLabel [0, 2, 5] = 37 ∧ prClassIndexToEvent 8 37 = .ok [0, 2, 5] := by
  refine ⟨⟨by simp, by intro p hp; simp at hp; omega⟩, rfl, rfl⟩

/-- modulo-performance: legal configuration and events -/
example : ModCfgOk ⟨32, 100⟩ ∧ ModEvent ⟨32, 100⟩ (TIME_SHIFT, 100) ∧ ModEvent ⟨32, 100⟩ (NOTE_ON, 60) := by
  unfold ModCfgOk ModEvent MAX_NUM_VELOCITY_BINS C09.perfRanges
  refine ⟨by simp, ⟨⟨C09.Gen.TIME_SHIFT, 1, 100⟩, by simp, rfl, by simp, by simp⟩,
    ⟨⟨C09.Gen.NOTE_ON, MIN_MIDI_PITCH, MAX_MIDI_PITCH⟩, by simp, rfl, by simp [MIN_MIDI_PITCH], by simp [MAX_MIDI_PITCH]⟩⟩

end Examples
end NSV.C08
