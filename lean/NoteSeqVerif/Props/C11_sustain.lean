import NoteSeqVerif.Props.C14
import NoteSeqVerif.Model.C11WF
import Mathlib.Tactic.Linarith
-- THEOREMS: wf_sustain_partial no_invention_sustain_partial
/-! # C11 (b) — apply_sustain_control_changes returns a well-formed sequence and invents nothing
Corollaries of `NSV.C14.sustain_spec` (model owned by C14, imported read-only).  C14's closed form is
proved for sequences in which no two notes of one pitch on one instrument overlap (C14's quantifier);
the corollaries inherit that hypothesis and are therefore named `…_partial`; the full statements are
kept below as `def`s (they are monitored on the implementation by the C11 oracle for arbitrary
well-formed input, overlaps included). -/
namespace NSV.C11
open NSV NSV.C14

/-- full statement (no overlap hypothesis) — not proved here -/
def WfSustainFull : Prop :=
  ∀ (ctl : Int) (s r : NoteSeq), WF s → applySustain ctl s = .ok r → WF r

/-- full statement (no overlap hypothesis) — not proved here -/
def NoInventionSustainFull : Prop :=
  ∀ (ctl : Int) (s r : NoteSeq), applySustain ctl s = .ok r →
    NoInvention s.notes r.notes ∧ NoDuplication s.notes r.notes

theorem wf_sustain_partial (ctl : Int) (s r : NoteSeq) (hw : WF s) (ho : NoSamePitchOverlap s)
    (h : applySustain ctl s = .ok r) : WF r := by
  have hq : s.isQuantized = false := by
    cases hq : s.isQuantized with
    | false => rfl
    | true => rw [sustain_rejects_quantized ctl s hq] at h; cases h
  have hw14 : WellFormed s := fun nt hnt _ => (hw.notes nt hnt).2.1
  obtain ⟨T, h1, h2, _, _⟩ := sustain_spec ctl s hq hw14 ho
  obtain ⟨r', hr', hcov⟩ := sustain_total_covers ctl s hq hw14 ho (fun nt hnt => (hw.notes nt hnt).2.2)
  have e1 : r' = r := by rw [hr'] at h; exact Except.ok.inj h
  subst e1
  have e2 : r' = { s with notes := specNotes ctl s, totalTime := T } := by
    rw [h1] at hr'; exact (Except.ok.inj hr').symm
  have hnotes : r'.notes = specNotes ctl s := by rw [e2]
  have htot : r'.totalTime = T := by rw [e2]
  refine ⟨?_, by rw [htot]; exact le_trans hw.total h2, ⟨?_, ?_, ?_, ?_, ?_, ?_, ?_⟩⟩
  · intro n hn
    have hc := hcov n hn
    rw [hnotes] at hn
    simp only [specNotes, List.mem_map] at hn
    obtain ⟨m, hm, rfl⟩ := hn
    obtain ⟨h0, hse, _⟩ := hw.notes m hm
    refine ⟨h0, ?_, hc⟩
    exact le_trans hse (heldEnd_ge ctl s hw14 ho m hm)
  · rw [e2]; exact hw.events.tempos
  · rw [e2]; exact hw.events.timeSigs
  · rw [e2]; exact hw.events.keySigs
  · rw [e2]; exact hw.events.texts
  · rw [e2]; exact hw.events.ccs
  · rw [e2]; exact hw.events.bends
  · rw [e2]; exact hw.events.sectionAnns

/-- the result has the same notes in the same order; only `end_time` of a note can differ -/
theorem no_invention_sustain_partial (ctl : Int) (s r : NoteSeq) (hw : ∀ nt ∈ s.notes, nt.isDrum = false → nt.start ≤ nt.end_)
    (ho : NoSamePitchOverlap s) (h : applySustain ctl s = .ok r) :
    NoInvention s.notes r.notes ∧ NoDuplication s.notes r.notes ∧ r.notes.length = s.notes.length := by
  have hq : s.isQuantized = false := by
    cases hq : s.isQuantized with
    | false => rfl
    | true => rw [sustain_rejects_quantized ctl s hq] at h; cases h
  obtain ⟨T, h1, _⟩ := sustain_spec ctl s hq hw ho
  have e2 : r = { s with notes := specNotes ctl s, totalTime := T } := by
    rw [h1] at h; exact (Except.ok.inj h).symm
  have hnotes : r.notes = specNotes ctl s := by rw [e2]
  rw [hnotes]
  unfold specNotes
  refine ⟨?_, ?_, by simp⟩
  · apply NoInvention.map
    intro n; exact ⟨rfl, rfl, rfl, rfl, rfl, rfl, rfl, rfl⟩
  · apply NoDuplication.map
    intro n; rfl

/-! non-vacuity: C14's first example satisfies every hypothesis -/
example : WF ex1 := by
  refine ⟨?_, by simp [ex1], ⟨?_, ?_, ?_, ?_, ?_, ?_, ?_⟩⟩ <;>
    intro e he <;> simp [ex1, exNote, exCC] at he <;>
    (try (rcases he with rfl | rfl | rfl | rfl | rfl)) <;> simp [ex1, exNote, exCC] <;> norm_num

example : NoSamePitchOverlap ex1 ∧ ∃ r, applySustain 64 ex1 = .ok r := by
  refine ⟨by decide, ?_⟩
  obtain ⟨T, h, _⟩ := sustain_spec 64 ex1 (by decide) (by decide) (by decide)
  exact ⟨_, h⟩

end NSV.C11
