import NoteSeqVerif.Proofs.C17Heap
/-! C17 — object identity: histories over several objects.

Property theorems only (model: `Model/C17Heap.lean`; helper lemmas and the predicates `WF`, `Conf`,
`Priv`, `NoShare`, `AllInv`, `SOpConf`, `SOpAvoid`, `SOpOwn`: `Proofs/C17Heap.lean`).

`copy.deepcopy(a)` and `a[i:j]` return a NEW object and leave `a` alive; a history may continue on
either.  All statements are for every class semantics `Sem σ ο` (instances: `seqSem c` for
SimpleEventSequence with any pad event / Melody / DrumTrack / ChordProgression, `rollSem`
PianorollSequence, `perfSem` Performance and MetricPerformance, `nperfSem` NotePerformance), every
heap, and every list of operations of any length, interleaving calls on any of the objects. -/
namespace NSV.C17
open Gen
variable {α σ ο : Type}

/-! ## objects of one class -/

/-- an object that is never made the current one keeps its state, whatever is done to the others
and however many new objects are created -/
theorem heap_untouched (m : Sem σ ο) (ops : List (HOp ο)) (h : Heap σ) (j : Nat) (hj : j < h.objs.length)
    (hc : j ≠ h.cur) (hops : ∀ op ∈ ops, op ≠ .switch j) :
    (hrun m h ops).objs[j]? = h.objs[j]? :=
  hrun_frame m ops h j hj hc hops

/-- `b = deepcopy(a)` (or any other call that returns a new object: a slice, a strided slice):
`b` is a new object, every object that existed — `a` included — is as it was; then
(1) any history that does not go back to an old object `j` (in particular any sequence of
operations on `b` and on objects derived from `b`) leaves `j`'s state, hence everything observable
about it, unchanged — for `j = a` this is "operations on the copy do not affect the original";
(2) vice versa: going back to any old object `k` (e.g. `a`) and running any history that does not
return to `b` leaves `b` exactly the copy that was made. -/
theorem deepcopy_independent (m : Sem σ ο) (h : Heap σ) (dc : ο) (a b : σ)
    (ha : h.objs[h.cur]? = some a) (hf : m.fresh dc = true) (hs : m.step a dc = .ok b) :
    hskip m h (.op dc) = ⟨h.objs ++ [b], h.objs.length⟩ ∧
    (∀ ops j, j < h.objs.length → (∀ op ∈ ops, op ≠ .switch j) →
      (hrun m (hskip m h (.op dc)) ops).objs[j]? = h.objs[j]?) ∧
    (∀ ops k, k < h.objs.length → (∀ op ∈ ops, op ≠ .switch h.objs.length) →
      (hrun m (hskip m (hskip m h (.op dc)) (.switch k)) ops).objs[h.objs.length]? = some b) := by
  have e : hskip m h (.op dc) = ⟨h.objs ++ [b], h.objs.length⟩ := by simp [hskip, ha, hf, hs]
  refine ⟨e, ?_, ?_⟩
  · intro ops j hj hops
    rw [e, hrun_frame m ops _ j (by simp; omega) (by simp; omega) hops]
    exact List.getElem?_append_left hj
  · intro ops k hk hops
    have e2 : hskip m ⟨h.objs ++ [b], h.objs.length⟩ (.switch k) = ⟨h.objs ++ [b], k⟩ := by
      simp only [hskip, List.length_append, List.length_singleton]
      rw [if_pos (by omega)]
    rw [e, e2, hrun_frame m ops _ h.objs.length (by simp) (by simp; omega) hops]
    simp

/-- a melody, its deepcopy, an edit of the copy, back to the original, an edit of the original:
neither edit shows in the other object -/
example : (hrun (seqSem melodyCls) ⟨[⟨[60, -2], 4, 6, 16, 4⟩], 0⟩
      [.op .deepcopy, .op (.append 62), .op (.setLength 1 true), .switch 0, .op (.append (-1))]).objs.map Seq.events
    = [[60, -2, -1], [62]] := by decide

/-- the hypotheses of `deepcopy_independent` hold in every class: deepcopy (and, where it exists,
slicing) returns a new object, and on a consistent object deepcopy succeeds and yields an equal
object (Melody: up to the cleaning of leading NOTE_OFFs done by its constructor) -/
theorem deepcopy_independent_classes :
    (∀ (c : Cls α), (seqSem c).fresh .deepcopy = true ∧
      (∀ i j, (seqSem c).fresh (.slice i j) = true) ∧ (∀ i j k, (seqSem c).fresh (.sliceStep i j k) = true)) ∧
    (∀ (c : Cls α) (a : Seq α), Lawful c → Inv c a → ∃ b, (seqSem c).step a .deepcopy = .ok b ∧ Inv c b ∧
      b.events = c.clean a.events ∧ b.start = a.start ∧ b.stop = a.stop ∧ b.spb = a.spb ∧ b.spq = a.spq) ∧
    (rollSem.fresh .deepcopy = true ∧ ∀ r, rollSem.step r .deepcopy = .ok r) ∧
    (perfSem.fresh .deepcopy = true ∧ ∀ p, perfSem.step p .deepcopy = .ok p) ∧
    (nperfSem.fresh .deepcopy = true ∧ ∀ p, nperfSem.step p .deepcopy = .ok p) := by
  refine ⟨fun c => ⟨rfl, fun _ _ => rfl, fun _ _ _ => rfl⟩, ?_, ⟨rfl, fun _ => rfl⟩, ⟨rfl, fun _ => rfl⟩, ⟨rfl, fun _ => rfl⟩⟩
  intro c a hc hi
  have hv := fromEventList_of_valid c a.events a.start a.spb a.spq hi.2
  refine ⟨_, hv, fromEventList_inv c hc _ _ _ _ _ hv, rfl, rfl, ?_, rfl, rfl⟩
  have := hi.1
  simp only [hc.clean_length]
  omega

/-- the invariant of the property holds for EVERY object of the heap after any interleaved history
(SimpleEventSequence, Melody, DrumTrack, ChordProgression) -/
theorem heap_inv_reachable (c : Cls α) (hc : Lawful c) (ops : List (HOp (Op α))) (h : Heap (Seq α))
    (hall : ∀ s ∈ h.objs, Inv c s) (hok : ∀ o, HOp.op o ∈ ops → OpOk c o) :
    ∀ s ∈ (hrun (seqSem c) h ops).objs, Inv c s := by
  refine hrun_all (seqSem c) (Inv c) (OpOk c) ?_ ?_ ops h hall hok
  · intro s o hi ho
    show Inv c (stepSkip c s o)
    unfold stepSkip
    cases hs : step c s o with
    | ok s' => exact step_inv c hc s s' o hi ho hs
    | error e => exact hi
  · intro s o s' hi ho hs
    exact step_inv c hc s s' o hi ho hs

example : ∀ s ∈ (hrun (seqSem (simpleCls (0 : Int))) ⟨[⟨[1, 2, 3], 4, 7, 16, 4⟩], 0⟩
    [.op (.slice (some (-2)) none), .op (.setLength 4 true), .switch 0, .op (.sliceStep none none (-1)), .op .deepcopy]).objs,
    s.stop - s.start = (s.events.length : Int) := by decide

/-- every event of every Melody object of the heap stays within -2..127 -/
theorem melody_heap_in_range (ops : List (HOp (Op Int))) (h : Heap (Seq Int))
    (hall : ∀ s ∈ h.objs, Inv melodyCls s) (hok : ∀ o, HOp.op o ∈ ops → OpOk melodyCls o) :
    ∀ s ∈ (hrun (seqSem melodyCls) h ops).objs, ∀ e ∈ s.events, -2 ≤ e ∧ e ≤ 127 :=
  fun s hs => melody_events_in_range s (heap_inv_reachable melodyCls melody_lawful ops h hall hok s hs)

/-- Performance / MetricPerformance: every object of the heap keeps the validator's guarantee and
its `max_shift_steps ≥ 1` -/
theorem perf_heap_inv_reachable (ops : List (HOp POp)) (h : Heap Perf)
    (hall : ∀ p ∈ h.objs, PInv p) (hok : ∀ o, HOp.op o ∈ ops → POpOk o) :
    ∀ p ∈ (hrun perfSem h ops).objs, PInv p := by
  refine hrun_all perfSem PInv POpOk ?_ ?_ ops h hall hok
  · intro p o hi ho; exact (perf_stepSkip_inv p o hi ho).1
  · intro p o p' hi ho hs; exact (perf_inv_step' p p' o hi ho hs).1

example : ((hrun perfSem ⟨[⟨[⟨1, 60⟩, ⟨3, 2⟩], 7, 3⟩], 0⟩
    [.op .deepcopy, .op (.setLength 7 false), .switch 0, .op (.trimSteps 1)]).objs.map Perf.numSteps) = [1, 7] := by decide

/-! ## lead sheets: references to a Melody and a ChordProgression object -/

/-- references never dangle -/
theorem store_wf_reachable (ops : List SOp) (st : LStore) (hw : WF st) : WF (srun st ops) := by
  induction ops generalizing st with
  | nil => exact hw
  | cons op ops ih => simp only [srun, List.foldl_cons]; exact ih _ (sskip_wf st op hw)

theorem single_wf (l : LeadSheet) : WF (LStore.single l) := by
  refine ⟨by simp [LStore.single], ?_⟩
  intro k mi ci hk
  cases k with
  | zero => simp [LStore.single] at hk; simp [LStore.single, ← hk.1, ← hk.2]
  | succ k => simp [LStore.single] at hk

/-- a deep-copied lead sheet is private: after `deepcopy` and a switch back to any older lead sheet
`k`, no other lead sheet holds the copy's Melody or ChordProgression object -/
theorem lead_copy_is_private (st : LStore) (hw : WF st) (a b : LeadSheet)
    (ha : st.view st.cur = some a) (hd : lstep a .deepcopy = .ok b) (k : Nat) (hk : k < st.leads.length) :
    sskip st (.lead .deepcopy) = st.apply (.alloc b) ∧
    sskip (st.apply (.alloc b)) (.switch k) = { st.apply (.alloc b) with cur := k } ∧
    Priv st.leads.length st.mels.length st.chds.length (sskip (sskip st (.lead .deepcopy)) (.switch k)) := by
  have e : sskip st (.lead .deepcopy) = st.apply (.alloc b) := by
    simp only [sskip, effect, ha, hd, lopFresh, if_true]
  have hwf1 : WF (st.apply (.alloc b)) := apply_wf st _ hw trivial
  have hlead : (st.apply (.alloc b)).leads[st.leads.length]? = some (st.mels.length, st.chds.length) := by
    simp [LStore.apply]
  have hsw : sskip (st.apply (.alloc b)) (.switch k) = { st.apply (.alloc b) with cur := k } := by
    simp only [sskip, effect, LStore.apply, List.length_append, List.length_singleton]
    rw [if_pos (by omega)]
  refine ⟨e, hsw, ?_⟩
  rw [e, hsw]
  refine ⟨⟨by simp [LStore.apply]; omega, hwf1.2⟩, by simp; omega, hlead, ?_⟩
  intro j mi ci hj hjr
  simp only [LStore.apply] at hjr
  rcases getElem?_snoc _ _ _ _ hjr with hjr | ⟨hj', _⟩
  · have := hw.2 j mi ci hjr; omega
  · exact (hj hj').elim

/-- the hypotheses are satisfiable: a store with one lead sheet, its deepcopy -/
example : WF (LStore.single ⟨⟨[60], 0, 1, 16, 4⟩, ⟨["C"], 0, 1, 16, 4⟩⟩) ∧
    (LStore.single ⟨⟨[60], 0, 1, 16, 4⟩, ⟨["C"], 0, 1, 16, 4⟩⟩).view 0 = some ⟨⟨[60], 0, 1, 16, 4⟩, ⟨["C"], 0, 1, 16, 4⟩⟩ ∧
    lstep ⟨⟨[60], 0, 1, 16, 4⟩, ⟨["C"], 0, 1, 16, 4⟩⟩ .deepcopy = .ok ⟨⟨[60], 0, 1, 16, 4⟩, ⟨["C"], 0, 1, 16, 4⟩⟩ :=
  ⟨single_wf _, rfl, rfl⟩

/-- `b = deepcopy(a)` for lead sheets: `b` holds a new Melody and a new ChordProgression object,
so it shares nothing with `a`, with the Melody / ChordProgression objects `a` was built from, or
with any other lead sheet built from them.
(1) Any history confined to `b` and to objects created after it (`SOpConf`: no switch to, and no
`LeadSheet(x.melody, y.chords)` from, an older lead sheet; calls on `b`'s own melody / chords
objects from outside are allowed) leaves EVERY older Melody object, ChordProgression object and
lead sheet exactly as it was.
(2) Vice versa, going back to any older lead sheet `k` and running any history that avoids `b`
(`SOpAvoid`: no switch to `b`, no new lead sheet built from `b`'s parts) — including direct calls
on the older melody / chords objects and lead sheets sharing them — leaves `b` exactly the copy
that was made. -/
theorem lead_deepcopy_independent (st : LStore) (hw : WF st) (a b : LeadSheet)
    (ha : st.view st.cur = some a) (hd : lstep a .deepcopy = .ok b) :
    sskip st (.lead .deepcopy) = st.apply (.alloc b) ∧
    (sskip st (.lead .deepcopy)).view st.leads.length = some b ∧
    (∀ ops, (∀ op ∈ ops, SOpConf st.leads.length op) →
      (∀ i, i < st.mels.length → (srun (sskip st (.lead .deepcopy)) ops).mels[i]? = st.mels[i]?) ∧
      (∀ i, i < st.chds.length → (srun (sskip st (.lead .deepcopy)) ops).chds[i]? = st.chds[i]?) ∧
      (∀ k, k < st.leads.length → (srun (sskip st (.lead .deepcopy)) ops).leads[k]? = st.leads[k]? ∧
        (srun (sskip st (.lead .deepcopy)) ops).view k = st.view k)) ∧
    (∀ ops k, k < st.leads.length → (∀ op ∈ ops, SOpAvoid st.leads.length op) →
      (srun (sskip (sskip st (.lead .deepcopy)) (.switch k)) ops).view st.leads.length = some b) := by
  have e : sskip st (.lead .deepcopy) = st.apply (.alloc b) := by
    simp only [sskip, effect, ha, hd, lopFresh, if_true]
  have hwf1 : WF (st.apply (.alloc b)) := apply_wf st _ hw trivial
  have hv : (st.apply (.alloc b)).view st.leads.length = some b := by
    simp [LStore.apply, LStore.view]
  have hlead : (st.apply (.alloc b)).leads[st.leads.length]? = some (st.mels.length, st.chds.length) := by
    simp [LStore.apply]
  refine ⟨e, e ▸ hv, ?_, ?_⟩
  · intro ops hops
    have hconf : Conf st.leads.length st.mels.length st.chds.length (st.apply (.alloc b)) := by
      refine ⟨hwf1, by simp [LStore.apply], by simp [LStore.apply], by simp [LStore.apply], by simp [LStore.apply], ?_⟩
      intro k mi ci hk hkr
      simp only [LStore.apply] at hkr
      rcases getElem?_snoc _ _ _ _ hkr with hkr | ⟨_, hkr⟩
      · have := getElem?_lt _ _ _ hkr; omega
      · cases hkr; exact ⟨Nat.le_refl _, Nat.le_refl _⟩
    obtain ⟨_, m1, c1, l1⟩ := srun_conf _ _ _ ops _ hconf hops
    rw [e]
    have m2 : ∀ i, i < st.mels.length → (srun (st.apply (.alloc b)) ops).mels[i]? = st.mels[i]? := fun i hi => by
      rw [m1 i hi]; exact List.getElem?_append_left hi
    have c2 : ∀ i, i < st.chds.length → (srun (st.apply (.alloc b)) ops).chds[i]? = st.chds[i]? := fun i hi => by
      rw [c1 i hi]; exact List.getElem?_append_left hi
    have l2 : ∀ k, k < st.leads.length → (srun (st.apply (.alloc b)) ops).leads[k]? = st.leads[k]? := fun k hk => by
      rw [l1 k hk]; exact List.getElem?_append_left hk
    refine ⟨m2, c2, fun k hk => ⟨l2 k hk, ?_⟩⟩
    cases hr : st.leads[k]? with
    | none => rw [List.getElem?_eq_none_iff] at hr; omega
    | some r =>
      obtain ⟨mi, ci⟩ := r
      obtain ⟨b1, b2⟩ := hw.2 k mi ci hr
      exact view_congr st _ k mi ci hr ((l2 k hk).trans hr) (m2 mi b1) (c2 ci b2)
  · intro ops k hk hops
    obtain ⟨_, hsw, hpriv⟩ := lead_copy_is_private st hw a b ha hd k hk
    rw [e, hsw] at hpriv
    obtain ⟨hp, m1, c1⟩ := srun_priv _ _ _ ops _ hpriv hops
    rw [e, hsw]
    rw [view_congr (st.apply (.alloc b)) _ st.leads.length st.mels.length st.chds.length hlead hp.2.2.1 m1 c1]
    exact hv

/-- the general form of (2): a lead sheet whose two objects no other lead sheet holds is not
affected by anything done elsewhere -/
theorem lead_private_untouched (b bm bc : Nat) (ops : List SOp) (st : LStore) (h : Priv b bm bc st)
    (hops : ∀ op ∈ ops, SOpAvoid b op) : (srun st ops).view b = st.view b := by
  obtain ⟨hp, m1, c1⟩ := srun_priv b bm bc ops st h hops
  exact view_congr st _ b bm bc h.2.2.1 hp.2.2.1 m1 c1

/-- `Priv` is what `lead_copy_is_private` establishes for a deep-copied lead sheet -/
example : Priv 1 1 1 (sskip (sskip (LStore.single ⟨⟨[60], 0, 1, 16, 4⟩, ⟨["C"], 0, 1, 16, 4⟩⟩) (.lead .deepcopy)) (.switch 0)) :=
  (lead_copy_is_private _ (single_wf _) _ _ rfl rfl 0 (by decide)).2.2

/-- deepcopy versus the constructor: `LeadSheet(l.melody, l.chords)` shares both objects with `l`
(an append through the new lead sheet shows in `l`), `deepcopy(l)` shares nothing (it does not);
and a call on the shared Melody object from outside desynchronises every lead sheet holding it -/
example : ((srun (LStore.single ⟨⟨[60], 0, 1, 16, 4⟩, ⟨["C"], 0, 1, 16, 4⟩⟩)
      [.share 0 0, .lead (.append 62 "G")]).view 0).map LeadSheet.iter = some [(60, "C"), (62, "G")] ∧
    ((srun (LStore.single ⟨⟨[60], 0, 1, 16, 4⟩, ⟨["C"], 0, 1, 16, 4⟩⟩)
      [.lead .deepcopy, .lead (.append 62 "G")]).view 0).map LeadSheet.iter = some [(60, "C")] ∧
    ((srun (LStore.single ⟨⟨[60], 0, 1, 16, 4⟩, ⟨["C"], 0, 1, 16, 4⟩⟩)
      [.lead .deepcopy, .lead (.append 62 "G")]).view 1).map LeadSheet.iter = some [(60, "C"), (62, "G")] ∧
    ((srun (LStore.single ⟨⟨[60], 0, 1, 16, 4⟩, ⟨["C"], 0, 1, 16, 4⟩⟩)
      [.share 0 0, .melody (.append 64)]).view 0).map (fun l => (l.len, l.iter.length)) = some (2, 1) := by
  decide

/-- every lead sheet of the store is consistent (melody and chords individually consistent and in
agreement, melody events within -2..127) after any interleaved history of LeadSheet's own methods
— append, set_length, both kinds of slice, increase_resolution, deepcopy, construction, `_reset` —
on any of the lead sheets, as long as no two lead sheets hold the same object (which these
operations never bring about) -/
theorem lead_store_inv_reachable (ops : List SOp) (st : LStore) (h : AllInv st) (hops : ∀ op ∈ ops, SOpOwn op) :
    AllInv (srun st ops) ∧
    ∀ k l, (srun st ops).view k = some l → LInv l ∧ ∀ e ∈ l.melody.events, -2 ≤ e ∧ e ≤ 127 := by
  have hr := srun_allinv ops st h hops
  exact ⟨hr, fun k l hv => ⟨hr.2.2 k l hv, melody_events_in_range _ (hr.2.2 k l hv).1⟩⟩

/-- a store with one consistent lead sheet is such a starting point -/
example (l : LeadSheet) (hl : LInv l) : AllInv (LStore.single l) := by
  refine ⟨⟨by simp [LStore.single], ?_⟩, ?_, ?_⟩
  · intro k mi ci hk
    cases k with
    | zero => simp [LStore.single] at hk; simp [LStore.single, ← hk.1, ← hk.2]
    | succ k => simp [LStore.single] at hk
  · intro k k' mi ci mi' ci' hne hk hk'
    cases k <;> cases k' <;> simp [LStore.single] at hk hk' hne
  · intro k l' hv
    cases k with
    | zero =>
      simp [LStore.single, LStore.view] at hv
      rw [← hv]; exact hl
    | succ k => simp [LStore.single, LStore.view] at hv

end NSV.C17
