import NoteSeqVerif.Proofs.C12
import NoteSeqVerif.Proofs.C12CRoll
/-! C12 — frame pianoroll rendering (`sequence_to_pianoroll` = `C18.encode`) does not depend on the storage
order of notes and control changes.

The code walks `sorted(sequence.notes, key=start_time)` and `sorted(sequence.control_changes, key=time)` (stable),
so elements with EQUAL keys are processed in storage order.  Notes of different pitches (or out of the pitch range)
write different columns of every roll and commute; two in-range notes of one pitch with the same start time do not
(`pianoroll_same_pitch_tie_depends_on_order`).  Control changes that address different columns of the control-change
roll commute; two of one controller number at one time do not (`pianoroll_cc_tie_depends_on_order`).

The result is IDENTICAL (all seven rolls, or the same exception) — not merely equal as a multiset.  The one
order-dependent thing that the tie hypotheses do not exclude is the KIND of exception when `max_velocity = 0`:
a note with `velocity > 0` raises ValueError, a note with `velocity ≤ 0` ZeroDivisionError, and which of two such
notes with one start time comes first is storage order (`pianoroll_error_kind_depends_on_order`); with
`max_velocity ≠ 0` every exception of the note loop is a ValueError.  `pianoroll_perm_any_max_velocity` is the statement
without that hypothesis: identical rolls, or an exception for both orders. -/
namespace NSV.C12
open NSV NSV.C18

/-! ## the tie hypotheses -/

/-- no two notes inside `[min_pitch, max_pitch]` of one PITCH share a start time -/
def NoteTieFree (c : Cfg) (notes : List PNote) : Prop :=
  notes.Pairwise (fun a b => a.start = b.start → ¬ outOfRange c a → ¬ outOfRange c b → a.pitch ≠ b.pitch)

instance (c : Cfg) (notes : List PNote) : Decidable (NoteTieFree c notes) := by
  unfold NoteTieFree; infer_instance

/-- no two control changes that address one column of the control-change roll share a time.  (The column is the
controller number, a negative number `-128..-1` wrapping like a numpy index; for MIDI controller numbers `0..127`
this reads "no two control changes of one controller number share a time": `ccTieFree_of_midi`.) -/
def CCTieFree (ccs : List PCC) : Prop :=
  ccs.Pairwise (fun a b => a.time = b.time → a.number % 128 ≠ b.number % 128)

instance (ccs : List PCC) : Decidable (CCTieFree ccs) := by
  unfold CCTieFree; infer_instance

/-- the tie hypothesis on the notes is a property of the multiset -/
theorem NoteTieFree.perm {c : Cfg} {notes notes' : List PNote} (h : notes.Perm notes') (ht : NoteTieFree c notes) :
    NoteTieFree c notes' :=
  h.pairwise ht (fun hxy e hy hx => (hxy e.symm hx hy).symm)

/-- the tie hypothesis on the control changes is a property of the multiset -/
theorem CCTieFree.perm {ccs ccs' : List PCC} (h : ccs.Perm ccs') (ht : CCTieFree ccs) : CCTieFree ccs' :=
  h.pairwise ht (fun hxy e => (hxy e.symm).symm)

/-- for MIDI controller numbers the control-change hypothesis is: one controller number, one time, at most once -/
theorem ccTieFree_of_midi (ccs : List PCC) (hr : ∀ cc ∈ ccs, 0 ≤ cc.number ∧ cc.number < 128)
    (h : ccs.Pairwise (fun a b => a.time = b.time → a.number ≠ b.number)) : CCTieFree ccs := by
  unfold CCTieFree
  induction ccs with
  | nil => exact List.Pairwise.nil
  | cons a l ih =>
    have hp := List.pairwise_cons.mp h
    refine List.pairwise_cons.mpr ⟨?_, ih (fun x hx => hr x (List.mem_cons_of_mem _ hx)) hp.2⟩
    intro b hb e
    have h1 := hr a (by simp)
    have h2 := hr b (List.mem_cons_of_mem _ hb)
    have h3 := hp.1 b hb e
    omega

/-- the quantifier of C12 ("no two same-pitch notes overlap or coincide") implies the note hypothesis:
two notes of one pitch that share a start time coincide or overlap -/
theorem noteTieFree_of_distinct_starts (c : Cfg) (notes : List PNote)
    (h : notes.Pairwise (fun a b => a.pitch = b.pitch → a.start ≠ b.start)) : NoteTieFree c notes :=
  h.imp (fun hab e _ _ hp => hab hp e)

/-! ## the two loops -/

theorem encNotes_sorted_perm (R R32 : Rat → Rat) (eps : Rat) (c : Cfg) (total : Rat) (n : Nat)
    {notes notes' : List PNote} (hp : notes.Perm notes') (ht : NoteTieFree c notes) (st : Rolls) :
    (sortByStart notes).foldl (stepFn R R32 eps c total n) st =
      (sortByStart notes').foldl (stepFn R R32 eps c total n) st := by
  have hP : (sortByStart notes).Perm (sortByStart notes') :=
    ((sortBy_perm _ notes).trans hp).trans (sortBy_perm _ notes').symm
  refine foldl_sorted_perm (stepFn R R32 eps c total n) (·.start)
    (fun a b => outOfRange c a ∨ outOfRange c b ∨ a.pitch ≠ b.pitch)
    (fun a b h s => stepFn_comm R R32 eps c total n a b h s) _ _ hP (sortBy_sorted _ _) (sortBy_sorted _ _) ?_ st
  have ht' : NoteTieFree c (sortByStart notes) := NoteTieFree.perm (sortBy_perm _ notes).symm ht
  refine List.Pairwise.imp ?_ ht'
  intro a b hab e
  by_cases ha : outOfRange c a
  · exact Or.inl ha
  · by_cases hb : outOfRange c b
    · exact Or.inr (Or.inl hb)
    · exact Or.inr (Or.inr (hab e ha hb))

/-- the note loop: same exception or identical rolls -/
theorem encNotes_perm (R R32 : Rat → Rat) (eps : Rat) (c : Cfg) (total : Rat) (n : Nat)
    {notes notes' : List PNote} (hp : notes.Perm notes') (hmv : c.maxVelocity ≠ 0) (ht : NoteTieFree c notes)
    (st : Rolls) :
    encNotes R R32 eps c total n st (sortByStart notes) = encNotes R R32 eps c total n st (sortByStart notes') := by
  have hP : (sortByStart notes).Perm (sortByStart notes') :=
    ((sortBy_perm _ notes).trans hp).trans (sortBy_perm _ notes').symm
  rw [encNotes_eq, encNotes_eq,
    findSome?_const _ C18.Err.valueError (sortByStart notes) (fun x _ e he => stepErr_valueError hmv he),
    findSome?_const _ C18.Err.valueError (sortByStart notes') (fun x _ e he => stepErr_valueError hmv he),
    hP.any_eq, encNotes_sorted_perm R R32 eps c total n hp ht st]

/-- the control-change loop: same exception or identical roll -/
theorem encCCs_perm (R : Rat → Rat) (eps : Rat) (c : Cfg) (n : Nat) {ccs ccs' : List PCC} (hp : ccs.Perm ccs')
    (ht : CCTieFree ccs) (m : List (List Int)) :
    encCCs R eps c n m (sortCCs ccs) = encCCs R eps c n m (sortCCs ccs') := by
  have hP : (sortCCs ccs).Perm (sortCCs ccs') :=
    ((sortBy_perm _ ccs).trans hp).trans (sortBy_perm _ ccs').symm
  rw [encCCs_eq, encCCs_eq,
    findSome?_const _ C18.Err.indexError (sortCCs ccs) (fun x _ e he => ccErr_indexError he),
    findSome?_const _ C18.Err.indexError (sortCCs ccs') (fun x _ e he => ccErr_indexError he),
    hP.any_eq]
  have hf : (sortCCs ccs).foldl (ccFn R eps c n) m = (sortCCs ccs').foldl (ccFn R eps c n) m := by
    refine foldl_sorted_perm (ccFn R eps c n) (·.time) (fun a b => a.number % 128 ≠ b.number % 128)
      (fun a b h s => ccFn_comm R eps c n a b h s) _ _ hP (sortBy_sorted _ _) (sortBy_sorted _ _) ?_ m
    exact CCTieFree.perm (sortBy_perm _ ccs).symm ht
  rw [hf]

/-! ## `sequence_to_pianoroll` -/

/-- **Pianoroll rendering does not depend on storage order.**  For every rounding, every configuration with
`max_velocity ≠ 0` (all onset modes, delays, occupancy thresholds, with or without the blank frame and overlapping
onsets), every total time: if the notes are stored in another order and the control changes are stored in another
order, and no two in-range notes of one pitch share a start time and no two control changes of one column share a
time, then `sequence_to_pianoroll` raises the same exception or returns IDENTICAL rolls — all seven (active,
weights, onsets, onset velocities, active velocities, offsets, control changes). -/
theorem pianoroll_perm (R R32 : Rat → Rat) (eps : Rat) (c : Cfg) (total : Rat) {notes notes' : List PNote}
    {ccs ccs' : List PCC} (hn : notes.Perm notes') (hc : ccs.Perm ccs') (hmv : c.maxVelocity ≠ 0)
    (htn : NoteTieFree c notes) (htc : CCTieFree ccs) :
    encode R R32 eps c total notes ccs = encode R R32 eps c total notes' ccs' := by
  unfold encode
  simp only []
  rw [encNotes_perm R R32 eps c total _ hn hmv htn, encCCs_perm R eps c _ hc htc]

/-- agreement up to the kind of exception -/
def SameUpToErrorKind {α} (r r' : Except C18.Err α) : Prop :=
  match r, r' with
  | .ok a, .ok b => a = b
  | .error _, .error _ => True
  | _, _ => False

/-- The same without `max_velocity ≠ 0`: identical rolls, or an exception for both storage orders (for
`max_velocity = 0` not necessarily of the same kind: `pianoroll_error_kind_depends_on_order`). -/
theorem pianoroll_perm_any_max_velocity (R R32 : Rat → Rat) (eps : Rat) (c : Cfg) (total : Rat)
    {notes notes' : List PNote} {ccs ccs' : List PCC} (hn : notes.Perm notes') (hc : ccs.Perm ccs')
    (htn : NoteTieFree c notes) (htc : CCTieFree ccs) :
    SameUpToErrorKind (encode R R32 eps c total notes ccs) (encode R R32 eps c total notes' ccs') := by
  have hP : (sortByStart notes).Perm (sortByStart notes') :=
    ((sortBy_perm _ notes).trans hn).trans (sortBy_perm _ notes').symm
  unfold encode
  simp only []
  split
  · trivial
  · rw [encCCs_perm R eps c _ hc htc, encNotes_eq, encNotes_eq, encNotes_sorted_perm R R32 eps c total _ hn htn]
    cases h1 : (sortByStart notes).findSome? (stepErr R eps c total (numRows R c.fps total).toNat) with
    | some e =>
      obtain ⟨x, hx, hxe⟩ := List.exists_of_findSome?_eq_some h1
      cases h2 : (sortByStart notes').findSome? (stepErr R eps c total (numRows R c.fps total).toNat) with
      | some e' => trivial
      | none =>
        have := List.findSome?_eq_none_iff.mp h2 x (hP.subset hx)
        rw [this] at hxe; cases hxe
    | none =>
      cases h2 : (sortByStart notes').findSome? (stepErr R eps c total (numRows R c.fps total).toNat) with
      | some e' =>
        obtain ⟨x, hx, hxe⟩ := List.exists_of_findSome?_eq_some h2
        have := List.findSome?_eq_none_iff.mp h1 x (hP.symm.subset hx)
        rw [this] at hxe; cases hxe
      | none =>
        simp only []
        cases encCCs R eps c (numRows R c.fps total).toNat
          (List.replicate (numRows R c.fps total).toNat (List.replicate 128 0)) (sortCCs ccs') with
        | error e => trivial
        | ok m => rfl

/-! ### stated on NoteSequences -/

/-- what `sequence_to_pianoroll` reads of a note / a control change -/
def rollNotes (s : NoteSeq) : List PNote := s.notes.map (fun n => ⟨n.pitch, n.velocity, n.start, n.end_⟩)
def rollCCs (s : NoteSeq) : List PCC := s.ccs.map (fun cc => ⟨cc.time, cc.number, cc.value⟩)

/-- the decidable tie condition of a NoteSequence for a pitch range -/
def RollTieFree (c : Cfg) (s : NoteSeq) : Prop := NoteTieFree c (rollNotes s) ∧ CCTieFree (rollCCs s)

instance (c : Cfg) (s : NoteSeq) : Decidable (RollTieFree c s) := by unfold RollTieFree; infer_instance

/-- the tie condition does not depend on the storage order -/
theorem RollTieFree.perm {c : Cfg} {s s' : NoteSeq} (h : NSPerm s s') (ht : RollTieFree c s) : RollTieFree c s' :=
  ⟨NoteTieFree.perm (h.notes.map _) ht.1, CCTieFree.perm (h.ccs.map _) ht.2⟩

/-- `sequence_to_pianoroll` of two storage orders of one NoteSequence: same exception or identical rolls -/
theorem pianoroll_nsperm (R R32 : Rat → Rat) (eps : Rat) (c : Cfg) {s s' : NoteSeq} (h : NSPerm s s')
    (hmv : c.maxVelocity ≠ 0) (ht : RollTieFree c s) :
    encode R R32 eps c s.totalTime (rollNotes s) (rollCCs s) =
      encode R R32 eps c s'.totalTime (rollNotes s') (rollCCs s') := by
  rw [← h.totalTime]
  exact pianoroll_perm R R32 eps c s.totalTime (h.notes.map _) (h.ccs.map _) hmv ht.1 ht.2

/-! ## the hypotheses cannot be dropped; non-vacuity -/

def exCfg : Cfg :=
  { fps := 4, minPitch := 60, maxPitch := 62, maxVelocity := 127, blank := true, upweight := 5, window := 1,
    onsetLenMs := 0, offsetLenMs := 0, mode := 0, delayMs := 0, occ := 0, overlap := true }

def velsOf (r : Except C18.Err Pianoroll) : List (List Rat) :=
  match r with | .ok pr => pr.activeVelocities | .error _ => []
def ccOf (r : Except C18.Err Pianoroll) : List (List Int) :=
  match r with | .ok pr => pr.controlChanges.map (·.take 2) | .error _ => []
def errOf (r : Except C18.Err Pianoroll) : String :=
  match r with | .ok _ => "ok" | .error e => e.name

/-- Two notes of ONE pitch with one start time and different velocities: the velocity roll keeps the velocity of
the note stored last, so the result depends on the storage order — the note hypothesis cannot be dropped. -/
theorem pianoroll_same_pitch_tie_depends_on_order :
    velsOf (encode id id 0 exCfg (1 / 2) [⟨60, 100, 0, 1 / 4⟩, ⟨60, 50, 0, 1 / 2⟩] []) ≠
      velsOf (encode id id 0 exCfg (1 / 2) [⟨60, 50, 0, 1 / 2⟩, ⟨60, 100, 0, 1 / 4⟩] []) ∧
    ¬ NoteTieFree exCfg [⟨60, 100, 0, 1 / 4⟩, ⟨60, 50, 0, 1 / 2⟩] := by
  refine ⟨by decide +kernel, by decide +kernel⟩

/-- Two control changes of one controller number at one time: the roll keeps the value stored last — the
control-change hypothesis cannot be dropped. -/
theorem pianoroll_cc_tie_depends_on_order :
    ccOf (encode id id 0 exCfg (1 / 4) [] [⟨0, 1, 10⟩, ⟨0, 1, 20⟩]) ≠
      ccOf (encode id id 0 exCfg (1 / 4) [] [⟨0, 1, 20⟩, ⟨0, 1, 10⟩]) ∧
    ¬ CCTieFree [⟨0, 1, 10⟩, ⟨0, 1, 20⟩] := by
  refine ⟨by decide +kernel, by decide +kernel⟩

/-- `max_velocity = 0`: two notes of DIFFERENT pitches with one start time, one with velocity 1 (ValueError), one
with velocity 0 (ZeroDivisionError) — the kind of exception is that of the note stored first, although the
sequence satisfies both tie hypotheses (and the quantifier of C12). -/
theorem pianoroll_error_kind_depends_on_order :
    errOf (encode id id 0 { exCfg with maxVelocity := 0 } (1 / 2) [⟨60, 1, 0, 1 / 4⟩, ⟨61, 0, 0, 1 / 4⟩] []) = "ValueError" ∧
    errOf (encode id id 0 { exCfg with maxVelocity := 0 } (1 / 2) [⟨61, 0, 0, 1 / 4⟩, ⟨60, 1, 0, 1 / 4⟩] []) = "ZeroDivisionError" ∧
    NoteTieFree { exCfg with maxVelocity := 0 } [⟨60, 1, 0, 1 / 4⟩, ⟨61, 0, 0, 1 / 4⟩] := by
  refine ⟨by decide +kernel, by decide +kernel, by decide +kernel⟩

/-- non-vacuity of `pianoroll_perm`: three in-range notes of which two DIFFERENT pitches share the start time 0 (so
the two storage orders are walked in different orders), one out-of-range note with that start time too, two
control changes at one time on different controllers; the hypotheses hold and the result is a roll -/
example :
    let notes : List PNote := [⟨60, 100, 0, 1 / 4⟩, ⟨62, 50, 0, 1 / 2⟩, ⟨90, 1, 0, 1⟩, ⟨60, 30, 1 / 4, 1 / 2⟩]
    let notes' : List PNote := [⟨60, 30, 1 / 4, 1 / 2⟩, ⟨90, 1, 0, 1⟩, ⟨62, 50, 0, 1 / 2⟩, ⟨60, 100, 0, 1 / 4⟩]
    let ccs : List PCC := [⟨0, 64, 127⟩, ⟨0, 1, 20⟩]
    notes.Perm notes' ∧ ccs.Perm ccs.reverse ∧ NoteTieFree exCfg notes ∧ CCTieFree ccs ∧
      sortByStart notes ≠ sortByStart notes' ∧
      errOf (encode id id 0 exCfg (1 / 2) notes ccs) = "ok" ∧
      velsOf (encode id id 0 exCfg (1 / 2) notes ccs) = velsOf (encode id id 0 exCfg (1 / 2) notes' ccs.reverse) := by
  refine ⟨by decide +kernel, by decide +kernel, by decide +kernel, by decide +kernel, by decide +kernel, by decide +kernel,
    by decide +kernel⟩

end NSV.C12
