import NoteSeqVerif.Proofs.C05
/-! C05 — property theorems: MusicXML scores parse to the notes, key, meter and tempo they declare.

The model (`Model/C05.lean`) is a transcription of `musicxml_parser.py` / `musicxml_reader.py` on an
abstract score; `R` is the rounding operator applied after every float operation (`R = id`: the
exact-arithmetic reading of the property; the compiled driver runs `R = rne53` and is compared
bit-exactly with CPython on every run).  `xml.etree` / `zipfile` are outside the model.

The timing clause is proved in the form the code has: every cursor move lasts
`duration / divisions · 60 / qpm` at the divisions and tempo in force *when it is read*
(`specCursor`).  For the first part that tempo is the one its own marks establish; a later part
inherits the tempo the previous part ended with (open finding F-C05-4), so for later parts the
theorem needs the hypothesis that the score has one tempo (`mxml_time_later_part_partial`).  The
statement at full strength — tempo by position for every part — is `mxml_time` (a `def`), and
`mxml_time_fails_today` shows the model violating it on the replay of F-C05-4. -/
namespace NSV.C05
open NSV

/-! ## pitch -/

/-- `midi = 12·(octave+1) + pc(step) + alter + transpose`, for every step letter, every integer
alteration (also those crossing the octave: C♭, B♯), every octave and every transposition -/
theorem mxml_pitch (R : Rat → Rat) (st st' : PState) (n : NoteEl) (pn : PNote) (step : String)
    (pc alter octave : Int) (hpc : specPc step = some pc)
    (hk : n.kind = .pitched step (alter : Rat) octave) (h : parseNote R st n = .ok (st', pn)) :
    pn.pitch = specMidi pc alter octave st.transpose ∧ pn.isRest = false := by
  obtain ⟨_, _, _, _, hr, _, hp, _⟩ := parseNote_attrs h
  obtain ⟨p, hp1, hp2⟩ := hp step alter octave hk
  rw [pitchToMidi_spec step pc hpc] at hp1
  simp only [Except.ok.injEq] at hp1
  refine ⟨?_, by rw [hr, hk]; rfl⟩
  rw [hp2, ← hp1]; simp only [specMidi]; omega

/-- the steps the code accepts are exactly the seven letters, with the standard pitch classes -/
theorem mxml_pitch_steps : Gen.stepTable.length = 7 ∧ ∀ x ∈ Gen.stepTable, specPc x.1 = some x.2 := by
  decide

/-- C♭4 in a part transposed down a tone: 59 − 2 -/
example : (parseNote id { PState.init with transpose := -2 }
    { kind := .pitched "C" (-1) 4, chord := false, duration := some 1, voice := none, type := none,
      dots := 0, tuplet := none }).map (fun r => r.2.pitch) = .ok 57 := by decide +kernel

/-! ## key -/

/-- the recorded key carries the declared fifths at the cursor, is minor iff `<mode>` is `minor`, and
the reader reports the tonic `7·fifths mod 12` (relative minor: a minor third below) with MINOR = 1 -/
theorem mxml_key (st : PState) (m : MState) (f : Int) (mode : Option String) (h1 : -7 ≤ f) (h2 : f ≤ 7) :
    ∃ k, parseAttr st m (.key (some f) mode) = .ok (st, { m with ks := some k }) ∧
      k.key = f ∧ k.time = st.tp ∧ (k.minor = true ↔ mode = some "minor") ∧
      readerKey k.key k.minor = .ok (specTonic f k.minor, if k.minor then 1 else 0) := by
  refine ⟨⟨f, mode == some "minor", st.tp⟩, rfl, rfl, rfl, by simp, readerKey_spec f h1 h2 _⟩

/-- the generated `music_proto_keys` table is `7·fifths mod 12` on −7..7 -/
theorem mxml_key_table (f : Int) (h1 : -7 ≤ f) (h2 : f ≤ 7) :
    pyIndex Gen.musicProtoKeys (f + 7) = .ok ((7 * f) % 12) := protoKeys_spec f h1 h2

example : readerKey 0 true = .ok (9, 1) := by decide   -- A minor
example : readerKey (-3) true = .ok (0, 1) := by decide   -- C minor
example : readerKey 6 false = .ok (6, 0) ∧ readerKey (-6) false = .ok (6, 0) := by decide   -- F♯ = G♭

/-- a transposing part: the reported tonic is the written tonic plus the chromatic transposition
(mod 12), for every fifths −7..7 and EVERY transposition -/
theorem mxml_key_transpose (st : PState) (m : MState) (f t : Int) (mode : Option String)
    (h1 : -7 ≤ f) (h2 : f ≤ 7) :
    ∃ st' k, parseAttrs st m [.key (some f) mode, .transpose t] = .ok (st', { m with ks := some k }) ∧
      st'.transpose = t ∧ k.time = st.tp ∧ (k.minor = true ↔ mode = some "minor") ∧
      readerKey k.key k.minor = .ok ((specTonic f k.minor + t) % 12, if k.minor then 1 else 0) := by
  obtain ⟨a, b, c⟩ := transposed_key f t h1 h2
  refine ⟨{ st with transpose := t }, ⟨transposeKey f t, mode == some "minor", st.tp⟩, rfl, rfl, rfl,
    by simp, ?_⟩
  rw [readerKey_spec _ a (by omega)]
  simp only [specTonic]
  congr 2
  cases (mode == some "minor") <;> simp <;> omega

/-- E major written for an instrument in B♭ (chromatic −2) sounds D major: fifths 4 → tonic 2;
the former defect F-C05-3: fifths 5, chromatic −2 is A major -/
example : (parseAttrs PState.init {} [.key (some 4) (some "major"), .transpose (-2)]).map
    (fun r => r.2.ks.map (fun k => readerKey k.key k.minor)) = .ok (some (.ok (2, 0))) := by decide +kernel
example : (parseAttrs PState.init {} [.key (some 5) (some "major"), .transpose (-2)]).map
    (fun r => r.2.ks.map (fun k => readerKey k.key k.minor)) = .ok (some (.ok (9, 0))) := by decide +kernel

/-! ## time -/

/-- the cursor: when an element of a measure is read, `time_position` is the cursor at the start of
the run plus the sum of the preceding moves, each `duration/divisions · 60/qpm` at the divisions and
tempo in force where it stands; `<backup>` counts negative, chord and grace notes count nothing -/
theorem mxml_cursor {pre post : List El} {e : El} {st st' : PState} {m m' : MState} {c : Ctx}
    (hinv : Inv st c) (h : parseEls id st m (pre ++ e :: post) = .ok (st', m')) :
    ∃ st1 m1 st2 m2, parseEls id st m pre = .ok (st1, m1) ∧
      st1.tp = st.tp + specCursor c pre ∧ Inv st1 (ctxAfter c pre) ∧
      parseEl id st1 m1 e = .ok (st2, m2) ∧ parseEls id st2 m2 post = .ok (st', m') :=
  parseEls_split hinv h

/-- TIMING of the notes of a part, given the context `c` in force when the part starts.
For the `<note>` element standing after `before` (whole measures) and `pre` (elements of its own
measure): the parser's note for it is the `|notes in pre|`-th note of that measure; if it is not a
chord note its onset is the sum of the preceding cursor moves of the part (each part restarts at
zero) and its length is `duration/divisions · 60/qpm`; if it is a chord note it has the onset and the
duration of the `<note>` before it. -/
theorem mxml_time_partial {sps : List ScorePartEl} {st st' : PState} {p : PartEl} {ms : List MState}
    {c : Ctx} (hinv : Inv st c) (h : parsePart id sps st p = .ok (st', ms))
    {before after : List (List El)} {els pre post : List El} {n : NoteEl}
    (hp : p.measures = before ++ els :: after) (hsplit : repairMeasure els = pre ++ .note n :: post) :
    ∃ mi pn, ms[before.length]? = some mi ∧ mi.notes[(pre.filter isNote).length]? = some pn ∧
      (∀ d, n.chord = false → n.duration = some d →
          pn.time = specCursor c (flatEls before ++ pre) ∧
          pn.seconds = secs (ctxAfter c (flatEls before ++ pre)) d) ∧
      (∀ d, n.chord = true → n.duration = some d → ∀ pre' n0 mid, pre = pre' ++ .note n0 :: mid →
          (∀ e ∈ mid, isNote e = false) →
          ∃ pn0, mi.notes[(pre'.filter isNote).length]? = some pn0 ∧
            pn.time = pn0.time ∧ pn.duration = pn0.duration ∧
            pn.seconds = secs (ctxAfter c (flatEls before ++ pre)) pn0.duration) := by
  unfold parsePart at h
  rw [hp] at h
  obtain ⟨hi0, ht0, _⟩ := partStart_inv (sps := sps) (p := p) hinv
  obtain ⟨stb, msb, st1, mi, msa, l, e, t, i, _, _, hm⟩ := parseMeasures_split hi0 h
  unfold parseMeasure at hm
  split at hm
  · contradiction
  · rename_i sta ma ha
    rw [hsplit] at ha
    obtain ⟨pn, hidx, hnc, hch⟩ := measure_note_time i ha
    obtain ⟨_, _, _, _, _, _, _, f8, _⟩ := fixTimeSignature_frame hm
    simp only [List.length_nil, Nat.zero_add] at hidx hch
    refine ⟨mi, pn, by rw [e]; exact idx_mid _ _ _ _ l.symm, by rw [f8]; exact hidx, ?_, ?_⟩
    · intro d hc hd
      obtain ⟨a, b, _⟩ := hnc d hc hd
      refine ⟨?_, by rw [b, ctxAfter_append]⟩
      rw [a, t, ht0, specCursor_append]; ring
    · intro d hc hd pre' n0 mid hpre hmid
      obtain ⟨pn0, a, b, c', d'⟩ := hch d hc hd pre' n0 mid hpre hmid
      exact ⟨pn0, by rw [f8]; exact a, b, c', by rw [d', ctxAfter_append]⟩

/-- the first part of every score is timed from the default context (divisions 1, 120 qpm) by its own
tempo marks: `mxml_time_partial` applies with `c = Ctx.init`, whatever tempo changes it contains -/
theorem mxml_time_first_part {sps : List ScorePartEl} {p : PartEl} {after : List PartEl}
    {r : PState × Rat × List (List MState)}
    (h : parseParts id sps PState.init 0 (p :: after) = .ok r) :
    ∃ st' ms msa, parsePart id sps PState.init p = .ok (st', ms) ∧ r.2.2 = ms :: msa ∧
      Inv PState.init Ctx.init ∧ st'.tp = specCursor Ctx.init (partEls p) := by
  obtain ⟨stb, st', msb, ms, msa, _, hp, e, l⟩ := parseParts_split (before := []) PState.init_inv h
  simp only [parseParts] at h
  split at h
  · contradiction
  · rename_i st1 ms1 h1
    split at h
    · contradiction
    · rename_i st2 t rest h2
      simp only [Except.ok.injEq] at h
      subst h
      exact ⟨st1, ms1, rest, h1, rfl, PState.init_inv, (parsePart_inv PState.init_inv h1).1⟩

/-- every part: the context in force at its start is what the parts before it left behind
(`scoreCtx`): divisions AND tempo are inherited — the tempo half is the open finding F-C05-4 -/
theorem mxml_part_start {sps : List ScorePartEl} {before after : List PartEl} {p : PartEl}
    {r : PState × Rat × List (List MState)}
    (h : parseParts id sps PState.init 0 (before ++ p :: after) = .ok r) :
    ∃ stb st' msb ms msa, Inv stb (scoreCtx Ctx.init before) ∧
      parsePart id sps stb p = .ok (st', ms) ∧ r.2.2 = msb ++ ms :: msa ∧ msb.length = before.length ∧
      st'.tp = specCursor (scoreCtx Ctx.init before) (partEls p) := by
  obtain ⟨stb, st', msb, ms, msa, i, hp, e, l⟩ := parseParts_split PState.init_inv h
  exact ⟨stb, st', msb, ms, msa, i, hp, e, l, (parsePart_inv i hp).1⟩

/-- LATER PARTS, partial (excluded class = F-C05-4): when the score has one tempo — the first part's
tempo marks all stand before its first cursor move (`lead`), and no other part before `p` has a
tempo mark — part `p` starts in a context whose tempo is that tempo `(ctxAfter Ctx.init lead).qpm`
(120 without marks), i.e. the tempo in force at every position of the score; `mxml_time_partial`
then times its notes. -/
theorem mxml_time_later_part_partial {sps : List ScorePartEl} {p0 p : PartEl} {mid after : List PartEl}
    {lead rest : List El} {r : PState × Rat × List (List MState)}
    (h0 : partEls p0 = lead ++ rest) (hlead : ∀ e ∈ lead, still e = true)
    (hrest : ∀ e ∈ rest, tempoFree e = true)
    (hmid : ∀ q ∈ mid, ∀ e ∈ partEls q, tempoFree e = true)
    (h : parseParts id sps PState.init 0 (p0 :: mid ++ p :: after) = .ok r) :
    ∃ stp st' ms div, Inv stp ⟨div, (ctxAfter Ctx.init lead).qpm⟩ ∧
      parsePart id sps stp p = .ok (st', ms) ∧ ms ∈ r.2.2 ∧
      st'.tp = specCursor ⟨div, (ctxAfter Ctx.init lead).qpm⟩ (partEls p) ∧
      specCursor Ctx.init lead = 0 := by
  have h' : parseParts id sps PState.init 0 ((p0 :: mid) ++ p :: after) = .ok r := by simpa using h
  obtain ⟨stb, st', msb, ms, msa, i, hp, e, l, ht⟩ := mxml_part_start h'
  have hq : (scoreCtx Ctx.init (p0 :: mid)).qpm = (ctxAfter Ctx.init lead).qpm := by
    simp only [scoreCtx, List.foldl]
    have := scoreCtx_qpm_of_tempoFree (c := ctxAfter Ctx.init (partEls p0)) hmid
    simp only [scoreCtx] at this
    rw [this, h0, ctxAfter_append, ctxAfter_qpm_of_tempoFree hrest]
  have hc : scoreCtx Ctx.init (p0 :: mid) = ⟨(scoreCtx Ctx.init (p0 :: mid)).div, (ctxAfter Ctx.init lead).qpm⟩ := by
    rw [← hq]
  rw [hc] at i ht
  exact ⟨stb, st', ms, _, i, hp, by rw [e]; simp, ht, specCursor_of_still hlead⟩

/-- `parseNote` on a note that is not part of a chord and has a `<duration>`, any `R`: its length is
`secondsOf` of its own duration in the state it was read in, and it leaves divisions and tempo alone -/
theorem parseNote_plain {R : Rat → Rat} {st : PState} {n : NoteEl} {st' : PState} {pn : PNote} {d : Int}
    (h : parseNote R st n = .ok (st', pn)) (hc : n.chord = false) (hd : n.duration = some d) :
    pn.time = st.tp ∧ pn.duration = d ∧ secondsOf R st d = .ok pn.seconds ∧
    st'.divisions = st.divisions ∧ st'.spq = st.spq := by
  unfold parseNote at h
  simp only [] at h
  split at h
  · contradiction
  · split at h
    · contradiction
    · rename_i st1 dur time sec grace hdur
      split at h
      · contradiction
      · split at h
        · contradiction
        · simp only [Except.ok.injEq, Prod.mk.injEq] at h
          obtain ⟨rfl, rfl⟩ := h
          simp only [hd, hc, Bool.false_eq_true, if_false] at hdur
          split at hdur
          · contradiction
          · rename_i sec' hsec
            simp only [Except.ok.injEq, Prod.mk.injEq] at hdur
            obtain ⟨rfl, rfl, rfl, rfl, rfl⟩ := hdur
            exact ⟨rfl, rfl, hsec, rfl, rfl⟩

/-- CHORDS SHARE THEIR FIRST NOTE'S ONSET — EXACTLY, FOR EVERY ROUNDING OPERATOR `R` (in particular for the
binary64 arithmetic the real parser runs in, not only in exact arithmetic).  Let a `<note>` `n0` be followed in
its measure by `mid`, a run in which every `<note>` is a `<chord/>` note with a `<duration>` (other elements may
stand in between).  Then the parser's notes for the run carry LITERALLY the onset (and the duration in
divisions) of the note built for `n0` — the onset is copied from `previous_note`, never recomputed from the
cursor — so the reader reports the same `start_time`, bit for bit.  If moreover `n0` is itself not a chord note,
has a `<duration>`, and the run changes neither divisions nor tempo, the run's notes also have literally the
same length in seconds and the reader reports the same `end_time`. -/
theorem mxml_chord_onset_exact (R : Rat → Rat) {pre mid post : List El} {n0 : NoteEl} {st st' : PState}
    {m m' : MState} (hmid : ∀ e ∈ mid, chordRun e = true)
    (h : parseEls R st m (pre ++ .note n0 :: (mid ++ post)) = .ok (st', m')) :
    ∃ a pn0 ch b, m'.notes = ((m.notes ++ a) ++ pn0 :: ch) ++ b ∧
      a.length = (pre.filter isNote).length ∧ ch.length = (mid.filter isNote).length ∧
      (∀ pn ∈ ch, pn.time = pn0.time ∧ pn.duration = pn0.duration ∧
        ∀ part x0 x, readerNote R part pn0 = .ok x0 → readerNote R part pn = .ok x → x.start = x0.start) ∧
      (∀ d0, n0.chord = false → n0.duration = some d0 → (∀ e ∈ mid, noRetime e = true) →
        ∀ pn ∈ ch, pn.seconds = pn0.seconds ∧
          ∀ part x0 x, readerNote R part pn0 = .ok x0 → readerNote R part pn = .ok x → x.end_ = x0.end_) := by
  obtain ⟨st1, m1, h1, h2⟩ := parseEls_append h
  simp only [parseEls] at h2
  split at h2
  · contradiction
  · rename_i st2 m2 he
    obtain ⟨st3, m3, h3, h4⟩ := parseEls_append h2
    obtain ⟨_, _, ⟨a, ea, la⟩, _, _, _⟩ := parseEls_out h1
    obtain ⟨_, _, hout⟩ := parseEl_out he
    simp only [] at hout
    obtain ⟨st1', pn0, hn0, e0, hprev, _, _⟩ := hout
    obtain ⟨_, ch, ec, lc, hch, hsec⟩ := parseEls_chordRun hprev hmid h3
    obtain ⟨_, _, ⟨b, eb, _⟩, _, _, _⟩ := parseEls_out h4
    have hstart : ∀ (p q : PNote), p.time = q.time → ∀ part x0 x, readerNote R part q = .ok x0 →
        readerNote R part p = .ok x → x.start = x0.start := by
      intro p q hpq part x0 x hx0 hx
      unfold readerNote at hx0 hx
      split at hx0
      · contradiction
      · split at hx
        · contradiction
        · simp only [Except.ok.injEq] at hx0 hx
          subst hx0; subst hx
          simp only [hpq]
    have hend : ∀ (p q : PNote), p.time = q.time → p.seconds = q.seconds → ∀ part x0 x,
        readerNote R part q = .ok x0 → readerNote R part p = .ok x → x.end_ = x0.end_ := by
      intro p q hpq hs part x0 x hx0 hx
      unfold readerNote at hx0 hx
      split at hx0
      · contradiction
      · split at hx
        · contradiction
        · simp only [Except.ok.injEq] at hx0 hx
          subst hx0; subst hx
          simp only [hpq, hs]
    refine ⟨a, pn0, ch, b, by rw [eb, ec, e0, ea]; simp, la, lc, ?_, ?_⟩
    · intro pn hpn
      obtain ⟨t1, t2⟩ := hch pn hpn
      exact ⟨t1, t2, hstart pn pn0 t1⟩
    · intro d0 hc0 hd0 hnr pn hpn
      obtain ⟨t1, _⟩ := hch pn hpn
      obtain ⟨_, _, s3⟩ := hsec hnr
      have hs := s3 pn hpn
      -- the first note's own length: `secondsOf` of its duration in the state before it
      have he' := he
      simp only [parseEl] at he'
      rw [hn0] at he'
      simp only [Except.ok.injEq, Prod.mk.injEq] at he'
      obtain ⟨rfl, _⟩ := he'
      obtain ⟨_, q2, q3, q4, q5⟩ := parseNote_plain hn0 hc0 hd0
      have : secondsOf R st1 d0 = .ok pn.seconds := by
        rw [← q2, ← secondsOf_congr R (a := { st1' with prev := some (pn0.duration, pn0.time) }) (b := st1) q4 q5]
        exact hs
      rw [q3] at this
      simp only [Except.ok.injEq] at this
      exact ⟨this.symm, hend pn pn0 t1 this.symm⟩

/-- non-vacuity, in BINARY64 arithmetic: triads of quarters at 90 qpm (a quarter lasts 2/3 s, inexact), divisions 2;
the second chord starts at `rne53 (2/3)`, and all three of its notes carry that very number -/
example : (parseEls rne53 PState.init {}
    [.attributes [.divisions 2], .direction [⟨some 90, none⟩],
     .note ⟨.pitched "C" 0 4, false, some 2, none, some "quarter", 0, none⟩,
     .note ⟨.pitched "E" 0 4, true, some 2, none, some "quarter", 0, none⟩,
     .note ⟨.pitched "D" 0 4, false, some 2, none, some "quarter", 0, none⟩,
     .note ⟨.pitched "F" 0 4, true, some 2, none, some "quarter", 0, none⟩,
     .note ⟨.pitched "A" 0 4, true, some 2, none, some "quarter", 0, none⟩]).map
    (fun r => r.2.notes.map (·.time)) = .ok [0, 0, rne53 (2/3), rne53 (2/3), rne53 (2/3)] := by decide +kernel

/-- reader: a note starts at its onset (clamped at zero) and ends `seconds` later -/
theorem mxml_note_times {part : Nat} {n : PNote} {x : Note} (h : readerNote id part n = .ok x) :
    x.start = (if n.time < 0 then 0 else n.time) ∧ x.end_ = x.start + n.seconds := by
  obtain ⟨_, _, _, _, _, _, a, b, _⟩ := readerNote_fields h
  exact ⟨a, b⟩

/-- `total_time` is the latest final cursor of the parts (0 for an empty score) -/
theorem mxml_total_time {sc : Score} {d : Doc} (h : parseDoc id sc = .ok d) :
    d.total = specTotal Ctx.init 0 sc.parts ∧ d.parts.length = sc.parts.length := by
  unfold parseDoc at h
  split at h
  · contradiction
  · rename_i st total parts hp
    simp only [Except.ok.injEq] at h
    subst h
    obtain ⟨a, _, c⟩ := parseParts_total PState.init_inv hp
    exact ⟨a, c⟩

/-- tempo marks: a `<direction>` appends one mark per `<sound tempo=…>`, stamped with the cursor and
carrying the declared tempo (`tempo="0"` = default), and they take effect from there on (`ctxSound`) -/
theorem mxml_tempo_marks (R : Rat → Rat) (st : PState) (m : MState) (ss : List Sound) :
    (parseSounds R st m ss).2.tempos = m.tempos ++
      ss.filterMap (fun s => s.tempo.map (fun q => ⟨st.tp, if q = 0 then Gen.DEFAULT_QPM else q⟩)) :=
  parseSounds_tempos R ss st m

/-- chord symbols are stamped with the cursor plus their `<offset>` -/
theorem mxml_harmony_time {st : PState} {c : Ctx} (hinv : Inv st c) {cs : List HChild} {ch : ChordSym}
    (h : parseHarmony id st cs = .ok ch) : ch.time = st.tp + secs c (offsetSum cs) :=
  parseHarmony_time hinv h

/-- a tempo change in the middle of a part with a second voice, a chord and a dotted note:
divisions 2, 60 qpm for one 2/4 measure, then 120 qpm; onsets 0, 0 (chord), 1, 0 (voice 2 after
`<backup>`), 2, 2.75 -/
def exPart : PartEl := ⟨"P1", [
  [.attributes [.divisions 2, .key (some 0) (some "minor"), .time [.int 2] [.int 4]],
   .direction [⟨some 60, none⟩],
   .note ⟨.pitched "C" 0 4, false, some 2, none, some "quarter", 0, none⟩,
   .note ⟨.pitched "E" 0 4, true, some 2, none, some "quarter", 0, none⟩,
   .note ⟨.pitched "G" 0 4, false, some 2, none, some "quarter", 0, none⟩,
   .backup 4,
   .note ⟨.pitched "C" 0 3, false, some 4, some 2, some "half", 0, none⟩],
  [.direction [⟨some 120, none⟩],
   .note ⟨.pitched "D" 0 4, false, some 3, none, some "quarter", 1, none⟩,
   .note ⟨.rest, false, some 1, none, some "eighth", 0, none⟩]]⟩

example : (parsePart id [] PState.init exPart).map (fun r => (onsetsOf r.2, r.1.tp)) =
    .ok ([0, 0, 1, 0, 2, 11/4], 3) := by decide +kernel
example : specCursor Ctx.init (partEls exPart) = 3 := by decide +kernel

/-! ### the timing clause at full strength, and where the code departs from it today -/

/-- FULL statement: every part restarts at zero and each cursor move is timed at the tempo in force
at its position according to the tempo marks of the score (hypothesis: every note has a duration).
Not a theorem today: see `mxml_time_fails_today` (F-C05-4); proved parts: `mxml_time_partial` with
`mxml_time_first_part` / `mxml_time_later_part_partial`. -/
def mxml_time (sc : Score) : Prop :=
  (sc.parts.all (fun p => (partEls p).all (fun e => match e with
      | .note n => n.duration.isSome
      | _ => true)) = true) →
  ∀ d, parseDoc id sc = .ok d →
    ∀ (k : Nat) (p : PartEl) (ms : List MState), sc.parts[k]? = some p → d.parts[k]? = some ms →
      onsetsOf ms = specOnsetsAt (scoreMarks sc) (scoreCtx Ctx.init (sc.parts.take k)) 0 0 0 (partEls p)

def quarterC : El := .note ⟨.pitched "C" 0 4, false, some 1, none, some "quarter", 0, none⟩

def f4p1 : PartEl :=
  ⟨"P1", [[.attributes [.divisions 1, .time [.int 4] [.int 4]], .direction [⟨some 60, none⟩],
           quarterC, quarterC, quarterC, quarterC],
          [.direction [⟨some 120, none⟩], quarterC, quarterC, quarterC, quarterC]]⟩

def f4p2 : PartEl :=
  ⟨"P2", [[.attributes [.divisions 1, .time [.int 4] [.int 4]], quarterC, quarterC, quarterC, quarterC],
          [quarterC, quarterC, quarterC, quarterC]]⟩

/-- the replay of F-C05-4: two parts in notated unison, 60 qpm in measure 1 and 120 qpm in measure 2,
tempo marks in the first part only -/
def f_c05_4 : Score := ⟨[⟨"P1", none, none⟩, ⟨"P2", none, none⟩], [f4p1, f4p2]⟩

/-- onsets the model gives to the notes of part `k` -/
def modelOnsets (sc : Score) (k : Nat) : Option (List Rat) :=
  match parseDoc id sc with
  | .ok d => (d.parts[k]?).map onsetsOf
  | .error _ => none

/-- the first part follows its tempo marks; the second, in the same notation, is timed entirely at
120 qpm, the tempo the first part ended with -/
example : modelOnsets f_c05_4 0 = some [0, 1, 2, 3, 4, 9/2, 5, 11/2] ∧
    modelOnsets f_c05_4 1 = some [0, 1/2, 1, 3/2, 2, 5/2, 3, 7/2] := by decide +kernel

/-- the full statement fails on that score (for its second part) -/
theorem mxml_time_fails_today : ¬ mxml_time f_c05_4 := by
  intro h
  have hk : modelOnsets f_c05_4 1 = some [0, 1/2, 1, 3/2, 2, 5/2, 3, 7/2] := by decide +kernel
  unfold modelOnsets at hk
  split at hk
  · rename_i d hd
    cases hms : d.parts[1]? with
    | none => simp [hms] at hk
    | some ms =>
      have := h (by decide +kernel) d hd 1 f4p2 ms (by decide +kernel) hms
      simp only [hms, Option.map_some, Option.some.injEq] at hk
      rw [hk] at this
      revert this
      decide +kernel
  · contradiction

/-! ## voice, part, channel, program, velocity, note value -/

/-- what the parser records on a note: declared voice (default 1), the channel / program / velocity
in force, rest flag; the reader copies them, sets the part index, and writes
`numerator/denominator` = the notated value `type / tuplet · (2 − 2^-dots)` as a reduced fraction -/
theorem mxml_attrs (R : Rat → Rat) (st st' : PState) (n : NoteEl) (pn : PNote) (part : Nat) (x : Note)
    (h : parseNote R st n = .ok (st', pn)) (hx : readerNote R part pn = .ok x)
    (hd : n.duration.isSome) :
    x.voice = n.voice.getD 1 ∧ x.part = part ∧ x.instrument = st.channel ∧ x.program = st.program ∧
    x.velocity = st.velocity ∧ pn.isRest = (n.kind == .rest) ∧
    ∃ tr, lookupType (n.type.getD "quarter") = some tr ∧
      (x.numerator : Rat) / (x.denominator : Rat) = specRatio tr pn.tuplet n.dots ∧
      x.numerator.natAbs.Coprime x.denominator.natAbs ∧ 0 < x.denominator := by
  obtain ⟨a1, a2, a3, a4, a5, a6, _, a8, _⟩ := parseNote_attrs h
  obtain ⟨_, b2, b3, b4, b5, b6, _, _, r, hr, b9, b10⟩ := readerNote_fields hx
  refine ⟨by rw [b5, a1], b6, by rw [b3, a2], by rw [b4, a3], by rw [b2, a4], a5, ?_⟩
  -- the type was validated by the parser, the tuplet ratio is not zero or the reader fails
  have hty : ∃ tr, lookupType (n.type.getD "quarter") = some tr ∧ lookupType pn.type = some tr := by
    cases hnt : n.type with
    | none =>
      simp only [hnt] at a8
      rw [a8]
      exact ⟨1 / 4, by decide +kernel, by decide +kernel⟩
    | some t =>
      simp only [hnt] at a8
      obtain ⟨a8a, a8b⟩ := a8
      rw [a8a]
      obtain ⟨tr, htr⟩ := Option.isSome_iff_exists.mp a8b
      exact ⟨tr, htr, htr⟩
  obtain ⟨tr, ht1, ht2⟩ := hty
  have hgrace : pn.grace = false := by
    obtain ⟨d, hd'⟩ := Option.isSome_iff_exists.mp hd
    unfold parseNote at h
    simp only [hd'] at h
    split at h
    · contradiction
    · split at h
      · contradiction
      · rename_i st1 dur time sec grace hdur
        split at h
        · contradiction
        · split at h
          · contradiction
          · simp only [Except.ok.injEq, Prod.mk.injEq] at h
            obtain ⟨_, rfl⟩ := h
            simp only []
            split at hdur
            · split at hdur
              · contradiction
              · split at hdur
                · contradiction
                · simp only [Except.ok.injEq, Prod.mk.injEq] at hdur
                  exact hdur.2.2.2.2.symm
            · split at hdur
              · contradiction
              · simp only [Except.ok.injEq, Prod.mk.injEq] at hdur
                exact hdur.2.2.2.2.symm
  have htup : pn.tuplet ≠ 0 := by
    intro h0
    unfold durationRatio at hr
    simp only [ht2, h0, if_true] at hr
    contradiction
  rw [durationRatio_spec pn tr ht2 htup hgrace, a6] at hr
  simp only [Except.ok.injEq] at hr
  refine ⟨tr, ht1, ?_, ?_, ?_⟩
  · rw [b9, b10, hr]; simpa using Rat.num_div_den r
  · rw [b9, b10]; simpa using r.reduced
  · rw [b10]; exact_mod_cast r.den_pos

/-- rests produce no note; the pitched notes come out in document order, one each -/
theorem mxml_rests_dropped {R : Rat → Rat} {part : Nat} {ns : List PNote} {out : List Note}
    (h : readerNotes R part ns = .ok out) :
    List.Forall₂ (fun pn x => readerNote R part pn = .ok x) (ns.filter (fun n => !n.isRest)) out :=
  readerNotes_spec h

/-- every note of a part carries the MIDI channel and program its `<score-part>` declares (both
declared: those numbers; otherwise the defaults 0, 0) -/
theorem mxml_channel_program {R : Rat → Rat} {sps : List ScorePartEl} {st st' : PState} {p : PartEl}
    {ms : List MState} (h : parsePart R sps st p = .ok (st', ms)) :
    ∀ m ∈ ms, ∀ pn ∈ m.notes, pn.channel = (lookupScorePart sps p.id).1 ∧
      pn.program = (lookupScorePart sps p.id).2 :=
  parseMeasures_channel h

theorem mxml_score_part_declared (pid : String) (c pr : Int) (sps : List ScorePartEl)
    (h : ∀ sp ∈ sps, sp.id ≠ pid) :
    lookupScorePart (sps ++ [ScorePartEl.mk pid (some c) (some pr)]) pid = (c, pr) := by
  unfold lookupScorePart
  have : (sps ++ [ScorePartEl.mk pid (some c) (some pr)]).filter (fun sp => sp.id = pid) =
      [ScorePartEl.mk pid (some c) (some pr)] := by
    rw [List.filter_append]
    have : sps.filter (fun sp => decide (sp.id = pid)) = [] := by
      rw [List.filter_eq_nil_iff]; intro a ha; simpa using h a ha
    rw [this]; simp
  rw [this]; rfl

/-- dotted quarter = 3/8, triplet eighth = 1/12, double-dotted half in a 5:4 tuplet = 7/10 -/
example : durationRatio ⟨1, false, 60, 0, 0, 64, 3, 0, 0, "quarter", 1, 1, false⟩ = .ok (3/8) := by
  decide +kernel
example : specRatio (1/8) (3/2) 0 = 1/12 ∧ specRatio (1/2) (5/4) 2 = 7/10 := by decide +kernel

/-! ## time signatures -/

/-- a declared time signature is recorded with its numbers at the cursor -/
theorem mxml_time_signature_declared (st : PState) (m : MState) (beats beatType : Int) (hm : m.ts = none) :
    parseAttr st m (.time [.int beats] [.int beatType]) =
      .ok ({ st with ts := some ⟨beats, beatType, st.tp⟩ }, { m with ts := some ⟨beats, beatType, st.tp⟩ }) := by
  simp [parseAttr, hm, parseTime]

/-- complete measures are left alone by the partial-measure correction: if a beat is a whole number
`b` of divisions (`4·divisions = b·beat-type`) and voice 1 holds exactly `beats` beats, neither the
measure's nor the parser's time signature changes -/
theorem mxml_time_signature_complete (st : PState) (m : MState) (start : Rat) (g : TSig) (b : Int)
    (hts : st.ts = some g) (hnum : 0 ≤ g.num) (hden : 0 < g.den) (hb : 0 < b)
    (hbeat : st.divisions * 4 = b * g.den) (hfull : m.duration = g.num * b) :
    fixTimeSignature st m start = .ok (st, m) :=
  fixTimeSignature_complete st m start g b hts hnum hden hb hbeat hfull

/-- the reported time signatures are exactly those the measures carry, each once, in order of first
occurrence (same for key signatures, which default to C major at 0 when there is none) -/
theorem mxml_time_signatures_reported (d : Doc) (x : TSig) :
    (x ∈ getTimeSignatures d ↔ ∃ m ∈ d.measures, m.ts = some x) ∧ (getTimeSignatures d).Nodup := by
  unfold getTimeSignatures
  refine ⟨?_, nodup_dedup _ _ List.nodup_nil⟩
  rw [mem_dedup]
  simp [List.mem_filterMap]

theorem mxml_key_signatures_reported (d : Doc) (x : KSig) (hne : ∃ m ∈ d.measures, m.ks.isSome) :
    x ∈ getKeySignatures d ↔ ∃ m ∈ d.measures, m.ks = some x := by
  unfold getKeySignatures
  have hmem : ∀ y, y ∈ dedup [] (d.measures.filterMap (·.ks)) ↔ ∃ m ∈ d.measures, m.ks = some y := by
    intro y; rw [mem_dedup]; simp [List.mem_filterMap]
  split
  · rename_i hnil
    obtain ⟨m, hm, hk⟩ := hne
    obtain ⟨k, hk'⟩ := Option.isSome_iff_exists.mp hk
    have := (hmem k).mpr ⟨m, hm, hk'⟩
    rw [hnil] at this
    simp at this
  · exact hmem x

/-- … each ONCE: no key signature (key, mode, time) is reported twice, however many parts and measures declare it
— also when other signatures were recorded in between (C major @0, E minor @t declared by every part of a
score is two signatures) -/
theorem mxml_key_signatures_once (d : Doc) : (getKeySignatures d).Nodup := by
  unfold getKeySignatures
  have h := nodup_dedup (d.measures.filterMap (·.ks)) [] List.nodup_nil
  split
  · simp
  · exact h

/-- two parts that both declare C major @0 and E minor @4 (in separate measures): two signatures -/
example : getKeySignatures ⟨[[{ ks := some ⟨0, false, 0⟩ }, {}, { ks := some ⟨4, true, 4⟩ }, {}],
                             [{ ks := some ⟨0, false, 0⟩ }, {}, { ks := some ⟨4, true, 4⟩ }, {}]], 8, PState.init⟩ =
    [⟨0, false, 0⟩, ⟨4, true, 4⟩] := by decide +kernel

/-- 6/8 with divisions 2: a beat (eighth) is one division, six of them fill the measure -/
example : fixTimeSignature { PState.init with divisions := 2, ts := some ⟨6, 8, 0⟩ } { duration := 6 } 0 =
    .ok ({ PState.init with divisions := 2, ts := some ⟨6, 8, 0⟩ }, { duration := 6 }) :=
  mxml_time_signature_complete _ _ 0 ⟨6, 8, 0⟩ 1 rfl (by decide) (by decide) (by decide) (by decide) (by decide)

/-! ## chord symbols -/

/-- the figure of a `<harmony>` in schema order is `root ++ kind ++ "(deg)"* ++ "/bass"` with the
abbreviation of the generated kind table, the degree rules (`add` → `add9` / `#11`, `subtract` →
`no3`, `alter` → `b5`) and the `bb b # ##` alter spelling; it is stamped with the cursor -/
theorem mxml_harmony (R : Rat → Rat) (st : PState) (ht : st.transpose = 0) (h : HarmonySpec)
    (racc abbr : String) (texts : List String) (bassText : Option String)
    (hr : accOf h.rootAlter = some racc)
    (hk : Gen.chordKindAbbreviations.lookup h.kind = some abbr) (hnc : abbr ≠ "N.C.")
    (hd : h.degrees.mapM DegSpec.text = some texts)
    (hb : match h.bass with
          | none => bassText = none
          | some (s, a) => ∃ bacc, accOf a = some bacc ∧ bassText = some (s ++ bacc) ∧ s ++ bacc ≠ "") :
    parseHarmony R st h.children = .ok ⟨st.tp, specFigure (h.rootStep ++ racc) abbr texts bassText⟩ :=
  parseHarmony_spec R st ht h racc abbr texts hr hk hnc hd bassText hb

/-- the alter spelling of the code is `bb b (none) # ##` and nothing else -/
theorem mxml_harmony_alter_table (i : Int) : Gen.alterStrings.lookup i = specAcc i := alterStrings_spec i

/-- `none` is the only kind rendered `N.C.`; the table has no duplicate key -/
theorem mxml_harmony_kind_table :
    (∀ x ∈ Gen.chordKindAbbreviations, (x.2 = "N.C." ↔ x.1 = "none")) ∧
    (Gen.chordKindAbbreviations.map (·.1)).Nodup := by decide +kernel

/-- C♯m7(add♭9)/E♭ -/
example : parseHarmony id PState.init
    (HarmonySpec.children ⟨"C", some 1, "minor-seventh", some ("E", some (-1)), [⟨9, some (-1), .add⟩]⟩) =
    .ok ⟨0, "C#m7(b9)/Eb"⟩ := by decide +kernel

end NSV.C05
