import NoteSeqVerif.Model.C02
namespace NSV.C02
end NSV.C02
