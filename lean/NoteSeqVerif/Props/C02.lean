import NoteSeqVerif.Proofs.C02State
import NoteSeqVerif.Proofs.C02Split
/-! C02 — property theorems (DESIGN 6.2).

Conventions: `st` is the split-time vector, piece `i` is cut at `a = st[i]`, `b = st[i+1]`;
`Valid s st` = the inputs `_extract_subsequences` accepts (unquantized, ≥ 2 split times, sorted,
every split time but the last `< total_time`).  `R` is the rounding operator applied after each float
operation (`rne53` in the compiled model that is compared bit-exactly with the Python; `id` = exact
arithmetic).  Theorems that speak about instants (`…_in_effect`) are for `R = id`. -/
namespace NSV.C02

variable {R : Rat → Rat} {preserve : List Int} {s : NoteSeq} {st : List Rat} {ps : List NoteSeq}

/-! ## shape of the result -/

/-- a successful extraction is the list of closed-form pieces, one per consecutive pair of split times -/
theorem extract_pieces (hv : Valid s st) (h : extractSubsequencesR R preserve s st = .ok ps) :
    ps = (pairs st).map (specPiece R preserve s) := by
  rw [extract_eq_spec R preserve s st hv] at h
  exact (Except.ok.inj h).symm

theorem extract_length (hv : Valid s st) (h : extractSubsequencesR R preserve s st = .ok ps) :
    ps.length + 1 = st.length := by
  rw [extract_pieces hv h, List.length_map]
  obtain ⟨_, h2, _, _⟩ := hv
  match st, h2 with
  | a :: b :: r, _ => simp [pairs_length]

/-- piece `i` is the closed-form piece of `[st[i], st[i+1])` -/
theorem extract_piece (hv : Valid s st) (h : extractSubsequencesR R preserve s st = .ok ps)
    {i : Nat} {a b : Rat} (ha : st[i]? = some a) (hb : st[i + 1]? = some b) :
    ps[i]? = some (specPiece R preserve s (a, b)) := by
  rw [extract_pieces hv h, List.getElem?_map, (pairs_getElem? st i a b).mpr ⟨ha, hb⟩]
  rfl

/-! ## errors: exactly which inputs are rejected -/

theorem extract_trichotomy (R : Rat → Rat) (preserve : List Int) (s : NoteSeq) (st : List Rat) :
    (s.isQuantized = true ∧ extractSubsequencesR R preserve s st = .error .quantizationStatusError) ∨
    (s.isQuantized = false ∧ ¬ Valid s st ∧ extractSubsequencesR R preserve s st = .error .valueError) ∨
    (Valid s st ∧ extractSubsequencesR R preserve s st = .ok ((pairs st).map (specPiece R preserve s))) := by
  by_cases hq : s.isQuantized = true
  · left; exact ⟨hq, by simp [extractSubsequencesR, hq]⟩
  · right
    have hq' : s.isQuantized = false := by simpa using hq
    by_cases hv : Valid s st
    · right; exact ⟨hv, extract_eq_spec R preserve s st hv⟩
    · left
      refine ⟨hq', hv, ?_⟩
      unfold extractSubsequencesR
      simp only [hq', Bool.false_eq_true, ↓reduceIte]
      match st with
      | [] => rfl
      | [_] => rfl
      | t0 :: t1 :: r =>
        simp only
        by_cases h1 : (pairs (t0 :: t1 :: r)).any (fun p => decide (p.1 > p.2)) = true
        · simp [h1]
        · have h1' : (pairs (t0 :: t1 :: r)).any (fun p => decide (p.1 > p.2)) = false := by simpa using h1
          have hs := (pairs_sorted_iff _).mp h1'
          by_cases h3 : (pairs (t0 :: t1 :: r)).any (fun p => decide (p.1 ≥ s.totalTime)) = true
          · simp [h1', h3]
          · exfalso
            apply hv
            refine ⟨hq', by simp, hs, ?_⟩
            intro t ht
            have h3' : ¬ ∃ t ∈ (t0 :: t1 :: r).dropLast, s.totalTime ≤ t :=
              fun hex => h3 ((pairs_pastEnd_iff _ _).mpr hex)
            exact Rat.not_le.mp (fun hle => h3' ⟨t, ht, hle⟩)

/-- `QuantizationStatusError` iff the sequence is quantized; `ValueError` iff it is not and there are
fewer than two split times, or they are unsorted, or one other than the last is `≥ total_time`;
a result otherwise; no other error. -/
theorem extract_errors (R : Rat → Rat) (preserve : List Int) (s : NoteSeq) (st : List Rat) :
    (extractSubsequencesR R preserve s st = .error .quantizationStatusError ↔ s.isQuantized = true) ∧
    (extractSubsequencesR R preserve s st = .error .valueError ↔
      s.isQuantized = false ∧
        (st.length < 2 ∨ ¬ SortedLE st ∨ ∃ t ∈ st.dropLast, s.totalTime ≤ t)) ∧
    ((∃ ps, extractSubsequencesR R preserve s st = .ok ps) ↔ Valid s st) ∧
    (∀ e, extractSubsequencesR R preserve s st = .error e →
      e = .quantizationStatusError ∨ e = .valueError) := by
  have hnv : ¬ Valid s st ↔ (s.isQuantized = true ∨ st.length < 2 ∨ ¬ SortedLE st ∨
      ∃ t ∈ st.dropLast, s.totalTime ≤ t) := by
    constructor
    · intro hv
      by_cases hq : s.isQuantized = true
      · exact Or.inl hq
      · by_cases h2 : st.length < 2
        · exact Or.inr (Or.inl h2)
        · by_cases hs : SortedLE st
          · refine Or.inr (Or.inr (Or.inr ?_))
            apply Classical.byContradiction
            intro hex
            apply hv
            refine ⟨by simpa using hq, by omega, hs, ?_⟩
            intro t ht
            exact Rat.not_le.mp (fun hle => hex ⟨t, ht, hle⟩)
          · exact Or.inr (Or.inr (Or.inl hs))
    · rintro (hq | h2 | hs | ⟨t, ht, hle⟩) hv
      · rw [hv.unquantized] at hq; exact Bool.false_ne_true hq
      · have := hv.two; omega
      · exact hs hv.sorted
      · exact absurd (hv.inside t ht) (Rat.not_lt.mpr hle)
  rcases extract_trichotomy R preserve s st with ⟨hq, he⟩ | ⟨hq, hv, he⟩ | ⟨hv, he⟩
  · rw [he]
    refine ⟨by simp [hq], by simp [hq], ?_, by simp⟩
    constructor
    · rintro ⟨ps, h⟩; cases h
    · intro hv; rw [hv.unquantized] at hq; exact absurd hq Bool.false_ne_true
  · rw [he]
    refine ⟨by simp [hq], ?_, ?_, by simp⟩
    · simp only [true_iff]
      refine ⟨hq, ?_⟩
      rcases hnv.mp hv with h | h
      · rw [hq] at h; exact absurd h Bool.false_ne_true
      · exact h
    · constructor
      · rintro ⟨ps, h⟩; cases h
      · intro hv'; exact absurd hv' hv
  · rw [he]
    refine ⟨by simp [hv.unquantized], ?_, ⟨fun _ => hv, fun _ => ⟨_, rfl⟩⟩, by simp⟩
    constructor
    · intro h; cases h
    · rintro ⟨_, h⟩
      exact absurd hv (hnv.mpr (Or.inr h))

/-- `extract_subsequence`: `ValueError` iff `start > end` or `start ≥ total_time` -/
theorem extract_subsequence_spec (R : Rat → Rat) (preserve : List Int) (s : NoteSeq) (a b : Rat) :
    extractSubsequenceR R preserve s a b =
      if s.isQuantized then .error .quantizationStatusError
      else if a > b ∨ s.totalTime ≤ a then .error .valueError
      else .ok (specPiece R preserve s (a, b)) := by
  unfold extractSubsequenceR extractSubsequencesR
  by_cases hq : s.isQuantized = true
  · simp [hq]
  · simp only [hq, Bool.false_eq_true, ↓reduceIte, pairs, List.any_cons, List.any_nil, Bool.or_false]
    by_cases h1 : a > b
    · simp [h1]
    · by_cases h2 : s.totalTime ≤ a
      · simp [h1, h2]
      · have hs : SortedLE [a, b] := by simp [SortedLE]; exact Rat.not_lt.mp h1
        simp only [h1, h2, decide_false, Bool.false_eq_true, ↓reduceIte, or_self]
        rw [assemble_eq_spec R preserve s a [b] hs]
        simp [pairs]

/-! ## notes -/

/-- piece `i` holds exactly the notes starting in `[a, b)`, in stable start order, shifted by `-a`
with the end clipped to `b`; every other attribute is untouched (`clipR` changes `start`/`end_` only) -/
theorem extract_notes_spec (hv : Valid s st) (h : extractSubsequencesR R preserve s st = .ok ps)
    {i : Nat} {a b : Rat} (ha : st[i]? = some a) (hb : st[i + 1]? = some b) :
    ∃ p, ps[i]? = some p ∧
      p.notes = ((sortByRat (·.start) s.notes).filter
        (fun n => decide (a ≤ n.start) && decide (n.start < b))).map (clipR R a b) :=
  ⟨_, extract_piece hv h ha hb, rfl⟩

/-- what `clipR` does, field by field -/
theorem clipR_fields (R : Rat → Rat) (a b : Rat) (n : Note) :
    (clipR R a b n).start = R (n.start - a) ∧ (clipR R a b n).end_ = R (min n.end_ b - a) ∧
    { clipR R a b n with start := n.start, end_ := n.end_ } = n := ⟨rfl, rfl, rfl⟩

/-- **nothing lost, nothing invented**: there are selections `sel[i]` of the original notes with
piece `i` = `sel[i]` clipped, every selected note starts inside its piece, and all selections together
are a permutation (multiset equality) of the notes starting in `[first split, last split)`. -/
theorem extract_partition (hv : Valid s st) (h : extractSubsequencesR R preserve s st = .ok ps)
    {t0 tl : Rat} (h0 : st.head? = some t0) (hl : st.getLast? = some tl) :
    ∃ sel : List (List Note), sel.length = ps.length ∧
      (∀ i a b, st[i]? = some a → st[i + 1]? = some b →
        ∃ p l, ps[i]? = some p ∧ sel[i]? = some l ∧ p.notes = l.map (clipR R a b) ∧
          ∀ n ∈ l, a ≤ n.start ∧ n.start < b) ∧
      sel.flatten.Perm (s.notes.filter (fun n => decide (t0 ≤ n.start) && decide (n.start < tl))) := by
  have hps := extract_pieces hv h
  refine ⟨(pairs st).map (fun ab => (sortByRat (·.start) s.notes).filter (inIv ab.1 ab.2)), ?_, ?_, ?_⟩
  · rw [hps]; simp
  · intro i a b ha hb
    refine ⟨_, _, extract_piece hv h ha hb, ?_, rfl, ?_⟩
    · rw [List.getElem?_map, (pairs_getElem? st i a b).mpr ⟨ha, hb⟩]; rfl
    · intro n hn
      have := (List.mem_filter.mp hn).2
      simpa [inIv] using this
  · obtain ⟨_, h2, hs, _⟩ := hv
    match st, h2 with
    | x :: y :: r, _ =>
      simp only [List.head?_cons, Option.some.injEq] at h0
      subst h0
      have hl' : (x :: y :: r).getLast (List.cons_ne_nil _ _) = tl := by
        rw [List.getLast?_eq_some_getLast (List.cons_ne_nil _ _)] at hl
        exact Option.some.inj hl
      have := filter_pairs_perm (sortByRat (·.start) s.notes) x (y :: r) hs
      rw [hl'] at this
      exact this.trans ((sortByRat_perm _ _).filter _)

/-- every note of every piece is a clipped original note -/
theorem extract_notes_nothing_invented (hv : Valid s st)
    (h : extractSubsequencesR R preserve s st = .ok ps) :
    ∀ p ∈ ps, ∀ m ∈ p.notes, ∃ n ∈ s.notes, ∃ a b, m = clipR R a b n := by
  intro p hp m hm
  rw [extract_pieces hv h] at hp
  obtain ⟨ab, _, rfl⟩ := List.mem_map.mp hp
  simp only [specPiece, specNotes] at hm
  obtain ⟨n, hn, rfl⟩ := List.mem_map.mp hm
  exact ⟨n, (sortByRat_perm _ _).mem_iff.mp (List.mem_filter.mp hn).1, _, _, rfl⟩

/-! ## state in effect (tempo, time signature, key signature, chord symbol) -/

/-- closed form of the four state containers of piece `i`: the last event at or before `a` in stable
time order re-emitted at time 0, then the events strictly inside `(a, b)` shifted by `-a`.  An event
exactly at `b` is not in the piece; it is the carried state of the next one. -/
theorem state_pieces_spec (hv : Valid s st) (h : extractSubsequencesR R preserve s st = .ok ps)
    {i : Nat} {a b : Rat} (ha : st[i]? = some a) (hb : st[i + 1]? = some b) :
    ∃ p, ps[i]? = some p ∧
      p.timeSigs = specState R (·.time) TimeSig.setTime s.timeSigs a b ∧
      p.keySigs = specState R (·.time) KeySig.setTime s.keySigs a b ∧
      p.tempos = specState R (·.time) Tempo.setTime s.tempos a b ∧
      chords p = specState R (·.time) TextAnn.setTime (chords s) a b := by
  refine ⟨_, extract_piece hv h ha hb, rfl, rfl, rfl, ?_⟩
  have hne : Gen.BEAT ≠ Gen.CHORD_SYMBOL := by decide
  simp only [chords, specPiece, List.filter_append]
  have h1 : (specBeats R s a b).filter (fun x => x.kind == Gen.CHORD_SYMBOL) = [] := by
    rw [List.filter_eq_nil_iff]
    intro x hx
    simp only [specBeats, List.mem_map] at hx
    obtain ⟨e, he, rfl⟩ := hx
    have he' := (List.mem_filter.mp he).1
    have hk := (List.mem_filter.mp ((sortByRat_perm _ _).mem_iff.mp he')).2
    simp only [beq_iff_eq] at hk
    simp [TextAnn.setTime, hk, hne]
  have h2 : (specState R (·.time) TextAnn.setTime (s.texts.filter (fun x => x.kind == Gen.CHORD_SYMBOL)) a b).filter
      (fun x => x.kind == Gen.CHORD_SYMBOL) =
      specState R (·.time) TextAnn.setTime (s.texts.filter (fun x => x.kind == Gen.CHORD_SYMBOL)) a b := by
    rw [List.filter_eq_self]
    intro x hx
    have hall : ∀ e ∈ sortByRat (·.time) (s.texts.filter (fun x => x.kind == Gen.CHORD_SYMBOL)),
        e.kind = Gen.CHORD_SYMBOL := by
      intro e he
      have := (List.mem_filter.mp ((sortByRat_perm _ _).mem_iff.mp he)).2
      simpa using this
    simp only [specState, List.mem_append] at hx
    rcases hx with hx | hx
    · cases hl : ((sortByRat (·.time) (s.texts.filter (fun x => x.kind == Gen.CHORD_SYMBOL))).filter
          (fun e => decide (e.time ≤ a))).getLast? with
      | none => simp [hl] at hx
      | some e =>
        simp [hl] at hx; subst hx
        have := hall e (List.mem_filter.mp (List.mem_of_getLast? hl)).1
        simp [TextAnn.setTime, this]
    · obtain ⟨e, he, rfl⟩ := List.mem_map.mp hx
      have := hall e (List.mem_filter.mp he).1
      simp [TextAnn.setTime, this]
  rw [h1, h2]; simp

/-- **generic in-effect lemma** (exact arithmetic): at every instant `0 ≤ τ < b - a` of a piece the
event in effect carries the same value as the one in effect at `a + τ` in the original, for every
`val` that does not look at the time. -/
theorem extract_state_in_effect {α β : Type} (time : α → Rat) (setTime : α → Rat → α) (val : α → β)
    (htime : ∀ e t, time (setTime e t) = t) (hval : ∀ e t, val (setTime e t) = val e)
    (evs : List α) (a b τ : Rat) (h0 : 0 ≤ τ) (h1 : τ < b - a) :
    (inEffect time (specState id time setTime evs a b) τ).map val = (inEffect time evs (a + τ)).map val :=
  specState_in_effect time setTime val htime hval evs a b τ h0 h1

section inEffect
variable (hv : Valid s st) (h : extractSubsequencesR id preserve s st = .ok ps)
  {i : Nat} {a b τ : Rat} (ha : st[i]? = some a) (hb : st[i + 1]? = some b) (h0 : 0 ≤ τ) (h1 : τ < b - a)
include hv h ha hb h0 h1

theorem extract_timeSigs_in_effect :
    ∃ p, ps[i]? = some p ∧
      (inEffect (·.time) p.timeSigs τ).map (TimeSig.setTime · 0) =
        (inEffect (·.time) s.timeSigs (a + τ)).map (TimeSig.setTime · 0) :=
 by
  refine ⟨specPiece id preserve s (a, b), extract_piece hv h ha hb, ?_⟩
  show (inEffect (·.time) (specState id (·.time) TimeSig.setTime s.timeSigs a b) τ).map (TimeSig.setTime · 0) = _
  exact specState_in_effect (·.time) TimeSig.setTime (TimeSig.setTime · 0) (fun _ _ => rfl) (fun _ _ => rfl)
    s.timeSigs a b τ h0 h1

theorem extract_keySigs_in_effect :
    ∃ p, ps[i]? = some p ∧
      (inEffect (·.time) p.keySigs τ).map (KeySig.setTime · 0) =
        (inEffect (·.time) s.keySigs (a + τ)).map (KeySig.setTime · 0) :=
 by
  refine ⟨specPiece id preserve s (a, b), extract_piece hv h ha hb, ?_⟩
  show (inEffect (·.time) (specState id (·.time) KeySig.setTime s.keySigs a b) τ).map (KeySig.setTime · 0) = _
  exact specState_in_effect (·.time) KeySig.setTime (KeySig.setTime · 0) (fun _ _ => rfl) (fun _ _ => rfl)
    s.keySigs a b τ h0 h1

theorem extract_tempos_in_effect :
    ∃ p, ps[i]? = some p ∧
      (inEffect (·.time) p.tempos τ).map (Tempo.setTime · 0) =
        (inEffect (·.time) s.tempos (a + τ)).map (Tempo.setTime · 0) :=
 by
  refine ⟨specPiece id preserve s (a, b), extract_piece hv h ha hb, ?_⟩
  show (inEffect (·.time) (specState id (·.time) Tempo.setTime s.tempos a b) τ).map (Tempo.setTime · 0) = _
  exact specState_in_effect (·.time) Tempo.setTime (Tempo.setTime · 0) (fun _ _ => rfl) (fun _ _ => rfl)
    s.tempos a b τ h0 h1

theorem extract_chords_in_effect :
    ∃ p, ps[i]? = some p ∧
      (inEffect (·.time) (chords p) τ).map (TextAnn.setTime · 0) =
        (inEffect (·.time) (chords s) (a + τ)).map (TextAnn.setTime · 0) := by
  obtain ⟨p, hp, _, _, _, hc⟩ := state_pieces_spec hv h ha hb
  refine ⟨p, hp, ?_⟩
  rw [hc]
  exact specState_in_effect (·.time) TextAnn.setTime (TextAnn.setTime · 0) (fun _ _ => rfl) (fun _ _ => rfl)
    (chords s) a b τ h0 h1

/-- per `(instrument, control number)`: the pedal value in effect (all fields but the time) -/
theorem extract_pedal_in_effect (κ : PedalKey) :
    ∃ p, ps[i]? = some p ∧
      (inEffectKey p.ccs κ τ).map (CC.setTime · 0) =
        (inEffectKey (pedals preserve s) κ (a + τ)).map (CC.setTime · 0) :=
 by
  refine ⟨specPiece id preserve s (a, b), extract_piece hv h ha hb, ?_⟩
  show (inEffectKey (specPedals id preserve s a b) κ τ).map (CC.setTime · 0) = _
  exact specPedals_in_effect preserve s a b τ κ h0 h1

end inEffect

/-- boundary rule: every state event of a (non-empty) piece has `0 ≤ time < b - a`; hence an event
exactly at the end `b` of piece `i` is not in piece `i` — by `extract_…_in_effect` at `τ = 0` it is the
state in effect at the start of piece `i+1`. -/
theorem extract_boundary_event_goes_to_later_piece (hv : Valid s st)
    (h : extractSubsequencesR id preserve s st = .ok ps)
    {i : Nat} {a b : Rat} (ha : st[i]? = some a) (hb : st[i + 1]? = some b) (hab : a < b) :
    ∃ p, ps[i]? = some p ∧
      (∀ x ∈ p.timeSigs, 0 ≤ x.time ∧ x.time < b - a) ∧ (∀ x ∈ p.keySigs, 0 ≤ x.time ∧ x.time < b - a) ∧
      (∀ x ∈ p.tempos, 0 ≤ x.time ∧ x.time < b - a) ∧ (∀ x ∈ chords p, 0 ≤ x.time ∧ x.time < b - a) := by
  obtain ⟨p, hp, h1, h2, h3, h4⟩ := state_pieces_spec hv h ha hb
  refine ⟨p, hp, ?_, ?_, ?_, ?_⟩
  · have := specState_times (α := TimeSig) (fun e => e.time) TimeSig.setTime (fun _ _ => rfl) s.timeSigs a b hab
    rw [h1]; exact this
  · have := specState_times (α := KeySig) (fun e => e.time) KeySig.setTime (fun _ _ => rfl) s.keySigs a b hab
    rw [h2]; exact this
  · have := specState_times (α := Tempo) (fun e => e.time) Tempo.setTime (fun _ _ => rfl) s.tempos a b hab
    rw [h3]; exact this
  · have := specState_times (α := TextAnn) (fun e => e.time) TextAnn.setTime (fun _ _ => rfl) (chords s) a b hab
    rw [h4]; exact this

/-! ## control changes and pitch bends -/

theorem foldl_assocSet_mem (l : List CC) (m : List (PedalKey × CC)) :
    ∀ kv ∈ l.foldl (fun m e => assocSet m (CC.key e) e) m, kv ∈ m ∨ kv.2 ∈ l := by
  induction l generalizing m with
  | nil => intro kv hkv; exact Or.inl hkv
  | cons e es ih =>
    intro kv hkv
    simp only [List.foldl_cons] at hkv
    rcases ih _ kv hkv with h | h
    · have : ∀ m : List (PedalKey × CC), ∀ kv ∈ assocSet m (CC.key e) e, kv ∈ m ∨ kv = (CC.key e, e) := by
        intro m
        induction m with
        | nil => intro kv hkv; simp [assocSet] at hkv; exact Or.inr hkv
        | cons x r ihm =>
          intro kv hkv
          by_cases hk : x.1 = CC.key e
          · simp only [assocSet, hk, ↓reduceIte, List.mem_cons] at hkv
            rcases hkv with h | h
            · exact Or.inr h
            · exact Or.inl (List.mem_cons_of_mem _ h)
          · simp only [assocSet, hk, ↓reduceIte, List.mem_cons] at hkv
            rcases hkv with h | h
            · exact Or.inl (h ▸ List.mem_cons_self)
            · rcases ihm kv h with h' | h'
              · exact Or.inl (List.mem_cons_of_mem _ h')
              · exact Or.inr h'
      rcases this m kv h with h' | h'
      · exact Or.inl h'
      · right; rw [h']; simp
    · exact Or.inr (List.mem_cons_of_mem _ h)

/-- pitch bends are dropped and only control changes whose number is in the preserve list survive -/
theorem extract_other_controls_and_bends_dropped (hv : Valid s st)
    (h : extractSubsequencesR R preserve s st = .ok ps) :
    ∀ p ∈ ps, p.bends = [] ∧ ∀ c ∈ p.ccs, preserve.contains c.number = true := by
  intro p hp
  rw [extract_pieces hv h] at hp
  obtain ⟨ab, _, rfl⟩ := List.mem_map.mp hp
  refine ⟨rfl, ?_⟩
  intro c hc
  have hS : ∀ e ∈ sortByRat (·.time) (pedals preserve s), preserve.contains e.number = true := by
    intro e he
    exact (List.mem_filter.mp ((sortByRat_perm _ _).mem_iff.mp he)).2
  simp only [specPiece, specPedals, pieceSpec, List.mem_append] at hc
  rcases hc with hc | hc
  · simp only [pedalL, memAt, List.mem_map] at hc
    obtain ⟨kv, hkv, rfl⟩ := hc
    rcases foldl_assocSet_mem _ [] kv hkv with h' | h'
    · simp at h'
    · exact hS kv.2 (List.mem_filter.mp h').1
  · simp only [inside, pedalL, List.mem_map] at hc
    obtain ⟨e, he, rfl⟩ := hc
    exact hS e (List.mem_filter.mp he).1

/-! ## beats, text container, totals, subsequence_info, frame -/

/-- BEAT annotations follow the note rule: those with `a ≤ time < b`, stable time order, shifted -/
theorem extract_beats (hv : Valid s st) (h : extractSubsequencesR R preserve s st = .ok ps)
    {i : Nat} {a b : Rat} (ha : st[i]? = some a) (hb : st[i + 1]? = some b) :
    ∃ p, ps[i]? = some p ∧
      beats p = ((sortByRat (·.time) (beats s)).filter
        (fun e => decide (a ≤ e.time) && decide (e.time < b))).map
          (fun e => TextAnn.setTime e (R (e.time - a))) := by
  obtain ⟨p, hp, _, _, _, hc⟩ := state_pieces_spec hv h ha hb
  have hpe := extract_piece hv h ha hb
  rw [hp] at hpe
  have hp' : p = specPiece R preserve s (a, b) := Option.some.inj hpe
  refine ⟨p, hp, ?_⟩
  have hne : Gen.CHORD_SYMBOL ≠ Gen.BEAT := by decide
  have htexts : p.texts = specState R (·.time) TextAnn.setTime (chords s) a b ++ specBeats R s a b := by
    rw [hp']; rfl
  have hch : ∀ x ∈ specState R (·.time) TextAnn.setTime (chords s) a b, x.kind = Gen.CHORD_SYMBOL := by
    intro x hx
    rw [← hc] at hx
    have := (List.mem_filter.mp hx).2
    simpa using this
  have hbt : ∀ x ∈ specBeats R s a b, x.kind = Gen.BEAT := by
    intro x hx
    simp only [specBeats, List.mem_map] at hx
    obtain ⟨e, he, rfl⟩ := hx
    have he' := (List.mem_filter.mp he).1
    have hk := (List.mem_filter.mp ((sortByRat_perm _ _).mem_iff.mp he')).2
    simpa [TextAnn.setTime] using hk
  unfold beats
  rw [htexts, List.filter_append]
  have h1 : (specState R (·.time) TextAnn.setTime (chords s) a b).filter
      (fun x => x.kind == Gen.BEAT) = [] := by
    rw [List.filter_eq_nil_iff]; intro x hx
    have := hch x hx
    simp [this, hne]
  have h2 : (specBeats R s a b).filter (fun x => x.kind == Gen.BEAT) = specBeats R s a b := by
    rw [List.filter_eq_self]; intro x hx; simp [hbt x hx]
  rw [h1, h2]; rfl

/-- the text container of a piece: chord symbols (with carried state) first, then beats; nothing else -/
theorem extract_texts (hv : Valid s st) (h : extractSubsequencesR R preserve s st = .ok ps)
    {i : Nat} {a b : Rat} (ha : st[i]? = some a) (hb : st[i + 1]? = some b) :
    ∃ p, ps[i]? = some p ∧
      p.texts = specState R (·.time) TextAnn.setTime (chords s) a b ++ specBeats R s a b :=
  ⟨_, extract_piece hv h ha hb, rfl⟩

/-- `total_time` of a piece is its largest (clipped) note end, `0` if it has no note -/
theorem extract_total_time (hv : Valid s st) (h : extractSubsequencesR R preserve s st = .ok ps) :
    ∀ p ∈ ps, 0 ≤ p.totalTime ∧ (∀ n ∈ p.notes, n.end_ ≤ p.totalTime) ∧
      (p.totalTime = 0 ∨ ∃ n ∈ p.notes, n.end_ = p.totalTime) := by
  intro p hp
  rw [extract_pieces hv h] at hp
  obtain ⟨ab, _, rfl⟩ := List.mem_map.mp hp
  exact pieceTotal_spec _

/-- `subsequence_info`: start offset = the split time, end offset = `(total - a) - piece total` -/
theorem extract_subsequence_info (hv : Valid s st) (h : extractSubsequencesR R preserve s st = .ok ps)
    {i : Nat} {a b : Rat} (ha : st[i]? = some a) (hb : st[i + 1]? = some b) :
    ∃ p, ps[i]? = some p ∧ p.hasSub = true ∧ p.subStart = a ∧
      p.subEnd = R (R (s.totalTime - a) - p.totalTime) :=
  ⟨_, extract_piece hv h ha hb, rfl, rfl, rfl⟩

/-- everything the extractor does not slice is copied unchanged -/
theorem extract_frame (hv : Valid s st) (h : extractSubsequencesR R preserve s st = .ok ps) :
    ∀ p ∈ ps, p.sectionAnns = s.sectionAnns ∧ p.sgroups = s.sgroups ∧ p.totalQSteps = s.totalQSteps ∧
      p.spq = s.spq ∧ p.sps = s.sps ∧ p.tpq = s.tpq ∧ p.metaTag = s.metaTag := by
  intro p hp
  rw [extract_pieces hv h] at hp
  obtain ⟨ab, _, rfl⟩ := List.mem_map.mp hp
  exact ⟨rfl, rfl, rfl, rfl, rfl, rfl, rfl⟩

/-! ## split vectors -/

/-- the vector handed to the extractor: `0`, the accepted candidates, and `total_time` if it lies
beyond the last of them (the trailing piece ends at `total_time`); no piece iff that vector has one
element, i.e. nothing was accepted and `total_time ≤ 0`. -/
theorem split_with_spec (R : Rat → Rat) (preserve : List Int) (s : NoteSeq) (vs : List Rat) :
    splitWith R preserve s vs =
      (if s.totalTime > (0 :: vs).getLast (List.cons_ne_nil _ _)
        then extractSubsequencesR R preserve s ((0 :: vs) ++ [s.totalTime])
        else if vs = [] then .ok [] else extractSubsequencesR R preserve s (0 :: vs)) := by
  unfold splitWith
  by_cases h : s.totalTime > (0 :: vs).getLast (List.cons_ne_nil _ _)
  · simp [h]
  · simp only [h, ↓reduceIte]
    cases vs with
    | nil => simp
    | cons v r => simp

/-- list form of `split_note_sequence`: the candidates are the sorted given times; a candidate `t` is
dropped iff `skip_splits_inside_notes` and some note has `start < t < end` -/
theorem split_hop_list_times (R : Rat → Rat) (preserve : List Int) (s : NoteSeq) (hops : List Rat)
    (skip : Bool) :
    splitHopListR R preserve s hops skip =
      splitWith R preserve s ((sortByRat id hops).filter (keep skip s.notes)) := by
  unfold splitHopListR sortedNotes
  rw [hopLoop_eq_filter skip _ _ (sortByRat_pairwise id hops) (sortByRat_pairwise _ _)]
  congr 1
  apply List.filter_congr
  intro t _
  exact keep_perm skip (sortByRat_perm _ _) t

/-- float hop size, exact arithmetic, `h > 0`: the candidates are the hop multiples (see `hop_times_exact`) -/
theorem split_hop_times (preserve : List Int) (s : NoteSeq) (h : Rat) (hh : 0 < h) (skip : Bool) :
    splitHopR id preserve s h skip =
      splitWith id preserve s ((hopTimesR id h s.totalTime).filter (keep skip s.notes)) := by
  unfold splitHopR sortedNotes
  have : h ≠ 0 := by grind
  simp only [this, ↓reduceIte]
  rw [hopLoop_eq_filter skip _ _ (hopTimes_sorted h s.totalTime hh) (sortByRat_pairwise _ _)]
  congr 1
  apply List.filter_congr
  intro t _
  exact keep_perm skip (sortByRat_perm _ _) t

/-- the candidates of a hop size `h > 0` are exactly the multiples `k·h`, `k ≥ 1`, below `total_time`,
in increasing order -/
theorem hop_times_exact (h total : Rat) (hh : 0 < h) :
    (∀ t, t ∈ hopTimesR id h total ↔ ∃ k : Nat, 1 ≤ k ∧ t = (k : Rat) * h ∧ t < total) ∧
    SortedLE (hopTimesR id h total) :=
  ⟨mem_hopTimes h total hh, hopTimes_sorted h total hh⟩

/-- `split_note_sequence_on_silence`: a note onset is a split point iff it is more than `gap` after
`max(0, ends of all earlier notes in stable start order)` -/
theorem split_silence_times (R : Rat → Rat) (preserve : List Int) (s : NoteSeq) (gap : Rat) :
    splitSilenceR R preserve s gap =
      splitWith R preserve s (silenceOnsets R gap [] (sortedNotes s)) ∧
    ∀ t, t ∈ silenceOnsets R gap [] (sortedNotes s) ↔
      ∃ l₁ n l₂, sortedNotes s = l₁ ++ n :: l₂ ∧ n.start = t ∧ n.start > R (lastActive l₁ + gap) := by
  refine ⟨?_, ?_⟩
  · unfold splitSilenceR; rw [silLoop_eq]
  · intro t
    have := mem_silenceOnsets R gap [] (sortedNotes s) t
    simpa using this

/-- `split_note_sequence_on_time_changes`: with `G` the genuine changes (events before `total_time`, in
stable time order with time signatures before tempos at equal times, whose numerator/denominator resp.
qpm differs from the value in force — `genuineP` spells "in force" out as the value of the last earlier
event of that kind, default 4/4 and `dq`), the accepted split times are strictly increasing and are
exactly the positive times of genuine changes at which no note sounds (when `skip` is set). -/
theorem split_time_change_times (R : Rat → Rat) (preserve : List Int) (dq : Rat) (s : NoteSeq) (skip : Bool) :
    splitTimeChangesR R preserve dq s skip =
      splitWith R preserve s
        (incr 0 (((genuine (timeChanges s) 4 4 dq).map TC.time).filter (keep skip s.notes))) ∧
    (incr 0 (((genuine (timeChanges s) 4 4 dq).map TC.time).filter (keep skip s.notes))).Pairwise
      (fun a b => a < b) ∧
    (∀ t, t ∈ incr 0 (((genuine (timeChanges s) 4 4 dq).map TC.time).filter (keep skip s.notes)) ↔
      0 < t ∧ keep skip s.notes t = true ∧ ∃ e ∈ genuine (timeChanges s) 4 4 dq, e.time = t) ∧
    genuine (timeChanges s) 4 4 dq = genuineP (4, 4) dq [] (timeChanges s) := by
  have hsorted := genuine_times_sorted s 4 4 dq
  have hf : SortedLE (((genuine (timeChanges s) 4 4 dq).map TC.time).filter (keep skip s.notes)) :=
    hsorted.filter _
  obtain ⟨i1, i2⟩ := incr_spec _ 0 hf
  refine ⟨?_, i1, ?_, ?_⟩
  · unfold splitTimeChangesR sortedNotes
    rw [tcLoop_eq_tcAcc, tcAcc_general skip _ _ [] 0 [] hsorted (sortByRat_pairwise _ _) (by simp)]
    congr 1
    simp only [List.nil_append]
    congr 1
    apply List.filter_congr
    intro t _
    exact keep_perm skip (sortByRat_perm _ _) t
  · intro t
    rw [i2, List.mem_filter, List.mem_map]
    constructor
    · rintro ⟨⟨⟨e, he, rfl⟩, hk⟩, h0⟩; exact ⟨h0, hk, e, he, rfl⟩
    · rintro ⟨h0, hk, e, he, rfl⟩; exact ⟨⟨⟨e, he, rfl⟩, hk⟩, h0⟩
  · have := genuine_eq_genuineP (4, 4) dq (timeChanges s) []
    simpa [tsForce, tpForce] using this

/-! ## trim -/

theorem trim_spec (s : NoteSeq) (a b : Rat) (hq : s.isQuantized = false) :
    ∃ p, trim s a b = .ok p ∧
      p.notes = (s.notes.filter (fun n => decide (a ≤ n.start) && decide (n.start < b))).map
        (fun n => { n with end_ := min n.end_ b }) ∧
      p.totalTime = min s.totalTime b ∧
      { p with notes := s.notes, totalTime := s.totalTime } = s := by
  unfold trim
  simp only [hq, Bool.false_eq_true, ↓reduceIte]
  refine ⟨_, rfl, ?_, rfl, rfl⟩
  simp only
  congr 1
  apply List.filter_congr
  intro n _
  by_cases h1 : n.start < a <;> by_cases h2 : n.start < b <;> simp [h1, h2] <;> grind

theorem trim_errors (s : NoteSeq) (a b : Rat) :
    trim s a b = .error .quantizationStatusError ↔ s.isQuantized = true := by
  unfold trim
  by_cases hq : s.isQuantized = true <;> simp [hq]

/-! ## non-vacuity: the hypotheses are satisfiable by a non-trivial input -/

def exNote (p : Int) (a b : Rat) : Note :=
  { pitch := p, velocity := 80, start := a, end_ := b, qs := 0, qe := 0, instrument := 0, program := 0,
    isDrum := false, numerator := 0, denominator := 0, voice := 0, part := 0, pitchName := 0 }

/-- three notes (one cut by the split at 2, one starting exactly on it), a tempo change exactly on a
split time, a time signature before the first cut, pedal events on two instruments -/
def exSeq : NoteSeq :=
  { notes := [exNote 64 (3/2) 3, exNote 60 0 1, exNote 62 2 (5/2)],
    tempos := [⟨0, 120⟩, ⟨2, 60⟩], timeSigs := [⟨1/2, 3, 4⟩],
    texts := [⟨0, 0, Gen.CHORD_SYMBOL, "C"⟩, ⟨2, 0, Gen.BEAT, ""⟩],
    ccs := [⟨1/2, 0, 64, 127, 0, 0, false⟩, ⟨1, 0, 64, 0, 1, 0, false⟩, ⟨3/2, 0, 7, 1, 0, 0, false⟩],
    totalTime := 3 }

example : Valid exSeq [1, 2, 3] := ⟨by decide, by decide, by decide, by decide⟩
example : ∃ ps, extractSubsequencesR id Gen.PRESERVE exSeq [1, 2, 3] = .ok ps ∧ ps.length = 2 :=
  ⟨_, extract_eq_spec id Gen.PRESERVE exSeq [1, 2, 3] ⟨by decide, by decide, by decide, by decide⟩, by simp [pairs]⟩
-- piece boundaries and an instant strictly inside the piece, as the `…_in_effect` theorems need
example : ([1, 2, 3] : List Rat)[0]? = some 1 ∧ ([1, 2, 3] : List Rat)[0 + 1]? = some 2 ∧
    (0 : Rat) ≤ 1/2 ∧ (1/2 : Rat) < 2 - 1 := by decide +kernel
example : ([1, 2, 3] : List Rat).head? = some 1 ∧ ([1, 2, 3] : List Rat).getLast? = some 3 := by decide
-- rejected inputs exist for each clause of `extract_errors`
example : ¬ SortedLE [2, 1] := by decide
example : ∃ t ∈ ([1, 3, 4] : List Rat).dropLast, exSeq.totalTime ≤ t := ⟨3, by decide, by decide⟩
example : ({ exSeq with spq := 4 } : NoteSeq).isQuantized = true := by decide
-- a positive hop size below the total time; the trim hypothesis
example : (0 : Rat) < 3/4 ∧ ∃ k : Nat, 1 ≤ k ∧ (k : Rat) * (3/4) < exSeq.totalTime := ⟨by decide +kernel, 3, by decide, by decide +kernel⟩
example : exSeq.isQuantized = false := by decide
-- genuine changes exist: the second tempo differs from the one in force, the first does not
example : genuine [.tp ⟨0, 120⟩, .ts ⟨1/2, 3, 4⟩, .tp ⟨2, 60⟩] 4 4 120 = [.ts ⟨1/2, 3, 4⟩, .tp ⟨2, 60⟩] := by
  decide +kernel

end NSV.C02
