import NoteSeqVerif.Props.C19
/-! C19 — property theorems about WHICH notes are "real" (pitched) notes: the table of unpitched programs regenerated
from `constants.UNPITCHED_PROGRAMS` (its own module, so that a changed table breaks exactly the obligations below and
the report names them). -/
namespace NSV.C19

/-! ## which programs count as unpitched: the table regenerated from `constants.UNPITCHED_PROGRAMS` is the General MIDI one

General MIDI: programs 97-104 (synth effects), 113-120 (percussive) and 121-128 (sound effects), 1-based, i.e. 96..103
and 112..127 0-based.  `Generated/C19.lean` carries the table as it is in the source on every run; a changed table
(one program more or less) breaks `unpitched_table_gm`, and with it the reading of "real note" in the theorems below. -/

/-- the regenerated table is exactly 96..103 ∪ 112..127 -/
theorem unpitched_table_gm : Gen.unpitchedPrograms = List.range' 96 8 ++ List.range' 112 16 := by decide

/-- … hence, for EVERY program number: filtered out as unpitched iff it is a GM effect / percussive program -/
theorem unpitched_iff (p : Nat) :
    Gen.unpitchedPrograms.contains p = true ↔ (96 ≤ p ∧ p ≤ 103) ∨ (112 ≤ p ∧ p ≤ 127) := by
  rw [unpitched_table_gm]
  simp only [List.contains_eq_mem, List.mem_append, List.mem_range', decide_eq_true_eq]
  constructor
  · rintro (⟨i, hi, rfl⟩ | ⟨i, hi, rfl⟩) <;> omega
  · rintro (h | h)
    · exact Or.inl ⟨p - 96, by omega, by omega⟩
    · exact Or.inr ⟨p - 112, by omega, by omega⟩

/-- `noteFrames_onset` with the table read as General MIDI: the note behind an onset flag is not a drum note and its
program is neither in 96..103 nor in 112..127 (in particular not 127) -/
theorem noteFrames_onset_gm (all : List FNote) (total : Rat)
    (hpos : ∀ n ∈ all, 0 ≤ n.start ∧ 0 ≤ n.stop) (f pi : Nat)
    (h : (f, pi) ∈ (noteFrames all total).onsets) :
    ∃ n ∈ all, n.isDrum = false ∧ ¬ ((96 ≤ n.program ∧ n.program ≤ 103) ∨ (112 ≤ n.program ∧ n.program ≤ 127)) ∧
      (noteFrames all total).pitches[pi]? = some n.pitch ∧
      ((0 :: (noteFrames all total).eventTimes)[f]? = some n.start ∨ n.start = total) := by
  obtain ⟨n, hn, hd, hp, hpitch, _, ht⟩ := noteFrames_onset all total hpos f pi h
  refine ⟨n, hn, hd, ?_, hpitch, ht⟩
  intro hgm
  have := (unpitched_iff n.program).mpr hgm
  rw [hp] at this
  exact Bool.noConfusion this

/-- conversely every non-drum note whose program is outside the GM unpitched ranges is seen: its pitch is a state
pitch and its onset is flagged in the frame its start time falls into -/
theorem noteFrames_pitched_seen (all : List FNote) (total : Rat) (n : FNote) (hn : n ∈ all)
    (hd : n.isDrum = false)
    (hp : ¬ ((96 ≤ n.program ∧ n.program ≤ 103) ∨ (112 ≤ n.program ∧ n.program ≤ 127))) :
    n.pitch ∈ (noteFrames all total).pitches ∧
    ∃ pi, (bisectRight (noteFrames all total).eventTimes n.start, pi) ∈ (noteFrames all total).onsets := by
  have hc : Gen.unpitchedPrograms.contains n.program = false := by
    cases hb : Gen.unpitchedPrograms.contains n.program
    · rfl
    · exact absurd ((unpitched_iff n.program).mp hb) hp
  have hf : n ∈ all.filter fun n => !n.isDrum && !Gen.unpitchedPrograms.contains n.program :=
    List.mem_filter.mpr ⟨hn, by rw [hd, hc]; rfl⟩
  simp only [noteFrames]
  constructor
  · rw [mem_sortedSet]; exact List.mem_map.mpr ⟨n, hf, rfl⟩
  · exact ⟨_, (mem_sortedSet _ _).mpr (List.mem_map.mpr ⟨n, hf, rfl⟩)⟩

/-- non-vacuity: programs 95 / 104 / 111 are pitched, 96 / 103 / 112 / 127 are not -/
example : noteFrames [⟨60, 0, 1, false, 95⟩, ⟨61, 0, 1, false, 96⟩, ⟨62, 0, 1, false, 103⟩, ⟨63, 0, 1, false, 104⟩,
    ⟨64, 0, 1, false, 111⟩, ⟨65, 0, 1, false, 112⟩, ⟨66, 0, 1, false, 127⟩] 1 =
    ⟨[60, 63, 64], [], [(0, 0), (0, 1), (0, 2)], [(0, 0), (0, 1), (0, 2)]⟩ := by decide +kernel

end NSV.C19
