import NoteSeqVerif.Proofs.C12ASplit
import NoteSeqVerif.Proofs.Rounding
/-! C12 — extraction / splitting does not depend on the storage order of any repeated field
(corollaries of the closed forms proved for C02: `extract_eq_spec`, `split_with_spec`, …).

`NSPerm s s'`: `s'` is `s` with every repeated field permuted arbitrarily.  `ResPerm` / `ResPermList`:
same error, or the same sequence / the same number of sequences, position by position, up to storage
order.  `R` is the rounding operator applied after every float operation (`rne53` in the model that is
compared with the Python, `id` = exact arithmetic): every theorem holds for every `R`, so in
particular for the compiled float model (`extract_float_perm` … at the end).

Side condition `NoTies preserve s` (decidable, invariant under `NSPerm`): no two tempos / time
signatures / key signatures / chord symbols at one time, no two preserved control changes of one
(instrument, controller) at one time — the part of the property's quantifier extraction needs; the
notes are unrestricted.  `no_ties_needed` shows the condition cannot be dropped.
The silence splitter needs `SilenceOK` instead of a condition on ties (`silence_negative_gap_depends_on_order`
shows the model really depends on the storage order of two notes starting together when the gap is negative). -/
namespace NSV.C12
open NSV NSV.C02

/-! ## `_extract_subsequences`, `extract_subsequence`, `trim_note_sequence` -/

/-- `_extract_subsequences(sequence, split_times)`: for every split-time vector (valid or not) the
two storage orders give the same error, or the same number of pieces with piece `i` equal up to
storage order -/
theorem extractSubsequences_perm (R : Rat → Rat) (preserve : List Int) {s s' : NoteSeq}
    (h : NSPerm s s') (hn : NoTies preserve s) (st : List Rat) :
    ResPermList (extractSubsequencesR R preserve s st) (extractSubsequencesR R preserve s' st) :=
  extractSubsequences_perm_aux R preserve h hn st

/-- `extract_subsequence(sequence, start_time, end_time)` -/
theorem extractSubsequence_perm (R : Rat → Rat) (preserve : List Int) {s s' : NoteSeq}
    (h : NSPerm s s') (hn : NoTies preserve s) (a b : Rat) :
    ResPerm (extractSubsequenceR R preserve s a b) (extractSubsequenceR R preserve s' a b) := by
  rw [extract_subsequence_spec, extract_subsequence_spec, ← h.isQuantized, ← h.totalTime]
  split
  · rfl
  · split
    · rfl
    · exact specPiece_perm R preserve h hn (a, b)

/-- `trim_note_sequence(sequence, start_time, end_time)` — no side condition at all -/
theorem trim_perm {s s' : NoteSeq} (h : NSPerm s s') (a b : Rat) :
    ResPerm (trim s a b) (trim s' a b) := by
  unfold trim
  rw [← h.isQuantized]
  split
  · rfl
  · constructor <;> simp only []
    · exact (h.notes.filter _).map _
    · exact h.tempos
    · exact h.timeSigs
    · exact h.keySigs
    · exact h.texts
    · exact h.ccs
    · exact h.bends
    · exact h.sectionAnns
    · exact h.sgroups
    · rw [h.totalTime]
    · exact h.totalQSteps
    · exact h.spq
    · exact h.sps
    · exact h.hasSub
    · exact h.subStart
    · exact h.subEnd
    · exact h.tpq
    · exact h.metaTag

/-! ## the split family -/

/-- `split_note_sequence(sequence, [t₁, t₂, …], skip_splits_inside_notes)` (explicit times, any order,
any values) -/
theorem splitHopList_perm (R : Rat → Rat) (preserve : List Int) {s s' : NoteSeq} (h : NSPerm s s')
    (hn : NoTies preserve s) (hops : List Rat) (skip : Bool) :
    ResPermList (splitHopListR R preserve s hops skip) (splitHopListR R preserve s' hops skip) := by
  unfold splitHopListR
  rw [hopLoop_perm skip _ _ _ [] [] [] (sortedNotes_sorted s) (sortedNotes_sorted s')
    (sortedNotes_perm h) (List.Perm.refl _)]
  exact splitWith_perm R preserve h hn _

/-- `split_note_sequence(sequence, hop_size_seconds, skip_splits_inside_notes)` (float hop size: any
value, including 0, negative and — for `R = rne53` — one whose multiples round irregularly) -/
theorem splitHop_perm (R : Rat → Rat) (preserve : List Int) {s s' : NoteSeq} (h : NSPerm s s')
    (hn : NoTies preserve s) (hop : Rat) (skip : Bool) :
    ResPermList (splitHopR R preserve s hop skip) (splitHopR R preserve s' hop skip) := by
  unfold splitHopR
  split
  · rfl
  · rw [← h.totalTime, hopLoop_perm skip _ _ _ [] [] [] (sortedNotes_sorted s) (sortedNotes_sorted s')
      (sortedNotes_perm h) (List.Perm.refl _)]
    exact splitWith_perm R preserve h hn _

/-- `split_note_sequence_on_time_changes(sequence, skip_splits_inside_notes)` -/
theorem splitTimeChanges_perm (R : Rat → Rat) (preserve : List Int) (defaultQpm : Rat) {s s' : NoteSeq}
    (h : NSPerm s s') (hn : NoTies preserve s) (skip : Bool) :
    ResPermList (splitTimeChangesR R preserve defaultQpm s skip)
      (splitTimeChangesR R preserve defaultQpm s' skip) := by
  unfold splitTimeChangesR
  rw [← timeChanges_eq h hn.2.1 hn.1,
    tcLoop_perm skip _ _ _ _ _ _ [] [] _ _ (sortedNotes_sorted s) (sortedNotes_sorted s')
      (sortedNotes_perm h) (List.Perm.refl _)]
  exact splitWith_perm R preserve h hn _

/-- `split_note_sequence_on_silence(sequence, gap_seconds)`, under `SilenceOK R gap s.notes`: no note
starts after it ends, and `end ≤ x → end ≤ R (x + gap)` for every note end -/
theorem splitSilence_perm (R : Rat → Rat) (preserve : List Int) {s s' : NoteSeq} (h : NSPerm s s')
    (hn : NoTies preserve s) (gap : Rat) (hk : SilenceOK R gap s.notes) :
    ResPermList (splitSilenceR R preserve s gap) (splitSilenceR R preserve s' gap) := by
  rw [(split_silence_times R preserve s gap).1, (split_silence_times R preserve s' gap).1,
    silenceOnsets_perm R gap (sortedNotes_perm h) (sortedNotes_sorted s) (sortedNotes_sorted s')
      (hk.perm (sortByRat_perm' _ _).symm)]
  exact splitWith_perm R preserve h hn _

/-- exact arithmetic: every non-negative gap is fine -/
theorem silenceOK_exact {gap : Rat} (hg : 0 ≤ gap) {notes : List Note}
    (hv : ∀ n ∈ notes, n.start ≤ n.end_) : SilenceOK id gap notes :=
  ⟨hv, fun n _ x hx => by simp only [id]; grind⟩

/-- any monotone rounding that leaves the note ends alone (they are floats), non-negative gap -/
theorem silenceOK_of_mono {R : Rat → Rat} (hmono : ∀ a b, a ≤ b → R a ≤ R b) {gap : Rat} (hg : 0 ≤ gap)
    {notes : List Note} (hv : ∀ n ∈ notes, n.start ≤ n.end_) (hf : ∀ n ∈ notes, R n.end_ = n.end_) :
    SilenceOK R gap notes :=
  ⟨hv, fun n hn x hx => by
    have := hmono n.end_ (x + gap) (by grind)
    rw [hf n hn] at this
    exact this⟩

/-- float64: non-negative gap, note ends that are float64 values -/
theorem silenceOK_float {gap : Rat} (hg : 0 ≤ gap) {notes : List Note}
    (hv : ∀ n ∈ notes, n.start ≤ n.end_) (hf : ∀ n ∈ notes, rne53 n.end_ = n.end_) :
    SilenceOK rne53 gap notes :=
  silenceOK_of_mono (fun _ _ hab => rne53_mono hab) hg hv hf

/-! ## the compiled float model (what the driver `drv_c02` runs) -/

theorem extract_float_perm {s s' : NoteSeq} (h : NSPerm s s') (hn : NoTies Gen.PRESERVE s) :
    (∀ st, ResPermList (extractSubsequences s st) (extractSubsequences s' st)) ∧
    (∀ a b, ResPerm (extractSubsequence s a b) (extractSubsequence s' a b)) ∧
    (∀ hops skip, ResPermList (splitHopList s hops skip) (splitHopList s' hops skip)) ∧
    (∀ hop skip, ResPermList (splitHop s hop skip) (splitHop s' hop skip)) ∧
    (∀ skip, ResPermList (splitTimeChanges s skip) (splitTimeChanges s' skip)) ∧
    (∀ gap, 0 ≤ gap → (∀ n ∈ s.notes, n.start ≤ n.end_ ∧ rne53 n.end_ = n.end_) →
      ResPermList (splitSilence s gap) (splitSilence s' gap)) :=
  ⟨fun st => extractSubsequences_perm rne53 _ h hn st,
   fun a b => extractSubsequence_perm rne53 _ h hn a b,
   fun hops skip => splitHopList_perm rne53 _ h hn hops skip,
   fun hop skip => splitHop_perm rne53 _ h hn hop skip,
   fun skip => splitTimeChanges_perm rne53 _ _ h hn skip,
   fun gap hg hv => splitSilence_perm rne53 _ h hn gap
     (silenceOK_float hg (fun n hn => (hv n hn).1) (fun n hn => (hv n hn).2))⟩

/-! ## the side condition: invariant, decidable, satisfiable, necessary -/

/-- `NoTies` holds for one storage order iff it holds for every other -/
theorem noTies_perm {preserve : List Int} {s s' : NoteSeq} (h : NSPerm s s') :
    NoTies preserve s ↔ NoTies preserve s' :=
  ⟨fun hn => hn.perm h, fun hn => hn.perm h.symm⟩

/-- C02's example sequence with a second pedal event of the same instrument and a second chord -/
def exSeqA : NoteSeq :=
  { notes := [exNote 64 (3/2) 3, exNote 60 0 1, exNote 62 2 (5/2), exNote 67 2 3],
    tempos := [⟨0, 120⟩, ⟨2, 60⟩], timeSigs := [⟨1/2, 3, 4⟩, ⟨0, 4, 4⟩],
    keySigs := [⟨1, 2, 0⟩, ⟨0, 0, 0⟩],
    texts := [⟨0, 0, Gen.CHORD_SYMBOL, "C"⟩, ⟨2, 0, Gen.BEAT, ""⟩, ⟨1, 0, Gen.CHORD_SYMBOL, "G"⟩,
              ⟨2, 0, Gen.BEAT, ""⟩],
    ccs := [⟨1/2, 0, 64, 127, 0, 0, false⟩, ⟨1, 0, 64, 0, 1, 0, false⟩, ⟨3/2, 0, 7, 1, 0, 0, false⟩,
            ⟨1, 0, 64, 0, 0, 0, false⟩, ⟨1/2, 0, 66, 5, 0, 0, false⟩],
    totalTime := 3 }

/-- the same multiset, every repeated field stored in another order -/
def exSeqA' : NoteSeq :=
  { exSeqA with
    notes := [exNote 67 2 3, exNote 62 2 (5/2), exNote 60 0 1, exNote 64 (3/2) 3],
    tempos := [⟨2, 60⟩, ⟨0, 120⟩], timeSigs := [⟨0, 4, 4⟩, ⟨1/2, 3, 4⟩],
    keySigs := [⟨0, 0, 0⟩, ⟨1, 2, 0⟩],
    texts := [⟨2, 0, Gen.BEAT, ""⟩, ⟨1, 0, Gen.CHORD_SYMBOL, "G"⟩, ⟨2, 0, Gen.BEAT, ""⟩,
              ⟨0, 0, Gen.CHORD_SYMBOL, "C"⟩],
    ccs := [⟨1/2, 0, 66, 5, 0, 0, false⟩, ⟨1, 0, 64, 0, 0, 0, false⟩, ⟨3/2, 0, 7, 1, 0, 0, false⟩,
            ⟨1, 0, 64, 0, 1, 0, false⟩, ⟨1/2, 0, 64, 127, 0, 0, false⟩] }

-- the hypotheses are satisfiable by a non-trivial input: two notes and two pedal events at one time,
-- a tempo change on a split time, genuinely different storage orders
example : NoTies Gen.PRESERVE exSeqA := by decide +kernel
example : NSPerm exSeqA exSeqA' := by
  constructor <;> first | rfl | (simp only [exSeqA, exSeqA']; decide +kernel)
example : exSeqA.notes ≠ exSeqA'.notes := by decide +kernel
example : Valid exSeqA [1, 2, 3] := ⟨by decide, by decide, by decide, by decide⟩
example : SilenceOK id (1/2) exSeqA.notes :=
  silenceOK_exact (by decide +kernel) (by decide +kernel)

/-- two tempos stored at the same time, and the other storage order -/
def exTie : NoteSeq := { tempos := [⟨0, 120⟩, ⟨0, 60⟩], totalTime := 2 }
def exTie' : NoteSeq := { tempos := [⟨0, 60⟩, ⟨0, 120⟩], totalTime := 2 }

/-- **the side condition is necessary**: with two tempos at one time the extracted piece carries
whichever was stored last, so the results of the two storage orders are not equal up to storage order -/
theorem no_ties_needed :
    NSPerm exTie exTie' ∧ ¬ NoTies Gen.PRESERVE exTie ∧
    ¬ ResPerm (extractSubsequenceR id Gen.PRESERVE exTie 1 2) (extractSubsequenceR id Gen.PRESERVE exTie' 1 2) := by
  refine ⟨?_, by decide +kernel, ?_⟩
  · constructor <;> first | rfl | (simp only [exTie, exTie']; decide +kernel)
  · rw [extract_subsequence_spec, extract_subsequence_spec]
    have e1 : (specPiece id Gen.PRESERVE exTie (1, 2)).tempos = [⟨0, 60⟩] := by
      show specState id (·.time) Tempo.setTime exTie.tempos 1 2 = _
      unfold specState
      rw [sortByRat_of_pairwise _ _ (by decide +kernel)]
      decide +kernel
    have e2 : (specPiece id Gen.PRESERVE exTie' (1, 2)).tempos = [⟨0, 120⟩] := by
      show specState id (·.time) Tempo.setTime exTie'.tempos 1 2 = _
      unfold specState
      rw [sortByRat_of_pairwise _ _ (by decide +kernel)]
      decide +kernel
    have q1 : exTie.isQuantized = false := by decide
    have q2 : exTie'.isQuantized = false := by decide
    have t1 : ¬ ((1 : Rat) > 2 ∨ exTie.totalTime ≤ 1) := by decide +kernel
    have t2 : ¬ ((1 : Rat) > 2 ∨ exTie'.totalTime ≤ 1) := by decide +kernel
    simp only [q1, q2, Bool.false_eq_true, ↓reduceIte, t1, t2]
    intro hp
    have := hp.tempos
    rw [e1, e2] at this
    have := this.mem_iff (a := (⟨0, 60⟩ : Tempo))
    simp at this

/-- two notes of different pitch starting together, the longer stored second / first -/
def exSil : NoteSeq := { notes := [exNote 60 5 6, exNote 64 5 20], totalTime := 20 }
def exSil' : NoteSeq := { notes := [exNote 64 5 20, exNote 60 5 6], totalTime := 20 }

/-- **the model of `split_note_sequence_on_silence` depends on the storage order when the gap is
negative** (outside `SilenceOK`): with gap −2 the first order yields the onsets `[5, 5]`, the second `[5]` -/
theorem silence_negative_gap_depends_on_order :
    NSPerm exSil exSil' ∧ NoTies Gen.PRESERVE exSil ∧
    silLoop id (-2) (sortedNotes exSil) 0 [] = [5, 5] ∧ silLoop id (-2) (sortedNotes exSil') 0 [] = [5] := by
  have o1 : sortedNotes exSil = exSil.notes := sortByRat_of_pairwise _ _ (by decide +kernel)
  have o2 : sortedNotes exSil' = exSil'.notes := sortByRat_of_pairwise _ _ (by decide +kernel)
  rw [o1, o2]
  refine ⟨?_, by decide +kernel, by decide +kernel, by decide +kernel⟩
  constructor <;> first | rfl | (simp only [exSil, exSil']; decide +kernel)

end NSV.C12
