import NoteSeqVerif.Props.C13
/-! C13 — exactly which notes `adjust_notesequence_times` (and `rectify_beats`, which calls it with
the interpolation through the beat knots) keeps, for every time map `f` and every rounding operator `R`:

* with no `minimum_duration` a note is **kept iff its mapped start differs from its mapped end**
  (`f start ≠ f end` as the code computes them — exact equality, no tolerance at any magnitude), the
  kept notes are `(f start, f end)` in storage order, `skipped_notes` counts exactly the others;
* the call **raises iff** some note is reversed (`f end < f start`), or a kept note starts before
  zero, or an event is mapped before zero; for a map without negative values: iff some note is reversed;
* with a `minimum_duration` nothing is dropped.

Everything is derived from `adjust_ok_iff` / `adjust_error_iff` (Props/C13.lean), i.e. from the
transcribed loop `adjNotes`. -/
namespace NSV.C13
open List

/-- the image of a kept note: both times mapped, every other field untouched -/
def movedNote (f : Rat → Rat) (n : Note) : Note := { n with start := f n.start, end_ := f n.end_ }

theorem adjNote_none_md (f R : Rat → Rat) (n : Note) :
    adjNote f R 0 n = if f n.start = f n.end_ then none else some (movedNote f n) := by
  unfold adjNote adjImage adjEnd movedNote
  by_cases h : f n.start = f n.end_ <;> simp [h]

theorem filterMap_adjNote (f R : Rat → Rat) : ∀ l : List Note,
    l.filterMap (adjNote f R 0) = (l.filter (fun n => decide (f n.start ≠ f n.end_))).map (movedNote f)
  | [] => rfl
  | n :: l => by
    rw [filterMap_cons, adjNote_none_md, filterMap_adjNote f R l]
    by_cases h : f n.start = f n.end_ <;> simp [h]

theorem countP_adjNote (f R : Rat → Rat) : ∀ l : List Note,
    l.countP (fun n => (adjNote f R 0 n).isNone) = l.countP (fun n => decide (f n.start = f n.end_))
  | [] => rfl
  | n :: l => by
    rw [countP_cons, countP_cons, countP_adjNote f R l, adjNote_none_md]
    by_cases h : f n.start = f n.end_ <;> simp [h]

/-- a note makes the call raise iff it is reversed, or it is kept and starts before zero -/
theorem adjBad_md0_iff (f R : Rat → Rat) (n : Note) :
    adjBad f R 0 n ↔ (f n.end_ < f n.start ∨ (f n.start < f n.end_ ∧ f n.start < 0)) := by
  unfold adjBad
  rw [adjNote_none_md]
  by_cases h : f n.start = f n.end_
  · simp only [h, if_true, reduceCtorEq, false_and, exists_false, false_iff]
    intro hh
    rcases hh with hh | ⟨hh, _⟩ <;> exact absurd hh (Rat.lt_irrefl)
  · simp only [h, if_false, Option.some.injEq]
    constructor
    · rintro ⟨m, rfl, hm⟩
      simp only [movedNote] at hm
      rcases hm with hm | hm | hm
      · exact Or.inl hm
      · rcases (show f n.start < f n.end_ ∨ f n.end_ < f n.start by grind) with h' | h'
        · exact Or.inr ⟨h', hm⟩
        · exact Or.inl h'
      · rcases (show f n.start < f n.end_ ∨ f n.end_ < f n.start by grind) with h' | h'
        · exact Or.inr ⟨h', by grind⟩
        · exact Or.inl h'
    · intro hh
      refine ⟨movedNote f n, rfl, ?_⟩
      simp only [movedNote]
      rcases hh with hh | ⟨_, hh⟩
      · exact Or.inl hh
      · exact Or.inr (Or.inl hh)

/-- **Which notes are kept** (no `minimum_duration`; any time map `f`, any rounding `R`).  Whenever the
call returns `(r, k)`:
* `r.notes` are exactly the input notes with `f start ≠ f end`, in storage order, each with both times
  mapped through `f` and nothing else changed;
* `k` (`skipped_notes`) is exactly the number of notes with `f start = f end`, so kept + skipped = all;
* every kept note is strictly forward and starts at or after zero;
* an input note's image is in the result iff `f start ≠ f end`. -/
theorem adjust_keeps_exactly (f R : Rat → Rat) (s r : NoteSeq) (k : Nat) (h : adjustR f R 0 s = .ok (r, k)) :
    r.notes = (s.notes.filter (fun n => decide (f n.start ≠ f n.end_))).map (movedNote f) ∧
    k = s.notes.countP (fun n => decide (f n.start = f n.end_)) ∧
    r.notes.length + k = s.notes.length ∧
    (∀ n ∈ s.notes, f n.start ≠ f n.end_ → f n.start < f n.end_ ∧ 0 ≤ f n.start) ∧
    (∀ n ∈ s.notes, (movedNote f n ∈ r.notes ↔ f n.start ≠ f n.end_)) := by
  obtain ⟨hb, _, hr, hk⟩ := (adjust_ok_iff f R 0 s r k).mp h
  have hn : r.notes = (s.notes.filter (fun n => decide (f n.start ≠ f n.end_))).map (movedNote f) := by
    rw [hr]; exact filterMap_adjNote f R s.notes
  have hk' : k = s.notes.countP (fun n => decide (f n.start = f n.end_)) := by
    rw [hk]; exact countP_adjNote f R s.notes
  refine ⟨hn, hk', ?_, ?_, ?_⟩
  · rw [hn, hk', length_map]
    rw [← countP_eq_length_filter]
    have h1 := length_eq_countP_add_countP (fun n : Note => decide (f n.start ≠ f n.end_)) (l := s.notes)
    have h2 : s.notes.countP (fun a => decide ¬(decide (f a.start ≠ f a.end_) = true)) =
        s.notes.countP (fun n => decide (f n.start = f n.end_)) := by
      congr 1; funext a; by_cases hh : f a.start = f a.end_ <;> simp [hh]
    omega
  · intro n hnm hne
    have hnb := hb n hnm
    rw [adjBad_md0_iff] at hnb
    rcases (show f n.start < f n.end_ ∨ f n.end_ < f n.start by grind) with h' | h'
    · refine ⟨h', ?_⟩
      exact Rat.not_lt.mp (fun hneg => hnb (Or.inr ⟨h', hneg⟩))
    · exact absurd (Or.inl h') hnb
  · intro n hnm
    rw [hn]
    constructor
    · intro hm
      obtain ⟨n', hn', he⟩ := mem_map.mp hm
      have hf := (mem_filter.mp hn').2
      simp only [decide_eq_true_eq] at hf
      have h1 : f n'.start = f n.start := by
        have := congrArg Note.start he; simpa [movedNote] using this
      have h2 : f n'.end_ = f n.end_ := by
        have := congrArg Note.end_ he; simpa [movedNote] using this
      rw [← h1, ← h2]; exact hf
    · intro hne
      exact mem_map.mpr ⟨n, mem_filter.mpr ⟨hnm, by simpa using hne⟩, rfl⟩

/-- **When the call raises** (no `minimum_duration`): iff some note is reversed (`f end < f start`), or
some kept note starts before zero, or some event of the six mapped containers lands before zero —
and then it is `InvalidTimeAdjustmentError` (`adjust_error_iff`).  A collapsed note never raises. -/
theorem adjust_raises_iff (f R : Rat → Rat) (s : NoteSeq) :
    adjustR f R 0 s = .error .invalidTimeAdjustmentError ↔
      ((∃ n ∈ s.notes, f n.end_ < f n.start ∨ (f n.start < f n.end_ ∧ f n.start < 0)) ∨
        ∃ t ∈ adjustedTimes s, f t < 0) := by
  rw [adjust_error_iff]
  simp only [true_and, adjBad_md0_iff]

/-- for a time map without negative values: the call raises **iff some note is reversed** -/
theorem adjust_raises_iff_reversed (f R : Rat → Rat) (s : NoteSeq) (hnn : ∀ t, 0 ≤ f t) :
    adjustR f R 0 s = .error .invalidTimeAdjustmentError ↔ ∃ n ∈ s.notes, f n.end_ < f n.start := by
  rw [adjust_raises_iff]
  constructor
  · rintro (⟨n, hn, h | ⟨_, h⟩⟩ | ⟨t, _, h⟩)
    · exact ⟨n, hn, h⟩
    · exact absurd h (Rat.not_lt.mpr (hnn _))
    · exact absurd h (Rat.not_lt.mpr (hnn _))
  · rintro ⟨n, hn, h⟩
    exact Or.inl ⟨n, hn, Or.inl h⟩

/-- with a `minimum_duration` (`md ≠ 0`) no note is dropped: every note is kept as
`(f start, f end)`, or `(f start, R (f end + md))` when it collapsed; `skipped_notes = 0` -/
theorem adjust_min_duration_keeps_all (f R : Rat → Rat) (md : Rat) (hmd : md ≠ 0) (s r : NoteSeq) (k : Nat)
    (h : adjustR f R md s = .ok (r, k)) :
    r.notes = s.notes.map (adjImage f R md) ∧ k = 0 := by
  obtain ⟨_, _, hr, hk⟩ := (adjust_ok_iff f R md s r k).mp h
  have hs : ∀ n, adjNote f R md n = some (adjImage f R md n) := by
    intro n; simp [adjNote, hmd]
  constructor
  · rw [hr]
    show s.notes.filterMap (adjNote f R md) = _
    have : adjNote f R md = fun n => some (adjImage f R md n) := funext hs
    rw [this, filterMap_eq_map']
  · rw [hk]
    apply countP_eq_zero.mpr
    intro n _
    simp [hs n]

/-- `rectify_beats` keeps exactly the notes whose two ends the beat map `M` (np.interp through the beat
knots, as floats compute it under `R`) sends to different values; it never drops a note of non-zero
mapped length, however short, and every kept note is strictly forward -/
theorem rectify_keeps_exactly (R : Rat → Rat) (bpm : Rat) (s r : NoteSeq) (al : List (Rat × Rat))
    (h : rectifyR R bpm s = .ok (r, al)) :
    ∃ p rest, beatKnots R bpm s = p :: rest ∧ al = p :: rest ∧
      r.notes = (s.notes.filter (fun n => decide (interpR R p rest 0 s.totalTime n.start ≠
                  interpR R p rest 0 s.totalTime n.end_))).map (movedNote (interpR R p rest 0 s.totalTime)) ∧
      (∀ n ∈ s.notes, interpR R p rest 0 s.totalTime n.start ≠ interpR R p rest 0 s.totalTime n.end_ →
        interpR R p rest 0 s.totalTime n.start < interpR R p rest 0 s.totalTime n.end_) := by
  have hq : s.isQuantized = false := by
    cases hq : s.isQuantized
    · rfl
    · rw [rectify_quantized R bpm s hq] at h; cases h
  have hb : beatTimes s ≠ [] := by
    intro hb
    rw [(rectify_no_beats_iff R bpm s).mpr ⟨hq, hb⟩] at h; cases h
  have h0 : bpm ≠ 0 := by
    intro h0
    have hb' : (beatTimes s).isEmpty = false := by cases hh : beatTimes s <;> simp_all
    simp [rectifyR, hq, hb', h0] at h
  obtain ⟨p, rest, hk, hspec⟩ := rectify_spec R bpm s hq hb h0
  refine ⟨p, rest, hk, ?_⟩
  rw [hspec] at h
  cases ha : adjustR (interpR R p rest 0 s.totalTime) R 0 s with
  | error e => rw [ha] at h; cases h
  | ok v =>
    obtain ⟨r', k⟩ := v
    rw [ha] at h
    simp only [Except.ok.injEq, Prod.mk.injEq] at h
    obtain ⟨hr, hal⟩ := h
    obtain ⟨hn, _, _, hfw, _⟩ := adjust_keeps_exactly _ R s r' k ha
    refine ⟨hal.symm, ?_, fun n hnm hne => (hfw n hnm hne).1⟩
    rw [← hr]; exact hn

/-- `rectify_beats` raises `InvalidTimeAdjustmentError` iff the beat map as computed reverses a note, or
sends a kept note's start or an event before zero -/
theorem rectify_raises_iff (R : Rat → Rat) (bpm : Rat) (s : NoteSeq) (hq : s.isQuantized = false)
    (hb : beatTimes s ≠ []) (h0 : bpm ≠ 0) :
    ∃ p rest, beatKnots R bpm s = p :: rest ∧
      (rectifyR R bpm s = .error .invalidTimeAdjustmentError ↔
        ((∃ n ∈ s.notes, interpR R p rest 0 s.totalTime n.end_ < interpR R p rest 0 s.totalTime n.start ∨
            (interpR R p rest 0 s.totalTime n.start < interpR R p rest 0 s.totalTime n.end_ ∧
              interpR R p rest 0 s.totalTime n.start < 0)) ∨
          ∃ t ∈ adjustedTimes s, interpR R p rest 0 s.totalTime t < 0)) := by
  obtain ⟨p, rest, hk, hspec⟩ := rectify_spec R bpm s hq hb h0
  refine ⟨p, rest, hk, ?_⟩
  rw [hspec, ← adjust_raises_iff _ R s]
  cases ha : adjustR (interpR R p rest 0 s.totalTime) R 0 s with
  | error e => simp
  | ok v => simp

/-! ### non-vacuity: both sides of the boundary, at two magnitudes -/

/-- a 2 ms note five minutes into the piece, a 1e-12 s note at 10^4 s, and a zero-length note -/
def exShort : NoteSeq :=
  { notes := [{ exNote with start := 300, end_ := 300 + 2 / 1000 },
              { exNote with pitch := 61, start := 10000, end_ := 10000 + 1 / 1000000000000 },
              { exNote with pitch := 62, start := 7, end_ := 7 }]
    totalTime := 10001 }

/-- slope 1/1000: the short notes shrink to 2e-6 s and 1e-15 s and are kept; only the zero-length one goes -/
example : (adjustR (fun t => t / 1000) id 0 exShort).toOption.map
      (fun rk => (rk.1.notes.map (fun n => (n.pitch, n.start, n.end_)), rk.2)) =
    some ([(60, 3 / 10, 3 / 10 + 2 / 1000000), (61, 10, 10 + 1 / 1000000000000000)], 1) := by decide +kernel

/-- a map that is flat on [300, 301] collapses the first note (dropped, counted) and keeps the others -/
example : (adjustR (fun t => if t < 300 then t else if t < 301 then 300 else t - 1) id 0 exShort).toOption.map
      (fun rk => (rk.1.notes.map (fun n => n.pitch), rk.2)) = some ([61], 2) := by decide +kernel

/-- a reversing map raises; a minimum duration keeps the zero-length note -/
example : errOf (adjustR (fun t => 20000 - t) id 0 exShort) = some .invalidTimeAdjustmentError ∧
    (adjustR (fun t => t) id (1 / 100) exShort).toOption.map (fun rk => (rk.1.notes.length, rk.2)) = some (3, 0) := by
  decide +kernel

end NSV.C13
