import NoteSeqVerif.Props.C07
import NoteSeqVerif.Proofs.C07Float
/-! C07 — property theorems about the floating-point bar length
`steps_per_bar_in_quantized_sequence = spq * ((4.0 / den) * num)`, for every rounding operator with
the `Rounding` facts of `Proofs/Rounding.lean` (monotone, exact on dyadics, relative error ≤ 2^-53),
in particular `rne53` = the code.  The exactness hypothesis `SpbExact` of
`steps_per_bar_nonInteger_iff` is discharged for power-of-two denominators. -/
namespace NSV.C07

/-- **spbExact_float**: with a power-of-two denominator `2^k` (any `k`) and `|spq·num| ≤ 2^53`,
`|num| ≤ 2^53`, each of the three float operations is exact -/
theorem spbExact_float {R : Rat → Rat} (hR : Rounding R) (spq num : Int) (k : Nat)
    (h1 : num.natAbs ≤ 2 ^ 53) (h2 : (spq * num).natAbs ≤ 2 ^ 53) : SpbExact R spq num (2 ^ k) :=
  spbExact_pow2 hR spq num k h1 h2

/-- **steps_per_bar_float_eq_exact**: power-of-two denominator, `|spq·num| ≤ 2^53`: the float
computation returns what exact rational arithmetic returns (value or exception) -/
theorem steps_per_bar_float_eq_exact {R : Rat → Rat} (hR : Rounding R) (s : NoteSeq) (ts : TimeSig)
    (rest : List TimeSig) (hts : s.timeSigs = ts :: rest) (k : Nat) (hden : ts.den = 2 ^ k)
    (hb : (s.spq * ts.num).natAbs ≤ 2 ^ 53) :
    stepsPerBarFloatR R s = stepsPerBarFloatR id s ∧ stepsPerBarR R s = stepsPerBarR id s := by
  have key : stepsPerBarFloatR R s = stepsPerBarFloatR id s := by
    unfold stepsPerBarFloatR
    by_cases hq : 0 < s.spq
    · have h1 : ts.num.natAbs ≤ 2 ^ 53 := by
        rw [Int.natAbs_mul] at hb
        have : 1 ≤ s.spq.natAbs := by omega
        calc ts.num.natAbs = 1 * ts.num.natAbs := (Nat.one_mul _).symm
          _ ≤ s.spq.natAbs * ts.num.natAbs := Nat.mul_le_mul_right _ this
          _ ≤ 2 ^ 53 := hb
      have hE : SpbExact R s.spq ts.num ts.den := by rw [hden]; exact spbExact_pow2 hR _ _ k h1 hb
      simp only [hq, not_true_eq_false, ↓reduceIte, hts, id]
      rw [hE.1, hE.2.1, hE.2.2]
    · simp only [hq, not_false_eq_true, ↓reduceIte]
  exact ⟨key, by unfold stepsPerBarR; rw [key]⟩

/-- **steps_per_bar_nonInteger_iff_float**: `steps_per_bar_nonInteger_iff` without the exactness
hypothesis.  For a power-of-two denominator and `|spq·num| ≤ 2^53` the float computation raises
`NonIntegerStepsPerBarError` exactly when `spq·4·num/den` is not an integer, and returns that
integer otherwise. -/
theorem steps_per_bar_nonInteger_iff_float {R : Rat → Rat} (hR : Rounding R) (s : NoteSeq)
    (ts : TimeSig) (rest : List TimeSig) (hts : s.timeSigs = ts :: rest) (hq : 0 < s.spq)
    (k : Nat) (hden : ts.den = 2 ^ k) (hb : (s.spq * ts.num).natAbs ≤ 2 ^ 53) :
    (stepsPerBarR R s = .error .nonIntegerStepsPerBarError ↔ ¬ ts.den ∣ s.spq * 4 * ts.num) ∧
    (∀ n : Int, stepsPerBarR R s = .ok n ↔ s.spq * 4 * ts.num = n * ts.den) := by
  have h1 : ts.num.natAbs ≤ 2 ^ 53 := by
    rw [Int.natAbs_mul] at hb
    have : 1 ≤ s.spq.natAbs := by omega
    calc ts.num.natAbs = 1 * ts.num.natAbs := (Nat.one_mul _).symm
      _ ≤ s.spq.natAbs * ts.num.natAbs := Nat.mul_le_mul_right _ this
      _ ≤ 2 ^ 53 := hb
  have hd0 : ts.den ≠ 0 := by rw [hden]; exact Int.ne_of_gt (Int.pow_pos (by decide))
  exact steps_per_bar_nonInteger_iff R s ts rest hts hq hd0
    (by rw [hden]; exact spbExact_pow2 hR _ _ k h1 hb)

/-- the code itself (`stepsPerBar = stepsPerBarR rne53`) -/
theorem steps_per_bar_nonInteger_iff_rne53 (s : NoteSeq) (ts : TimeSig) (rest : List TimeSig)
    (hts : s.timeSigs = ts :: rest) (hq : 0 < s.spq) (k : Nat) (hden : ts.den = 2 ^ k)
    (hb : (s.spq * ts.num).natAbs ≤ 2 ^ 53) :
    (stepsPerBar s = .error .nonIntegerStepsPerBarError ↔ ¬ ts.den ∣ s.spq * 4 * ts.num) ∧
    (∀ n : Int, stepsPerBar s = .ok n ↔ s.spq * 4 * ts.num = n * ts.den) :=
  steps_per_bar_nonInteger_iff_float rounding_rne53 s ts rest hts hq k hden hb

/-- **steps_per_bar_float_sound**: ANY positive denominator (power of two or not), positive
numerator, `spq·4·num < 2^49`: the float computation never accepts a wrong bar length — whatever it
returns is the exact `spq·4·num/den`, and a non-integer exact value is always rejected.  (The
converse fails for denominators that are not powers of two: see the example below.) -/
theorem steps_per_bar_float_sound {R : Rat → Rat} (hR : Rounding R) (s : NoteSeq) (ts : TimeSig)
    (rest : List TimeSig) (hts : s.timeSigs = ts :: rest) (hq : 0 < s.spq) (hn : 0 < ts.num)
    (hd : 0 < ts.den) (hb : s.spq * 4 * ts.num < 2 ^ 49) :
    (∀ n : Int, stepsPerBarR R s = .ok n → s.spq * 4 * ts.num = n * ts.den) ∧
    (¬ ts.den ∣ s.spq * 4 * ts.num → stepsPerBarR R s = .error .nonIntegerStepsPerBarError) := by
  have hd0 : ts.den ≠ 0 := Int.ne_of_gt hd
  have hval : stepsPerBarFloatR R s =
      .ok (R ((s.spq : Rat) * R (R (4 / (ts.den : Rat)) * (ts.num : Rat)))) := by
    simp only [stepsPerBarFloatR, hq, not_true_eq_false, ↓reduceIte, hts, hd0]
  have hok : ∀ n : Int, stepsPerBarR R s = .ok n → s.spq * 4 * ts.num = n * ts.den := by
    intro n h
    unfold stepsPerBarR at h
    rw [hval] at h
    simp only at h
    split at h
    · cases h
    · rename_i hden1
      have hden1 : (R ((s.spq : Rat) * R (R (4 / (ts.den : Rat)) * (ts.num : Rat)))).den = 1 := by
        simpa using hden1
      have hn' := Except.ok.inj h
      have e : R ((s.spq : Rat) * R (R (4 / (ts.den : Rat)) * (ts.num : Rat))) = (n : Rat) := by
        rw [← hn']; exact Rat.ext rfl hden1
      exact spb_float_int_sound hR s.spq ts.num ts.den hq hn hd hb n e
  refine ⟨hok, fun hnd => ?_⟩
  unfold stepsPerBarR
  rw [hval]
  simp only
  split
  · rfl
  · rename_i hden1
    exfalso
    have h : stepsPerBarR R s =
        .ok (R ((s.spq : Rat) * R (R (4 / (ts.den : Rat)) * (ts.num : Rat)))).num := by
      unfold stepsPerBarR; rw [hval]; simp only [hden1, ↓reduceIte]
    exact hnd ⟨_, by rw [hok _ h, Int.mul_comm]⟩

/-! ### non-vacuity -/

-- 6/8 at 4 steps per quarter: 12 steps; 3/8 at 1 step per quarter: rejected; both through the theorem
example : stepsPerBar { exRel with timeSigs := [⟨0, 6, 8⟩] } = .ok 12 :=
  ((steps_per_bar_nonInteger_iff_rne53 { exRel with timeSigs := [⟨0, 6, 8⟩] } ⟨0, 6, 8⟩ [] rfl
    (by decide) 3 (by decide) (by decide)).2 12).mpr (by decide)
example : stepsPerBar { exRel with spq := 1, timeSigs := [⟨0, 3, 8⟩] } = .error .nonIntegerStepsPerBarError :=
  (steps_per_bar_nonInteger_iff_rne53 { exRel with spq := 1, timeSigs := [⟨0, 3, 8⟩] } ⟨0, 3, 8⟩ [] rfl
    (by decide) 3 (by decide) (by decide)).1.mpr (by decide)
example := steps_per_bar_float_eq_exact rounding_rne53 exRel ⟨0, 4, 4⟩ [] rfl 2 (by decide) (by decide)
-- 7/12 at 5 steps per quarter is rejected by the float code because 140/12 is not an integer
example : stepsPerBar { exRel with spq := 5, timeSigs := [⟨0, 7, 12⟩] } = .error .nonIntegerStepsPerBarError :=
  (steps_per_bar_float_sound rounding_rne53 { exRel with spq := 5, timeSigs := [⟨0, 7, 12⟩] } ⟨0, 7, 12⟩ [] rfl
    (by decide) (by decide) (by decide) (by decide)).2 (by decide)

/-- the power-of-two hypothesis of `steps_per_bar_nonInteger_iff_float` cannot be dropped: 5/3 at 480
steps per quarter is exactly 3200 steps, but `480 * ((4.0 / 3) * 5) = 3199.9999999999995` in
binary64, so the code raises `NonIntegerStepsPerBarError` -/
example : stepsPerBar { exRel with spq := 480, timeSigs := [⟨0, 5, 3⟩] } = .error .nonIntegerStepsPerBarError ∧
    (3 : Int) ∣ 480 * 4 * 5 := by decide +kernel

end NSV.C07
