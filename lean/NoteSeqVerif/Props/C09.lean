import NoteSeqVerif.Proofs.C09
/-! C09 — property theorems only.  `Gen.*` definitions are regenerated from the Python source
on every run; a change to the code changes the statement that is checked here. -/
namespace NSV.C09
open Gen

/-! ## Melody one-hot encoding (theorems about the *generated* definitions) -/

/-- legal configurations: exactly what the constructor accepts (checked by correspondence) -/
def MelCfg (mn mx : Int) : Prop := MIN_MIDI_PITCH ≤ mn ∧ mx ≤ MAX_MIDI_PITCH + 1 ∧ mn < mx

/-- valid melody events for a configuration -/
def MelEvent (mn mx e : Int) : Prop := (-2 ≤ e ∧ e < 0) ∨ (mn ≤ e ∧ e < mx)

theorem melody_decode_encode (mn mx i : Int) (hc : MelCfg mn mx) (h0 : 0 ≤ i)
    (h1 : i < melNumClasses mn mx) : melEncode mn mx (melDecode mn i) = .ok i := by
  unfold MelCfg MIN_MIDI_PITCH MAX_MIDI_PITCH at hc
  unfold melEncode melDecode melNumClasses at *
  grind

theorem melody_encode_decode (mn mx e : Int) (hc : MelCfg mn mx) (he : MelEvent mn mx e) :
    ∃ i, melEncode mn mx e = .ok i ∧ 0 ≤ i ∧ i < melNumClasses mn mx ∧ melDecode mn i = e := by
  unfold MelCfg MIN_MIDI_PITCH MAX_MIDI_PITCH at hc
  unfold MelEvent at he
  unfold melEncode melDecode melNumClasses
  by_cases h : e < 0
  · refine ⟨e + 2, ?_⟩; grind
  · refine ⟨e - mn + 2, ?_⟩; grind

theorem melody_encode_rejects (mn mx e : Int) (hc : MelCfg mn mx) (he : ¬ MelEvent mn mx e) :
    melEncode mn mx e = .error "ValueError" := by
  unfold MelCfg MIN_MIDI_PITCH MAX_MIDI_PITCH at hc
  unfold MelEvent at he
  unfold melEncode
  grind

example : MelCfg 48 84 ∧ MelEvent 48 84 60 ∧ (0:Int) ≤ 14 ∧ (14:Int) < melNumClasses 48 84 := by
  unfold MelCfg MelEvent melNumClasses MIN_MIDI_PITCH MAX_MIDI_PITCH; omega

/-! ## Velocity bins (generated definitions) -/

theorem binsize_facts (n : Int) (h1 : 1 ≤ n) :
    1 ≤ velocityBinSize n ∧ 127 ≤ n * velocityBinSize n ∧ n * (velocityBinSize n - 1) < 127 := by
  unfold velocityBinSize pyCeilDiv
  have hn : 0 ≤ n := by omega
  rw [Int.fdiv_eq_ediv_of_nonneg _ hn]
  have a := @Int.mul_ediv_self_le (-127) n (by omega)
  have b := @Int.lt_mul_ediv_self_add (-127) n (by omega)
  simp only [Int.reduceSub, Int.reduceAdd, Int.reduceNeg] at *
  generalize (-127 : Int) / n = q at *
  have e1 : n * (-q) = -(n * q) := by rw [Int.mul_neg]
  have e2 : n * (-q - 1) = -(n * q) - n := by rw [Int.mul_sub, Int.mul_neg, Int.mul_one]
  refine ⟨?_, by omega, by omega⟩
  by_cases hq : 1 ≤ -q
  · exact hq
  · have : 0 ≤ q := by omega
    have := Int.mul_nonneg hn this
    omega

/-- every velocity 1..127 lands in a bin 1..num_velocity_bins, for every bin count ≥ 1 -/
theorem velocity_bin_range (n v : Int) (hn : 1 ≤ n) (hv1 : 1 ≤ v) (hv2 : v ≤ 127) :
    1 ≤ velocityToBin v n ∧ velocityToBin v n ≤ n := by
  obtain ⟨hs, hb, _⟩ := binsize_facts n hn
  unfold velocityToBin
  generalize velocityBinSize n = s at *
  rw [Int.fdiv_eq_ediv_of_nonneg _ (by omega)]
  have h0 : 0 ≤ (v - 1) / s := Int.ediv_nonneg (by omega) (by omega)
  have h1 : (v - 1) / s < n := by
    rw [Int.ediv_lt_iff_lt_mul (by omega)]
    omega
  omega

theorem velocity_bin_mono (n v w : Int) (hn : 1 ≤ n) (hvw : v ≤ w) :
    velocityToBin v n ≤ velocityToBin w n := by
  obtain ⟨hs, _, _⟩ := binsize_facts n hn
  unfold velocityToBin
  generalize velocityBinSize n = s at *
  rw [Int.fdiv_eq_ediv_of_nonneg _ (by omega), Int.fdiv_eq_ediv_of_nonneg _ (by omega)]
  have := @Int.ediv_le_ediv (v - 1) (w - 1) s (by omega) (by omega)
  omega

/-- bin → velocity is a right inverse of velocity → bin (every bin number, every bin count ≥ 1) -/
theorem velocity_bin_right_inverse (n b : Int) (hn : 1 ≤ n) :
    velocityToBin (velocityBinToVelocity b n) n = b := by
  obtain ⟨hs, _, _⟩ := binsize_facts n hn
  unfold velocityToBin velocityBinToVelocity
  generalize velocityBinSize n = s at *
  rw [Int.fdiv_eq_ediv_of_nonneg _ (by omega)]
  have : (1 + (b - 1) * s - 1) = (b - 1) * s := by omega
  rw [this, Int.mul_ediv_cancel _ (by omega)]
  omega

/-! ## Performance one-hot encoding: generic range lists, then the constructor's list -/

def WF (rs : List Range) : Prop := (∀ r ∈ rs, r.lo ≤ r.hi) ∧ rs.Pairwise (fun a b => a.ty ≠ b.ty)

theorem numClasses_nonneg (rs : List Range) (h : ∀ r ∈ rs, r.lo ≤ r.hi) : 0 ≤ numClasses rs := by
  induction rs with
  | nil => simp [numClasses]
  | cons r rs ih =>
    have := h r (by simp)
    have := ih (fun x hx => h x (by simp [hx]))
    simp [numClasses]; omega

/-- every index in `[off, off + numClasses)` decodes to an in-range event that encodes back to it -/
theorem ranges_decode_encode (rs : List Range) (hwf : WF rs) (off i : Int)
    (h1 : off ≤ i) (h2 : i < off + numClasses rs) :
    ∃ r ∈ rs, ∃ v, r.lo ≤ v ∧ v ≤ r.hi ∧ decodeAux rs off i = .ok (r.ty, v) ∧
      encodeAux rs off r.ty v = .ok i := by
  induction rs generalizing off with
  | nil => simp [numClasses] at h2; omega
  | cons r rs ih =>
    obtain ⟨hlo, hpw⟩ := hwf
    have hr := hlo r (by simp)
    by_cases hc : off ≤ i ∧ i ≤ off + r.hi - r.lo
    · refine ⟨r, by simp, r.lo + i - off, by omega, by omega, ?_, ?_⟩
      · simp [decodeAux, hc]
      · simp [encodeAux]; omega
    · have hwf' : WF rs := ⟨fun x hx => hlo x (by simp [hx]), (List.pairwise_cons.mp hpw).2⟩
      simp only [numClasses] at h2
      obtain ⟨r', hr', v, hv1, hv2, hd, he⟩ := ih hwf' (off + (r.hi - r.lo + 1)) (by omega) (by omega)
      refine ⟨r', by simp [hr'], v, hv1, hv2, ?_, ?_⟩
      · simp [decodeAux, hc, hd]
      · have hne : r'.ty ≠ r.ty := fun e => (List.pairwise_cons.mp hpw).1 r' hr' e.symm
        simp [encodeAux, hne, he]

/-- every valid event encodes into `[off, off + numClasses)` and decodes back to itself -/
theorem ranges_encode_decode (rs : List Range) (hwf : WF rs) (off : Int) (r : Range) (hr : r ∈ rs)
    (v : Int) (hv1 : r.lo ≤ v) (hv2 : v ≤ r.hi) :
    ∃ i, encodeAux rs off r.ty v = .ok i ∧ off ≤ i ∧ i < off + numClasses rs ∧
      decodeAux rs off i = .ok (r.ty, v) := by
  induction rs generalizing off with
  | nil => simp at hr
  | cons r0 rs ih =>
    obtain ⟨hlo, hpw⟩ := hwf
    have hwf' : WF rs := ⟨fun x hx => hlo x (by simp [hx]), (List.pairwise_cons.mp hpw).2⟩
    have hnn := numClasses_nonneg rs hwf'.1
    have hr0 := hlo r0 (by simp)
    rcases List.mem_cons.mp hr with rfl | hmem
    · refine ⟨off + v - r.lo, by simp [encodeAux], by omega, by simp [numClasses]; omega, ?_⟩
      have : off ≤ off + v - r.lo ∧ off + v - r.lo ≤ off + r.hi - r.lo := by omega
      simp only [decodeAux, this, and_self, if_true]
      congr 2; omega
    · have hne : r.ty ≠ r0.ty := fun e => (List.pairwise_cons.mp hpw).1 r hmem e.symm
      obtain ⟨i, he, hi1, hi2, hd⟩ := ih hwf' (off + (r0.hi - r0.lo + 1)) hmem
      refine ⟨i, by simp [encodeAux, hne, he], by omega, by simp [numClasses]; omega, ?_⟩
      have : ¬ (off ≤ i ∧ i ≤ off + r0.hi - r0.lo) := by omega
      simp [decodeAux, this, hd]

/-- legal configurations of `PerformanceOneHotEncoding` -/
def PerfCfg (bins maxShift minPitch maxPitch : Int) : Prop :=
  0 ≤ bins ∧ 1 ≤ maxShift ∧ minPitch ≤ maxPitch

theorem perfRanges_wf (bins ms lo hi : Int) (hc : PerfCfg bins ms lo hi) : WF (perfRanges bins ms lo hi) := by
  obtain ⟨hb, hs, hp⟩ := hc
  unfold perfRanges WF
  by_cases h : 0 < bins <;> simp [h, NOTE_ON, NOTE_OFF, TIME_SHIFT, VELOCITY] <;> omega

theorem perf_decode_encode (bins ms lo hi i : Int) (hc : PerfCfg bins ms lo hi)
    (h0 : 0 ≤ i) (h1 : i < perfNumClasses bins ms lo hi) :
    ∃ ty v, perfDecode bins ms lo hi i = .ok (ty, v) ∧ perfEncode bins ms lo hi ty v = .ok i := by
  obtain ⟨r, _, v, _, _, hd, he⟩ :=
    ranges_decode_encode _ (perfRanges_wf bins ms lo hi hc) 0 i h0 (by simpa [perfNumClasses] using h1)
  exact ⟨r.ty, v, hd, he⟩

theorem perf_encode_decode (bins ms lo hi : Int) (hc : PerfCfg bins ms lo hi)
    (r : Range) (hr : r ∈ perfRanges bins ms lo hi) (v : Int) (hv1 : r.lo ≤ v) (hv2 : v ≤ r.hi) :
    ∃ i, perfEncode bins ms lo hi r.ty v = .ok i ∧ 0 ≤ i ∧ i < perfNumClasses bins ms lo hi ∧
      perfDecode bins ms lo hi i = .ok (r.ty, v) := by
  obtain ⟨i, he, h0, h1, hd⟩ :=
    ranges_encode_decode _ (perfRanges_wf bins ms lo hi hc) 0 r hr v hv1 hv2
  exact ⟨i, he, h0, by simpa [perfNumClasses] using h1, hd⟩

/-- `default_event` = TIME_SHIFT of `max_shift_steps` is a valid event of every legal configuration -/
theorem perf_default_in_range (bins ms lo hi : Int) (hc : PerfCfg bins ms lo hi) :
    ∃ i, perfEncode bins ms lo hi TIME_SHIFT ms = .ok i ∧ 0 ≤ i ∧ i < perfNumClasses bins ms lo hi := by
  obtain ⟨_, hs, _⟩ := hc
  obtain ⟨i, he, h0, h1, _⟩ := perf_encode_decode bins ms lo hi ⟨‹_›, hs, ‹_›⟩ ⟨TIME_SHIFT, 1, ms⟩
    (by unfold perfRanges; simp) ms hs (Int.le_refl _)
  exact ⟨i, he, h0, h1⟩

example : PerfCfg 32 100 21 108 ∧ (⟨TIME_SHIFT, 1, 100⟩ : Range) ∈ perfRanges 32 100 21 108 := by
  unfold PerfCfg perfRanges; simp

/-! ## Multi-drum encoding

First the generic theorems, for ANY table of pairwise-disjoint non-empty pitch lists
(`DisjointTable`, `NonEmptyTable` in `Proofs/C09.lean`); then the generated default table is shown
to be such a table (`decide` over the table), so they apply to it; the original whole-domain
evaluation over the default table's `2^9` classes is kept as well. -/

/-- decode ∘ encode: every index below `2^len` decodes to a pitch set that encodes back to it
(with either setting of `ignore_unknown_drums`) -/
theorem drum_decode_encode (t : List (List Nat)) (hd : DisjointTable t) (hne : NonEmptyTable t)
    (ign : Bool) (i : Nat) (hi : i < 2 ^ t.length) :
    ∃ ps, drumDecode t i = .ok ps ∧ drumEncodeE t ign ps = .ok i := by
  refine ⟨_, drumDecode_ok hne i hi, ?_⟩
  generalize hps : (List.range t.length).filterMap
    (fun j => if i.testBit j then (t.getD j []).head? else none) = ps
  have hmem : ∀ p, p ∈ ps ↔ ∃ j, j < t.length ∧ i.testBit j = true ∧ (t.getD j []).head? = some p := by
    intro p
    rw [← hps, List.mem_filterMap]
    constructor
    · rintro ⟨j, hj, h⟩
      by_cases hb : i.testBit j
      · exact ⟨j, by simpa using hj, hb, by simpa [hb] using h⟩
      · simp [hb] at h
    · rintro ⟨j, hj, hb, h⟩
      exact ⟨j, by simpa using hj, by simpa [hb] using h⟩
  have hknown : ps.any (fun p => (classOf t p).isNone) = false := by
    rw [Bool.eq_false_iff]
    intro h
    obtain ⟨p, hp, hnone⟩ := List.any_eq_true.mp h
    obtain ⟨j, hj, _, hh⟩ := (hmem p).mp hp
    have := (classOf_isNone_iff t p).mp hnone (t.getD j []) (by rw [getD_of_lt hj]; exact List.getElem_mem hj)
    exact this (List.mem_of_head? hh)
  unfold drumEncodeE
  rw [hknown, Bool.and_false]
  simp only [Bool.false_eq_true, if_false, Except.ok.injEq]
  rw [drumEncode_eq_powSum]
  apply Nat.eq_of_testBit_eq
  intro k
  rw [testBit_powSum]
  rcases Nat.lt_or_ge k t.length with hk | hk
  · simp only [hk, decide_true, Bool.true_and]
    rw [Bool.eq_iff_iff, hit_iff hd]
    constructor
    · rintro ⟨p, hp, hpk⟩
      obtain ⟨j, _, hb, hh⟩ := (hmem p).mp hp
      have : j = k := disjoint_index hd (List.mem_of_head? hh) hpk
      subst this; exact hb
    · intro hb
      have hc : t[k] ≠ [] := hne _ (List.getElem_mem hk)
      obtain ⟨p, r, hpr⟩ := List.exists_cons_of_ne_nil hc
      have hh : (t.getD k []).head? = some p := by rw [getD_of_lt hk, hpr]; rfl
      exact ⟨p, (hmem p).mpr ⟨k, hk, hb, hh⟩, List.mem_of_head? hh⟩
  · have : decide (k < t.length) = false := by simp; omega
    rw [this, Bool.false_and]
    symm
    apply Nat.testBit_lt_two_pow
    have := Nat.pow_le_pow_right (n := 2) (by omega) hk
    omega

/-- encode ∘ decode: every pitch set (known or unknown pitches, any order, repetitions allowed)
encodes to an index below `2^len` which decodes to the first pitch of exactly the classes hit -/
theorem drum_encode_decode (t : List (List Nat)) (hd : DisjointTable t) (hne : NonEmptyTable t)
    (s : List Nat) :
    ∃ j, drumEncodeE t true s = .ok j ∧ j < 2 ^ t.length ∧ drumDecode t j = .ok (hitFirsts t s) := by
  refine ⟨drumEncode t s, by simp [drumEncodeE], ?_, ?_⟩
  · rw [drumEncode_eq_powSum]; exact powSum_lt _ _
  · have hlt : drumEncode t s < 2 ^ t.length := by rw [drumEncode_eq_powSum]; exact powSum_lt _ _
    rw [drumDecode_ok hne _ hlt, hitFirsts, ← filterMap_range_getD]
    congr 1
    apply filterMap_congr'
    intro k hk
    have hk : k < t.length := by simpa using hk
    rw [drumEncode_eq_powSum, testBit_powSum]
    simp only [hk, decide_true, Bool.true_and]
    have : (s.any (fun p => classOf t p == some k)) = ((t.getD k []).any (fun p => s.contains p)) := by
      rw [Bool.eq_iff_iff, hit_iff hd]
      simp only [List.any_eq_true, List.contains_iff_mem]
      constructor
      · rintro ⟨p, h1, h2⟩; exact ⟨p, h2, h1⟩
      · rintro ⟨p, h1, h2⟩; exact ⟨p, h2, h1⟩
    rw [this]

/-- "same drum classes": re-encoding the canonical representative gives the same class index -/
theorem drum_canonical_same_classes (t : List (List Nat)) (hd : DisjointTable t) (hne : NonEmptyTable t)
    (s : List Nat) : drumEncodeE t true (hitFirsts t s) = drumEncodeE t true s := by
  obtain ⟨j, he, hj, hdec⟩ := drum_encode_decode t hd hne s
  obtain ⟨ps, hdec', he'⟩ := drum_decode_encode t hd hne true j hj
  rw [hdec] at hdec'
  cases hdec'
  rw [he, he']

/-- `ignore_unknown_drums=False`: `DrumsEncodingError` exactly when some pitch is in no class (any
table); otherwise the result is the one with the flag on -/
theorem drum_unknown_raises (t : List (List Nat)) (s : List Nat) :
    (drumEncodeE t false s = .error "DrumsEncodingError" ↔ ∃ p, p ∈ s ∧ ∀ c, c ∈ t → p ∉ c) ∧
    ((¬ ∃ p, p ∈ s ∧ ∀ c, c ∈ t → p ∉ c) → drumEncodeE t false s = drumEncodeE t true s) := by
  have key : s.any (fun p => (classOf t p).isNone) = true ↔ ∃ p, p ∈ s ∧ ∀ c, c ∈ t → p ∉ c := by
    simp only [List.any_eq_true, classOf_isNone_iff]
  unfold drumEncodeE
  by_cases h : s.any (fun p => (classOf t p).isNone) = true
  · simp [h, key.mp h]
  · have h' := mt key.mpr h
    simp [h, h']


example : DisjointTable [[36, 35], [38, 40], [42]] ∧ NonEmptyTable [[36, 35], [38, 40], [42]] ∧
    drumEncodeE [[36, 35], [38, 40], [42]] true [35, 40, 99] = .ok 3 ∧
    hitFirsts [[36, 35], [38, 40], [42]] [35, 40, 99] = [36, 38] ∧
    drumEncodeE [[36, 35], [38, 40], [42]] false [35, 40, 99] = .error "DrumsEncodingError" := by
  unfold DisjointTable NonEmptyTable; decide

/-- the shipped `DEFAULT_DRUM_TYPE_PITCHES` (regenerated from the source on every run) is a table of
pairwise-disjoint non-empty pitch lists -/
theorem drum_default_table_ok : DisjointTable drumTable ∧ NonEmptyTable drumTable := by
  unfold DisjointTable NonEmptyTable; decide +kernel

/-- … so the generic theorems hold for the default encoding: all `2^9` classes, -/
theorem drum_default_decode_encode (ign : Bool) (i : Nat) (hi : i < 2 ^ drumTable.length) :
    ∃ ps, drumDecode drumTable i = .ok ps ∧ drumEncodeE drumTable ign ps = .ok i :=
  drum_decode_encode drumTable drum_default_table_ok.1 drum_default_table_ok.2 ign i hi

/-- … and all drum-pitch sets -/
theorem drum_default_encode_decode (s : List Nat) :
    ∃ j, drumEncodeE drumTable true s = .ok j ∧ j < 2 ^ drumTable.length ∧
      drumDecode drumTable j = .ok (hitFirsts drumTable s) :=
  drum_encode_decode drumTable drum_default_table_ok.1 drum_default_table_ok.2 s

/-- whole-domain evaluation over the generated default table (kept from the first version) -/
def drumRoundTrip (table : List (List Nat)) (i : Nat) : Bool :=
  match drumDecode table i with
  | .ok ps => drumEncode table ps == i
  | .error _ => false

theorem drum_decode_encode_default :
    ∀ i, i < 2 ^ drumTable.length → drumRoundTrip drumTable i = true := by
  decide +kernel

/-! ## Chord one-hot encodings (structured symbols; the regular-expression layer is modelled and
run against the real parser by the correspondence, see `harness/c09.py`) -/

/-- the 12 names of `_PITCH_CLASS_MAPPING` are spelled with pitch class = their index -/
theorem chord_name_table : pitchClassMapping.length = 12 ∧
    ∀ r : Nat, r < 12 → pitchClassMapping[r]?.map namePitchClass = some (.ok (r : Int)) := name_table

/-- decode ∘ encode for all 25 classes of `MajorMinorChordOneHotEncoding`: index `i` decodes to
`NO_CHORD` or to `_PITCH_CLASS_MAPPING[k] + suffix`; reading that name back as a chord symbol
(`structured`: root letter + accidentals, kind abbreviation = suffix) and encoding gives `i` -/
theorem mm_decode_encode (i : Int) (h0 : 0 ≤ i) (h1 : i < mmNumClasses) :
    ∃ d ev, mmDecode i = .ok d ∧ structured d = some ev ∧ mmEncode ev = .ok i := by
  have := mm_table i.toNat (by omega)
  rw [Int.toNat_of_nonneg h0] at this
  unfold mmRoundTrip at this
  split at this
  · cases this
  · rename_i d hd
    split at this
    · cases this
    · rename_i ev hev
      exact ⟨d, ev, hd, hev, this⟩

/-- encode ∘ decode for `MajorMinorChordOneHotEncoding`: `NO_CHORD` and every symbol whose quality is
major or minor encode into `[0, num_classes)` and decode to a name with the same root pitch class
and the same quality (`NO_CHORD` to `NO_CHORD`) -/
theorem mm_encode_decode (ev : ChordEvent) (rq : Option (Int × Nat)) (h : rootQuality ev = .ok rq)
    (hq : ∀ r q, rq = some (r, q) → q = CHORD_QUALITY_MAJOR ∨ q = CHORD_QUALITY_MINOR) :
    ∃ i, mmEncode ev = .ok i ∧ 0 ≤ i ∧ i < mmNumClasses ∧ mmDecodeRQ i = .ok rq := by
  rw [mmEncode_eq, h]
  cases rq with
  | none => exact ⟨0, rfl, by decide, by decide, by decide⟩
  | some p =>
    obtain ⟨r, q⟩ := p
    obtain ⟨hr0, hr1⟩ := root_range h
    have ht := mm_rq_table r.toNat (by omega)
    rw [Int.toNat_of_nonneg hr0] at ht
    have hn : mmNumClasses = 25 := by decide
    have hnpo : NOTES_PER_OCTAVE = 12 := by decide
    rcases hq r q rfl with rfl | rfl
    · exact ⟨r + 1, by simp, by omega, by omega, ht.1⟩
    · refine ⟨r + NOTES_PER_OCTAVE + 1, ?_, by omega, by omega, ht.2⟩
      have : CHORD_QUALITY_MINOR ≠ CHORD_QUALITY_MAJOR := by decide
      simp [this]

/-- every other quality is rejected with `ChordEncodingError`; an error of the symbol parser
(`ChordSymbolError` from an illegal modification) propagates unchanged -/
theorem mm_encode_rejects (ev : ChordEvent) :
    (∀ r q, rootQuality ev = .ok (some (r, q)) → q ≠ CHORD_QUALITY_MAJOR → q ≠ CHORD_QUALITY_MINOR →
      mmEncode ev = .error "ChordEncodingError") ∧
    (∀ e, rootQuality ev = .error e → mmEncode ev = .error e) := by
  refine ⟨fun r q h h1 h2 => ?_, fun e h => ?_⟩
  · rw [mmEncode_eq, h]; simp [h1, h2]
  · rw [mmEncode_eq, h]

/-- index `r + 1` decodes to (root pitch class `r`, major), index `r + 12 + 1` to (`r`, minor) -/
theorem mm_decode_root_quality : ∀ r : Nat, r < 12 →
    mmDecodeRQ ((r : Int) + 1) = .ok (some ((r : Int), CHORD_QUALITY_MAJOR)) ∧
    mmDecodeRQ ((r : Int) + NOTES_PER_OCTAVE + 1) = .ok (some ((r : Int), CHORD_QUALITY_MINOR)) := mm_rq_table

/-- decode ∘ encode for all 49 classes of `TriadChordOneHotEncoding` -/
theorem triad_decode_encode (i : Int) (h0 : 0 ≤ i) (h1 : i < triadNumClasses) :
    ∃ d ev, triadDecode i = .ok d ∧ structured d = some ev ∧ triadEncode ev = .ok i := by
  have := triad_table i.toNat (by omega)
  rw [Int.toNat_of_nonneg h0] at this
  unfold triadRoundTrip at this
  split at this
  · cases this
  · rename_i d hd
    split at this
    · cases this
    · rename_i ev hev
      exact ⟨d, ev, hd, hev, this⟩

/-- index `r + 12 k + 1` decodes to (root pitch class `r`, k-th of major/minor/augmented/diminished) -/
theorem triad_decode_root_quality : ∀ r : Nat, r < 12 → ∀ k : Nat, k < 4 →
    triadDecodeRQ ((r : Int) + (k : Int) * NOTES_PER_OCTAVE + 1) =
      .ok (some ((r : Int), triadQualities.getD k CHORD_QUALITY_OTHER)) := triad_rq_table

/-- encode ∘ decode for `TriadChordOneHotEncoding`: `NO_CHORD` and every symbol with a major, minor,
augmented or diminished triad encode into `[0, num_classes)` and decode to a name with the same
root pitch class and quality -/
theorem triad_encode_decode (ev : ChordEvent) (rq : Option (Int × Nat)) (h : rootQuality ev = .ok rq)
    (hq : ∀ r q, rq = some (r, q) → q ∈ triadQualities) :
    ∃ i, triadEncode ev = .ok i ∧ 0 ≤ i ∧ i < triadNumClasses ∧ triadDecodeRQ i = .ok rq := by
  rw [triadEncode_eq, h]
  cases rq with
  | none => exact ⟨0, rfl, by decide, by decide, by decide⟩
  | some p =>
    obtain ⟨r, q⟩ := p
    obtain ⟨hr0, hr1⟩ := root_range h
    have ht := triad_rq_table r.toNat (by omega)
    rw [Int.toNat_of_nonneg hr0] at ht
    have hn : triadNumClasses = 49 := by decide
    have hnpo : NOTES_PER_OCTAVE = 12 := by decide
    have hne : CHORD_QUALITY_MINOR ≠ CHORD_QUALITY_MAJOR ∧ CHORD_QUALITY_AUGMENTED ≠ CHORD_QUALITY_MAJOR ∧
        CHORD_QUALITY_AUGMENTED ≠ CHORD_QUALITY_MINOR ∧ CHORD_QUALITY_DIMINISHED ≠ CHORD_QUALITY_MAJOR ∧
        CHORD_QUALITY_DIMINISHED ≠ CHORD_QUALITY_MINOR ∧ CHORD_QUALITY_DIMINISHED ≠ CHORD_QUALITY_AUGMENTED := by
      decide
    have hq' := hq r q rfl
    simp only [triadQualities, List.mem_cons, List.not_mem_nil, or_false] at hq'
    rcases hq' with rfl | rfl | rfl | rfl
    · refine ⟨r + 1, by simp, by omega, by omega, ?_⟩
      have := ht 0 (by omega); simpa [triadQualities] using this
    · refine ⟨r + NOTES_PER_OCTAVE + 1, by simp [hne.1], by omega, by omega, ?_⟩
      have := ht 1 (by omega); simpa [triadQualities] using this
    · refine ⟨r + 2 * NOTES_PER_OCTAVE + 1, by simp [hne.2.1, hne.2.2.1], by omega, by omega, ?_⟩
      have := ht 2 (by omega); simpa [triadQualities] using this
    · refine ⟨r + 3 * NOTES_PER_OCTAVE + 1, by simp [hne.2.2.2.1, hne.2.2.2.2.1, hne.2.2.2.2.2], by omega, by omega, ?_⟩
      have := ht 3 (by omega); simpa [triadQualities] using this

/-- every other quality is rejected with `ChordEncodingError`; parser errors propagate -/
theorem triad_encode_rejects (ev : ChordEvent) :
    (∀ r q, rootQuality ev = .ok (some (r, q)) → q ∉ triadQualities →
      triadEncode ev = .error "ChordEncodingError") ∧
    (∀ e, rootQuality ev = .error e → triadEncode ev = .error e) := by
  refine ⟨fun r q h hq => ?_, fun e h => ?_⟩
  · rw [triadEncode_eq, h]
    simp only [triadQualities, List.mem_cons, List.not_mem_nil, or_false, not_or] at hq
    simp [hq.1, hq.2.1, hq.2.2.1, hq.2.2.2]
  · rw [triadEncode_eq, h]


/-- F#m7 (minor quality) is class 6 + 12 + 1; Bbb5(add3) has root 9 and a major triad; a sus4 chord is
rejected by both encoders; `Cmaj(add3)` is a parser error that propagates -/
example : rootQuality (.sym 'F' 1 ['m', '7'] []) = .ok (some (6, CHORD_QUALITY_MINOR)) ∧
    mmEncode (.sym 'F' 1 ['m', '7'] []) = .ok 19 ∧
    rootQuality (.sym 'B' (-2) ['5'] [⟨0, 0, 3⟩]) = .ok (some (9, CHORD_QUALITY_MAJOR)) ∧
    triadEncode (.sym 'C' 0 ['o', '7'] []) = .ok 37 ∧
    mmEncode (.sym 'C' 0 ['o', '7'] []) = .error "ChordEncodingError" ∧
    triadEncode (.sym 'C' 0 ['s', 'u', 's', '4'] []) = .error "ChordEncodingError" ∧
    rootQuality (.sym 'C' 0 ['m', 'a', 'j'] [⟨0, 0, 3⟩]) = .error "ChordSymbolError" := by
  decide +kernel

/-! ## Note-density one-hot encoding -/

/-- decode ∘ encode on every class index `0 … len(boundaries)` -/
theorem density_decode_encode (bs : List Rat) (hc : DensCfg bs) (i : Int) (h0 : 0 ≤ i)
    (h1 : i < densNumClasses bs) :
    ∃ v, densDecode bs i = .ok v ∧ (densEncode bs v : Int) = i := by
  obtain ⟨hs, hp⟩ := hc
  unfold densNumClasses at h1
  by_cases hi : i = 0
  · subst hi
    refine ⟨0, by simp [densDecode], ?_⟩
    cases bs with
    | nil => rfl
    | cons d ds =>
      rw [densEncode_cons]
      have : (0 : Rat) < d := hp d (by simp)
      simp [this]
  · obtain ⟨k, rfl⟩ : ∃ k : Nat, i = (k : Int) + 1 := ⟨(i - 1).toNat, by omega⟩
    have hk : k < bs.length := by omega
    refine ⟨bs[k], ?_, ?_⟩
    · unfold densDecode
      rw [if_neg hi]
      have : (k : Int) + 1 - 1 = (k : Int) := by omega
      rw [this, pyIndex_nat _ _ hk]
    · rw [densEncode_boundary bs hs k hk]; omega

/-- encode ∘ decode: every density `x ≥ 0` lands in a class `j ≤ len(boundaries)`, and decoding `j`
gives the lower bound of `x`'s bin: `0` for the first bin, otherwise boundary `j-1`, with
`lower bound ≤ x < boundary j` (no upper bound for the last bin).  Holds for every boundary list. -/
theorem density_encode_decode (bs : List Rat) (x : Rat) (hx : 0 ≤ x) :
    densEncode bs x < densNumClasses bs ∧
    ∃ v, densDecode bs (densEncode bs x : Int) = .ok v ∧ v ≤ x ∧
      (densEncode bs x = 0 → v = 0) ∧
      (0 < densEncode bs x → bs[densEncode bs x - 1]? = some v) ∧
      (∀ b, bs[densEncode bs x]? = some b → x < b) := by
  obtain ⟨h1, h2, h3⟩ := densEncode_spec bs x
  generalize densEncode bs x = j at *
  refine ⟨by unfold densNumClasses; omega, ?_⟩
  have hnext : ∀ b, bs[j]? = some b → x < b := by
    intro b hb
    obtain ⟨hj, rfl⟩ := List.getElem?_eq_some_iff.mp hb
    exact h3 hj
  cases j with
  | zero => exact ⟨0, by simp [densDecode], hx, fun _ => rfl, fun h => by omega, hnext⟩
  | succ k =>
    have hk : k < bs.length := by omega
    refine ⟨bs[k], ?_, h2 k hk (by omega), fun h => by omega, fun _ => by simp [hk], hnext⟩
    unfold densDecode
    have hne : ¬ (((k + 1 : Nat) : Int) = 0) := by omega
    rw [if_neg hne]
    have : ((k + 1 : Nat) : Int) - 1 = (k : Int) := by omega
    rw [this, pyIndex_nat _ _ hk]

example : DensCfg [1, 2, 4, 8, 16, 32, 64] := by
  unfold DensCfg; decide


example : densEncode [1, 2, 4, 8] 2 = 2 ∧ densDecode [1, 2, 4, 8] 2 = .ok 2 ∧
    densEncode [1, 2, 4, 8] (7/2) = 2 ∧ densEncode [1, 2, 4, 8] 100 = 4 ∧ densEncode [1, 2, 4, 8] 0 = 0 := by
  decide +kernel

end NSV.C09
