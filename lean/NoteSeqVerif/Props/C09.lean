import NoteSeqVerif.Model.C09
/-! C09 — property theorems only.  `Gen.*` definitions are regenerated from the Python source
on every run; a change to the code changes the statement that is checked here. -/
namespace NSV.C09
open Gen

/-! ## Melody one-hot encoding (theorems about the *generated* definitions) -/

/-- legal configurations: exactly what the constructor accepts (checked by correspondence) -/
def MelCfg (mn mx : Int) : Prop := MIN_MIDI_PITCH ≤ mn ∧ mx ≤ MAX_MIDI_PITCH + 1 ∧ mn < mx

/-- valid melody events for a configuration -/
def MelEvent (mn mx e : Int) : Prop := (-2 ≤ e ∧ e < 0) ∨ (mn ≤ e ∧ e < mx)

theorem melody_decode_encode (mn mx i : Int) (hc : MelCfg mn mx) (h0 : 0 ≤ i)
    (h1 : i < melNumClasses mn mx) : melEncode mn mx (melDecode mn i) = .ok i := by
  unfold MelCfg MIN_MIDI_PITCH MAX_MIDI_PITCH at hc
  unfold melEncode melDecode melNumClasses at *
  grind

theorem melody_encode_decode (mn mx e : Int) (hc : MelCfg mn mx) (he : MelEvent mn mx e) :
    ∃ i, melEncode mn mx e = .ok i ∧ 0 ≤ i ∧ i < melNumClasses mn mx ∧ melDecode mn i = e := by
  unfold MelCfg MIN_MIDI_PITCH MAX_MIDI_PITCH at hc
  unfold MelEvent at he
  unfold melEncode melDecode melNumClasses
  by_cases h : e < 0
  · refine ⟨e + 2, ?_⟩; grind
  · refine ⟨e - mn + 2, ?_⟩; grind

theorem melody_encode_rejects (mn mx e : Int) (hc : MelCfg mn mx) (he : ¬ MelEvent mn mx e) :
    melEncode mn mx e = .error "ValueError" := by
  unfold MelCfg MIN_MIDI_PITCH MAX_MIDI_PITCH at hc
  unfold MelEvent at he
  unfold melEncode
  grind

example : MelCfg 48 84 ∧ MelEvent 48 84 60 ∧ (0:Int) ≤ 14 ∧ (14:Int) < melNumClasses 48 84 := by
  unfold MelCfg MelEvent melNumClasses MIN_MIDI_PITCH MAX_MIDI_PITCH; omega

/-! ## Velocity bins (generated definitions) -/

theorem binsize_facts (n : Int) (h1 : 1 ≤ n) :
    1 ≤ velocityBinSize n ∧ 127 ≤ n * velocityBinSize n ∧ n * (velocityBinSize n - 1) < 127 := by
  unfold velocityBinSize pyCeilDiv
  have hn : 0 ≤ n := by omega
  rw [Int.fdiv_eq_ediv_of_nonneg _ hn]
  have a := @Int.mul_ediv_self_le (-127) n (by omega)
  have b := @Int.lt_mul_ediv_self_add (-127) n (by omega)
  simp only [Int.reduceSub, Int.reduceAdd, Int.reduceNeg] at *
  generalize (-127 : Int) / n = q at *
  have e1 : n * (-q) = -(n * q) := by rw [Int.mul_neg]
  have e2 : n * (-q - 1) = -(n * q) - n := by rw [Int.mul_sub, Int.mul_neg, Int.mul_one]
  refine ⟨?_, by omega, by omega⟩
  by_cases hq : 1 ≤ -q
  · exact hq
  · have : 0 ≤ q := by omega
    have := Int.mul_nonneg hn this
    omega

/-- every velocity 1..127 lands in a bin 1..num_velocity_bins, for every bin count ≥ 1 -/
theorem velocity_bin_range (n v : Int) (hn : 1 ≤ n) (hv1 : 1 ≤ v) (hv2 : v ≤ 127) :
    1 ≤ velocityToBin v n ∧ velocityToBin v n ≤ n := by
  obtain ⟨hs, hb, _⟩ := binsize_facts n hn
  unfold velocityToBin
  generalize velocityBinSize n = s at *
  rw [Int.fdiv_eq_ediv_of_nonneg _ (by omega)]
  have h0 : 0 ≤ (v - 1) / s := Int.ediv_nonneg (by omega) (by omega)
  have h1 : (v - 1) / s < n := by
    rw [Int.ediv_lt_iff_lt_mul (by omega)]
    omega
  omega

theorem velocity_bin_mono (n v w : Int) (hn : 1 ≤ n) (hvw : v ≤ w) :
    velocityToBin v n ≤ velocityToBin w n := by
  obtain ⟨hs, _, _⟩ := binsize_facts n hn
  unfold velocityToBin
  generalize velocityBinSize n = s at *
  rw [Int.fdiv_eq_ediv_of_nonneg _ (by omega), Int.fdiv_eq_ediv_of_nonneg _ (by omega)]
  have := @Int.ediv_le_ediv (v - 1) (w - 1) s (by omega) (by omega)
  omega

/-- bin → velocity is a right inverse of velocity → bin (every bin number, every bin count ≥ 1) -/
theorem velocity_bin_right_inverse (n b : Int) (hn : 1 ≤ n) :
    velocityToBin (velocityBinToVelocity b n) n = b := by
  obtain ⟨hs, _, _⟩ := binsize_facts n hn
  unfold velocityToBin velocityBinToVelocity
  generalize velocityBinSize n = s at *
  rw [Int.fdiv_eq_ediv_of_nonneg _ (by omega)]
  have : (1 + (b - 1) * s - 1) = (b - 1) * s := by omega
  rw [this, Int.mul_ediv_cancel _ (by omega)]
  omega

/-! ## Performance one-hot encoding: generic range lists, then the constructor's list -/

def WF (rs : List Range) : Prop := (∀ r ∈ rs, r.lo ≤ r.hi) ∧ rs.Pairwise (fun a b => a.ty ≠ b.ty)

theorem numClasses_nonneg (rs : List Range) (h : ∀ r ∈ rs, r.lo ≤ r.hi) : 0 ≤ numClasses rs := by
  induction rs with
  | nil => simp [numClasses]
  | cons r rs ih =>
    have := h r (by simp)
    have := ih (fun x hx => h x (by simp [hx]))
    simp [numClasses]; omega

/-- every index in `[off, off + numClasses)` decodes to an in-range event that encodes back to it -/
theorem ranges_decode_encode (rs : List Range) (hwf : WF rs) (off i : Int)
    (h1 : off ≤ i) (h2 : i < off + numClasses rs) :
    ∃ r ∈ rs, ∃ v, r.lo ≤ v ∧ v ≤ r.hi ∧ decodeAux rs off i = .ok (r.ty, v) ∧
      encodeAux rs off r.ty v = .ok i := by
  induction rs generalizing off with
  | nil => simp [numClasses] at h2; omega
  | cons r rs ih =>
    obtain ⟨hlo, hpw⟩ := hwf
    have hr := hlo r (by simp)
    by_cases hc : off ≤ i ∧ i ≤ off + r.hi - r.lo
    · refine ⟨r, by simp, r.lo + i - off, by omega, by omega, ?_, ?_⟩
      · simp [decodeAux, hc]
      · simp [encodeAux]; omega
    · have hwf' : WF rs := ⟨fun x hx => hlo x (by simp [hx]), (List.pairwise_cons.mp hpw).2⟩
      simp only [numClasses] at h2
      obtain ⟨r', hr', v, hv1, hv2, hd, he⟩ := ih hwf' (off + (r.hi - r.lo + 1)) (by omega) (by omega)
      refine ⟨r', by simp [hr'], v, hv1, hv2, ?_, ?_⟩
      · simp [decodeAux, hc, hd]
      · have hne : r'.ty ≠ r.ty := fun e => (List.pairwise_cons.mp hpw).1 r' hr' e.symm
        simp [encodeAux, hne, he]

/-- every valid event encodes into `[off, off + numClasses)` and decodes back to itself -/
theorem ranges_encode_decode (rs : List Range) (hwf : WF rs) (off : Int) (r : Range) (hr : r ∈ rs)
    (v : Int) (hv1 : r.lo ≤ v) (hv2 : v ≤ r.hi) :
    ∃ i, encodeAux rs off r.ty v = .ok i ∧ off ≤ i ∧ i < off + numClasses rs ∧
      decodeAux rs off i = .ok (r.ty, v) := by
  induction rs generalizing off with
  | nil => simp at hr
  | cons r0 rs ih =>
    obtain ⟨hlo, hpw⟩ := hwf
    have hwf' : WF rs := ⟨fun x hx => hlo x (by simp [hx]), (List.pairwise_cons.mp hpw).2⟩
    have hnn := numClasses_nonneg rs hwf'.1
    have hr0 := hlo r0 (by simp)
    rcases List.mem_cons.mp hr with rfl | hmem
    · refine ⟨off + v - r.lo, by simp [encodeAux], by omega, by simp [numClasses]; omega, ?_⟩
      have : off ≤ off + v - r.lo ∧ off + v - r.lo ≤ off + r.hi - r.lo := by omega
      simp only [decodeAux, this, and_self, if_true]
      congr 2; omega
    · have hne : r.ty ≠ r0.ty := fun e => (List.pairwise_cons.mp hpw).1 r hmem e.symm
      obtain ⟨i, he, hi1, hi2, hd⟩ := ih hwf' (off + (r0.hi - r0.lo + 1)) hmem
      refine ⟨i, by simp [encodeAux, hne, he], by omega, by simp [numClasses]; omega, ?_⟩
      have : ¬ (off ≤ i ∧ i ≤ off + r0.hi - r0.lo) := by omega
      simp [decodeAux, this, hd]

/-- legal configurations of `PerformanceOneHotEncoding` -/
def PerfCfg (bins maxShift minPitch maxPitch : Int) : Prop :=
  0 ≤ bins ∧ 1 ≤ maxShift ∧ minPitch ≤ maxPitch

theorem perfRanges_wf (bins ms lo hi : Int) (hc : PerfCfg bins ms lo hi) : WF (perfRanges bins ms lo hi) := by
  obtain ⟨hb, hs, hp⟩ := hc
  unfold perfRanges WF
  by_cases h : 0 < bins <;> simp [h, NOTE_ON, NOTE_OFF, TIME_SHIFT, VELOCITY] <;> omega

theorem perf_decode_encode (bins ms lo hi i : Int) (hc : PerfCfg bins ms lo hi)
    (h0 : 0 ≤ i) (h1 : i < perfNumClasses bins ms lo hi) :
    ∃ ty v, perfDecode bins ms lo hi i = .ok (ty, v) ∧ perfEncode bins ms lo hi ty v = .ok i := by
  obtain ⟨r, _, v, _, _, hd, he⟩ :=
    ranges_decode_encode _ (perfRanges_wf bins ms lo hi hc) 0 i h0 (by simpa [perfNumClasses] using h1)
  exact ⟨r.ty, v, hd, he⟩

theorem perf_encode_decode (bins ms lo hi : Int) (hc : PerfCfg bins ms lo hi)
    (r : Range) (hr : r ∈ perfRanges bins ms lo hi) (v : Int) (hv1 : r.lo ≤ v) (hv2 : v ≤ r.hi) :
    ∃ i, perfEncode bins ms lo hi r.ty v = .ok i ∧ 0 ≤ i ∧ i < perfNumClasses bins ms lo hi ∧
      perfDecode bins ms lo hi i = .ok (r.ty, v) := by
  obtain ⟨i, he, h0, h1, hd⟩ :=
    ranges_encode_decode _ (perfRanges_wf bins ms lo hi hc) 0 r hr v hv1 hv2
  exact ⟨i, he, h0, by simpa [perfNumClasses] using h1, hd⟩

/-- `default_event` = TIME_SHIFT of `max_shift_steps` is a valid event of every legal configuration -/
theorem perf_default_in_range (bins ms lo hi : Int) (hc : PerfCfg bins ms lo hi) :
    ∃ i, perfEncode bins ms lo hi TIME_SHIFT ms = .ok i ∧ 0 ≤ i ∧ i < perfNumClasses bins ms lo hi := by
  obtain ⟨_, hs, _⟩ := hc
  obtain ⟨i, he, h0, h1, _⟩ := perf_encode_decode bins ms lo hi ⟨‹_›, hs, ‹_›⟩ ⟨TIME_SHIFT, 1, ms⟩
    (by unfold perfRanges; simp) ms hs (Int.le_refl _)
  exact ⟨i, he, h0, h1⟩

example : PerfCfg 32 100 21 108 ∧ (⟨TIME_SHIFT, 1, 100⟩ : Range) ∈ perfRanges 32 100 21 108 := by
  unfold PerfCfg perfRanges; simp

/-! ## Multi-drum encoding: the generated default table, all `2^9` classes (whole finite domain) -/
def drumRoundTrip (table : List (List Nat)) (i : Nat) : Bool :=
  match drumDecode table i with
  | .ok ps => drumEncode table ps == i
  | .error _ => false

theorem drum_decode_encode_default :
    ∀ i, i < 2 ^ drumTable.length → drumRoundTrip drumTable i = true := by
  decide +kernel

end NSV.C09
