import NoteSeqVerif.Proofs.C19
/-! C19 — chord and melody inference return a maximum-likelihood path of their model.

Property theorems only (helper lemmas: `Proofs/C19.lean`; executable model: `Model/C19.lean`).
Scores live in an arbitrary linear order `S`; the score combination `add` is only assumed
monotone in its accumulated (left) argument — it need not be associative, commutative or exact.
Exact addition on integers extended by −∞ (`Ext`, used for the integer-table correspondence
stream) is proved to be such an `add` below; floating-point addition `rne53 (a + b)` with −∞
absorbing (`ExtQ`) in `Props/C19_float.lean`. -/
set_option linter.unnecessarySeqFocus false
namespace NSV.C19

/-! ## `numpy.argmax`: the first maximum -/

theorem argmax_first_max {S : Type} [LinearOrder S] (f : Nat → S) (n : Nat) (hn : 0 < n) :
    argmaxIdx f n < n ∧ (∀ i, i < n → f i ≤ f (argmaxIdx f n)) ∧
      (∀ i, i < argmaxIdx f n → f i < f (argmaxIdx f n)) :=
  ⟨argmaxIdx_lt f n hn, le_argmaxIdx f n, lt_argmaxIdx_of_lt f n⟩

example : argmaxIdx (fun i => [3, 7, 7, 1].getD i (0 : Int)) 4 = 1 := by decide

/-! ## Viterbi -/
section Viterbi
variable {S : Type} [LinearOrder S] (add : S → S → S)

/-- the array-based computation (rows of `loglik_matrix` / `path_matrix` stored, as in the Python)
returns exactly the path defined by the recursion equations -/
theorem viterbi_run_eq (T : Tables S) (frames : Nat) :
    viterbiRun add T frames = ((viterbiRev add T frames).reverse, optimum add T frames) := by
  simp only [viterbiRun, fwdExec_eq, look_tab, backExec_eq, viterbiRev, optimum]

theorem viterbi_exec_eq (T : Tables S) (frames : Nat) :
    viterbiExec add T frames = (viterbiRev add T frames).reverse := by
  simp only [viterbiExec, viterbi_run_eq]

/-- **optimality**: for any number of states and frames and any tables, the returned path is a
state path of the requested length whose score — computed in the code's association order —
equals the DP's final maximum and is at least the score of every other state path of that length -/
theorem viterbi_optimal (hm : Mono add) (T : Tables S) (frames : Nat) (hf : 0 < frames) (hn : 0 < T.n) :
    ∃ path, viterbi add T frames = .ok path ∧ path.length = frames ∧ (∀ s ∈ path, s < T.n) ∧
      score add T path = some (optimum add T frames) ∧
      ∀ p : List Nat, p.length = frames → (∀ s ∈ p, s < T.n) →
        ∀ v, score add T p = some v → v ≤ optimum add T frames := by
  refine ⟨(viterbiRev add T frames).reverse, ?_, ?_, viterbiRev_states add T hn frames,
    score_viterbi add T frames, fun p hp hs v hv => score_le_optimum add hm T frames p hp hs v hv⟩
  · simp only [viterbi, viterbiFull, viterbi_run_eq]
    rw [if_neg (by omega), if_neg (by omega)]
  · simp only [viterbiRev, List.length_reverse, backRev_length]; omega

/-- the helper fails exactly on zero frames / zero states -/
theorem viterbi_error_iff (T : Tables S) (frames : Nat) :
    (∃ e, viterbi add T frames = .error e) ↔ frames = 0 ∨ T.n = 0 := by
  unfold viterbi viterbiFull
  by_cases h1 : frames = 0
  · simp [h1]
  · by_cases h2 : T.n = 0
    · simp [h1, h2]
    · simp [h1, h2]

/-- `_key_chord_viterbi` (any number `C ≥ 1` of chords; 12 keys): the returned key-chord path
maximises `((−log 12 + kc[key, chord]) + fl[0, chord]) + tr[s₀, s₁]) + fl[1, chord₁] + …` -/
theorem keychord_viterbi_optimal (hm : Mono add) (C : Nat) (hC : 0 < C) (negLog12 : S)
    (kc fl tr : Nat → Nat → S) (frames : Nat) (hf : 0 < frames) :
    let T := kcTables add C negLog12 kc fl tr
    ∃ path, viterbi add T frames = .ok path ∧ path.length = frames ∧ (∀ s ∈ path, s < 12 * C) ∧
      score add T path = some (optimum add T frames) ∧
      ∀ p : List Nat, p.length = frames → (∀ s ∈ p, s < 12 * C) →
        ∀ v, score add T p = some v → v ≤ optimum add T frames :=
  viterbi_optimal add hm (kcTables add C negLog12 kc fl tr) frames hf (show 0 < 12 * C by omega)

/-- `_melody_viterbi` (any number `P` of distinct pitches; `2P+1` states; first frame follows a
rest): the returned event path maximises `(tr[0, s₀] + fl[0, s₀]) + tr[s₀, s₁]) + fl[1, s₁] + …` -/
theorem melody_viterbi_optimal (hm : Mono add) (P : Nat) (fl tr : Nat → Nat → S) (frames : Nat)
    (hf : 0 < frames) :
    let T := melTables add P fl tr
    ∃ path, viterbi add T frames = .ok path ∧ path.length = frames ∧ (∀ s ∈ path, s < 2 * P + 1) ∧
      score add T path = some (optimum add T frames) ∧
      ∀ p : List Nat, p.length = frames → (∀ s ∈ p, s < 2 * P + 1) →
        ∀ v, score add T p = some v → v ≤ optimum add T frames :=
  viterbi_optimal add hm (melTables add P fl tr) frames hf (show 0 < 2 * P + 1 by omega)

omit [LinearOrder S] in
/-- what the two layouts score (unfolding of the definitions, for the reader) -/
theorem keychord_score_unfold (C : Nat) (negLog12 : S) (kc fl tr : Nat → Nat → S) (s₀ s₁ s₂ : Nat) :
    score add (kcTables add C negLog12 kc fl tr) [s₀, s₁, s₂] =
      some (add (add (add (add (add (add negLog12 (kc (s₀ / C) (s₀ % C))) (fl 0 (s₀ % C)))
        (tr s₀ s₁)) (fl 1 (s₁ % C))) (tr s₁ s₂)) (fl 2 (s₂ % C))) := rfl

omit [LinearOrder S] in
theorem melody_score_unfold (P : Nat) (fl tr : Nat → Nat → S) (s₀ s₁ s₂ : Nat) :
    score add (melTables add P fl tr) [s₀, s₁, s₂] =
      some (add (add (add (add (add (tr 0 s₀) (fl 0 s₀)) (tr s₀ s₁)) (fl 1 s₁)) (tr s₁ s₂)) (fl 2 s₂)) := rfl

omit [LinearOrder S] in
/-- **finiteness**: if `bot` (−∞) is absorbing for `add`, a path whose score is not `bot` has no
`bot` term on it — in particular the Viterbi path when the optimum is not −∞ -/
theorem viterbi_finite (T : Tables S) (bot : S) (hL : ∀ b, add bot b = bot) (hR : ∀ a, add a bot = bot)
    (p : List Nat) (v : S) (hv : score add T p = some v) (hne : v ≠ bot) : pathFinite T bot p := by
  cases p with
  | nil => trivial
  | cons j rest =>
    simp only [score, Option.some.injEq] at hv
    subst hv
    exact scoreFrom_ne_bot add T bot hL hR rest _ j 1 hne

theorem viterbi_path_finite (T : Tables S) (bot : S) (hL : ∀ b, add bot b = bot)
    (hR : ∀ a, add a bot = bot) (frames : Nat) (hne : optimum add T frames ≠ bot) :
    pathFinite T bot (viterbiExec add T frames) := by
  rw [viterbi_exec_eq]
  exact viterbi_finite add T bot hL hR _ _ (score_viterbi add T frames) hne

omit [LinearOrder S] in
/-- melody: when the likelihood of an onset state is −∞ in every frame without an observed onset
of that pitch (`log 0` in `_melody_frame_log_likelihood`), every onset state on a path of finite
score sits in a frame where that pitch has an observed onset -/
theorem melody_onset_observed (P : Nat) (fl tr : Nat → Nat → S) (bot : S)
    (hR : ∀ a, add a bot = bot) (hasOnset : Nat → Nat → Prop)
    (hemit : ∀ t j, 1 ≤ j → j ≤ P → ¬ hasOnset t (j - 1) → fl t j = bot)
    (path : List Nat) (hfin : pathFinite (melTables add P fl tr) bot path)
    (t j : Nat) (hj : path[t]? = some j) (h1 : 1 ≤ j) (h2 : j ≤ P) : hasOnset t (j - 1) := by
  apply Classical.byContradiction
  intro hno
  have hb := hemit t j h1 h2 hno
  cases path with
  | nil => simp at hj
  | cons s rest =>
    obtain ⟨hi, hs⟩ := hfin
    cases t with
    | zero =>
      simp only [List.getElem?_cons_zero, Option.some.injEq] at hj
      subst hj
      exact hi (by simp only [melTables]; rw [hb, hR])
    | succ t =>
      simp only [List.getElem?_cons_succ] at hj
      have := stepsFinite_emit (melTables add P fl tr) bot rest s 1 t j hs hj
      exact this (by simp only [melTables]; rw [Nat.add_comm 1 t, hb])

/-- **relabelling**: a bijection of the states that preserves the initial row and the transitions
and carries emissions to emissions preserves the optimum -/
theorem viterbi_equivariant (hm : Mono add) (T T' : Tables S) (σ τ : Nat → Nat) (hn : 0 < T.n)
    (hn' : T'.n = T.n) (hσ : ∀ i, i < T.n → σ i < T.n) (hτ : ∀ i, i < T.n → τ i < T.n)
    (hστ : ∀ i, i < T.n → σ (τ i) = i)
    (hi : ∀ i, i < T.n → T'.init (σ i) = T.init i)
    (ht : ∀ i j, i < T.n → j < T.n → T'.trans (σ i) (σ j) = T.trans i j)
    (he : ∀ t j, j < T.n → T'.emit t (σ j) = T.emit t j) (frames : Nat) (hf : 0 < frames) :
    optimum add T' frames = optimum add T frames := by
  apply le_antisymm
  · refine optimum_le_of_map add hm T' T τ (by omega) hn'.symm (by rw [hn']; exact hτ) ?_ ?_ ?_ frames hf
    · intro i h; rw [hn'] at h; rw [← hi (τ i) (hτ i h), hστ i h]
    · intro i j h1 h2; rw [hn'] at h1 h2
      rw [← ht (τ i) (τ j) (hτ i h1) (hτ j h2), hστ i h1, hστ j h2]
    · intro t j h; rw [hn'] at h; rw [← he t (τ j) (hτ j h), hστ j h]
  · exact optimum_le_of_map add hm T T' σ hn hn' hσ hi ht he frames hf

/-- **transposition, chord inference**: if the key-chord prior, the emissions and the transitions
of a second instance are those of the first with every key and every chord root moved up `k`
semitones (`rot` = the chord relabelling, a bijection of `0..C-1`), both instances attain the same
maximum -/
theorem keychord_transpose_invariant (hm : Mono add) (C k k' : Nat) (rot rotInv : Nat → Nat) (hC : 0 < C)
    (hk : (k + k') % 12 = 0)
    (hr : ∀ c, c < C → rot c < C) (hr' : ∀ c, c < C → rotInv c < C)
    (hinv' : ∀ c, c < C → rot (rotInv c) = c)
    (negLog12 : S) (kc fl tr kc' fl' tr' : Nat → Nat → S)
    (hkc : ∀ a c, a < 12 → c < C → kc' ((a + k) % 12) (rot c) = kc a c)
    (hfl : ∀ t c, c < C → fl' t (rot c) = fl t c)
    (htr : ∀ i j, i < 12 * C → j < 12 * C → tr' (rotState C k rot i) (rotState C k rot j) = tr i j)
    (frames : Nat) (hf : 0 < frames) :
    optimum add (kcTables add C negLog12 kc' fl' tr') frames =
      optimum add (kcTables add C negLog12 kc fl tr) frames := by
  apply le_antisymm
  · refine kc_optimum_le add hm C k' rotInv hC hr' negLog12 kc' fl' tr' kc fl tr ?_ ?_ ?_ frames hf
    · intro a c ha hc
      have := hkc ((a + k') % 12) (rotInv c) (Nat.mod_lt _ (by omega)) (hr' c hc)
      rw [hinv' c hc] at this
      rw [← this]; congr 1; omega
    · intro t c hc
      have := hfl t (rotInv c) (hr' c hc)
      rw [hinv' c hc] at this; exact this.symm
    · intro i j hi hj
      have hk' : (k' + k) % 12 = 0 := by rw [Nat.add_comm]; exact hk
      have hi' := rotState_lt C k' rotInv i (hr' _ (Nat.mod_lt _ hC))
      have hj' := rotState_lt C k' rotInv j (hr' _ (Nat.mod_lt _ hC))
      have := htr _ _ hi' hj'
      rw [rotState_inv C k' k rotInv rot hC hk' hr' hinv' i hi,
        rotState_inv C k' k rotInv rot hC hk' hr' hinv' j hj] at this
      exact this.symm
  · exact kc_optimum_le add hm C k rot hC hr negLog12 kc fl tr kc' fl' tr' hkc hfl htr frames hf

end Viterbi

/-! ## Exact scores with −∞ are an instance -/

instance : LinearOrder Ext where
  le := (· ≤ ·)
  lt := (· < ·)
  le_refl := fun a => by cases a <;> simp
  le_trans := fun a b c => by
    cases a <;> cases b <;> cases c <;> simp <;> omega
  le_antisymm := fun a b => by
    cases a <;> cases b <;> simp <;> omega
  le_total := fun a b => by
    cases a <;> cases b <;> simp <;> omega
  lt_iff_le_not_ge := fun a b => by
    cases a <;> cases b <;> simp <;> omega
  toDecidableLE := inferInstance
  toDecidableLT := inferInstance
  toDecidableEq := inferInstance

/-- exact addition with −∞ absorbing is left-monotone … -/
theorem mono_ext : Mono Ext.add := fun a a' b h => by
  cases a <;> cases a' <;> cases b <;> simp [Ext.add] at * <;> omega

/-- … and −∞ is absorbing on both sides -/
theorem ext_absorbing : (∀ b, Ext.add .ninf b = .ninf) ∧ (∀ a, Ext.add a .ninf = .ninf) :=
  ⟨fun b => by cases b <;> rfl, fun a => by cases a <;> rfl⟩

/-- non-vacuity: a 2-frame melody instance with P = 1 (states rest / onset / sustain), a forbidden
transition and a tie (`[0, 0]` and `[1, 2]` both score −4: the first maximum is returned) -/
def exT : Tables Ext := melTables Ext.add 1
  (fun t j => [[.fin (-1), .fin (-2), .ninf], [.fin (-3), .ninf, .fin (-1)]].getD t [] |>.getD j .ninf)
  (fun i j => [[.fin 0, .fin (-1), .ninf], [.fin (-2), .fin (-1), .fin 0], [.fin (-2), .fin (-1), .fin 0]].getD i []
    |>.getD j .ninf)

example : viterbi Ext.add exT 2 = .ok [0, 0] ∧ score Ext.add exT [0, 0] = some (.fin (-4)) ∧
    optimum Ext.add exT 2 = .fin (-4) ∧ score Ext.add exT [1, 2] = some (.fin (-4)) ∧
    score Ext.add exT [0, 1] = some .ninf ∧ pathFinite exT .ninf [0, 0] := by
  refine ⟨by decide, by decide, by decide, by decide, by decide, ?_⟩
  simp only [pathFinite, stepsFinite]; decide

/-- non-vacuity of `keychord_transpose_invariant`: two chords (C = 2, `rot = id`), keys moved up
5 semitones; the second instance is the first one relabelled, all hypotheses hold and both optima
are the same number -/
def exKc : Nat → Nat → Ext := fun a c => .fin (-(((a * 7 + c * 3) % 5 : Nat) : Int))
def exFl : Nat → Nat → Ext := fun t c => .fin (-(((t * 2 + c) % 3 : Nat) : Int))
def exTr : Nat → Nat → Ext := fun i j => if (i + 2 * j) % 7 = 0 then .ninf else .fin (-(((i * 5 + j * 11) % 6 : Nat) : Int))
def exKc' : Nat → Nat → Ext := fun a c => exKc ((a + 7) % 12) c
def exTr' : Nat → Nat → Ext := fun i j => exTr (rotState 2 7 id i) (rotState 2 7 id j)

example : (∀ a, a < 12 → ∀ c, c < 2 → exKc' ((a + 5) % 12) (id c) = exKc a c) ∧
    (∀ i, i < 12 * 2 → ∀ j, j < 12 * 2 → exTr' (rotState 2 5 id i) (rotState 2 5 id j) = exTr i j) ∧
    viterbiRun Ext.add (kcTables Ext.add 2 (.fin (-2)) exKc exFl exTr) 3 = ([0, 5, 0], .fin (-5)) ∧
    viterbiRun Ext.add (kcTables Ext.add 2 (.fin (-2)) exKc' exFl exTr') 3 = ([6, 1, 0], .fin (-5)) := by
  refine ⟨by decide +kernel, by decide +kernel, by decide +kernel, by decide +kernel⟩

/-! ## The chord tables are rotation invariant -/

/-- everything `_key_chord_distribution` and `_chord_pitch_vectors` look at, over the tables
regenerated from the source: the chord relabelling `rotChord k` is a bijection of `_CHORDS`, the
numbers of chord pitches inside / outside the key are the same for `(key + k, rot c)` as for
`(key, c)`, and the chord's pitch-class vector is the rotated one -/
def rotationHolds : Bool :=
  (List.range 12).all fun k => (List.range Gen.chords.length).all fun c =>
    rotChord k c < Gen.chords.length &&
    rotChord ((12 - k) % 12) (rotChord k c) == c &&
    (List.range 12).all (fun key =>
      numIn ((key + k) % 12) (rotChord k c) == numIn key c &&
      numOut ((key + k) % 12) (rotChord k c) == numOut key c) &&
    (List.range 12).all (fun pc => chordVec (rotChord k c) ((pc + k) % 12) == chordVec c pc)

theorem chord_tables_rotation_table : rotationHolds = true := by decide +kernel

theorem chord_tables_rotation (k c : Nat) (hk : k < 12) (hc : c < Gen.chords.length) :
    rotChord k c < Gen.chords.length ∧ rotChord ((12 - k) % 12) (rotChord k c) = c ∧
    (∀ key, key < 12 → numIn ((key + k) % 12) (rotChord k c) = numIn key c ∧
      numOut ((key + k) % 12) (rotChord k c) = numOut key c) ∧
    (∀ pc, pc < 12 → chordVec (rotChord k c) ((pc + k) % 12) = chordVec c pc) := by
  have h := chord_tables_rotation_table
  simp only [rotationHolds, List.all_eq_true, List.mem_range, Bool.and_eq_true, decide_eq_true_eq,
    beq_iff_eq] at h
  obtain ⟨⟨⟨h1, h2⟩, h3⟩, h4⟩ := h k hk c hc
  exact ⟨h1, h2, h3, h4⟩

/-- the state layout and the figure table match the source: 12 keys × `len(_CHORDS)` states,
one figure per chord, all figures distinct (so "figure differs" = "chord differs"), 12 distinct key
names -/
theorem chord_tables_shape : Gen.numKeyChords = 12 * Gen.chords.length ∧
    Gen.figures.length = Gen.chords.length ∧ Gen.figures.Nodup ∧
    Gen.pitchClassNames.length = 12 ∧ Gen.pitchClassNames.Nodup ∧
    Gen.chords.length = 1 + 12 * Gen.kindPitches.length := by
  decide +kernel

/-! ## What the writers add -/

/-- `infer_chords_for_sequence`: the chord symbols added for a decoded path -/
theorem chord_annotations_wf (R : Rat → Rat) (tm : Timing) (addKeys : Bool)
    (states : List (Nat × String × String)) (anns : List ChordAnn) (keys : List KeySig)
    (h : chordWriter R tm addKeys states = .ok (anns, keys)) :
    -- at most one annotation per frame, in increasing frame order, inside the path
    anns.Pairwise (fun a b => a.frame < b.frame) ∧
    (∀ a ∈ anns, a.frame < states.length ∧ frameTime R tm a.frame = .ok a.time ∧
      frameStep tm a.frame = .ok a.step ∧ ∃ s, states[a.frame]? = some s ∧ a.text = s.2.2) ∧
    -- an annotation is written only when the figure changes …
    Adjacent (fun a b => a.text ≠ b.text) anns ∧
    -- … and whenever it changes: every frame carries the figure of the last annotation before it
    (∀ t s, states[t]? = some s → ∃ a ∈ anns, a.frame ≤ t ∧ a.text = s.2.2 ∧
      ∀ b ∈ anns, b.frame ≤ t → b.frame ≤ a.frame) ∧
    -- key signatures: the same loop on key names (only when requested)
    keys.Pairwise (fun a b => a.frame < b.frame) ∧
    (∀ a ∈ keys, addKeys = true ∧ a.frame < states.length ∧ frameTime R tm a.frame = .ok a.time ∧
      ∃ s, states[a.frame]? = some s ∧ a.key = s.1) ∧
    (addKeys = false → keys = []) := by
  unfold chordWriter at h
  generalize hA : mapOk (annOf R tm) _ = A at h
  generalize hK : (if addKeys = true then _ else _ : Except String (List KeySig)) = K at h
  cases A with
  | error e => cases K <;> simp at h
  | ok a =>
    cases K with
    | error e => simp at h
    | ok k =>
      simp only [Except.ok.injEq, Prod.mk.injEq] at h
      obtain ⟨rfl, rfl⟩ := h
      have memA := mapOk_mem _ _ _ hA
      refine ⟨?_, ?_, ?_, ?_, ?_, ?_, ?_⟩
      · refine mapOk_pairwise _ ?_ _ _ hA (changesFrom_pairwise _ states none 0)
        intro x x' b b' hb hb' hlt
        rw [(annOf_ok hb).2.2.1, (annOf_ok hb').2.2.1]; exact hlt
      · intro b hb
        obtain ⟨x, hx, hfx⟩ := memA b hb
        obtain ⟨_, h2, h3⟩ := changesFrom_mem _ states none 0 x.1 x.2 hx
        obtain ⟨e1, e2, e3, e4⟩ := annOf_ok hfx
        rw [e3]
        exact ⟨by simpa using h2, e1, e2, x.2, by simpa using h3, e4⟩
      · refine mapOk_adjacent _ ?_ _ _ hA (changesFrom_adjacent _ states none 0).1
        intro x x' b b' hb hb' hne
        rw [(annOf_ok hb).2.2.2, (annOf_ok hb').2.2.2]; exact hne
      · intro t s hs
        rcases changesFrom_reconstruct (fun s : Nat × String × String => s.2.2) states none 0 t s hs with
          ⟨h1, _⟩ | ⟨x, hx, h1, h2, h3⟩
        · simp at h1
        · obtain ⟨b, hb, hfb⟩ := mapOk_mem' _ _ _ hA x hx
          obtain ⟨_, _, e3, e4⟩ := annOf_ok hfb
          refine ⟨b, hb, by omega, by rw [e4]; exact h2, ?_⟩
          intro b' hb' hle
          obtain ⟨x', hx', hfx'⟩ := memA b' hb'
          have e3' := (annOf_ok hfx').2.2.1
          have := h3 x' hx' (by omega)
          omega
      · cases addKeys with
        | false => simp at hK; subst hK; simp
        | true =>
          simp only [if_true] at hK
          refine mapOk_pairwise _ ?_ _ _ hK (changesFrom_pairwise _ states none 0)
          intro x x' b b' hb hb' hlt
          rw [(keyOf_ok hb).2.1, (keyOf_ok hb').2.1]; exact hlt
      · intro b hb
        cases addKeys with
        | false => simp at hK; subst hK; simp at hb
        | true =>
          simp only [if_true] at hK
          obtain ⟨x, hx, hfx⟩ := mapOk_mem _ _ _ hK b hb
          obtain ⟨_, h2, h3⟩ := changesFrom_mem _ states none 0 x.1 x.2 hx
          obtain ⟨e1, e2, e3⟩ := keyOf_ok hfx
          rw [e2]
          exact ⟨rfl, by simpa using h2, e1, x.2, by simpa using h3, e3⟩
      · intro hf; subst hf; simp at hK; exact hK

/-- annotation times are non-decreasing whenever frame times are (beat times are sorted by
construction; `frame * seconds_per_chord` is monotone for any monotone rounding) -/
theorem chord_times_nondecreasing (R : Rat → Rat) (tm : Timing) (addKeys : Bool)
    (states : List (Nat × String × String)) (anns : List ChordAnn) (keys : List KeySig)
    (h : chordWriter R tm addKeys states = .ok (anns, keys))
    (hmono : ∀ f g t u, f < g → g < states.length → frameTime R tm f = .ok t → frameTime R tm g = .ok u → t ≤ u) :
    anns.Pairwise (fun a b => a.time ≤ b.time) := by
  obtain ⟨h1, h2, _⟩ := chord_annotations_wf R tm addKeys states anns keys h
  refine List.Pairwise.imp_of_mem ?_ h1
  intro a b ha hb hlt
  exact hmono a.frame b.frame a.time b.time hlt (h2 b hb).1 (h2 a ha).2.1 (h2 b hb).2.1

/-- per-chord timing with exact arithmetic or any monotone rounding, non-negative chord length -/
theorem perChord_times_monotone (R : Rat → Rat) (hR : ∀ x y : Rat, x ≤ y → R x ≤ R y) (spc : Rat)
    (hspc : 0 ≤ spc) (steps : Int) (f g : Nat) (t u : Rat) (hfg : f < g)
    (ht : frameTime R (.perChord spc steps) f = .ok t) (hu : frameTime R (.perChord spc steps) g = .ok u) :
    t ≤ u := by
  simp only [frameTime, Except.ok.injEq] at ht hu
  subst ht; subst hu
  apply hR
  apply Rat.mul_le_mul_of_nonneg_right _ hspc
  exact_mod_cast Nat.le_of_lt hfg

/-- non-vacuity: C, C, G, G, C in C major with two chords per bar at 120 qpm -/
example : chordWriter id (.perChord 1 8) true
    [(0, "C", "C"), (0, "C", "C"), (0, "C", "G"), (7, "G", "G"), (7, "G", "C")] =
    .ok ([⟨0, 0, some 0, "C"⟩, ⟨2, 2, some 16, "G"⟩, ⟨4, 4, some 32, "C"⟩], [⟨0, 0, 0⟩, ⟨3, 3, 7⟩]) := by
  decide +kernel

/-- `infer_melody_for_sequence`: the notes added for an event path with strictly increasing frame
times inside `[lo, total)`: every note is non-empty and inside the sequence, starts at the time of
an onset state of its own pitch, ends at `total` or at the time of a later rest / onset state, and
the notes do not overlap -/
theorem melody_notes_wf {τ : Type} [LinearOrder τ] (total lo : τ) (evs : List (MelEvent × τ))
    (notes : List (MelNote τ)) (hsorted : evs.Pairwise (fun a b => a.2 < b.2))
    (hrange : ∀ e ∈ evs, lo ≤ e.2 ∧ e.2 < total) (h : melWriter total none evs = .ok notes) :
    (∀ n ∈ notes, lo ≤ n.start ∧ n.start < n.stop ∧ n.stop ≤ total ∧
      (MelEvent.note n.pitch true, n.start) ∈ evs ∧
      (n.stop = total ∨ ∃ e ∈ evs, e.2 = n.stop ∧ (e.1 = .rest ∨ ∃ q, e.1 = .note q true))) ∧
    notes.Pairwise (fun a b => a.stop ≤ b.start) := by
  obtain ⟨h1, h2⟩ := melWriter_wf total evs none lo notes hsorted hrange (by simp) h
  refine ⟨fun n hn => ?_, h2⟩
  obtain ⟨a, b, c, d, e⟩ := h1 n hn
  exact ⟨a, b, c, by simpa using d, e⟩

/-- the writer's `assert pitch == note_pitch` cannot fail on a path of finite score: sustaining
a pitch is only possible (transition ≠ −∞) from the onset or sustain state of the same pitch -/
theorem melody_writer_ok {S τ : Type} (add : S → S → S) (bot : S) (hL : ∀ b, add bot b = bot)
    (pitches : List Nat) (fl tr : Nat → Nat → S)
    (hstruct : ∀ i j, pitches.length < j → i ≠ j → i + pitches.length ≠ j → tr i j = bot)
    (path : List Nat) (hs : ∀ s ∈ path, s < 2 * pitches.length + 1)
    (hfin : pathFinite (melTables add pitches.length fl tr) bot path) (total : τ) (times : List τ) :
    ∃ evs notes, melEvents pitches path = .ok evs ∧ evs.length = path.length ∧
      melWriter total none (evs.zip times) = .ok notes := by
  have hc := pathFinite_chainLegal add pitches.length fl tr bot hL hstruct path hfin
  obtain ⟨evs, he, hl, hev⟩ := chainLegal_evLegal pitches path 0 hs hc
  have hev' : evLegal none evs := by simpa [curPitch] using hev
  -- zipping with times keeps a prefix of the events; legality is prefix-closed
  have hpre : ∀ (evs : List MelEvent) (times : List τ) (cur : Option Nat), evLegal cur evs →
      evLegal cur ((evs.zip times).map (·.1)) := by
    intro evs
    induction evs with
    | nil => intro times cur h; simp [evLegal]
    | cons e r ih =>
      intro times cur h
      cases times with
      | nil => simp [evLegal]
      | cons t ts =>
        simp only [List.zip_cons_cons, List.map_cons]
        cases e with
        | rest => exact ih ts none h
        | note q on =>
          cases on with
          | true => exact ih ts (some q) h
          | false => exact ⟨h.1, ih ts cur h.2⟩
  obtain ⟨notes, hn⟩ := melWriter_ok total (evs.zip times) none (by simpa using hpre evs times none hev')
  exact ⟨evs, notes, he, hl, hn⟩

/-- non-vacuity: rest, onset 60, sustain 60, onset 64, rest -/
example : melWriter (5 : Rat) none [(.rest, 0), (.note 60 true, 1), (.note 60 false, 2),
    (.note 64 true, 3), (.rest, 4)] = .ok [⟨1, 3, 60⟩, ⟨3, 4, 64⟩] := by decide +kernel

example : melWriter (5 : Rat) none [(.note 60 true, 0), (.note 64 false, 1)] = .error "AssertionError" := by
  decide +kernel

/-- non-vacuity of `melody_writer_ok` / `melody_onset_observed`: the tables `exT` (P = 1) forbid
entering the sustain state 2 except from states 1 and 2, the path onset → sustain has finite score,
and its onset sits in frame 0 where the onset emission is finite -/
example : (∀ i j, 1 < j → i ≠ j → i + 1 ≠ j → exT.trans i j = .ninf) ∧
    pathFinite exT .ninf [1, 2] ∧ (∀ s ∈ [1, 2], s < 2 * 1 + 1) ∧
    melEvents [60] [1, 2] = .ok [.note 60 true, .note 60 false] ∧
    melWriter (2 : Rat) none ([MelEvent.note 60 true, .note 60 false].zip [0, 1]) = .ok [⟨0, 2, 60⟩] := by
  refine ⟨?_, ?_, by decide, by decide, by decide +kernel⟩
  · intro i j h1 h2 h3
    simp only [exT, melTables]
    match i, j with
    | 0, 2 => rfl
    | 0, j + 3 => rfl
    | 1, j + 3 => rfl
    | 2, j + 3 => rfl
    | i + 3, j => rfl
    | 1, 2 => omega
    | 2, 2 => omega
    | 0, 0 => omega
    | 0, 1 => omega
    | 1, 0 => omega
    | 1, 1 => omega
    | 2, 0 => omega
    | 2, 1 => omega
  · simp only [pathFinite, stepsFinite]; decide

/-- the melody goes to an instrument number above every instrument in use, never to the drum channel -/
theorem melody_instrument_fresh (l : List Int) :
    melodyInstrument l ≠ 9 ∧ ∀ i ∈ l, i < melodyInstrument l := by
  cases l with
  | nil => simp [melodyInstrument]
  | cons a rest =>
    obtain ⟨h1, h2⟩ := foldl_max_ge rest a
    simp only [melodyInstrument]
    split
    · rename_i h
      refine ⟨by omega, ?_⟩
      intro i hi
      rcases List.mem_cons.mp hi with hi | hi
      · subst hi; omega
      · have := h2 i hi; omega
    · rename_i h
      refine ⟨h, ?_⟩
      intro i hi
      rcases List.mem_cons.mp hi with hi | hi
      · subst hi; omega
      · have := h2 i hi; omega

example : melodyInstrument [0, 8, 3] = 10 ∧ melodyInstrument [] = 0 ∧ melodyInstrument [0, 1] = 2 := by decide

/-! ## `sequence_note_frames` -/

/-- `sequence_note_frames`: an onset flag comes from a real pitched note of that pitch whose start
time is the start time of the flagged frame — unless the note starts exactly at `total_time`
(which the function removes from the event times) -/
theorem noteFrames_onset (all : List FNote) (total : Rat)
    (hpos : ∀ n ∈ all, 0 ≤ n.start ∧ 0 ≤ n.stop) (f pi : Nat)
    (h : (f, pi) ∈ (noteFrames all total).onsets) :
    ∃ n ∈ all, n.isDrum = false ∧ Gen.unpitchedPrograms.contains n.program = false ∧
      (noteFrames all total).pitches[pi]? = some n.pitch ∧
      f = bisectRight (noteFrames all total).eventTimes n.start ∧
      ((0 :: (noteFrames all total).eventTimes)[f]? = some n.start ∨ n.start = total) := by
  simp only [noteFrames] at h ⊢
  rw [mem_sortedSet] at h
  obtain ⟨n, hn, he⟩ := List.mem_map.mp h
  simp only [Prod.mk.injEq] at he
  obtain ⟨hf, hpi⟩ := he
  obtain ⟨hnall, hfilt⟩ := List.mem_filter.mp hn
  simp only [Bool.and_eq_true, Bool.not_eq_eq_eq_not, Bool.not_true] at hfilt
  refine ⟨n, hnall, hfilt.1, hfilt.2, ?_, hf.symm, ?_⟩
  · rw [← hpi]
    apply index_of_sorted strictTotal_nat n.pitch _ (sorted_sortedSet strictTotal_nat _)
    rw [mem_sortedSet]
    exact List.mem_map.mpr ⟨n, hn, rfl⟩
  · rw [← hf]
    generalize hev : sortedSet (fun a b : Rat => decide (a < b)) _ = ev
    have hsorted : ev.Pairwise (fun a b => decide (a < b) = true) := by
      rw [← hev]; exact sorted_sortedSet strictTotal_rat _
    by_cases hmem : n.start ∈ ev
    · left
      obtain ⟨k, hk, hk'⟩ := bisectRight_mem n.start ev hsorted hmem
      rw [hk]; simpa using hk'
    · have hcase : n.start = 0 ∨ n.start = total := by
        apply Classical.byContradiction
        intro hno
        apply hmem
        rw [← hev, mem_sortedSet, List.mem_filter]
        refine ⟨List.mem_append_left _ (List.mem_map.mpr ⟨n, hn, rfl⟩), ?_⟩
        simp only [not_or] at hno
        simp [hno.1, hno.2]
      rcases hcase with h0 | ht
      · left
        have hall : ∀ t ∈ ev, n.start < t := by
          intro t ht
          rw [← hev, mem_sortedSet, List.mem_filter] at ht
          obtain ⟨hmem', hne⟩ := ht
          simp only [ne_eq, decide_eq_true_eq] at hne
          have hge : 0 ≤ t := by
            rcases List.mem_append.mp hmem' with hm | hm
            · obtain ⟨m, hm2, e⟩ := List.mem_map.mp hm
              rw [← e]; exact (hpos m (List.mem_filter.mp hm2).1).1
            · obtain ⟨m, hm2, e⟩ := List.mem_map.mp hm
              rw [← e]; exact (hpos m (List.mem_filter.mp hm2).1).2
          rw [h0, Rat.lt_iff_le_and_ne]
          exact ⟨hge, fun e => hne.1 e.symm⟩
        rw [bisectRight_below n.start ev hall]
        simp [h0]
      · exact Or.inr ht

/-- non-vacuity: C4 held over two bars, E4 entering half-way, a drum hit that is ignored -/
example : noteFrames [⟨60, 0, 2, false, 0⟩, ⟨64, 1, 2, false, 0⟩, ⟨36, 1/2, 1, true, 0⟩] 2 =
    ⟨[60, 64], [1], [(0, 0), (1, 1)], [(0, 0), (1, 0), (1, 1)]⟩ := by decide +kernel

end NSV.C19
