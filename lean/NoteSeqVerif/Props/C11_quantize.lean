import NoteSeqVerif.Props.C01
import NoteSeqVerif.Model.C11WF
-- THEOREMS: wf_quantizeNotes quantizeRel_reduces wf_quantize_absolute wf_quantize_relative
-- THEOREMS: no_invention_quantize_absolute no_invention_quantize_relative
/-! # C11 (b) — quantization returns well-formed sequences and invents nothing
Corollaries of the C01 theorems (model `NSV.C01`, imported read-only).  `R` is any monotone rounding
operator with `R 0 = 0` (so the statements hold for IEEE doubles as well as for exact arithmetic). -/
namespace NSV.C11
open NSV NSV.C01

/-- `_quantize_notes`: whenever it returns, `0 ≤ qs < qe ≤ total_quantized_steps` and no step is negative -/
theorem wf_quantizeNotes (q : Rat → Int) (hq : ∀ a b, a ≤ b → q a ≤ q b) (s r : NoteSeq)
    (hwf : ∀ n ∈ s.notes, n.start ≤ n.end_) (h : quantizeNotes q s = .ok r) : WFQ r := by
  have h1 := quantize_min_len q hq s r hwf h
  have h2 := (quantize_total_covers q s r h).2
  have h3 := quantize_nonneg q s r h
  exact ⟨fun n hn => ⟨(h3.1 n hn).1, by have := h1 n hn; omega, h2 n hn⟩, h3.2.1, h3.2.2⟩

/-- what `quantize_note_sequence` does once validation has passed (extracted from C01's case analysis) -/
theorem quantizeRel_reduces (R : Rat → Rat) (c dq : Rat) (s r : NoteSeq) (spq : Int)
    (h : quantizeRelR R c dq s spq = .ok r) :
    let q := fun t => qstepR R c t (spsR R spq (keptTempo dq s).qpm)
    quantizeNotes q { s with spq := spq, sps := 0, timeSigs := [keptTimeSig s],
                             tempos := [keptTempo dq s], totalQSteps := q s.totalTime } = .ok r := by
  by_cases h1 : tsChange s.timeSigs ∨ tsImplicit s.timeSigs
  · rw [quantizeRel_rejects_time_signature_change R c dq s spq h1] at h; cases h
  · have h1a : ¬ tsChange s.timeSigs := fun hh => h1 (Or.inl hh)
    have h1b : ¬ tsImplicit s.timeSigs := fun hh => h1 (Or.inr hh)
    by_cases hbad : isPow2 (keptTimeSig s).den = false ∨ (keptTimeSig s).num = 0
    · rw [quantizeRel_bad_time_signature R c dq s spq h1a h1b hbad] at h; cases h
    · have hp : isPow2 (keptTimeSig s).den = true := by
        cases hh : isPow2 (keptTimeSig s).den
        · exact absurd (Or.inl hh) hbad
        · rfl
      have hn : (keptTimeSig s).num ≠ 0 := fun hh => hbad (Or.inr hh)
      by_cases g : tpChange s.tempos ∨ tpImplicit dq s.tempos
      · rw [quantizeRel_rejects_tempo_change R c dq s spq h1a h1b hp hn g] at h; cases h
      · have g1 : ¬ tpChange s.tempos := fun hh => g (Or.inl hh)
        have g2 : ¬ tpImplicit dq s.tempos := fun hh => g (Or.inr hh)
        rw [quantizeRel_accepts R c dq s spq h1a h1b hp hn g1 g2] at h
        exact h

/-- the unquantized times are not touched, so well-formedness of times carries over -/
theorem WF.of_same_times {s r : NoteSeq} (hw : WF s)
    (hn : ∃ f : Note → Note, r.notes = s.notes.map f ∧ ∀ n, (f n).start = n.start ∧ (f n).end_ = n.end_)
    (htot : r.totalTime = s.totalTime)
    (htp : ∀ e ∈ r.tempos, 0 ≤ e.time) (hts : ∀ e ∈ r.timeSigs, 0 ≤ e.time)
    (hks : r.keySigs = s.keySigs)
    (htx : ∃ f : TextAnn → TextAnn, r.texts = s.texts.map f ∧ ∀ e, (f e).time = e.time)
    (hcc : ∃ f : CC → CC, r.ccs = s.ccs.map f ∧ ∀ e, (f e).time = e.time)
    (hb : r.bends = s.bends) (hsa : r.sectionAnns = s.sectionAnns) : WF r := by
  obtain ⟨f, hf, hft⟩ := hn
  obtain ⟨ft, hft1, hft2⟩ := htx
  obtain ⟨fc, hfc1, hfc2⟩ := hcc
  refine ⟨?_, by rw [htot]; exact hw.total, ⟨htp, hts, by rw [hks]; exact hw.events.keySigs, ?_, ?_, by rw [hb]; exact hw.events.bends,
    by rw [hsa]; exact hw.events.sectionAnns⟩⟩
  · intro n hn
    rw [hf] at hn
    obtain ⟨m, hm, rfl⟩ := List.mem_map.mp hn
    rw [(hft m).1, (hft m).2, htot]
    exact hw.notes m hm
  · intro e he
    rw [hft1] at he
    obtain ⟨m, hm, rfl⟩ := List.mem_map.mp he
    rw [hft2 m]; exact hw.events.texts m hm
  · intro e he
    rw [hfc1] at he
    obtain ⟨m, hm, rfl⟩ := List.mem_map.mp he
    rw [hfc2 m]; exact hw.events.ccs m hm

/-- `quantize_note_sequence_absolute`: for a well-formed input every result is well-formed, in its
quantized fields (`WFQ`) and — the times being untouched — in its times (`WF`). -/
theorem wf_quantize_absolute (R : Rat → Rat) (hR : ∀ a b, a ≤ b → R a ≤ R b) (c : Rat) (s r : NoteSeq)
    (sps : Int) (hs : 0 ≤ sps) (hw : WF s) (h : quantizeAbsR R c s sps = .ok r) : WFQ r ∧ WF r := by
  have hs' : (0 : Rat) ≤ (sps : Rat) := by exact_mod_cast hs
  have hq : ∀ a b : Rat, a ≤ b → qstepR R c a (sps : Rat) ≤ qstepR R c b (sps : Rat) :=
    fun a b hab => qstep_mono R hR c a b _ hs' hab
  refine ⟨?_, ?_⟩
  · unfold quantizeAbsR at h
    exact wf_quantizeNotes _ hq { s with spq := 0, sps := sps, totalQSteps := qstepR R c s.totalTime (sps : Rat) } r
      (fun n hn => (hw.notes n hn).2.1) h
  · have hf := quantizeAbs_frame R c s r sps h
    simp only [] at hf
    obtain ⟨hn, hcc, htx, htp, hts, hks, hb, hsa, _, htot, _⟩ := hf
    exact hw.of_same_times ⟨_, hn, fun _ => ⟨rfl, rfl⟩⟩ htot (by rw [htp]; exact hw.events.tempos)
      (by rw [hts]; exact hw.events.timeSigs) hks ⟨_, htx, fun _ => rfl⟩ ⟨_, hcc, fun _ => rfl⟩ hb hsa

/-- `quantize_note_sequence`: the same, for every steps-per-quarter `≥ 0` and non-negative tempo
(the single tempo and time signature it keeps are placed at time 0). -/
theorem wf_quantize_relative (R : Rat → Rat) (hR : ∀ a b, a ≤ b → R a ≤ R b) (hR0 : R 0 = 0) (c dq : Rat)
    (s r : NoteSeq) (spq : Int) (hspq : 0 ≤ spq) (hqpm : 0 ≤ (keptTempo dq s).qpm) (hw : WF s)
    (h : quantizeRelR R c dq s spq = .ok r) : WFQ r ∧ WF r := by
  have hsps : (0 : Rat) ≤ spsR R spq (keptTempo dq s).qpm := by
    unfold spsR
    have h1 : (0 : Rat) ≤ (spq : Rat) * (keptTempo dq s).qpm :=
      mul_nonneg (by exact_mod_cast hspq) hqpm
    have h2 : (0 : Rat) ≤ R ((spq : Rat) * (keptTempo dq s).qpm) := by rw [← hR0]; exact hR _ _ h1
    have h3 : (0 : Rat) ≤ R ((spq : Rat) * (keptTempo dq s).qpm) / 60 := by positivity
    rw [← hR0]; exact hR _ _ h3
  have hq : ∀ a b : Rat, a ≤ b →
      qstepR R c a (spsR R spq (keptTempo dq s).qpm) ≤ qstepR R c b (spsR R spq (keptTempo dq s).qpm) :=
    fun a b hab => qstep_mono R hR c a b _ hsps hab
  refine ⟨?_, ?_⟩
  · exact wf_quantizeNotes _ hq
      { s with spq := spq, sps := 0, timeSigs := [keptTimeSig s], tempos := [keptTempo dq s],
               totalQSteps := qstepR R c s.totalTime (spsR R spq (keptTempo dq s).qpm) } r
      (fun n hn => (hw.notes n hn).2.1) (quantizeRel_reduces R c dq s r spq h)
  · have hf := quantizeRel_frame R c dq s r spq h
    simp only [] at hf
    obtain ⟨hn, hcc, htx, htp, hts, hks, hb, hsa, _, htot, _⟩ := hf
    refine hw.of_same_times ⟨_, hn, fun _ => ⟨rfl, rfl⟩⟩ htot ?_ ?_ hks ⟨_, htx, fun _ => rfl⟩ ⟨_, hcc, fun _ => rfl⟩ hb hsa
    · intro e he; rw [htp] at he; simp at he; subst he
      unfold keptTempo; split <;> simp
    · intro e he; rw [hts] at he; simp at he; subst he
      unfold keptTimeSig; split <;> simp

/-- quantization keeps every note, in order, with every attribute but the two step fields -/
theorem no_invention_quantize_absolute (R : Rat → Rat) (c : Rat) (s r : NoteSeq) (sps : Int)
    (h : quantizeAbsR R c s sps = .ok r) :
    NoInvention s.notes r.notes ∧ NoDuplication s.notes r.notes ∧ r.notes.length = s.notes.length := by
  have hf := (quantizeAbs_frame R c s r sps h)
  simp only [] at hf
  rw [hf.1]
  refine ⟨?_, ?_, by simp⟩
  · apply NoInvention.map
    intro n; exact ⟨rfl, rfl, rfl, rfl, rfl, rfl, rfl, rfl⟩
  · apply NoDuplication.map
    intro n; rfl

theorem no_invention_quantize_relative (R : Rat → Rat) (c dq : Rat) (s r : NoteSeq) (spq : Int)
    (h : quantizeRelR R c dq s spq = .ok r) :
    NoInvention s.notes r.notes ∧ NoDuplication s.notes r.notes ∧ r.notes.length = s.notes.length := by
  have hf := (quantizeRel_frame R c dq s r spq h)
  simp only [] at hf
  rw [hf.1]
  refine ⟨?_, ?_, by simp⟩
  · apply NoInvention.map
    intro n; exact ⟨rfl, rfl, rfl, rfl, rfl, rfl, rfl, rfl⟩
  · apply NoDuplication.map
    intro n; rfl

/-! non-vacuity: a well-formed sequence that quantizes, and the statement evaluated on it -/
def exQ : NoteSeq :=
  { notes := [{ pitch := 60, velocity := 100, start := 1/4, end_ := 1/4, qs := 0, qe := 0, instrument := 0
                program := 0, isDrum := false, numerator := 0, denominator := 0, voice := 7, part := 0, pitchName := 0 }]
    tempos := [⟨0, 120⟩], totalTime := 1 }

example : (quantizeAbsR id (1/2) exQ 4).toOption.map (fun r => r.notes.map (fun n => (n.qs, n.qe, n.voice))) =
    some [(1, 2, 7)] ∧ (quantizeRelR id (1/2) 120 exQ 4).toOption.map (fun r => (r.notes.map (fun n => (n.qs, n.qe)), r.totalQSteps)) =
    some ([(2, 3)], 8) := by decide +kernel

end NSV.C11
