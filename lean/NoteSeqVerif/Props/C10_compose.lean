import NoteSeqVerif.Proofs.C10
/-! # C10 — transposing the RESULT of a transposition

`transpose_ns_spec` (Props/C10.lean) says what one call does.  Transposition is routinely applied to sequences that
were transposed before (augmentation pipelines), so the statement "moves every pitch, key and chord by the same
interval" has to compose: `transpose_ns_compose` proves that transposing by `j` and then by `k` is transposing by
`j + k` — the same notes are kept and deleted, every pitched note ends `j + k` higher, drums are untouched, every key
signature is `(key + j + k) mod 12`, `total_time` is the same, chord symbols removed once stay removed — provided the
first step deletes nothing (every pitched note stays inside the allowed range after `j`; otherwise a note deleted by
the first step could have come back into range after the second, which no composition law can repair).
The chord-symbol half of the composition is `transpose_symbol_hom` (Props/C10.lean) and is not repeated here; this
theorem is stated for `transpose_chords = False`, where the text loop is a filter. -/
namespace NSV.C10

theorem keepNote_moveNote (j k mn mx : Int) (n : Note) :
    keepNote k mn mx (moveNote j n) = keepNote (j + k) mn mx n := by
  unfold keepNote moveNote
  cases h : n.isDrum <;> simp [h, Int.add_assoc]

theorem moveNote_moveNote (j k : Int) (n : Note) : moveNote k (moveNote j n) = moveNote (j + k) n := by
  unfold moveNote
  cases h : n.isDrum <;> simp [h, Int.add_assoc]

theorem moveNote_end' (k : Int) (n : Note) : (moveNote k n).end_ = n.end_ := by
  unfold moveNote; cases n.isDrum <;> simp

theorem foldl_maxEnd_map_move (j : Int) (l : List Note) (e : Rat) :
    (l.map (moveNote j)).foldl maxEnd e = l.foldl maxEnd e := by
  induction l generalizing e with
  | nil => rfl
  | cons n l ih => simp [List.foldl_cons, maxEnd, moveNote_end', ih]

theorem filter_all_keep (j mn mx : Int) (l : List Note) (h : ∀ n ∈ l, keepNote j mn mx n = true) :
    l.filter (keepNote j mn mx) = l ∧ l.filter (fun n => !keepNote j mn mx n) = [] := by
  constructor
  · exact List.filter_eq_self.mpr h
  · exact List.filter_eq_nil_iff.mpr (by intro n hn; simp [h n hn])

theorem filter_map_move (j k mn mx : Int) (l : List Note) :
    (l.map (moveNote j)).filter (keepNote k mn mx) = (l.filter (keepNote (j + k) mn mx)).map (moveNote j) := by
  induction l with
  | nil => rfl
  | cons n l ih =>
    simp only [List.map_cons, List.filter_cons, keepNote_moveNote]
    split <;> simp [ih]

theorem filter_not_map_move (j k mn mx : Int) (l : List Note) :
    ((l.map (moveNote j)).filter (fun n => !keepNote k mn mx n)).length =
      (l.filter (fun n => !keepNote (j + k) mn mx n)).length := by
  induction l with
  | nil => rfl
  | cons n l ih =>
    simp only [List.map_cons, List.filter_cons, keepNote_moveNote]
    split <;> simp [ih]

theorem transposeKey_transposeKey (j k : Int) (ks : KeySig) :
    transposeKey k (transposeKey j ks) = transposeKey (j + k) ks := by
  unfold transposeKey
  have h12 : (0 : Int) ≤ 12 := by decide
  simp only [Int.fmod_eq_emod_of_nonneg _ h12, KeySig.mk.injEq, true_and, and_true]
  omega

/-- **transposition composes**: if the first step (by `j`) deletes no note, then transposing its result by `k` gives
exactly what one transposition by `j + k` gives — sequence and deleted-note count. -/
theorem transpose_ns_compose (split : String → Except Err Sym) (s : NoteSeq) (j k mn mx : Int)
    (h1 : ∀ n ∈ s.notes, keepNote j mn mx n = true) :
    (transposeNS split s j mn mx false).bind (fun r => transposeNS split r.1 k mn mx false) =
      transposeNS split s (j + k) mn mx false := by
  obtain ⟨hk, hd⟩ := filter_all_keep j mn mx s.notes h1
  simp only [transposeNS, noteLoop_eq, List.nil_append, Nat.zero_add, Bool.false_eq_true, if_false, hk, hd,
    Except.bind, List.length_nil, filter_map_move, List.map_map, filter_not_map_move, foldl_maxEnd_map_move,
    List.filter_filter, Bool.and_self]
  congr 2
  · congr 1
    · apply List.map_congr_left; intro n _; exact moveNote_moveNote j k n
    · apply List.map_congr_left; intro ks _; exact transposeKey_transposeKey j k ks

/-- non-vacuity: a pitched note, a drum note and a key signature through two steps -/
def cmpNote (p : Int) (drum : Bool) : Note :=
  { pitch := p, velocity := 90, start := 0, end_ := 1, qs := 0, qe := 0, instrument := 0, program := 0, isDrum := drum
    numerator := 0, denominator := 0, voice := 0, part := 0, pitchName := 3 }
def cmpSeq : NoteSeq := { notes := [cmpNote 60 false, cmpNote 126 false, cmpNote 38 true], keySigs := [⟨0, 11, 0⟩], totalTime := 9 }

example : (∀ n ∈ cmpSeq.notes, keepNote 1 0 127 n = true) ∧
    ((transposeNS (fun _ => .error .valueError) cmpSeq 1 0 127 false).bind
        (fun r => transposeNS (fun _ => .error .valueError) r.1 2 0 127 false)).toOption.map
      (fun r => (r.1.notes.map (·.pitch), r.1.keySigs.map (·.key), r.1.totalTime, r.2)) =
      some ([63, 38], [2], 1, 1) := by
  decide +kernel

end NSV.C10
