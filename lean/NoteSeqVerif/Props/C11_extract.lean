import NoteSeqVerif.Props.C02
import NoteSeqVerif.Model.C11WF
import Mathlib.Tactic.Linarith
-- THEOREMS: wf_specPiece wf_extract_subsequences wf_extract_subsequence wf_trim wf_splitWith
-- THEOREMS: wf_split_hop_list wf_split_hop wf_split_time_changes wf_split_silence
-- THEOREMS: no_invention_trim no_invention_extract_subsequences no_invention_extract_subsequence no_invention_splitWith
/-! # C11 (b) — trim / extract / split return well-formed sequences and invent nothing
Corollaries of C02's closed form `extract_eq_spec` (`specPiece`) and `trim_spec` (models owned by C02,
imported read-only).  `R`: any monotone rounding operator with `R 0 = 0`. -/
namespace NSV.C11
open NSV NSV.C02

theorem le_pieceTotal_aux (l : List Note) (acc : Rat) :
    acc ≤ l.foldl (fun tot n => if n.end_ > tot then n.end_ else tot) acc ∧
    ∀ n ∈ l, n.end_ ≤ l.foldl (fun tot n => if n.end_ > tot then n.end_ else tot) acc := by
  induction l generalizing acc with
  | nil => simp
  | cons a l ih =>
    simp only [List.foldl_cons]
    have h := ih (if a.end_ > acc then a.end_ else acc)
    refine ⟨le_trans ?_ h.1, ?_⟩
    · split <;> linarith
    · intro n hn
      rcases List.mem_cons.mp hn with rfl | hn
      · refine le_trans ?_ h.1
        split <;> linarith
      · exact h.2 n hn

/-- the running maximum of `_extract_subsequences` covers every note of the piece and is `≥ 0` -/
theorem le_pieceTotal (l : List Note) : 0 ≤ pieceTotal l ∧ ∀ n ∈ l, n.end_ ≤ pieceTotal l :=
  le_pieceTotal_aux l 0

theorem specState_nonneg {α : Type} (R : Rat → Rat) (hR : ∀ a b, a ≤ b → R a ≤ R b) (hR0 : R 0 = 0)
    (time : α → Rat) (setTime : α → Rat → α) (hset : ∀ e t, time (setTime e t) = t) (evs : List α) (a b : Rat) :
    ∀ e ∈ specState R time setTime evs a b, 0 ≤ time e := by
  intro e he
  simp only [specState, List.mem_append] at he
  rcases he with he | he
  · split at he
    · simp at he
    · simp at he; subst he; rw [hset]
  · obtain ⟨m, hm, rfl⟩ := List.mem_map.mp he
    have := (List.mem_filter.mp hm).2
    simp only [Bool.and_eq_true, decide_eq_true_eq] at this
    rw [hset, ← hR0]; exact hR _ _ (by linarith [this.1])

/-- **every closed-form piece of a well-formed sequence is well-formed** (any window, any `preserve`) -/
theorem wf_specPiece (R : Rat → Rat) (hR : ∀ a b, a ≤ b → R a ≤ R b) (hR0 : R 0 = 0) (preserve : List Int)
    (s : NoteSeq) (hw : WF s) (ab : Rat × Rat) : WF (specPiece R preserve s ab) := by
  refine ⟨?_, (le_pieceTotal _).1, ⟨?_, ?_, ?_, ?_, ?_, ?_, ?_⟩⟩
  · intro n hn
    have hn' : n ∈ specNotes R s ab.1 ab.2 := hn
    refine ⟨?_, ?_, (le_pieceTotal _).2 n hn'⟩
    all_goals
      simp only [specNotes] at hn'
      obtain ⟨m, hm, rfl⟩ := List.mem_map.mp hn'
      have hf := (List.mem_filter.mp hm).2
      simp only [Bool.and_eq_true, decide_eq_true_eq] at hf
      have hm' : m ∈ s.notes := (sortByRat_perm _ _).mem_iff.mp (List.mem_filter.mp hm).1
      obtain ⟨_, h1, _⟩ := hw.notes m hm'
    · show 0 ≤ R (m.start - ab.1)
      rw [← hR0]; exact hR _ _ (by linarith [hf.1])
    · show R (m.start - ab.1) ≤ R (min m.end_ ab.2 - ab.1)
      apply hR
      have : m.start ≤ min m.end_ ab.2 := le_min h1 (le_of_lt hf.2)
      linarith
  · exact specState_nonneg R hR hR0 _ _ (fun _ _ => rfl) _ _ _
  · exact specState_nonneg R hR hR0 _ _ (fun _ _ => rfl) _ _ _
  · exact specState_nonneg R hR hR0 _ _ (fun _ _ => rfl) _ _ _
  · intro e he
    have he' : e ∈ specState R (·.time) TextAnn.setTime (chords s) ab.1 ab.2 ++ specBeats R s ab.1 ab.2 := he
    rcases List.mem_append.mp he' with h | h
    · exact specState_nonneg R hR hR0 _ _ (fun _ _ => rfl) _ _ _ e h
    · simp only [specBeats] at h
      obtain ⟨m, hm, rfl⟩ := List.mem_map.mp h
      have hf := (List.mem_filter.mp hm).2
      simp only [Bool.and_eq_true, decide_eq_true_eq] at hf
      show 0 ≤ R (m.time - ab.1)
      rw [← hR0]; exact hR _ _ (by linarith [hf.1])
  · intro e he
    have he' : e ∈ specPedals R preserve s ab.1 ab.2 := he
    simp only [specPedals, pieceSpec, List.mem_append] at he'
    rcases he' with h | h
    · simp only [pedalL, List.mem_map] at h
      obtain ⟨kv, _, rfl⟩ := h
      exact le_refl _
    · simp only [inside, pedalL, within, List.mem_map] at h
      obtain ⟨m, hm, rfl⟩ := h
      have hf := (List.mem_filter.mp hm).2
      simp only [if_true, Bool.and_eq_true] at hf
      have hlt : ab.1 < m.time := of_decide_eq_true hf.1
      show 0 ≤ R (m.time - ab.1)
      rw [← hR0]; exact hR _ _ (by linarith)
  · intro e he
    have : e ∈ ([] : List Bend) := he
    simp at this
  · intro e he
    exact hw.events.sectionAnns e he

/-- `_extract_subsequences`: every piece of every successful extraction from a well-formed sequence is well-formed -/
theorem wf_extract_subsequences (R : Rat → Rat) (hR : ∀ a b, a ≤ b → R a ≤ R b) (hR0 : R 0 = 0)
    (preserve : List Int) (s : NoteSeq) (st : List Rat) (ps : List NoteSeq) (hw : WF s)
    (h : extractSubsequencesR R preserve s st = .ok ps) : ∀ p ∈ ps, WF p := by
  rcases extract_trichotomy R preserve s st with ⟨_, e⟩ | ⟨_, _, e⟩ | ⟨_, e⟩
  · rw [e] at h; cases h
  · rw [e] at h; cases h
  · rw [e] at h; cases h
    intro p hp
    obtain ⟨ab, _, rfl⟩ := List.mem_map.mp hp
    exact wf_specPiece R hR hR0 preserve s hw ab

theorem wf_extract_subsequence (R : Rat → Rat) (hR : ∀ a b, a ≤ b → R a ≤ R b) (hR0 : R 0 = 0)
    (preserve : List Int) (s r : NoteSeq) (a b : Rat) (hw : WF s)
    (h : extractSubsequenceR R preserve s a b = .ok r) : WF r := by
  rw [extract_subsequence_spec] at h
  split at h
  · cases h
  · split at h
    · cases h
    · cases h; exact wf_specPiece R hR hR0 preserve s hw (a, b)

/-- `trim_note_sequence` with a non-negative end of the window (`total_time = min(total_time, end)`) -/
theorem wf_trim (s r : NoteSeq) (a b : Rat) (hb : 0 ≤ b) (hw : WF s) (h : trim s a b = .ok r) : WF r := by
  have hq : s.isQuantized = false := by
    cases hq : s.isQuantized with
    | false => rfl
    | true => rw [(trim_errors s a b).mpr hq] at h; cases h
  obtain ⟨p, hp, hn, ht, hrest⟩ := trim_spec s a b hq
  have hpr : p = r := by rw [hp] at h; exact Except.ok.inj h
  subst hpr
  have hfield : p.tempos = s.tempos ∧ p.timeSigs = s.timeSigs ∧ p.keySigs = s.keySigs ∧ p.texts = s.texts ∧
      p.ccs = s.ccs ∧ p.bends = s.bends ∧ p.sectionAnns = s.sectionAnns := by
    have := congrArg (fun x : NoteSeq => (x.tempos, x.timeSigs, x.keySigs, x.texts, x.ccs, x.bends, x.sectionAnns)) hrest
    simp only [Prod.mk.injEq] at this
    exact this
  obtain ⟨e1, e2, e3, e4, e5, e6, e7⟩ := hfield
  refine ⟨?_, by rw [ht]; exact le_min hw.total hb, ⟨by rw [e1]; exact hw.events.tempos, by rw [e2]; exact hw.events.timeSigs,
    by rw [e3]; exact hw.events.keySigs, by rw [e4]; exact hw.events.texts, by rw [e5]; exact hw.events.ccs,
    by rw [e6]; exact hw.events.bends, by rw [e7]; exact hw.events.sectionAnns⟩⟩
  intro n hn'
  rw [hn] at hn'
  obtain ⟨m, hm, rfl⟩ := List.mem_map.mp hn'
  have hf := (List.mem_filter.mp hm).2
  simp only [Bool.and_eq_true, decide_eq_true_eq] at hf
  obtain ⟨h0, h1, h2⟩ := hw.notes m (List.mem_filter.mp hm).1
  rw [ht]
  refine ⟨h0, le_min h1 (le_of_lt hf.2), ?_⟩
  exact min_le_min h2 (le_refl _)

/-- the tail common to the whole split family: nothing, or one extraction -/
theorem splitWith_cases (R : Rat → Rat) (preserve : List Int) (s : NoteSeq) (vs : List Rat) (ps : List NoteSeq)
    (h : splitWith R preserve s vs = .ok ps) :
    ps = [] ∨ ∃ st, extractSubsequencesR R preserve s st = .ok ps := by
  have hshape : ∃ valid : List Rat, splitWith R preserve s vs =
      if valid.length > 1 then extractSubsequencesR R preserve s valid else .ok [] := ⟨_, rfl⟩
  obtain ⟨valid, hv⟩ := hshape
  rw [hv] at h
  split at h
  · exact Or.inr ⟨_, h⟩
  · exact Or.inl (Except.ok.inj h).symm

theorem wf_splitWith (R : Rat → Rat) (hR : ∀ a b, a ≤ b → R a ≤ R b) (hR0 : R 0 = 0) (preserve : List Int)
    (s : NoteSeq) (vs : List Rat) (ps : List NoteSeq) (hw : WF s) (h : splitWith R preserve s vs = .ok ps) :
    ∀ p ∈ ps, WF p := by
  rcases splitWith_cases R preserve s vs ps h with rfl | ⟨st, hst⟩
  · intro p hp; simp at hp
  · exact wf_extract_subsequences R hR hR0 preserve s st ps hw hst

theorem wf_split_hop_list (R : Rat → Rat) (hR : ∀ a b, a ≤ b → R a ≤ R b) (hR0 : R 0 = 0) (preserve : List Int)
    (s : NoteSeq) (hops : List Rat) (skip : Bool) (ps : List NoteSeq) (hw : WF s)
    (h : splitHopListR R preserve s hops skip = .ok ps) : ∀ p ∈ ps, WF p :=
  wf_splitWith R hR hR0 preserve s _ ps hw h

theorem wf_split_hop (R : Rat → Rat) (hR : ∀ a b, a ≤ b → R a ≤ R b) (hR0 : R 0 = 0) (preserve : List Int)
    (s : NoteSeq) (hop : Rat) (skip : Bool) (ps : List NoteSeq) (hw : WF s)
    (h : splitHopR R preserve s hop skip = .ok ps) : ∀ p ∈ ps, WF p := by
  unfold splitHopR at h
  split at h
  · cases h
  · exact wf_splitWith R hR hR0 preserve s _ ps hw h

theorem wf_split_time_changes (R : Rat → Rat) (hR : ∀ a b, a ≤ b → R a ≤ R b) (hR0 : R 0 = 0)
    (preserve : List Int) (dq : Rat) (s : NoteSeq) (skip : Bool) (ps : List NoteSeq) (hw : WF s)
    (h : splitTimeChangesR R preserve dq s skip = .ok ps) : ∀ p ∈ ps, WF p :=
  wf_splitWith R hR hR0 preserve s _ ps hw h

theorem wf_split_silence (R : Rat → Rat) (hR : ∀ a b, a ≤ b → R a ≤ R b) (hR0 : R 0 = 0) (preserve : List Int)
    (s : NoteSeq) (gap : Rat) (ps : List NoteSeq) (hw : WF s)
    (h : splitSilenceR R preserve s gap = .ok ps) : ∀ p ∈ ps, WF p :=
  wf_splitWith R hR hR0 preserve s _ ps hw h

/-! ## nothing invented -/

theorem sameNote_clipR (R : Rat → Rat) (a b : Rat) (n : Note) : SameNote n (clipR R a b n) :=
  ⟨rfl, rfl, rfl, rfl, rfl, rfl, rfl, rfl⟩

/-- trimming keeps a sub-list of the notes (order, pitch and every attribute but `end_time` intact) -/
theorem no_invention_trim (s r : NoteSeq) (a b : Rat) (h : trim s a b = .ok r) :
    NoInvention s.notes r.notes ∧ NoDuplication s.notes r.notes ∧ ∀ n ∈ r.notes, ∃ m ∈ s.notes, n.pitch = m.pitch ∧ n.start = m.start := by
  have hq : s.isQuantized = false := by
    cases hq : s.isQuantized with
    | false => rfl
    | true => rw [(trim_errors s a b).mpr hq] at h; cases h
  obtain ⟨p, hp, hn, _, _⟩ := trim_spec s a b hq
  have hpr : p = r := by rw [hp] at h; exact Except.ok.inj h
  subst hpr
  rw [hn]
  refine ⟨?_, ?_, ?_⟩
  · intro n hn'
    obtain ⟨m, hm, rfl⟩ := List.mem_map.mp hn'
    exact ⟨m, (List.mem_filter.mp hm).1, ⟨rfl, rfl, rfl, rfl, rfl, rfl, rfl, rfl⟩⟩
  · intro t
    have h1 := NoDuplication.map (fun n : Note => { n with end_ := min n.end_ b }) (fun _ => rfl)
      (s.notes.filter (fun n => decide (a ≤ n.start) && decide (n.start < b))) t
    exact Nat.le_trans h1 (List.Sublist.length_le (List.Sublist.filter _ List.filter_sublist))
  · intro n hn'
    obtain ⟨m, hm, rfl⟩ := List.mem_map.mp hn'
    exact ⟨m, (List.mem_filter.mp hm).1, rfl, rfl⟩

/-- every note of every extracted piece is an input note (same tag, pitch, velocity, instrument, …) -/
theorem no_invention_extract_subsequences (R : Rat → Rat) (preserve : List Int) (s : NoteSeq) (st : List Rat)
    (ps : List NoteSeq) (h : extractSubsequencesR R preserve s st = .ok ps) :
    ∀ p ∈ ps, NoInvention s.notes p.notes ∧ ∀ n ∈ p.notes, ∃ m ∈ s.notes, n.pitch = m.pitch ∧ SameNote m n := by
  have hv : Valid s st := ((extract_errors R preserve s st).2.2.1).mp ⟨ps, h⟩
  intro p hp
  have hni := extract_notes_nothing_invented hv h p hp
  refine ⟨?_, ?_⟩
  · intro n hn
    obtain ⟨m, hm, a, b, rfl⟩ := hni n hn
    exact ⟨m, hm, sameNote_clipR R a b m⟩
  · intro n hn
    obtain ⟨m, hm, a, b, rfl⟩ := hni n hn
    exact ⟨m, hm, rfl, sameNote_clipR R a b m⟩

/-- … and, the split times being sorted, no input note lands in two pieces: all pieces together hold
each tag at most as often as the input -/
theorem no_duplication_extract_subsequences (R : Rat → Rat) (preserve : List Int) (s : NoteSeq) (st : List Rat)
    (ps : List NoteSeq) (h : extractSubsequencesR R preserve s st = .ok ps) :
    NoDuplication s.notes (ps.map (·.notes)).flatten := by
  have hv : Valid s st := ((extract_errors R preserve s st).2.2.1).mp ⟨ps, h⟩
  obtain ⟨_, h2, hs, _⟩ := hv
  have hps := extract_pieces ⟨‹_›, h2, hs, ‹_›⟩ h
  match st, h2 with
  | x :: y :: r, _ =>
    intro t
    have hperm := filter_pairs_perm (sortByRat (·.start) s.notes) x (y :: r) hs
    -- count of tag `t` in all pieces = count in the union of the selections
    have key : ∀ (P : List (Rat × Rat)),
        ((((P.map (specPiece R preserve s)).map (·.notes)).flatten).filter (fun n => n.voice = t)).length =
        (((P.map (fun ab => (sortByRat (·.start) s.notes).filter (inIv ab.1 ab.2))).flatten).filter
          (fun n => n.voice = t)).length := by
      intro P
      induction P with
      | nil => simp
      | cons ab P ih =>
        simp only [List.map_cons, List.flatten_cons, List.filter_append, List.length_append, ih]
        congr 1
        show ((specNotes R s ab.1 ab.2).filter _).length = _
        simp only [specNotes]
        have := fun l : List Note => (NoDuplication.map (clipR R ab.1 ab.2) (fun _ => rfl) l t)
        -- equality, not only ≤: filtering by tag commutes with a tag-preserving map
        have heq : ∀ l : List Note, ((l.map (clipR R ab.1 ab.2)).filter (fun n => n.voice = t)).length =
            (l.filter (fun n => n.voice = t)).length := by
          intro l
          induction l with
          | nil => simp
          | cons a l ih2 =>
            simp only [List.map_cons, List.filter_cons]
            have hv' : (clipR R ab.1 ab.2 a).voice = a.voice := rfl
            rw [hv']
            split <;> simp [ih2]
        rw [heq]; rfl
    rw [hps, key]
    rw [(hperm.filter _).length_eq]
    have h1 : ((sortByRat (·.start) s.notes).filter (inIv x ((x :: y :: r).getLast (List.cons_ne_nil _ _)))).Sublist
        (sortByRat (·.start) s.notes) := List.filter_sublist
    refine Nat.le_trans (List.Sublist.length_le (h1.filter _)) ?_
    rw [((sortByRat_perm (·.start) s.notes).filter _).length_eq]

theorem no_invention_extract_subsequence (R : Rat → Rat) (preserve : List Int) (s r : NoteSeq) (a b : Rat)
    (h : extractSubsequenceR R preserve s a b = .ok r) :
    NoInvention s.notes r.notes ∧ NoDuplication s.notes r.notes := by
  rw [extract_subsequence_spec] at h
  split at h
  · cases h
  · split at h
    · cases h
    · cases h
      refine ⟨?_, ?_⟩
      · intro n hn
        have hn' : n ∈ specNotes R s a b := hn
        simp only [specNotes] at hn'
        obtain ⟨m, hm, rfl⟩ := List.mem_map.mp hn'
        exact ⟨m, (sortByRat_perm _ _).mem_iff.mp (List.mem_filter.mp hm).1, sameNote_clipR R a b m⟩
      · intro t
        show ((specNotes R s a b).filter _).length ≤ _
        simp only [specNotes]
        refine Nat.le_trans (NoDuplication.map (clipR R a b) (fun _ => rfl) _ t) ?_
        refine Nat.le_trans (List.Sublist.length_le (List.Sublist.filter _ List.filter_sublist)) ?_
        rw [((sortByRat_perm (·.start) s.notes).filter _).length_eq]

theorem no_invention_splitWith (R : Rat → Rat) (preserve : List Int) (s : NoteSeq) (vs : List Rat)
    (ps : List NoteSeq) (h : splitWith R preserve s vs = .ok ps) :
    (∀ p ∈ ps, NoInvention s.notes p.notes) ∧ NoDuplication s.notes (ps.map (·.notes)).flatten := by
  rcases splitWith_cases R preserve s vs ps h with rfl | ⟨st, hst⟩
  · exact ⟨fun p hp => by simp at hp, fun t => by simp⟩
  · exact ⟨fun p hp => (no_invention_extract_subsequences R preserve s st ps hst p hp).1,
      no_duplication_extract_subsequences R preserve s st ps hst⟩

/-! non-vacuity: C02's example sequence is well-formed and extracts -/
example : WF exSeq := by
  refine ⟨?_, by simp [exSeq], ⟨?_, ?_, ?_, ?_, ?_, ?_, ?_⟩⟩ <;> intro e he <;>
    simp [exSeq, exNote] at he <;> (try (rcases he with rfl | rfl | rfl | rfl | rfl)) <;> simp [exSeq, exNote] <;> norm_num

example : ∃ r, extractSubsequenceR id [64] exSeq 1 3 = .ok r := by
  rw [extract_subsequence_spec]
  have h1 : exSeq.isQuantized = false := by decide
  have h2 : ¬ ((1 : Rat) > 3 ∨ exSeq.totalTime ≤ 1) := by simp [exSeq]
  refine ⟨specPiece id [64] exSeq (1, 3), ?_⟩
  simp only [h1, h2, Bool.false_eq_true, if_false]

end NSV.C11
