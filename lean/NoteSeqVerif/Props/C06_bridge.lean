import NoteSeqVerif.Model.C06Time
import NoteSeqVerif.Generated.C06T2
/-! # C06 — translator tie T2 for the float preamble of every `to_sequence`

`Generated/C06T2.lean` is the symbolic execution of the current Python source of the eight `to_sequence` methods up to
the event loop: `seconds_per_step` and `sequence_start_time` as expressions in `qpm`, the resolution and `start_step`,
with the rounding operator after every float operation.  They are the model functions of `Model/C06Time.lean` that the
float half of C06 (`step_quantize_exact` and its instances) is stated about. -/
namespace NSV.C06

theorem t2_melody_sps (R : Rat → Rat) (t0 qpm : Rat) (spq s0 : Int) :
    Gen2.melody_to_sequence_seconds_per_step R t0 qpm spq s0 = secPerStepR R qpm spq := rfl
theorem t2_melody_start (R : Rat → Rat) (t0 qpm : Rat) (spq s0 : Int) :
    Gen2.melody_to_sequence_sequence_start_time R t0 qpm spq s0 = seqStartAddR R t0 (secPerStepR R qpm spq) s0 := rfl
theorem t2_drums_sps (R : Rat → Rat) (t0 qpm : Rat) (spq s0 : Int) :
    Gen2.drums_to_sequence_seconds_per_step R t0 qpm spq s0 = secPerStepR R qpm spq := rfl
theorem t2_drums_start (R : Rat → Rat) (t0 qpm : Rat) (spq s0 : Int) :
    Gen2.drums_to_sequence_sequence_start_time R t0 qpm spq s0 = seqStartAddR R t0 (secPerStepR R qpm spq) s0 := rfl
theorem t2_chords_sps (R : Rat → Rat) (t0 qpm : Rat) (spq s0 : Int) :
    Gen2.chords_to_sequence_seconds_per_step R t0 qpm spq s0 = secPerStepR R qpm spq := rfl
theorem t2_chords_start (R : Rat → Rat) (t0 qpm : Rat) (spq s0 : Int) :
    Gen2.chords_to_sequence_sequence_start_time R t0 qpm spq s0 = seqStartAddR R t0 (secPerStepR R qpm spq) s0 := rfl
theorem t2_pianoroll_sps (R : Rat → Rat) (qpm : Rat) (spq s0 : Int) :
    Gen2.pianoroll_to_sequence_seconds_per_step R qpm spq s0 = secPerStepR R qpm spq := rfl
theorem t2_pianoroll_start (R : Rat → Rat) (qpm : Rat) (spq s0 : Int) :
    Gen2.pianoroll_to_sequence_sequence_start_time R qpm spq s0 = seqStartR R (secPerStepR R qpm spq) s0 := rfl
theorem t2_performance_sps (R : Rat → Rat) (sps : Int) :
    Gen2.performance_to_sequence_seconds_per_step R sps = secPerStepAbsR R sps := rfl
theorem t2_metric_sps (R : Rat → Rat) (qpm : Rat) (spq : Int) :
    Gen2.metric_to_sequence_seconds_per_step R qpm spq = secPerStepMetricR R qpm spq := rfl
theorem t2_noteperf_sps (R : Rat → Rat) (sps : Int) :
    Gen2.noteperf_to_sequence_seconds_per_step R sps = secPerStepAbsR R sps := rfl

/-- non-vacuity: 120 qpm at 4 steps per quarter is 1/8 s per step through the regenerated definition -/
example : Gen2.melody_to_sequence_seconds_per_step rne53 0 120 4 0 = 1/8 := by decide +kernel

end NSV.C06
