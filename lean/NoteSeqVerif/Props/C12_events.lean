import NoteSeqVerif.Proofs.C12B
import NoteSeqVerif.Props.C07
/-! C12 — event-sequence extraction does not depend on the storage order of notes and events.

For every pair of quantized NoteSequences related by `NSPerm` (any permutation of any repeated field) and equal scalar
parameters, the C07 models of `PianorollSequence`, `DrumTrack`, `ChordProgression`, `Melody`, `Performance`,
`MetricPerformance` and `NotePerformance` return *equal* results: the same event list, start/end step, bar length,
program/is_drum — or the same exception.  No bound on sizes.

Where the Python really reads storage order the hypothesis needed is explicit and decidable (`Proofs/C12B.lean`):
* `BarAgree`       — all stored time signatures have one (numerator, denominator): `steps_per_bar_in_quantized_sequence`
                     reads `time_signatures[0]` (Melody, DrumTrack, ChordProgression);
* `ChordTiesAgree` — chord symbols sharing (step, time) *before* `start_step` carry the same text (the sort key is
                     `(quantized_step, time)`; the last one in sorted order is the chord in force at `start_step`);
* `MelTiesAgree`   — selected notes sharing (start step, pitch, start time) share the end step (the sort key is
                     `(quantized_start_step, -pitch, start_time)`; `ignore_polyphonic_notes` keeps the first);
* `PerfTiesAgree`  — selected notes sharing (start time, pitch) share start step, end step and velocity bin.
Each is preserved by `NSPerm` (`*.perm`) and shown necessary by the counterexamples at the end (on each of them the real
Python shows the same dependence).  PianorollSequence and DrumTrack need no tie condition at all.
Relation to the property's quantifier ("no two same-pitch notes overlap or coincide, no two state events of one kind
share a time", stated on the *unquantized* sequence): `BarAgree` is what `quantize_note_sequence` enforces
(`MultipleTimeSignatureError`); `PerfTiesAgree` and `MelTiesAgree` follow from it (two notes of one pitch with one start
time overlap or coincide) and so does `ChordTiesAgree` (two chord symbols with one time share a time).  Quantization can
still put two non-overlapping notes of one pitch (resp. two chord symbols at different times) on one step; since the
third (resp. second) sort-key component is the unquantized time, Melody extraction with `ignore_polyphonic_notes` (resp.
ChordProgression extraction from a later `start_step`) no longer depends on storage order there: `exMelTie` /
`exChordTie` below have exactly that shape (they were storage-order dependent under the former keys
`(step, -pitch)` / `step`) and are now covered by `melody_perm` / `chords_perm` (`exMelTie_order_independent`,
`exChordTie_order_independent`). -/
namespace NSV.C12
open NSV NSV.C07

/-- `PianorollSequence(quantized_sequence=…)`: same frames or same exception, for *every* input (no tie condition:
painting happens in start-step order and the silenced frame before a re-strike wins over any earlier paint) -/
theorem pianoroll_perm {s s' : NoteSeq} (h : NSPerm s s') (startStep minP maxP : Int) (split : Bool) :
    pianorollFromQuantized s startStep minP maxP split = pianorollFromQuantized s' startStep minP maxP split := by
  have hp : (sortByInt (·.qs) s.notes).Perm (sortByInt (·.qs) s'.notes) :=
    ((List.mergeSort_perm _ _).trans h.notes).trans (List.mergeSort_perm _ _).symm
  unfold pianorollFromQuantized
  simp only [← h.spq, ← h.totalQSteps, hp.any_eq,
    rollFrames_perm _ hp (sortByInt_pairwise _ _) (sortByInt_pairwise _ _)]

/-- `DrumTrack.from_quantized_sequence`: same events, start/end step, bar length — or same exception -/
theorem drums_perm {s s' : NoteSeq} (h : NSPerm s s') (hb : BarAgree s) (searchStart gapBars : Int)
    (padEnd ignoreIsDrum : Bool) :
    drumsFromQuantized s searchStart gapBars padEnd ignoreIsDrum =
      drumsFromQuantized s' searchStart gapBars padEnd ignoreIsDrum := by
  have hsel := h.notes.filter (drumSel searchStart ignoreIsDrum)
  unfold drumsFromQuantized
  simp only [← stepsPerBar_perm h hb, ← h.spq, ← canonSet_perm (hsel.map (·.qs)), ← drumLoop_perm hsel]

/-- `ChordProgression.from_quantized_sequence`: same figures per step — or same exception (`CoincidentChordsError`
included: two different symbols on one step inside the range raise it in either order) -/
theorem chords_perm {s s' : NoteSeq} (h : NSPerm s s') (hb : BarAgree s) (startStep endStep : Int)
    (ht : ChordTiesAgree s startStep) :
    chordsFromQuantized s startStep endStep = chordsFromQuantized s' startStep endStep := by
  have hspb' := stepsPerBar_perm h hb
  cases hspb : stepsPerBar s with
  | error e =>
    rw [hspb] at hspb'
    simp only [chordsFromQuantized, hspb, ← hspb']
  | ok spb =>
    rw [hspb] at hspb'
    by_cases hse : startStep < endStep
    · by_cases hc : ChordsCoincident s startStep endStep
      · rw [(chords_coincident_iff s startStep endStep spb hspb hse).mpr hc,
            (chords_coincident_iff s' startStep endStep spb hspb'.symm hse).mpr
              ((chordsCoincident_perm h startStep endStep).mp hc)]
      · have hc' : ¬ ChordsCoincident s' startStep endStep := fun x => hc ((chordsCoincident_perm h _ _).mpr x)
        obtain ⟨E, hE, hl, hs⟩ := chords_steps s startStep endStep spb hspb hse hc
        obtain ⟨E', hE', hl', hs'⟩ := chords_steps s' startStep endStep spb hspb'.symm hse hc'
        rw [hE, hE', ← h.spq]
        have : E = E' := by
          apply List.ext_getElem?
          intro i
          by_cases hi : (i : Int) < endStep - startStep
          · rw [hs i hi, hs' i hi]
            congr 1
            apply chordAt_perm _ h
            intro a ha b hb' ka kb hq htm hle
            by_cases hlt : a.qstep < startStep
            · exact ht a ha b hb' ka kb hq htm hlt
            · apply Classical.byContradiction
              intro hne
              exact hc ⟨a, ha, b, hb', ka, kb, hq, by omega, by omega, hne⟩
          · rw [List.getElem?_eq_none (by omega), List.getElem?_eq_none (by omega)]
        rw [this]
    · rw [chords_degenerate s startStep endStep spb hspb (by omega),
          chords_degenerate s' startStep endStep spb hspb'.symm (by omega)]

/-- `Melody.from_quantized_sequence`: same events, start/end step — or same exception (`PolyphonicMelodyError`,
`BadNoteError`, … included) -/
theorem melody_perm {s s' : NoteSeq} (h : NSPerm s s') (hb : BarAgree s) (searchStart inst gapBars : Int)
    (ignorePoly padEnd filterDrums : Bool) (ht : MelTiesAgree s searchStart inst filterDrums) :
    melodyFromQuantized s searchStart inst gapBars ignorePoly padEnd filterDrums =
      melodyFromQuantized s' searchStart inst gapBars ignorePoly padEnd filterDrums := by
  have hk := melSorted_key h ht
  unfold melodyFromQuantized
  rw [← stepsPerBar_perm h hb, ← h.spq]
  cases stepsPerBar s with
  | error e => rfl
  | ok spb =>
    simp only []
    generalize (s.notes.filter (melSel searchStart inst filterDrums)).mergeSort melLe = L at hk ⊢
    generalize (s'.notes.filter (melSel searchStart inst filterDrums)).mergeSort melLe = L' at hk ⊢
    cases L with
    | nil =>
      cases L' with
      | nil => rfl
      | cons b bs => simp at hk
    | cons a as =>
      cases L' with
      | nil => simp at hk
      | cons b bs =>
        have hq : a.qs = b.qs := by
          have := hk
          simp only [List.map_cons, List.cons.injEq, melKey, Prod.mk.injEq] at this
          exact this.1.1
        simp only [hq, melLoop_key filterDrums ignorePoly _ _ _ _ _ hk]

/-- `Performance(quantized_sequence=…)`: same events, program, is_drum — or same exception -/
theorem perf_perm {s s' : NoteSeq} (h : NSPerm s s') (startStep nb maxShift : Int) (inst : Option Int)
    (ht : PerfTiesAgree s startStep nb inst) :
    perfFromQuantized s startStep nb maxShift inst = perfFromQuantized s' startStep nb maxShift inst := by
  unfold perfFromQuantized
  rw [← h.sps, perfEvents_perm h ht, programAndIsDrum_perm h]

/-- `MetricPerformance(quantized_sequence=…)` -/
theorem metricPerf_perm {s s' : NoteSeq} (h : NSPerm s s') (startStep nb maxShiftQuarters : Int) (inst : Option Int)
    (ht : PerfTiesAgree s startStep nb inst) :
    metricPerfFromQuantized s startStep nb maxShiftQuarters inst =
      metricPerfFromQuantized s' startStep nb maxShiftQuarters inst := by
  unfold metricPerfFromQuantized
  rw [← h.spq, perfEvents_perm h ht, programAndIsDrum_perm h]

/-- `NotePerformance(quantized_sequence, …)`: same tuples — or same exception -/
theorem notePerf_perm {s s' : NoteSeq} (h : NSPerm s s') (nb : Int) (inst : Option Int)
    (startStep maxShift maxDur : Int) (ht : PerfTiesAgree s startStep nb inst) :
    notePerfFromQuantized s nb inst startStep maxShift maxDur =
      notePerfFromQuantized s' nb inst startStep maxShift maxDur := by
  unfold notePerfFromQuantized
  rw [← h.sps, programAndIsDrum_perm h inst,
    notePerfLoop_key nb maxShift maxDur _ _ startStep (sortedNotes_key h ht)]

/-! ## Non-vacuity: the hypotheses hold on non-trivial inputs (C07's examples and their reversals), the two storage
orders really differ, and the common result is not an error / not empty -/

example : revAll exRel ≠ exRel ∧ revAll exAbs ≠ exAbs := by decide
example : BarAgree exRel ∧ ChordTiesAgree exRel 0 ∧ ChordTiesAgree exRel 12 ∧ MelTiesAgree exRel 0 0 true ∧
    PerfTiesAgree exAbs 0 8 none ∧ PerfTiesAgree exAbs 0 0 none := by decide +kernel
example := pianoroll_perm (nsperm_revAll exRel) 0 55 64 true
example := drums_perm (nsperm_revAll exRel) (by decide) 0 1 true false
example := chords_perm (nsperm_revAll exRel) (by decide) 0 12 (by decide)
example := chords_perm (nsperm_revAll exRel) (by decide) 12 40 (by decide +kernel)
example := melody_perm (nsperm_revAll exRel) (by decide) 0 0 1 true false true (by decide +kernel)
example := perf_perm (nsperm_revAll exAbs) 0 8 8 none (by decide +kernel)
example := metricPerf_perm (nsperm_revAll { exAbs with spq := 4 }) 0 0 2 none (by decide +kernel)
example := notePerf_perm (nsperm_revAll exAbs) 8 none 0 26 4 (by decide +kernel)
/-- the common results are real results (evaluated on the stored-in-order originals; the theorems carry them over
to every other storage order) -/
example : ∃ r, pianorollFromQuantized exRel 0 55 64 true = .ok r ∧ (r.length : Int) = 26 := by
  obtain ⟨evs, h, hl, _⟩ := pianoroll_frame_mem exRel 0 55 64 true (by decide) (by decide) (by decide) (by decide)
  exact ⟨evs, h, by rw [hl]; decide⟩
example : (drumsFromQuantized exRel 0 1 true false).toOption.map (·.events.length) = some 16 := by decide +kernel
example : ∃ r, chordsFromQuantized exRel 0 12 = .ok r ∧ r.events.length = 12 := by
  obtain ⟨E, hE, hl, _⟩ := chords_steps exRel 0 12 16 exRel_spb (by decide) exRel_noCoincidence
  exact ⟨_, hE, by simp only []; omega⟩
example : (melodyFromQuantized exRel 0 0 1 true false true).toOption.map (·.events) = some [64, -2, 60, -2, 60, -2] := by
  unfold melodyFromQuantized
  rw [exRel_spb, exRel_melSorted]
  decide +kernel
example : ∃ r, perfFromQuantized exAbs 0 8 8 none = .ok r := by
  obtain ⟨evs, he⟩ := perf_defined exAbs 0 8 8 none (by decide) (by decide) (by
    intro n hn _ _
    simp only [exAbs, List.mem_cons, List.not_mem_nil, or_false] at hn
    rcases hn with rfl | rfl | rfl | rfl <;> decide)
  exact ⟨_, by simp only [perfFromQuantized, he]; rfl⟩

/-! ## The hypotheses are needed: the MODEL (= the Python) reads storage order exactly there -/

/-- two different time signatures (at different times — allowed by the quantifier): the first stored decides the bar -/
def exTwoSigs : NoteSeq := { exRel with timeSigs := [⟨0, 4, 4⟩, ⟨2, 3, 4⟩] }
example : ¬ BarAgree exTwoSigs ∧ stepsPerBar exTwoSigs = .ok 16 ∧ stepsPerBar (revAll exTwoSigs) = .ok 12 ∧
    drumsFromQuantized exTwoSigs 20 1 false true ≠ drumsFromQuantized (revAll exTwoSigs) 20 1 false true := by
  decide +kernel

/-- two different chord symbols with one (step, time) before the start step: the one stored last is in force.  (Outside
the property's quantifier — two chord symbols share a time.) -/
def exChordSame : NoteSeq := { exRel with texts := [⟨1/4, 2, 1, "x43"⟩, ⟨1/4, 2, 1, "x47"⟩] }
theorem exChordSame_sorted : chordAnns exChordSame = exChordSame.texts ∧
    chordAnns (revAll exChordSame) = exChordSame.texts.reverse :=
  ⟨List.mergeSort_of_pairwise (by decide +kernel), List.mergeSort_of_pairwise (by decide +kernel)⟩
example : ¬ ChordTiesAgree exChordSame 4 ∧
    chordsFromQuantized exChordSame 4 8 ≠ chordsFromQuantized (revAll exChordSame) 4 8 := by
  refine ⟨by decide +kernel, ?_⟩
  have h : stepsPerBar (revAll exChordSame) = .ok 16 ∧ stepsPerBar exChordSame = .ok 16 := by decide +kernel
  unfold chordsFromQuantized
  rw [exChordSame_sorted.1, exChordSame_sorted.2, h.1, h.2]
  decide +kernel
/-- … while inside the range both orders raise `CoincidentChordsError` (covered by `chords_perm`) -/
example : ChordTiesAgree exChordSame 0 ∧ chordsFromQuantized exChordSame 0 8 = .error .coincidentChordsError ∧
    chordsFromQuantized (revAll exChordSame) 0 8 = .error .coincidentChordsError := by
  have h : stepsPerBar (revAll exChordSame) = .ok 16 ∧ stepsPerBar exChordSame = .ok 16 := by decide +kernel
  unfold chordsFromQuantized
  rw [exChordSame_sorted.1, exChordSame_sorted.2, h.1, h.2]
  decide +kernel

/-- two notes of pitch 60 with one start time on step 0 with different ends: `ignore_polyphonic_notes` keeps the one
stored first.  (Outside the property's quantifier — two notes of one pitch coincide at their start.) -/
def exMelSame : NoteSeq := { exRel with notes := [exNote 60 0 1, exNote 60 0 3] }
example : ¬ MelTiesAgree exMelSame 0 0 true ∧
    melodyFromQuantized exMelSame 0 0 1 true false true ≠ melodyFromQuantized (revAll exMelSame) 0 0 1 true false true := by
  refine ⟨by decide +kernel, ?_⟩
  have h : stepsPerBar (revAll exMelSame) = .ok 16 ∧ stepsPerBar exMelSame = .ok 16 := by decide +kernel
  have h1 : (exMelSame.notes.filter (melSel 0 0 true)).mergeSort melLe = exMelSame.notes :=
    List.mergeSort_of_pairwise (by decide +kernel)
  have h2 : ((revAll exMelSame).notes.filter (melSel 0 0 true)).mergeSort melLe = exMelSame.notes.reverse :=
    List.mergeSort_of_pairwise (by decide +kernel)
  unfold melodyFromQuantized
  rw [h1, h2, h.1, h.2]
  decide +kernel

/-! ## The former counterexamples (F-C12-3 / F-C12-4 shapes) no longer depend on storage order -/

/-- chord symbols 'C' at 0.25 s and 'G7' at 0.26 s both quantize to step 2 (4 steps per quarter, 120 qpm); a
progression extracted over `[4, 8)`.  Under the former sort key `quantized_step` the chord in force at step 4 was
the one stored last. -/
def exChordTie : NoteSeq := { exRel with texts := [⟨1/4, 2, 1, "x43"⟩, ⟨13/50, 2, 1, "x47"⟩] }

/-- both storage orders are sorted into time order: the chord at 0.26 s comes last -/
theorem exChordTie_sorted : chordAnns exChordTie = exChordTie.texts ∧
    chordAnns (revAll exChordTie) = exChordTie.texts := by
  have h1 : chordAnns exChordTie = exChordTie.texts := List.mergeSort_of_pairwise (by decide +kernel)
  refine ⟨h1, ?_⟩
  have hp : (chordAnns (revAll exChordTie)).Perm (chordAnns exChordTie) := by
    unfold chordAnns
    exact ((List.mergeSort_perm _ _).trans (((nsperm_revAll exChordTie).texts.filter _).symm)).trans
      (List.mergeSort_perm _ _).symm
  rw [← h1]
  refine List.Perm.eq_of_pairwise ?_ (chordAnns_sorted _) (chordAnns_sorted _) hp
  intro a b ha hb hab hba
  rw [h1] at hb
  rw [hp.mem_iff, h1] at ha
  simp only [exChordTie, List.mem_cons, List.not_mem_nil, or_false] at ha hb
  rcases ha with rfl | rfl <;> rcases hb with rfl | rfl <;> first | rfl | (exfalso; revert hab hba; unfold ChordOrd; decide +kernel)

/-- `ChordTiesAgree` holds (the two symbols differ in time), so `chords_perm` applies: the progression over `[4, 8)`
is the same for the two storage orders, and it is the later chord (`G7`, hex `x47`) on all four steps -/
theorem exChordTie_order_independent : revAll exChordTie ≠ exChordTie ∧ ChordTiesAgree exChordTie 4 ∧
    chordsFromQuantized exChordTie 4 8 = chordsFromQuantized (revAll exChordTie) 4 8 ∧
    (chordsFromQuantized exChordTie 4 8).toOption.map (·.events) = some ["x47", "x47", "x47", "x47"] := by
  refine ⟨by decide +kernel, by decide +kernel, chords_perm (nsperm_revAll exChordTie) (by decide) 4 8 (by decide +kernel), ?_⟩
  have h : stepsPerBar exChordTie = .ok 16 := by decide +kernel
  unfold chordsFromQuantized
  rw [exChordTie_sorted.1, h]
  decide +kernel

/-- notes of pitch 60 at 0.0–0.05 s and 0.06–0.4 s: they do not overlap, both start on step 0, they end on steps 1
and 3.  Under the former sort key `(step, -pitch)`, `ignore_polyphonic_notes` kept whichever was stored first
(`[60]` vs `[60, -2, -2]`). -/
def exMelTie : NoteSeq := { exRel with notes := [exNote 60 0 1 100 0 false 0, exNote 60 0 3 100 0 false (3/50)] }

/-- `MelTiesAgree` holds (the two notes differ in start time), so `melody_perm` applies: the melody is the same for
the two storage orders, and it keeps the note that starts first (`[60]`) -/
theorem exMelTie_order_independent : revAll exMelTie ≠ exMelTie ∧ MelTiesAgree exMelTie 0 0 true ∧
    melodyFromQuantized exMelTie 0 0 1 true false true = melodyFromQuantized (revAll exMelTie) 0 0 1 true false true ∧
    (melodyFromQuantized exMelTie 0 0 1 true false true).toOption.map (·.events) = some [60] := by
  refine ⟨by decide +kernel, by decide +kernel,
    melody_perm (nsperm_revAll exMelTie) (by decide) 0 0 1 true false true (by decide +kernel), ?_⟩
  have h : stepsPerBar exMelTie = .ok 16 := by decide +kernel
  have h1 : (exMelTie.notes.filter (melSel 0 0 true)).mergeSort melLe = exMelTie.notes :=
    List.mergeSort_of_pairwise (by decide +kernel)
  unfold melodyFromQuantized
  rw [h1, h]
  decide +kernel

/-- two notes with one start time and pitch but different velocity bins: the VELOCITY events come in storage order -/
def exPerfTie : NoteSeq := { exAbs with notes := [exNote 60 0 4 10, exNote 60 0 4 120] }
example : ¬ PerfTiesAgree exPerfTie 0 8 none ∧ PerfTiesAgree exPerfTie 0 0 none ∧
    perfFromQuantized exPerfTie 0 8 8 none ≠ perfFromQuantized (revAll exPerfTie) 0 8 8 none := by
  refine ⟨by decide +kernel, by decide +kernel, ?_⟩
  have h1 : sortedNotes exPerfTie 0 none = exPerfTie.notes := List.mergeSort_of_pairwise (by decide +kernel)
  have h2 : sortedNotes (revAll exPerfTie) 0 none = exPerfTie.notes.reverse :=
    List.mergeSort_of_pairwise (by decide +kernel)
  have h3 : noteEvents exPerfTie.notes = onsets exPerfTie.notes ++ offsets exPerfTie.notes :=
    List.mergeSort_of_pairwise (by decide +kernel)
  have h4 : noteEvents exPerfTie.notes.reverse = onsets exPerfTie.notes.reverse ++ offsets exPerfTie.notes.reverse :=
    List.mergeSort_of_pairwise (by decide +kernel)
  unfold perfFromQuantized perfEvents
  rw [h1, h2, h3, h4]
  decide +kernel


/-! ## program / is_drum of a performance, as a function of the BAG of notes

`programAndIsDrum_perm` (used in `perf_perm`, `metricPerf_perm`, `notePerf_perm`) says the result is the same for every
storage order; the two theorems below say WHAT it is, in terms that do not mention order at all (the docstring of
`_program_and_is_drum_from_sequence`).  `program_fold_depends_on_order`: the natural one-pass rewrite is not. -/

theorem canonSet_eq_singleton {l : List Int} {p : Int} :
    canonSet l = [p] ↔ l ≠ [] ∧ ∀ x ∈ l, x = p := by
  constructor
  · intro h
    refine ⟨?_, ?_⟩
    · rintro rfl
      simp [canonSet] at h
    · intro x hx
      have := (mem_canonSet (y := x) (l := l)).mpr hx
      rw [h] at this
      simpa using this
  · rintro ⟨hne, hall⟩
    have hs := canonSet_sorted l
    have hm : ∀ y, y ∈ canonSet l ↔ y ∈ l := fun y => mem_canonSet
    cases hc : canonSet l with
    | nil =>
      cases l with
      | nil => exact absurd rfl hne
      | cons a as =>
        have := (hm a).mpr (by simp)
        rw [hc] at this
        cases this
    | cons a rest =>
      rw [hc] at hs
      have ha : a = p := hall a ((hm a).mp (by rw [hc]; simp))
      cases rest with
      | nil => rw [ha]
      | cons b rest' =>
        have hb : b = p := hall b ((hm b).mp (by rw [hc]; simp))
        have : a < b := by
          have := List.pairwise_cons.mp hs
          exact this.1 b (by simp)
        omega

/-- what `_program_and_is_drum_from_sequence` returns, as a property of the BAG of selected notes (its docstring: "If
multiple programs are found (or if is_drum is True), program will be None"): the program is `p` exactly when there is at
least one selected note, none of them is a drum and ALL of them carry program `p` — no reference to storage order -/
theorem programAndIsDrum_program_spec (s : NoteSeq) (inst : Option Int) (p : Int) :
    (programAndIsDrum s inst).1 = some p ↔
      (s.notes.filter (instOk inst) ≠ [] ∧ ∀ n ∈ s.notes.filter (instOk inst), n.isDrum = false ∧ n.program = p) := by
  unfold programAndIsDrum
  generalize s.notes.filter (instOk inst) = notes
  by_cases h1 : notes.all (·.isDrum) = true
  · simp only [h1, if_true]
    constructor
    · intro h; cases h
    · rintro ⟨hne, hall⟩
      cases notes with
      | nil => exact absurd rfl hne
      | cons a as =>
        have := List.all_eq_true.mp h1 a (by simp)
        have := (hall a (by simp)).1
        simp_all
  · simp only [h1, Bool.false_eq_true, if_false]
    by_cases h2 : notes.all (fun n => !n.isDrum) = true
    · simp only [h2, if_true]
      have hne : notes ≠ [] := by
        rintro rfl
        simp at h1
      have hnd : ∀ n ∈ notes, n.isDrum = false := by
        intro n hn
        have := List.all_eq_true.mp h2 n hn
        simpa using this
      have key := canonSet_eq_singleton (l := notes.map (·.program)) (p := p)
      constructor
      · intro h
        have hc : canonSet (notes.map (·.program)) = [p] := by
          revert h
          cases hcs : canonSet (notes.map (·.program)) with
          | nil => intro h; cases h
          | cons a rest =>
            cases rest with
            | nil => intro h; simp at h; rw [h]
            | cons b r => intro h; cases h
        obtain ⟨_, hall⟩ := key.mp hc
        exact ⟨hne, fun n hn => ⟨hnd n hn, hall _ (List.mem_map.mpr ⟨n, hn, rfl⟩)⟩⟩
      · rintro ⟨_, hall⟩
        have hc : canonSet (notes.map (·.program)) = [p] := by
          apply key.mpr
          refine ⟨by simpa using hne, ?_⟩
          intro x hx
          obtain ⟨n, hn, rfl⟩ := List.mem_map.mp hx
          exact (hall n hn).2
        rw [hc]
    · simp only [h2, Bool.false_eq_true, if_false]
      constructor
      · intro h; cases h
      · rintro ⟨_, hall⟩
        exfalso
        apply h2
        apply List.all_eq_true.mpr
        intro n hn
        simp [(hall n hn).1]

/-- … and `is_drum` is `True` / `False` exactly when all selected notes are / none is a drum (docstring: "If multiple
values of is_drum are found, is_drum will be None"; no selected note at all counts as all-drums) -/
theorem programAndIsDrum_isDrum_spec (s : NoteSeq) (inst : Option Int) :
    ((programAndIsDrum s inst).2 = some true ↔ ∀ n ∈ s.notes.filter (instOk inst), n.isDrum = true) ∧
    ((programAndIsDrum s inst).2 = some false ↔
      s.notes.filter (instOk inst) ≠ [] ∧ ∀ n ∈ s.notes.filter (instOk inst), n.isDrum = false) := by
  unfold programAndIsDrum
  generalize s.notes.filter (instOk inst) = notes
  by_cases h1 : notes.all (·.isDrum) = true
  · have h1' := List.all_eq_true.mp h1
    rw [if_pos h1]
    refine ⟨⟨fun _ => h1', fun _ => rfl⟩, ⟨fun h => by simp at h, ?_⟩⟩
    rintro ⟨hne, hall⟩
    cases notes with
    | nil => exact absurd rfl hne
    | cons a as =>
      have := h1' a (by simp)
      have := hall a (by simp)
      simp_all
  · have hno : ¬ ∀ n ∈ notes, n.isDrum = true := fun h => h1 (List.all_eq_true.mpr h)
    have hne : notes ≠ [] := by
      rintro rfl
      simp at h1
    rw [if_neg h1]
    by_cases h2 : notes.all (fun n => !n.isDrum) = true
    · have hnd : ∀ n ∈ notes, n.isDrum = false := by
        intro n hn
        have := List.all_eq_true.mp h2 n hn
        simpa using this
      rw [if_pos h2]
      refine ⟨⟨fun h => ?_, fun h => absurd h hno⟩, ⟨fun _ => ⟨hne, hnd⟩, fun _ => ?_⟩⟩
      · exfalso
        revert h
        split <;> simp
      · split <;> rfl
    · rw [if_neg h2]
      refine ⟨⟨fun h => by simp at h, fun h => absurd h hno⟩, ⟨fun h => by simp at h, ?_⟩⟩
      rintro ⟨_, hall⟩
      exfalso
      apply h2
      apply List.all_eq_true.mpr
      intro n hn
      simp [hall n hn]

/-- the one-pass computation in which `none` stands both for "no note seen yet" and for "conflict" (so a conflict is
forgotten at the next note): the result depends on where the odd note sits in the storage order -/
def programFold (ps : List Int) : Option Int :=
  ps.foldl (fun acc p => match acc with
    | none => some p
    | some q => if p = q then some q else none) none

theorem program_fold_depends_on_order :
    ([1, 2, 2] : List Int).Perm [2, 2, 1] ∧ programFold [1, 2, 2] = some 2 ∧ programFold [2, 2, 1] = none := by
  refine ⟨?_, by decide, by decide⟩
  exact (List.perm_append_comm (l₁ := [1]) (l₂ := [2, 2]))

/-- non-vacuity: three notes of instrument 0, programs 1, 2, 2 (any storage order): no program; uniform program 5: 5 -/
def exProg (a b c : Int) : NoteSeq :=
  { exAbs with notes := [{ exNote 60 0 4 80 with program := a }, { exNote 64 4 8 80 with program := b },
                         { exNote 67 8 12 80 with program := c }] }
example : (programAndIsDrum (exProg 1 2 2) (some 0)).1 = none ∧ (programAndIsDrum (exProg 2 2 1) (some 0)).1 = none ∧
    (programAndIsDrum (exProg 5 5 5) (some 0)) = (some 5, some false) ∧
    (exProg 5 5 5).notes.filter (instOk (some 0)) ≠ [] := by decide +kernel
example := (programAndIsDrum_program_spec (exProg 5 5 5) (some 0) 5).mp (by decide +kernel)

end NSV.C12
