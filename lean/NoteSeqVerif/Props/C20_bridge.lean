import NoteSeqVerif.Model.C20
import NoteSeqVerif.Generated.C20T2
/-! # C20 — translator tie T2 for the sample counts of `crop_samples` and `repeat_samples_to_duration`

`Generated/C20T2.lean` is the symbolic execution of the current Python source up to the numpy slicing /
concatenation: `samples_to_crop`, `total_samples` and `num_repeats` as expressions in the arguments, with the rounding
operator after every float operation.  They are the model's `secToSamples` / `numRepeats`, hence `cropR` slices at
exactly the regenerated bounds. -/
namespace NSV.C20

theorem t2_crop_begin (R : Rat → Rat) (rate : Int) (b len : Rat) :
    Gen2.crop_samples_samples_to_crop R rate b len = secToSamples R b rate := rfl

theorem t2_crop_length (R : Rat → Rat) (rate : Int) (b len : Rat) :
    Gen2.crop_samples_total_samples R rate b len = secToSamples R len rate := rfl

theorem t2_num_repeats (R : Rat → Rat) (rate : Int) (D : Rat) (len : Nat) :
    Gen2.repeat_samples_to_duration_num_repeats R rate D (len : Int) = numRepeats R len rate D := by
  simp [Gen2.repeat_samples_to_duration_num_repeats, numRepeats, Rat.intCast_natCast]

theorem t2_crop_slice {α} (R : Rat → Rat) (xs : List α) (rate : Int) (b len : Rat) :
    cropR R xs rate b len =
      pySlice xs (Gen2.crop_samples_samples_to_crop R rate b len)
        (Gen2.crop_samples_samples_to_crop R rate b len + Gen2.crop_samples_total_samples R rate b len) := rfl

example : Gen2.crop_samples_samples_to_crop rne53 8000 (1001/8000) 1 = 1001 := by decide +kernel

end NSV.C20
