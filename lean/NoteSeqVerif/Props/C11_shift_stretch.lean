import NoteSeqVerif.Props.C13
import Mathlib.Tactic.Linarith
import Mathlib.Tactic.NormNum
import NoteSeqVerif.Model.C11WF
-- THEOREMS: wf_of_moved wf_shift wf_stretch no_invention_shift no_invention_stretch
/-! # C11 (b) — shift_sequence_times / stretch_note_sequence return well-formed sequences and invent nothing
Corollaries of `NSV.C13.shift_spec` / `stretch_spec` (model owned by C13, imported read-only).
`R`: any monotone rounding operator with `R 0 = 0`. -/
namespace NSV.C11
open NSV NSV.C13

/-- moving every time by a monotone map that keeps `0` non-negative preserves well-formedness -/
theorem wf_of_moved (g q : Rat → Rat) (hg : ∀ a b, a ≤ b → g a ≤ g b) (hg0 : 0 ≤ g 0) {s r : NoteSeq}
    (hw : WF s) (hm : Moved g q s r) : WF r := by
  have nn : ∀ t : Rat, 0 ≤ t → 0 ≤ g t := fun t ht => le_trans hg0 (hg _ _ ht)
  refine ⟨?_, by rw [hm.totalTime]; exact nn _ hw.total, ⟨?_, ?_, ?_, ?_, ?_, ?_, ?_⟩⟩
  · intro n hn
    rw [hm.notes] at hn
    obtain ⟨m, hm', rfl⟩ := List.mem_map.mp hn
    obtain ⟨h0, h1, h2⟩ := hw.notes m hm'
    rw [hm.totalTime]
    exact ⟨nn _ h0, hg _ _ h1, hg _ _ h2⟩
  · intro e he; rw [hm.tempos] at he
    obtain ⟨m, hm', rfl⟩ := List.mem_map.mp he; exact nn _ (hw.events.tempos m hm')
  · intro e he; rw [hm.timeSigs] at he
    obtain ⟨m, hm', rfl⟩ := List.mem_map.mp he; exact nn _ (hw.events.timeSigs m hm')
  · intro e he; rw [hm.keySigs] at he
    obtain ⟨m, hm', rfl⟩ := List.mem_map.mp he; exact nn _ (hw.events.keySigs m hm')
  · intro e he; rw [hm.texts] at he
    obtain ⟨m, hm', rfl⟩ := List.mem_map.mp he; exact nn _ (hw.events.texts m hm')
  · intro e he; rw [hm.ccs] at he
    obtain ⟨m, hm', rfl⟩ := List.mem_map.mp he; exact nn _ (hw.events.ccs m hm')
  · intro e he; rw [hm.bends] at he
    obtain ⟨m, hm', rfl⟩ := List.mem_map.mp he; exact nn _ (hw.events.bends m hm')
  · intro e he; rw [hm.sectionAnns] at he
    obtain ⟨m, hm', rfl⟩ := List.mem_map.mp he; exact nn _ (hw.events.sectionAnns m hm')

theorem wf_shift (R : Rat → Rat) (hR : ∀ a b, a ≤ b → R a ≤ R b) (hR0 : R 0 = 0) (d : Rat) (s r : NoteSeq)
    (hw : WF s) (h : shiftR R d s = .ok r) : WF r := by
  have hd : 0 < d := by
    by_contra hd
    have := (shift_error_iff R d s .valueError).mpr (Or.inl ⟨not_lt.mp hd, rfl⟩)
    rw [this] at h; cases h
  have hq : s.isQuantized = false := by
    cases hq : s.isQuantized with
    | false => rfl
    | true =>
      have := (shift_error_iff R d s .quantizationStatusError).mpr (Or.inr ⟨hd, hq, rfl⟩)
      rw [this] at h; cases h
  obtain ⟨r', hr', hm, _⟩ := shift_spec R d s hd hq
  rw [hr'] at h; cases h
  refine wf_of_moved _ _ (fun a b hab => hR _ _ (by linarith)) ?_ hw hm
  rw [← hR0]; exact hR _ _ (by linarith)

theorem wf_stretch (R : Rat → Rat) (hR : ∀ a b, a ≤ b → R a ≤ R b) (hR0 : R 0 = 0) (f : Rat) (hf : 0 < f)
    (s r : NoteSeq) (hw : WF s) (h : stretchR R f s = .ok r) : WF r := by
  have hq : s.isQuantized = false := by
    cases hq : s.isQuantized with
    | false => rfl
    | true =>
      have := (stretch_error_iff R f s .quantizationStatusError).mpr (Or.inl ⟨hq, rfl⟩)
      rw [this] at h; cases h
  by_cases h1 : f = 1
  · subst h1; rw [stretch_one R s hq] at h; cases h; exact hw
  · obtain ⟨r', hr', hm, _⟩ := stretch_spec R f s hq h1 (Or.inl (ne_of_gt hf))
    rw [hr'] at h; cases h
    refine wf_of_moved _ _ (fun a b hab => hR _ _ (mul_le_mul_of_nonneg_right hab (le_of_lt hf))) ?_ hw hm
    simp [hR0]

theorem no_invention_of_moved {g q : Rat → Rat} {s r : NoteSeq} (hm : Moved g q s r) :
    NoInvention s.notes r.notes ∧ NoDuplication s.notes r.notes ∧ r.notes.length = s.notes.length := by
  rw [hm.notes]
  refine ⟨?_, ?_, by simp⟩
  · apply NoInvention.map
    intro n; exact ⟨rfl, rfl, rfl, rfl, rfl, rfl, rfl, rfl⟩
  · apply NoDuplication.map
    intro n; rfl

/-- shifting keeps every note (in order, with its pitch and every other attribute) -/
theorem no_invention_shift (R : Rat → Rat) (d : Rat) (s r : NoteSeq) (h : shiftR R d s = .ok r) :
    NoInvention s.notes r.notes ∧ NoDuplication s.notes r.notes ∧ r.notes.length = s.notes.length := by
  have hd : 0 < d := by
    by_contra hd
    have := (shift_error_iff R d s .valueError).mpr (Or.inl ⟨not_lt.mp hd, rfl⟩)
    rw [this] at h; cases h
  have hq : s.isQuantized = false := by
    cases hq : s.isQuantized with
    | false => rfl
    | true =>
      have := (shift_error_iff R d s .quantizationStatusError).mpr (Or.inr ⟨hd, hq, rfl⟩)
      rw [this] at h; cases h
  obtain ⟨r', hr', hm, _⟩ := shift_spec R d s hd hq
  rw [hr'] at h; cases h
  exact no_invention_of_moved hm

theorem no_invention_stretch (R : Rat → Rat) (f : Rat) (s r : NoteSeq) (h : stretchR R f s = .ok r) :
    NoInvention s.notes r.notes ∧ NoDuplication s.notes r.notes ∧ r.notes.length = s.notes.length := by
  have hq : s.isQuantized = false := by
    cases hq : s.isQuantized with
    | false => rfl
    | true =>
      have := (stretch_error_iff R f s .quantizationStatusError).mpr (Or.inl ⟨hq, rfl⟩)
      rw [this] at h; cases h
  by_cases h1 : f = 1
  · subst h1; rw [stretch_one R s hq] at h; cases h
    exact ⟨fun n hn => ⟨n, hn, SameNote.refl n⟩, fun _ => Nat.le_refl _, rfl⟩
  · by_cases h0 : f ≠ 0 ∨ s.tempos = []
    · obtain ⟨r', hr', hm, _⟩ := stretch_spec R f s hq h1 h0
      rw [hr'] at h; cases h
      exact no_invention_of_moved hm
    · have hf0 : f = 0 := by
        by_contra hne; exact h0 (Or.inl hne)
      have ht : s.tempos ≠ [] := fun hh => h0 (Or.inr hh)
      have := (stretch_error_iff R f s (.other "ZeroDivisionError")).mpr (Or.inr ⟨hq, hf0, ht, rfl⟩)
      rw [this] at h; cases h

/-! non-vacuity: C13's example sequence is well-formed, shifts and stretches -/
example : WF exSeq := by
  refine ⟨?_, by simp [exSeq], ⟨?_, ?_, ?_, ?_, ?_, ?_, ?_⟩⟩ <;> intro e he <;> simp [exSeq, exNote] at he <;>
    (try (rcases he with rfl | rfl | rfl)) <;> simp [exSeq, exNote]

example : (shiftR id (1/2) exSeq).toOption.isSome = true ∧ (stretchR id 2 exSeq).toOption.isSome = true := by
  decide +kernel

end NSV.C11
