import NoteSeqVerif.Proofs.C03Float
import NoteSeqVerif.Proofs.C03FloatGen
import Mathlib.Tactic.Linarith
import Mathlib.Tactic.Ring
import Mathlib.Tactic.FieldSimp
import Mathlib.Tactic.NormNum
import Mathlib.Tactic.Positivity
/-! C03 — the FLOATING-POINT side of the tick / tempo arithmetic.

`Props/C03.lean` proves the tick-map theorems for exact arithmetic (`R = id`).  Every theorem here that carries
`hR : Rounding R` holds for EVERY rounding operator with the facts of `Proofs/Rounding.lean` (monotone, `R 0 = 0`,
idempotent, exact on integers up to `2^53` and on dyadic scalings, relative error `2^-53`) — in particular for the
executable float64 model `rne53` (`rounding_rne53`) that the harness compares bit-exactly with pretty_midi's
`_update_tick_to_time`, `time_to_tick`, `get_tempo_changes` and with the tempo formula of `PrettyMIDI.write`.

What is true in floats and what is not:
* `tick_to_time` and `time_to_tick` are (weakly) monotone — unconditionally;
* under one tempo the round trip time → tick → time moves a time by at most half a tick (inflated by `2^-53`) plus
  `t·2^-51`, and grid times are fixed points up to tick `2^50`;
* the microsecond tempo `write` stores is NOT always the exact one: it is the exact integer or ONE LESS, and which of
  the two is decided by a single float comparison (`midi_tempo_quantisation_float`); kernel-checked float64 instances
  of the loss are `midi_tempo_truncated_witness`.  This is the mechanism of the open finding F-C03-3;
* `midi_drift_of_truncated_tempo` (exact arithmetic) quantifies what the lost microsecond does to every later time. -/
namespace NSV.C03
open NSV

variable {R : ℚ → ℚ}

/-! ## 1. monotonicity -/

/-- pretty_midi's `__tick_to_time` array is nondecreasing in floating point (every tick map with positive scales and
sorted tempo ticks, every pair of ticks, no bound on the array length), starts at `0.0` and is nonnegative. -/
theorem midi_tick_to_time_mono_float (hR : Rounding R) (m : TickMap) (hw : WF m) :
    (∀ j k : Int, j ≤ k → tickToTime R m j ≤ tickToTime R m k) ∧ tickToTime R m 0 = 0 ∧
    (∀ k : Int, 0 ≤ k → 0 ≤ tickToTime R m k) :=
  ⟨fun _ _ h => arr_mono_R hR m hw.toWF0 h, arr_zero_R hR m hw.toWF0, fun _ h => arr_nonneg_R hR m hw.toWF0 h⟩

/-- `time_to_tick` is nondecreasing in floating point: no two event times are written in the wrong order, whatever
the length `M + 1 ≤ 2^53 + 1` of the array (`write` uses the last tempo tick). -/
theorem midi_time_to_tick_mono_float (hR : Rounding R) (m : TickMap) (hw : WF m) (M : Int) (hM : 0 ≤ M)
    (hM2 : M ≤ 2 ^ 53) (t t' : ℚ) (h : t ≤ t') : timeToTick R m M t ≤ timeToTick R m M t' :=
  timeToTick_mono_R hR m hw M hM hM2 h

/-- A note with `start ≤ end` is written with start tick ≤ end tick, and read back — through ANY reader-side tick map
`m'` with positive scales, e.g. the one rebuilt from truncated tempos — with start time ≤ end time: pretty_midi never
sees a reversed note. -/
theorem midi_note_order_kept_float (hR : Rounding R) (m m' : TickMap) (hw : WF m) (hw' : WF m') (M : Int) (hM : 0 ≤ M)
    (hM2 : M ≤ 2 ^ 53) (n : PMNote) (h : n.start ≤ n.end_) :
    timeToTick R m M n.start ≤ timeToTick R m M n.end_ ∧
    tickToTime R m' (timeToTick R m M n.start) ≤ tickToTime R m' (timeToTick R m M n.end_) :=
  ⟨timeToTick_mono_R hR m hw M hM hM2 h, arr_mono_R hR m' hw'.toWF0 (timeToTick_mono_R hR m hw M hM hM2 h)⟩

/-- non-vacuity (float64): 120 qpm then 240 qpm from tick 440 at resolution 220, scales as pretty_midi computes them -/
example : WF ⟨rne53 (60 / rne53 (220 * 120)), [(440, rne53 (60 / rne53 (220 * 240)))]⟩ ∧
    timeToTick rne53 ⟨rne53 (60 / rne53 (220 * 120)), [(440, rne53 (60 / rne53 (220 * 240)))]⟩ 440 (6 / 5) = 616 := by
  refine ⟨⟨by decide +kernel, ?_, by simp [SortedFrom]⟩, by decide +kernel⟩
  intro p hp
  simp only [List.mem_singleton] at hp
  subst hp
  decide +kernel

/-! ## 2. round trip under one tempo -/

/-- Float round trip time → tick → time for the single-tempo map the writer builds from `qpm` and the resolution
(`c = R (60 / R (res · qpm))`, array of length 1 as in `write`): the tick is `≥ 0` and the time read back differs from
`t ≥ 0` by at most `c/2 · (1 + 2^-53) + t · 2^-51` (half a tick, plus four roundings).  The model has no overflow,
so no upper bound on `t` is needed. -/
theorem midi_tick_roundtrip_float (hR : Rounding R) (res : Int) (qpm c : ℚ) (hc : scaleOfQpm R res qpm = .ok c)
    (t : ℚ) (ht : 0 ≤ t) :
    0 < c ∧ 0 ≤ timeToTick R ⟨c, []⟩ 0 t ∧
    |tickToTime R ⟨c, []⟩ (timeToTick R ⟨c, []⟩ 0 t) - t| ≤ c / 2 * (1 + 1 / 2 ^ 53) + t * (1 / 2 ^ 51) := by
  have h0 := scaleOfQpm_pos_R hR hc
  exact ⟨h0, single_roundtrip_R hR c h0 t ht⟩

/-- Float grid times are fixed points: the time pretty_midi assigns to tick `k` (as computed, `R (c · k)`) is written
back to tick `k` exactly, for every `0 ≤ k ≤ 2^50` and every tick length `c > 0`. -/
theorem midi_tick_grid_fixed_float (hR : Rounding R) (c : ℚ) (hc : 0 < c) (k : Int) (hk : 0 ≤ k) (hk2 : k ≤ 2 ^ 50) :
    timeToTick R ⟨c, []⟩ 0 (tickToTime R ⟨c, []⟩ k) = k :=
  single_grid_fixed_R hR c hc k hk hk2

/-- … hence the float round trip is idempotent under one tempo: a time that was read back is written to the same
tick and read back as the same float again. -/
theorem midi_tick_roundtrip_idempotent_float (hR : Rounding R) (c : ℚ) (hc : 0 < c) (t : ℚ) (ht : 0 ≤ t)
    (hk : timeToTick R ⟨c, []⟩ 0 t ≤ 2 ^ 50) :
    tickToTime R ⟨c, []⟩ (timeToTick R ⟨c, []⟩ 0 (tickToTime R ⟨c, []⟩ (timeToTick R ⟨c, []⟩ 0 t))) =
      tickToTime R ⟨c, []⟩ (timeToTick R ⟨c, []⟩ 0 t) := by
  rw [single_grid_fixed_R hR c hc _ (single_roundtrip_R hR c hc t ht).1 hk]

/-- non-vacuity (float64): 120 qpm at 480 ticks per quarter, `t = 0.1` (not a float64 grid time) goes to tick 96 -/
example : scaleOfQpm rne53 480 120 = .ok (rne53 (1 / 960)) ∧
    timeToTick rne53 ⟨rne53 (1 / 960), []⟩ 0 (rne53 (1 / 10)) = 96 := by
  constructor <;> decide +kernel

/-! ## 2b. round trip on a general piecewise tick map (any number of tempo segments) -/

/-- Float round trip time → tick → time on ANY tick map with positive scales and sorted tempo ticks, array of any length
`maxScaleTick m ≤ M ≤ 2^53`: the tick is `≥ 0` and the float time of that tick differs from `t ≥ 0` by at most half the
longest tick, up to a relative `2^-49` of the tick, of `t`, and of `lastScale · M` (what the float addition
`M + (t - arr[M]) / scale` beyond the end of the array can lose).  The bound does not depend on the number of tempo
segments: the round trip is measured against the float array itself, not against the exact piecewise-linear map.
(`midi_tick_roundtrip` is the case `R = id`, where the `2^-49` terms vanish.) -/
theorem midi_tick_roundtrip_float_general (hR : Rounding R) (m : TickMap) (hw : WF m) (M : Int)
    (hM : maxScaleTick m ≤ M) (hM2 : M ≤ 2 ^ 53) (t : ℚ) (ht : 0 ≤ t) :
    0 ≤ timeToTick R m M t ∧
    |tickToTime R m (timeToTick R m M t) - t| ≤
      maxScale m / 2 * (1 + 1 / 2 ^ 49) + (t + lastScale m * (M : ℚ)) * (1 / 2 ^ 49) :=
  tick_roundtrip_R hR m hw M hM hM2 t ht

/-- Float grid times inside the array: the time of tick `k ≤ M` is written back to tick `k` IF AND ONLY IF it is
strictly above the time of tick `k - 1` (`searchsorted(side='left')` returns the first of equal entries; in floats
two ticks do get the same time once a tick is shorter than an ulp of the accumulated time — see the example). -/
theorem midi_tick_grid_fixed_float_inside (hR : Rounding R) (m : TickMap) (hw : WF m) (M k : Int) (hk : 0 ≤ k)
    (hkM : k ≤ M) :
    timeToTick R m M (tickToTime R m k) = k ↔ (k = 0 ∨ tickToTime R m (k - 1) < tickToTime R m k) :=
  grid_fixed_inside_R hR m hw M k hk hkM

/-- Float grid times beyond the array (ticks after the last tempo change, general map): the time of tick `k ≥ M` is
written back to tick `k` whenever it lies beyond the array's last entry at all and
`arr[k] + lastScale · k ≤ 2^47 · lastScale` (e.g. `k ≤ 2^46` and `arr[k] ≤ 2^46` final ticks). -/
theorem midi_tick_grid_fixed_float_beyond (hR : Rounding R) (m : TickMap) (hw : WF m) (M : Int)
    (hM : maxScaleTick m ≤ M) (k : Int) (hk : M ≤ k) (hstrict : tickToTime R m M < tickToTime R m k)
    (hbound : tickToTime R m k + lastScale m * (k : ℚ) ≤ 2 ^ 47 * lastScale m) :
    timeToTick R m M (tickToTime R m k) = k :=
  grid_fixed_beyond_R hR m hw M hM k hk hstrict hbound

/-- the strictness condition cannot be dropped (float64): 8192 ticks of `2^40` s reach `2^53` s; the next tick of
1/4 s is absorbed (`2^53 + 1/4` rounds to `2^53`), so tick 8193 has the time of tick 8192 and is written back to 8192 -/
example : tickToTime rne53 ⟨2 ^ 40, [(8192, 1 / 4)]⟩ 8193 = tickToTime rne53 ⟨2 ^ 40, [(8192, 1 / 4)]⟩ 8192 ∧
    timeToTick rne53 ⟨2 ^ 40, [(8192, 1 / 4)]⟩ 8200 (tickToTime rne53 ⟨2 ^ 40, [(8192, 1 / 4)]⟩ 8193) = 8192 := by
  constructor <;> decide +kernel

/-- non-vacuity (float64) of the general statements: 120 qpm, 240 qpm from tick 440, 90 qpm from tick 1000 at
resolution 220; a time beyond the array, a grid time inside and one beyond -/
example :
    timeToTick rne53 ⟨rne53 (60 / rne53 (220 * 120)), [(440, rne53 (60 / rne53 (220 * 240))),
      (1000, rne53 (60 / rne53 (220 * 90)))]⟩ 1000 (7 / 3) = 1230 ∧
    timeToTick rne53 ⟨rne53 (60 / rne53 (220 * 120)), [(440, rne53 (60 / rne53 (220 * 240))),
      (1000, rne53 (60 / rne53 (220 * 90)))]⟩ 1000
      (tickToTime rne53 ⟨rne53 (60 / rne53 (220 * 120)), [(440, rne53 (60 / rne53 (220 * 240))),
        (1000, rne53 (60 / rne53 (220 * 90)))]⟩ 777) = 777 ∧
    timeToTick rne53 ⟨rne53 (60 / rne53 (220 * 120)), [(440, rne53 (60 / rne53 (220 * 240))),
      (1000, rne53 (60 / rne53 (220 * 90)))]⟩ 1000
      (tickToTime rne53 ⟨rne53 (60 / rne53 (220 * 120)), [(440, rne53 (60 / rne53 (220 * 240))),
        (1000, rne53 (60 / rne53 (220 * 90)))]⟩ 4321) = 4321 := by
  refine ⟨?_, ?_, ?_⟩ <;> decide +kernel

/-! ## 3. the microsecond tempo `write` stores -/

/-- When every intermediate value is a float (`R`-fixed) the whole tempo chain is exact in floating point: for a
tempo of `n` µs per quarter whose qpm `6e7/n`, `res · qpm`, tick scale `n / (res · 10^6)` and seconds per quarter
`n / 10^6` are floats, the constructor computes exactly that tick scale, `write` stores exactly `n`, the loader
rebuilds the same scale and `get_tempo_changes` reports the same qpm.  (Each hypothesis is needed: see
`midi_tempo_truncated_witness` for tempos `6e7/n` that ARE floats and still lose a microsecond.) -/
theorem midi_tempo_exact_float (hR : Rounding R) (res n : Int) (hres : 0 < res) (hn : 0 < n) (hn2 : n ≤ 2 ^ 53)
    (h1 : R (60000000 / (n : ℚ)) = 60000000 / (n : ℚ))
    (h2 : R ((res : ℚ) * (60000000 / (n : ℚ))) = (res : ℚ) * (60000000 / (n : ℚ)))
    (h3 : R ((n : ℚ) / ((res : ℚ) * 1000000)) = (n : ℚ) / ((res : ℚ) * 1000000))
    (h4 : R ((n : ℚ) / 1000000) = (n : ℚ) / 1000000) :
    scaleOfQpm R res (60000000 / (n : ℚ)) = .ok ((n : ℚ) / ((res : ℚ) * 1000000)) ∧
    tempoMicros R res ((n : ℚ) / ((res : ℚ) * 1000000)) = n ∧
    scaleOfMicros R res n = (n : ℚ) / ((res : ℚ) * 1000000) ∧
    qpmOfScale R res ((n : ℚ) / ((res : ℚ) * 1000000)) = 60000000 / (n : ℚ) := by
  have hr : (0 : ℚ) < (res : ℚ) := by exact_mod_cast hres
  have hq : (0 : ℚ) < (n : ℚ) := by exact_mod_cast hn
  have hQ : (0 : ℚ) < 60000000 / (n : ℚ) := by positivity
  have e1 : (60 : ℚ) / ((res : ℚ) * (60000000 / (n : ℚ))) = (n : ℚ) / ((res : ℚ) * 1000000) := by
    field_simp; ring
  have e2 : (n : ℚ) / ((res : ℚ) * 1000000) * (res : ℚ) = (n : ℚ) / 1000000 := by field_simp
  have e3 : (60 : ℚ) / ((n : ℚ) / 1000000) = 60000000 / (n : ℚ) := by field_simp; ring
  have e4 : (60000000 : ℚ) / (60000000 / (n : ℚ)) = (n : ℚ) := by field_simp
  have hqs : qpmOfScale R res ((n : ℚ) / ((res : ℚ) * 1000000)) = 60000000 / (n : ℚ) := by
    unfold qpmOfScale
    rw [e2, h4, e3, h1]
  refine ⟨?_, ?_, ?_, hqs⟩
  · have := (scaleOfQpm_ok_R hR res hres _ hQ).1
    rw [h2, e1, h3] at this
    exact this
  · rw [tempoMicros_eq, hqs, e4, hR.exact_int_le (by norm_num) n (by omega)]
    exact truncR_eq_of_floor hq.le (le_refl _) (by linarith)
  · unfold scaleOfMicros
    rw [h1, mul_comm, h2, e1, h3]

/-- non-vacuity (float64): 64 qpm (937500 µs) at 480 ticks per quarter — tick scale `1/512` -/
example : tempoMicros rne53 480 ((937500 : Int) / ((480 : Int) * 1000000)) = 937500 :=
  (midi_tempo_exact_float rounding_rne53 480 937500 (by norm_num) (by norm_num) (by norm_num)
    (by decide +kernel) (by decide +kernel) (by decide +kernel) (by decide +kernel)).2.1

/-- The float tempo chain in general.  The sequence stores `qpm` within one rounding of `6e7 / n` for an integral
`1 ≤ n ≤ 2^24` µs per quarter (`qpm = R (6e7 / n)` — how a MIDI tempo becomes a qpm — or the exact quotient when that is
a float); `c` is the tick scale the writer computes; `f = R (60 / R (c · res))` is the qpm `get_tempo_changes` reports
and `g = R (6e7 / f)` the float that `write` truncates.  Then
* `write` stores `n` or `n - 1` — never anything else;
* it stores `n` exactly when `n ≤ g`, and `n - 1` exactly when `g < n` (the truncation `int(·)` of a float that
  six roundings have pushed just below the integer);
* sufficient in terms of the recovered qpm `f`: `f · n ≤ 6e7` gives `n`; `6e7 / f ≤ n - 2^-29` gives `n - 1`;
* `f` is within `2^-50` (relative) of `6e7 / n`. -/
theorem midi_tempo_quantisation_float (hR : Rounding R) (res n : Int) (hres : 0 < res) (hn : 1 ≤ n) (hn2 : n ≤ 2 ^ 24)
    (qpm c : ℚ) (hq : |qpm - 60000000 / (n : ℚ)| ≤ 60000000 / (n : ℚ) * (1 / 2 ^ 53))
    (hc : scaleOfQpm R res qpm = .ok c) :
    (tempoMicros R res c = n ∨ tempoMicros R res c = n - 1) ∧
    (tempoMicros R res c = n ↔ (n : ℚ) ≤ R (60000000 / qpmOfScale R res c)) ∧
    (tempoMicros R res c = n - 1 ↔ R (60000000 / qpmOfScale R res c) < (n : ℚ)) ∧
    (qpmOfScale R res c * (n : ℚ) ≤ 60000000 → tempoMicros R res c = n) ∧
    (60000000 / qpmOfScale R res c ≤ (n : ℚ) - 1 / 2 ^ 29 → tempoMicros R res c = n - 1) ∧
    |qpmOfScale R res c - 60000000 / (n : ℚ)| ≤ 60000000 / (n : ℚ) * (1 / 2 ^ 50) := by
  have hp : 1 ≤ 53 := by norm_num
  have hnq : (0 : ℚ) < (n : ℚ) := by exact_mod_cast (by omega : 0 < n)
  have hQ : (0 : ℚ) < 60000000 / (n : ℚ) := by positivity
  have hnear := near_of_abs hQ hq
  have hqpos : 0 < qpm := hnear.pos hp hQ
  have hc' := (scaleOfQpm_ok_R hR res hres qpm hqpos).1
  rw [hc] at hc'
  cases hc'
  obtain ⟨nf, ng⟩ := tempo_chain_near hR res hres qpm _ hQ hnear
  rw [show (60000000 : ℚ) / (60000000 / (n : ℚ)) = (n : ℚ) by field_simp] at ng
  obtain ⟨t1, t2⟩ := trunc_near_int hn (by omega) ng
  rw [← tempoMicros_eq] at t1 t2
  set f := qpmOfScale R res (R (60 / R ((res : ℚ) * qpm))) with hf
  set g := R (60000000 / f) with hg
  have hfpos : 0 < f := nf.pos hp hQ
  have hnfix : R (n : ℚ) = (n : ℚ) := hR.exact_int_le hp n (by omega)
  refine ⟨?_, ⟨?_, t1⟩, ⟨?_, t2⟩, ?_, ?_, ?_⟩
  · rcases le_or_gt (n : ℚ) g with h | h
    · exact Or.inl (t1 h)
    · exact Or.inr (t2 h)
  · intro h
    by_contra hlt
    have := t2 (not_le.mp hlt)
    omega
  · intro h
    by_contra hge
    have := t1 (not_lt.mp hge)
    omega
  · intro h
    apply t1
    have : (n : ℚ) ≤ 60000000 / f := by rw [le_div_iff₀ hfpos]; linarith
    have := hR.mono _ _ this
    rwa [hnfix] at this
  · intro h
    apply t2
    have hfix : R ((n : ℚ) - 1 / 2 ^ 29) = (n : ℚ) - 1 / 2 ^ 29 := by
      have := hR.exact_dyadic hp (n * 2 ^ 29 - 1) (by omega) (-29)
      have e : (((n * 2 ^ 29 - 1 : Int) : ℚ)) * 2 ^ (-29 : Int) = (n : ℚ) - 1 / 2 ^ 29 := by
        push_cast; ring
      rwa [e] at this
    have := hR.mono _ _ h
    rw [hfix] at this
    have : (0 : ℚ) < 1 / 2 ^ 29 := by positivity
    linarith
  · exact nf.abs_le hQ (by norm_num) (by norm_num) (by norm_num)

/-- The loss happens (float64, kernel-evaluated): at 960 ticks per quarter the tempo of 250001 µs per quarter
(`qpm = 6e7/250001` rounded, the replay of F-C03-3) is stored as 250000 µs; and even tempos whose qpm IS a float lose a
microsecond at some resolutions: 120 qpm (500000 µs) at 49 ticks per quarter is stored as 499999 µs, 64 qpm
(937500 µs) at the common resolution 220 as 937499 µs — while 120 qpm at 220 / 480 / 960 is stored exactly. -/
theorem midi_tempo_truncated_witness :
    tempoMicros rne53 960 (rne53 (60 / rne53 (960 * rne53 (60000000 / 250001)))) = 250000 ∧
    tempoMicros rne53 49 (rne53 (60 / rne53 (49 * 120))) = 499999 ∧
    tempoMicros rne53 220 (rne53 (60 / rne53 (220 * 64))) = 937499 ∧
    tempoMicros rne53 220 (rne53 (60 / rne53 (220 * 120))) = 500000 ∧
    tempoMicros rne53 480 (rne53 (60 / rne53 (480 * 120))) = 500000 ∧
    tempoMicros rne53 960 (rne53 (60 / rne53 (960 * 120))) = 500000 := by
  refine ⟨?_, ?_, ?_, ?_, ?_, ?_⟩ <;> decide +kernel

/-- non-vacuity of `midi_tempo_quantisation_float`, and its criterion at work on the replay of F-C03-3: the float that
is truncated lies below 250001 -/
example : scaleOfQpm rne53 960 (rne53 (60000000 / 250001)) = .ok (rne53 (60 / rne53 (960 * rne53 (60000000 / 250001)))) ∧
    rne53 (60000000 / qpmOfScale rne53 960 (rne53 (60 / rne53 (960 * rne53 (60000000 / 250001))))) < 250001 := by
  constructor <;> decide +kernel

/-! ## 4. what a truncated tempo does to every later time (exact arithmetic) -/

/-- Exact arithmetic.  If the reader's tick map is the writer's with every tick scale multiplied by `ρ` (all tempos too
fast by the same factor), a time `t ≥ 0` comes back as `ρ · t` up to half a (longest, rescaled) tick. -/
theorem midi_drift_of_scaled_map (m : TickMap) (hw : WF m) (M : Int) (hM : maxScaleTick m ≤ M) (ρ : ℚ) (hρ : 0 ≤ ρ)
    (t : ℚ) (ht : 0 ≤ t) :
    |tickToTime id (scaleMap ρ m) (timeToTick id m M t) - ρ * t| ≤ ρ * (maxScale m / 2) := by
  rw [tickToTime_scaleMap, ← mul_sub, abs_mul, abs_of_nonneg hρ]
  exact mul_le_mul_of_nonneg_left (near_bound m hw (timeToTick_near m hw M hM t) ht) hρ

/-- Exact arithmetic: the drift behind F-C03-3.  A single tempo of `n > 1` µs per quarter; the writer's ticks have
length `c = n / (res · 10^6)`; `write` stores `n - 1` µs (as `midi_tempo_quantisation_float` says it may), so the
loader's ticks have length `c' = c · (n-1)/n`.  Then a time `t ≥ 0` is read back as `t · (n-1)/n` up to half a reader
tick: it comes back EARLY by `t/n` up to half a tick, which is more than one whole tick as soon as
`t ≥ 3/2 · n · c` seconds (`= 3/2 · n² / (res · 10^6)`). -/
theorem midi_drift_of_truncated_tempo (res n : Int) (hres : 0 < res) (hn : 1 < n) (c : ℚ)
    (hc : scaleOfQpm id res (60000000 / (n : ℚ)) = .ok c) (M : Int) (hM : 0 ≤ M) (t : ℚ) (ht : 0 ≤ t) :
    c = (n : ℚ) / ((res : ℚ) * 1000000) ∧
    scaleOfMicros id res (n - 1) = c * (((n : ℚ) - 1) / (n : ℚ)) ∧
    |tickToTime id ⟨scaleOfMicros id res (n - 1), []⟩ (timeToTick id ⟨c, []⟩ M t) - t * (((n : ℚ) - 1) / (n : ℚ))|
      ≤ scaleOfMicros id res (n - 1) / 2 ∧
    t / (n : ℚ) - c / 2 < t - tickToTime id ⟨scaleOfMicros id res (n - 1), []⟩ (timeToTick id ⟨c, []⟩ M t) ∧
    (3 / 2 * (n : ℚ) * c ≤ t →
      c < t - tickToTime id ⟨scaleOfMicros id res (n - 1), []⟩ (timeToTick id ⟨c, []⟩ M t)) := by
  have hr : (0 : ℚ) < (res : ℚ) := by exact_mod_cast hres
  have hnq : (1 : ℚ) < (n : ℚ) := by exact_mod_cast hn
  have hn0 : (0 : ℚ) < (n : ℚ) := by linarith
  have hn1 : (0 : ℚ) < (n : ℚ) - 1 := by linarith
  have hd : (0 : ℚ) < (res : ℚ) * (60000000 / (n : ℚ)) := by positivity
  have hcv : c = (n : ℚ) / ((res : ℚ) * 1000000) := by
    unfold scaleOfQpm at hc
    simp only [id] at hc
    rw [if_neg (ne_of_gt hd), if_neg (not_lt.mpr (le_of_lt hd))] at hc
    cases hc
    field_simp; norm_num
  have hcpos : 0 < c := by rw [hcv]; positivity
  have hs : scaleOfMicros id res (n - 1) = c * (((n : ℚ) - 1) / (n : ℚ)) := by
    unfold scaleOfMicros
    simp only [id]
    rw [hcv]
    push_cast
    field_simp
    norm_num
  set ρ := ((n : ℚ) - 1) / (n : ℚ) with hρ
  have hρ0 : 0 < ρ := by rw [hρ]; positivity
  have hρ1 : ρ < 1 := by rw [hρ, div_lt_one hn0]; linarith
  have hmap : (⟨scaleOfMicros id res (n - 1), []⟩ : TickMap) = scaleMap ρ ⟨c, []⟩ := by
    rw [hs]; simp [scaleMap, mul_comm]
  have hb := midi_drift_of_scaled_map ⟨c, []⟩ (wf_single hcpos) M (by simpa [maxScaleTick, maxTickOf] using hM) ρ hρ0.le t ht
  rw [← hmap] at hb
  have hmax : maxScale ⟨c, []⟩ = c := rfl
  rw [hmax] at hb
  have hb' : |tickToTime id ⟨scaleOfMicros id res (n - 1), []⟩ (timeToTick id ⟨c, []⟩ M t) - t * ρ|
      ≤ scaleOfMicros id res (n - 1) / 2 := by
    rw [mul_comm t ρ]
    calc _ ≤ ρ * (c / 2) := hb
      _ = scaleOfMicros id res (n - 1) / 2 := by rw [hs]; ring
  refine ⟨hcv, hs, hb', ?_, ?_⟩
  · rw [abs_le] at hb'
    have e : t * ρ = t - t / (n : ℚ) := by rw [hρ]; field_simp
    have : scaleOfMicros id res (n - 1) < c := by rw [hs]; nlinarith
    linarith [hb'.2]
  · intro h
    rw [abs_le] at hb'
    have e : t * ρ = t - t / (n : ℚ) := by rw [hρ]; field_simp
    have : scaleOfMicros id res (n - 1) < c := by rw [hs]; nlinarith
    have h3 : 3 / 2 * c ≤ t / (n : ℚ) := by
      rw [le_div_iff₀ hn0]; linarith
    linarith [hb'.2]

/-- non-vacuity, the replay of F-C03-3 in exact arithmetic: 250001 µs per quarter at 960 ticks per quarter, read back
with 250000 µs: the note at 200 s (tick 767997) comes back exactly 3 reader ticks (2.99999 writer ticks) early; the
threshold `3/2 · n · c` is below 98 s -/
example : scaleOfQpm id 960 (60000000 / ((250001 : Int) : ℚ)) = .ok (250001 / 960000000) ∧
    timeToTick id ⟨250001 / 960000000, []⟩ 0 200 = 767997 ∧
    200 - tickToTime id ⟨scaleOfMicros id 960 (250001 - 1), []⟩ (timeToTick id ⟨250001 / 960000000, []⟩ 0 200) =
      3 * scaleOfMicros id 960 250000 ∧
    (3 / 2 * ((250001 : Int) : ℚ) * (250001 / 960000000) : ℚ) < 98 := by
  refine ⟨by decide +kernel, by decide +kernel, by decide +kernel, by norm_num⟩

/-- the same replay end to end in float64 (writer's scale from `R (6e7/250001)`, 250000 µs stored, loader's scale from
250000): the time read back for 200 s lies 3 writer ticks before 200 s -/
example :
    timeToTick rne53 ⟨rne53 (60 / rne53 (960 * rne53 (60000000 / 250001))), []⟩ 0 200 = 767997 ∧
    timeToTick rne53 ⟨rne53 (60 / rne53 (960 * rne53 (60000000 / 250001))), []⟩ 0
      (tickToTime rne53 ⟨scaleOfMicros rne53 960 250000, []⟩ 767997) = 767994 := by
  constructor <;> decide +kernel

end NSV.C03
