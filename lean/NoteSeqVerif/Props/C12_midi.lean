import NoteSeqVerif.Proofs.C12
import NoteSeqVerif.Proofs.C12CMidi
import NoteSeqVerif.Props.C03
/-! C12 — MIDI export (`note_sequence_to_pretty_midi` = `C03.writePM`) does not depend on the storage order of
any repeated field.

For two storage orders of one NoteSequence whose tempos have pairwise distinct times the writer raises the same
exception or builds PrettyMIDI objects that are equal up to the order of the notes / pitch bends / control changes
inside each instrument and of the time-signature / key-signature lists (`PMPerm`): the same resolution, the
IDENTICAL `_tick_scales` list (`midi_tempo_map_order_independent` of C03), the same instruments in the same order
with the same program and drum flag — for every rounding `R` and every value of
`drop_events_n_seconds_after_last_note` (the cut-off is `max` over the note ends, a function of the multiset).

Only the tempo tie condition is needed: time and key signatures are appended in storage order and never compared
with each other, so ties among them only permute the written lists.  (The model's `PMInst` has no name field:
`Instrument.name` is not set by the writer.)  Two tempos at one time make the result depend on their order
(`midi_tempo_tie_depends_on_order`). -/
namespace NSV.C12
open NSV NSV.C03

/-- the tie condition of MIDI export: no two tempos share a time -/
def MidiTieFree (s : NoteSeq) : Prop := DistinctTimes s.tempos

instance (l : List Tempo) : Decidable (DistinctTimes l) := by
  unfold DistinctTimes; infer_instance

instance (s : NoteSeq) : Decidable (MidiTieFree s) := by
  unfold MidiTieFree; infer_instance

/-- the tie condition does not depend on the storage order -/
theorem MidiTieFree.perm {s s' : NoteSeq} (h : NSPerm s s') (ht : MidiTieFree s) : MidiTieFree s' :=
  DistinctTimes.perm h.tempos ht

/-- **MIDI export does not depend on storage order** (any rounding, with or without
`drop_events_n_seconds_after_last_note`): same exception, or PrettyMIDI objects equal up to the order inside the
instruments and inside the time / key signature lists, with identical tick scales and the same instrument order. -/
theorem midi_export_perm (R : Rat → Rat) (drop : Option Rat) {s s' : NoteSeq} (h : NSPerm s s')
    (ht : MidiTieFree s) : PMResPerm (writePM R s drop) (writePM R s' drop) := by
  have hmet : maxEventTime R s' drop = maxEventTime R s drop := (maxEventTime_perm R h drop).symm
  have hinit : initialTempo s'.tempos = initialTempo s.tempos := (initialTempo_perm h.tempos ht).symm
  have hq : initialQpm s'.tempos = initialQpm s.tempos := by unfold initialQpm; rw [hinit]
  -- the tick scales: C03's theorem
  have hscales := fun res => (midi_tempo_map_order_independent R res (maxEventTime R s drop) s.tempos s'.tempos
    h.tempos ht).1
  have hts := writeTimeSigs_perm (maxEventTime R s drop) h.timeSigs
  have hks := writeKeySigs_perm (maxEventTime R s drop) h.keySigs
  have hgk := groupKeys_perm (maxEventTime R s drop) h
  have hil := instLoop_perm (mkInst (maxEventTime R s drop) s) (mkInst (maxEventTime R s drop) s')
    (mkInst_perm (maxEventTime R s drop) h) (groupKeys (maxEventTime R s drop) s) false placeholder placeholder [] []
    (PMInstPerm.refl _) trivial
  have hany := any_reversed_perm h.notes
  unfold writePM
  simp only []
  rw [hmet, hq, hinit, ← h.tpq, ← hgk, ← hany]
  generalize hres : (if s.tpq ≠ 0 then s.tpq else Gen.STANDARD_PPQ) = res
  have hsc := hscales res
  unfold tempoScales at hsc
  rw [hq, hinit] at hsc
  cases hc0 : scaleOfQpm R res (initialQpm s.tempos) with
  | error e => exact rfl
  | ok c0 =>
    rw [hc0] at hsc
    simp only [] at hsc ⊢
    rw [← hsc]
    cases h1 : writeTimeSigs (maxEventTime R s drop) s.timeSigs with
    | error e =>
      cases h1' : writeTimeSigs (maxEventTime R s drop) s'.timeSigs with
      | error e' => rw [h1, h1'] at hts; exact hts
      | ok b => rw [h1, h1'] at hts; exact hts.elim
    | ok a =>
      cases h1' : writeTimeSigs (maxEventTime R s drop) s'.timeSigs with
      | error e' => rw [h1, h1'] at hts; exact hts.elim
      | ok b =>
        rw [h1, h1'] at hts
        simp only []
        cases h2 : writeKeySigs (maxEventTime R s drop) s.keySigs with
        | error e =>
          cases h2' : writeKeySigs (maxEventTime R s drop) s'.keySigs with
          | error e' => rw [h2, h2'] at hks; exact hks
          | ok d => rw [h2, h2'] at hks; exact hks.elim
        | ok c =>
          cases h2' : writeKeySigs (maxEventTime R s drop) s'.keySigs with
          | error e' => rw [h2, h2'] at hks; exact hks.elim
          | ok d =>
            rw [h2, h2'] at hks
            simp only []
            cases tempoFold R res (initialTempo s.tempos) (maxEventTime R s drop) ⟨c0, []⟩ (tempoOrder s.tempos) with
            | error e => exact rfl
            | ok map =>
              simp only []
              split
              · exact rfl
              · cases h3 : instLoop (mkInst (maxEventTime R s drop) s) false placeholder []
                    (groupKeys (maxEventTime R s drop) s) with
                | error e =>
                  cases h3' : instLoop (mkInst (maxEventTime R s drop) s') false placeholder []
                      (groupKeys (maxEventTime R s drop) s) with
                  | error e' => rw [h3, h3'] at hil; exact hil
                  | ok y => rw [h3, h3'] at hil; exact hil.elim
                | ok x =>
                  cases h3' : instLoop (mkInst (maxEventTime R s drop) s') false placeholder []
                      (groupKeys (maxEventTime R s drop) s) with
                  | error e' => rw [h3, h3'] at hil; exact hil.elim
                  | ok y =>
                    rw [h3, h3'] at hil
                    exact ⟨rfl, rfl, hts, hks, hil⟩

/-- reading of `PMPerm` on the instrument lists: equally many instruments, and the instruments at each position
have the same program and drum flag and the same notes, bends and control changes up to order -/
theorem midi_export_perm_instruments {a b : PM} (h : PMPerm a b) :
    a.insts.length = b.insts.length ∧
    ∀ (i : Nat) (x y : PMInst), a.insts[i]? = some x → b.insts[i]? = some y →
      x.program = y.program ∧ x.isDrum = y.isDrum ∧ x.notes.Perm y.notes ∧ x.bends.Perm y.bends ∧ x.ccs.Perm y.ccs :=
  ⟨h.insts.length_eq, fun i x y hx hy =>
    let p := h.insts.get i x y hx hy
    ⟨p.program, p.isDrum, p.notes, p.bends, p.ccs⟩⟩

/-- the cut-off of `drop_events_n_seconds_after_last_note` does not depend on the storage order -/
theorem midi_cutoff_perm (R : Rat → Rat) {s s' : NoteSeq} (h : NSPerm s s') (drop : Option Rat) :
    maxEventTime R s drop = maxEventTime R s' drop := maxEventTime_perm R h drop

/-! ## the hypothesis cannot be dropped; non-vacuity -/

def scalesOf (r : Except WErr PM) : List (Int × Rat) :=
  match r with | .ok pm => (0, pm.map.c0) :: pm.map.rest | .error _ => []

theorem tempoOrder_of_sorted {l : List Tempo} (h : l.Pairwise (fun a b => decide (a.time ≤ b.time) = true)) :
    tempoOrder l = l := by
  simp only [tempoOrder, Gen.TEMPO_LOOP_SORTED, if_true, sortByRat]
  exact List.mergeSort_of_pairwise h

theorem tempoOrder_eq_of_perm {l S : List Tempo} (hp : l.Perm S) (hd : DistinctTimes l)
    (hs : S.Pairwise (fun a b => decide (a.time ≤ b.time) = true)) : tempoOrder l = S := by
  rw [← tempoOrder_of_sorted hs]
  simp only [tempoOrder, Gen.TEMPO_LOOP_SORTED, if_true]
  exact sortByRat_time_perm hp hd

/-- Two tempos at ONE time (1 s): the stable sort keeps their storage order, both are written at one tick and the
later one is in force afterwards — the tick scales depend on the storage order, so the tempo hypothesis cannot be
dropped. -/
theorem midi_tempo_tie_depends_on_order :
    scalesOf (writePM id { tempos := [⟨0, 120⟩, ⟨1, 60⟩, ⟨1, 240⟩], tpq := 220 } none) ≠
      scalesOf (writePM id { tempos := [⟨0, 120⟩, ⟨1, 240⟩, ⟨1, 60⟩], tpq := 220 } none) ∧
    ¬ MidiTieFree { tempos := [⟨0, 120⟩, ⟨1, 60⟩, ⟨1, 240⟩], tpq := 220 } := by
  have e1 : tempoOrder [⟨0, 120⟩, ⟨1, 60⟩, ⟨1, 240⟩] = [⟨0, 120⟩, ⟨1, 60⟩, ⟨1, 240⟩] :=
    tempoOrder_of_sorted (by decide +kernel)
  have e2 : tempoOrder [⟨0, 120⟩, ⟨1, 240⟩, ⟨1, 60⟩] = [⟨0, 120⟩, ⟨1, 240⟩, ⟨1, 60⟩] :=
    tempoOrder_of_sorted (by decide +kernel)
  refine ⟨?_, by decide +kernel⟩
  unfold writePM
  simp only []
  rw [e1, e2]
  decide +kernel

def exSeq : NoteSeq :=
  { notes := [{ (default : Note) with pitch := 60, velocity := 100, start := 0, end_ := 1, program := 5 },
              { (default : Note) with pitch := 64, velocity := 90, start := 1, end_ := 2, program := 5 },
              { (default : Note) with pitch := 36, velocity := 80, start := 0, end_ := 3, instrument := 1, isDrum := true }],
    tempos := [⟨2, 90⟩, ⟨0, 120⟩, ⟨1, 60⟩], timeSigs := [⟨0, 4, 4⟩, ⟨0, 3, 4⟩], keySigs := [⟨0, 9, 1⟩, ⟨2, 0, 0⟩],
    ccs := [{ (default : CC) with time := 1 / 2, number := 64, value := 127, program := 5 },
            { (default : CC) with time := 5, number := 64, value := 0, program := 5 }],
    bends := [{ (default : Bend) with time := 1, bend := 100, program := 5 }], tpq := 220 }

def exSeq' : NoteSeq :=
  { exSeq with notes := exSeq.notes.reverse, tempos := exSeq.tempos.reverse, timeSigs := exSeq.timeSigs.reverse,
               keySigs := exSeq.keySigs.reverse, ccs := exSeq.ccs.reverse }

def instShape (r : Except WErr PM) : List (Int × Bool × Nat × Nat × Nat) :=
  match r with
  | .ok pm => pm.insts.map (fun i => (i.program, i.isDrum, i.notes.length, i.bends.length, i.ccs.length))
  | .error _ => []

/-- non-vacuity of `midi_export_perm`: a sequence with unsorted tempos, two time signatures at ONE time, two
groups, a control change after the last note (dropped by the option) and its reversal satisfy the hypotheses; the
writer returns an object with two instruments, and with the option the late control change is gone -/
example : NSPerm exSeq exSeq' ∧ MidiTieFree exSeq ∧
    instShape (writePM id exSeq none) = [(5, false, 2, 1, 2), (0, true, 1, 0, 0)] ∧
    instShape (writePM id exSeq' (some 1)) = [(5, false, 2, 1, 1), (0, true, 1, 0, 0)] ∧
    scalesOf (writePM id exSeq none) = scalesOf (writePM id exSeq' none) := by
  have e1 : tempoOrder exSeq.tempos = [⟨0, 120⟩, ⟨1, 60⟩, ⟨2, 90⟩] :=
    tempoOrder_eq_of_perm (by decide +kernel) (by decide +kernel) (by decide +kernel)
  have e2 : tempoOrder exSeq'.tempos = [⟨0, 120⟩, ⟨1, 60⟩, ⟨2, 90⟩] :=
    tempoOrder_eq_of_perm (by decide +kernel) (by decide +kernel) (by decide +kernel)
  refine ⟨?_, by decide +kernel, ?_, ?_, ?_⟩
  · refine ⟨List.reverse_perm _ |>.symm, List.reverse_perm _ |>.symm, List.reverse_perm _ |>.symm,
      List.reverse_perm _ |>.symm, .refl _, List.reverse_perm _ |>.symm, .refl _, .refl _,
      rfl, rfl, rfl, rfl, rfl, rfl, rfl, rfl, rfl, rfl⟩
  · unfold writePM; simp only []; rw [e1]; decide +kernel
  · unfold writePM; simp only []; rw [e2]; decide +kernel
  · unfold writePM; simp only []; rw [e1, e2]; decide +kernel

end NSV.C12
