import Mathlib.Tactic.Linarith
import Mathlib.Data.Rat.Floor
import NoteSeqVerif.Props.C18B
/-! C18 — property theorems, third file: the clauses the independent oracle judges since round 4.

* `keepR_reported`: the decoder's keep / drop decision IS the binary64 duration of the note it reports,
  `(end_time - start_time) * 1000 >= min_duration_ms`, evaluated on the reported times.
* `min_frame_occupancy_for_label` (exact arithmetic, `R = id`): which first / last frame a note gets —
  `occ_first_frame`, `occ_last_frame_adjacent` (the documented meaning: labelled iff the covered share reaches the
  threshold) and `occ_last_frame_far` (for longer notes the last frame is NEVER removed: the code measures
  `end_frames - start_frame - 1`, which exceeds 1 there — differs from the documented meaning), and the closed form
  `occ_three_frames` of the scenario "starts late in frame a, fills frame a+1, ends inside frame a+2". -/
namespace NSV.C18

theorem rat_ceil_eq (y : Rat) : y.ceil = ⌈y⌉ := by
  rw [Rat.ceil_eq_neg_floor_neg]; rfl

/-- **keepR_reported** (every `R`): a run `[s, e)` is kept iff `min_duration_ms ≤ R (R (end − start) · 1000)` where
`start`, `end` are the times of the note the decoder reports for that run (`emitNote`). -/
theorem keepR_reported (R : Rat → Rat) (fls minDur : Rat) (mp : Int) (em : Emit) :
    keepR R fls minDur em.s em.e = true ↔
      minDur ≤ R (R ((emitNote R fls mp em).end_ - (emitNote R fls mp em).start) * 1000) := by
  simp [keepR, emitNote]

/-- `frames_from_times` in exact arithmetic, as one expression of the two frame positions -/
theorem framesFromTimes_id (eps fps occ s e : Rat) :
    framesFromTimes id eps fps occ s e =
      (let xs := timeToFrames id eps fps s
       let xe := timeToFrames id eps fps e
       let sf := if 0 < occ ∧ ((truncR xs + 1 : Int) : Rat) - xs < occ then truncR xs + 1 else truncR xs
       (sf, max (sf + 1) (if 0 < occ ∧ xe - (sf : Rat) - 1 < occ then xe.ceil - 1 else xe.ceil))) := by
  rfl

/-- **occ_first_frame** (`R = id`, threshold `> 0`, start position `≥ 0`): the first labelled frame is
`⌊xs⌋` iff the share `⌊xs⌋ + 1 − xs` of that frame after the start reaches the threshold, else `⌊xs⌋ + 1`. -/
theorem occ_first_frame (eps fps occ s e : Rat) (hocc : 0 < occ) (hs0 : 0 ≤ timeToFrames id eps fps s) :
    (framesFromTimes id eps fps occ s e).1 =
      if ((⌊timeToFrames id eps fps s⌋ : Int) : Rat) + 1 - timeToFrames id eps fps s < occ
      then ⌊timeToFrames id eps fps s⌋ + 1 else ⌊timeToFrames id eps fps s⌋ := by
  rw [framesFromTimes_id]
  have ht : truncR (timeToFrames id eps fps s) = ⌊timeToFrames id eps fps s⌋ := by
    unfold truncR; rw [if_pos hs0]; rfl
  simp only [ht, hocc, true_and]
  push_cast
  rfl

/-- **occ_last_frame_adjacent** (`R = id`, threshold `> 0`): when the note's last frame `⌈xe⌉ − 1` is the frame right
after its first labelled frame `sf`, that last frame is labelled iff the share `xe − (sf + 1)` of it the note covers
reaches the threshold. -/
theorem occ_last_frame_adjacent (eps fps occ s e : Rat) (hocc : 0 < occ) (sf : Int)
    (hsf : (framesFromTimes id eps fps occ s e).1 = sf)
    (hadj : ⌈timeToFrames id eps fps e⌉ = sf + 2) :
    (framesFromTimes id eps fps occ s e).2 =
      if timeToFrames id eps fps e - ((sf : Rat) + 1) < occ then sf + 1 else sf + 2 := by
  rw [framesFromTimes_id] at hsf ⊢
  simp only at hsf ⊢
  rw [hsf, rat_ceil_eq, hadj]
  simp only [hocc, true_and]
  have : timeToFrames id eps fps e - (sf : Rat) - 1 = timeToFrames id eps fps e - ((sf : Rat) + 1) := by ring
  rw [this]
  split <;> omega

/-- **occ_last_frame_far** (`R = id`, threshold in `(0, 1]`): when the last frame lies further than one frame after the
first labelled frame, it is labelled whatever share of it the note covers (`end_frames − start_frame − 1 > 1`). -/
theorem occ_last_frame_far (eps fps occ s e : Rat) (hocc1 : occ ≤ 1) (sf : Int)
    (hsf : (framesFromTimes id eps fps occ s e).1 = sf)
    (hfar : sf + 2 < ⌈timeToFrames id eps fps e⌉) :
    (framesFromTimes id eps fps occ s e).2 = ⌈timeToFrames id eps fps e⌉ := by
  rw [framesFromTimes_id] at hsf ⊢
  simp only at hsf ⊢
  rw [hsf, rat_ceil_eq]
  have hx : ((sf + 2 : Int) : Rat) < timeToFrames id eps fps e := Int.lt_ceil.mp hfar
  push_cast at hx
  have hn : ¬ (0 < occ ∧ timeToFrames id eps fps e - (sf : Rat) - 1 < occ) := by
    rintro ⟨_, h⟩; linarith
  rw [if_neg hn]
  omega

/-- **occ_three_frames** (`R = id`): a note that starts at the share `fs` of frame `a` with less than the threshold
left of it (`1 − fs < occ`), fills frame `a + 1` and ends at the share `fe ∈ (0, 1)` of frame `a + 2` is labelled in
frame `a + 1`, and in frame `a + 2` iff `fe ≥ occ`; frame `a` is not labelled. -/
theorem occ_three_frames (eps fps occ s e : Rat) (a : Nat) (fs fe : Rat) (hocc : 0 < occ)
    (hfs0 : 0 ≤ fs) (hfs1 : fs < 1) (hskip : 1 - fs < occ) (hfe0 : 0 < fe) (hfe1 : fe < 1)
    (hs : timeToFrames id eps fps s = (a : Rat) + fs) (he : timeToFrames id eps fps e = (a : Rat) + 2 + fe) :
    framesFromTimes id eps fps occ s e = ((a : Int) + 1, if fe < occ then (a : Int) + 2 else (a : Int) + 3) := by
  have hfl : ⌊timeToFrames id eps fps s⌋ = (a : Int) := by
    rw [hs]; exact Int.floor_eq_iff.mpr ⟨by push_cast; linarith, by push_cast; linarith⟩
  have ha0 : (0 : Rat) ≤ (a : Rat) := by exact_mod_cast Nat.zero_le a
  have hs0 : 0 ≤ timeToFrames id eps fps s := by rw [hs]; linarith
  have h1 : (framesFromTimes id eps fps occ s e).1 = (a : Int) + 1 := by
    rw [occ_first_frame eps fps occ s e hocc hs0, hfl, hs]
    have : (((a : Int) : Rat)) + 1 - ((a : Rat) + fs) < occ := by push_cast; linarith
    rw [if_pos this]
  have hce : ⌈timeToFrames id eps fps e⌉ = (a : Int) + 1 + 2 := by
    rw [he]; exact Int.ceil_eq_iff.mpr ⟨by push_cast; linarith, by push_cast; linarith⟩
  have h2 := occ_last_frame_adjacent eps fps occ s e hocc _ h1 hce
  rw [he] at h2
  have hcond : ((a : Rat) + 2 + fe - ((((a : Int) + 1 : Int) : Rat) + 1) < occ) ↔ fe < occ := by
    push_cast; constructor <;> intro h <;> linarith
  ext
  · exact h1
  · rw [h2]
    by_cases hf : fe < occ
    · rw [if_pos (hcond.mpr hf), if_pos hf]; show (a : Int) + 1 + 1 = (a : Int) + 2; omega
    · rw [if_neg (fun h => hf (hcond.mp h)), if_neg hf]; show (a : Int) + 1 + 2 = (a : Int) + 3; omega

/-! ## non-vacuity (kernel-evaluated instances) -/

-- keepR_reported: the 35-frame run [1, 36) at 100 fps is reported as 0.01 .. 0.36 (binary64), whose duration
-- evaluates to exactly 350.0 ms: kept with min_duration_ms = 350, although 36·0.01 − 1·0.01 ≥ 350·10⁻³ fails in binary64
example : keepR rne53 (rne53 (1 / 100)) 350 1 36 = true ∧
    decide (rne53 (350 * rne53 (1 / 1000)) ≤
      rne53 (rne53 ((36 : Rat) * rne53 (1 / 100)) - rne53 ((1 : Rat) * rne53 (1 / 100)))) = false := by
  decide +kernel
-- occ_three_frames at 16 fps, threshold 1/2: the note 6.75/16 .. 8.25/16 s gets frame 7 only, 6.75/16 .. 8.625/16 s
-- frames 7 and 8 (the two corpus cases of seed C18-12)
example : framesFromTimes id Gen.SNAP_EPS 16 (1 / 2) (27 / 64) (33 / 64) = (7, 8) ∧
    framesFromTimes id Gen.SNAP_EPS 16 (1 / 2) (27 / 64) (69 / 128) = (7, 9) := by decide +kernel
-- occ_last_frame_far: 6.0/16 .. 8.125/16 s keeps frame 8 although only 1/8 of it is covered (threshold 1/2)
example : framesFromTimes id Gen.SNAP_EPS 16 (1 / 2) (6 / 16) (65 / 128) = (6, 9) := by decide +kernel

end NSV.C18
