import NoteSeqVerif.Proofs.C20_pcm
/-! C20 — chunk 15/16 of the exhaustive int16 round-trip check: the 4096 values
28672 … 32767, decided by kernel evaluation of the model (`rne24` on exact rationals). -/
namespace NSV.C20
set_option maxRecDepth 100000 in
theorem pcm_chunk15 : pcmOkRange (28672) 4096 = true := by decide +kernel
end NSV.C20
