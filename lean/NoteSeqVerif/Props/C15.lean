import NoteSeqVerif.Proofs.C15
/-! C15 — property theorems: a chord symbol computed from pitches denotes exactly those pitches.

All statements are about the executable model `Model/C15.lean` over the tables regenerated from
`/repo/note_seq/chord_symbols_lib.py` (`Generated/C15.lean`).  The iteration order of the Python
sets the namer walks through is a *parameter* (`Orders`); every theorem about
`pitchesToChordSymbol` holds for every order that enumerates the right sets (`OrdersOk`), so
nothing depends on CPython's hash-table layout or on which of several equally large kinds is
met first. -/
namespace NSV.C15
open Gen

/-! ## the tables agree with each other -/

/-- namer's table vs reader's table, over every entry:
* `_SCALE_DEGREES` has 12 rows and every name in row `p` is read back (via `_DEGREE_OFFSETS` and
  the alteration) as relative pitch `p`;
* the modification the namer writes for a name the kind lacks is a known prefix whose reader
  function inserts exactly that name's alteration (the added seventh is one higher);
* every chord kind has pairwise distinct degree numbers, and its first abbreviation looks up its
  own degree list in `_CHORD_KINDS_BY_ABBREV`;
* relative pitch 0 has the single name `'1'` and the table contains the pedal point `['1']`;
* the spelling the namer uses for pitch class `r` (`_transpose_pitch_class('C', 0, r)`) is read
  back as `r`. -/
theorem degree_tables_agree :
    SCALE_DEGREES.length = 12 ∧
    (∀ p ∈ List.range 12, ∀ d ∈ (SCALE_DEGREES[p]?).getD [], namePitch d = some p) ∧
    (∀ row ∈ SCALE_DEGREES, ∀ d ∈ row, EmitOk d) ∧
    (∀ k ∈ CHORD_KINDS, (k.degrees.map (·.num)).Nodup ∧ KIND_DEGREES[k.abbrev0]? = some k.degrees) ∧
    SCALE_DEGREES[0]? = some [⟨1, 0⟩] ∧ (∃ k ∈ CHORD_KINDS, k.degrees = [⟨1, 0⟩]) ∧
    (∀ r ∈ List.range 12, (spellFromC r >>= pitchClassToMidi) = .ok r) :=
  ⟨scale_rows_len, scale_rows_pitch, scale_rows_emit,
   fun k hk => ⟨kinds_nodup k hk, kinds_abbrev k hk⟩, row_zero, ped_kind, spell_ok⟩

example : namePitch ⟨7, -2⟩ = some 9 ∧ namePitch ⟨13, -1⟩ = some 8 ∧ EmitOk ⟨7, 0⟩ ∧
    addModOf ⟨7, 0⟩ = ⟨.add, 1, 7⟩ ∧ addModOf ⟨9, 1⟩ = ⟨.alt, 1, 9⟩ := by decide

/-! ## writing the modifications and reading them back -/

/-- for ANY kind degree list `kd` and ANY target interpretation `t` (no reference to the tables)
with pairwise distinct degree numbers, `kd ⊆ t` by name, and names for which the written
modification is readable (`EmitOk`, a table fact for every name of `_SCALE_DEGREES`):
`_degrees_to_modifications(kd, t)` succeeds, the reader accepts every modification it wrote, and
applying them to `_parse_kind` of the kind yields a dict whose entries are exactly the target's
`(degree, alteration)` pairs. -/
theorem mods_rebuild (kd t : List Deg) (hkn : (kd.map (·.num)).Nodup)
    (htn : (t.map (·.num)).Nodup) (hsub : ∀ d ∈ kd, d ∈ t) (hemit : ∀ d ∈ t, EmitOk d) :
    ∃ mods ms D, degreesToMods kd t = .ok mods ∧ mapE parseMod mods = .ok ms ∧
      applyMods (dictOf kd) ms = .ok D ∧ ∀ n a, (n, a) ∈ D ↔ (⟨n, a⟩ : Deg) ∈ t := by
  obtain ⟨mods, ms, h1, h2, h3, h4⟩ := mods_rebuild_aux kd t hkn htn hsub hemit
  refine ⟨mods, ms, _, h1, h2, h3, ?_⟩
  intro n a
  rw [h4]
  constructor
  · rintro ⟨d, hd, he⟩
    cases d; simp only [pair, Prod.mk.injEq] at he
    obtain ⟨rfl, rfl⟩ := he; exact hd
  · intro h; exact ⟨⟨n, a⟩, h, rfl⟩

/-- non-vacuity: minor seventh kind inside `1 b3 5 b7 9 #11` (an alteration above the seventh is
written without `add`) -/
example : degreesToMods [⟨1, 0⟩, ⟨3, -1⟩, ⟨5, 0⟩, ⟨7, -1⟩]
    [⟨1, 0⟩, ⟨11, 1⟩, ⟨3, -1⟩, ⟨5, 0⟩, ⟨9, 0⟩, ⟨7, -1⟩] = .ok [⟨.alt, 1, 11⟩, ⟨.add, 0, 9⟩] := by decide

/-- non-vacuity: a major seventh added to the pedal point is written `add#7` (F-C15-2) -/
example : degreesToMods [⟨1, 0⟩] [⟨1, 0⟩, ⟨7, 0⟩] = .ok [⟨.add, 1, 7⟩] := by decide

/-! ## every candidate the namer could pick is right -/

/-- **for every** bass, **every** candidate root `r`, **every** list `rel` of relative pitches
(any order, repetitions allowed) and **every** interpretation `degs` of `rel` (one name of
`_SCALE_DEGREES` per pitch) without a repeated degree number for which
`_largest_chord_kind_from_degrees` finds a kind `a` — not only the one CPython's set order and
the first-maximum rule select: the tail of `pitches_to_chord_symbol` builds a symbol without
raising, all three readers accept it, its root is `r`, its bass is `bass`, and its pitches
together with its bass are `{(r + p) % 12 : p ∈ rel} ∪ {bass}`.  (F-C15-1 is the bass-filter case
of this proof.) -/
theorem candidate_denotes (bass r a : Nat) (degs : List Deg) (rel : List Nat) (hb : bass < 12)
    (hr : r < 12) (hint : All2 NameAt degs rel) (hdup : hasDup (degs.map (·.num)) = false)
    (hk : largestKindFromDegrees degs = some a) :
    ∃ s ps, buildSymbol bass r a degs = .ok s ∧ chordSymbolPitches s = .ok ps ∧
      chordSymbolRoot s = .ok r ∧ chordSymbolBass s = .ok bass ∧
      ∀ x, (x ∈ ps ∨ x = bass) ↔ (x = bass ∨ ∃ p ∈ rel, x = (r + p) % 12) :=
  candidate_aux bass r a degs rel hb hr ⟨hint, hdup, hk⟩

/-! ## `pitches_to_chord_symbol` -/

theorem minOf_spec : ∀ (ps : List Int) (p : Int),
    minOf p ps ∈ p :: ps ∧ ∀ q ∈ p :: ps, minOf p ps ≤ q := by
  intro ps
  induction ps with
  | nil => intro p; simp [minOf]
  | cons a r ih =>
    intro p
    obtain ⟨h1, h2⟩ := ih (min p a)
    have hfold : minOf p (a :: r) = minOf (min p a) r := rfl
    rw [hfold]
    constructor
    · rcases List.mem_cons.mp h1 with h | h
      · rw [h]
        rcases Int.le_total p a with hpa | hpa
        · rw [Int.min_eq_left hpa]; simp
        · rw [Int.min_eq_right hpa]; simp
      · exact List.mem_cons_of_mem _ (List.mem_cons_of_mem _ h)
    · intro q hq
      have hm := h2 (min p a) (List.mem_cons_self ..)
      rcases List.mem_cons.mp hq with rfl | hq
      · exact Int.le_trans hm (Int.min_le_left ..)
      · rcases List.mem_cons.mp hq with rfl | hq
        · exact Int.le_trans hm (Int.min_le_right ..)
        · exact h2 q (List.mem_cons_of_mem _ hq)

/-- the bass the namer uses is the pitch class of a lowest supplied pitch -/
theorem bass_is_lowest (p : Int) (ps : List Int) :
    ∃ m ∈ p :: ps, (∀ q ∈ p :: ps, m ≤ q) ∧ bassOf p ps = pymod12 m :=
  ⟨minOf p ps, (minOf_spec ps p).1, (minOf_spec ps p).2, rfl⟩

/-- what `OrdersOk` gives for the loop over the candidate roots -/
theorem orders_facts (p : Int) (ps : List Int) (o : Orders)
    (ho : OrdersOk (p :: ps) (bassOf p ps) o) :
    let bass := bassOf p ps
    let cands := (bass, o.bassRel) :: o.others
    bass < 12 ∧ bass ∈ pcsOf (p :: ps) ∧
    (∀ c ∈ cands, c.1 < 12 ∧ c.1 ∈ pcsOf (p :: ps) ∧ (∀ y ∈ c.2, y < 12) ∧ 0 ∈ c.2 ∧
      ∀ x, (x = bass ∨ ∃ y ∈ c.2, x = (c.1 + y) % 12) ↔ x ∈ pcsOf (p :: ps)) := by
  intro bass cands
  obtain ⟨h1, h2, h3⟩ := ho
  have hb12 : bass < 12 := by show pymod12 _ < 12; unfold pymod12; omega
  have hbm : bass ∈ pcsOf (p :: ps) :=
    List.mem_map.mpr ⟨minOf p ps, (minOf_spec ps p).1, rfl⟩
  have hpcs12 : ∀ x ∈ pcsOf (p :: ps), x < 12 := by
    intro x hx
    obtain ⟨q, _, rfl⟩ := List.mem_map.mp hx
    unfold pymod12; omega
  have hroots : ∀ x, x ∈ bass :: o.others.map (·.1) ↔ x ∈ pcsOf (p :: ps) := by
    intro x
    constructor
    · intro hx
      rcases List.mem_cons.mp hx with rfl | hx
      · exact hbm
      · exact (h1 x hx).2
    · intro hx
      rcases h2 x hx with rfl | h
      · exact List.mem_cons_self ..
      · exact List.mem_cons_of_mem _ h
  refine ⟨hb12, hbm, ?_⟩
  intro c hc
  have hc1 : c.1 ∈ bass :: o.others.map (·.1) := by
    rcases List.mem_cons.mp hc with rfl | hc
    · exact List.mem_cons_self ..
    · exact List.mem_cons_of_mem _ (List.mem_map.mpr ⟨c, hc, rfl⟩)
  have hc12 := hpcs12 _ ((hroots _).mp hc1)
  obtain ⟨h3a, h3b⟩ := h3 c hc
  refine ⟨hc12, (hroots _).mp hc1, ?_, ?_, ?_⟩
  · intro y hy
    obtain ⟨x, _, rfl⟩ := h3a y hy
    unfold pymod12; omega
  · have := h3b c.1 hc1
    have h0 : pymod12 ((c.1 : Int) - c.1) = 0 := by unfold pymod12; omega
    rw [h0] at this; exact this
  · intro x
    constructor
    · rintro (rfl | ⟨y, hy, rfl⟩)
      · exact hbm
      · obtain ⟨x0, hx0, rfl⟩ := h3a y hy
        have hx12 := hpcs12 _ ((hroots _).mp hx0)
        have : (c.1 + pymod12 ((x0 : Int) - c.1)) % 12 = x0 := by unfold pymod12; omega
        rw [this]; exact (hroots _).mp hx0
    · intro hx
      have hx12 := hpcs12 _ hx
      right
      refine ⟨_, h3b x ((hroots _).mpr hx), ?_⟩
      unfold pymod12; omega

/-- the outcome of the whole namer, for every order of the sets -/
theorem name_outcome (p : Int) (ps : List Int) (o : Orders)
    (ho : OrdersOk (p :: ps) (bassOf p ps) o) :
    (pitchesToChordSymbol (p :: ps) o = .error .chordSymbolError ∧
      ∀ c ∈ (bassOf p ps, o.bassRel) :: o.others, Unnameable c.2) ∨
    (∃ s pcs r, pitchesToChordSymbol (p :: ps) o = .ok (.sym s) ∧
      (∃ c ∈ (bassOf p ps, o.bassRel) :: o.others, ¬ Unnameable c.2) ∧
      chordSymbolPitches s = .ok pcs ∧ chordSymbolBass s = .ok (bassOf p ps) ∧
      chordSymbolRoot s = .ok r ∧ r ∈ pcsOf (p :: ps) ∧
      ∀ x, (x ∈ pcs ∨ x = bassOf p ps) ↔ x ∈ pcsOf (p :: ps)) := by
  obtain ⟨hb12, _, hc⟩ := orders_facts p ps o ho
  obtain ⟨res, hres, _, hnone, hsel⟩ := foldE_root_total ((bassOf p ps, o.bassRel) :: o.others) none
    (by intro r b dg h; cases h) (fun c hcm => ⟨(hc c hcm).2.2.1, (hc c hcm).2.2.2.1⟩)
  unfold pitchesToChordSymbol
  simp only [hres, bind_ok]
  cases hr : res with
  | none =>
    left
    exact ⟨rfl, (hnone.mp hr).2⟩
  | some t =>
    obtain ⟨r, a, degs⟩ := t
    right
    rcases hsel r a degs hr with h | ⟨c, hcm, rfl, hcand⟩
    · cases h
    · obtain ⟨hc12, hcp, _, _, hset⟩ := hc c hcm
      obtain ⟨s, pcs, hs, hp, hroot, hbass, hx⟩ :=
        candidate_aux (bassOf p ps) c.1 a degs c.2 hb12 hc12 hcand
      refine ⟨s, pcs, c.1, by simp only [hs, bind_ok], ?_, hp, hbass, hroot, hcp, ?_⟩
      · apply Classical.byContradiction
        intro hne
        have hall : ∀ c ∈ (bassOf p ps, o.bassRel) :: o.others, Unnameable c.2 := by
          intro c' hc'
          apply Classical.byContradiction
          intro hu
          exact hne ⟨c', hc', hu⟩
        have := hnone.mpr ⟨rfl, hall⟩
        rw [hr] at this; cases this
      · intro x
        rw [hx, hset]

/-- **name_denotes**: whenever the namer returns a symbol for a non-empty list of pitches — for
every iteration order of the sets involved — the readers accept the symbol, its bass is the pitch
class of the lowest pitch, its root is one of the supplied pitch classes, and its pitches
together with its bass are exactly the supplied pitch classes. -/
theorem name_denotes (p : Int) (ps : List Int) (o : Orders) (s : Symbol)
    (ho : OrdersOk (p :: ps) (bassOf p ps) o)
    (h : pitchesToChordSymbol (p :: ps) o = .ok (.sym s)) :
    ∃ pcs r, chordSymbolPitches s = .ok pcs ∧ chordSymbolBass s = .ok (bassOf p ps) ∧
      chordSymbolRoot s = .ok r ∧ r ∈ pcsOf (p :: ps) ∧
      ∀ x, (x ∈ pcs ∨ x = bassOf p ps) ↔ x ∈ pcsOf (p :: ps) := by
  rcases name_outcome p ps o ho with ⟨he, _⟩ | ⟨s', pcs, r, hs, _, h1, h2, h3, h4, h5⟩
  · rw [he] at h; cases h
  · rw [hs] at h
    simp only [Except.ok.injEq, Name.sym.injEq] at h
    subst h
    exact ⟨pcs, r, h1, h2, h3, h4, h5⟩

/-- **name_or_error**: for a non-empty list of pitches the namer either returns a symbol or raises
`ChordSymbolError`; no `KeyError` / `IndexError` / `AssertionError`, no non-terminating spelling
loop, and never the no-chord name. -/
theorem name_or_error (p : Int) (ps : List Int) (o : Orders)
    (ho : OrdersOk (p :: ps) (bassOf p ps) o) :
    pitchesToChordSymbol (p :: ps) o = .error .chordSymbolError ∨
    ∃ s, pitchesToChordSymbol (p :: ps) o = .ok (.sym s) := by
  rcases name_outcome p ps o ho with ⟨he, _⟩ | ⟨s, _, _, hs, _⟩
  · exact Or.inl he
  · exact Or.inr ⟨s, hs⟩

/-- **name_error_iff**: `ChordSymbolError` is raised exactly when no candidate root has an
interpretation of its relative pitches free of repeated degree numbers. -/
theorem name_error_iff (p : Int) (ps : List Int) (o : Orders)
    (ho : OrdersOk (p :: ps) (bassOf p ps) o) :
    pitchesToChordSymbol (p :: ps) o = .error .chordSymbolError ↔
      ∀ c ∈ (bassOf p ps, o.bassRel) :: o.others, Unnameable c.2 := by
  rcases name_outcome p ps o ho with ⟨he, hu⟩ | ⟨s, _, _, hs, ⟨c, hc, hn⟩, _⟩
  · exact ⟨fun _ => hu, fun _ => he⟩
  · constructor
    · intro h; rw [hs] at h; cases h
    · intro h; exact absurd (h c hc) hn

/-- the empty list is named `N.C.` -/
theorem name_empty (o : Orders) : pitchesToChordSymbol [] o = .ok .noChord := rfl

/-! non-vacuity: orders as CPython produces them for `[55, 64, 72]` (C major over G) and for the
two inputs of the fixed findings; a set that cannot be named. -/
example : OrdersOk [55, 64, 72] (bassOf 55 [64, 72]) ⟨[0, 9, 5], [(0, [0, 4, 7]), (4, [8, 0, 3])]⟩ ∧
    (pitchesToChordSymbol [55, 64, 72] ⟨[0, 9, 5], [(0, [0, 4, 7]), (4, [8, 0, 3])]⟩).map render
      = .ok "C/G" := by decide +kernel

example : OrdersOk [49, 62] (bassOf 49 [62]) ⟨[0, 1], [(2, [0, 11])]⟩ ∧
    (pitchesToChordSymbol [49, 62] ⟨[0, 1], [(2, [0, 11])]⟩).map render = .ok "Dbped(addb2)" := by
  decide +kernel

example : OrdersOk [49, 60] (bassOf 49 [60]) ⟨[0, 11], [(0, [0, 1])]⟩ ∧
    (pitchesToChordSymbol [49, 60] ⟨[0, 11], [(0, [0, 1])]⟩).map render = .ok "Dbped(add#7)" := by
  decide +kernel

/-! ## the reader is self-consistent on every parseable symbol -/

theorem steps_midi_total : ∀ st ∈ List.range 7, (dget STEPS_MIDI st).isSome = true := by decide

theorem quality_constants_distinct :
    [QUALITY_MAJOR, QUALITY_MINOR, QUALITY_AUGMENTED, QUALITY_DIMINISHED, QUALITY_OTHER].Nodup := by
  decide

theorem triad_offsets : lookupK DEGREE_OFFSETS (normDegree 1) = .ok 0 ∧
    lookupK DEGREE_OFFSETS (normDegree 3) = .ok 4 ∧ lookupK DEGREE_OFFSETS (normDegree 5) = .ok 7 := by
  decide

theorem pitchClassToMidi_lt (pc : Nat × Int) (m : Nat) (h : pitchClassToMidi pc = .ok m) : m < 12 := by
  unfold pitchClassToMidi at h
  cases hl : lookupK STEPS_MIDI pc.1 with
  | error e => simp [hl] at h
  | ok v =>
    simp only [hl, bind_ok, Except.ok.injEq] at h
    rw [← h]; unfold pymod12; omega

theorem pitchClassToMidi_total (pc : Nat × Int) (h : pc.1 < 7) : ∃ m, pitchClassToMidi pc = .ok m := by
  have := steps_midi_total pc.1 (List.mem_range.mpr h)
  unfold pitchClassToMidi lookupK
  cases hd : dget STEPS_MIDI pc.1 with
  | none => rw [hd] at this; cases this
  | some v => exact ⟨_, rfl⟩

theorem entry_pitch_mem (D : Dict) (ps : List Nat) (rp : Nat) (hps : mapE (degreePitch rp) D = .ok ps)
    (n : Nat) (a off : Int) (hD : dget D n = some a)
    (hoff : lookupK DEGREE_OFFSETS (normDegree n) = .ok off) : pymod12 ((rp : Int) + off + a) ∈ ps := by
  obtain ⟨x, hx, he⟩ := (mapE_ok_forall _ _ _ hps).1 (n, a) (dget_some_mem D n a hD)
  unfold degreePitch at he
  simp only [hoff, bind_ok, Except.ok.injEq] at he
  rw [he]; exact hx

/-- what each quality constant says about the parsed degrees -/
theorem quality_triad (D : Dict) :
    (qualityOfDegrees D = QUALITY_MAJOR → dget D 1 = some 0 ∧ dget D 3 = some 0 ∧ dget D 5 = some 0) ∧
    (qualityOfDegrees D = QUALITY_MINOR → dget D 1 = some 0 ∧ dget D 3 = some (-1) ∧ dget D 5 = some 0) ∧
    (qualityOfDegrees D = QUALITY_AUGMENTED → dget D 1 = some 0 ∧ dget D 3 = some 0 ∧ dget D 5 = some 1) ∧
    (qualityOfDegrees D = QUALITY_DIMINISHED →
      dget D 1 = some 0 ∧ dget D 3 = some (-1) ∧ dget D 5 = some (-1)) ∧
    qualityOfDegrees D ∈
      [QUALITY_MAJOR, QUALITY_MINOR, QUALITY_AUGMENTED, QUALITY_DIMINISHED, QUALITY_OTHER] := by
  unfold qualityOfDegrees
  split
  · rename_i a b c h1 h3 h5
    simp only [h1, h3, h5, Prod.mk.injEq]
    split
    · rename_i h; obtain ⟨rfl, rfl, rfl⟩ := h
      refine ⟨fun _ => ⟨rfl, rfl, rfl⟩, ?_, ?_, ?_, by simp⟩ <;> intro h <;> exact absurd h (by decide)
    · split
      · rename_i h; obtain ⟨rfl, rfl, rfl⟩ := h
        refine ⟨?_, fun _ => ⟨rfl, rfl, rfl⟩, ?_, ?_, by simp⟩ <;> intro h <;> exact absurd h (by decide)
      · split
        · rename_i h; obtain ⟨rfl, rfl, rfl⟩ := h
          refine ⟨?_, ?_, fun _ => ⟨rfl, rfl, rfl⟩, ?_, by simp⟩ <;> intro h <;> exact absurd h (by decide)
        · split
          · rename_i h; obtain ⟨rfl, rfl, rfl⟩ := h
            refine ⟨?_, ?_, ?_, fun _ => ⟨rfl, rfl, rfl⟩, by simp⟩ <;> intro h <;> exact absurd h (by decide)
          · refine ⟨?_, ?_, ?_, ?_, by simp⟩ <;> intro h <;> exact absurd h (by decide)
  · refine ⟨?_, ?_, ?_, ?_, by simp⟩ <;> intro h <;> exact absurd h (by decide)

/-- **parse_consistent**: for EVERY symbol as the regular expressions can split it (any spelling
of root and bass with a letter `A..G`, any kind index, any list of modifications) whose pitches
parse: root, bass and quality parse too, root, bass and every pitch are in `0..11`, the quality is
one of the five constants, and a major / minor / augmented / diminished quality implies that the
corresponding triad on the root is among the pitches. -/
theorem parse_consistent (s : Symbol) (ps : List Nat)
    (hbass : ∀ b, s.bass = some b → b.1 < 7) (hroot : s.rootStep < 7)
    (h : chordSymbolPitches s = .ok ps) :
    ∃ r b q, chordSymbolRoot s = .ok r ∧ chordSymbolBass s = .ok b ∧ chordSymbolQuality s = .ok q ∧
      r < 12 ∧ b < 12 ∧ (∀ x ∈ ps, x < 12) ∧
      q ∈ [QUALITY_MAJOR, QUALITY_MINOR, QUALITY_AUGMENTED, QUALITY_DIMINISHED, QUALITY_OTHER] ∧
      (q = QUALITY_MAJOR → r ∈ ps ∧ (r + 4) % 12 ∈ ps ∧ (r + 7) % 12 ∈ ps) ∧
      (q = QUALITY_MINOR → r ∈ ps ∧ (r + 3) % 12 ∈ ps ∧ (r + 7) % 12 ∈ ps) ∧
      (q = QUALITY_AUGMENTED → r ∈ ps ∧ (r + 4) % 12 ∈ ps ∧ (r + 8) % 12 ∈ ps) ∧
      (q = QUALITY_DIMINISHED → r ∈ ps ∧ (r + 3) % 12 ∈ ps ∧ (r + 6) % 12 ∈ ps) := by
  unfold chordSymbolPitches at h
  cases hp : parseChordSymbol s with
  | error e => simp [hp] at h
  | ok t =>
    obtain ⟨root, D, bs⟩ := t
    simp only [hp, bind_ok] at h
    -- what the parse result is made of
    have hparts : (∃ ms, splitMods s = .ok ms) ∧ root = (s.rootStep, s.rootAlter) := by
      unfold parseChordSymbol at hp
      cases hsm : splitMods s with
      | error e => simp [hsm] at hp
      | ok ms =>
        simp only [hsm, bind_ok] at hp
        refine ⟨⟨ms, rfl⟩, ?_⟩
        cases hk : KIND_DEGREES[s.kind]? with
        | none => simp [hk] at hp
        | some kd =>
          simp only [hk, pure, Except.pure, bind_ok] at hp
          cases ha : applyMods (dictOf kd) ms with
          | error e => simp [ha] at hp
          | ok D' =>
            simp only [ha, bind_ok, Except.ok.injEq, Prod.mk.injEq] at hp
            exact hp.1.symm
    obtain ⟨⟨ms, hms⟩, hrooteq⟩ := hparts
    cases hrp : pitchClassToMidi root with
    | error e => simp [hrp] at h
    | ok rp =>
      simp only [hrp, bind_ok] at h
      have hr12 := pitchClassToMidi_lt root rp hrp
      obtain ⟨b, hb⟩ := pitchClassToMidi_total (s.bass.getD (s.rootStep, s.rootAlter)) (by
        cases hsb : s.bass with
        | none => exact hroot
        | some b => exact hbass b hsb)
      have hb12 := pitchClassToMidi_lt _ b hb
      obtain ⟨o1, o3, o5⟩ := triad_offsets
      obtain ⟨qM, qm, qA, qD, qmem⟩ := quality_triad D
      have hmem := fun n a off => entry_pitch_mem D ps rp h n a off
      have e0 : pymod12 ((rp : Int) + 0 + 0) = rp := by unfold pymod12; omega
      have e3 : pymod12 ((rp : Int) + 4 + -1) = (rp + 3) % 12 := by unfold pymod12; omega
      have e4 : pymod12 ((rp : Int) + 4 + 0) = (rp + 4) % 12 := by unfold pymod12; omega
      have e6 : pymod12 ((rp : Int) + 7 + -1) = (rp + 6) % 12 := by unfold pymod12; omega
      have e7 : pymod12 ((rp : Int) + 7 + 0) = (rp + 7) % 12 := by unfold pymod12; omega
      have e8 : pymod12 ((rp : Int) + 7 + 1) = (rp + 8) % 12 := by unfold pymod12; omega
      refine ⟨rp, b, qualityOfDegrees D, ?_, ?_, ?_, hr12, hb12, ?_, qmem, ?_, ?_, ?_, ?_⟩
      · unfold chordSymbolRoot; rw [hms, ← hrooteq]; exact hrp
      · unfold chordSymbolBass; rw [hms]; exact hb
      · unfold chordSymbolQuality; rw [hp]; rfl
      · intro x hx
        obtain ⟨e, _, he⟩ := (mapE_ok_forall _ _ _ h).2.1 x hx
        unfold degreePitch at he
        cases hl : lookupK DEGREE_OFFSETS (normDegree e.1) with
        | error e' => simp [hl] at he
        | ok off =>
          simp only [hl, bind_ok, Except.ok.injEq] at he
          rw [← he]; unfold pymod12; omega
      · intro hq; obtain ⟨h1, h3, h5⟩ := qM hq
        exact ⟨e0 ▸ hmem 1 0 0 h1 o1, e4 ▸ hmem 3 0 4 h3 o3, e7 ▸ hmem 5 0 7 h5 o5⟩
      · intro hq; obtain ⟨h1, h3, h5⟩ := qm hq
        exact ⟨e0 ▸ hmem 1 0 0 h1 o1, e3 ▸ hmem 3 (-1) 4 h3 o3, e7 ▸ hmem 5 0 7 h5 o5⟩
      · intro hq; obtain ⟨h1, h3, h5⟩ := qA hq
        exact ⟨e0 ▸ hmem 1 0 0 h1 o1, e4 ▸ hmem 3 0 4 h3 o3, e8 ▸ hmem 5 1 7 h5 o5⟩
      · intro hq; obtain ⟨h1, h3, h5⟩ := qD hq
        exact ⟨e0 ▸ hmem 1 0 0 h1 o1, e3 ▸ hmem 3 (-1) 4 h3 o3, e6 ▸ hmem 5 (-1) 7 h5 o5⟩

/-- non-vacuity: `Cm7b5` with `(no1)` loses its quality; `Co7` is diminished with its triad -/
example : chordSymbolPitches ⟨2, 0, 16, [], none⟩ = .ok [0, 3, 6, 9] ∧
    chordSymbolQuality ⟨2, 0, 16, [], none⟩ = .ok QUALITY_DIMINISHED ∧
    chordSymbolQuality ⟨2, 0, 20, [⟨.no, 0, 1⟩], some (4, -1)⟩ = .ok QUALITY_OTHER ∧
    chordSymbolBass ⟨2, 0, 20, [⟨.no, 0, 1⟩], some (4, -1)⟩ = .ok 3 := by decide +kernel

/-! ## root and bass are the pitch classes SPELLED in the symbol, with any number of accidentals -/

/-- `_STEPS_MIDI` (regenerated from the source) is the usual naming of the white keys,
letters `A..G` as `0..6` -/
theorem steps_midi_spelling :
    ∀ st ∈ List.range 7, dget STEPS_MIDI st = ([9, 11, 0, 2, 4, 5, 7] : List Int)[st]? := by decide

/-- a letter with `a` accidentals (`a > 0` sharps, `a < 0` flats, ANY number of them) is the pitch
class `(white key + a) mod 12` -/
theorem pitchClassToMidi_spelled (st : Nat) (a : Int) (m : Nat) (hst : st < 7)
    (h : pitchClassToMidi (st, a) = .ok m) :
    ∃ base, ([9, 11, 0, 2, 4, 5, 7] : List Int)[st]? = some base ∧ (m : Int) = (base + a) % 12 := by
  have htab := steps_midi_spelling st (List.mem_range.mpr hst)
  unfold pitchClassToMidi lookupK at h
  cases hd : dget STEPS_MIDI st with
  | none => simp [hd] at h
  | some v =>
    simp only [hd, bind_ok, Except.ok.injEq] at h
    refine ⟨v, by rw [← htab, hd], ?_⟩
    rw [← h]; unfold pymod12; omega

/-- twelve more (or fewer) accidentals spell the same pitch class -/
theorem pitchClassToMidi_respell (st : Nat) (a k : Int) :
    pitchClassToMidi (st, a + 12 * k) = pitchClassToMidi (st, a) := by
  unfold pitchClassToMidi
  cases hl : lookupK STEPS_MIDI st with
  | error e => rfl
  | ok v =>
    simp only [bind_ok]
    congr 1
    unfold pymod12
    have : (v + (a + 12 * k)) % 12 = (v + a) % 12 := by omega
    rw [this]

/-- root and bass of a parseable symbol are the spelled pitch classes: nothing about a symbol's
readers depends on HOW MANY accidentals the root / bass carry beyond their sum mod 12 -/
theorem root_bass_spelled (s : Symbol) (r b : Nat) (hroot : s.rootStep < 7)
    (hbass : ∀ x, s.bass = some x → x.1 < 7)
    (hr : chordSymbolRoot s = .ok r) (hb : chordSymbolBass s = .ok b) :
    (∃ base, ([9, 11, 0, 2, 4, 5, 7] : List Int)[s.rootStep]? = some base ∧
      (r : Int) = (base + s.rootAlter) % 12) ∧
    (∃ base, ([9, 11, 0, 2, 4, 5, 7] : List Int)[(s.bass.getD (s.rootStep, s.rootAlter)).1]? = some base ∧
      (b : Int) = (base + (s.bass.getD (s.rootStep, s.rootAlter)).2) % 12) := by
  unfold chordSymbolRoot at hr
  unfold chordSymbolBass at hb
  cases hsm : splitMods s with
  | error e => simp [hsm] at hr
  | ok ms =>
    simp only [hsm, bind_ok] at hr hb
    refine ⟨pitchClassToMidi_spelled _ _ _ hroot hr, ?_⟩
    have hlt : (s.bass.getD (s.rootStep, s.rootAlter)).1 < 7 := by
      cases hsb : s.bass with
      | none => simpa using hroot
      | some x => simpa using hbass x hsb
    exact pitchClassToMidi_spelled _ _ _ hlt hb

/-- re-spelling root and bass enharmonically (12·k more accidentals on the root, 12·j on the bass)
changes none of the four readers -/
theorem readers_respell (s : Symbol) (k j : Int) :
    let s' : Symbol := { s with rootAlter := s.rootAlter + 12 * k,
                                bass := s.bass.map (fun x => (x.1, x.2 + 12 * j)) }
    chordSymbolRoot s' = chordSymbolRoot s ∧ chordSymbolBass s' = chordSymbolBass s ∧
    chordSymbolQuality s' = chordSymbolQuality s ∧ chordSymbolPitches s' = chordSymbolPitches s := by
  intro s'
  have hsplit : splitMods s' = splitMods s := rfl
  have hroot : pitchClassToMidi (s'.rootStep, s'.rootAlter) = pitchClassToMidi (s.rootStep, s.rootAlter) :=
    pitchClassToMidi_respell _ _ _
  have hbass : pitchClassToMidi (s'.bass.getD (s'.rootStep, s'.rootAlter))
      = pitchClassToMidi (s.bass.getD (s.rootStep, s.rootAlter)) := by
    cases hsb : s.bass with
    | none =>
      have : s'.bass = none := by simp [s', hsb]
      rw [this]; exact hroot
    | some x =>
      have : s'.bass = some (x.1, x.2 + 12 * j) := by simp [s', hsb]
      rw [this]; exact pitchClassToMidi_respell _ _ _
  refine ⟨?_, ?_, ?_, ?_⟩
  · unfold chordSymbolRoot; rw [hsplit, hroot]
  · unfold chordSymbolBass; rw [hsplit, hbass]
  · unfold chordSymbolQuality parseChordSymbol; rw [hsplit]
    cases splitMods s with
    | error e => rfl
    | ok ms =>
      simp only [bind_ok]
      cases hk : KIND_DEGREES[s.kind]? with
      | none =>
        rfl
      | some kd =>
        simp only [pure, Except.pure, bind_ok]
        cases applyMods (dictOf kd) ms <;> rfl
  · unfold chordSymbolPitches parseChordSymbol; rw [hsplit]
    cases splitMods s with
    | error e => rfl
    | ok ms =>
      simp only [bind_ok]
      cases hk : KIND_DEGREES[s.kind]? with
      | none =>
        rfl
      | some kd =>
        simp only [pure, Except.pure, bind_ok]
        cases applyMods (dictOf kd) ms with
        | error e => rfl
        | ok D =>
          simp only [bind_ok]
          rw [hroot]

/-- non-vacuity: `C###m7/Dbbbb` = `D#m7/Bb`-ish: root 3, bass 10; `B` with 13 flats is `Bb` -/
example : chordSymbolRoot ⟨2, 3, 0, [], some (3, -4)⟩ = .ok 3 ∧
    chordSymbolBass ⟨2, 3, 0, [], some (3, -4)⟩ = .ok 10 ∧
    pitchClassToMidi (1, -13) = .ok 10 ∧ pitchClassToMidi (1, -1) = .ok 10 := by decide +kernel

end NSV.C15
