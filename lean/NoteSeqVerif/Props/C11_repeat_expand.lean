import NoteSeqVerif.Props.C11_concat
import NoteSeqVerif.Props.C11_extract
-- THEOREMS: wf_repeat wf_expand wf_repeat_full wf_expand_full extract_total_fixed
-- THEOREMS: no_invention_repeat no_invention_expand
/-! # C11 (b) — repeat_sequence_to_duration / expand_section_groups return well-formed sequences, invent nothing
Models owned by C13 (parametric in `extract_subsequence`) and C02; imported read-only.
Hypotheses on `R` as in `C11_concat`. -/
namespace NSV.C11
open NSV NSV.C13

/-! ## repeat_sequence_to_duration -/

/-- what a successful `repeatConcatR` did: one concatenation of `n` copies with equal durations -/
theorem repeatConcatR_shape (R : Rat → Rat) (mm : List String → String) (m c : MSeq) (dur sd a b : Rat)
    (h : repeatConcatR R mm m dur sd = .ok (c, a, b)) :
    ∃ (n : Nat) (d : Rat), concatR R mm (List.replicate n m) (List.replicate n d) = .ok c := by
  have hshape : ∃ (n : Nat) (d : Rat), repeatConcatR R mm m dur sd =
      (if d = 0 then .error (.other "ZeroDivisionError")
       else match concatR R mm (List.replicate n m) (List.replicate n d) with
         | .error e => .error e
         | .ok r => .ok (r, 0, dur)) := ⟨_, _, rfl⟩
  obtain ⟨n, d, hs⟩ := hshape
  rw [hs] at h
  split at h
  · cases h
  · cases hcc : concatR R mm (List.replicate n m) (List.replicate n d) with
    | error e => rw [hcc] at h; cases h
    | ok c' =>
      rw [hcc] at h
      have : c' = c := by
        have := Except.ok.inj h
        exact (Prod.mk.inj this).1
      subst this
      exact ⟨n, d, hcc⟩

theorem wf_repeat (R : Rat → Rat) (hR : ∀ a b, a ≤ b → R a ≤ R b) (hR0 : R 0 = 0) (hRR : ∀ x, R (R x) = R x)
    (extract : NoteSeq → Rat → Rat → Except Err NoteSeq)
    (hex : ∀ s a b r, WF s → extract s a b = .ok r → WF r)
    (mm : List String → String) (m r : MSeq) (dur sd : Rat) (hw : WF m.ns) (hm : R m.ns.totalTime = m.ns.totalTime)
    (h : repeatR R extract mm m dur sd = .ok r) : WF r.ns := by
  unfold repeatR at h
  cases hc : repeatConcatR R mm m dur sd with
  | error e => simp [hc] at h
  | ok cab =>
    obtain ⟨c, a, b⟩ := cab
    simp only [hc] at h
    cases he : extract c.ns a b with
    | error e => simp [he] at h
    | ok t =>
      simp only [he] at h
      cases h
      have hwc : WF c.ns := by
        obtain ⟨n, d, hcc⟩ := repeatConcatR_shape R mm m c dur sd a b hc
        refine wf_concat R hR hR0 hRR mm _ _ _ ?_ hcc
        intro s hs
        rw [List.eq_of_mem_replicate hs]
        exact ⟨hw, hm⟩
      have hwt : WF t := hex c.ns a b t hwc he
      exact ⟨hwt.notes, hwt.total, ⟨hwt.events.tempos, hwt.events.timeSigs, hwt.events.keySigs, hwt.events.texts,
        hwt.events.ccs, hwt.events.bends, hwt.events.sectionAnns⟩⟩

/-! ## expand_section_groups -/

theorem buildSections_wf (R : Rat → Rat) (extract : NoteSeq → Rat → Rat → Except Err NoteSeq)
    (hex : ∀ s a b r, WF s → extract s a b = .ok r → WF r ∧ R r.totalTime = r.totalTime) (m : MSeq) (hw : WF m.ns) :
    ∀ (spans : List (Int × Rat × Rat)) (acc tab : List (Int × MSeq × Rat)),
      (∀ e ∈ acc, WF e.2.1.ns ∧ R e.2.1.ns.totalTime = e.2.1.ns.totalTime) →
      buildSections R extract m spans acc = .ok tab →
      ∀ e ∈ tab, WF e.2.1.ns ∧ R e.2.1.ns.totalTime = e.2.1.ns.totalTime
  | [], acc, tab, hacc, h => by
    simp only [buildSections] at h
    cases h; exact hacc
  | (sid, st, en) :: spans, acc, tab, hacc, h => by
    unfold buildSections at h
    cases he : extract m.ns st en with
    | error e => simp [he] at h
    | ok sub =>
      simp only [he] at h
      obtain ⟨hws, hfix⟩ := hex m.ns st en sub hw he
      refine buildSections_wf R extract hex m hw spans _ tab ?_ h
      intro e hemem
      rcases List.mem_cons.mp hemem with rfl | hemem
      · refine ⟨⟨hws.notes, hws.total, ⟨hws.events.tempos, hws.events.timeSigs, hws.events.keySigs,
          hws.events.texts, hws.events.ccs, hws.events.bends, ?_⟩⟩, hfix⟩
        intro x hx
        have : x ∈ [(⟨0, sid⟩ : SectionAnn)] := hx
        simp at this; subst this; exact le_refl _
      · exact hacc e hemem

theorem lookupSections_mem (tab : List (Int × MSeq × Rat)) : ∀ (ids : List Int) (l : List (MSeq × Rat)),
    lookupSections tab ids = .ok l → ∀ p ∈ l, ∃ e ∈ tab, e.2 = p
  | [], l, h => by
    simp only [lookupSections] at h
    cases h; intro p hp; simp at hp
  | i :: ids, l, h => by
    unfold lookupSections at h
    cases hf : tab.find? (fun e => e.1 == i) with
    | none => simp [hf] at h
    | some e =>
      simp only [hf] at h
      cases hr : lookupSections tab ids with
      | error e' => simp [hr] at h
      | ok l' =>
        simp only [hr] at h
        cases h
        intro p hp
        rcases List.mem_cons.mp hp with rfl | hp
        · exact ⟨e, List.mem_of_find?_eq_some hf, rfl⟩
        · exact lookupSections_mem tab ids l' hr p hp

theorem wf_expand (R : Rat → Rat) (hR : ∀ a b, a ≤ b → R a ≤ R b) (hR0 : R 0 = 0) (hRR : ∀ x, R (R x) = R x)
    (extract : NoteSeq → Rat → Rat → Except Err NoteSeq)
    (hex : ∀ s a b r, WF s → extract s a b = .ok r → WF r ∧ R r.totalTime = r.totalTime)
    (mm : List String → String) (m r : MSeq) (hw : WF m.ns) (h : expandR R extract mm m = .ok r) : WF r.ns := by
  unfold expandR at h
  split at h
  · cases h
  · cases h; exact hw
  · rename_i groups _ _
    cases hb : buildSections R extract m (sectionSpans m.ns.totalTime m.ns.sectionAnns) [] with
    | error e => simp [hb] at h
    | ok tab =>
      simp only [hb] at h
      cases hl : lookupSections tab (groups.flatMap Sec.flat) with
      | error e => simp [hl] at h
      | ok l =>
        simp only [hl] at h
        have htab := buildSections_wf R extract hex m hw _ [] tab (by intro e he; simp at he) hb
        refine wf_concat R hR hR0 hRR mm _ _ r ?_ h
        intro s hs
        obtain ⟨p, hp, rfl⟩ := List.mem_map.mp hs
        obtain ⟨e, he, rfl⟩ := lookupSections_mem tab _ l hl p hp
        exact htab e he

/-! ## with C02's extract_subsequence plugged in -/

theorem pieceTotal_fixed_aux (R : Rat → Rat) (l : List Note) (acc : Rat) (hacc : R acc = acc)
    (hl : ∀ n ∈ l, R n.end_ = n.end_) :
    R (l.foldl (fun tot n => if n.end_ > tot then n.end_ else tot) acc) =
      l.foldl (fun tot n => if n.end_ > tot then n.end_ else tot) acc := by
  induction l generalizing acc with
  | nil => simpa using hacc
  | cons a l ih =>
    simp only [List.foldl_cons]
    apply ih
    · split
      · exact hl a (by simp)
      · exact hacc
    · exact fun n hn => hl n (List.mem_cons_of_mem _ hn)

/-- `total_time` of an extracted piece is a value `R` produced (or 0): it is representable -/
theorem extract_total_fixed (R : Rat → Rat) (hR0 : R 0 = 0) (hRR : ∀ x, R (R x) = R x) (preserve : List Int)
    (s r : NoteSeq) (a b : Rat) (h : C02.extractSubsequenceR R preserve s a b = .ok r) :
    R r.totalTime = r.totalTime := by
  rw [C02.extract_subsequence_spec] at h
  split at h
  · cases h
  · split at h
    · cases h
    · cases h
      show R (C02.pieceTotal (C02.specNotes R s a b)) = _
      unfold C02.pieceTotal
      apply pieceTotal_fixed_aux R _ 0 hR0
      intro n hn
      simp only [C02.specNotes] at hn
      obtain ⟨m, _, rfl⟩ := List.mem_map.mp hn
      exact hRR _

theorem wf_repeat_full (R : Rat → Rat) (hR : ∀ a b, a ≤ b → R a ≤ R b) (hR0 : R 0 = 0) (hRR : ∀ x, R (R x) = R x)
    (mm : List String → String) (m r : MSeq) (dur sd : Rat) (hw : WF m.ns) (hm : R m.ns.totalTime = m.ns.totalTime)
    (h : repeatFullR R mm m dur sd = .ok r) : WF r.ns :=
  wf_repeat R hR hR0 hRR (extractC02 R)
    (fun s a b r hs he => wf_extract_subsequence R hR hR0 _ s r a b hs he) mm m r dur sd hw hm h

theorem wf_expand_full (R : Rat → Rat) (hR : ∀ a b, a ≤ b → R a ≤ R b) (hR0 : R 0 = 0) (hRR : ∀ x, R (R x) = R x)
    (mm : List String → String) (m r : MSeq) (hw : WF m.ns) (h : expandFullR R mm m = .ok r) : WF r.ns :=
  wf_expand R hR hR0 hRR (extractC02 R)
    (fun s a b r hs he => ⟨wf_extract_subsequence R hR hR0 _ s r a b hs he,
      extract_total_fixed R hR0 hRR _ s r a b he⟩) mm m r hw h

/-! ## nothing invented -/

/-- every note of a repeated sequence is a note of the sequence (it may occur once per repetition) -/
theorem no_invention_repeat (R : Rat → Rat) (extract : NoteSeq → Rat → Rat → Except Err NoteSeq)
    (hex : ∀ s a b r, extract s a b = .ok r → ∀ n ∈ r.notes, ∃ m ∈ s.notes, ident n = ident m)
    (mm : List String → String) (m r : MSeq) (dur sd : Rat) (h : repeatR R extract mm m dur sd = .ok r) :
    ∀ n ∈ r.ns.notes, ∃ k ∈ m.ns.notes, ident n = ident k := by
  unfold repeatR at h
  cases hc : repeatConcatR R mm m dur sd with
  | error e => simp [hc] at h
  | ok cab =>
    obtain ⟨c, a, b⟩ := cab
    simp only [hc] at h
    cases he : extract c.ns a b with
    | error e => simp [he] at h
    | ok t =>
      simp only [he] at h
      cases h
      intro n hn
      obtain ⟨k, hk, hnk⟩ := hex c.ns a b t he n hn
      -- k is a note of the concatenation of copies of m
      have hcn : ∀ k ∈ c.ns.notes, ∃ k' ∈ m.ns.notes, ident k = ident k' := by
        obtain ⟨n', d, hcc⟩ := repeatConcatR_shape R mm m c dur sd a b hc
        have hid := no_invention_concat R mm _ _ _ hcc
        intro k hk
        have : ident k ∈ c.ns.notes.map ident := List.mem_map.mpr ⟨k, hk, rfl⟩
        rw [hid] at this
        obtain ⟨k', hk', hkk⟩ := List.mem_map.mp this
        obtain ⟨s, hs, hks⟩ := List.mem_flatMap.mp hk'
        rw [List.eq_of_mem_replicate hs] at hks
        exact ⟨k', hks, hkk.symm⟩
      obtain ⟨k', hk', hkk'⟩ := hcn k hk
      exact ⟨k', hk', hnk.trans hkk'⟩

theorem buildSections_ident (R : Rat → Rat) (extract : NoteSeq → Rat → Rat → Except Err NoteSeq)
    (hex : ∀ s a b r, extract s a b = .ok r → ∀ n ∈ r.notes, ∃ m ∈ s.notes, ident n = ident m) (m : MSeq) :
    ∀ (spans : List (Int × Rat × Rat)) (acc tab : List (Int × MSeq × Rat)),
      (∀ e ∈ acc, ∀ n ∈ e.2.1.ns.notes, ∃ k ∈ m.ns.notes, ident n = ident k) →
      buildSections R extract m spans acc = .ok tab →
      ∀ e ∈ tab, ∀ n ∈ e.2.1.ns.notes, ∃ k ∈ m.ns.notes, ident n = ident k
  | [], acc, tab, hacc, h => by
    simp only [buildSections] at h
    cases h; exact hacc
  | (sid, st, en) :: spans, acc, tab, hacc, h => by
    unfold buildSections at h
    cases he : extract m.ns st en with
    | error e => simp [he] at h
    | ok sub =>
      simp only [he] at h
      refine buildSections_ident R extract hex m spans _ tab ?_ h
      intro e hemem
      rcases List.mem_cons.mp hemem with rfl | hemem
      · exact hex m.ns st en sub he
      · exact hacc e hemem

/-- every note of an expanded sequence is a note of the sequence (once per time its section is played) -/
theorem no_invention_expand (R : Rat → Rat) (extract : NoteSeq → Rat → Rat → Except Err NoteSeq)
    (hex : ∀ s a b r, extract s a b = .ok r → ∀ n ∈ r.notes, ∃ m ∈ s.notes, ident n = ident m)
    (mm : List String → String) (m r : MSeq) (h : expandR R extract mm m = .ok r) :
    ∀ n ∈ r.ns.notes, ∃ k ∈ m.ns.notes, ident n = ident k := by
  unfold expandR at h
  split at h
  · cases h
  · cases h; exact fun n hn => ⟨n, hn, rfl⟩
  · rename_i groups _ _
    cases hb : buildSections R extract m (sectionSpans m.ns.totalTime m.ns.sectionAnns) [] with
    | error e => simp [hb] at h
    | ok tab =>
      simp only [hb] at h
      cases hl : lookupSections tab (groups.flatMap Sec.flat) with
      | error e => simp [hl] at h
      | ok l =>
        simp only [hl] at h
        have htab := buildSections_ident R extract hex m _ [] tab (by intro e he; simp at he) hb
        have hid := no_invention_concat R mm _ _ _ h
        intro n hn
        have : ident n ∈ r.ns.notes.map ident := List.mem_map.mpr ⟨n, hn, rfl⟩
        rw [hid] at this
        obtain ⟨k', hk', hkk⟩ := List.mem_map.mp this
        obtain ⟨s, hs, hks⟩ := List.mem_flatMap.mp hk'
        obtain ⟨p, hp, rfl⟩ := List.mem_map.mp hs
        obtain ⟨e, he, rfl⟩ := lookupSections_mem tab _ l hl p hp
        obtain ⟨k, hk, hkid⟩ := htab e he k' hks
        exact ⟨k, hk, hkk.symm.trans hkid⟩

/-- C02's extract_subsequence satisfies the hypothesis `hex` of the two theorems above -/
theorem extractC02_ident (R : Rat → Rat) (s r : NoteSeq) (a b : Rat) (h : extractC02 R s a b = .ok r) :
    ∀ n ∈ r.notes, ∃ m ∈ s.notes, ident n = ident m := by
  intro n hn
  obtain ⟨hni, _⟩ := no_invention_extract_subsequence R _ s r a b h
  unfold extractC02 at h
  rw [C02.extract_subsequence_spec] at h
  split at h
  · cases h
  · split at h
    · cases h
    · cases h
      have hn' : n ∈ C02.specNotes R s a b := hn
      simp only [C02.specNotes] at hn'
      obtain ⟨m, hm, rfl⟩ := List.mem_map.mp hn'
      exact ⟨m, (C02.sortByRat_perm _ _).mem_iff.mp (List.mem_filter.mp hm).1, rfl⟩

end NSV.C11
