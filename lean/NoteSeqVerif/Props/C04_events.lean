import NoteSeqVerif.Proofs.C04_events
import NoteSeqVerif.Proofs.C04_repeatsG
/-! C04 — what `expand_section_groups` does to the NON-NOTE containers of a tune (tempos, time and key
signatures, text annotations, section annotations), per section copy.  Exact arithmetic (`R = id`).

`expandAll` (`Model/C04Full.lean`) is `expand_section_groups` assembled from property C02's model of
`extract_subsequence` and property C13's model of the section table and `concatenate_sequences` (both
imported read-only; each is tied to the code by its own property's correspondence, and `expandAll` by
C04's: every container of the real expansion is compared on every run).

`copiesOf bs T 0 play`: the plays of the sections in playing order — id, section start `s`, section end
`e` (next annotation, `total_time` for the last) and the offset `off` = the summed section lengths of
the plays before it.  `C02.specState … evs s e` is C02's closed form of a state container of the piece
`[s, e)`: the event in force at `s` (the last one at or before `s` in stable time order) re-emitted at
time 0, then the events strictly inside `(s, e)` shifted by `-s`. -/
namespace NSV.C04
open NSV

/-- For every tune whose section annotations are those of well-formed blocks (increasing starts below
the total time — as every parsed ABC tune's are) with section groups whose ids are in range:
`expand_section_groups` succeeds, and in the result
* there is one section annotation per play, `(offset, id)`, in playing order;
* every event of a section appears once per play of that section, shifted by that play's offset:
  tempos, time signatures and key signatures are, play by play, the events strictly inside the section
  plus the one in force at its start re-emitted at the play's start — then `remove_redundant_data` drops
  an event that repeats the value of its predecessor in time order (`C13.redTempos` etc.);
* text annotations likewise for chord symbols (with the carried chord) and beats, nothing removed;
  annotations of any other type are dropped (that is what `extract_subsequence` does);
* the notes are the section's notes (C02's `specNotes`: start in `[s, e)`, end clipped to `e`,
  shifted by `-s`) shifted by the play's offset. -/
theorem abc_expand_events (t : Tune) (bs : List Block) (hsec : t.sections = blockSections bs 0)
    (hwf : BlocksWF bs t.totalTime) (hne : t.groups ≠ []) (hids : ∀ g ∈ t.groups, 0 ≤ g.1 ∧ g.1 < bs.length) :
    ∃ r, expandAll id t = .ok r ∧
      r.sectionAnns = (copiesOf bs t.totalTime 0 (playOrder t.groups)).map (fun c => ⟨c.off, c.id⟩) ∧
      r.tempos = C13.redTempos ((copiesOf bs t.totalTime 0 (playOrder t.groups)).flatMap (fun c =>
        (C02.specState id (·.time) C02.Tempo.setTime (toNS t).tempos c.s c.e).map
          (fun e => { e with time := e.time + c.off }))) ∧
      r.timeSigs = C13.redTimeSigs ((copiesOf bs t.totalTime 0 (playOrder t.groups)).flatMap (fun c =>
        (C02.specState id (·.time) C02.TimeSig.setTime (toNS t).timeSigs c.s c.e).map
          (fun e => { e with time := e.time + c.off }))) ∧
      r.keySigs = C13.redKeySigs ((copiesOf bs t.totalTime 0 (playOrder t.groups)).flatMap (fun c =>
        (C02.specState id (·.time) C02.KeySig.setTime (toNS t).keySigs c.s c.e).map
          (fun e => { e with time := e.time + c.off }))) ∧
      r.texts = (copiesOf bs t.totalTime 0 (playOrder t.groups)).flatMap (fun c =>
        (C02.specState id (·.time) C02.TextAnn.setTime (C02.chords (toNS t)) c.s c.e ++
          C02.specBeats id (toNS t) c.s c.e).map (fun e => { e with time := e.time + c.off })) ∧
      r.notes = (copiesOf bs t.totalTime 0 (playOrder t.groups)).flatMap (fun c =>
        (C02.specNotes id (toNS t) c.s c.e).map (fun n => { n with start := n.start + c.off, end_ := n.end_ + c.off })) := by
  have hmem : ∀ i ∈ playOrder t.groups, 0 ≤ i ∧ i < bs.length := by
    intro i hi
    obtain ⟨g, hg, hi⟩ := List.mem_flatMap.mp hi
    have := List.eq_of_mem_replicate hi
    subst this
    exact hids g hg
  unfold expandAll
  rw [if_neg hne]
  have hsa : (toNS t).sectionAnns = (blockSections bs 0).map (fun p => (⟨p.1, p.2⟩ : SectionAnn)) := by
    simp [toNS, hsec]
  rw [hsa, sectionSpans_blocks, buildSections_spans t _ [] (by
    intro sp hsp
    obtain ⟨k, s, ns, hk, rfl⟩ := mem_spansFrom hsp
    obtain ⟨h1, h2⟩ := span_valid hwf k s ns hk
    exact ⟨le_of_lt h1, lt_of_lt_of_le h1 h2⟩)]
  simp only [List.append_nil]
  rw [lookupSections_ok _ _ (entryOf t bs t.totalTime) (fun i hi => find_entry t bs t.totalTime i (hmem i hi).1 (hmem i hi).2)]
  simp only
  by_cases hplay : playOrder t.groups = []
  · rw [hplay]
    refine ⟨_, rfl, ?_⟩
    simp [copiesOf, C13.finishCat, C13.removeRedundant, C13.emptyM, C13.redTempos,
      C13.redTimeSigs, C13.redKeySigs, C13.dropRepeats, sortByRat]
  · have hd : ∀ i ∈ playOrder t.groups, (spanOf bs t.totalTime i).1 ≤ (spanOf bs t.totalTime i).2 :=
      fun i hi => le_of_lt (spanOf_valid hwf i (hmem i hi).1 (hmem i hi).2).1
    obtain ⟨r, hr, hpieces⟩ := concat_entries t bs t.totalTime (playOrder t.groups) hplay hd
    rw [hr]
    refine ⟨_, rfl, ?_⟩
    obtain ⟨c1, c2, _, _, c5, _, c7, c8, c9, _⟩ := C13.concat_spec id _ _ _ r hr
    have hoff := copiesOf_off_nonneg bs t.totalTime (playOrder t.groups) 0 (le_refl _) hd
    rw [hpieces] at c1 c2 c5 c7 c8 c9
    simp only [List.flatMap_map] at c1 c2 c5 c7 c8 c9
    refine ⟨?_, ?_, ?_, ?_, ?_, ?_⟩
    · rw [c5]
      have : ∀ c ∈ copiesOf bs t.totalTime 0 (playOrder t.groups),
          (C13.placed id c.off (pieceOf t c.id c.s c.e)).ns.sectionAnns = [⟨c.off, c.id⟩] := by
        intro c hc
        rw [(placed_containers c.off (hoff c hc) _).2.2.2.2.1]
        simp [pieceOf]
      rw [flatMap_congr' _ _ _ this]
      rw [List.map_eq_flatMap]
    · rw [c7]
      congr 1
      apply flatMap_congr'
      intro c hc
      rw [(placed_containers c.off (hoff c hc) _).1]
      rfl
    · rw [c8]
      congr 1
      apply flatMap_congr'
      intro c hc
      rw [(placed_containers c.off (hoff c hc) _).2.1]
      rfl
    · rw [c9]
      congr 1
      apply flatMap_congr'
      intro c hc
      rw [(placed_containers c.off (hoff c hc) _).2.2.1]
      rfl
    · rw [c2]
      apply flatMap_congr'
      intro c hc
      rw [(placed_containers c.off (hoff c hc) _).2.2.2.1]
      rfl
    · rw [c1]
      apply flatMap_congr'
      intro c hc
      rw [(placed_containers c.off (hoff c hc) _).2.2.2.2.2]
      rfl


/-- … in particular for EVERY parsed ABC tune with section groups (positive final durations,
broken-rhythm pairs inside a bar): there are blocks `bs` — its sections — for which the closed forms of
`abc_expand_events` hold. -/
theorem abc_expand_events_parsed (lines : List Line) (tune : Tune) (h : parseTune id lines = .ok tune)
    (hpos : ∀ n ∈ tune.notes, n.start < n.end_) (hbk : brokenOK (flatten lines) = true) (hg : tune.groups ≠ []) :
    ∃ bs r, tune.sections = blockSections bs 0 ∧ expandAll id tune = .ok r ∧
      r.sectionAnns = (copiesOf bs tune.totalTime 0 (playOrder tune.groups)).map (fun c => ⟨c.off, c.id⟩) ∧
      r.tempos = C13.redTempos ((copiesOf bs tune.totalTime 0 (playOrder tune.groups)).flatMap (fun c =>
        (C02.specState id (·.time) C02.Tempo.setTime (toNS tune).tempos c.s c.e).map
          (fun e => { e with time := e.time + c.off }))) ∧
      r.timeSigs = C13.redTimeSigs ((copiesOf bs tune.totalTime 0 (playOrder tune.groups)).flatMap (fun c =>
        (C02.specState id (·.time) C02.TimeSig.setTime (toNS tune).timeSigs c.s c.e).map
          (fun e => { e with time := e.time + c.off }))) ∧
      r.keySigs = C13.redKeySigs ((copiesOf bs tune.totalTime 0 (playOrder tune.groups)).flatMap (fun c =>
        (C02.specState id (·.time) C02.KeySig.setTime (toNS tune).keySigs c.s c.e).map
          (fun e => { e with time := e.time + c.off }))) ∧
      r.texts = (copiesOf bs tune.totalTime 0 (playOrder tune.groups)).flatMap (fun c =>
        (C02.specState id (·.time) C02.TextAnn.setTime (C02.chords (toNS tune)) c.s c.e ++
          C02.specBeats id (toNS tune) c.s c.e).map (fun e => { e with time := e.time + c.off })) := by
  rcases parsed_blocks lines tune h hpos hbk with h0 | ⟨bs, h1, _, h3, _, _, h6⟩
  · exact absurd h0 hg
  · obtain ⟨r, hr, a1, a2, a3, a4, a5, _⟩ := abc_expand_events tune bs h1 h3 hg h6
    exact ⟨bs, r, h1, hr, a1, a2, a3, a4, a5⟩

/-! ## non-vacuity -/

/-- `C |: [Q:1/4=60] D :| E` — a tempo change inside a repeated section -/
abbrev eventsExample : List Line :=
  [.field (.refnum 1), .music [.note .none 'C' [] ⟨none, 0, none⟩, .bar 0 1 1, .inline (.tempo [(1, 4)] 60),
    .note .none 'D' [] ⟨none, 0, none⟩, .bar 1 1 0, .note .none 'E' [] ⟨none, 0, none⟩]]

/-- the hypotheses of `abc_expand_events` hold for the parsed example (sections at 0, 1/4, 3/4; total
5/4; groups 0×1, 1×2, 2×1), so its expansion has the four section annotations
(0, 0) (1/4, 1) (3/4, 1) (5/4, 2) — what the real `expand_section_groups` returns for this tune -/
example : ∃ tune r, parseTune id eventsExample = .ok tune ∧ expandAll id tune = .ok r ∧
    r.sectionAnns = [⟨0, 0⟩, ⟨1 / 4, 1⟩, ⟨3 / 4, 1⟩, ⟨5 / 4, 2⟩] := by
  have hb : (match parseTune id eventsExample with
      | .ok t => decide (t.sections = blockSections [(0, []), (1 / 4, []), (3 / 4, [])] 0) &&
          decide (t.totalTime = 5 / 4) && decide (t.groups = [(0, 1), (1, 2), (2, 1)])
      | .error _ => false) = true := by decide +kernel
  cases hp : parseTune id eventsExample with
  | error e => rw [hp] at hb; simp at hb
  | ok tune =>
    rw [hp] at hb
    simp only [Bool.and_eq_true, decide_eq_true_eq] at hb
    obtain ⟨⟨h1, h2⟩, h3⟩ := hb
    obtain ⟨r, hr, a1, _⟩ := abc_expand_events tune [(0, []), (1 / 4, []), (3 / 4, [])] h1
      (by rw [h2]; simp [BlocksWF, endOf]; norm_num) (by rw [h3]; simp) (by rw [h3]; decide)
    refine ⟨tune, r, rfl, hr, ?_⟩
    rw [a1, h2, h3]
    decide +kernel


/-- THE TWO MODELS OF THE EXPANSION AGREE ON THE NOTES: on every tune whose notes are partitioned by
its section annotations (as in `abc_repeats_expansion`; every parsed tune is one) the notes of the full
model `expandAll` (C02's extract + C13's concatenate) are the notes of the notes-only model `expand` —
the one the repeat theorems `abc_repeats*` speak about. -/
theorem abc_expand_models_agree (bs : List Block) (T : Rat) (groups : List (Int × Nat)) (base : Tune)
    (hwf : BlocksWF bs T) (hsorted : (blockNotes bs).Pairwise (fun a b => a.start ≤ b.start))
    (hne : groups ≠ []) (hids : ∀ g ∈ groups, 0 ≤ g.1 ∧ g.1 < bs.length) :
    ∃ r L, expandAll id (tuneOfBlocks bs T groups base) = .ok r ∧ expand id (tuneOfBlocks bs T groups base) = .ok L ∧
      r.notes = L.map toNote := by
  obtain ⟨r, hr, _, _, _, _, _, hn⟩ := abc_expand_events (tuneOfBlocks bs T groups base) bs rfl hwf hne hids
  refine ⟨r, _, hr, expand_blocks_full bs T groups base hwf hsorted hne hids, ?_⟩
  rw [hn]
  have hmem : ∀ i ∈ playOrder groups, 0 ≤ i ∧ i < bs.length := by
    intro i hi
    obtain ⟨g, hg, hi⟩ := List.mem_flatMap.mp hi
    have := List.eq_of_mem_replicate hi
    subst this
    exact hids g hg
  exact (placed_copies bs T groups base hwf hsorted (playOrder groups) hmem 0).symm

end NSV.C04
