import NoteSeqVerif.Props.C20
import NoteSeqVerif.Proofs.C20_repeat
/-! C20 — property theorems, part 3: the side condition of `repeat_spec_float` discharged for the
floating-point computation itself (proof: `Proofs/C20_repeat.lean`; uses the `Rounding` interface of
`Proofs/Rounding.lean`, hence single Mathlib modules, unlike parts 1 and 2 which are core Lean). -/
namespace NSV.C20

/-- **repeatEnough_float**: for every rounding operator with the `Rounding` facts (monotone, exact
on integers / dyadics, relative error ≤ 2^-53 — in particular `rne53`, the code), a non-empty input,
positive rate and duration, and at most `2^51` requested samples (`D·rate ≤ 2^51`; no bound on the
input length), the float ceiling `⌈R(D / R(len/rate))⌉` yields enough copies:
`int(R(D·rate)) ≤ num_repeats · len`. -/
theorem repeatEnough_float {R : Rat → Rat} (hR : Rounding R) (len : Nat) (rate : Int) (D : Rat)
    (hl : 0 < len) (hr : 0 < rate) (hD : 0 < D) (hb : D * (rate : Rat) ≤ 2 ^ 51) :
    repeatEnough R len rate D :=
  repeatEnough_of_rounding hR len rate D hl hr hD hb

/-- the code itself -/
theorem repeatEnough_rne53 (len : Nat) (rate : Int) (D : Rat)
    (hl : 0 < len) (hr : 0 < rate) (hD : 0 < D) (hb : D * (rate : Rat) ≤ 2 ^ 51) :
    repeatEnough rne53 len rate D :=
  repeatEnough_float rounding_rne53 len rate D hl hr hD hb

/-- **repeat_spec_float_total**: `repeat_spec_float` without the side condition.  The code
(`R = rne53`) on a non-empty input with positive rate and duration and `D·rate ≤ 2^51` returns
exactly `int(D·rate)` samples (float product), sample `i` = input sample `i mod len`. -/
theorem repeat_spec_float_total {α} (xs : List α) (rate : Int) (D : Rat)
    (hx : xs ≠ []) (hr : 0 < rate) (hD : 0 < D) (hb : D * (rate : Rat) ≤ 2 ^ 51) :
    ∃ ys, repeatSamples xs rate D = .ok ys ∧ ys.length = (secToSamples rne53 D rate).toNat ∧
      ∀ i, i < (secToSamples rne53 D rate).toNat → ys[i]? = xs[i % xs.length]? :=
  repeat_spec_float xs rate D hx hr hD
    (repeatEnough_rne53 xs.length rate D (List.length_pos_iff.mpr hx) hr hD hb)

/-! non-vacuity: 0.35 s (the double nearest to 35/100, which is below it) at 100 Hz on three
samples — the float product rounds up to exactly 35, the float quotient to 35/3 + ε, 12 copies -/
example : repeatEnough rne53 3 100 (rne53 (35 / 100)) :=
  repeatEnough_float rounding_rne53 3 100 _ (by norm_num) (by norm_num) (by decide +kernel)
    (by decide +kernel)

example : ∃ ys, repeatSamples [7, 8, 9] 100 (rne53 (35 / 100)) = .ok ys ∧ ys.length = 35 ∧
    ∀ i, i < 35 → ys[i]? = [7, 8, 9][i % 3]? := by
  have h := repeat_spec_float_total [7, 8, 9] 100 (rne53 (35 / 100)) (by simp) (by norm_num)
    (by decide +kernel) (by decide +kernel)
  have e : (secToSamples rne53 (rne53 (35 / 100)) 100).toNat = 35 := by decide +kernel
  rw [e] at h
  exact h

/-- some magnitude bound is necessary: with `3·2^52 + 4` requested samples (a float64) on a
3-sample input the float quotient `(3·2^52+4)/3 = 2^52 + 1 + 1/3` rounds down to the integer
`2^52 + 1`, and `3·(2^52+1) < 3·2^52 + 4`: the result would be one sample short -/
example : ¬ repeatEnough rne53 3 1 (3 * 2 ^ 52 + 4) := by decide +kernel

/-- … and `2^51` is within a factor two of the truth: a float64 duration with
`D·rate ≈ 2^52.007` at 8000 Hz on 4 214 028 samples for which the real arithmetic
(`int(D*8000) = 4524778115321101`, `ceil(D/(4214028/8000))*4214028 = 4524778115321100`)
comes out one sample short -/
example : ¬ repeatEnough rne53 4214028 8000 (4633372790088807 / 8192) := by decide +kernel

end NSV.C20
