import NoteSeqVerif.Proofs.C05Float
import NoteSeqVerif.Props.C05
/-! C05 — the timing clause IN FLOATING POINT.

`Props/C05.lean` proves the timing clause for exact arithmetic (`R = id`).  Here `R` is any rounding operator
with the algebraic facts of `Proofs/Rounding.lean` (`Rounding R`: monotone, odd, idempotent, exact on
`n·2^k` with `|n| ≤ 2^53`, relative error `≤ 2^-53`); the executable `rne53`, which the compiled driver runs
and which is compared bit for bit with CPython on every run, is one (`rounding_rne53`).  The parser computes

    seconds = R (R (R (d · R (PPQ / divisions)) / PPQ) · R (60 / qpm))        -- 5 roundings
    cursor' = R (cursor ± seconds)                                           -- 1 more per move

* STRUCTURE (`mxml_float_structure`, `mxml_float_cursor`, `mxml_float_monotone`, `mxml_float_total_first_part`):
  cursors and onsets are non-negative floats while every `<backup>` fits, lengths are not negative, a note ends
  no earlier than it starts, without `<backup>` cursors and onsets never decrease and `total_time` is at least
  every note end the reader computes;
* ERROR BOUND (`mxml_time_float`, `mxml_cursor_float`; with `<backup>`: `mxml_time_float_backup`,
  `mxml_cursor_float_backup`): after `k` moves the float cursor is within relative error `(k+6)·2^-53` of the
  exact cursor of `mxml_time_partial` when the run has no `<backup>`, and within `8·k·2^-53·M` when it has,
  `M` bounding the exact cursors of the run;
* EXACTNESS (`mxml_time_float_exact_dyadic`, `mxml_cursor_float_exact_dyadic`): divisions a power of two, tempo
  `60·2^i`, exact cursors representable: the float cursor IS the exact cursor.

Like `mxml_time_partial`, every theorem takes the context `c` the part starts in (`InvF R st c`: the parser state
follows `c`, with `seconds_per_quarter = R (60 / qpm)`): `mxml_float_part_start` gives it for every part — the
context the parts before left behind, tempo included (open finding F-C05-4) — `mxml_float_first_part` for the
first part (`Ctx.init`) and `mxml_float_later_part_partial` for later parts of a score with one tempo. -/
namespace NSV.C05
open NSV

/-! ## where a part starts -/

/-- every part, every `R`: the state it is parsed from follows the context the parts before it left behind
(`scoreCtx`, divisions AND tempo — the tempo half is the open finding F-C05-4); `total_time` is at least its
final cursor -/
theorem mxml_float_part_start {R : ℚ → ℚ} (hR : Rounding R) {sps : List ScorePartEl} {before after : List PartEl}
    {p : PartEl} {r : PState × ℚ × List (List MState)}
    (h : parseParts R sps PState.init 0 (before ++ p :: after) = .ok r) :
    ∃ stb st' msb ms msa, InvF R stb (scoreCtx Ctx.init before) ∧ parsePart R sps stb p = .ok (st', ms) ∧
      r.2.2 = msb ++ ms :: msa ∧ msb.length = before.length ∧ st'.tp ≤ r.2.1 ∧ 0 ≤ r.2.1 :=
  parseParts_float (InvF.init hR) h

/-- the first part is parsed from the initial state: default context (divisions 1, 120 qpm, `spq = 1/2`
exactly), cursor 0, no previous note -/
theorem mxml_float_first_part {R : ℚ → ℚ} (hR : Rounding R) {sps : List ScorePartEl} {p : PartEl}
    {after : List PartEl} {r : PState × ℚ × List (List MState)}
    (h : parseParts R sps PState.init 0 (p :: after) = .ok r) :
    ∃ st' ms msa, parsePart R sps PState.init p = .ok (st', ms) ∧ r.2.2 = ms :: msa ∧
      InvF R PState.init Ctx.init ∧ 0 < Ctx.init.div ∧ 0 < Ctx.init.qpm ∧ Safe R PState.init ∧ st'.tp ≤ r.2.1 := by
  simp only [parseParts] at h
  split at h
  · contradiction
  · rename_i st1 ms1 h1
    split at h
    · contradiction
    · rename_i st2 t rest h2
      have hle := parseParts_total_le _ _ _ _ h2
      simp only [Except.ok.injEq] at h
      subst h
      refine ⟨st1, ms1, rest, h1, rfl, InvF.init hR, (Base.init hR).div, (Base.init hR).qpm, Safe.init hR, ?_⟩
      simp only [] at hle ⊢
      split at hle <;> linarith

/-- LATER PARTS, partial (excluded class = F-C05-4), every `R`: when the score has one tempo — the first part's
tempo marks all stand before its first cursor move (`lead`), no other part before `p` has a tempo mark — part `p`
is parsed from a state that follows a context with that tempo `(ctxAfter Ctx.init lead).qpm` -/
theorem mxml_float_later_part_partial {R : ℚ → ℚ} (hR : Rounding R) {sps : List ScorePartEl} {p0 p : PartEl}
    {mid after : List PartEl} {lead rest : List El} {r : PState × ℚ × List (List MState)}
    (h0 : partEls p0 = lead ++ rest) (hrest : ∀ e ∈ rest, tempoFree e = true)
    (hmid : ∀ q ∈ mid, ∀ e ∈ partEls q, tempoFree e = true)
    (h : parseParts R sps PState.init 0 (p0 :: mid ++ p :: after) = .ok r) :
    ∃ stp st' ms div, InvF R stp ⟨div, (ctxAfter Ctx.init lead).qpm⟩ ∧
      parsePart R sps stp p = .ok (st', ms) ∧ ms ∈ r.2.2 ∧ st'.tp ≤ r.2.1 := by
  have h' : parseParts R sps PState.init 0 ((p0 :: mid) ++ p :: after) = .ok r := by simpa using h
  obtain ⟨stb, st', msb, ms, msa, i, hp, e, l, ht, _⟩ := mxml_float_part_start hR h'
  have hq : (scoreCtx Ctx.init (p0 :: mid)).qpm = (ctxAfter Ctx.init lead).qpm := by
    simp only [scoreCtx, List.foldl]
    have := scoreCtx_qpm_of_tempoFree (c := ctxAfter Ctx.init (partEls p0)) hmid
    simp only [scoreCtx] at this
    rw [this, h0, ctxAfter_append, ctxAfter_qpm_of_tempoFree hrest]
  have hc : scoreCtx Ctx.init (p0 :: mid) = ⟨(scoreCtx Ctx.init (p0 :: mid)).div, (ctxAfter Ctx.init lead).qpm⟩ := by
    rw [← hq]
  rw [hc] at i
  exact ⟨stb, st', ms, _, i, hp, by rw [e]; simp, ht⟩

/-! ## error bound without `<backup>` -/

/-- TIMING IN FLOATING POINT, next to `mxml_time_partial`.  Part `p` is parsed in float arithmetic from a state
that follows the context `c` (positive divisions and tempo).  For the `<note>` standing after `before` (whole
measures) and `pre` (elements of its measure), if that run is well-formed (durations `≥ 0`, declared divisions
`> 0`, declared tempos `≥ 0`), has no `<backup>`, and makes `k` cursor moves with `(k+6)(k+7) ≤ 2^53`
(`k ≤ 9.4·10^7`): a note that is not a chord note and declares `<duration> d ≥ 0` has

* onset within RELATIVE error `(k+6)·2^-53` of the declared onset `specCursor c (…)` of `mxml_time_partial`,
* length within relative error `6·2^-53` of the declared `d / divisions · 60 / qpm`,
* and the reader reports `start_time` = that onset and an `end_time` within `(k+7)·2^-53` of the declared end. -/
theorem mxml_time_float {R : ℚ → ℚ} (hR : Rounding R) {sps : List ScorePartEl} {st st' : PState} {p : PartEl}
    {ms : List MState} {c : Ctx} (hinv : InvF R st c) (hdiv : 0 < c.div) (hqpm : 0 < c.qpm)
    (h : parsePart R sps st p = .ok (st', ms))
    {before after : List (List El)} {els pre post : List El} {n : NoteEl}
    (hp : p.measures = before ++ els :: after) (hsplit : repairMeasure els = pre ++ .note n :: post)
    (hrun : ∀ e ∈ flatEls before ++ pre, wfEl e = true ∧ noBackup e = true)
    (hN : (moves (flatEls before ++ pre) + 6) * (moves (flatEls before ++ pre) + 7) ≤ 2 ^ 53) :
    ∃ mi pn, ms[before.length]? = some mi ∧ mi.notes[(pre.filter isNote).length]? = some pn ∧
      ∀ d, n.chord = false → n.duration = some d → 0 ≤ d →
        |pn.time - specCursor c (flatEls before ++ pre)| ≤
          specCursor c (flatEls before ++ pre) * (((moves (flatEls before ++ pre) : ℚ) + 6) / 2 ^ 53) ∧
        |pn.seconds - secs (ctxAfter c (flatEls before ++ pre)) d| ≤
          secs (ctxAfter c (flatEls before ++ pre)) d * (6 / 2 ^ 53) ∧
        0 ≤ pn.time ∧
        ∀ part x, readerNote R part pn = .ok x → x.start = pn.time ∧
          |x.end_ - (specCursor c (flatEls before ++ pre) + secs (ctxAfter c (flatEls before ++ pre)) d)| ≤
            (specCursor c (flatEls before ++ pre) + secs (ctxAfter c (flatEls before ++ pre)) d) *
              (((moves (flatEls before ++ pre) : ℚ) + 7) / 2 ^ 53) := by
  unfold parsePart at h
  rw [hp] at h
  obtain ⟨stb, msb, sa, ma, st1, pn, sb, mb, sc, mc, stm, mi, msa, later, h1, h2, h3, _, _, _, _, _, _, _, _, _, _,
    hi1, hi2⟩ := note_at h hsplit
  refine ⟨mi, pn, hi1, hi2, ?_⟩
  -- the invariant up to the note
  let S := simRel R hR
  have hok : ∀ (g : Gh) (s : PState) (e : El), (wfEl e = true ∧ noBackup e = true) → True → S.ok g s e :=
    fun _ _ _ h _ => h
  have hP0 : S.P ⟨c, 0, 0⟩ (partStart sps st p) :=
    ⟨(Base.mk hinv hdiv hqpm).partStart sps p, le_refl _, near_zero_zero _⟩
  have hPb := (S.measures before hP0 (S.measuresOK_of hok before _ _
    (ghostOK_of_forall (okp := fun e => wfEl e = true ∧ noBackup e = true) _ _
      (fun e he => hrun e (List.mem_append_left _ he))) (measuresFit_true R _ _)) h1).1
  have hPa := (S.els pre hPb (S.elsOK_of hok pre _ _ _
    (ghostOK_of_forall (okp := fun e => wfEl e = true ∧ noBackup e = true) _ _
      (fun e he => hrun e (List.mem_append_right _ he))) (elsFit_true R _ _ _)) h2).1
  rw [← S.run_append] at hPa
  have hrun' : S.run ⟨c, 0, 0⟩ (flatEls before ++ pre) = ⟨ctxAfter c (flatEls before ++ pre),
      0 + specCursor c (flatEls before ++ pre), 0 + moves (flatEls before ++ pre)⟩ := ghRun _ _
  rw [hrun'] at hPa
  obtain ⟨hb, ht, hn⟩ := hPa
  simp only [zero_add] at hb ht hn
  intro d hc hd hd0
  obtain ⟨_, _, g3⟩ := parseNote_float h3
  obtain ⟨_, t0, _, hsec⟩ := g3 d hd hc
  rw [hb.seconds d] at hsec
  simp only [Except.ok.injEq] at hsec
  have hdq : (0 : ℚ) ≤ (d : ℚ) := by exact_mod_cast hd0
  have hσ : 0 ≤ secs (ctxAfter c (flatEls before ++ pre)) d := by
    unfold secs
    have := hb.divq; have := hb.qpm
    positivity
  have hN1 : (moves (flatEls before ++ pre) + 5) * (moves (flatEls before ++ pre) + 5 + 1) ≤ 2 ^ 53 :=
    Nat.le_trans (Nat.mul_le_mul (by omega) (by omega)) hN
  have e1 := near_abs hn ht hN1
  have e2 := secF_abs hR ppq_pos hb.divq hb.qpm hdq
  have hend := rel_step hR hn ht (secF_near hR ppq_pos hb.divq hb.qpm hdq) hσ
  have e3 := near_abs hend (add_nonneg ht hσ) (by
    have : moves (flatEls before ++ pre) + 1 + 5 = moves (flatEls before ++ pre) + 6 := by omega
    rw [this]; exact hN)
  rw [hsec] at e2 e3
  rw [← t0] at e1 e3
  have hpos : 0 ≤ pn.time := by rw [t0]; exact near_nonneg hn ht
  refine ⟨?_, ?_, hpos, ?_⟩
  · calc _ ≤ _ := e1
      _ = _ := by unfold u53; push_cast; ring
  · calc _ ≤ _ := e2
      _ = _ := by unfold u53 secs; ring
  · intro part x hx
    obtain ⟨_, _, _, _, _, _, hs, he, _⟩ := readerNote_fields hx
    rw [if_neg (not_lt.mpr hpos)] at hs
    refine ⟨hs, ?_⟩
    rw [he, hs]
    calc _ ≤ _ := e3
      _ = _ := by unfold u53 secs; push_cast; ring

/-- the final cursor of a part without `<backup>`, `k` moves in all: relative error `(k+6)·2^-53` -/
theorem mxml_cursor_float {R : ℚ → ℚ} (hR : Rounding R) {sps : List ScorePartEl} {st st' : PState} {p : PartEl}
    {ms : List MState} {c : Ctx} (hinv : InvF R st c) (hdiv : 0 < c.div) (hqpm : 0 < c.qpm)
    (h : parsePart R sps st p = .ok (st', ms))
    (hrun : ∀ e ∈ partEls p, wfEl e = true ∧ noBackup e = true)
    (hN : (moves (partEls p) + 5) * (moves (partEls p) + 6) ≤ 2 ^ 53) :
    |st'.tp - specCursor c (partEls p)| ≤ specCursor c (partEls p) * (((moves (partEls p) : ℚ) + 6) / 2 ^ 53) ∧
    0 ≤ st'.tp := by
  unfold parsePart at h
  let S := simRel R hR
  have hok : ∀ (g : Gh) (s : PState) (e : El), (wfEl e = true ∧ noBackup e = true) → True → S.ok g s e :=
    fun _ _ _ h _ => h
  have hP0 : S.P ⟨c, 0, 0⟩ (partStart sps st p) :=
    ⟨(Base.mk hinv hdiv hqpm).partStart sps p, le_refl _, near_zero_zero _⟩
  have hP := (S.measures p.measures hP0 (S.measuresOK_of hok _ _ _
    (ghostOK_of_forall (okp := fun e => wfEl e = true ∧ noBackup e = true) _ _ hrun) (measuresFit_true R _ _)) h).1
  have hrun' : S.run ⟨c, 0, 0⟩ (flatEls p.measures) = ⟨ctxAfter c (partEls p),
      0 + specCursor c (partEls p), 0 + moves (partEls p)⟩ := ghRun _ _
  rw [hrun'] at hP
  obtain ⟨_, ht, hn⟩ := hP
  simp only [zero_add] at ht hn
  refine ⟨?_, near_nonneg hn ht⟩
  calc _ ≤ _ := near_abs hn ht hN
    _ = _ := by unfold u53; push_cast; ring

/-! ## error bound with `<backup>` -/

/-- WITH `<backup>` the bound is absolute, relative to the largest cursor of the run.  If the run before the
`<note>` is well-formed, every EXACT cursor reached in it (`specCursor c a` for every prefix `a`) lies in `[0, M]`,
and it makes `k` moves (forward or back) with `8k + 6 ≤ 2^53`, then the note's float onset is within
`8·k·2^-53·M` of the declared onset, so is the `start_time` the reader reports (which clamps at 0), and its
length is within relative error `6·2^-53` of the declared length. -/
theorem mxml_time_float_backup {R : ℚ → ℚ} (hR : Rounding R) {sps : List ScorePartEl} {st st' : PState}
    {p : PartEl} {ms : List MState} {c : Ctx} (hinv : InvF R st c) (hdiv : 0 < c.div) (hqpm : 0 < c.qpm)
    (h : parsePart R sps st p = .ok (st', ms))
    {before after : List (List El)} {els pre post : List El} {n : NoteEl} {M : ℚ}
    (hp : p.measures = before ++ els :: after) (hsplit : repairMeasure els = pre ++ .note n :: post)
    (hwf : ∀ e ∈ flatEls before ++ pre, wfEl e = true)
    (hM : ∀ a b, flatEls before ++ pre = a ++ b → 0 ≤ specCursor c a ∧ specCursor c a ≤ M)
    (hk : 8 * moves (flatEls before ++ pre) + 6 ≤ 2 ^ 53) :
    ∃ mi pn, ms[before.length]? = some mi ∧ mi.notes[(pre.filter isNote).length]? = some pn ∧
      ∀ d, n.chord = false → n.duration = some d → 0 ≤ d →
        |pn.time - specCursor c (flatEls before ++ pre)| ≤ 8 * (moves (flatEls before ++ pre) : ℚ) / 2 ^ 53 * M ∧
        |pn.seconds - secs (ctxAfter c (flatEls before ++ pre)) d| ≤
          secs (ctxAfter c (flatEls before ++ pre)) d * (6 / 2 ^ 53) ∧
        ∀ part x, readerNote R part pn = .ok x →
          |x.start - specCursor c (flatEls before ++ pre)| ≤ 8 * (moves (flatEls before ++ pre) : ℚ) / 2 ^ 53 * M := by
  unfold parsePart at h
  rw [hp] at h
  obtain ⟨stb, msb, sa, ma, st1, pn, sb, mb, sc, mc, stm, mi, msa, later, h1, h2, h3, _, _, _, _, _, _, _, _, _, _,
    hi1, hi2⟩ := note_at h hsplit
  refine ⟨mi, pn, hi1, hi2, ?_⟩
  let S := simAbs R hR M
  have hM0 : 0 ≤ M := by simpa [specCursor] using (hM [] _ (List.nil_append _).symm).2
  have hP0 : S.P ⟨c, 0, 0⟩ (partStart sps st p) :=
    ⟨(Base.mk hinv hdiv hqpm).partStart sps p, le_refl _, hM0, by simp [partStart]⟩
  have hPa := S.upto (okp := fun g e => wfEl e = true ∧ 0 ≤ g.t + secs g.c (moveOf e) ∧
      g.t + secs g.c (moveOf e) ≤ M ∧ 8 * g.k + 6 ≤ 2 ^ 53) (fun _ _ _ h => h) hP0
    (ghostOK_within _ _ hwf (by simpa only [zero_add] using hM) (by simpa only [zero_add] using hk)) h1 h2
  have hrun' : S.run ⟨c, 0, 0⟩ (flatEls before ++ pre) = ⟨ctxAfter c (flatEls before ++ pre),
      0 + specCursor c (flatEls before ++ pre), 0 + moves (flatEls before ++ pre)⟩ := ghRun _ _
  rw [hrun'] at hPa
  obtain ⟨hb, ht, _, hE⟩ := hPa
  simp only [zero_add] at hb ht hE
  intro d hc hd hd0
  obtain ⟨_, _, g3⟩ := parseNote_float h3
  obtain ⟨_, t0, _, hsec⟩ := g3 d hd hc
  rw [hb.seconds d] at hsec
  simp only [Except.ok.injEq] at hsec
  have hdq : (0 : ℚ) ≤ (d : ℚ) := by exact_mod_cast hd0
  have e2 := secF_abs hR ppq_pos hb.divq hb.qpm hdq
  rw [hsec] at e2
  rw [← t0] at hE
  have hE' : |pn.time - specCursor c (flatEls before ++ pre)| ≤
      8 * (moves (flatEls before ++ pre) : ℚ) / 2 ^ 53 * M := by
    calc _ ≤ _ := hE
      _ = _ := by unfold u53; ring
  refine ⟨hE', ?_, ?_⟩
  · calc _ ≤ _ := e2
      _ = _ := by unfold u53 secs; ring
  · intro part x hx
    obtain ⟨_, _, _, _, _, _, hs, _, _⟩ := readerNote_fields hx
    rw [hs]
    split
    · rename_i hneg
      refine le_trans ?_ hE'
      rw [abs_of_nonpos (by linarith), abs_of_nonpos (by linarith)]
      linarith
    · exact hE'

/-- the final cursor of any well-formed part (with `<backup>`s), `k` moves in all -/
theorem mxml_cursor_float_backup {R : ℚ → ℚ} (hR : Rounding R) {sps : List ScorePartEl} {st st' : PState}
    {p : PartEl} {ms : List MState} {c : Ctx} (hinv : InvF R st c) (hdiv : 0 < c.div) (hqpm : 0 < c.qpm)
    (h : parsePart R sps st p = .ok (st', ms)) {M : ℚ}
    (hwf : ∀ e ∈ partEls p, wfEl e = true)
    (hM : ∀ a b, partEls p = a ++ b → 0 ≤ specCursor c a ∧ specCursor c a ≤ M)
    (hk : 8 * moves (partEls p) + 6 ≤ 2 ^ 53) :
    |st'.tp - specCursor c (partEls p)| ≤ 8 * (moves (partEls p) : ℚ) / 2 ^ 53 * M := by
  unfold parsePart at h
  let S := simAbs R hR M
  have hM0 : 0 ≤ M := by simpa [specCursor] using (hM [] _ (List.nil_append _).symm).2
  have hP0 : S.P ⟨c, 0, 0⟩ (partStart sps st p) :=
    ⟨(Base.mk hinv hdiv hqpm).partStart sps p, le_refl _, hM0, by simp [partStart]⟩
  have hP := (S.measures p.measures hP0 (S.measuresOK_of (okg := fun g e => wfEl e = true ∧
      0 ≤ g.t + secs g.c (moveOf e) ∧ g.t + secs g.c (moveOf e) ≤ M ∧ 8 * g.k + 6 ≤ 2 ^ 53)
      (oks := fun _ _ => True) (fun _ _ _ h _ => h) _ _ _
    (ghostOK_within _ _ hwf (by simpa only [zero_add, partEls] using hM) (by simpa only [zero_add, partEls] using hk))
    (measuresFit_true R _ _)) h).1
  have hrun' : S.run ⟨c, 0, 0⟩ (flatEls p.measures) = ⟨ctxAfter c (partEls p),
      0 + specCursor c (partEls p), 0 + moves (partEls p)⟩ := ghRun _ _
  rw [hrun'] at hP
  obtain ⟨_, _, _, hE⟩ := hP
  simp only [zero_add] at hE
  calc _ ≤ _ := hE
    _ = _ := by unfold u53; ring

/-! ## exactness on dyadic scores -/

/-- EXACT CASE.  The part starts in a context with divisions a power of two and tempo `60·2^i` qpm (`DyCtx`:
… 30, 60, 120, 240 …, also 7.5 or 960); in the run before the `<note>` declared divisions are powers of two,
declared tempos are `60·2^i` (or 0 = default 120), durations `d ≥ 0` have `d · STANDARD_PPQ ≤ 2^53`, and every
exact cursor reached is representable (`n·2^k`, `|n| ≤ 2^53`).  Then NO float operation rounds: the note's onset
EQUALS the declared onset of `mxml_time_partial`, its length the declared length, and the reader's
`start_time` / `end_time` are the declared ones (when the declared end is representable too). -/
theorem mxml_time_float_exact_dyadic {R : ℚ → ℚ} (hR : Rounding R) {sps : List ScorePartEl} {st st' : PState}
    {p : PartEl} {ms : List MState} {c : Ctx} (hinv : InvF R st c) (hdy : DyCtx c)
    (h : parsePart R sps st p = .ok (st', ms))
    {before after : List (List El)} {els pre post : List El} {n : NoteEl}
    (hp : p.measures = before ++ els :: after) (hsplit : repairMeasure els = pre ++ .note n :: post)
    (hel : ∀ e ∈ flatEls before ++ pre, dyEl e)
    (hrep : ∀ a b, flatEls before ++ pre = a ++ b → Repr53 (specCursor c a)) :
    ∃ mi pn, ms[before.length]? = some mi ∧ mi.notes[(pre.filter isNote).length]? = some pn ∧
      ∀ d, n.chord = false → n.duration = some d →
        pn.time = specCursor c (flatEls before ++ pre) ∧
        (dyDur d → pn.seconds = secs (ctxAfter c (flatEls before ++ pre)) d ∧
          (0 ≤ specCursor c (flatEls before ++ pre) →
           Repr53 (specCursor c (flatEls before ++ pre) + secs (ctxAfter c (flatEls before ++ pre)) d) →
           ∀ part x, readerNote R part pn = .ok x → x.start = specCursor c (flatEls before ++ pre) ∧
             x.end_ = specCursor c (flatEls before ++ pre) + secs (ctxAfter c (flatEls before ++ pre)) d)) := by
  unfold parsePart at h
  rw [hp] at h
  obtain ⟨stb, msb, sa, ma, st1, pn, sb, mb, sc, mc, stm, mi, msa, later, h1, h2, h3, _, _, _, _, _, _, _, _, _, _,
    hi1, hi2⟩ := note_at h hsplit
  refine ⟨mi, pn, hi1, hi2, ?_⟩
  let S := simExact R hR
  have hP0 : S.P ⟨c, 0, 0⟩ (partStart sps st p) :=
    ⟨(Base.mk hinv hdy.pos.1 hdy.pos.2).partStart sps p, hdy, rfl⟩
  have hPa := S.upto (okp := fun g e => dyEl e ∧ Repr53 (g.t + secs g.c (moveOf e))) (fun _ _ _ h => h) hP0
    (ghostOK_repr _ _ hel (by simpa only [zero_add] using hrep)) h1 h2
  have hrun' : S.run ⟨c, 0, 0⟩ (flatEls before ++ pre) = ⟨ctxAfter c (flatEls before ++ pre),
      0 + specCursor c (flatEls before ++ pre), 0 + moves (flatEls before ++ pre)⟩ := ghRun _ _
  rw [hrun'] at hPa
  obtain ⟨hb, hdy', ht⟩ := hPa
  simp only [zero_add] at hb hdy' ht
  intro d hc hd
  obtain ⟨_, _, g3⟩ := parseNote_float h3
  obtain ⟨_, t0, _, hsec⟩ := g3 d hd hc
  rw [hb.seconds d] at hsec
  simp only [Except.ok.injEq] at hsec
  refine ⟨t0.trans ht, fun hdd => ?_⟩
  have hs : pn.seconds = secs (ctxAfter c (flatEls before ++ pre)) d := by rw [← hsec]; exact hdy'.secF hR hdd
  refine ⟨hs, fun h0 hr part x hx => ?_⟩
  obtain ⟨_, _, _, _, _, _, hst, he, _⟩ := readerNote_fields hx
  rw [t0, ht, if_neg (not_lt.mpr h0)] at hst
  refine ⟨hst, ?_⟩
  rw [he, hst, hs]
  exact hr.fix hR

/-- the final cursor of a dyadic part (with or without `<backup>`) is the exact final cursor -/
theorem mxml_cursor_float_exact_dyadic {R : ℚ → ℚ} (hR : Rounding R) {sps : List ScorePartEl} {st st' : PState}
    {p : PartEl} {ms : List MState} {c : Ctx} (hinv : InvF R st c) (hdy : DyCtx c)
    (h : parsePart R sps st p = .ok (st', ms)) (hel : ∀ e ∈ partEls p, dyEl e)
    (hrep : ∀ a b, partEls p = a ++ b → Repr53 (specCursor c a)) :
    st'.tp = specCursor c (partEls p) ∧ DyCtx (ctxAfter c (partEls p)) := by
  unfold parsePart at h
  let S := simExact R hR
  have hP0 : S.P ⟨c, 0, 0⟩ (partStart sps st p) :=
    ⟨(Base.mk hinv hdy.pos.1 hdy.pos.2).partStart sps p, hdy, rfl⟩
  have hP := (S.measures p.measures hP0 (S.measuresOK_of
      (okg := fun g e => dyEl e ∧ Repr53 (g.t + secs g.c (moveOf e))) (oks := fun _ _ => True)
      (fun _ _ _ h _ => h) _ _ _ (ghostOK_repr _ _ hel (by simpa only [zero_add, partEls] using hrep))
      (measuresFit_true R _ _)) h).1
  have hrun' : S.run ⟨c, 0, 0⟩ (flatEls p.measures) = ⟨ctxAfter c (partEls p),
      0 + specCursor c (partEls p), 0 + moves (partEls p)⟩ := ghRun _ _
  rw [hrun'] at hP
  obtain ⟨_, hdy', ht⟩ := hP
  simp only [zero_add] at hdy' ht
  exact ⟨ht, hdy'⟩

/-! ## structure: signs, representability, order -/

/-- ONE ELEMENT, every `Rounding R`: from a state whose cursor is a non-negative float, a well-formed element whose
`<backup>` (if it is one) fits leaves the cursor a non-negative float; and unless it is a `<backup>` the cursor
does not decrease — `R (cursor + seconds) ≥ R cursor = cursor` because `seconds ≥ 0` as computed -/
theorem mxml_float_step {R : ℚ → ℚ} (hR : Rounding R) {st st' : PState} {m m' : MState} {e : El} {c : Ctx}
    (hinv : InvF R st c) (hdiv : 0 < c.div) (hqpm : 0 < c.qpm) (hs : Safe R st) (hwf : wfEl e = true)
    (hfit : backupFits R st e) (h : parseEl R st m e = .ok (st', m')) :
    Safe R st' ∧ InvF R st' (ctxStep c e) ∧ (noBackup e = true → st.tp ≤ st'.tp) := by
  obtain ⟨a, b, _, _, _, d, _⟩ := safe_step hR (Base.mk hinv hdiv hqpm) hs hwf hfit h
  exact ⟨b, a.inv, d⟩

/-- the cursor when any element of a run is read is a non-negative float, provided the elements before it are
well-formed and every `<backup>` among them fits (`elsFit … backupFits`: the seconds computed for it do not
exceed the cursor it is applied to) -/
theorem mxml_float_cursor {R : ℚ → ℚ} (hR : Rounding R) {pre post : List El} {e : El} {st st' : PState}
    {m m' : MState} {c : Ctx} (hinv : InvF R st c) (hdiv : 0 < c.div) (hqpm : 0 < c.qpm) (hs : Safe R st)
    (hwf : ∀ x ∈ pre, wfEl x = true) (hfit : elsFit R (backupFits R) st m pre)
    (h : parseEls R st m (pre ++ e :: post) = .ok (st', m')) :
    ∃ st1 m1, parseEls R st m pre = .ok (st1, m1) ∧ 0 ≤ st1.tp ∧ R st1.tp = st1.tp ∧
      InvF R st1 (ctxAfter c pre) ∧ ∀ pn ∈ m1.notes, pn ∈ m.notes ∨ (R pn.time = pn.time ∧ 0 ≤ pn.time ∧ 0 ≤ pn.seconds) := by
  obtain ⟨st1, m1, h1, _⟩ := parseEls_append h
  let S := simSafe R hR
  have hP0 : S.P ⟨c, 0, 0⟩ st := ⟨Base.mk hinv hdiv hqpm, hs⟩
  obtain ⟨hP, new, hnew, hq⟩ := S.els pre hP0 (S.elsOK_of (okg := fun _ e => wfEl e = true) (oks := backupFits R)
    (fun _ _ _ a b => ⟨a, b⟩) pre _ _ _ (ghostOK_of_forall (okp := fun e => wfEl e = true) _ _ hwf) hfit) h1
  have hrun' : S.run ⟨c, 0, 0⟩ pre = ⟨ctxAfter c pre, 0 + specCursor c pre, 0 + moves pre⟩ := ghRun _ _
  rw [hrun'] at hP
  refine ⟨st1, m1, h1, hP.2.nonneg, hP.2.fix, hP.1.inv, ?_⟩
  intro pn hpn
  rw [hnew] at hpn
  rcases List.mem_append.mp hpn with hx | hx
  · exact Or.inl hx
  · exact Or.inr (hq pn hx)

/-- A WHOLE PART, every `Rounding R`.  The part is parsed from a state that follows `c` and whose cursor and
previous-note onset are non-negative floats (`Safe`; true of the initial state), its elements are well-formed,
and every `<backup>` fits (`measuresFit … backupFits`).  Then the final state is again such a state, and every
note of the part has an onset that is a non-negative float and a length `duration / divisions · 60 / qpm` that
AS COMPUTED is `≥ 0`; the reader reports `start_time` = that onset and an `end_time ≥ start_time`. -/
theorem mxml_float_structure {R : ℚ → ℚ} (hR : Rounding R) {sps : List ScorePartEl} {st st' : PState} {p : PartEl}
    {ms : List MState} {c : Ctx} (hinv : InvF R st c) (hdiv : 0 < c.div) (hqpm : 0 < c.qpm) (hs : Safe R st)
    (hwf : ∀ e ∈ partEls p, wfEl e = true)
    (hfit : measuresFit R (backupFits R) (partStart sps st p) p.measures)
    (h : parsePart R sps st p = .ok (st', ms)) :
    InvF R st' (ctxAfter c (partEls p)) ∧ 0 < (ctxAfter c (partEls p)).div ∧ 0 < (ctxAfter c (partEls p)).qpm ∧
    Safe R st' ∧
    ∀ mi ∈ ms, ∀ pn ∈ mi.notes, R pn.time = pn.time ∧ 0 ≤ pn.time ∧ 0 ≤ pn.seconds ∧
      ∀ part x, readerNote R part pn = .ok x → x.start = pn.time ∧ x.start ≤ x.end_ := by
  unfold parsePart at h
  let S := simSafe R hR
  have hP0 : S.P ⟨c, 0, 0⟩ (partStart sps st p) := ⟨(Base.mk hinv hdiv hqpm).partStart sps p, hs.partStart hR sps p⟩
  obtain ⟨hP, hq⟩ := S.measures p.measures hP0 (S.measuresOK_of (okg := fun _ e => wfEl e = true)
    (oks := backupFits R) (fun _ _ _ a b => ⟨a, b⟩) _ _ _
    (ghostOK_of_forall (okp := fun e => wfEl e = true) _ _ hwf) hfit) h
  have hrun' : S.run ⟨c, 0, 0⟩ (flatEls p.measures) = ⟨ctxAfter c (partEls p),
      0 + specCursor c (partEls p), 0 + moves (partEls p)⟩ := ghRun _ _
  rw [hrun'] at hP
  refine ⟨hP.1.inv, hP.1.div, hP.1.qpm, hP.2, ?_⟩
  intro mi hmi pn hpn
  obtain ⟨q1, q2, q3⟩ := hq mi hmi pn hpn
  refine ⟨q1, q2, q3, ?_⟩
  intro part x hx
  obtain ⟨_, _, _, _, _, _, hst, he, _⟩ := readerNote_fields hx
  rw [if_neg (not_lt.mpr q2)] at hst
  refine ⟨hst, ?_⟩
  rw [he, hst]
  have := hR.mono pn.time (pn.time + pn.seconds) (by linarith)
  rwa [q1] at this

/-- ORDER, every `Rounding R`: in a well-formed part without `<backup>` and without grace notes, for the `<note>`
standing after `before` and `pre`, not a chord note: every note after it — in its measure (`later`) and in all
later measures (`msa`) — has an onset `≥` its onset (the float cursor never moves back), the reader's
`end_time` of the note is `≥` its `start_time`, and the final cursor of the part is `≥` that `end_time`. -/
theorem mxml_float_monotone {R : ℚ → ℚ} (hR : Rounding R) {sps : List ScorePartEl} {st st' : PState} {p : PartEl}
    {ms : List MState} {c : Ctx} (hinv : InvF R st c) (hdiv : 0 < c.div) (hqpm : 0 < c.qpm) (hs : Safe R st)
    (hel : ∀ e ∈ partEls p, wfEl e = true ∧ noBackup e = true ∧ noGrace e = true)
    (h : parsePart R sps st p = .ok (st', ms))
    {before after : List (List El)} {els pre post : List El} {n : NoteEl}
    (hp : p.measures = before ++ els :: after) (hsplit : repairMeasure els = pre ++ .note n :: post) :
    ∃ msb mi msa earlier pn later, ms = msb ++ mi :: msa ∧ msb.length = before.length ∧
      mi.notes = earlier ++ pn :: later ∧ earlier.length = (pre.filter isNote).length ∧
      ∀ d, n.chord = false → n.duration = some d →
        (∀ pn' ∈ later, pn.time ≤ pn'.time) ∧ (∀ mk ∈ msa, ∀ pn' ∈ mk.notes, pn.time ≤ pn'.time) ∧
        pn.time ≤ st'.tp ∧
        ∀ part x, readerNote R part pn = .ok x → x.start = pn.time ∧ x.start ≤ x.end_ ∧ x.end_ ≤ st'.tp := by
  have hpe : partEls p = flatEls before ++ (pre ++ El.note n :: post) ++ flatEls after := by
    rw [partEls, hp, flatEls_append, flatEls_cons, hsplit]; simp [List.append_assoc]
  unfold parsePart at h
  rw [hp] at h
  obtain ⟨stb, msb, sa, ma, st1, pn, sb, mb, sc, mc, stm, mi, msa, later, h1, h2, h3, h4, h5, h6, ⟨x, h7⟩, h8, h9, h10,
    h11, h12, h13, _, _⟩ := note_at h hsplit
  have hlen : ma.notes.length = (pre.filter isNote).length := by
    obtain ⟨_, _, ⟨ns, ens, lns⟩, _, _, _⟩ := parseEls_out h2
    rw [ens]; simpa using lns
  refine ⟨msb, mi, msa, ma.notes, pn, later, h9, h10, h13, hlen, ?_⟩
  intro d hc hd
  -- up to the note
  let S0 := simMono R hR 0 0 (le_refl _)
  have hP0 : S0.P ⟨c, 0, 0⟩ (partStart sps st p) :=
    ⟨(Base.mk hinv hdiv hqpm).partStart sps p, hs.partStart hR sps p, le_refl _, fun pd pt hpr => (hs.prev pd pt hpr).2.2⟩
  have hPa := S0.upto (okp := fun _ e => wfEl e = true ∧ noBackup e = true ∧ noGrace e = true)
    (fun _ _ _ h => h) hP0 (ghostOK_of_forall (okp := fun e => wfEl e = true ∧ noBackup e = true ∧ noGrace e = true)
      _ _ (fun e he => hel e (by
        rw [hpe]
        rcases List.mem_append.mp he with hx | hx
        · exact List.mem_append_left _ (List.mem_append_left _ hx)
        · exact List.mem_append_left _ (List.mem_append_right _ (List.mem_append_left _ hx))))) h1 h2
  obtain ⟨hba, hsa, _, _⟩ := hPa
  have hne := hel (.note n) (by rw [hpe]; simp)
  obtain ⟨hbb, hsb, _, _, _, hmono, _⟩ := safe_step hR hba hsa hne.1 (backupFits_of_noBackup R sa hne.2.1) h5
  have hmono := hmono hne.2.1
  obtain ⟨_, _, g3⟩ := parseNote_float h3
  obtain ⟨e1, t0, _, _⟩ := g3 d hd hc
  have hsbtp : sb.tp = R (sa.tp + pn.seconds) := by rw [h4, e1]
  -- from the note on
  let S1 := simMono R hR sa.tp sb.tp hmono
  have hok1 : ∀ (g : Gh) (s : PState) (e : El), (wfEl e = true ∧ noBackup e = true ∧ noGrace e = true) → True →
      S1.ok g s e := fun _ _ _ h _ => h
  let g1 : Gh := ⟨ctxStep (S0.run ⟨c, 0, 0⟩ (flatEls before ++ pre)).c (.note n), 0, 0⟩
  have hP1 : S1.P g1 sb := ⟨hbb, hsb, le_refl _, fun pd pt hpr => by
    rw [h4] at hpr
    simp only [Option.some.injEq, Prod.mk.injEq] at hpr
    rw [← hpr.2, t0]⟩
  obtain ⟨hPc, new, hnew, hqnew⟩ := S1.els post hP1 (S1.elsOK_of hok1 post _ _ _
    (ghostOK_of_forall (okp := fun e => wfEl e = true ∧ noBackup e = true ∧ noGrace e = true) _ _
      (fun e he => hel e (by rw [hpe]; simp [he]))) (elsFit_true R _ _ _)) h6
  have hnl : new = later := List.append_cancel_left (hnew.symm.trans h12)
  subst hnl
  have hPm : S1.P (S1.run g1 post) stm := by rw [h7]; exact S1.ts x hPc
  obtain ⟨hPe, hqa⟩ := S1.measures after hPm (S1.measuresOK_of hok1 after _ _
    (ghostOK_of_forall (okp := fun e => wfEl e = true ∧ noBackup e = true ∧ noGrace e = true) _ _
      (fun e he => hel e (by rw [hpe]; exact List.mem_append_right _ he))) (measuresFit_true R _ _)) h8
  have hfin : sb.tp ≤ st'.tp := hPe.2.2.1
  refine ⟨fun pn' hpn' => by rw [t0]; exact (hqnew pn' hpn').2,
    fun mk hmk pn' hpn' => by rw [t0]; exact (hqa mk hmk pn' hpn').2, by rw [t0]; linarith, ?_⟩
  intro part x hx
  obtain ⟨_, _, _, _, _, _, hst, he, _⟩ := readerNote_fields hx
  rw [t0, if_neg (not_lt.mpr hsa.nonneg)] at hst
  rw [he, hst, ← hsbtp]
  exact ⟨t0.symm, hmono, hfin⟩

/-- `total_time` is at least every note end the reader computes — for the notes (not chord notes) of the FIRST part of
a score when that part is well-formed and has no `<backup>` and no grace notes.  (With `<backup>` this is false in
floating point: the second voice may end one ulp before the first.) -/
theorem mxml_float_total_first_part {R : ℚ → ℚ} (hR : Rounding R) {sc : Score} {d : Doc} {p : PartEl}
    {rest : List PartEl} (hparts : sc.parts = p :: rest)
    (hel : ∀ e ∈ partEls p, wfEl e = true ∧ noBackup e = true ∧ noGrace e = true)
    (h : parseDoc R sc = .ok d)
    {before after : List (List El)} {els pre post : List El} {n : NoteEl}
    (hp : p.measures = before ++ els :: after) (hsplit : repairMeasure els = pre ++ .note n :: post) :
    ∃ ms msr mi pn, d.parts = ms :: msr ∧ ms[before.length]? = some mi ∧
      mi.notes[(pre.filter isNote).length]? = some pn ∧
      ∀ dd, n.chord = false → n.duration = some dd →
        ∀ part x, readerNote R part pn = .ok x → x.start ≤ x.end_ ∧ x.end_ ≤ d.total := by
  unfold parseDoc at h
  split at h
  · contradiction
  · rename_i stf total parts hpp
    simp only [Except.ok.injEq] at h
    subst h
    rw [hparts] at hpp
    obtain ⟨st', ms, msa, h1, h2, hinv, hdiv, hqpm, hs, hle⟩ := mxml_float_first_part hR hpp
    obtain ⟨msb, mi, msa', earlier, pn, later, e1, l1, e2, l2, hall⟩ :=
      mxml_float_monotone hR hinv hdiv hqpm hs hel h1 hp hsplit
    refine ⟨ms, msa, mi, pn, h2, by rw [e1]; exact idx_mid _ _ _ _ l1.symm, by rw [e2]; exact idx_mid _ _ _ _ l2.symm, ?_⟩
    intro dd hc hd part x hx
    obtain ⟨_, _, _, hr⟩ := hall dd hc hd
    obtain ⟨_, a, b⟩ := hr part x hx
    exact ⟨a, b.trans hle⟩

/-! ## non-vacuity, on the executable model `rne53` (the arithmetic that is compared bit for bit with CPython) -/

/-- quarters at 90 qpm, divisions 2: a quarter lasts `2/3` s, which binary64 does not hold -/
def fM1 : List El := [.attributes [.divisions 2], .direction [⟨some 90, none⟩],
  .note ⟨.pitched "C" 0 4, false, some 2, none, some "quarter", 0, none⟩,
  .note ⟨.pitched "D" 0 4, false, some 2, none, some "quarter", 0, none⟩,
  .note ⟨.pitched "E" 0 4, false, some 3, none, some "quarter", 1, none⟩]
def fNote : NoteEl := ⟨.pitched "F" 0 4, false, some 2, none, some "quarter", 0, none⟩
def fPart : PartEl := ⟨"P1", [fM1, [.note fNote]]⟩

/-- the float run really rounds: the part ends at `3 - 2^-51`, not at the declared 3 s, and the last note starts
at a float that is not `7/3` … -/
example : (parsePart rne53 [] PState.init fPart).map (fun r => (r.1.tp, (onsetsOf r.2)[3]? == some (7 / 3))) =
    .ok (3 - 1 / 2 ^ 51, false) := by decide +kernel

/-- … but within the bound of `mxml_time_float`: three moves before it, relative error `≤ 9·2^-53`
(and `mxml_cursor_float`: four moves in all, `≤ 10·2^-53`) -/
example : ∀ st' ms, parsePart rne53 [] PState.init fPart = .ok (st', ms) →
    (∃ mi pn, ms[1]? = some mi ∧ mi.notes[0]? = some pn ∧ |pn.time - 7 / 3| ≤ 7 / 3 * (9 / 2 ^ 53) ∧
      |pn.seconds - 2 / 3| ≤ 2 / 3 * (6 / 2 ^ 53)) ∧ |st'.tp - 3| ≤ 3 * (10 / 2 ^ 53) := by
  intro st' ms h
  have hR := rounding_rne53
  constructor
  · obtain ⟨mi, pn, h1, h2, h3⟩ := mxml_time_float hR (InvF.init hR) (by decide) (by decide +kernel) h
      (before := [fM1]) (els := [.note fNote]) (after := []) (pre := []) (post := []) (n := fNote) rfl
      (by decide +kernel) (by decide +kernel) (by decide +kernel)
    obtain ⟨a, b, _⟩ := h3 2 rfl rfl (by decide)
    have e1 : specCursor Ctx.init (flatEls [fM1] ++ []) = 7 / 3 := by decide +kernel
    have e2 : secs (ctxAfter Ctx.init (flatEls [fM1] ++ [])) 2 = 2 / 3 := by decide +kernel
    have e3 : moves (flatEls [fM1] ++ []) = 3 := by decide +kernel
    rw [e1, e3] at a
    rw [e2] at b
    exact ⟨mi, pn, h1, h2, by norm_num at a ⊢; exact a, b⟩
  · obtain ⟨a, _⟩ := mxml_cursor_float hR (InvF.init hR) (by decide) (by decide +kernel) h (by decide +kernel)
      (by decide +kernel)
    have e1 : specCursor Ctx.init (partEls fPart) = 3 := by decide +kernel
    have e3 : moves (partEls fPart) = 4 := by decide +kernel
    rw [e1, e3] at a
    norm_num at a ⊢; exact a

/-- `exPart` of `Props/C05.lean` (divisions 2, 60 then 120 qpm, a second voice after `<backup>`, a chord, a dotted
note) is a dyadic score: `mxml_cursor_float_exact_dyadic` and `mxml_float_structure` apply, and the float run gives
exactly the declared onsets 0, 0, 1, 0, 2, 11/4 and the declared end 3 -/
example : ∀ st' ms, parsePart rne53 [] PState.init exPart = .ok (st', ms) →
    st'.tp = 3 ∧ Safe rne53 st' ∧ ∀ mi ∈ ms, ∀ pn ∈ mi.notes, 0 ≤ pn.time ∧ 0 ≤ pn.seconds := by
  intro st' ms h
  have hR := rounding_rne53
  have hdy : ∀ e ∈ partEls exPart, dyEl e := fun e he =>
    dyEl_of_B (List.all_eq_true.mp (by decide +kernel : (partEls exPart).all dyElB = true) e he)
  obtain ⟨a, _⟩ := mxml_cursor_float_exact_dyadic hR (InvF.init hR) DyCtx.init h hdy
    (by simpa only [zero_add] using prefixes_of_B (partEls exPart) Ctx.init 0 repr53_zero (by decide +kernel))
  obtain ⟨_, _, _, b, c⟩ := mxml_float_structure hR (InvF.init hR) (by decide) (by decide +kernel) (Safe.init hR)
    (fun e he => dyEl_wf (hdy e he)) (measuresFit_of_B _ _ (by decide +kernel)) h
  have e1 : specCursor Ctx.init (partEls exPart) = 3 := by decide +kernel
  exact ⟨a.trans e1, b, fun mi hmi pn hpn => ⟨(c mi hmi pn hpn).2.1, (c mi hmi pn hpn).2.2.1⟩⟩

example : (parsePart rne53 [] PState.init exPart).map (fun r => (onsetsOf r.2, r.1.tp)) =
    .ok ([0, 0, 1, 0, 2, 11 / 4], 3) := by decide +kernel

/-- with `<backup>`: the absolute bound of `mxml_cursor_float_backup` on `exPart`, six moves, largest cursor 3 -/
example : ∀ st' ms, parsePart rne53 [] PState.init exPart = .ok (st', ms) → |st'.tp - 3| ≤ 48 / 2 ^ 53 * 3 := by
  intro st' ms h
  have hR := rounding_rne53
  have hpre : ∀ a b, partEls exPart = a ++ b → 0 ≤ specCursor Ctx.init a ∧ specCursor Ctx.init a ≤ 3 := by
    intro a b hab
    have hp : a <+: partEls exPart := ⟨b, hab.symm⟩
    have : ∀ a ∈ (partEls exPart).inits, 0 ≤ specCursor Ctx.init a ∧ specCursor Ctx.init a ≤ 3 := by decide +kernel
    exact this a ((List.mem_inits _ _).mpr hp)
  have := mxml_cursor_float_backup hR (InvF.init hR) (by decide) (by decide +kernel) h (M := 3)
    (by decide +kernel) hpre (by decide +kernel)
  have e1 : specCursor Ctx.init (partEls exPart) = 3 := by decide +kernel
  have e3 : moves (partEls exPart) = 6 := by decide +kernel
  rw [e1, e3] at this
  norm_num at this ⊢; exact this

/-- order and `total_time` on `fPart` (no `<backup>`): the reader's end of the last note of measure 1 is at most
the part's final cursor -/
example : ∀ st' ms, parsePart rne53 [] PState.init fPart = .ok (st', ms) →
    ∃ mi pn, ms[0]? = some mi ∧ mi.notes[2]? = some pn ∧ pn.time ≤ st'.tp ∧
      ∀ part x, readerNote rne53 part pn = .ok x → x.start ≤ x.end_ ∧ x.end_ ≤ st'.tp := by
  intro st' ms h
  have hR := rounding_rne53
  obtain ⟨msb, mi, msa, earlier, pn, later, e1, l1, e2, l2, hall⟩ :=
    mxml_float_monotone hR (InvF.init hR) (by decide) (by decide +kernel) (Safe.init hR) (by decide +kernel) h
      (before := []) (els := fM1) (after := [[.note fNote]]) (pre := fM1.take 4) (post := [])
      (n := ⟨.pitched "E" 0 4, false, some 3, none, some "quarter", 1, none⟩) rfl (by decide +kernel)
  obtain ⟨_, _, a, b⟩ := hall 3 rfl rfl
  have hl1 : msb = [] := List.eq_nil_of_length_eq_zero l1
  subst hl1
  refine ⟨mi, pn, by rw [e1]; rfl, by rw [e2]; exact idx_mid _ _ _ _ (by rw [l2]; decide +kernel), a, ?_⟩
  intro part x hx
  exact (b part x hx).2

/-- WHY `mxml_float_monotone` / `mxml_float_total_first_part` exclude `<backup>`: 90 qpm, divisions 2, voice 1 = eighth,
eighth, half (ends at exactly 2.0 s as computed), `<backup>` 6, voice 2 = eighth, dotted half + eighth tied (1 + 5
divisions).  In binary64 the second voice — and with it the part, hence `total_time` — ends at `2 - 2^-52`, one ulp
BEFORE the end `2` the reader reports for the half note of voice 1. -/
def bPart : PartEl := ⟨"P1", [[.attributes [.divisions 2], .direction [⟨some 90, none⟩],
  .note ⟨.pitched "C" 0 5, false, some 1, some 1, some "eighth", 0, none⟩,
  .note ⟨.pitched "D" 0 5, false, some 1, some 1, some "eighth", 0, none⟩,
  .note ⟨.pitched "E" 0 5, false, some 4, some 1, some "half", 0, none⟩,
  .backup 6,
  .note ⟨.pitched "C" 0 4, false, some 1, some 2, some "eighth", 0, none⟩,
  .note ⟨.pitched "G" 0 3, false, some 5, some 2, some "half", 0, none⟩]]⟩

example : (parsePart rne53 [] PState.init bPart).map
    (fun r => (r.1.tp, (r.2.flatMap (·.notes)).map (fun pn => rne53 ((if pn.time < 0 then 0 else pn.time) + pn.seconds)))) =
    .ok (2 - 1 / 2 ^ 52, [rne53 (1 / 3), rne53 (2 / 3), 2, rne53 (1 / 3), 2 - 1 / 2 ^ 52]) := by decide +kernel

/-! ## the float timing clause at full strength, and where the code departs from it today -/

/-- FULL statement in floating point: for every part of a well-formed score without `<backup>` and grace notes, every
onset is within relative error `(k+6)·2^-53` (`k` = moves of the part) of the onset declared with the tempo in force
BY POSITION according to the score's tempo marks (`specOnsetsAt`, as in `mxml_time`).  Not a theorem today, for the
same reason as `mxml_time`: `mxml_time_float_fails_today` (F-C05-4).  Proved parts: `mxml_time_float` with
`mxml_float_first_part` / `mxml_float_later_part_partial`. -/
def mxml_time_float_full (R : ℚ → ℚ) (sc : Score) : Prop :=
  (sc.parts.all (fun p => (partEls p).all (fun e => wfEl e && noBackup e && noGrace e)) = true) →
  ∀ d, parseDoc R sc = .ok d →
    ∀ (k : Nat) (p : PartEl) (ms : List MState), sc.parts[k]? = some p → d.parts[k]? = some ms →
      (onsetsOf ms).length = (partEls p |>.filter isNote).length ∧
      ∀ x ∈ (onsetsOf ms).zip (specOnsetsAt (scoreMarks sc) (scoreCtx Ctx.init (sc.parts.take k)) 0 0 0 (partEls p)),
        x.2 - x.2 * (((moves (partEls p) : ℚ) + 6) / 2 ^ 53) ≤ x.1 ∧
        x.1 ≤ x.2 + x.2 * (((moves (partEls p) : ℚ) + 6) / 2 ^ 53)

/-- onsets the float model gives to the notes of part `k` -/
def modelOnsetsR (R : ℚ → ℚ) (sc : Score) (k : Nat) : Option (List ℚ) :=
  match parseDoc R sc with
  | .ok d => (d.parts[k]?).map onsetsOf
  | .error _ => none

/-- the full float statement fails on the replay of F-C05-4 (a dyadic score: the float run is exact there, and the
second part is timed at 120 qpm throughout — half the declared onsets in its first measure) -/
theorem mxml_time_float_fails_today : ¬ mxml_time_float_full rne53 f_c05_4 := by
  intro h
  have hk : modelOnsetsR rne53 f_c05_4 1 = some [0, 1/2, 1, 3/2, 2, 5/2, 3, 7/2] := by decide +kernel
  unfold modelOnsetsR at hk
  split at hk
  · rename_i d hd
    cases hms : d.parts[1]? with
    | none => simp [hms] at hk
    | some ms =>
      have := (h (by decide +kernel) d hd 1 f4p2 ms (by decide +kernel) hms).2
      simp only [hms, Option.map_some, Option.some.injEq] at hk
      rw [hk] at this
      obtain ⟨h2, _⟩ := this (1/2, 1) (by decide +kernel)
      have e3 : moves (partEls f4p2) = 8 := by decide +kernel
      rw [e3] at h2
      norm_num at h2
  · contradiction

end NSV.C05
