import NoteSeqVerif.Proofs.C20_pcm
/-! C20 — chunk 07/16 of the exhaustive int16 round-trip check: the 4096 values
-4096 … -1, decided by kernel evaluation of the model (`rne24` on exact rationals). -/
namespace NSV.C20
set_option maxRecDepth 100000 in
theorem pcm_chunk07 : pcmOkRange (-4096) 4096 = true := by decide +kernel
end NSV.C20
