import NoteSeqVerif.Props.C02
import NoteSeqVerif.Proofs.C02Float
/-! C02 — the floating-point side of the property: every statement here is for EVERY rounding
operator `R` with the `Rounding` facts of `Proofs/Rounding.lean` (monotone, `R 0 = 0`, relative error
`2^-53`, …), in particular for the executable float64 model (`rounding_rne53 : Rounding rne53`) that is
compared bit-exactly with the Python.

What is true in floats and what is not (each negative fact is a kernel-checked float64 instance in
`Proofs/C02Float.lean`):
* shifted times `R (t - a)`: nonnegative, weakly monotone, `0` exactly for `t = a`; NOT strictly
  monotone (`shift_collapse_rne53`), so the exact-arithmetic statement "in effect at `τ` in the piece =
  in effect at `a + τ` in the original" becomes "… at corresponding instants" (`Corr`), and corresponding
  instants always exist within `2^-51` relative (`corresponding_instants_float`);
* float hop candidates `R (h + R (i * h))`: weakly increasing (all that `split_note_sequence` needs),
  strictly increasing below index `2^51` (NOT beyond: `hop_not_strict_rne53`), all but the last `< total`
  (the last one can be `= total` or `> total`: `hop_last_eq_total_rne53`, `hop_last_gt_total_rne53`),
  and the vector handed to `_extract_subsequences` is always accepted (`split_hop_ok_float`). -/
namespace NSV.C02

variable {R : ℚ → ℚ} {preserve : List Int} {s : NoteSeq} {st : List ℚ} {ps : List NoteSeq}

/-! ## order facts of shifted times -/

/-- for every cut `a`: a time at or after the cut is shifted to a nonnegative time; the shift keeps
the weak order; exactly the cut is shifted to `0`; a strict order of shifted times reflects -/
theorem shift_order_float (hR : Rounding R) (a t t' : ℚ) :
    (a ≤ t → 0 ≤ R (t - a)) ∧ (t ≤ t' → R (t - a) ≤ R (t' - a)) ∧ (R (t - a) = 0 ↔ t = a) ∧
    (0 < R (t - a) ↔ a < t) ∧ (R (t - a) < R (t' - a) → t < t') :=
  ⟨shift_nonneg hR, shift_mono hR a, shift_eq_zero_iff hR (by norm_num) a t,
    shift_pos_iff hR (by norm_num) a t, shift_lt_reflect hR a⟩

/-- `R x = 0 ↔ x = 0` and `0 < R x ↔ 0 < x` (from the relative error bound alone) -/
theorem round_sign_float (hR : Rounding R) (x : ℚ) : (R x = 0 ↔ x = 0) ∧ (0 < R x ↔ 0 < x) :=
  ⟨round_eq_zero_iff hR (by norm_num) x, round_pos_iff hR (by norm_num) x⟩

/-- times that collapse under the shift are within `2^-51` (relative to the shifted time) -/
theorem shift_close_float (hR : Rounding R) {a t t' : ℚ} (h1 : a ≤ t) (h2 : t ≤ t')
    (he : R (t' - a) = R (t - a)) : t' - t ≤ (t - a) * (1 / 2 ^ 51) :=
  shift_close hR h1 h2 he

/-! ## notes and beats of a float piece -/

/-- a note that belongs to the piece `[a, b)` (so `a ≤ start < b`) and is well formed (`start ≤ end`)
is stored with `0 ≤ start' ≤ end' ≤ R (b - a)`; `start' = 0` exactly when it starts on the cut -/
theorem clipR_order_float (hR : Rounding R) (a b : ℚ) (n : Note) (h1 : a ≤ n.start) (h2 : n.start < b)
    (h3 : n.start ≤ n.end_) :
    0 ≤ (clipR R a b n).start ∧ (clipR R a b n).start ≤ (clipR R a b n).end_ ∧
    (clipR R a b n).end_ ≤ R (b - a) ∧ ((clipR R a b n).start = 0 ↔ n.start = a) := by
  refine ⟨shift_nonneg hR h1, ?_, ?_, shift_eq_zero_iff hR (by norm_num) a n.start⟩
  · exact shift_mono hR a (le_min h3 h2.le)
  · exact shift_mono hR a (min_le_right _ _)

/-- clipping keeps the weak order of starts and of ends between any two notes -/
theorem clipR_mono_float (hR : Rounding R) (a b : ℚ) (n n' : Note) :
    (n.start ≤ n'.start → (clipR R a b n).start ≤ (clipR R a b n').start) ∧
    (n.end_ ≤ n'.end_ → (clipR R a b n).end_ ≤ (clipR R a b n').end_) :=
  ⟨fun h => shift_mono hR a h, fun h => shift_mono hR a (min_le_min_right b h)⟩

/-- the notes of float piece `i` are in (weak) start order, every start and end lies in
`[·, R (b - a)]` with `0 ≤ start`, and so does the piece's `total_time` -/
theorem extract_notes_float (hR : Rounding R) (hv : Valid s st)
    (h : extractSubsequencesR R preserve s st = .ok ps)
    {i : Nat} {a b : ℚ} (ha : st[i]? = some a) (hb : st[i + 1]? = some b) :
    ∃ p, ps[i]? = some p ∧ p.notes.Pairwise (fun x y => x.start ≤ y.start) ∧
      (∀ m ∈ p.notes, 0 ≤ m.start ∧ m.start ≤ R (b - a) ∧ m.end_ ≤ R (b - a)) ∧
      0 ≤ p.totalTime ∧ p.totalTime ≤ R (b - a) := by
  obtain ⟨p, hp, hn⟩ := extract_notes_spec hv h ha hb
  have hab : a ≤ b := by
    have hs := hv.sorted
    rw [SortedLE, List.pairwise_iff_getElem] at hs
    obtain ⟨hi, rfl⟩ := List.getElem?_eq_some_iff.mp ha
    obtain ⟨hi', rfl⟩ := List.getElem?_eq_some_iff.mp hb
    exact hs i (i + 1) hi hi' (by omega)
  have hall : ∀ m ∈ p.notes, 0 ≤ m.start ∧ m.start ≤ R (b - a) ∧ m.end_ ≤ R (b - a) := by
    intro m hm
    rw [hn] at hm
    obtain ⟨n, hnm, rfl⟩ := List.mem_map.mp hm
    have := (List.mem_filter.mp hnm).2
    simp only [Bool.and_eq_true] at this
    have h1 : a ≤ n.start := of_decide_eq_true this.1
    have h2 : n.start < b := of_decide_eq_true this.2
    exact ⟨shift_nonneg hR h1, shift_mono hR a h2.le, shift_mono hR a (min_le_right _ _)⟩
  refine ⟨p, hp, ?_, hall, ?_⟩
  · rw [hn, List.pairwise_map]
    refine ((sortByRat_pairwise (·.start) s.notes).filter _).imp ?_
    intro x y hxy
    exact shift_mono hR a hxy
  · obtain ⟨t0, t1, t2⟩ := extract_total_time hv h p (List.mem_of_getElem? hp)
    refine ⟨t0, ?_⟩
    rcases t2 with h0 | ⟨n, hn', he⟩
    · rw [h0]; exact shift_nonneg hR hab
    · rw [← he]; exact (hall n hn').2.2

/-- the BEAT annotations of float piece `i` are in (weak) time order with `0 ≤ time ≤ R (b - a)` -/
theorem extract_beats_float (hR : Rounding R) (hv : Valid s st)
    (h : extractSubsequencesR R preserve s st = .ok ps)
    {i : Nat} {a b : ℚ} (ha : st[i]? = some a) (hb : st[i + 1]? = some b) :
    ∃ p, ps[i]? = some p ∧ (beats p).Pairwise (fun x y => x.time ≤ y.time) ∧
      ∀ x ∈ beats p, 0 ≤ x.time ∧ x.time ≤ R (b - a) := by
  obtain ⟨p, hp, hn⟩ := extract_beats hv h ha hb
  refine ⟨p, hp, ?_, ?_⟩
  · rw [hn, List.pairwise_map]
    refine ((sortByRat_pairwise (·.time) (beats s)).filter _).imp ?_
    intro x y hxy
    exact shift_mono hR a hxy
  · intro x hx
    rw [hn] at hx
    obtain ⟨e, he, rfl⟩ := List.mem_map.mp hx
    have := (List.mem_filter.mp he).2
    simp only [Bool.and_eq_true] at this
    exact ⟨shift_nonneg hR (of_decide_eq_true this.1), shift_mono hR a (of_decide_eq_true this.2 : e.time < b).le⟩

/-! ## state events of a float piece -/

/-- float form of the boundary rule: the tempo / time signature / key signature / chord / pedal events
of piece `i` are in (weak) time order and have `0 ≤ time ≤ R (b - a)`.  (Which events they are does
not depend on `R`: `state_pieces_spec` — the carried state at `0`, then the events strictly inside
`(a, b)`; an event exactly at `b` is the carried state of the next piece.)  The exact-arithmetic bound
`time < b - a` becomes `≤ R (b - a)`: an event just before `b` can be rounded onto `R (b - a)`. -/
theorem extract_state_times_float (hR : Rounding R) (hv : Valid s st)
    (h : extractSubsequencesR R preserve s st = .ok ps)
    {i : Nat} {a b : ℚ} (ha : st[i]? = some a) (hb : st[i + 1]? = some b) :
    ∃ p, ps[i]? = some p ∧
      (p.timeSigs.Pairwise (fun x y => x.time ≤ y.time) ∧ ∀ x ∈ p.timeSigs, 0 ≤ x.time ∧ x.time ≤ R (b - a)) ∧
      (p.keySigs.Pairwise (fun x y => x.time ≤ y.time) ∧ ∀ x ∈ p.keySigs, 0 ≤ x.time ∧ x.time ≤ R (b - a)) ∧
      (p.tempos.Pairwise (fun x y => x.time ≤ y.time) ∧ ∀ x ∈ p.tempos, 0 ≤ x.time ∧ x.time ≤ R (b - a)) ∧
      ((chords p).Pairwise (fun x y => x.time ≤ y.time) ∧ ∀ x ∈ chords p, 0 ≤ x.time ∧ x.time ≤ R (b - a)) ∧
      (p.ccs.Pairwise (fun x y => x.time ≤ y.time) ∧ ∀ x ∈ p.ccs, 0 ≤ x.time ∧ x.time ≤ R (b - a)) := by
  have hab : a ≤ b := by
    have hs := hv.sorted
    rw [SortedLE, List.pairwise_iff_getElem] at hs
    obtain ⟨hi, rfl⟩ := List.getElem?_eq_some_iff.mp ha
    obtain ⟨hi', rfl⟩ := List.getElem?_eq_some_iff.mp hb
    exact hs i (i + 1) hi hi' (by omega)
  obtain ⟨p, hp, h1, h2, h3, h4⟩ := state_pieces_spec hv h ha hb
  have hpe := extract_piece hv h ha hb
  rw [hp] at hpe
  have hp' : p = specPiece R preserve s (a, b) := Option.some.inj hpe
  refine ⟨p, hp, ?_, ?_, ?_, ?_, ?_⟩
  · rw [h1]; exact specState_times_R hR (fun e : TimeSig => e.time) TimeSig.setTime (fun _ _ => rfl) _ a b hab
  · rw [h2]; exact specState_times_R hR (fun e : KeySig => e.time) KeySig.setTime (fun _ _ => rfl) _ a b hab
  · rw [h3]; exact specState_times_R hR (fun e : Tempo => e.time) Tempo.setTime (fun _ _ => rfl) _ a b hab
  · rw [h4]; exact specState_times_R hR (fun e : TextAnn => e.time) TextAnn.setTime (fun _ _ => rfl) _ a b hab
  · have : p.ccs = specPedals R preserve s a b := by rw [hp']; rfl
    rw [this]; exact specPedals_times_R hR preserve s a b hab

/-! ## state in effect at corresponding instants -/

/-- `τ` (instant of the piece) corresponds to `T` (instant of the original) for the event times
`times`: rounding the shift moves no event strictly inside `(a, b)` across -/
def Corr (R : ℚ → ℚ) (a b τ T : ℚ) (times : List ℚ) : Prop :=
  0 ≤ τ ∧ a ≤ T ∧ T < b ∧ ∀ t ∈ times, a < t → t < b → (R (t - a) ≤ τ ↔ t ≤ T)

/-- which instants correspond, for any finite set of event times and any `Rounding R`:
(1) exact arithmetic: `τ` and `a + τ` (the hypothesis of the `R = id` theorems);
(2) the start of the piece and the cut;
(3) `R (T - a)` and `T`, when no later event inside the piece collapses onto `T`;
(4) always: `R (T - a)` and some `T' ∈ [T, b)` that the shift cannot tell from `T`
    (`R (T' - a) = R (T - a)`, hence `T' - T ≤ (T - a) · 2^-51`). -/
theorem corresponding_instants_float (hR : Rounding R) (a b : ℚ) (times : List ℚ) :
    (∀ τ, 0 ≤ τ → τ < b - a → Corr id a b τ (a + τ) times) ∧
    (a < b → Corr R a b 0 a times) ∧
    (∀ T, a ≤ T → T < b → (∀ t ∈ times, T < t → t < b → R (T - a) < R (t - a)) →
      Corr R a b (R (T - a)) T times) ∧
    (∀ T, a ≤ T → T < b → ∃ T', T ≤ T' ∧ T' < b ∧ R (T' - a) = R (T - a) ∧
      T' - T ≤ (T - a) * (1 / 2 ^ 51) ∧ Corr R a b (R (T - a)) T' times) := by
  refine ⟨?_, ?_, ?_, ?_⟩
  · intro τ h0 h1
    refine ⟨h0, by linarith, by linarith, ?_⟩
    intro t _ _ _
    simp only [id]
    constructor <;> intro h <;> linarith
  · intro hab
    exact ⟨le_refl _, le_refl _, hab, fun t _ hat _ => corr_start hR (by norm_num) a t hat⟩
  · intro T hT hTb hnc
    exact ⟨shift_nonneg hR hT, hT, hTb, fun t ht _ htb => corr_rounded hR a b T t (hnc t ht) htb⟩
  · intro T hT hTb
    obtain ⟨T', h1, h2, h3, h4⟩ := corr_exists hR times a b T hTb
    exact ⟨T', h1, h2, h3, shift_close hR hT h1 h3, shift_nonneg hR hT, by linarith, h2, h4⟩

/-- **generic float in-effect lemma**: at corresponding instants the event in effect in the piece
carries the same value as the one in effect in the original, for every `val` that does not look at
the time (float version of `extract_state_in_effect`, which is the case `R = id`, `T = a + τ`). -/
theorem extract_state_in_effect_float {α β : Type} (hR : Rounding R) (time : α → ℚ)
    (setTime : α → ℚ → α) (val : α → β)
    (htime : ∀ e t, time (setTime e t) = t) (hval : ∀ e t, val (setTime e t) = val e)
    (evs : List α) (a b τ T : ℚ) (hc : Corr R a b τ T (evs.map time)) :
    (inEffect time (specState R time setTime evs a b) τ).map val = (inEffect time evs T).map val :=
  specState_in_effect_R hR time setTime val htime hval evs a b τ T hc.1 hc.2.1 hc.2.2.1
    (fun e he => hc.2.2.2 (time e) (List.mem_map_of_mem he))

section inEffectFloat
variable (hR : Rounding R) (hv : Valid s st) (h : extractSubsequencesR R preserve s st = .ok ps)
  {i : Nat} {a b τ T : ℚ} (ha : st[i]? = some a) (hb : st[i + 1]? = some b)
include hR hv h ha hb

theorem extract_timeSigs_in_effect_float (hc : Corr R a b τ T (s.timeSigs.map (·.time))) :
    ∃ p, ps[i]? = some p ∧
      (inEffect (·.time) p.timeSigs τ).map (TimeSig.setTime · 0) =
        (inEffect (·.time) s.timeSigs T).map (TimeSig.setTime · 0) := by
  refine ⟨specPiece R preserve s (a, b), extract_piece hv h ha hb, ?_⟩
  show (inEffect (·.time) (specState R (·.time) TimeSig.setTime s.timeSigs a b) τ).map (TimeSig.setTime · 0) = _
  exact extract_state_in_effect_float hR (·.time) TimeSig.setTime (TimeSig.setTime · 0) (fun _ _ => rfl)
    (fun _ _ => rfl) s.timeSigs a b τ T hc

theorem extract_keySigs_in_effect_float (hc : Corr R a b τ T (s.keySigs.map (·.time))) :
    ∃ p, ps[i]? = some p ∧
      (inEffect (·.time) p.keySigs τ).map (KeySig.setTime · 0) =
        (inEffect (·.time) s.keySigs T).map (KeySig.setTime · 0) := by
  refine ⟨specPiece R preserve s (a, b), extract_piece hv h ha hb, ?_⟩
  show (inEffect (·.time) (specState R (·.time) KeySig.setTime s.keySigs a b) τ).map (KeySig.setTime · 0) = _
  exact extract_state_in_effect_float hR (·.time) KeySig.setTime (KeySig.setTime · 0) (fun _ _ => rfl)
    (fun _ _ => rfl) s.keySigs a b τ T hc

theorem extract_tempos_in_effect_float (hc : Corr R a b τ T (s.tempos.map (·.time))) :
    ∃ p, ps[i]? = some p ∧
      (inEffect (·.time) p.tempos τ).map (Tempo.setTime · 0) =
        (inEffect (·.time) s.tempos T).map (Tempo.setTime · 0) := by
  refine ⟨specPiece R preserve s (a, b), extract_piece hv h ha hb, ?_⟩
  show (inEffect (·.time) (specState R (·.time) Tempo.setTime s.tempos a b) τ).map (Tempo.setTime · 0) = _
  exact extract_state_in_effect_float hR (·.time) Tempo.setTime (Tempo.setTime · 0) (fun _ _ => rfl)
    (fun _ _ => rfl) s.tempos a b τ T hc

theorem extract_chords_in_effect_float (hc : Corr R a b τ T ((chords s).map (·.time))) :
    ∃ p, ps[i]? = some p ∧
      (inEffect (·.time) (chords p) τ).map (TextAnn.setTime · 0) =
        (inEffect (·.time) (chords s) T).map (TextAnn.setTime · 0) := by
  obtain ⟨p, hp, _, _, _, hch⟩ := state_pieces_spec hv h ha hb
  refine ⟨p, hp, ?_⟩
  rw [hch]
  exact extract_state_in_effect_float hR (·.time) TextAnn.setTime (TextAnn.setTime · 0) (fun _ _ => rfl)
    (fun _ _ => rfl) (chords s) a b τ T hc

/-- per `(instrument, control number)`: the pedal value in effect (all fields but the time); only the
events of that key need to correspond -/
theorem extract_pedal_in_effect_float (κ : PedalKey)
    (hc : Corr R a b τ T (((pedals preserve s).filter (fun e => decide (CC.key e = κ))).map (·.time))) :
    ∃ p, ps[i]? = some p ∧
      (inEffectKey p.ccs κ τ).map (CC.setTime · 0) =
        (inEffectKey (pedals preserve s) κ T).map (CC.setTime · 0) := by
  refine ⟨specPiece R preserve s (a, b), extract_piece hv h ha hb, ?_⟩
  show (inEffectKey (specPedals R preserve s a b) κ τ).map (CC.setTime · 0) = _
  refine specPedals_in_effect_R hR preserve s a b τ T κ hc.1 hc.2.1 hc.2.2.1 ?_
  intro e he hk
  exact hc.2.2.2 e.time (List.mem_map_of_mem (List.mem_filter.mpr ⟨he, by simpa using hk⟩))

end inEffectFloat

/-- unconditional float reading of "the state in effect at the corresponding instant": for EVERY
instant `T ∈ [a, b)` of the original, the state in effect in the piece at the shifted instant
`R (T - a)` is the original's state at an instant `T' ∈ [T, b)` with `R (T' - a) = R (T - a)`
(so `T' - T ≤ (T - a) · 2^-51`); and at the start of the piece it is exactly the state at the cut. -/
theorem extract_state_in_effect_rounded_float {α β : Type} (hR : Rounding R) (time : α → ℚ)
    (setTime : α → ℚ → α) (val : α → β)
    (htime : ∀ e t, time (setTime e t) = t) (hval : ∀ e t, val (setTime e t) = val e)
    (evs : List α) (a b : ℚ) :
    (a < b → (inEffect time (specState R time setTime evs a b) 0).map val = (inEffect time evs a).map val) ∧
    ∀ T, a ≤ T → T < b → ∃ T', T ≤ T' ∧ T' < b ∧ R (T' - a) = R (T - a) ∧
      T' - T ≤ (T - a) * (1 / 2 ^ 51) ∧
      (inEffect time (specState R time setTime evs a b) (R (T - a))).map val =
        (inEffect time evs T').map val := by
  obtain ⟨_, c2, _, c4⟩ := corresponding_instants_float hR a b (evs.map time)
  refine ⟨fun hab => extract_state_in_effect_float hR time setTime val htime hval evs a b 0 a (c2 hab), ?_⟩
  intro T hT hTb
  obtain ⟨T', h1, h2, h3, h4, h5⟩ := c4 T hT hTb
  exact ⟨T', h1, h2, h3, h4, extract_state_in_effect_float hR time setTime val htime hval evs a b _ T' h5⟩

/-- cut, two adjacent float64 times and two tempo events for `in_effect_exact_instant_fails_rne53` -/
def fxA : ℚ := 1 / 2 ^ 53
def fxT : ℚ := 1 + 1 / 2 ^ 51
def fxT' : ℚ := 1 + 1 / 2 ^ 51 + 1 / 2 ^ 52
def fxTempos : List Tempo := [⟨fxT, 100⟩, ⟨fxT', 140⟩]

/-- the exact-instant statement of the `R = id` theorems is FALSE in float64: cut at `a = 2^-53`, two
tempo events at the adjacent float64 times `t = 1 + 2^-51` and `t' = t + 2^-52`; both are stored at
`τ = t` in the piece, so the piece has the second tempo in effect at `τ` while the original still has
the first one at `a + τ` (`< t'`) -/
theorem in_effect_exact_instant_fails_rne53 :
    specState rne53 (·.time) Tempo.setTime fxTempos fxA 2 = [⟨fxT, 100⟩, ⟨fxT, 140⟩] ∧
    (inEffect (·.time) (specState rne53 (·.time) Tempo.setTime fxTempos fxA 2) fxT).map (·.qpm) = some 140 ∧
    (inEffect (·.time) fxTempos (fxA + fxT)).map (·.qpm) = some 100 ∧
    fxA + fxT < fxT' := by
  have hs : sortByRat (·.time) fxTempos = fxTempos := sortByRat_of_pairwise _ _ (by decide +kernel)
  have hspec : specState rne53 (·.time) Tempo.setTime fxTempos fxA 2 = [⟨fxT, 100⟩, ⟨fxT, 140⟩] := by
    rw [specState_eq, hs]; decide +kernel
  have hs2 : sortByRat (·.time) ([⟨fxT, 100⟩, ⟨fxT, 140⟩] : List Tempo) = [⟨fxT, 100⟩, ⟨fxT, 140⟩] :=
    sortByRat_of_pairwise _ _ (by decide +kernel)
  refine ⟨hspec, ?_, ?_, by decide +kernel⟩
  · rw [hspec]; unfold inEffect; rw [hs2]; decide +kernel
  · unfold inEffect; rw [hs]; decide +kernel

/-! ## float hop sizes -/

/-- **float version of `split_hop_times`**, for every monotone rounding operator: the candidate loop
over the float candidates is a filter (a candidate is dropped iff `skip_splits_inside_notes` and some
note has `start < t < end`) -/
theorem split_hop_times_of_mono (hmono : ∀ x y, x ≤ y → R x ≤ R y) (preserve : List Int) (s : NoteSeq)
    (h : ℚ) (hh : 0 < h) (skip : Bool) :
    splitHopR R preserve s h skip =
      splitWith R preserve s ((hopTimesR R h s.totalTime).filter (keep skip s.notes)) := by
  unfold splitHopR sortedNotes
  have : h ≠ 0 := hh.ne'
  simp only [this, ↓reduceIte]
  rw [hopLoop_eq_filter skip _ _ (hopTimesR_sorted hmono h s.totalTime hh.le) (sortByRat_pairwise _ _)]
  congr 1
  apply List.filter_congr
  intro t _
  exact keep_perm skip (sortByRat_perm _ _) t

theorem split_hop_times_float (hR : Rounding R) (preserve : List Int) (s : NoteSeq) (h : ℚ) (hh : 0 < h)
    (skip : Bool) :
    splitHopR R preserve s h skip =
      splitWith R preserve s ((hopTimesR R h s.totalTime).filter (keep skip s.notes)) :=
  split_hop_times_of_mono hR.mono preserve s h hh skip

/-- the compiled model (`rne53`, the one compared bit-exactly with the Python) -/
theorem split_hop_times_rne53 (s : NoteSeq) (h : ℚ) (hh : 0 < h) (skip : Bool) :
    splitHop s h skip =
      splitWith rne53 Gen.PRESERVE s ((hopTimesR rne53 h s.totalTime).filter (keep skip s.notes)) :=
  split_hop_times_float rounding_rne53 Gen.PRESERVE s h hh skip

/-- **float version of `hop_times_exact`**: which numbers the candidates are (index below the float
quotient `R (R (total - h) / h)`, value `R (h + R (i·h))`, positive), in weakly increasing order, and
strictly increasing when there are at most `2^51 + 1` of them -/
theorem hop_times_float (hR : Rounding R) (h total : ℚ) (hh : 0 < h) :
    (∀ t, t ∈ hopTimesR R h total ↔
      ∃ i : ℕ, (i : ℚ) < R (R (total - h) / h) ∧ t = R (h + R ((i : ℚ) * h))) ∧
    (∀ t ∈ hopTimesR R h total, 0 < t) ∧
    SortedLE (hopTimesR R h total) ∧
    ((hopTimesR R h total).length ≤ 2 ^ 51 + 1 → (hopTimesR R h total).Pairwise (fun x y => x < y)) := by
  refine ⟨mem_hopTimesR R h total, ?_, hopTimesR_sorted hR.mono h total hh.le,
    hopTimesR_strict hR h total hh⟩
  intro t ht
  obtain ⟨i, _, rfl⟩ := (mem_hopTimesR R h total t).mp ht
  exact hopCand_pos hR hh i

/-- candidate number `i`: within `2^-51` (relative) of the hop multiple `(i+1)·h`; strictly below
`total` unless it is the last one (index `< 2^51`); the last one is below `total·(1 + 2^-51)` — it can
equal or exceed `total` (`hop_last_eq_total_rne53`, `hop_last_gt_total_rne53`) -/
theorem hop_candidates_float (hR : Rounding R) (h total : ℚ) (hh : 0 < h) (i : ℕ) (t : ℚ)
    (ht : (hopTimesR R h total)[i]? = some t) :
    t = R (h + R ((i : ℚ) * h)) ∧
    |t - ((i : ℚ) + 1) * h| ≤ ((i : ℚ) + 1) * h * (1 / 2 ^ 51) ∧
    (i + 1 < (hopTimesR R h total).length → i + 1 ≤ 2 ^ 51 → t < total) ∧
    (i ≤ 2 ^ 53 → t < total * (1 + 1 / 2 ^ 51)) := by
  obtain ⟨hi, hget⟩ := List.getElem?_eq_some_iff.mp ht
  have ht' : t = R (h + R ((i : ℚ) * h)) := by
    have := hopTimesR_getElem? R h total i hi
    rw [ht] at this
    exact Option.some.inj this
  subst ht'
  refine ⟨rfl, hopCand_near hR hh i, ?_, ?_⟩
  · intro hlt hle
    rw [hopTimesR_length] at hlt
    exact hopCand_lt_total hR hh hle ((lt_hopLen_iff R h total (i + 1)).mp hlt)
  · intro hle
    rw [hopTimesR_length] at hi
    exact (hopCand_lt_total_near hR hh hle ((lt_hopLen_iff R h total i).mp hi)).2

/-- **splitting by a float hop size never raises**: for an unquantized sequence, `h > 0` and at most
`2^51 + 1` candidates, the vector handed to `_extract_subsequences` (`0`, the accepted float
candidates, and `total_time` if it lies beyond the last of them) is sorted with every entry but the
last `< total_time`, so the result is the list of closed-form pieces of consecutive entries. -/
theorem split_hop_ok_float (hR : Rounding R) (preserve : List Int) (s : NoteSeq) (h : ℚ) (hh : 0 < h)
    (skip : Bool) (hq : s.isQuantized = false)
    (hlen : (hopTimesR R h s.totalTime).length ≤ 2 ^ 51 + 1) :
    splitHopR R preserve s h skip =
      .ok ((pairs (splitVector s ((hopTimesR R h s.totalTime).filter (keep skip s.notes)))).map
        (specPiece R preserve s)) := by
  rw [split_hop_times_float hR preserve s h hh skip]
  obtain ⟨h1, h2, h3, h4⟩ := hop_vector_ok hR s h hh (keep skip s.notes) hlen
  exact splitWith_ok R preserve s _ hq h1 h2 h3 h4

/-! ## non-vacuity -/

-- the hypotheses are satisfiable: `rne53` is a `Rounding`, `exSeq` cut at `[1, 2, 3]` is valid
example : Rounding rne53 := rounding_rne53
example : ∃ ps, extractSubsequencesR rne53 Gen.PRESERVE exSeq [1, 2, 3] = .ok ps ∧ ps.length = 2 :=
  ⟨_, extract_eq_spec rne53 Gen.PRESERVE exSeq [1, 2, 3] ⟨by decide, by decide, by decide, by decide⟩,
    by simp [pairs]⟩
-- corresponding instants that are not the trivial ones: float64 cut `a = 0.1`, tempo at `0.3`,
-- piece instant `τ = rne53 (0.3 - 0.1)` corresponds to `T = 0.3`
example : Corr rne53 (3602879701896397 / 2 ^ 55) 1 (rne53 (5404319552844595 / 2 ^ 54 - 3602879701896397 / 2 ^ 55))
    (5404319552844595 / 2 ^ 54) [5404319552844595 / 2 ^ 54, 1 / 2] := by
  refine ⟨by decide +kernel, by decide +kernel, by decide +kernel, ?_⟩
  intro t ht _ _
  simp only [List.mem_cons, List.not_mem_nil, or_false] at ht
  rcases ht with rfl | rfl <;> decide +kernel
-- a float hop size with a non-trivial candidate vector inside the bound of `split_hop_ok_float`
example : (0 : ℚ) < 3 / 4 ∧ exSeq.isQuantized = false ∧
    hopTimesR rne53 (3 / 4) exSeq.totalTime = [3 / 4, 3 / 2, 9 / 4] ∧
    (hopTimesR rne53 (3 / 4) exSeq.totalTime).length ≤ 2 ^ 51 + 1 := by decide +kernel
example : (hopTimesR rne53 (3 / 4) 3)[1]? = some (3 / 2) ∧ 1 + 1 < (hopTimesR rne53 (3 / 4) 3).length := by
  decide +kernel
-- a note that satisfies the hypotheses of `clipR_order_float`
example : (1 : ℚ) ≤ (exNote 64 (3/2) 3).start ∧ (exNote 64 (3/2) 3).start < 2 ∧
    (exNote 64 (3/2) 3).start ≤ (exNote 64 (3/2) 3).end_ := by decide +kernel

/-! ## the silence test in floats -/

/-- `split_note_sequence_on_silence` decides with `start > R (last + gap)`.  For a double `start` (`R start = start`)
that IS the exact-arithmetic statement "the onset comes after more than `gap` of silence", with one exception:
the onset is the very double the sum `last + gap` rounds UP to (then the code does not split although the real
silence exceeds the gap by less than the rounding of the sum). -/
theorem silence_decision_float (hR : Rounding R) (start last gap : ℚ) (hs : R start = start) :
    (start > R (last + gap) ↔ start > last + gap) ∨ (start = R (last + gap) ∧ last + gap < start) := by
  by_cases h : start = R (last + gap) ∧ last + gap < start
  · exact Or.inr h
  · left
    constructor
    · intro h1
      by_contra h2
      have := hR.mono _ _ (not_lt.mp h2)
      rw [hs] at this
      exact absurd h1 (not_lt.mpr this)
    · intro h1
      have h2 := hR.mono _ _ h1.le
      rw [hs] at h2
      rcases h2.lt_or_eq with h3 | h3
      · exact h3
      · exact absurd ⟨h3.symm, h1⟩ h

/-- every silence decision of the loop, hence every split point of `split_silence_times`, obeys it; in particular an
onset that is NOT the rounded sum is a split point iff it really follows more than `gap` of silence -/
theorem silence_decision_float_of_ne (hR : Rounding R) (start last gap : ℚ) (hs : R start = start)
    (hne : start ≠ R (last + gap)) : start > R (last + gap) ↔ start > last + gap := by
  rcases silence_decision_float hR start last gap hs with h | h
  · exact h
  · exact absurd h.1 hne

def fxLast : ℚ := 3602879701896397 / 18014398509481984     -- 0.2
def fxGap : ℚ := 3152519739159347 / 4503599627370496        -- 0.7
def fxOnset : ℚ := 8106479329266893 / 9007199254740992      -- 0.9
def fxLast' : ℚ := 3602879701896397 / 36028797018963968    -- 0.1
def fxGap' : ℚ := 3602879701896397 / 18014398509481984     -- 0.2
def fxOnset' : ℚ := 1351079888211149 / 4503599627370496    -- 0.30000000000000004

/-- the reordered test `R (start - last) > gap` is NOT the same decision in float64: notes ending at 0.2, gap 0.7,
onset 0.9 — the real silence 0.9 - 0.2 exceeds 0.7 (by 2^-54) and the code splits, the reordered test does not -/
theorem silence_reordered_differs_rne53 :
    rne53 fxOnset = fxOnset ∧ fxOnset > fxLast + fxGap ∧ fxOnset > rne53 (fxLast + fxGap) ∧
    ¬ rne53 (fxOnset - fxLast) > fxGap := by decide +kernel

/-- the exceptional case of `silence_decision_float` occurs in float64: last end 0.1, gap 0.2, onset
0.30000000000000004 = the double 0.1 + 0.2 rounds up to; the real silence exceeds the gap, the code does not split -/
theorem silence_rounded_sum_case_rne53 :
    rne53 fxOnset' = fxOnset' ∧ fxOnset' = rne53 (fxLast' + fxGap') ∧ fxLast' + fxGap' < fxOnset' ∧
    ¬ fxOnset' > rne53 (fxLast' + fxGap') := by decide +kernel

example : (3 : ℚ) > rne53 (1 + 1) ↔ (3 : ℚ) > 1 + 1 :=
  silence_decision_float_of_ne rounding_rne53 3 1 1 (by decide +kernel) (by decide +kernel)

end NSV.C02
