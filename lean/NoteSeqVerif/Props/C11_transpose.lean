import NoteSeqVerif.Props.C10
import NoteSeqVerif.Model.C11WF
import Mathlib.Tactic.Linarith
-- THEOREMS: wf_transpose no_invention_transpose
/-! # C11 (b) — transpose_note_sequence (in_place = False) returns a well-formed sequence, invents nothing
Corollary of `NSV.C10.transpose_ns_spec` (model owned by C10, imported read-only); holds for every
chord-figure splitter `split`. -/
namespace NSV.C11
open NSV NSV.C10

theorem pointwise_time {split : String → Except Err Sym} {k : Int} :
    ∀ {l r : List TextAnn}, Pointwise (TextRel split k) l r → (∀ e ∈ l, 0 ≤ e.time) → ∀ e ∈ r, 0 ≤ e.time
  | [], [], _, _ => by intro e he; simp at he
  | a :: l, b :: r, h, hl => by
    intro e he
    rcases List.mem_cons.mp he with rfl | he
    · have hab := h.1
      have ha := hl a (by simp)
      unfold TextRel at hab
      split at hab
      · obtain ⟨c, _, rfl⟩ := hab; exact ha
      · rw [hab]; exact ha
    · exact pointwise_time h.2 (fun x hx => hl x (List.mem_cons_of_mem _ hx)) e he
  | [], _ :: _, h, _ => by simp [Pointwise] at h
  | _ :: _, [], h, _ => by simp [Pointwise] at h

theorem moveNote_times (k : Int) (n : Note) : (moveNote k n).start = n.start ∧ (moveNote k n).end_ = n.end_ := by
  cases hd : n.isDrum <;> simp [moveNote, hd]

theorem wf_transpose (split : String → Except Err Sym) (s out : NoteSeq) (k mn mx : Int) (tc : Bool) (deleted : Nat)
    (hw : WF s) (h : transposeNS split s k mn mx tc = .ok (out, deleted)) : WF out := by
  obtain ⟨hn, _, _, ⟨hcov, htot, _⟩, hks, htx1, htx2, htp, hts, hcc, hb, hsa, _⟩ := transpose_ns_spec split s out k mn mx tc deleted h
  refine ⟨?_, htot, ⟨by rw [htp]; exact hw.events.tempos, by rw [hts]; exact hw.events.timeSigs, ?_, ?_,
    by rw [hcc]; exact hw.events.ccs, by rw [hb]; exact hw.events.bends, by rw [hsa]; exact hw.events.sectionAnns⟩⟩
  · intro n hn'
    have hc := hcov n hn'
    rw [hn] at hn'
    obtain ⟨m, hm, rfl⟩ := List.mem_map.mp hn'
    obtain ⟨h0, h1, _⟩ := hw.notes m (List.mem_filter.mp hm).1
    rw [(moveNote_times k m).1, (moveNote_times k m).2] at *
    exact ⟨h0, h1, hc⟩
  · intro e he
    rw [hks] at he
    obtain ⟨m, hm, rfl⟩ := List.mem_map.mp he
    exact hw.events.keySigs m hm
  · cases tc with
    | true => exact pointwise_time (htx1 rfl) hw.events.texts
    | false =>
      intro e he
      rw [htx2 rfl] at he
      exact hw.events.texts e (List.mem_filter.mp he).1

/-- every returned note is an input note with its tag, velocity, instrument, … and times; drums keep
their pitch, pitched notes are moved by exactly `k`; no note occurs twice -/
theorem no_invention_transpose (split : String → Except Err Sym) (s out : NoteSeq) (k mn mx : Int) (tc : Bool)
    (deleted : Nat) (h : transposeNS split s k mn mx tc = .ok (out, deleted)) :
    NoInvention s.notes out.notes ∧ NoDuplication s.notes out.notes ∧
      ∀ n ∈ out.notes, ∃ m ∈ s.notes, SameNote m n ∧ n.start = m.start ∧ n.end_ = m.end_ ∧
        n.pitch = (if m.isDrum then m.pitch else m.pitch + k) := by
  obtain ⟨hn, _⟩ := transpose_ns_spec split s out k mn mx tc deleted h
  have hsame : ∀ m : Note, SameNote m (moveNote k m) := by
    intro m
    cases hd : m.isDrum <;> simp [moveNote, hd, SameNote]
  rw [hn]
  refine ⟨?_, ?_, ?_⟩
  · intro n hn'
    obtain ⟨m, hm, rfl⟩ := List.mem_map.mp hn'
    exact ⟨m, (List.mem_filter.mp hm).1, hsame m⟩
  · intro t
    refine Nat.le_trans (NoDuplication.map (moveNote k) (fun m => (hsame m).1) _ t) ?_
    exact List.Sublist.length_le (List.Sublist.filter _ List.filter_sublist)
  · intro n hn'
    obtain ⟨m, hm, rfl⟩ := List.mem_map.mp hn'
    refine ⟨m, (List.mem_filter.mp hm).1, hsame m, (moveNote_times k m).1, (moveNote_times k m).2, ?_⟩
    cases hd : m.isDrum <;> simp [moveNote, hd]

end NSV.C11
